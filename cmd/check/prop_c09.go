package main

func init() {
	register(propSpec{
		ID: "C09", Pkg: "props/c09", NeedCLI: true,
		Rule: "cases: (a) every ordered pair of sequences of length 1..4 over {A,C} (quick) / 1..5 over {A,C,G} (thorough), and of length 1..4 over {a,C} and {A,a} (thorough also {A,a,C}), x 54 schemes (match 1,2,5; mismatch -1,-4; extend -0.5,-1,-3; open = extend, extend-1, -10), and every ordered pair of length 1..3 (1..4) over {A,R,N}, {G,S,B}, {Q,E,L}, {F,I,Z} with the built-in matrices x 4 gap settings, and of length 1..4 over {E,D,A,R} with BLOSUM62, open -3.5, extend -0.5; of length 1..3 over the soft-masked {a,R,n}, {q,E,l}; every entry of EDNAFULL (16x16) and BLOSUM62 (24x24) pinned through a flanked pair, with one or both letters in lower case too; " +
			"(b) random pairs of length 1..40, IUPAC DNA (U and the unknown-base X sometimes: every character of the nucleotide index map) or protein (20 aa + B,Z,X,*), the second sequence usually a mutated window (substitutions, block insertions/deletions) of the first between random flanks, low-complexity pools included, half of the pairs soft-masked (one or both sequences entirely, in a window, or residue by residue in lower case), with match/mismatch schemes (multiples of 0.5, open <= extend < 0, open = extend included, extend down to -15 and open down to -25, long copies with one block indel so that gapped optima exist under expensive gaps) or the built-in matrices; in two thirds of the cases the aligner is configured by a drawn history of setter calls (the three setters in any order, setters with default values left out, earlier calls with other values overwritten later), and the enumerated grids run through all six orders of the three setters; (c) both algorithms of the aligner incl. refused characters and soft-masked input for the inputs-unmodified clause; (d) goalign sw executions with every subset of --match/--mismatch/--gap-open/--gap-extend, -l log, -o, 1/2/3 input sequences. " +
			"Oracle: validity predicate on the returned rows (equal lengths = Length(), no all-gap column, rows without gaps = input[AlignStarts..AlignEnds] inclusive, byte for byte (case included), matches/mismatches/gaps recounted from the rows and adding up to Length(), Alignment object = Seq1Ali/Seq2Ali, inputs byte-identical afterwards); when the optimum of an independent three-state Gotoh dynamic program is > 0: score of the returned rows recomputed under gap(n)=open+(n-1)*extend == MaxScore() == Gotoh optimum, exactly; for inputs of length <= 3 the Gotoh optimum is itself compared with a one-by-one enumeration of all local alignments; the matrices are the oracle's own copies of NUC.4.4(+U=T) and NCBI BLOSUM62, checked for symmetry. " +
			"Non-trivial: optimum > 0 and (the returned alignment contains a gap, or starts at position 0 of a sequence, or is not the whole of both sequences); for the inputs-unmodified run: neither sequence is a palindrome; distinct = distinct (s1,s2,scheme)",
		Assumptions: []string{
			"positions reported by AlignStarts/AlignEnds are 0-based and inclusive (doc comment 'Indices of alignment end', cmd/sw.go log)",
			"sequences have at least one residue",
			"the setters are independent: the configuration is the last value given to each (defaults open -10, extend -0.5, built-in matrix when SetScore was never called), whatever the order of the calls",
			"X in a nucleotide sequence is the unknown base and is scored as N (goalign's nucleotide index map lists it; EMBOSS reads it that way); a refusal of a nucleotide pair containing X is a violation",
			"lower case (soft-masked) letters: the built-in matrices score the letter whatever its case; for match/mismatch schemes and for the match/mismatch counts the documentation does not say whether a and A match, so a case-sensitive and a case-folded reading are both accepted (counted as ambiguous when only the second fits) - but the reported score, the score of the returned rows, the optimum and the counts must all hold under one and the same reading",
			"which built-in matrix applies: a pair drawn as protein that contains a letter which is no nucleotide code (Q,E,I,L,F,P,Z) is scored with BLOSUM62, a pair drawn as DNA with EDNAFULL; a protein pair made only of letters that are nucleotide codes too is open: either matrix, or a refusal when a letter is outside EDNAFULL, is accepted and counted as ambiguous",
			"match/mismatch/gap counts are read as: identical residues / different residues / columns holding a gap",
			"absence of violations is established on the explored cases only; sub-spaces (a) are enumerated completely",
		},
		LevelText: "Bounded-exhaustive enumeration plus generated-input search against a reference model: all ordered pairs up to length 4 over {A,C}, {a,C} and {A,a} x 54 schemes (145 800 cases; thorough: up to length 5 over {A,C,G}, 7.1 million), all 832 matrix entries (in three case variants), and ~180 000 (quick) to ~8 million (thorough) random related pairs and command executions, each judged by a validity predicate and by exact comparison with an independent Gotoh optimum (itself cross-checked by brute-force enumeration for lengths <= 3). Shows absence of violations on what was explored; the enumerated sub-spaces are complete.",
		LevelNote: "trusts the harness's Gotoh program (cross-checked by enumeration up to length 3), its typed copies of NUC.4.4/BLOSUM62, and its readers of the FASTA output and of the sw log",
		Technique: "bounded-exhaustive enumeration + property-based testing (rapid): reference dynamic program, brute-force enumeration, validity predicate; command-line differential",
		DesignRef: "DESIGN.md section 5, C09",
		Runs: []runSpec{
			{Name: "exhaustive", Test: "^TestExhaustive$", Quick: 1, Thorough: 1},
			{Name: "exhaustive-matrix", Test: "^TestExhaustiveMatrix$", Quick: 1, Thorough: 1},
			{Name: "matrix-entries", Test: "^TestMatrixEntries$", Quick: 1, Thorough: 1},
			{Name: "random", Test: "^TestRandom$", Quick: 150000, Thorough: 600000, Shards: 12},
			{Name: "inputs", Test: "^TestInputsUnmodified$", Quick: 30000, Thorough: 300000, Shards: 2},
			{Name: "cli", Test: "^TestCLI$", Quick: 1200, Thorough: 5000, Shards: 4},
		},
	})
}
