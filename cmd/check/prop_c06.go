package main

func init() {
	register(propSpec{
		ID: "C06", Pkg: "props/c06", NeedCLI: true,
		Rule: "cases: nucleotide alignments/sequence sets (1-6 rows, length 0-25, full IUPAC DNA alphabet in both cases plus '-', '.', '*') with a drawn subset of names (unknown and repeated names included), protein/nucleotide sets for case and un-align, all 256 byte values for the complement table, and goalign revcomp/tolower/toupper/unalign executions (FASTA in drawn layouts or Phylip files of 1-4 alignments, --unaligned sequence sets, output to standard output, a new file or an existing longer file; in a third of the multi-alignment files one alignment has a short row and the status must then be non-zero). A third of the library alignments are not freshly built but come out of a drawn chain of other public operations ending on the same content (internal/gen provenance plans); Sequence-level Reverse/Complement also on rows reached by index and by name. Prior use (after-edit run): on one object (alignment or set, 1-5 rows, length 0-15) a transform of the property is applied, then 1-3 drawn in-place edits by the library's own mutators (ReplaceChar, SetSequenceChar, writes through SequenceChar() of a row reached by index or name, Mask/MaskUnique/MaskOccurences, Mutate, ReplaceMatchChars, Swap, Replace, ReverseComplement, Sequence.Reverse/Complement, Sort), then a transform (the same one half of the time) judged by the same model on the content read back after the edits, for 2-3 rounds. " +
			"Oracle: complement derived from set complementation of the IUPAC definitions, reverse, ASCII case maps, deletion of '-'; involution and idempotence. " +
			"Non-trivial: the transform changed the data AND the rows contain a non self-complementary ambiguity code or mixed case or the subset is a proper subset (revcomp); mixed case and at least one gap removed (case/unalign); distinct = distinct JSON form of the case",
		Assumptions: []string{
			"U/u are outside the DNA alphabet of the quantifier (the table maps U to A, so no involution is claimed for RNA); any behaviour on them is accepted",
			"absence of violations is established on the explored cases only; the 256-entry complement table is enumerated completely",
		},
		LevelText: "Generated-input search against a reference model: ~14 000 (quick) to ~2 million (thorough) alignments, subsets and command executions compared with a complement derived from IUPAC set complementation, plus complete enumeration of the 256-entry byte table. Shows absence of violations on what was explored; the table part is exhaustive.",
		LevelNote: "trusts the harness's IUPAC set table and its minimal FASTA reader; RNA letters U/u are outside the quantifier",
		Technique: "property-based testing (rapid): reference model + involution/idempotence relations; exhaustive table enumeration; command-line differential",
		DesignRef: "DESIGN.md section 5, C06",
		Runs: []runSpec{
			{Name: "revcomp", Test: "^TestRevComp$", Quick: 6000, Thorough: 100000, Shards: 8},
			{Name: "table", Test: "^TestComplementTable$", Quick: 1, Thorough: 1},
			{Name: "case-unalign", Test: "^TestCaseUnalign$", Quick: 4000, Thorough: 100000, Shards: 4},
			{Name: "sequence", Test: "^TestSequenceLevel$", Quick: 4000, Thorough: 100000, Shards: 2},
			{Name: "after-edit", Test: "^TestAfterEdit$", Quick: 6000, Thorough: 100000, Shards: 4},
			{Name: "cli", Test: "^TestCLI$", Quick: 600, Thorough: 4000, Shards: 4},
		},
	})
}
