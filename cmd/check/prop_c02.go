package main

func init() {
	register(propSpec{
		ID: "C02", Pkg: "props/c02", NeedCLI: true, QuickParallel: 3,
		Rule: "cases: alignments of 1-6 rows built through the public constructors (alphabet detected after insertion); length from a boundary-biased distribution (1-12; every writer width 10/50/60/80 times k, plus and minus 1; 99-101 ... 239-241 (up to 1000 in thorough); uniform), half of the boundary draws using a width of the configuration at hand; residues nucleotide or protein IUPAC letters in both cases plus '-', '*', '?' (no '.'), a share of cases (nominally 1 in 25, more under rapid's bias to small values) with a whole row spelling a lexer keyword; names of 1-16 printable non-blank characters drawn from plain names, random printable ASCII, 9-12 character names, a few non-ASCII letters and a hostile-but-legal dictionary (pure numerics, x_0001, Nexus/Clustal/Stockholm keywords in three cases, 10/11 character names, other formats' delimiters) and, for one name in thirteen, a variant of an earlier name of the same alignment (case changed, last character changed), minus the delimiters of the formats of the case (FASTA '>'; Nexus '[ ] ; ='; Stockholm leading '#' and the name '//'; strict Phylip: at most 10 bytes), pairwise distinct. " +
			"Configurations: FASTA; Phylip x {strict} x {one-line} x {no-block}; Nexus; Clustal; Stockholm (12), each also enumerated for every length 1..250 (1..1000 thorough) x {nt, aa}; files written through utils.OpenWriteFile with no extension/.gz/.xz - the text cut at 0-4 drawn positions, the pieces given in turn to WriteString or Write; in one case in four the path already exists and holds a longer content (written before through OpenWriteFile, or a plain file put there by the harness) - and read through utils.ReadAlign or GetReader+parser; in the file and command-line runs a base alignment may be repeated (rows = rotated copies of the base rows, the case stores base and factor) so that 1 text in 10 exceeds each of 4, 8, 32 and 64 KiB (up to ~130 000 columns), i.e. the 4096-byte buffered writers/readers and the compressors' blocks are crossed; lists of 2-6 Phylip alignments of mixed sizes (tiny ... > 64 KiB of text, either order) written to one plain/.gz/.xz file, one write per alignment cut further by the drawn positions, and read through GetReader + ParseMultiAlignmentsAuto with the file passed as closer (the call pattern of the command line under --auto-detect) or GetReader + ParseMultiple; files compressed by the harness read through GetReader; ParseAlignmentAuto and ParseMultiAlignmentsAuto on FASTA/Nexus/Clustal/Phylip text; streams of 1-4 Phylip alignments (options drawn per alignment) through ParseMultiple and repeated Parse; chains of 2-5 conversions; goalign reformat fasta/phylip/nexus/clustal from -p/-x/-u/-k/--auto-detect/no flag, --input-strict/--output-strict/--one-line/--no-block, stdin or plain/.gz/.xz input, stdout or -o plain/.gz/.xz (one -o path in three exists before and is longer than the output), Phylip streams of 1-5 alignments of mixed sizes (input files up to several 100 KiB) for reformat phylip/fasta under -p and --auto-detect. " +
			"Oracle (inverse): parse(write(a)) has the same names in the same order, the same residues, the same length and the same detected alphabet as a, and is written to the same text; the file on disk, decompressed with Go's gzip / the xz package, is byte-identical to the text, and a file written over an existing longer one is byte-identical on disk to the same writes to a fresh path (nothing follows the stream); ParseMultiple (in memory and on files) and ParseMultiAlignmentsAuto on files return exactly the list, no error, then the end of the stream; auto-detection returns the code of the format written; every step of a chain and its end equal the first alignment; command line: exit status 0, output (FASTA also read by an independent reader) equal to the input alignment(s) - first alignment only for reformat fasta, all for reformat phylip. " +
			"Non-trivial: the alignment needs more than one output line or block in that format, or its length is a multiple of a line/block width, or a name is in the hostile dictionary or a row spells a keyword (streams in memory: and at least two alignments; chains: and at least two formats; streams in files: the text exceeds the 4096 bytes buffered when the opening call returns); distinct = distinct JSON form of the case",
		Assumptions: []string{
			"'representable' is read from each format's lexical rules: names are non-empty, without blanks or control characters, without '>' (FASTA), '[ ] ; =' (Nexus), a leading '#' or the name '//' (Stockholm), at most 10 bytes for strict Phylip; residues exclude '.', the match/gap character of Nexus and Stockholm; O, J and mixtures of U with protein-only letters are outside (no detected alphabet)",
			"the line width itself is not part of the statement: a writer wrapping at another width is not reported as long as the round trip is lossless",
			"with --auto-detect the command-line help says Phylip is read as not strict while the code honours --input-strict; strict Phylip input is therefore given with -p only",
			"input files of the command-line tier are written with goalign's own writers (judged by the library runs); reformat nexus/clustal are observed on single alignments",
			"absence of violations is established on the explored cases; the sub-space 'every length up to the bound x 12 configurations x 2 alphabets on a patterned 4-row alignment' is enumerated completely",
		},
		LevelText: "Generated-input search with an inverse oracle: ~45 000 (quick) to ~3 million (thorough) alignments, streams, chains, files and command executions written and read back, compared name by name and residue by residue, plus complete enumeration of every length up to 250 (1000) for each of the 12 writer configurations and ~1 million coverage-guided fuzz executions of the write-parse pair (bytes decoded into an alignment, one byte per residue) in the thorough tier. Shows absence of violations on what was explored; only the enumerated lengths are exhaustive.",
		LevelNote: "trusts Go's compress/gzip and github.com/ulikunitz/xz as independent readers of compressed files, the harness's minimal FASTA reader, and my reading of each format's delimiters (stated in the rule)",
		Technique: "property-based testing (rapid): writer/parser inverse, chains and streams; bounded-exhaustive enumeration over lengths x configurations; command-line differential; coverage-guided fuzzing of the inverse (thorough)",
		DesignRef: "DESIGN.md section 5, C02",
		Runs: []runSpec{
			{Name: "roundtrip", Test: "^TestRoundTrip$", Quick: 20000, Thorough: 120000, Shards: 8},
			{Name: "lengths", Test: "^TestAllLengths$", Quick: 1, Thorough: 1},
			{Name: "multi-phylip", Test: "^TestMultiPhylip$", Quick: 6000, Thorough: 60000, Shards: 4},
			{Name: "auto-detect", Test: "^TestAutoDetect$", Quick: 6000, Thorough: 60000, Shards: 4},
			{Name: "chain", Test: "^TestChain$", Quick: 6000, Thorough: 60000, Shards: 4},
			{Name: "file-layer", Test: "^TestFileLayer$", Quick: 1200, Thorough: 8000, Shards: 4},
			{Name: "file-stream", Test: "^TestFileStream$", Quick: 800, Thorough: 6000, Shards: 4},
			{Name: "compressed-input", Test: "^TestCompressedInput$", Quick: 600, Thorough: 5000, Shards: 2},
			{Name: "cli", Test: "^TestCLI$", Quick: 700, Thorough: 3000, Shards: 6},
		},
		Fuzz: []fuzzSpec{
			{Target: "FuzzRoundTripFasta", Seconds: 20},
			{Target: "FuzzRoundTripPhylip", Seconds: 30},
			{Target: "FuzzRoundTripNexus", Seconds: 20},
			{Target: "FuzzRoundTripClustal", Seconds: 20},
			{Target: "FuzzRoundTripStockholm", Seconds: 20},
		},
	})
}
