package main

func init() {
	register(propSpec{
		ID: "C15", Pkg: "props/c15", NeedCLI: true,
		Rule: "cases: nucleotide and protein alignments of 1-6 rows and 1-15 columns, one in 80 (one in 40 from the command line) tiled to 1000-2600 columns (around 1024 and 2048 too) with a few edited cells, (drawn column-wise from few patterns so that counts repeat and tie, gap rich, some with lower case incl. protein-only and RNA letters, N/X, '.' and '*'), alphabet forced or - for a third of those whose letters decide it - detected (AutoAlphabet; no --alphabet on the command line), one library case in three built through a drawn chain of public operations ending on the generated content (clone, touch, rename cycle, cut window, select sites, trim gap / constant ends, drop gap rows, concat, append, re-parse FASTA); " +
			"Mask with windows (start,length) over [-1,L+2]^2 (inside, ending on the last column, overhanging by 1-3, by 1000 / 2^31 or up to math.MaxInt (incl. MaxInt-start and MaxInt-start+1), empty, start == L, negative, huge and huge negative starts/lengths), replacement '' / AMBIG / GAP / MAJ / a literal character / an unknown word, both protection flags, reference none / each row / an unknown name; " +
			"MaskOccurences and MaskUnique with thresholds 0..n+1 (and MaxInt, MinInt, -1), the same replacements and references; every (start,length) in [-1,L+2]^2 x flags x references x replacements and every threshold for two fixed alignments by enumeration; " +
			"executions of goalign mask with -s -l (on the alignment or on the ungapped reference through --ref-seq), --pos lists, --unique with --at-most (also together with the flags documented as ignored), --replace, --no-gaps, --no-ref, explicit and detected alphabet, on FASTA files (a third in another presentation; a third with -o to a new file, an existing stale file or a .gz file that is read back; a quarter of the windows leaving out -s 0 / -l 10, the documented defaults) and - one execution in three - on Phylip files holding 2-3 alignments (the command loops over them; each output alignment is judged with the model of ITS input alignment). " +
			"Oracle: frame condition and selection rule computed on the generated rows - an error iff start < 0, start > L, the needed reference does not exist or the replacement is an unknown word; otherwise in the columns start <= i < min(start+length, L) a cell becomes the replacement iff it is not a protected gap and not a protected copy of the reference residue, every other cell (rows read back by index over their full length), all names, the row order and Length() are unchanged (also after a reported error); the replacement of ''/AMBIG follows the alphabet of the object, for a detected alphabet the one the documented character sets give; " +
			"MaskOccurences: a non-gap cell of a row other than the reference whose residue differs from the reference's (or the reference has a gap) is rewritten iff at most k such cells of the column carry its residue; replacement N/X by alphabet, '-', the literal, or for MAJ one of the most frequent characters (of the column, of the counting cells), the same one for all rewritten cells of a column. " +
			"Non-trivial: at least one cell inside the selection is protected (kept) and at least one is rewritten; distinct = distinct JSON form of the case (enumeration: distinct tuples)",
		Assumptions: []string{
			"open corners accepted in every reading and counted as ambiguous: an empty window at position L and a negative length (error or nothing masked), an unknown reference name when no protection is asked, a reference window of length 0 from the command line",
			"MAJ: any of the tied most frequent characters (gap included, it is a character) is accepted; with a reference both 'most frequent of the column' (the code of Mask) / 'of the counting cells' (the pinned MaskUniqueMAJ test) and 'of the column without the reference row' (docs/commands/mask.md) are accepted",
			"a cell that is the reference residue in the other letter case may be protected or not; a column that holds one letter in both cases may be counted either way by MaskOccurences (any cell kept or rewritten)",
			"windows whose start+length overflows int are generated and judged like any other: Mask truncates them at the end of the alignment, mask --ref-seq refuses them through RefCoordinates (defects before fixes eed1939 and d923a70)",
			"goalign mask --ref-seq R --pos a,b,... is judged with every position read on the reference as given, also when an earlier position turns the reference residue into a gap (wrong columns before fix 4edb852)",
			"--pos lists with the MAJ replacement are drawn without repeated positions (a column masked twice takes its second majority from the masked column)",
			"absence of violations is established on the explored cases only; the enumerated sub-space is covered completely",
		},
		LevelText: "Generated-input search against a reference model: ~300 000 (quick) to ~4.8 million (thorough) maskings of generated alignments, ~20 000 enumerated option tuples on two fixed alignments and ~3 000 (quick) to ~32 000 (thorough) executions of goalign mask, each compared cell by cell with a frame-and-selection model written from the documentation. Shows absence of violations on what was explored; the enumerated tuples are exhaustive for the two alignments.",
		LevelNote: "trusts the harness's own selection model and its minimal FASTA and Phylip readers; corners the documentation leaves open are accepted in every reading and counted",
		Technique: "property-based testing (rapid): reference model with frame condition; bounded-exhaustive enumeration of windows, flags and thresholds; command-line differential",
		DesignRef: "DESIGN.md section 5, C15",
		Runs: []runSpec{
			{Name: "mask", Test: "^TestMask$", Quick: 150000, Thorough: 150000, Shards: 16},
			{Name: "occurences", Test: "^TestOccurences$", Quick: 150000, Thorough: 150000, Shards: 16},
			{Name: "enumerate", Test: "^TestEnumerate$", Quick: 1, Thorough: 1},
			{Name: "cli", Test: "^TestCLI$", Quick: 3000, Thorough: 4000, Shards: 8},
		},
	})
}
