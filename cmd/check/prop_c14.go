package main

func init() {
	register(propSpec{
		ID: "C14", Pkg: "props/c14", NeedCLI: true, QuickParallel: 3,
		Rule: "cases: nucleotide and protein alignments, 1-8 rows x 1-12 columns, generated column by column from column kinds (constant, all gaps, all N/X, gaps and N/X only, exact 2-4 way ties among residues padded with gaps/wildcards and shuffled, two characters, one singleton on a constant background, random) over ACGTN- (a quarter with the IUPAC codes RYSWKMBDHV), ARNDLKX-, and their mixed-case versions for the statistics the statement calls case-folded (CharStats, CharStatsSeq, CharStatsSite, MaxCharStats/Consensus); sequence indices -1..n and site indices -1..L; a drawn second alignment or hand-built table as count profile; special characters * . ? (X/x in nucleotides) sprinkled into whole columns or single cells of the reference-relative and unique-counter cases; the first, a chosen row, or an external sequence (also of a wrong length) as reference; pseudo-counts {0, 0.5, 1, 2.25} x log x normalisation {none, frequency, unknown}; and executions of goalign consensus, stats (summary, char, char --per-sequences/--per-sites, maxchar, gaps --unique, mutations --unique/--ref-sequence, mutations list, alleles, --per-sequences), compute entropy (-g, -a), compute pssm (-n, -c, -l), diff --counts (--no-gaps). " +
			"Oracle: naive recomputation from the columns: case-folded counts; count profile entries (upper-case input); the returned majority character must be one of the most frequent among the characters not excluded by ignore-gaps / ignore-N (wildcard of the alignment's own alphabet), occur/total exact, on an excluded-only column one of the kinds present, and MaxCharStats/Consensus must return the same on 30 further calls; entropy -sum p ln p (1e-12, NaN when nothing is counted, bit-identical on 5 further calls); variable sites; informative sites (two characters occurring twice, gaps and wildcard not considered); average alleles; PSSM (count+pseudo)/(n+K*pseudo), log2; residues/gaps unique in their column with unique/new/both against the profile; number and list of substitutions (IUPAC sets disjoint; N/X and, for the count, gaps of the compared sequence never counted), grouped insertions and single deletions with reference coordinates; CountDifferences against the first row; every index outside the alignment must give an error, a panic is a violation; the alignment must be unchanged. " +
			"Non-trivial: a column with >= 2 distinct counted characters (counts, site measures), a tie for the maximum (majority), a residue or gap unique in its column (unique), a substitution against the reference (reference), the analogous condition per command; distinct = distinct JSON form of the case",
		Assumptions: []string{
			"'*', '.', '?' (and X/x in nucleotide rows) are drawn at a low rate (a quarter of the cases, a fifth of their columns) in the reference-relative, unique-counter and CountDifferences runs and the corresponding commands: a cell identical to the reference cell is never a substitution, insertion or deletion; a non identical pair with such a character may be counted/listed or not (every combination tried for the list, ambiguous), a unique such character may count as unique mutation or not, an error for '?' in nucleotides is accepted; the other runs do not generate them (the doc comments exclude them from some statistics and are silent for others)",
			"mixed case only for CharStats, CharStatsSeq, CharStatsSite, MaxCharStats, Consensus (and the commands printing them); NewCountProfileFromAlignment is case sensitive in the code although the statement lists the count profile among the case-folded counts: on mixed-case input it is recorded (class profile:mixed-case-not-asserted), not asserted",
			"readings accepted where the documentation is silent (counted as ambiguous): whether N/X counts as a character for variable sites and alleles; whether the letter of the other alphabet (X in nucleotides, residue N in proteins) is 'not considered' for informative sites; occur/total on a column where every cell is excluded; whether a reference X makes a protein substitution",
			"float results are compared with the naive value with tolerance 1e-12 (relative above 1); repeated Entropy calls must be bit-identical (NaN equals NaN); values read from command output are compared with half a unit of the last printed decimal",
			"a count profile of another length than the alignment is outside the domain",
			"absence of violations is established on the explored cases only",
		},
		LevelText: "Generated-input search against naive reference computations: about 225 000 (quick) to 3 million (thorough) column-wise generated alignments with forced ties, all-gap and all-N columns, every statistic of the statement recomputed from the columns, 30-fold repetition for the tie-breaking statistics, all site indices from -1 to L, and 2 500 to 12 000 command executions read with independent table readers. Shows absence of violations on what was explored.",
		LevelNote: "trusts the harness's naive definitions (taken from the doc comments and the pinned tests), its IUPAC set table and its minimal output readers",
		Technique: "property-based testing (rapid): reference model per statistic, validity predicate for ties, repetition for determinism, boundary indices; command-line differential",
		DesignRef: "DESIGN.md section 5, C14",
		Runs: []runSpec{
			{Name: "counts", Test: "^TestCounts$", Quick: 40000, Thorough: 100000, Shards: 4},
			{Name: "majority", Test: "^TestMajority$", Quick: 24000, Thorough: 40000, Shards: 16},
			{Name: "site-measures", Test: "^TestSiteMeasures$", Quick: 60000, Thorough: 100000, Shards: 8},
			{Name: "unique", Test: "^TestUnique$", Quick: 40000, Thorough: 100000, Shards: 4},
			{Name: "reference", Test: "^TestReference$", Quick: 60000, Thorough: 100000, Shards: 8},
			{Name: "cli", Test: "^TestCLI$", Quick: 2500, Thorough: 3000, Shards: 4},
		},
	})
}
