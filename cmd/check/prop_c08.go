package main

func init() {
	register(propSpec{
		ID: "C08", Pkg: "props/c08", NeedCLI: true, RaceInQuick: true, Isolated: true,
		Rule: "cases: nucleotide alignments generated as for C07 (3-10 rows, 1-40 columns, up to 40 rows for thread fan-out, and a class of 46-80 sequences x 1-12 columns, i.e. more than 1024 pairs, in the relations, thread-count and race runs; ACGT / gaps / IUPAC tiers in upper, lower, soft-masked and mixed case; identical to saturated pairs) x 7 models x gamma/alpha x rm-gaps x gap-mut x rm-ambiguous x weights, with a drawn column permutation, replication factor 1-4 (adjacent copies or concatenated copies), row permutation and thread counts from {1,2,3,8,16,32}; transformed alignments are built directly or through SelectSites/ReverseComplement; in half of the relation and thread-count cases ALL matrices of the case are computed with ONE model object (as cmd/computedist.go does for several alignments in one input and cmd/distboot.go for every replicate), in the order original -> transformed or transformed -> original (the original recomputed after each transformed alignment must be bit-identical to its first matrix); fault models wrapping a real DistModel whose Distance (or Sequence) fails at the k-th call, once or from then on (then optionally with a barrier so that every worker reports its failure at the same moment), for EVERY k in 1..#calls+1 and threads {1,2,4,16}; the same on 16-40 sequences (120-780 pairs, more than the channel between producer and workers holds) with the failure at the first call, an early one, around the 100th, a drawn one and the last three; goalign compute distance with -t 1,2,3,8,16,32, one case in three on a phylip file with two alignments of different numbers of sequences and ranges over both (each matrix judged for its own alignment); goalign compute distance -p on ONE phylip file holding the original and a transformed alignment (column permutation, replication, reverse complement, row permutation; either order), whose two printed matrices must satisfy the relation at 1e-9. " +
			"Oracle (metamorphic, relative 1e-9 on the pairs whose estimator is well conditioned under every reading; undefined pairs must be undefined on both sides): D(permuted columns, permuted weights) = D; D(every column k times) = D(weights k*w) = D, raw distances x k; D(unit weights) = D(nil); D(reverse complement, reversed weights) = D; D(permuted rows) = permuted D; the internal-gap counting mode is exempt from the column relations and from the reverse complement. Matrices for all thread counts, and two runs with 8 threads, are compared BITWISE, and the matrix of the thread-count run is judged entry by entry against the C07 oracle. The same checks run in a -race build under GOMAXPROCS 4 (quick) and 1,2,4,16 (thorough): any race report fails. Fault injection: the call returns within the watchdog (20 s, >= 10^4 x the normal time; a miss is confirmed alone in a fresh process) with the injected error; with k beyond the last call it returns the unchanged matrix. The command prints identical bytes for every -t and the printed matrix agrees with the C07 oracle at 1e-9. " +
			"Non-trivial: the transformed alignment differs from the original as a byte matrix and the matrix has a finite non-zero entry (relations); >= 3 computed pairs and a finite non-zero entry (threads; always >= 2 threads); >= 1 call of the failing method (faults); distinct = distinct JSON form of the case",
		Assumptions: []string{
			"the race detector and varied GOMAXPROCS explore interleavings, they do not enumerate them: a race that needs a rare schedule can be missed",
			"the relative tolerance of a pair whose smallest log argument is x is 1e-9 + 2 x 4e-14/x (divided by alpha under gamma with alpha < 1): two presentations round the argument differently and -ln x / x^(-1/alpha) amplify that (seen in the thorough tier: x = 1.19e-6, F84+gamma, 1.6e-9 apart; regress/c08/c08-near-ill-boundary-*.json)",
			"pairs whose smallest log argument is within 1e-6 of 0, or whose classification differs between the accepted readings of C07, are not compared by the relations (counted as ill_conditioned); the substitute 2*max is compared only when no such pair exists in the matrix",
			"the transformations done through the goalign API (SelectSites, ReverseComplement) are checked against rows built by the harness; their correctness is the subject of C04/C06",
			"thread counts up to 32 = 2 x the 16 cores of the reference machine",
			"absence of violations is established on the explored cases only",
		},
		LevelText: "Generated-input search with metamorphic relations: thousands (quick) to hundreds of thousands (thorough) of alignments, each presented in up to seven equivalent ways and compared at 1e-9; bitwise comparison across six thread counts; the same under the race detector with varied GOMAXPROCS; fault injection at every call index x four thread counts under a watchdog. Shows absence of violations and of reported races on what was explored.",
		LevelNote: "schedules are sampled, not enumerated; ill-conditioned pairs are exempt from the relations",
		Technique: "property-based testing (rapid): metamorphic relations; bitwise differential across thread counts; race detector runs; fault injection through the DistModel interface with a process-level watchdog; command-line differential",
		DesignRef: "DESIGN.md section 5, C08",
		Runs: []runSpec{
			{Name: "relations", Test: "^TestRelations$", Quick: 4000, Thorough: 60000, Shards: 8},
			{Name: "threads", Test: "^TestThreads$", Quick: 2500, Thorough: 40000, Shards: 4},
			{Name: "fault", Test: "^TestFault$", Quick: 1000, Thorough: 3000, Shards: 6},
			{Name: "fault-large", Test: "^TestFaultLarge$", Quick: 200, Thorough: 2000, Shards: 2},
			{Name: "race", Test: "^TestRace$", Quick: 150, Thorough: 2000, Race: true, GoMaxProcs: []int{4, 1, 2, 16}},
			{Name: "cli", Test: "^TestCLI$", Quick: 60, Thorough: 800, Shards: 4},
			{Name: "cli-two-alignments", Test: "^TestCLITwoAlignments$", Quick: 300, Thorough: 3000, Shards: 2},
		},
	})
}
