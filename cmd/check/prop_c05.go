package main

func init() {
	register(propSpec{
		ID: "C05", Pkg: "props/c05", NeedCLI: true,
		Rule: "cases: (1) exhaustively every codon over the 40 characters the nucleotide alphabet admits (A,C,G,T,U and the 11 IUPAC codes in both cases, '-', X, x, ?, '.', '*', O, o) x 3 genetic codes, translated in frames 0, 1 and 2, plus GenAllPossibleCodons of each; (2) sequences, sequence sets (rows of different lengths) and alignments of 1-5 rows, each in frames 0,1,2 and the three frames at once, length 0-40, drawn from five character tiers (ACGT; ACGTU both cases; IUPAC both cases with gaps; every admitted character; codon structured with third/first position ambiguity, whole-gap and partial-gap codons); (3) CodonAlign of 1-5 ungapped nucleotide rows of length 3k+r (k 1-10, r 0-2) onto the model's own translations with every row's residues placed at drawn columns of a wider protein alignment, rows permuted, optionally one more nucleotide sequence; (4) TranslateByReference on gap-free alignments in frames 0,1,2 and on gapped alignments in frame 0 with a drawn reference row (one third: rows with gap runs or random gaps; two thirds: built around a reference of codons split by 1-6 gap columns or preceded by reference-only gap columns, the other rows block by block identical to the reference, with in-frame/out-of-frame insertions in the gap columns, one base changed, deleted or random, whole rows copied from the reference); (5) goalign translate (--phase -1..2, --genetic-code, --unaligned, --ref-seq) and codonalign | translate. " +
			"Oracle: NCBI tables 1, 2, 5 in the compact AAs/Base1/Base2/Base3 form and IUPAC codes as sets: a codon gives the amino acid common to all expansions else X, '---' gives '-', anything else X, after case folding and U->T; floor((L-frame)/3) residues, an error exactly when that is 0 for some sequence; three frames give rows name_0,name_1,name_2 per input (sets and alignments); Length() of a translated alignment = floor((L-frame)/3), and = floor(L/3) after the three frames when L = 2 mod 3; codon alignment of length 3 x protein length whose rows without gaps are the nucleotides minus the r trailing bases and whose translation is the protein alignment; reference guided = plain translation on gap-free alignments, and in frame 0 a rectangular result with the same names in the same order whose reference row without gaps is a prefix of the translation of the ungapped reference. " +
			"Non-trivial: a codon holds an ambiguity code, U, a lower-case letter or a gap, or a length is not a multiple of 3 (translation); the protein alignment has a gap (CodonAlign); >=2 rows and one of the former (reference guided, gap-free) or the reference row has an internal gap and a non-empty translation (gapped). distinct = distinct JSON form of the case (codon+code in the enumeration)",
		Assumptions: []string{
			"the NCBI tables 1, 2 and 5 and the IUPAC sets written in the harness are the authority (checked by hand against the NCBI page, not derived from align/const.go)",
			"GenAllPossibleCodons on a codon holding a gap: its comment says 'empty slice', the implementation returns the codon; the statement only needs '---' -> '-', so both are accepted (counted as ambiguous)",
			"reference guided translation of an alignment too short to hold one codon in the frame (plain translation is an error there) is not judged (counted as ambiguous)",
			"three-frame translation of an alignment: rows name_0,name_1,name_2 are checked as for sequence sets; Length() is asserted (= floor(L/3)) only when L = 2 mod 3, where the three row lengths coincide; otherwise the rows legitimately differ in length (upstream's own test.sh expects that output) and Length() is not judged (counted as ambiguous)",
			"outside the 64 000 x 3 enumerated codons, absence of violations is established on the explored cases only",
		},
		LevelText: "Complete enumeration of the finite core - all 64 000 codons over the admitted characters x 3 genetic codes x 3 frames compared with the NCBI tables - plus generated-input search (~120 000 quick, ~3 million thorough) for the frame arithmetic, the containers, the CodonAlign round trip, reference guided translation and the command line. The codon table part is exhaustive; the rest shows absence of violations on what was explored.",
		LevelNote: "trusts the harness's transcription of NCBI tables 1, 2, 5 and of the IUPAC sets, and its minimal FASTA reader",
		Technique: "bounded-exhaustive enumeration against a reference table; property-based testing (rapid) with a reference model, a round trip (thread back, translate again) and metamorphic relations (reference guided vs plain); command-line differential",
		DesignRef: "DESIGN.md section 5, C05",
		Runs: []runSpec{
			{Name: "codons", Test: "^TestCodonsExhaustive$", Quick: 1, Thorough: 1},
			{Name: "translate", Test: "^TestTranslate$", Quick: 50000, Thorough: 150000, Shards: 8},
			{Name: "codonalign", Test: "^TestCodonAlign$", Quick: 20000, Thorough: 100000, Shards: 4},
			{Name: "byreference", Test: "^TestByReference$", Quick: 40000, Thorough: 150000, Shards: 6},
			{Name: "cli", Test: "^TestCLI$", Quick: 2000, Thorough: 6000, Shards: 4},
		},
	})
}
