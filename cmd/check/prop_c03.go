package main

func init() {
	register(propSpec{
		ID: "C03", Pkg: "props/c03", NeedCLI: true, Isolated: true, MemLimitMB: 4096,
		Rule: "cases: byte strings for twelve entry points (FASTA Parse/ParseUnalign, Phylip relaxed/strict Parse and ParseMultiple, Nexus, Clustal, Stockholm, partition with a drawn declared length, ParseAlignmentAuto relaxed/strict) x duplicate-name policy x forced alphabet. " +
			"A valid file (written by the harness's own emitters from a drawn alignment with hostile-but-legal names, a static seed in the style of the repository's tests, or a file of corpus/<format>/) receives 0-6 structure-aware mutations (truncate, delete/duplicate/swap lines, flip/insert/delete a byte, delete a range, splice a token of a hostile dictionary (delimiters, keywords, CR, NUL, 19/20-digit integers, multi-byte and invalid UTF-8), splice another format, change a header count by +-1/2, CRLF, strip the final newline); the corpus is also replayed through every target and option; thorough adds native coverage-guided fuzzing per parser with the same oracle inside the target; every goalign reformat sub-command (fasta, phylip, nexus, clustal, paml, tnt) runs on mutated files; a declared partition text of plain form is re-read independently and the parsed map compared with it; mutations also write one terminator twice (an empty Nexus command) and use the whole punctuation of the Nexus standard. " +
			"Oracle (validity predicate): the call returns within a 10 s watchdog (confirmed alone with 30 s before it is reported), does not panic, and on success returns the end-of-stream marker only for a blank Phylip stream, or a result with >=1 row and >=1 column, every row of Length() residues, pairwise distinct names, row/column counts equal to the header of a Phylip file and to an unambiguous NTAX/NCHAR of a Nexus file (<= under the duplicate-dropping policies), >=1 distinctly named sequence for ParseUnalign, every site of a partition map in [-1,NPartitions) over exactly the declared length; an error must carry a message. " +
			"Non-trivial: the parser went beyond its first token (success, or an error other than the format's first-token message); distinct = distinct (target, bytes, options)",
		Assumptions: []string{
			"inputs holding a carriage return not followed by a line feed are screened out for the Phylip and Clustal entry points (their lexers answer with io.ExitWithMessage: message on stderr and exit status 1, an explicit error report for a command-line user but the end of an in-process campaign); they are counted as outside_domain_skipped and stay in the command-line run",
			"termination is decided by a bounded wait (10 s for inputs of at most 64 KiB whose normal parse takes microseconds, then 30 s alone in a fresh process); a miss on the confirmation is reported as slow, not as a violation",
			"NTAX/NCHAR of a Nexus file are only compared when the text has no comment bracket, one NCHAR and equal NTAX declarations (counted as ambiguous otherwise)",
			"native fuzzing cannot be pinned to a seed; its failing input is stored by the target itself and replayed without the fuzzer",
		},
		LevelText: "Generated-input search with a validity oracle: ~45 000 (quick) to several million (thorough, plus 6 coverage-guided fuzz campaigns) mutated files per run through every parser entry point and option, each call under a process-killing watchdog with the in-flight input saved; a crash, hang, out-of-memory abort or malformed success is reproduced alone before it is reported. Absence of violations on what was explored, not a proof of totality.",
		LevelNote: "trusts strconv/regexp for the independent header readers and the harness's minimal FASTA reader; lone-CR inputs are outside the claim for Phylip/Clustal in-process",
		Technique: "property-based testing (rapid) with structure-aware mutation + native coverage-guided fuzzing (go test -fuzz) against a validity predicate; process isolation for hangs and aborts; command-line differential",
		DesignRef: "DESIGN.md section 5, C03 and section 2.5",
		Runs: []runSpec{
			{Name: "corpus", Test: "^TestCorpus$", Quick: 1, Thorough: 1},
			{Name: "fasta", Test: "^TestFasta$", Quick: 6000, Thorough: 150000, Shards: 2},
			{Name: "phylip", Test: "^TestPhylip$", Quick: 10000, Thorough: 150000, Shards: 4},
			{Name: "nexus", Test: "^TestNexus$", Quick: 8000, Thorough: 150000, Shards: 3},
			{Name: "clustal", Test: "^TestClustal$", Quick: 6000, Thorough: 150000, Shards: 2},
			{Name: "stockholm", Test: "^TestStockholm$", Quick: 5000, Thorough: 150000, Shards: 2},
			{Name: "partition", Test: "^TestPartition$", Quick: 5000, Thorough: 150000, Shards: 1},
			{Name: "auto", Test: "^TestAuto$", Quick: 4000, Thorough: 150000, Shards: 1},
			{Name: "cli", Test: "^TestCLI$", Quick: 400, Thorough: 4000, Shards: 1},
		},
		Fuzz: []fuzzSpec{
			{Target: "FuzzFasta", Seconds: 40},
			{Target: "FuzzPhylip", Seconds: 60},
			{Target: "FuzzNexus", Seconds: 75},
			{Target: "FuzzClustal", Seconds: 50},
			{Target: "FuzzStockholm", Seconds: 40},
			{Target: "FuzzPartition", Seconds: 40},
		},
	})
}
