package main

func init() {
	register(propSpec{
		ID: "C07", Pkg: "props/c07", NeedCLI: true,
		Rule: "cases: nucleotide alignments of 2-8 rows and 1-60 columns (300 in thorough) derived from a drawn ancestor (drawn base composition, some bases absent) by per-row substitution rates from 0 to 100% (identical, typical, nearly saturated, saturated, every site differs, transitions only, transversions only), in three residue tiers (ACGT; plus leading/trailing/internal gap runs, all-gap rows and columns; plus IUPAC ambiguity codes), x 7 models x gamma on/off x alpha (inverse-integer values and reals of [0.1,10]) x rm-gaps x gap-mut 0/1/2 x rm-ambiguous x weights {nil, all 1, positive reals, small integers} x sequence ranges {none, valid; disjoint, overlapping and nested} x 1-3 threads, one case in four on a model object that first computed another alignment with other gamma/alpha/weights (as the multi-alignment input and distboot do); every alignment of 2 rows x 2 columns over ACGT-RYN (thorough: all 15 IUPAC codes and the gap, and 2 rows x 3 columns over ACGT-) x 38 option combinations, exhaustively; goalign compute distance executions (fasta/phylip input, two alignments in one phylip file, -o, -a, -t, all flags, 8 kinds of invalid invocation). " +
			"Oracle: independent counters on plain strings (difference iff the IUPAC sets are disjoint; transitions between unambiguous A<->G, C<->T; transversion iff one side within the purines and the other within the pyrimidines; gap modes from the flag help) base frequencies over the nucleotide cells of the selected columns (they sum to 1), and the published closed forms of raw, p, JC69, K2P, F81, F84 (Felsenstein-Churchill), TN93 (Tamura-Nei) with -ln x -> alpha(x^(-1/alpha)-1) for gamma, relative tolerance 1e-9; matrix predicates: symmetric, zero diagonal, 0 outside the ranges, no counted difference => |d| <= 1e-12, finite corrected d >= observed proportion, undefined estimator (saturation, a needed base frequency 0, no comparable site) => NaN, +-Inf or 2*max over the defined entries (never when that maximum is 0), values above the documented limit 1e5 => the value or the substitute; Distance() on encoded rows agrees with the matrix; the command prints the same matrix with 12 decimals (compared at 1e-9) and fails exactly on the invalid invocations. A pair whose smallest log argument is within 1e-6 of 0 is not judged. " +
			"Non-trivial: at least one pair with >= 1 counted difference and >= 1 comparable site whose entry agreed with the estimator; distinct = distinct JSON form of the case",
		Assumptions: []string{
			"for ambiguity codes the published estimators are silent: the oracle follows the documented counting rule of the repository (incompatible sets = 1 difference; only certain transitions/transversions feed K2P/F84/TN93), and 'observed proportion of differing sites' is the proportion under the model's own counting rule",
			"open points accepted in every reading and counted as ambiguous_accepted: --rm-gaps removing only gap columns (flag help) or every column with a non-ACGT residue (doc comment of selectedSites, what the code does); an estimator value above the documented limit 100000 reported as such or substituted",
			"--gap-mut is read as in the flag help and the constants (1 = internal gaps only, 2 = all gaps); the stale struct comment says the opposite",
			"two findings of this check (internal-gap mode ignoring --rm-gaps; gap cells in the base-frequency total) were repaired in /repo (afd6281, 3a3c37f) and are now asserted; nothing is steered around (props/c07/NOTES-findings.md)",
			"sequence ranges are drawn inside [0, n-1]; residues outside A,C,G,T, IUPAC codes and '-' are outside the quantifier",
			"absence of violations is established on the explored cases only; the 2x2 (2x3) alignment space is enumerated completely for 38 option combinations",
		},
		LevelText: "Generated-input search against independently written closed-form estimators: ~216 000 (quick) to 5.5 million (thorough) alignments x option sets compared entry by entry at 1e-9, a complete enumeration of all 2-row x 2-column alignments x 38 option combinations, and a few hundred to thousands of command executions. Shows absence of violations on what was explored; ill-conditioned pairs (log argument within 1e-6 of 0) are not judged.",
		LevelNote: "trusts the harness's transcription of the five published formulas and of the documented ambiguity counting rule; two documented open points (frequency normalisation with gaps, rm-gaps on ambiguity columns) are accepted in both readings",
		Technique: "property-based testing (rapid): reference model (textbook estimators on independent counters) + matrix validity predicates; bounded exhaustive enumeration; command-line differential",
		DesignRef: "DESIGN.md section 5, C07",
		Runs: []runSpec{
			{Name: "estimators", Test: "^TestEstimators$", Quick: 60000, Thorough: 200000, Shards: 12},
			{Name: "enumerate", Test: "^TestEnumerateSmall$", Quick: 1, Thorough: 1},
			{Name: "cli", Test: "^TestCLI$", Quick: 700, Thorough: 6000, Shards: 3},
		},
	})
}
