package main

func init() {
	register(propSpec{
		ID: "C18", Pkg: "props/c18", QuickParallel: 3,
		Rule: "cases: a model with a parameter vector and four branch lengths, one per band [1e-8,1e-4], [1e-4,0.05], [0.05,3], [3,100] (log-uniform, the ends 1e-8 and 100 over-represented) and a split s+u=t. " +
			"Nucleotide: JC, K2P, F81, F84, TN93, GTR; kappa, kappa1, kappa2 in [0.05,50], six GTR rates in [0.02,50] (log-uniform, the ends and 1 over-represented), base frequencies on the simplex with every component >= 0.01; about half of the draws are tied on purpose (equal frequencies, equal purines/pyrimidines, three equal, one at the floor; kappa1=kappa2, kappa1=kappa2=1; all rates equal, transitions/transversions, two rates tied). " +
			"Protein: the seven matrices with model frequencies, user frequencies all equal, or drawn user frequencies (every component >= 0.002). Corners: every model at the corners of its domain (all 3^6 GTR rate vectors over {0.02,1,50} x six frequency vectors, t in {1e-8,1e-3,0.1,1,10,100}), enumerated. " +
			"Oracle: the textbook rate matrix of the model written in the harness (proteins: exported exchangeabilities x pi_j), scaled to -sum pi_i q_ii = 1, exponentiated by a scaling-and-squaring Taylor series of the harness; on models.NewPij(model,t).Pij(i,j), and on one Pij object re-used through SetLength: entries in [0,1], rows summing to 1, P(0)=I, P(s)P(u)=P(s+u), pi_i P_ij = pi_j P_ji, equality with exp(Qt), all within 1e-8 absolute; P(100) within 1e-8 of pi whenever the oracle's own exp(100 Q) is within 1e-9 of it; for JC and K2P the analytical value equals R exp(Dt) L assembled by the harness from Eigens(). " +
			"Default-constructed models (JC; K2P with its documented default kappa = 1; F84 with the kappa = 1 and equal frequencies its constructor sets) are judged without any InitModel, in the corner enumeration and as round 0 of the re-initialisation histories. Re-initialisation: one model object (every nucleotide model; a Pij built before InitModel where the constructor sets default parameters: JC, K2P, F84), InitModel(A), all clauses and Eigens()/NewPij used, two Pij objects kept alive, InitModel(B) on the same object (B: everything redrawn, or only the rates, or only the frequencies): all clauses must hold for B, the Pij objects created before must give exp(Q_B t) once moved to another length by SetLength (their matrix at the unchanged length is not judged: the API keeps it), InitModel(A) again must reproduce the first matrices within 1e-12. Protein models: the same on one ProtModel object with model/user frequencies (every repeated InitModel under a 20 s watchdog: before the repair 31adb09 it could loop for ever). Between the valid calls a ProtModel is also given a frequency vector of the wrong length (0, 1, 19, 21 or 40 entries): the call must return an error and the model must remain one consistent model (Pi() equal to the frequencies in use before, or to the published ones, and every clause holding for that same parameter set). A deterministic sub-test re-runs the minimal reproduction of that repaired finding (LG, InitModel(nil) twice). " +
			"Non-trivial: parameters away from the Jukes-Cantor point (a rate ratio beyond 1.5 or a frequency below 0.15; every protein matrix); distinct = distinct JSON form of the case",
		Assumptions: []string{
			"the published frequency vectors of Dayhoff, JTT, LG, WAG, HIVb and AB sum to 1 only to 1e-6..1e-9; 'one expected substitution per unit time' is accepted with the mean rate taken over the vector as published (PAML convention) or over its normalised form (counted as ambiguous_accepted)",
			"GTR rates are passed in the order documented in gtr.go (AC, AG, AT, CG, CT, GT); states are ordered A, C, G, T; F84 is parameterised as in the comment of f84.go (q_ij = pi_j (1 + kappa/pi_R) within purines, pi_j (1 + kappa/pi_Y) within pyrimidines)",
			"the exchangeabilities and model frequencies of the protein models are read from the exported *Mats() functions (data shared with the code under test; their symmetry is checked, their values are not)",
			"convergence is judged at t = 100 only, and only for parameter vectors whose exact chain has converged there to 1e-9 (the others are counted in the class not-converged-at-100)",
			"re-initialisation is taken from the pinned TestK2PPij (Pij built first, InitModel called again for every kappa): a model object is a container of parameters that InitModel replaces; a Pij object whose model was re-initialised is only required to follow the new parameters after SetLength to another length (model.go recomputes only when the length changes)",
			"the constructor defaults of F84 are not documented in a comment; they are read from the literal values in NewF84Model (K2P documents 'Default 1.0'); F81, TN93, GTR and the protein models are not usable before InitModel and are not judged in that state",
			"absence of violations is established on the explored parameter vectors and branch lengths only; tolerance 1e-8 absolute for every clause",
		},
		LevelText: "Generated-input search against a reference model: ~60 000 (quick) to ~3.2 million (thorough) parameter vectors x 4 branch lengths (a sixth of them as histories of one model object initialised three times), the transition matrices compared entry by entry with an independent matrix exponential of the textbook rate matrix and checked for the Markov, semigroup and reversibility laws; the corners of the parameter domain are enumerated. Shows absence of violations on what was explored.",
		LevelNote: "trusts the harness's rate matrices and its Taylor exponential (self-checked: rows of exp(Qt) sum to 1 within 1e-10); protein exchangeabilities are taken from goalign's exported tables",
		Technique: "property-based testing (rapid): independent reference model (textbook Q, scaling-and-squaring exponential) + algebraic laws; bounded enumeration of the domain corners",
		DesignRef: "DESIGN.md section 5, C18",
		Runs: []runSpec{
			{Name: "nucleotide", Test: "^TestNucleotide$", Quick: 40000, Thorough: 150000, Shards: 16},
			{Name: "protein", Test: "^TestProtein$", Quick: 5000, Thorough: 20000, Shards: 16},
			{Name: "corners", Test: "^TestCorners$", Quick: 1, Thorough: 1},
			{Name: "reinit", Test: "^TestReinit$", Quick: 8000, Thorough: 60000, Shards: 8},
			{Name: "reinit-known", Test: "^TestKnown", Quick: 1, Thorough: 1},
		},
	})
}
