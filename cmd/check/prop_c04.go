package main

func init() {
	register(propSpec{
		ID: "C04", Pkg: "props/c04", NeedCLI: true,
		Rule: "cases: nucleotide and protein alignments of 1-6 rows and 1-30 columns whose rows have no, scattered, leading/trailing, mostly or only gaps; " +
			"windows (start,length), trim sizes, cut points, site lists (repeats, any order), reference names (a row, preferably gapped, or an unknown name) and ungapped (start,length)/positions drawn valid by construction about half of the time and from {-1,0,1,L-1,L,L+1}, uniformly, or (one draw in six, every integer argument incl. partition bounds and modulo, also as decimals on the command line) from {MaxInt, MaxInt-1, MaxInt/2+1, MinInt, MinInt+1} and lengths MaxInt-start(+1) otherwise; " +
			"partition definitions made of plain and modulo (2, 3 = codon) ranges with names that come back, built through AddRange or by parsing the generated text (blank layouts, CRLF, no final end of line), perturbed by a range outside the alignment, a repeated range, a missing range or another declared length; histories on ONE partition set (optionally started from parsed text): disjoint ranges added in any order through AddRange, on existing and on new names, with Split judged after every addition and twice in a row; " +
			"pairs/triples of alignments with names from a common pool in different orders for Concat/Append; every (start,length), trim size, site pair and - for every gap pattern of the reference - every ungapped (start,length) and position in [-1,L+1] for L <= 8 (10 in thorough) by enumeration; " +
			"one library case in three builds its alignments (receiver and argument of Concat separately) through a drawn chain of public operations ending on the generated content (clone, touch, rename cycle, cut window, select sites, trim gap / constant ends, drop gap rows, concat, append, re-parse FASTA); executions of subseq (-s -l -r --ref-seq --step), subsites (arguments, --sitefile, --ref-seq, -r, --informative), split --partition, extract --coordinates (several blocks, strand, --ref-seq, blocks as tab-separated coordinates or as a GFF3 annotation with --gff), trim seq, concat, transpose, diff, diff --reverse on FASTA files (a third in another presentation: wrapped lines, blocks, trailing blanks, CRLF, empty lines, no final newline; a third with -o to a new or to an existing stale file that is read back; concat -l log files read; existing stale output files for split / extract) and - one execution in three, for the commands that loop over the input stream (subseq, subsites, trim seq, transpose, diff, concat) - on Phylip files holding 2-3 alignments of different lengths and gap patterns (-p, default / --one-line / --no-block output), every output alignment being compared with the oracle of ITS input alignment (the exit status must be non-zero iff the request is invalid for one of them). " +
			"Oracle: column arithmetic on the generated rows (the addressed columns, in the addressed order, under unchanged names and row order; the smallest window holding exactly the requested reference residues, confirmed by reading the window back; the ordered complement; pairing by name with gap padding on the side where the row is absent; blocks = columns of each partition in ascending order), the documented bounds for every error (window or site outside [0,L), trim size < 0 or >= L, ungapped coordinates outside the reference, unknown reference, range outside the alignment, fewer than two partitions, other declared length), and the re-assembly relations prefix++window++suffix, SubAlign(0,k)++SubAlign(k,L-k), selection+inverse positions, re-interleaved Split blocks, Transpose twice, ReplaceMatchChars after DiffWithFirst, String() of a partition set parsed back; a panic or a Go crash trace of the command is a violation whatever the arguments. " +
			"Non-trivial: an integer argument lies on one of -1,0,1,L-1,L,L+1 (L = alignment length, or ungapped reference length for reference coordinates), or the reference has a gap inside the requested window/among the requested positions, or the partition is not contiguous, or a row is absent on one side of a concatenation / the row orders differ, or (transpose/diff) the alignment is rectangular with at least one match character; command line: the same rule per command, several windows for --step, several blocks or a gap inside a block for extract; distinct = distinct JSON form of the case (enumeration: distinct tuples)",
		Assumptions: []string{
			"an empty request inside the alignment (length 0, empty site list, empty complement) may be refused or answered with empty sequences: both accepted and counted as ambiguous; RefCoordinates with length 0 likewise",
			"RefSites may return the addressed columns as an ascending set (its doc comment, DESIGN C04) or in the order given (the statement's \"addressed order\"); a repeated range in a partition definition may be refused or not (no crash); docs/commands/subseq.md says a window longer than the alignment stops at the end while the API refuses it: the command may do either",
			"calls whose start+length (or start+step+length) overflows int are generated and judged like any other: RefCoordinates must refuse them, subseq --step must stop after the last window that fits (defects before fixes d923a70 and 558bb27)",
			"`goalign subseq -r` with a window covering the whole alignment (empty complement; a crash before fix 711de4d) is generated and judged: empty sequences or an error are accepted, a crash is a violation",
			"the duplicate-name policy of Append (renaming suffix) is judged by C01; here only the appended residues and the untouched rows",
			"with several alignments or --step, subseq -o / subsites -o are judged on the documented family of files <name>, <name>_sub<j>, <name>_al<i>, <name>_al<i>_sub<j> (help text of subseq; subsites is assumed to follow the _al<i> part)",
			"extract --gff is not documented beyond its flag help: the model is the GFF3 reading (1-based inclusive coordinates, strand in column 7, the CDS lines grouped under their Parent gene, one output per gene named by its Name attribute); files are generated without the ##gff-version pragma, which the reader refuses",
			"--informative is exercised on upper-case ACGT alignments without gaps, where every reading of 'character' agrees; extract --translate is not exercised (translation is C05's subject)",
			"absence of violations is established on the explored cases only; the enumerated sub-space is covered completely",
		},
		LevelText: "Generated-input search against a reference model: ~96 000 (quick) to ~2.9 million (thorough) alignments with windows, site lists, reference coordinates, partitions and concatenations compared with column arithmetic on the generated rows and with the re-assembly relations, ~58 000 (quick) to ~325 000 (thorough) enumerated boundary tuples, and ~2 900 (quick) to ~32 000 (thorough) executions of the commands. Shows absence of violations on what was explored; the enumerated tuples are exhaustive for L <= 8 (10 in thorough).",
		LevelNote: "trusts the harness's own column arithmetic, its partition text writer and its minimal FASTA and Phylip readers; corners the documentation leaves open are accepted in every reading and counted",
		Technique: "property-based testing (rapid): reference model + inverse/re-assembly relations; bounded-exhaustive enumeration of boundary arguments; command-line differential",
		DesignRef: "DESIGN.md section 5, C04",
		Runs: []runSpec{
			{Name: "windows", Test: "^TestWindows$", Quick: 16000, Thorough: 60000, Shards: 8},
			{Name: "sites", Test: "^TestSites$", Quick: 16000, Thorough: 60000, Shards: 8},
			{Name: "refcoord", Test: "^TestRefCoordinates$", Quick: 16000, Thorough: 60000, Shards: 8},
			{Name: "concat", Test: "^TestConcatAppend$", Quick: 16000, Thorough: 60000, Shards: 8},
			{Name: "split", Test: "^TestSplit$", Quick: 16000, Thorough: 60000, Shards: 8},
			{Name: "split-history", Test: "^TestSplitHistory$", Quick: 8000, Thorough: 60000, Shards: 4},
			{Name: "transpose-diff", Test: "^TestTransposeDiff$", Quick: 16000, Thorough: 60000, Shards: 8},
			{Name: "exhaustive", Test: "^TestExhaustive$", Quick: 1, Thorough: 1},
			{Name: "cli-subseq", Test: "^TestCLISubseq$", Quick: 1000, Thorough: 2000, Shards: 4},
			{Name: "cli-subsites", Test: "^TestCLISubsites$", Quick: 700, Thorough: 2000, Shards: 4},
			{Name: "cli-split-extract", Test: "^TestCLISplitExtract$", Quick: 450, Thorough: 2000, Shards: 4},
			{Name: "cli-other", Test: "^TestCLIOther$", Quick: 700, Thorough: 2000, Shards: 4},
		},
	})
}
