package main

func init() {
	register(propSpec{
		ID: "C13", Pkg: "props/c13", NeedCLI: true,
		Rule: "cases: (dedup) alignments and sequence sets, nucleotide or protein, 1-10 rows of length 1-12 drawn from a pool of 1-4 base sequences over 1-4 letters plus '-' and the wildcard (N resp. X), with variants that differ only by wildcard vs gap, by the other alphabet's wildcard, by a lower case wildcard or residue, by one substitution, or (sequence sets) by being a proper prefix / an extension of another row; names in a drawn order; nAsGap on and off; every nucleotide alignment over {A,N,-} of up to 4x2 and 3x3 cells (thorough: 5x2, 4x3, 3x4) exhaustively. " +
			"(compress) alignments of 1-8 rows x 1-14 columns whose columns are drawn with repetition from a pool of 1-5 patterns, new patterns being copies of earlier ones changed at the last, the first or a drawn row (shared prefixes of every length), over {A,C}, {A,-}, {A,C,a,c}, {A,C,G,T,-,N} or 23 protein characters; every alignment over {A,C} of up to 3 rows x 4 columns (thorough: 3x5, 4x4, 2x6) exhaustively. (command line) goalign dedup (--unaligned, --n-as-gap, -l, -o, --alphabet) and goalign compress (--weight-out, -o, --alphabet), FASTA rows up to 160 characters, ragged alignments. " +
			"Oracle: list model - kept rows = first occurrence of each distinct key (key = the residues, with the upper case wildcard of the alphabet replaced by '-' under nAsGap) in input order with their original residues and names; groups = for each kept row the names sharing its key, kept row first; container consistent with the kept rows (count, by-name access, alignment length); a second call returns singletons and changes nothing. Compress: len(weights) = Length() = row lengths, names and row order unchanged, columns pairwise distinct, every weight >= 1 and equal to the multiplicity of its column among the original columns, the number of patterns equal to the number of distinct original columns, weights sum to the original length, a column-additive hash statistic preserved, and the same clauses for a second compression. " +
			"Non-trivial: at least one duplicate row (repeated column) and at least two distinct ones; distinct = distinct JSON form of the case",
		Assumptions: []string{
			"the wildcard is N for nucleotide and X for protein containers ('X/N (depending on alphabet)', docs/commands/dedup.md); containers are built with an explicit alphabet, and on the command line --alphabet is passed whenever --n-as-gap is used on an alignment",
			"a lower case n/x under nAsGap is open (the documentation writes N/X): both readings are accepted and counted as ambiguous when they differ; goalign dedup --unaligned --n-as-gap on rows made only of letters common to both alphabets also accepts the reading 'no wildcard'",
			"the statement does not fix the order of the groups nor of the members behind the leader: any order is accepted (counted as ambiguous when it is not the input order)",
			"characters are ASCII",
			"absence of violations is established on the explored cases only; the listed small shapes are enumerated completely",
		},
		LevelText: "Generated-input search against a reference model plus bounded-exhaustive enumeration: ~200 000 (quick) to ~6 million (thorough) alignments, sequence sets and command executions compared with a list model of de-duplication and a multiset model of site compression, and complete enumeration of all alignments over {A,N,-} up to 4x2/3x3 (dedup, both settings) and over {A,C} up to 3x4 (compress). Shows absence of violations on what was explored; the enumerated shapes are complete.",
		LevelNote: "trusts the harness's list/multiset models and its minimal FASTA, group-log and weight-file readers",
		Technique: "property-based testing (rapid): reference model, idempotence, multiset/column-additive invariants; bounded-exhaustive enumeration; command-line differential",
		DesignRef: "DESIGN.md section 5, C13",
		Runs: []runSpec{
			{Name: "dedup-exhaustive", Test: "^TestDedupExhaustive$", Quick: 1, Thorough: 1},
			{Name: "compress-exhaustive", Test: "^TestCompressExhaustive$", Quick: 1, Thorough: 1},
			{Name: "dedup", Test: "^TestDedup$", Quick: 100000, Thorough: 400000, Shards: 6},
			{Name: "compress", Test: "^TestCompress$", Quick: 100000, Thorough: 400000, Shards: 6},
			{Name: "cli", Test: "^TestCLI$", Quick: 1500, Thorough: 5000, Shards: 4},
		},
	})
}
