package main

func init() {
	register(propSpec{
		ID: "C13", Pkg: "props/c13", NeedCLI: true,
		Rule: "cases: (dedup) alignments and sequence sets, nucleotide or protein, 1-10 rows of length 1-12 drawn from a pool of 1-4 base sequences over 1-4 letters plus '-' and the wildcard (N resp. X), with variants that differ only by wildcard vs gap, by the other alphabet's wildcard, by a lower case wildcard or residue, by one substitution, or (sequence sets) by being a proper prefix / an extension of another row; names in a drawn order; nAsGap on and off; containers whose alphabet is given (nucleotide / protein), left UNKNOWN (NewAlign/NewSeqBag(UNKNOWN) without detection), built with NewAlign(BOTH), or auto-detected on residues that fit both alphabets, one alphabet only (a U or an E in every row) or neither (J; U with E; Q with O); every alignment over {A,N,-} of up to 4x2 and 3x3 cells (thorough: 5x2, 4x3, 3x4) exhaustively, each as a nucleotide alignment, an alignment and a sequence set of UNKNOWN alphabet, NewAlign(BOTH) and an auto-detected alignment. " +
			"(compress) alignments of 1-8 rows x 1-14 columns whose columns are drawn with repetition from a pool of 1-5 patterns, new patterns being copies of earlier ones changed at the last, the first or a drawn row (shared prefixes of every length), over {A,C}, {A,-}, {A,C,a,c}, {A,C,G,T,-,N} or 23 protein characters; every alignment over {A,C} of up to 3 rows x 4 columns (thorough: 3x5, 4x4, 2x6) exhaustively. (command line) goalign dedup (--unaligned, --n-as-gap, -l, -o, --alphabet nt/aa/auto/absent, residues of neither alphabet included) and goalign compress (--weight-out, -o, --alphabet), FASTA rows up to 160 characters, ragged alignments. " +
			"Oracle: list model - kept rows = first occurrence of each distinct key (key = the residues, with the upper case wildcard of the alphabet replaced by '-' under nAsGap; when the alphabet is not definite every reading none/N/X/N+X is admitted, and in each of them any other residue difference keeps rows apart and kept rows keep their residues) in input order with their original residues and names; groups = for each kept row the names sharing its key, kept row first; container consistent with the kept rows (count, by-name access, alignment length); a second call returns singletons and changes nothing. Compress: len(weights) = Length() = row lengths, names and row order unchanged, columns pairwise distinct, every weight >= 1 and equal to the multiplicity of its column among the original columns, the number of patterns equal to the number of distinct original columns, weights sum to the original length, a column-additive hash statistic preserved, and the same clauses for a second compression. " +
			"Non-trivial: at least one duplicate row (repeated column) and at least two distinct ones; distinct = distinct JSON form of the case",
		Assumptions: []string{
			"the wildcard is N for nucleotide and X for protein containers ('X/N (depending on alphabet)', docs/commands/dedup.md). The alphabet is definite when the container is built with it, when --alphabet nt/aa is given, or when auto-detection meets a letter of one alphabet only (Q,E,I,L,F,P,Z resp. U) and nothing outside that alphabet",
			"when the alphabet is not definite (UNKNOWN container, NewAlign(BOTH), auto-detection on letters common to both alphabets or fitting neither) neither the doc comment of Deduplicate nor the command documentation says which wildcard nAsGap uses: the readings no wildcard, N, X, N and X are all accepted (counted as ambiguous when they differ from 'no wildcard'); Alphabet() can never be BOTH (NewAlign(BOTH) stores NUCLEOTIDS, NewSeqBag(BOTH) exits, AutoAlphabet maps BOTH to NUCLEOTIDS), so UNKNOWN is the only non-nt/aa value reachable",
			"a lower case n/x under nAsGap is open (the documentation writes N/X): both readings are accepted and counted as ambiguous when they differ",
			"the statement does not fix the order of the groups nor of the members behind the leader: any order is accepted (counted as ambiguous when it is not the input order)",
			"characters are ASCII",
			"absence of violations is established on the explored cases only; the listed small shapes are enumerated completely",
		},
		LevelText: "Generated-input search against a reference model plus bounded-exhaustive enumeration: ~160 000 (quick) to ~6 million (thorough) alignments, sequence sets and command executions compared with a list model of de-duplication and a multiset model of site compression, and complete enumeration of all alignments over {A,N,-} up to 4x2/3x3 (dedup, both settings, five kinds of container incl. UNKNOWN alphabet: 279 120 cases; thorough 11.6 million) and over {A,C} up to 3x4 (compress). Shows absence of violations on what was explored; the enumerated shapes are complete.",
		LevelNote: "trusts the harness's list/multiset models and its minimal FASTA, group-log and weight-file readers",
		Technique: "property-based testing (rapid): reference model, idempotence, multiset/column-additive invariants; bounded-exhaustive enumeration; command-line differential",
		DesignRef: "DESIGN.md section 5, C13",
		Runs: []runSpec{
			{Name: "dedup-exhaustive", Test: "^TestDedupExhaustive$", Quick: 1, Thorough: 1},
			{Name: "compress-exhaustive", Test: "^TestCompressExhaustive$", Quick: 1, Thorough: 1},
			{Name: "dedup", Test: "^TestDedup$", Quick: 80000, Thorough: 400000, Shards: 6},
			{Name: "compress", Test: "^TestCompress$", Quick: 80000, Thorough: 400000, Shards: 6},
			{Name: "cli", Test: "^TestCLI$", Quick: 1200, Thorough: 5000, Shards: 4},
		},
	})
}
