package main

import "sort"

// The table of properties: which package decides each one, which test processes are run in
// each tier and with how many generated cases. One file prop_cNN.go per property registers
// its entry from init().
var properties []propSpec

func register(p propSpec) {
	properties = append(properties, p)
	sort.Slice(properties, func(i, j int) bool { return properties[i].ID < properties[j].ID })
}
