package main

// claimed lists the properties whose check is finished: built, silent on the unchanged tree
// for several seeds in both tiers, and tested against planted breakages. Only these appear
// under "checks" in MANIFEST.json; a registered but unfinished check is listed under
// not_applicable ("not claimed yet") and can still be run by hand.
var claimed = map[string]bool{
	"C01": true,
	"C02": true,
	"C03": true,
	"C04": true,
	"C05": true,
	"C06": true,
	"C07": true,
	"C08": true,
	"C09": true,
	"C10": true,
	"C11": true,
	"C12": true,
	"C13": true,
	"C14": true,
	"C15": true,
	"C16": true,
	"C17": true,
	"C18": true,
	"C19": true,
	"C20": true,
}
