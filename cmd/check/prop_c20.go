package main

func init() {
	register(propSpec{
		ID: "C20", Pkg: "props/c20", NeedCLI: true, Isolated: true,
		Rule: "cases: (weights) alignment lengths 3-400 (3-2000 thorough; boundary 3..8 and the maximum over-weighted), 1-3 rows, Dirichlet or gamma based builder, 1-4 consecutive vectors from one seeded math/rand stream; " +
			"(dirichlet) stats.Dirichlet with 3-50 parameters in [0.01,100] (log-uniform, exactly 1, 1±1e-12..0.5, vectors all<1 / all=1 / all>1 / mixed), totals 1, 3..2000 or log-uniform in [1e-3,1e6], stats.Dirichlet1 with 3-400 values, and invalid parameters (a zero, a negative, an invalid last entry after valid ones, 0-2 parameters, n<=2 incl. negative n); " +
			"(incomplete gamma) shapes in [0.01,101] and 2-8 increasing x per case among 0, the branch boundary max(1,shape)·(1±{0,1e-15..0.1}), 1, shape, tiny (>=1e-300), large (<=1e5), around the shape, log-uniform; " +
			"(discrete gamma) shapes in [0.01,100] x 2..32 categories, GenerateRates on 0-60 sites with every gamma/discrete flag combination; " +
			"(weights for alignments that are not freshly built) generated contents of 2-6 rows x 3-40 (120 thorough) columns with constant, tied and all-gap columns; in two cases out of three the object is produced by a drawn provenance chain of up to 3 public operations ending on exactly that content (clone, touch, rename-cycle, cut-window, select-sites, trim-gap-ends, trim-constant-ends, drop-gap-rows, concat, append, reparse-fasta), in two cases out of three a history follows: a second object derived by Sample/SubAlign/SelectSites/Clone, a length-changing in-place operation (RemoveGapSites, TrimSequences, RemoveMajorityCharacterSites, RemoveCharacterSites; whole or ends) applied to ONE of the two and the weights drawn for the OTHER, or the operation applied to the object itself first; oracle: as many weights as every row read back by index has residues (and as the construction implies for an object no operation was applied to), each finite and > 0, sum = that number; " +
			"(prior use of the object) one object of 2-5 rows x 3-30 (80 thorough) columns receives 2-5 weight draws (Dirichlet or gamma based builder, drawn per draw); between two draws it is edited IN PLACE by a drawn mutator: none, RemoveGapSites, TrimSequences, RemoveMajorityCharacterSites, RemoveCharacterSites (whole or ends; shorter), Concat of the initial content or of a drawn window of it (longer); in one step out of five a second, never edited object built from the same content receives a draw in between; every draw is judged by the weight-vector oracle on the rows read back by index at that moment (and on the number of sites the edits imply for none/Concat); " +
			"(size class long vectors) a handful (30 quick) of flat weight vectors of 30 000-400 000 sites from both weight builders, Dirichlet with all parameters 1 and Dirichlet1 (total = number of values), under the weight-vector clause: one finite weight > 0 per site, sum = number of sites; " +
			"(boundary values of the random source) 48 seeds of math/rand whose first 4096 raw outputs contain an extreme value (top 32 bits all zero / all one, Float64() < 1e-9 or > 1-1e-9; found by an offline scan of math/rand, tools/c20_hostile_seeds.go) x 6 samplers (both weight builders, Dirichlet with all parameters 1 / mixed / below 1, Dirichlet1) with enough sites for that output to be consumed, same oracles; " +
			"(command line) goalign build weightboot on generated fasta/phylip/multi-alignment phylip/stdin inputs (FASTA in a drawn layout: wrapped lines, blank-separated blocks, CRLF, empty lines, no final newline), -n 1..25, --seed, -o (new file, or an existing file with a longer stale content). " +
			"Oracle: one finite weight > 0 per site, |sum-L| <= 1e-9·L; Dirichlet values finite >= 0, |sum-total| <= 1e-9·total, error exactly for the invalid vectors; " +
			"IncompleteGamma in [0,1] (slack 1e-9), non-decreasing in x (slack 1e-7), within 1e-6 of gonum mathext.GammaIncReg and of its defining series summed to double precision (x<=600); " +
			"DiscreteGamma rates >= -1e-9, non-decreasing (slack 1e-9), mean 1 (1e-9), each within 1e-6 of the true category mean k·[P(a+1,x_i)-P(a+1,x_{i-1})] (quantiles by bisection on gonum's function); GenerateRates rate = rate of the reported category, category in range, rate 1/category 0 without gamma; " +
			"weightboot prints -n lines of L non-negative numbers summing to L within L·5e-7 (6 printed decimals), exit status 0. " +
			"Non-trivial: weights not all equal; Dirichlet vector with parameters on both sides of 1 (or an invalid vector, or a varied flat sample); incomplete gamma case with the shape on both sides of the x values, both evaluation branches used and the value moving by > 1e-3; >= 3 distinct category rates; distinct = distinct JSON form of the case",
		Assumptions: []string{
			"Dirichlet parameter vectors with fewer than 3 entries are invalid (Dirichlet tests len <= 2, Dirichlet1 documents 'nvalues should be > 2'); NaN and infinite parameters are outside the quantifier ([0.01,100]) and are not generated",
			"Dirichlet1(n, n) and Dirichlet(n; 1,...,1) are judged under the weight-vector clause (every weight > 0) in the long-vector run: they are the two implementations of the D(n;1,...,1) site weights that the documentation of build weightboot describes (Dirichlet1 has no caller of its own in the tree); elsewhere Dirichlet samples are only required to be >= 0 (a parameter of 0.01 legitimately underflows to 0)",
			"a weight is 'strictly positive' at the command line within the printed precision: %f prints a weight below 5e-7 as 0.000000 (counted as a class)",
			"the reference values come from gonum mathext.GammaIncReg (an implementation unrelated to the AS32 routine) and from the defining series; the two references are required to agree within 1e-9 on every evaluated point",
			"continuous (non discrete) rates of GenerateRates are not the subject of the statement: only their number is looked at",
			"a call of IncompleteGamma/DiscreteGamma/Dirichlet/BuildWeights* (convergence and rejection loops) that does not return within 20 s (normal: microseconds), confirmed by a re-run of the single case in a fresh process with a 30 s limit, is reported as a violation: a call without a value has no value in [0,1]",
			"absence of violations is established on the explored cases only",
		},
		LevelText: "Generated-input search against validity predicates and reference values: ~95 000 (quick) to ~1.7 million (thorough) seeded weight vectors, Dirichlet samples, incomplete-gamma evaluations, discrete-gamma category sets and weightboot executions, judged against normalisation predicates, gonum's regularised incomplete gamma, the defining series and the true category means. Shows absence of violations on what was explored.",
		LevelNote: "trusts gonum mathext.GammaIncReg and the harness's own series/bisection (cross-checked against each other at 1e-9); sampling distributions themselves (means, variances of the variates) are not part of the statement and are not tested",
		Technique: "property-based testing (rapid): validity predicates on seeded draws, differential against an unrelated implementation and the defining series, command-line observation",
		DesignRef: "DESIGN.md section 5, C20",
		Runs: []runSpec{
			{Name: "weights", Test: "^TestWeights$", Quick: 25000, Thorough: 60000, Shards: 4, TimeoutS: 300},
			{Name: "dirichlet", Test: "^TestDirichlet$", Quick: 25000, Thorough: 120000, Shards: 4, TimeoutS: 300},
			{Name: "incomplete-gamma", Test: "^TestIncompleteGamma$", Quick: 25000, Thorough: 120000, Shards: 4, TimeoutS: 300},
			{Name: "discrete-gamma", Test: "^TestDiscreteGamma$", Quick: 20000, Thorough: 60000, Shards: 8, TimeoutS: 300},
			{Name: "weights-history", Test: "^TestWeightsHistory$", Quick: 20000, Thorough: 100000, Shards: 4, TimeoutS: 300},
			{Name: "weights-reuse", Test: "^TestWeightsReuse$", Quick: 20000, Thorough: 100000, Shards: 4, TimeoutS: 300},
			{Name: "long-vectors", Test: "^TestLongVectors$", Quick: 30, Thorough: 200, Shards: 2, TimeoutS: 300},
			{Name: "hostile-seeds", Test: "^TestHostileSeeds$", Quick: 1, Thorough: 1, TimeoutS: 300},
			{Name: "cli", Test: "^TestCLI$", Quick: 400, Thorough: 2000, Shards: 4, TimeoutS: 300},
		},
	})
}
