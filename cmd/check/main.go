// Command check is the driver of the verification machinery: it builds a property's test
// package against the current working tree of the repository, runs it (sharded by seed in
// the thorough tier), merges the evidence fragments, writes /verif/evidence/<id>.json and
// reports violations in the format the interface requires.
//
// exit 0: the property held on everything explored
// exit 1: a violation was found ("VIOLATION property=<id> replay=<path>" on stdout)
// exit 2: inconclusive (build failure, time out, worker death that is not an observation)
package main

import (
	"bytes"
	"crypto/sha1"
	"encoding/json"
	"flag"
	"fmt"
	"hash/fnv"
	"os"
	"os/exec"
	"path/filepath"
	"sort"
	"strconv"
	"strings"
	"sync"
	"syscall"
	"time"
)

var verifDir = "/verif"

func env(repoMod string, extra ...string) []string {
	e := os.Environ()
	out := make([]string, 0, len(e)+8)
	for _, kv := range e {
		k := strings.SplitN(kv, "=", 2)[0]
		switch k {
		case "GOFLAGS", "GOPROXY", "GOSUMDB", "GOTOOLCHAIN", "GOMAXPROCS", "VERIF_FRAG", "VERIF_REPLAY", "VERIF_REGRESS_DIR":
			continue
		}
		out = append(out, kv)
	}
	flags := "-mod=mod"
	if repoMod != "" {
		flags += " -modfile=" + repoMod
	}
	out = append(out, "GOFLAGS="+flags, "GOPROXY=off", "GOSUMDB=off", "GOTOOLCHAIN=local")
	out = append(out, extra...)
	return out
}

type procResult struct {
	run      runSpec
	shard    int
	gomax    int
	exit     int
	timedOut bool
	output   string
	frag     string
	side     string
	wall     float64
}

func main() {
	tierF := flag.String("tier", "", "quick|thorough (default: $VERIF_TIER or quick)")
	replayF := flag.String("replay", "", "replay one saved case")
	seedF := flag.Int64("seed", -1, "seed (default: $VERIF_SEED or 1)")
	listF := flag.Bool("list", false, "list properties")
	manifestF := flag.Bool("manifest", false, "print MANIFEST.json generated from the property table")
	keepF := flag.Bool("keep", false, "keep the work directory")
	onlyF := flag.String("only", "", "only the runs whose name contains this string (development aid; evidence is still written)")
	verbose := flag.Bool("v", false, "print the output of every test process")
	noEvidence := flag.Bool("noevidence", false, "do not touch evidence/ and replays/ (sensitivity runs against a mutated copy): write them to the work directory")
	// accept "check C01 --tier quick" as well as "check --tier quick C01"
	args := os.Args[1:]
	var id string
	var rest []string
	for _, a := range args {
		if id == "" && !strings.HasPrefix(a, "-") && len(rest) == len(argsBeforeValue(rest)) {
			id = a
			continue
		}
		rest = append(rest, a)
	}
	flag.CommandLine.Parse(rest)
	if *manifestF {
		writeManifest()
		return
	}
	if *listF {
		for _, p := range properties {
			fmt.Println(p.ID, p.Pkg)
		}
		return
	}
	if id == "" && flag.NArg() > 0 {
		id = flag.Arg(0)
	}
	p := findProp(id)
	if p == nil {
		fmt.Fprintf(os.Stderr, "usage: check <property id> [--tier quick|thorough] [--replay file]\nunknown property %q\n", id)
		os.Exit(2)
	}
	tier := *tierF
	if tier == "" {
		tier = os.Getenv("VERIF_TIER")
	}
	if tier != "thorough" {
		tier = "quick"
	}
	seed := *seedF
	if seed < 0 {
		seed = 1
		if s := os.Getenv("VERIF_SEED"); s != "" {
			if v, err := strconv.ParseInt(s, 10, 64); err == nil {
				seed = v
			}
		}
	}
	if d := os.Getenv("VERIF_DIR"); d != "" {
		verifDir = d
	}
	repo := os.Getenv("VERIF_REPO")
	if repo == "" {
		repo = "/repo"
	}
	start := time.Now()
	work, err := os.MkdirTemp("", "verif-"+p.ID+"-")
	if err != nil {
		fmt.Fprintln(os.Stderr, "cannot create work directory:", err)
		os.Exit(2)
	}
	cleanup := func() {
		if !*keepF {
			os.RemoveAll(work)
		} else {
			fmt.Fprintln(os.Stderr, "work directory kept:", work)
		}
	}
	exit := func(code int) {
		cleanup()
		os.Exit(code)
	}

	// module file with the replace directive pointing to the tree under test
	modfile := filepath.Join(work, "go.mod")
	gomod, err := os.ReadFile(filepath.Join(verifDir, "go.mod"))
	if err != nil {
		fmt.Fprintln(os.Stderr, err)
		exit(2)
	}
	gomod = bytes.Replace(gomod, []byte("=> /repo"), []byte("=> "+repo), 1)
	os.WriteFile(modfile, gomod, 0o644)
	if sum, err := os.ReadFile(filepath.Join(verifDir, "go.sum")); err == nil {
		os.WriteFile(filepath.Join(work, "go.sum"), sum, 0o644)
	}

	needRace := false
	needPlain := false
	for _, r := range p.Runs {
		if r.Race {
			needRace = true
		} else {
			needPlain = true
		}
	}
	if len(p.Fuzz) > 0 {
		needPlain = true
	}
	bin := filepath.Join(work, "prop.test")
	binRace := filepath.Join(work, "prop.race.test")
	var bwg sync.WaitGroup
	var berr [3]error
	var bout [3]string
	build := func(i int, args ...string) {
		bwg.Add(1)
		go func() {
			defer bwg.Done()
			// one module file per concurrent build: go may rewrite it
			mf := filepath.Join(work, fmt.Sprintf("build%d.mod", i))
			os.WriteFile(mf, gomod, 0o644)
			if sum, err := os.ReadFile(filepath.Join(verifDir, "go.sum")); err == nil {
				os.WriteFile(filepath.Join(work, fmt.Sprintf("build%d.sum", i)), sum, 0o644)
			}
			c := exec.Command("go", args...)
			c.Dir = verifDir
			c.Env = env(mf)
			out, err := c.CombinedOutput()
			berr[i], bout[i] = err, string(out)
		}()
	}
	if needPlain {
		build(0, "test", "-c", "-vet=off", "-o", bin, "./"+p.Pkg)
	}
	if needRace && (tier == "thorough" || p.RaceInQuick) {
		build(1, "test", "-c", "-vet=off", "-race", "-o", binRace, "./"+p.Pkg)
	}
	goalign := filepath.Join(work, "goalign")
	if p.NeedCLI {
		build(2, "build", "-o", goalign, "github.com/evolbioinfo/goalign")
	}
	bwg.Wait()
	for i := range berr {
		if berr[i] != nil {
			fmt.Fprintf(os.Stderr, "BUILD FAILED (inconclusive):\n%s\n", bout[i])
			exit(2)
		}
	}
	buildWall := time.Since(start).Seconds()

	regress := filepath.Join(verifDir, "regress", strings.ToLower(p.ID))
	common := []string{
		"VERIF_TIER=" + tier,
		"VERIF_SEED=" + strconv.FormatInt(seed, 10),
		"VERIF_REGRESS_DIR=" + regress,
		"VERIF_KNOWN=" + filepath.Join(verifDir, "KNOWN_FINDINGS.txt"),
		"VERIF_GOALIGN=" + goalign,
		"VERIF_REPO_DIR=" + repo,
		"VERIF_DIR=" + verifDir,
		"TMPDIR=" + work,
	}

	if *replayF != "" {
		abs, _ := filepath.Abs(*replayF)
		code := 0
		b := bin
		if !needPlain {
			b = binRace
		}
		// raw byte inputs (parser totality) are wrapped by the property package itself
		c := exec.Command(b, "-test.v", "-test.timeout=10m")
		c.Dir = filepath.Join(verifDir, p.Pkg)
		c.Env = env(modfile, append(common, "VERIF_REPLAY="+abs)...)
		out, err := c.CombinedOutput()
		fmt.Print(string(out))
		if err != nil {
			fmt.Printf("VIOLATION property=%s replay=%s\n", p.ID, abs)
			code = 1
		}
		exit(code)
	}

	// the list of processes to run
	type job struct {
		run   runSpec
		shard int
		gomax int
	}
	var jobs []job
	for _, r := range p.Runs {
		if *onlyF != "" && !strings.Contains(r.Name, *onlyF) {
			continue
		}
		if r.ThoroughOnly && tier != "thorough" {
			continue
		}
		if r.Race && tier != "thorough" && !p.RaceInQuick {
			continue
		}
		shards := 1
		if tier == "thorough" && r.Shards > 1 {
			shards = r.Shards
		}
		gms := []int{0}
		if len(r.GoMaxProcs) > 0 {
			if tier == "thorough" {
				gms = r.GoMaxProcs
			} else {
				gms = r.GoMaxProcs[:1]
			}
		}
		for _, gm := range gms {
			for s := 0; s < shards; s++ {
				jobs = append(jobs, job{r, s, gm})
			}
		}
	}
	par := 1
	if tier == "thorough" {
		par = 16
	} else if p.QuickParallel > 1 {
		par = p.QuickParallel
	}
	results := make([]procResult, len(jobs))
	sem := make(chan struct{}, par)
	var wg sync.WaitGroup
	for i, j := range jobs {
		wg.Add(1)
		sem <- struct{}{}
		go func(i int, j job) {
			defer wg.Done()
			defer func() { <-sem }()
			results[i] = runProc(p, j.run, j.shard, j.gomax, tier, seed, work, bin, binRace, modfile, common, i)
			if *verbose {
				fmt.Fprintf(os.Stderr, "---- %s shard %d gomaxprocs %d: exit %d (%.1fs)\n%s\n", j.run.Name, j.shard, j.gomax, results[i].exit, results[i].wall, results[i].output)
			}
		}(i, j)
	}
	wg.Wait()

	var fuzzRes []fuzzResult
	if tier == "thorough" && len(p.Fuzz) > 0 && *onlyF == "" {
		fuzzRes = runFuzz(p, work, modfile, common, seed)
	}

	// ---- merge ------------------------------------------------------------------------
	ev := newEvidence(p, tier, seed)
	inconclusive := []string{}
	violations := []string{}
	outDir := verifDir
	if *noEvidence {
		outDir = work
	}
	replayDir = filepath.Join(outDir, "replays")
	os.MkdirAll(replayDir, 0o755)
	os.MkdirAll(filepath.Join(outDir, "evidence"), 0o755)
	known := map[string]bool{}
	for _, r := range results {
		label := fmt.Sprintf("%s/shard%d/gomaxprocs%d", r.run.Name, r.shard, r.gomax)
		for _, line := range strings.Split(r.output, "\n") {
			if strings.HasPrefix(line, "KNOWN-FINDING:") && !known[line] {
				known[line] = true
				fmt.Println(line)
			}
		}
		frag := readFragment(r.frag)
		if frag != nil {
			ev.merge(frag, r.run)
		}
		failed := false
		if frag != nil {
			for _, ts := range frag.Tests {
				if ts.Fail != nil {
					failed = true
					path := saveReplay(p.ID, ts.Fail)
					violations = append(violations, path)
					fmt.Printf("---- %s: %s\n%s\n", label, ts.Test, indent(trunc(ts.Fail.Message, 3000)))
				}
			}
		}
		if failed {
			continue
		}
		if r.exit == 0 && !r.timedOut {
			if frag == nil {
				inconclusive = append(inconclusive, label+": no evidence fragment written")
				continue
			}
			for _, ts := range frag.Tests {
				if !ts.Completed {
					inconclusive = append(inconclusive, label+": "+ts.Test+" did not complete")
				}
			}
			continue
		}
		// non-zero exit without a recorded failing case
		if strings.Contains(r.output, "WARNING: DATA RACE") {
			f := &failure{Property: p.ID, Test: r.run.Name, Message: "data race reported by the race detector\n" + raceExcerpt(r.output), Case: json.RawMessage(`{"kind":"race","run":` + strconv.Quote(label) + `}`)}
			violations = append(violations, saveReplay(p.ID, f))
			fmt.Printf("---- %s: data race\n%s\n", label, indent(raceExcerpt(r.output)))
			continue
		}
		if v, msg := interpretDeath(p, r, work, bin, modfile, common); v != nil {
			violations = append(violations, saveReplay(p.ID, v))
			fmt.Printf("---- %s: %s\n", label, msg)
			continue
		} else if msg != "" {
			inconclusive = append(inconclusive, label+": "+msg)
			continue
		}
		why := fmt.Sprintf("exit status %d", r.exit)
		if r.timedOut {
			why = "time limit of the driver reached"
		}
		inconclusive = append(inconclusive, label+": "+why+"\n"+indent(tail(r.output, 40)))
	}
	for _, fr := range fuzzRes {
		ev.addFuzz(fr)
		if fr.violation != nil {
			violations = append(violations, saveReplay(p.ID, fr.violation))
			fmt.Printf("---- fuzz %s: %s\n", fr.target, indent(trunc(fr.violation.Message, 2000)))
		} else if fr.inconclusive != "" {
			inconclusive = append(inconclusive, "fuzz "+fr.target+": "+fr.inconclusive)
		}
	}
	ev.Wall = time.Since(start).Seconds()
	ev.Coverage["build_wall_s"] = round1(buildWall)
	ev.Violations = len(violations)
	if len(inconclusive) > 0 {
		ev.Coverage["inconclusive"] = inconclusive
	}
	if err := ev.write(filepath.Join(outDir, "evidence", p.ID+".json")); err != nil {
		fmt.Fprintln(os.Stderr, "cannot write evidence:", err)
		exit(2)
	}
	fmt.Printf("%s %s seed=%d: evaluations=%d distinct_nontrivial=%d wall=%.1fs\n", p.ID, tier, seed, ev.evaluations, ev.distinct(), ev.Wall)
	if len(violations) > 0 {
		seen := map[string]bool{}
		for _, v := range violations {
			if !seen[v] {
				seen[v] = true
				fmt.Printf("VIOLATION property=%s replay=%s\n", p.ID, v)
			}
		}
		exit(1)
	}
	if len(inconclusive) > 0 {
		fmt.Fprintf(os.Stderr, "INCONCLUSIVE %s:\n", p.ID)
		for _, s := range inconclusive {
			fmt.Fprintln(os.Stderr, "  "+s)
		}
		exit(2)
	}
	exit(0)
}

func argsBeforeValue(rest []string) []string {
	// if the last flag seen still waits for its value, the next bare word is that value
	if len(rest) == 0 {
		return rest
	}
	last := rest[len(rest)-1]
	if strings.HasPrefix(last, "-") && !strings.Contains(last, "=") {
		switch strings.TrimLeft(last, "-") {
		case "tier", "replay", "seed", "only":
			return rest[:len(rest)-1]
		}
	}
	return rest
}

func rapidSeed(seed int64, test string, shard, gomax int) uint64 {
	h := fnv.New64a()
	fmt.Fprintf(h, "%d/%s/%d/%d", seed, test, shard, gomax)
	v := h.Sum64() >> 1
	if v == 0 {
		v = 0x9e3779b97f4a7c
	}
	return v
}

func runProc(p *propSpec, r runSpec, shard, gomax int, tier string, seed int64, work, bin, binRace, modfile string, common []string, idx int) procResult {
	res := procResult{run: r, shard: shard, gomax: gomax}
	b := bin
	if r.Race {
		b = binRace
	}
	checks := r.Quick
	if tier == "thorough" {
		checks = r.Thorough
	}
	if checks <= 0 {
		checks = 1
	}
	res.frag = filepath.Join(work, fmt.Sprintf("frag-%d.json", idx))
	res.side = filepath.Join(work, fmt.Sprintf("side-%d", idx))
	limit := r.TimeoutS
	if limit == 0 {
		limit = 900
	}
	if tier == "thorough" {
		limit *= 4
	}
	args := []string{
		"-test.run", r.Test,
		"-test.timeout", fmt.Sprintf("%ds", limit+60),
		"-rapid.checks", strconv.Itoa(checks),
		"-rapid.seed", strconv.FormatUint(rapidSeed(seed, r.Name, shard, gomax), 10),
		"-rapid.nofailfile",
		"-rapid.shrinktime", "20s",
	}
	if r.Steps > 0 {
		args = append(args, "-rapid.steps", strconv.Itoa(r.Steps))
	}
	c := exec.Command(b, args...)
	c.Dir = filepath.Join(verifDir, p.Pkg)
	extra := append([]string{}, common...)
	extra = append(extra, "VERIF_FRAG="+res.frag, "VERIF_SIDE="+res.side, "VERIF_SHARD="+strconv.Itoa(shard), "VERIF_CHECKS="+strconv.Itoa(checks))
	if gomax > 0 {
		extra = append(extra, "GOMAXPROCS="+strconv.Itoa(gomax))
	}
	if r.Race {
		extra = append(extra, "GORACE=halt_on_error=0 history_size=3")
	}
	extra = append(extra, r.Env...)
	c.Env = env(modfile, extra...)
	if p.MemLimitMB > 0 {
		// address space limit, so that an allocation driven by a file header dies instead of
		// thrashing the machine
		c = exec.Command("sh", append([]string{"-c", fmt.Sprintf("ulimit -v %d; exec \"$0\" \"$@\"", p.MemLimitMB*1024), b}, args...)...)
		c.Dir = filepath.Join(verifDir, p.Pkg)
		c.Env = env(modfile, extra...)
	}
	var out bytes.Buffer
	c.Stdout = &out
	c.Stderr = &out
	c.SysProcAttr = &syscall.SysProcAttr{Setpgid: true}
	t0 := time.Now()
	if err := c.Start(); err != nil {
		res.exit = 2
		res.output = err.Error()
		return res
	}
	done := make(chan error, 1)
	go func() { done <- c.Wait() }()
	select {
	case err := <-done:
		if err != nil {
			if ee, ok := err.(*exec.ExitError); ok {
				res.exit = ee.ExitCode()
				if res.exit < 0 {
					res.exit = 128
				}
			} else {
				res.exit = 2
			}
		}
	case <-time.After(time.Duration(limit) * time.Second):
		syscall.Kill(-c.Process.Pid, syscall.SIGKILL)
		<-done
		res.timedOut = true
		res.exit = 124
	}
	res.wall = time.Since(t0).Seconds()
	res.output = out.String()
	return res
}

var replayDir string

func saveReplay(id string, f *failure) string {
	b, _ := json.MarshalIndent(f, "", " ")
	h := sha1.Sum(b)
	path := filepath.Join(replayDir, fmt.Sprintf("%s-%s-%x.json", id, sanitize(f.Test), h[:4]))
	os.WriteFile(path, b, 0o644)
	return path
}

func sanitize(s string) string {
	var sb strings.Builder
	for _, r := range s {
		if r >= 'a' && r <= 'z' || r >= 'A' && r <= 'Z' || r >= '0' && r <= '9' || r == '_' {
			sb.WriteRune(r)
		} else {
			sb.WriteByte('_')
		}
	}
	return sb.String()
}

func indent(s string) string { return "    " + strings.ReplaceAll(s, "\n", "\n    ") }

func trunc(s string, n int) string {
	if len(s) > n {
		return s[:n] + "…"
	}
	return s
}

func tail(s string, n int) string {
	lines := strings.Split(strings.TrimRight(s, "\n"), "\n")
	if len(lines) > n {
		lines = lines[len(lines)-n:]
	}
	return strings.Join(lines, "\n")
}

func raceExcerpt(out string) string {
	i := strings.Index(out, "WARNING: DATA RACE")
	if i < 0 {
		return ""
	}
	s := out[i:]
	if j := strings.Index(s, "=================="); j > 0 {
		s = s[:j]
	}
	return trunc(s, 2500)
}

func round1(f float64) float64 { return float64(int64(f*10+0.5)) / 10 }

// ---- fragments and evidence -----------------------------------------------------------

type failure struct {
	Property string          `json:"property"`
	Test     string          `json:"test"`
	Message  string          `json:"message"`
	Case     json.RawMessage `json:"case"`
}

type testStats struct {
	Test         string            `json:"test"`
	Evaluations  int64             `json:"evaluations"`
	Skipped      int64             `json:"skipped"`
	NonTrivial   int64             `json:"nontrivial_evaluations"`
	HashList     []uint64          `json:"nt_hashes"`
	HashCapped   bool              `json:"nt_hashes_capped"`
	Classes      map[string]int64  `json:"classes"`
	Samples      []json.RawMessage `json:"samples"`
	Ambiguous    int64             `json:"ambiguous_accepted"`
	Ill          int64             `json:"ill_conditioned"`
	Excluded     map[string]int64  `json:"excluded_known"`
	Exhaustive   []string          `json:"exhaustive_subspaces"`
	Regress      int64             `json:"regression_cases"`
	Completed    bool              `json:"completed"`
	KnownPrinted []string          `json:"known_findings_printed"`
	Fail         *failure          `json:"failure,omitempty"`
}

type fragment struct {
	Property string       `json:"property"`
	Tests    []*testStats `json:"tests"`
}

func readFragment(path string) *fragment {
	b, err := os.ReadFile(path)
	if err != nil {
		return nil
	}
	var f fragment
	if json.Unmarshal(b, &f) != nil {
		return nil
	}
	return &f
}

type perTest struct {
	Evaluations int64            `json:"evaluations"`
	NonTrivial  int64            `json:"nontrivial_evaluations"`
	Distinct    int              `json:"distinct_nontrivial"`
	Skipped     int64            `json:"outside_domain_skipped,omitempty"`
	Regress     int64            `json:"regression_cases,omitempty"`
	Classes     map[string]int64 `json:"classes,omitempty"`
	Processes   int              `json:"processes"`
	hashes      map[uint64]bool
}

type evidence struct {
	PropertyID  string                 `json:"property_id"`
	Tier        string                 `json:"tier"`
	Seed        int64                  `json:"seed"`
	Level       string                 `json:"level"`
	Coverage    map[string]interface{} `json:"coverage"`
	Assumptions []string               `json:"assumptions"`
	Wall        float64                `json:"wall_s"`
	Violations  int                    `json:"violations"`

	evaluations int64
	per         map[string]*perTest
	samples     []interface{}
	ambiguous   int64
	ill         int64
	excluded    map[string]int64
	exhaustive  map[string]bool
	capped      bool
	knownP      map[string]bool
	fuzz        []map[string]interface{}
}

func newEvidence(p *propSpec, tier string, seed int64) *evidence {
	return &evidence{PropertyID: p.ID, Tier: tier, Seed: seed, Level: "exploration",
		Coverage: map[string]interface{}{"rule": p.Rule}, Assumptions: p.Assumptions,
		per: map[string]*perTest{}, excluded: map[string]int64{}, exhaustive: map[string]bool{}, knownP: map[string]bool{}}
}

func (e *evidence) merge(f *fragment, r runSpec) {
	for _, ts := range f.Tests {
		pt := e.per[ts.Test]
		if pt == nil {
			pt = &perTest{Classes: map[string]int64{}, hashes: map[uint64]bool{}}
			e.per[ts.Test] = pt
		}
		pt.Processes++
		pt.Evaluations += ts.Evaluations
		pt.NonTrivial += ts.NonTrivial
		pt.Skipped += ts.Skipped
		pt.Regress += ts.Regress
		for k, v := range ts.Classes {
			pt.Classes[k] += v
		}
		for _, h := range ts.HashList {
			pt.hashes[h] = true
		}
		e.evaluations += ts.Evaluations
		e.ambiguous += ts.Ambiguous
		e.ill += ts.Ill
		for k, v := range ts.Excluded {
			e.excluded[k] += v
		}
		for _, x := range ts.Exhaustive {
			e.exhaustive[x] = true
		}
		if ts.HashCapped {
			e.capped = true
		}
		for _, k := range ts.KnownPrinted {
			e.knownP[k] = true
		}
		for _, s := range ts.Samples {
			if len(e.samples) < 24 {
				var v interface{}
				if json.Unmarshal(s, &v) == nil {
					e.samples = append(e.samples, map[string]interface{}{"test": ts.Test, "case": v})
				}
			}
		}
	}
}

func (e *evidence) addFuzz(fr fuzzResult) {
	e.fuzz = append(e.fuzz, map[string]interface{}{"target": fr.target, "executions": fr.execs, "new_interesting": fr.interesting, "seconds": fr.seconds, "workers": fr.workers})
	e.evaluations += fr.execs
}

func (e *evidence) distinct() int {
	n := 0
	for _, pt := range e.per {
		n += len(pt.hashes)
	}
	return n
}

func (e *evidence) write(path string) error {
	for _, pt := range e.per {
		pt.Distinct = len(pt.hashes)
		// keep the class histogram readable
		if len(pt.Classes) > 80 {
			type kv struct {
				k string
				v int64
			}
			var l []kv
			for k, v := range pt.Classes {
				l = append(l, kv{k, v})
			}
			sort.Slice(l, func(i, j int) bool { return l[i].v > l[j].v || l[i].v == l[j].v && l[i].k < l[j].k })
			m := map[string]int64{}
			var restN int64
			for i, x := range l {
				if i < 80 {
					m[x.k] = x.v
				} else {
					restN += x.v
				}
			}
			m[fmt.Sprintf("(other %d classes)", len(l)-80)] = restN
			pt.Classes = m
		}
	}
	e.Coverage["evaluations"] = e.evaluations
	e.Coverage["distinct_nontrivial"] = e.distinct()
	if e.samples == nil {
		e.samples = []interface{}{}
	}
	e.Coverage["samples"] = e.samples
	e.Coverage["per_test"] = e.per
	e.Coverage["ambiguous_accepted"] = e.ambiguous
	e.Coverage["ill_conditioned_not_judged"] = e.ill
	e.Coverage["excluded_known"] = e.excluded
	var ex []string
	for k := range e.exhaustive {
		ex = append(ex, k)
	}
	sort.Strings(ex)
	e.Coverage["exhaustive_subspaces"] = ex
	e.Coverage["exhaustive"] = false
	if e.capped {
		e.Coverage["distinct_nontrivial_note"] = "hash set capped at 3000000 per process: the count is a lower bound"
	}
	var kp []string
	for k := range e.knownP {
		kp = append(kp, k)
	}
	sort.Strings(kp)
	e.Coverage["known_findings_reproduced"] = kp
	if e.fuzz != nil {
		e.Coverage["native_fuzzing"] = e.fuzz
	}
	b, err := json.MarshalIndent(e, "", " ")
	if err != nil {
		return err
	}
	tmp := path + ".tmp"
	if err := os.WriteFile(tmp, b, 0o644); err != nil {
		return err
	}
	return os.Rename(tmp, path)
}
