package main

import (
	"encoding/json"
	"fmt"
	"os"
	"strings"
)

// writeManifest prints MANIFEST.json from the property table, so that the two cannot drift
func writeManifest() {
	type level struct {
		Category  string `json:"category"`
		Text      string `json:"text"`
		DesignRef string `json:"design_ref"`
	}
	type check struct {
		PropertyID string `json:"property_id"`
		Quick      string `json:"quick_cmd"`
		Thorough   string `json:"thorough_cmd"`
		Evidence   string `json:"evidence_file"`
		Replay     string `json:"replay_cmd_template"`
		Engine     string `json:"engine"`
		Level      level  `json:"level_claimed"`
		Note       string `json:"level_note"`
		Technique  string `json:"technique"`
	}
	var checks []check
	var ids []string
	for _, p := range properties {
		if !claimed[p.ID] {
			continue
		}
		ids = append(ids, p.ID)
		checks = append(checks, check{
			PropertyID: p.ID,
			Quick:      "bin/check " + p.ID + " --tier quick",
			Thorough:   "bin/check " + p.ID + " --tier thorough",
			Evidence:   "/verif/evidence/" + p.ID + ".json",
			Replay:     "bin/check " + p.ID + " --replay {path}",
			Engine:     "pbt",
			Level:      level{"exploration", p.LevelText, p.DesignRef},
			Note:       p.LevelNote,
			Technique:  p.Technique,
		})
	}
	m := map[string]interface{}{
		"version":   1,
		"setup_cmd": "sh ./setup.sh",
		"hooks": map[string]interface{}{
			"guard":            "verif",
			"enable":           "no hook is needed: every check uses the exported API and the command line only (go build -tags verif is accepted and changes nothing)",
			"baseline_off_cmd": "cd /repo && go test -vet=off -count=1 -timeout 25m ./...",
			"source_commits":   []string{},
			"add_only":         true,
		},
		"engines": []map[string]interface{}{
			{"name": "pbt", "path": "/verif/cmd/check + /verif/internal/pbt + /verif/props/*", "serves_properties": ids,
				"kind_free_text": "property-based testing with pgregory.net/rapid v1.3.0 (generated cases, shrinking, replay files that bypass the library), bounded-exhaustive enumeration of the finite sub-spaces, native go test -fuzz in the thorough tier for the parsers; explicit oracles: reference models, round trips, metamorphic and differential relations"},
		},
		"checks":         checks,
		"not_applicable": currentNotApplicable(ids),
		"notes":          "Every check rebuilds its test binary (and, for the command-line tier, the goalign binary) from /repo's working tree through a replace directive. Exit 2 = inconclusive (build failure, time limit), never reported as a violation. KNOWN_FINDINGS.txt lists repaired (fixed:) and unrepaired (known:) defects; see DESIGN.md section 3.",
	}
	b, _ := json.MarshalIndent(m, "", " ")
	fmt.Fprintln(os.Stdout, string(b))
}

type na struct {
	PropertyID string `json:"property_id"`
	Reason     string `json:"reason"`
}

// properties deliberately not claimed, with the reason
var notApplicable = []na{}

// currentNotApplicable adds every listed property that has no check in the table yet
func currentNotApplicable(claimed []string) []na {
	out := append([]na{}, notApplicable...)
	have := map[string]bool{}
	for _, c := range claimed {
		have[c] = true
	}
	for _, n := range out {
		have[n.PropertyID] = true
	}
	b, err := os.ReadFile(verifDir + "/properties.jsonl")
	if err != nil {
		return out
	}
	for _, line := range strings.Split(string(b), "\n") {
		var p struct {
			ID string `json:"id"`
		}
		if json.Unmarshal([]byte(line), &p) == nil && p.ID != "" && !have[p.ID] {
			out = append(out, na{p.ID, "not claimed yet: the check designed in DESIGN.md section 5 is not built at this commit (the technique applies; nothing is asserted about this property until it is)"})
		}
	}
	return out
}
