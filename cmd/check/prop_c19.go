package main

func init() {
	register(propSpec{
		ID: "C19", Pkg: "props/c19",
		Rule: "cases (queries): an alignment or a sequence set (1-6 rows x 1-24 columns, nucleotide or protein, gaps, mixed case, ambiguity codes, rows made of codons with start and stop for ORF search/phasing, non-empty comments) and a history of 1-3 operations drawn from 57 read-only or copy-producing operations with generated arguments (valid positions, borders and invalid ones): the six writers (fasta, fasta sequences, phylip with its three options, nexus, clustal, stockholm, paml) and String; CharStats, UniqueCharacters, CharStatsSeq/Site, MaxCharStats, Entropy, AvgAllelesPerSite, NbVariableSites, InformativeSites, Pssm (5 normalisations), SiteConservation, CountDifferences, NumGapsUnique/NumMutationsUniquePerSequence (with and without a count profile), Frameshifts, Stops, Identical, DetectAlphabet, MaxNameLength, RefCoordinates, RefSites, InverseCoordinates, InversePositions, NewCountProfileFromAlignment, Consensus; dna.DistMatrix (7 models, weights, gamma, 1-3 threads), protein MLDist (6 matrices, model/empirical frequencies, gamma, gap removal); NewPwAligner(SW and ATG)...Alignment, LongestORF, Phaser.Phase (given reference or longest ORF, translated or not, both strands, 1-3 threads); SubAlign, SelectSites, Transpose, BuildBootstrap, Clone, CloneSeqBag, Unalign, Split, RandSubAlign, CodonAlign; Iterate/IterateChar/IterateAll, Sequences, SequencesChan, the accessors, and the Sequence level queries (LongestORF, Translate, Clone, NumGaps..., Num/ListMutationsComparedToReferenceSequence). " +
			"Oracle: a deep snapshot of the receiver (names, residues, comments, what the name index returns for every name, number of sequences, Length(), alphabet) taken before the history equals the snapshot taken after every operation; the same for the other operands (nucleotide set of CodonAlign, reference of Phase, second operand of Identical). Return values are never looked at; a panic or an error of the operation is not judged here, the snapshot still is. " +
			"cases (ownership): Clone, CloneSeqBag, Sequence.Clone, SubAlign, RandSubAlign (consecutive and not, seeded), SelectSites with valid arguments, then 1-5 in-place mutations (SetSequenceChar, ReplaceChar, writes through SequenceChar()/GetSequenceChar()/GetSequenceCharById()/IterateChar, ReverseComplement (all or one row), Sequence.Reverse/Complement, ToLower, ToUpper, Mask (4 replacement modes), Replace, DiffWithFirst, ReplaceMatchChars, TrimSequences, Sort, AppendSeqIdentifier, seeded ShuffleSites/Mutate/AddGaps/Swap) applied to the RESULT - the source snapshot must not move after any of them - and then to the SOURCE - the result snapshot must not move. " +
			"Non-trivial: every operation of the history returned without error on a container with >= 2 rows (queries); at least one mutation changed a byte (ownership); distinct = distinct JSON form of the case",
		Assumptions: []string{
			"ownership is asserted only for what the statement names: clones, sub-alignments (SubAlign, RandSubAlign) and site selections; Sample/Rarefy (which share row slices with their source), Transpose, BuildBootstrap, Unalign, Split, Consensus, CodonAlign results are only checked not to modify their input",
			"Phase is not executed when a sequence has no positively scoring alignment with any reference: a worker goroutine of the phaser then dereferences nil and the process dies (a defect of phasing, outside this property; props/c19/FINDINGS.md); such histories are counted in excluded_known under phase-no-positive-alignment; every Phase operation runs in a child process of the test (a crash there is recorded as a class, not judged)",
			"the snapshot is read through IterateAll, GetSequence, NbSequences, Length and Alphabet, which are trusted not to modify the container",
			"absence of violations is established on the explored cases only",
		},
		LevelText: "Generated-input search with a before/after deep-snapshot oracle: ~100 000 (quick) to ~3 million (thorough) histories of read-only / copy-producing operations and mutate-the-copy / mutate-the-source scenarios on alignments and sequence sets. Shows absence of hidden mutation and aliasing on what was explored.",
		LevelNote: "trusts the snapshot accessors; operations that panic or fail are recorded as classes, not judged",
		Technique: "property-based testing (rapid): frame condition (deep snapshot equality) over operation histories; two-directional aliasing test by in-place mutation",
		DesignRef: "DESIGN.md section 5, C19",
		Runs: []runSpec{
			{Name: "queries", Test: "^TestQueries$", Quick: 60000, Thorough: 200000, Shards: 8},
			{Name: "ownership", Test: "^TestOwnership$", Quick: 60000, Thorough: 200000, Shards: 8},
		},
	})
}
