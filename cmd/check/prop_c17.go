package main

func init() {
	register(propSpec{
		ID: "C17", Pkg: "props/c17", NeedCLI: true,
		Rule: "cases: protein alignments of 2-6 rows x 1-80 columns (10 % with 1-5 columns) derived from a drawn ancestor (whole alphabet or a 2-6 letter pool) with a per-row divergence from 0 to 0.97, then '-', X and '*' sprinkled per site (0-30 %) and per column (gap-rich columns); the seven models x model/empirical frequencies x gamma off/on (alpha in [0.2,5], ends and 1 over-represented) x gap-site removal x weights {nil, positive}; a row and a column permutation. The structure is drawn through rapid, the per-site coin flips come from a splitmix64 stream seeded by a drawn value (rapid's own float/int draws are strongly biased towards small values). " +
			"Oracle: for each pair with an unambiguous difference and 0 < d < 20, the pair-frequency matrix F built by the harness (selected, comparable, weighted, normalised), pi and the eigen system taken from a models/protein.ProtModel initialised by the harness (empirical frequencies re-computed by the harness in the FastME convention), P(t) = R diag(f(lambda t)) L with f = exp or (alpha/(alpha - lambda t))^alpha, lnL(t) = sum F_ij ln(pi_i P_ij(t)); required lnL(d) >= lnL(t) - 1e-7 for t on a 60-point log grid over [1e-8,100] and t = d(1+-1e-3), d(1+-1e-2). Matrix: symmetric (exactly), zero diagonal, pairs without unambiguous difference at exactly 0, entries in [0,20]. Relations: MLDist on the row-permuted alignment gives the permuted matrix, on the column-permuted alignment (weights permuted alike) the same matrix, within 1e-4, for the pairs whose likelihood is measurably curved around d. Command line: goalign compute distance -m <model> [-r] [--alpha a] [-a] on a FASTA file, output read by an independent reader and judged by the same oracle; exit status 0 required. Two deterministic sub-tests run the minimal reproductions of the known findings. " +
			"Non-trivial: at least one pair with an unambiguous difference and 1e-6 < d < 20 judged by the likelihood oracle; distinct = distinct JSON form of the case",
		Assumptions: []string{
			"empirical frequencies follow the convention written in the comments of aaFrequency (FastME): weighted counts over the selected sites, a character that is not an amino acid counts 1/20 for each, one pseudo-count for every amino acid when some count is below 1/20",
			"gap-site removal: the flag help says 'positions containing >=1 gaps', the code also removes columns holding X or '*'; a distance that maximises the likelihood under either selection of sites is accepted (ambiguous_accepted counts the alignments where the two differ)",
			"the eigen system of the protein model is taken from models/protein (judged by C18, not here); the likelihood is re-assembled from it by the harness",
			"the allowed range of distances is [1e-8,100] (BL_MIN, BL_MAX); a pair reported at the cap 20 is not judged further; a pair whose likelihood changes by less than 1e-9 between d and d(1+-1e-2) is exempt from the permutation relations (ill_conditioned)",
			"pairs with the signature of a finding listed in KNOWN_FINDINGS.txt (protein-no-comparable-site: a difference exists but the comparable selected weight is 0; protein-local-maximum: d is a local maximum, a grid distance is better, a likelihood valley lies in between) are not judged and are counted under excluded_known; when the key is not listed the same signature is a violation (props/c17/FINDINGS.md)",
			"absence of violations is established on the explored alignments and configurations only",
		},
		LevelText: "Generated-input search against an independent likelihood evaluation: ~1 500 (quick) to ~50 000 (thorough) alignments x configurations, every reported distance below the cap compared with 64 other candidate distances under a likelihood re-assembled by the harness, plus matrix predicates, row/column permutation relations and ~150-2 400 command executions. Shows absence of violations on what was explored.",
		LevelNote: "trusts the eigen-decomposition exported by models/protein (covered by C18) and the harness's reading of the empirical-frequency convention; two known findings are excluded by signature while listed",
		Technique: "property-based testing (rapid): optimality predicate from an independent likelihood + metamorphic relations (row/column permutation) + command-line differential; known-findings protocol",
		DesignRef: "DESIGN.md section 5, C17",
		Runs: []runSpec{
			{Name: "distances", Test: "^TestDistances$", Quick: 1200, Thorough: 3000, Shards: 16},
			{Name: "known", Test: "^TestKnown", Quick: 1, Thorough: 1},
			{Name: "cli", Test: "^TestCLI$", Quick: 150, Thorough: 600, Shards: 4},
		},
	})
}
