package main

func init() {
	register(propSpec{
		ID: "C17", Pkg: "props/c17", NeedCLI: true, QuickParallel: 4,
		Rule: "cases: protein alignments of 2-6 rows x 1-80 columns (10 % with 1-5 columns) derived from a drawn ancestor (whole alphabet or a 2-6 letter pool) with a per-row divergence from 0 to 0.97, then '-', X and '*' sprinkled per site (0-30 %) and per column (gap-rich columns); the seven models x model/empirical frequencies x gamma off/on (alpha in [0.2,5], ends and 1 over-represented) x gap-site removal x weights {nil, positive}; a row and a column permutation. The structure is drawn through rapid, the per-site coin flips come from a splitmix64 stream seeded by a drawn value (rapid's own float/int draws are strongly biased towards small values). " +
			"Oracle: for each pair with an unambiguous difference and 0 < d < 20, the pair-frequency matrix F built by the harness (selected, comparable, weighted, normalised), the rate matrix rebuilt by the harness from the exported exchangeabilities x the frequencies in use (model frequencies, or empirical frequencies re-computed by the harness in the FastME convention) and scaled to one expected substitution per unit time, its eigen system computed by the harness (Jacobi rotations on the symmetrised matrix, internal/refmodels; nothing of models/protein.ProtModel is used), P(t) = R diag(f(lambda t)) L with f = exp or (alpha/(alpha - lambda t))^alpha, lnL(t) = sum F_ij ln(pi_i P_ij(t)); required lnL(d) >= lnL(t) - 1e-7 for t on a 60-point log grid over [1e-8,100] and t = d(1+-1e-3), d(1+-1e-2). Matrix: symmetric (exactly), zero diagonal, pairs without unambiguous difference at exactly 0, entries in [0,20]. Relations: MLDist on the row-permuted alignment gives the permuted matrix, on the column-permuted alignment (weights permuted alike) the same matrix, within 1e-4, for the pairs whose likelihood is measurably curved around d. Model re-use: one ProtDistModel initialised once with InitModel(nil,nil), as cmd/computedist.go and cmd/distboot.go do, then MLDist on 2-3 alignments (same dimensions with other content, bootstrap-like column resamples, same length with another number of rows, other length; optional weights): every matrix is judged by the same oracle and must equal within 1e-9 the matrix of a fresh model. Command line: goalign compute distance -m <model> [-p] [-r] [--alpha a] [-a] on a FASTA file or on a sequential Phylip file holding 1-3 alignments, every printed matrix read by an independent reader and judged by the same oracle; exit status 0 required. Three deterministic sub-tests run the minimal reproductions of the findings of props/c17/FINDINGS.md (all repaired: a2d9778, f7984a1, 20826a6) through the same oracle, and regress/c17 holds two generated cases that fail when f7984a1 is reverted. " +
			"Non-trivial: at least one pair with an unambiguous difference and 1e-6 < d < 20 judged by the likelihood oracle; distinct = distinct JSON form of the case",
		Assumptions: []string{
			"empirical frequencies follow the convention written in the comments of aaFrequency (FastME): weighted counts over the selected sites, a character that is not an amino acid counts 1/20 for each, one pseudo-count for every amino acid when some count is below 1/20",
			"gap-site removal: the flag help says 'positions containing >=1 gaps', the code also removes columns holding X or '*'; a distance that maximises the likelihood under either selection of sites is accepted (ambiguous_accepted counts the alignments where the two differ)",
			"the exchangeabilities and model frequencies are read from the exported *Mats() tables (data shared with the code under test); the rate matrix, its scaling and its eigen system are the harness's own",
			"model re-use mirrors the commands: model frequencies, InitModel(nil,nil) once, MLDist per alignment; re-using a model initialised with empirical frequencies of one alignment on another alignment is not exercised (no caller does it, the statement does not say which frequencies would apply)",
			"the allowed range of distances is [1e-8,100] (BL_MIN, BL_MAX); a pair reported at the cap 20 is not judged further; a pair whose likelihood changes by less than 1e-9 between d and d(1+-1e-2) is exempt from the permutation relations (ill_conditioned)",
			"a pair whose only unambiguous differences lie in removed columns is reported at 1e-8 (lower end of the allowed range); the zero clause of the statement does not apply to it and the likelihood is evaluated at max(d,1e-8)",
			"a pair reported exactly at the cap 20 is only required to lie in [0,20]: the statement constrains distances below the cap (the class 'capped although the likelihood peaks below 10' is an observation, 0 on the unchanged tree)",
			"absence of violations is established on the explored alignments and configurations only",
		},
		LevelText: "Generated-input search against an independent likelihood evaluation: ~1 500 (quick) to ~40 000 (thorough) alignments x configurations, every reported distance below the cap compared with 64 other candidate distances under a likelihood re-assembled by the harness, plus matrix predicates, row/column permutation relations, histories of one model object applied to several alignments and ~150-2 500 command executions. Shows absence of violations on what was explored.",
		LevelNote: "trusts the published exchangeability tables as exported by goalign and the harness's reading of the empirical-frequency convention; a pair reported at the cap 20 is not constrained by the statement and not judged beyond the range",
		Technique: "property-based testing (rapid): optimality predicate from an independent likelihood + metamorphic relations (row/column permutation) + command-line differential; regression cases of three repaired findings",
		DesignRef: "DESIGN.md section 5, C17",
		Runs: []runSpec{
			// the same test under three seed domains: three processes in parallel in the quick tier
			{Name: "distances-a", Test: "^TestDistances$", Quick: 400, Thorough: 2500, Shards: 4},
			{Name: "distances-b", Test: "^TestDistances$", Quick: 400, Thorough: 2500, Shards: 4},
			{Name: "distances-c", Test: "^TestDistances$", Quick: 400, Thorough: 2500, Shards: 4},
			{Name: "reuse", Test: "^TestModelReuse$", Quick: 300, Thorough: 2500, Shards: 4},
			{Name: "regressions", Test: "^TestKnown", Quick: 1, Thorough: 1},
			{Name: "cli", Test: "^TestCLI$", Quick: 200, Thorough: 500, Shards: 4},
		},
	})
}
