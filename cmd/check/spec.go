package main

// runSpec is one test process (or one family of sharded processes) of a property
type runSpec struct {
	Name         string   // label, also the rapid seed domain
	Test         string   // -test.run expression
	Quick        int      // rapid checks in the quick tier
	Thorough     int      // rapid checks per shard in the thorough tier
	Shards       int      // number of shards in the thorough tier
	Race         bool     // use the -race build
	GoMaxProcs   []int    // one process per value in thorough, the first one in quick
	TimeoutS     int      // wall limit of one process in quick (x4 in thorough); 0 = 900
	Steps        int      // -rapid.steps
	ThoroughOnly bool     // skipped in quick
	Env          []string // extra environment
}

type fuzzSpec struct {
	Target  string // Fuzz function
	Seconds int
}

type propSpec struct {
	ID            string
	Pkg           string // package directory relative to /verif
	Rule          string // generation + non-triviality rule, copied into the evidence file
	Assumptions   []string
	NeedCLI       bool // build the goalign binary from the tree under test
	RaceInQuick   bool // run the Race runs in quick too
	QuickParallel int  // processes in parallel in quick (default 1)
	MemLimitMB    int  // ulimit -v of the test processes
	Isolated      bool // process death may be an observation (hang watchdog / out of memory)
	Runs          []runSpec
	Fuzz          []fuzzSpec
	// for MANIFEST.json
	LevelText string
	LevelNote string
	Technique string
	DesignRef string
}

func findProp(id string) *propSpec {
	for i := range properties {
		if properties[i].ID == id {
			return &properties[i]
		}
	}
	return nil
}
