package main

import (
	"bytes"
	"encoding/json"
	"fmt"
	"os"
	"os/exec"
	"path/filepath"
	"regexp"
	"strconv"
	"strings"
	"syscall"
	"time"
)

// interpretDeath looks at a test process that died without recording a failing case.
// For properties about termination and resource use (Isolated), the in-flight case was
// written to a side file before the call; it is re-run alone in a fresh process with a
// longer limit and only a reproduced failure is reported.
func interpretDeath(p *propSpec, r procResult, work, bin, modfile string, common []string) (*failure, string) {
	if !p.Isolated {
		return nil, ""
	}
	b, err := os.ReadFile(r.side)
	if err != nil {
		return nil, ""
	}
	var f failure
	if json.Unmarshal(b, &f) != nil {
		return nil, ""
	}
	kind := ""
	switch {
	case r.exit == 7:
		kind = "call did not return within the watchdog limit"
	case strings.Contains(r.output, "out of memory") || strings.Contains(r.output, "cannot allocate memory") || strings.Contains(r.output, "len out of range"):
		kind = "allocation failure (size driven by the input)"
	case strings.Contains(r.output, "[Error]"):
		kind = "process exit through io.ExitWithMessage"
	case r.timedOut:
		kind = "process wedged"
	default:
		kind = fmt.Sprintf("process death (exit %d)", r.exit)
	}
	// confirmation in a fresh process
	replay := filepath.Join(work, fmt.Sprintf("confirm-%d.json", time.Now().UnixNano()))
	os.WriteFile(replay, b, 0o644)
	c := exec.Command("sh", "-c", fmt.Sprintf("ulimit -v %d; exec \"$0\" \"$@\"", maxInt(p.MemLimitMB, 4096)*1024), bin, "-test.run", "^"+f.Test+"$", "-test.timeout", "120s")
	c.Dir = filepath.Join(verifDir, p.Pkg)
	c.Env = env(modfile, append(append([]string{}, common...), "VERIF_REPLAY="+replay, "VERIF_WATCHDOG_S=30", "VERIF_SIDE="+replay+".side")...)
	var out bytes.Buffer
	c.Stdout, c.Stderr = &out, &out
	c.SysProcAttr = &syscall.SysProcAttr{Setpgid: true}
	if err := c.Start(); err != nil {
		return nil, "cannot start the confirmation run: " + err.Error()
	}
	done := make(chan error, 1)
	go func() { done <- c.Wait() }()
	var werr error
	select {
	case werr = <-done:
	case <-time.After(90 * time.Second):
		syscall.Kill(-c.Process.Pid, syscall.SIGKILL)
		<-done
		werr = fmt.Errorf("killed after 90 s")
	}
	if werr == nil {
		return nil, "slow: " + kind + ", not reproduced when the case was re-run alone (not a violation)"
	}
	f.Message = kind + "; reproduced alone in a fresh process (" + werr.Error() + ")\n" + tail(out.String(), 15)
	return &f, kind
}

func maxInt(a, b int) int {
	if a > b {
		return a
	}
	return b
}

type fuzzResult struct {
	target       string
	execs        int64
	interesting  int64
	seconds      int
	workers      int
	violation    *failure
	inconclusive string
}

var reExecs = regexp.MustCompile(`execs: (\d+)`)
var reInteresting = regexp.MustCompile(`new interesting: (\d+)`)

// runFuzz runs the native coverage-guided fuzz targets one after the other (each uses all
// cores). The semantic oracle is inside the target; a failing input is reported through
// the side file written by the target (Go's own saved crasher is not trusted, see DESIGN
// 2.5) and confirmed in a fresh process.
func runFuzz(p *propSpec, work, modfile string, common []string, seed int64) []fuzzResult {
	var res []fuzzResult
	fbin := filepath.Join(work, "prop.fuzz.test")
	c := exec.Command("go", "test", "-c", "-vet=off", "-fuzz=Fuzz", "-o", fbin, "./"+p.Pkg)
	c.Dir = verifDir
	c.Env = env(modfile)
	if out, err := c.CombinedOutput(); err != nil {
		return []fuzzResult{{target: "(build)", inconclusive: "cannot build the fuzz binary: " + tail(string(out), 10)}}
	}
	for _, fs := range p.Fuzz {
		fr := fuzzResult{target: fs.Target, seconds: fs.Seconds, workers: 16}
		cache := filepath.Join(work, "fuzzcache-"+fs.Target)
		os.MkdirAll(cache, 0o755)
		// the package directory must not be written to: run in a scratch copy of testdata
		scratch := filepath.Join(work, "fuzzwd-"+fs.Target)
		os.MkdirAll(scratch, 0o755)
		src := filepath.Join(verifDir, p.Pkg, "testdata")
		if _, err := os.Stat(src); err == nil {
			exec.Command("cp", "-r", src, filepath.Join(scratch, "testdata")).Run()
		}
		side := filepath.Join(work, "fuzzside-"+fs.Target)
		os.MkdirAll(side, 0o755)
		args := []string{"-test.run", "^$", "-test.fuzz", "^" + fs.Target + "$", "-test.fuzztime", strconv.Itoa(fs.Seconds) + "s", "-test.fuzzcachedir", cache, "-test.parallel", "16", "-test.timeout", strconv.Itoa(fs.Seconds+300) + "s"}
		// the limit is per process; the coordinator maps 100 MB of shared memory per worker and
		// needs thread stacks on top, hence four times the limit of a plain test process
		fc := exec.Command("sh", append([]string{"-c", fmt.Sprintf("ulimit -v %d; exec \"$0\" \"$@\"", maxInt(p.MemLimitMB, 4096)*4*1024), fbin}, args...)...)
		fc.Dir = scratch
		fc.Env = env(modfile, append(append([]string{}, common...), "VERIF_SIDE_DIR="+side, "VERIF_FUZZ=1", "VERIF_CORPUS="+filepath.Join(verifDir, "corpus"))...)
		var out bytes.Buffer
		fc.Stdout, fc.Stderr = &out, &out
		fc.SysProcAttr = &syscall.SysProcAttr{Setpgid: true}
		t0 := time.Now()
		err := fc.Start()
		if err == nil {
			done := make(chan error, 1)
			go func() { done <- fc.Wait() }()
			select {
			case err = <-done:
			case <-time.After(time.Duration(fs.Seconds+360) * time.Second):
				syscall.Kill(-fc.Process.Pid, syscall.SIGKILL)
				<-done
				err = fmt.Errorf("fuzz coordinator killed")
			}
		}
		_ = t0
		o := out.String()
		for _, m := range reExecs.FindAllStringSubmatch(o, -1) {
			if v, e := strconv.ParseInt(m[1], 10, 64); e == nil && v > fr.execs {
				fr.execs = v
			}
		}
		for _, m := range reInteresting.FindAllStringSubmatch(o, -1) {
			if v, e := strconv.ParseInt(m[1], 10, 64); e == nil && v > fr.interesting {
				fr.interesting = v
			}
		}
		if err != nil {
			// a failing input: recorded by the target in the side directory (violation files
			// first, then in-flight files of workers that died)
			cand := sideCandidates(side)
			confirmed := false
			for _, cf := range cand {
				if f, ok := confirmFuzz(p, cf, work, modfile, common); ok {
					fr.violation = f
					confirmed = true
					break
				}
			}
			if !confirmed {
				fr.inconclusive = "fuzzing stopped (" + err.Error() + ") but no recorded input reproduces alone:\n" + indent(tail(o, 25))
			}
		}
		os.RemoveAll(cache)
		os.RemoveAll(scratch)
		res = append(res, fr)
		if fr.violation != nil {
			break
		}
	}
	return res
}

func sideCandidates(dir string) []string {
	v, _ := filepath.Glob(filepath.Join(dir, "violation-*.json"))
	w, _ := filepath.Glob(filepath.Join(dir, "inflight-*.json"))
	return append(v, w...)
}

func confirmFuzz(p *propSpec, file, work, modfile string, common []string) (*failure, bool) {
	b, err := os.ReadFile(file)
	if err != nil {
		return nil, false
	}
	var f failure
	if json.Unmarshal(b, &f) != nil || f.Test == "" {
		return nil, false
	}
	bin := filepath.Join(work, "prop.test")
	c := exec.Command("sh", "-c", fmt.Sprintf("ulimit -v %d; exec \"$0\" \"$@\"", maxInt(p.MemLimitMB, 4096)*1024), bin, "-test.run", "^"+f.Test+"$", "-test.timeout", "120s")
	c.Dir = filepath.Join(verifDir, p.Pkg)
	c.Env = env(modfile, append(append([]string{}, common...), "VERIF_REPLAY="+file, "VERIF_WATCHDOG_S=30", "VERIF_SIDE="+file+".side")...)
	var out bytes.Buffer
	c.Stdout, c.Stderr = &out, &out
	c.SysProcAttr = &syscall.SysProcAttr{Setpgid: true}
	if err := c.Start(); err != nil {
		return nil, false
	}
	done := make(chan error, 1)
	go func() { done <- c.Wait() }()
	var werr error
	select {
	case werr = <-done:
	case <-time.After(90 * time.Second):
		syscall.Kill(-c.Process.Pid, syscall.SIGKILL)
		<-done
		werr = fmt.Errorf("killed after 90 s")
	}
	if werr == nil {
		return nil, false
	}
	f.Message = f.Message + "\nfound by native fuzzing; reproduced alone in a fresh process (" + werr.Error() + ")\n" + tail(out.String(), 15)
	return &f, true
}
