package main

func init() {
	register(propSpec{
		ID: "C11", Pkg: "props/c11", NeedCLI: true,
		Rule: "cases: executions of the goalign binary built from the tree under test. A table of 78 command templates (reformat fasta/phylip/nexus/clustal/paml/tnt incl. phylip and gz variants; clean sites/seqs; compute distance (7 nucleotide models, ranges, protein models)/entropy/pssm; consensus; stats and its 11 sub-commands; dedup; compress; concat; append; identical; diff; codonalign; mask; subseq; subsites; subset; split; extract; divide; transpose; rename; sort; addid; trim name/seq; replace; revcomp; tolower; unalign; translate; orf; phase; phasent; sw; shuffle sites/seqs/rogue/recomb/swap; sample seqs/sites/rarefy; mutate snvs/gaps; build seqboot (one template per output mode: plain files, --gz, --tar, --tar --gz, --partition; drawn -o prefix, -S, -f, 2-7 replicates in five cases out of six)/distboot/weightboot; random) with flag values derived from 8 drawn knobs, a --seed drawn over the whole int64 range (special values 0, 1, 2, -2, -3, -12345, MinInt64, MinInt64+1, MaxInt64, +-2^31, 2^32+7 over-weighted and cycled through the randomised templates in every run; never -1, documented as the clock), and a drawn order of 2-4 of the thread counts {1,2,4,16}. " +
			"Inputs: nucleotide/protein alignments of 2-10 rows x 4-40 columns generated column by column with tied majority columns on purpose (2-way, 4-way, gap/letter and N/letter ties, columns of gaps and N/n (X/x) only in equal numbers, of gaps only, of wildcards only; consensus, stats maxchar, clean sites --char MAJ and mask get an even number of rows and one guaranteed column of each special kind), codon-length alignments, or 2-12 (40 thorough) unaligned sequences around a mutated ORF. " +
			"Oracle (sweep and every-template runs): every template is run on 4 (quick) / 12 per shard (thorough) generated inputs whose knobs differ by 0..3, so that every on/off option is run both ways and every option of up to four values (e.g. the four combinations of --ignore-gaps/--ignore-n of consensus, stats maxchar, clean sites --char MAJ) every way, plus a random sweep; the command is executed 3 times with the first thread count and once with each other one, every execution in a fresh working directory; exit status, stdout and every file created (gz files also decompressed by the harness, tar archives member by member) must be byte-identical; randomised commands always get --seed, the others get it or not (seedless determinism). " +
			"Reformat chains: alignments of 1-8 rows over the whole representable set (nucleotide or protein IUPAC letters in both cases, '-', '*', '?'; no '.'), names from a hostile-but-legal dictionary (numerics, format keywords, residue-like, punctuation, non-ASCII), random printable names and names of 9-100 characters, minus what a format of the chain cannot represent ('>' always, '[];=' with Nexus, > 10 bytes with strict Phylip); a file written by goalign in fasta/phylip (plain, strict, one-line, no-block)/nexus/clustal goes through 1-5 further reformat steps (file or pipe) and back to the first format: every step exits 0 and the final bytes equal the first file (lengths around the writers' line widths). " +
			"Cross-command: build seqboot -n N --seed S (-f, with or without --gz, replicates decompressed by the harness) then compute distance on boot0..N-1 concatenated == build distboot -n N --seed S with the same model/-r/--alpha/-f, byte for byte, each command with its own drawn -t. " +
			"Regressions: TestPhaseOrder (80 fixed sequences, phase|phasent --unaligned -t 8, 6 executions, all byte-identical to -t 1) and TestNameMapOrder (12 sequences, trim name -a -m / rename -e -m / rename --clean-names -m, 8 executions each) keep the reproductions of the two defects found by this check and repaired by f25e994 and 21f2412. " +
			"Non-trivial: output non-empty and (the command is randomised, or hands --threads to a worker pool and a thread count > 1 was run, or its output is assembled from a Go map); chains with >= 2 distinct formats; non-empty matrices; distinct = distinct JSON form of the case",
		Assumptions: []string{
			"standard error is not compared: goalign's error messages carry a time stamp; exit status, stdout and every output file are",
			"a tar archive written by build seqboot --tar is compared by member names, modes, sizes and contents, not by header time stamps (each member is stamped with time.Now()); counted as ambiguous_accepted",
			"a command that exits with a non-zero status on a generated input must do so identically on every execution; it does not count as non-trivial",
			"only the commands of the template table are covered (listed by the cmd=... classes of the evidence); draw, completion and the interactive console are not",
			"thread counts are those of the quantifier's representative set {1,2,4,16}; the Go scheduler is not controlled: an order dependence that needs a rare schedule can be missed",
			"an execution that exceeds the 60 s limit of the runner is not judged (time is not a correctness signal)",
			"absence of violations is established on the explored executions only",
		},
		LevelText: "Generated-input search with differential oracles between executions: ~4 300 (quick) to ~60 000 (thorough) executions of the freshly built binary over 78 command templates, compared byte for byte across repetitions, thread counts, reformat round trips and the seqboot+distance / distboot cross-check. Shows absence of violations on what was explored; every template is executed in every run.",
		LevelNote: "run-to-run differences that depend on goroutine scheduling or map iteration are found only with the probability that two of 4-6 executions differ (the two defects found this way, phase/phasent output order and name map file order, differed in 27 % to 100 % of the pairs of executions)",
		Technique: "property-based testing (rapid) over command templates: repeated-execution and cross-thread differential, round-trip and cross-command metamorphic relations, deterministic regressions for the two repaired defects",
		DesignRef: "DESIGN.md section 5, C11 (and section 2.6, 3 row 20)",
		Runs: []runSpec{
			{Name: "every-template", Test: "^TestEveryTemplate$", Quick: 1, Thorough: 1, Shards: 4, TimeoutS: 600},
			{Name: "sweep", Test: "^TestSweep$", Quick: 150, Thorough: 600, Shards: 8, TimeoutS: 600},
			{Name: "chain", Test: "^TestReformatChain$", Quick: 150, Thorough: 600, Shards: 4, TimeoutS: 600},
			{Name: "boot-cross", Test: "^TestBootCross$", Quick: 40, Thorough: 200, Shards: 4, TimeoutS: 600},
			{Name: "phase-order", Test: "^TestPhaseOrder$", Quick: 1, Thorough: 1},
			{Name: "name-map-order", Test: "^TestNameMapOrder$", Quick: 1, Thorough: 1},
		},
	})
}
