package main

func init() {
	register(propSpec{
		ID: "C16", Pkg: "props/c16", NeedCLI: true, Isolated: true, RaceInQuick: true,
		Rule: "cases: an ORF = ATG + 8-40 sense codons + stop; 1-24 input sequences, each = random flank (0-30 nt) + a copy of one of 1-3 ORFs, verbatim or with 1-10 % substitutions and sometimes one inserted/deleted base after the first two codons (kept intact so that a positive alignment exists) + random flank, reverse-complemented at random when reverse is on; references given explicitly (1-3) or not at all; translate on/off x reverse on/off x cut-end on/off x 3 genetic codes; each case is phased with 1 worker and with one or two more counts drawn from {2,3,8,16,32}; one case in eight (translate mode) holds a sequence of 1-4 nucleotides (error case); in two cases of three all sequences (and, independently, the references) are rewritten as upper-case RNA, lower-case DNA, lower-case RNA or a soft-masked mixture of case and T/U. ORF search: 1-5 sequences of 3-30 tokens rich in ATG, stop codons, their reverse complements and single bases (overlapping reading frames), in the same five spellings, Sequence.LongestORF and SeqBag.LongestORF with reverse on/off. Command line: goalign phase / phasent (--unaligned --ref-orf --reverse --cut-end --genetic-code -t N, outputs, --aa-output, --nt-output and the log read back and matched by name) and goalign orf. " +
			"Oracle, per worker count: the channel is closed within the watchdog limit (otherwise the process is killed and the case re-run alone); without reported error exactly one result per input name; NtSeq = the input (or, only when reverse is on, its reverse complement) from Position to the end (to any cut when cut-end is on); CodonSeq = NtSeq minus 0-2 leading bases and its translation by NCBI table 1/2/5 (written in the harness) = AaSeq; if the single reference (given, or the unique naive longest ORF when none is given) occurs verbatim exactly once in the strands searched - and, translate mode, its translation occurs once in the 3/6 frame translations and looks like a protein - Position is its offset; the multiset of results is identical for every worker count; sequences and references are byte-identical afterwards; in an error case an error is reported and the channel is still closed. All relations are evaluated on the case-folded, U->T form; residues returned from the forward strand must be the original characters (on the reverse strand the observed complement convention, case kept and DNA letters, or - counted - any other). LongestORF: compared with a scan of every ATG to its first in-frame stop over all sequences and allowed strands: same maximal length, the returned residues are such a frame and occur in the input; error / (-1,-1) exactly when none exists. A race-detector build runs the error-free cases under GOMAXPROCS 4, 1, 2, 16. " +
			"Non-trivial: >=2 workers and >=4 sequences, or a reported start that is not a multiple of 3 (phasing); two reading frames in different frames overlap (ORF search). distinct = distinct JSON form of the case",
		Assumptions: []string{
			"results with Err != nil are the statement's 'unless an alignment error is reported': their sequence is not judged, and when any error is reported the count and worker-independence relations are skipped (counted in classes error-case / error-reported-unexpected)",
			"inputs in which nothing aligns with a positive score are outside the quantifier (the code dereferences nil there); the generator keeps ATG + one codon of every ORF copy intact",
			"the verbatim clause is applied only when the reference is determined (one given reference, or a unique longest ORF) and, in translate mode, when the translated reference holds a letter that is not also a nucleotide code (otherwise the aligner may score it as DNA: counted as ambiguous)",
			"the race on the shared error variable exists only on error paths and is not claimed; the race run uses cases that are error-free by construction",
			"a time limit is used as a correctness signal only for 'the result stream is always closed' (20 s watchdog, 30 s when re-run alone; a Phase call takes milliseconds)",
			"goalign phase -t N prints in channel-arrival order (property C11): the command-line outputs are matched by sequence name",
			"absence of violations is established on the explored cases and schedules only",
		},
		LevelText: "Generated-input search against relations taken from the statement: ~3 000 (quick) to ~64 000 (thorough) phasing cases, each run under two or three worker counts, ~40 000 to ~400 000 ORF-search cases against a naive scan, ~600 to ~6 000 command executions, and a race-detector build of the error-free cases under four GOMAXPROCS values. Shows absence of violations on the inputs and schedules explored; interleavings are sampled, not enumerated.",
		LevelNote: "trusts the harness's transcription of NCBI tables 1, 2, 5, its naive ORF scanner and its minimal FASTA/log readers; schedules are whatever the Go runtime produced",
		Technique: "property-based testing (rapid): validity relations (substring/frame/translation), metamorphic relation over worker counts, reference model for the ORF search; watchdog with re-run for termination; Go race detector; command-line differential",
		DesignRef: "DESIGN.md section 5, C16; section 2.5 (process isolation)",
		Runs: []runSpec{
			{Name: "phase", Test: "^TestPhase$", Quick: 3000, Thorough: 4000, Shards: 16},
			{Name: "orf", Test: "^TestLongestORF$", Quick: 40000, Thorough: 200000, Shards: 2},
			{Name: "race", Test: "^TestPhaseRace$", Quick: 200, Thorough: 600, Race: true, GoMaxProcs: []int{4, 1, 2, 16}},
			{Name: "cli", Test: "^TestCLI$", Quick: 600, Thorough: 1500, Shards: 4},
		},
	})
}
