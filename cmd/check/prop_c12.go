package main

func init() {
	enum := "9 cutoffs {-1/2, 0, 1/4, 1/3, 1/2, 2/3, 3/4, 1, 3/2}"
	register(propSpec{
		ID: "C12", Pkg: "props/c12", NeedCLI: true, QuickParallel: 4,
		Rule: "cases: (a) bounded-exhaustive: every alignment of the listed small shapes over {A,C,a,-,N,n} built as nucleotides and over {A,C,a,-,X,x} built as proteins, " + enum + ", character sets {-, A, AC, N|X, a}, all 2^5 combinations of ends / ignore-case / ignore-gaps / ignore-N / reverse for RemoveCharacterSites (quick: all 1440 combinations on every alignment up to 2x2, 3x1, 1x3; a rotating 12-96 of them on 3x2, 2x3, 4x1, 1x4, 1x5; thorough: up to 4x1/1x4 complete, 3x2/2x3 with 144, 3x3 with 2, 4x2 and 2x4 with 6, 1x5, 5x1, 1x6, 6x1 with 16-96 rotating combinations), plus RemoveGapSites (cutoff x ends), RemoveMajorityCharacterSites (cutoff x ends x ignore-gaps x ignore-N), RemoveGapSeqs (cutoff x ignore-N) and RemoveCharacterSeqs (cutoff x {-, A, N|X, a, n|x} x 2^3 options); (b) random alignments (1-12 rows x 1-15 columns, column-wise with repeated patterns, over ACGTNnXx-acgt resp. ACDNnXx-acdLl so that the wildcard of the other alphabet and the residue N of proteins occur) with cutoffs p/q, q <= 12 (p/rows resp. p/columns frequent, so exact ties occur; 0, 1 and values outside [0,1] included); in all library runs the alignment that is cleaned is obtained in the ways library users obtain one, rotating through: rows added with AddSequence; rows added with AddSequenceChar where identical rows come from ONE byte slice; half of the rows appended from another alignment with Append; Sample(all rows) of a source alignment; Clone() of a source alignment; (c) goalign clean sites / clean seqs executions with -c, --char (absent, GAP, -, MAJ, characters), --ends, --ignore-case/-gaps/-n, --reverse, --positions, --positions-rm, -q. " +
			"Oracle: the definition in exact rational arithmetic on p/q: a site (sequence) qualifies iff matching*q >= p*eligible, eligible = cells not excluded by ignore-gaps / ignore-N with the wildcard of the alignment's own alphabet in both cases, matching = cells in the character set (case folded on request, selection inverted on request) or the most frequent character among the eligible cells; count > 0 for cutoff 0 (and for a cutoff outside [0,1], as documented, except in the majority variant where the code compares with the value as given: both accepted there); every qualifying site removed, in ends mode exactly the maximal qualifying prefix and suffix; kept and removed indices ascending, disjoint, covering [0,L); leading/trailing counts = length of the removed prefix/suffix; result = selection of the kept columns (rows), names and order intact (judged on the rows in the order the alignment held them), Length()/NbSequences()/return count consistent; the alignment that was the SOURCE of the Append / Sample / Clone must be unchanged after the cleaning. Either outcome accepted (counted as ambiguous) where no cell is eligible, and where counting the matching cells over all cells or over the eligible cells only decides differently (a selected character that is also an excluded one). " +
			"Non-trivial: at least one site (sequence) removed and at least one kept, or a fraction equal to the cutoff; distinct = distinct (alphabet, rows, function, character set, cutoff, options, construction)",
		Assumptions: []string{
			"the float test of the code (count >= cutoff*total with cutoff = float64(p)/float64(q)) equals the rational test for every q <= 12 and total, count <= 16: checked completely by TestCutoffArithmetic at every run; cutoffs that are not such fractions are not explored",
			"a cutoff outside [0,1] is outside the property's quantifier; the documented rule (treated as 0) is asserted for the character, gap and sequence variants and not for the majority variant, which does not apply it (props/c12/FINDINGS.md)",
			"where a selected character is also excluded by ignore-gaps / ignore-N (the command line refuses the plain cases) and where no cell is eligible the fraction has two readings or none: either outcome accepted",
			"command line: refusals that the documentation does not mention (--ignore-gaps with a '-' character set, --ignore-n with N/n in the set, several characters for clean seqs) are accepted; --ignore-n is asserted for every --char including GAP",
			"absence of violations on the explored cases; the enumerated sub-spaces listed in the evidence are covered completely",
		},
		LevelText: "Bounded-exhaustive enumeration plus generated-input search against a reference model in exact rational arithmetic: about 16 million (quick) to 250 million (thorough) calls of the five cleaning functions on all small alignments x cutoffs x character sets x option combinations, 20 000 to 1.6 million random larger alignments with tie-producing cutoffs, and 400 to 8 000 executions of goalign clean sites/seqs. The listed small shapes are covered completely; beyond them absence of violations is shown on what was explored.",
		LevelNote: "trusts the harness's rational model and its minimal FASTA/position-file readers; cutoffs are fractions with denominator <= 12",
		Technique: "bounded-exhaustive enumeration and property-based testing (rapid) against a rational-arithmetic reference model; command-line differential with independent readers",
		DesignRef: "DESIGN.md section 5, C12",
		Runs: []runSpec{
			{Name: "sites-full-nt", Test: "^TestSitesFullNT$", Quick: 1, Thorough: 1, Shards: 2, Env: []string{"C12_SHARDS=2"}},
			{Name: "sites-full-aa", Test: "^TestSitesFullAA$", Quick: 1, Thorough: 1, Shards: 2, Env: []string{"C12_SHARDS=2"}},
			{Name: "sites-drawn-nt", Test: "^TestSitesDrawnNT$", Quick: 1, Thorough: 1, Shards: 4, Env: []string{"C12_SHARDS=4"}},
			{Name: "sites-drawn-aa", Test: "^TestSitesDrawnAA$", Quick: 1, Thorough: 1, Shards: 4, Env: []string{"C12_SHARDS=4"}},
			{Name: "site-variants", Test: "^TestSiteVariants$", Quick: 1, Thorough: 1, Shards: 6, Env: []string{"C12_SHARDS=6"}},
			{Name: "seqs", Test: "^TestSeqsEnum$", Quick: 1, Thorough: 1, Shards: 6, Env: []string{"C12_SHARDS=6"}},
			{Name: "random", Test: "^(TestCutoffArithmetic|TestRandom)$", Quick: 20000, Thorough: 100000, Shards: 16},
			{Name: "cli", Test: "^TestCLI$", Quick: 600, Thorough: 2000, Shards: 4},
		},
	})
}
