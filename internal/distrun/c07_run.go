// Package distrun calls goalign's nucleotide distance code for the checks of C07 and C08: it maps an
// option set of the reference model (internal/refdist) to the library calls the way cmd/computedist.go
// does, and to the command line of `goalign compute distance`.
package distrun

import (
	"fmt"
	"math"
	"strconv"
	"strings"

	"github.com/evolbioinfo/goalign/align"
	"github.com/evolbioinfo/goalign/distance/dna"
	"verif/internal/gen"
	"verif/internal/refdist"
)

// Ali converts rows to the shared alignment form (names s0, s1, ...)
func Ali(rows []string) gen.Ali {
	a := gen.Ali{Alphabet: "nt"}
	for i, r := range rows {
		a.Rows = append(a.Rows, gen.Row{Name: fmt.Sprintf("s%d", i), Seq: r})
	}
	return a
}

// Model builds the distance model of the options through the exported constructors and setters;
// viaName selects dna.Model(name, rmgaps) where the options allow it
func Model(opt refdist.Options, viaName bool) (dna.DistModel, error) {
	switch opt.Model {
	case refdist.Raw:
		if viaName && opt.GapMut == 0 {
			return dna.Model("rawdist", opt.RmGaps)
		}
		m := dna.NewRawDistModel(opt.RmGaps)
		if err := m.SetCountGapMutations(opt.GapMut); err != nil {
			return nil, err
		}
		return m, nil
	case refdist.PDist:
		if viaName && opt.GapMut == 0 && !opt.RmAmbiguous {
			return dna.Model("pdist", opt.RmGaps)
		}
		m := dna.NewPDistModel(opt.RmGaps)
		m.SetRemoveAmbiguous(opt.RmAmbiguous)
		if err := m.SetCountGapMutations(opt.GapMut); err != nil {
			return nil, err
		}
		return m, nil
	}
	if viaName {
		return dna.Model(opt.Model, opt.RmGaps)
	}
	switch opt.Model {
	case refdist.JC:
		return dna.NewJCModel(opt.RmGaps), nil
	case refdist.K2P:
		return dna.NewK2PModel(opt.RmGaps), nil
	case refdist.F81:
		return dna.NewF81Model(opt.RmGaps), nil
	case refdist.F84:
		return dna.NewF84Model(opt.RmGaps), nil
	case refdist.TN93:
		return dna.NewTN93Model(opt.RmGaps), nil
	}
	return nil, fmt.Errorf("harness: unknown model %q", opt.Model)
}

// Ranges returns the four range arguments of DistMatrix (-1 = whole matrix)
func Ranges(opt refdist.Options) (a, b, c, d int) {
	if opt.Ranges == nil {
		return -1, -1, -1, -1
	}
	return opt.Ranges[0], opt.Ranges[1], opt.Ranges[2], opt.Ranges[3]
}

// Matrix runs DistMatrix on the alignment with a fresh model
func Matrix(al align.Alignment, opt refdist.Options, viaName bool, threads int) ([][]float64, error) {
	m, err := Model(opt, viaName)
	if err != nil {
		return nil, fmt.Errorf("building the model: %v", err)
	}
	return MatrixWith(al, opt, m, threads)
}

// MatrixWith runs DistMatrix with a given model
func MatrixWith(al align.Alignment, opt refdist.Options, m dna.DistModel, threads int) ([][]float64, error) {
	a, b, c, d := Ranges(opt)
	var w []float64
	if opt.Weights != nil {
		w = append([]float64{}, opt.Weights...)
	}
	return dna.DistMatrix(al, w, m, a, b, c, d, opt.Gamma, opt.Alpha, threads)
}

// Args returns the arguments of `goalign compute distance` for the options (weights cannot be given
// on the command line; gamma is "--alpha given")
func Args(opt refdist.Options, file string, threads int) []string {
	args := []string{"compute", "distance", "-i", file, "-m", opt.Model}
	if opt.Gamma {
		args = append(args, "--alpha", strconv.FormatFloat(opt.Alpha, 'g', -1, 64))
	}
	if opt.RmGaps {
		args = append(args, "-r")
	}
	if opt.GapMut != 0 {
		args = append(args, "--gap-mut", strconv.Itoa(opt.GapMut))
	}
	if opt.RmAmbiguous {
		args = append(args, "--rm-ambiguous")
	}
	if opt.Ranges != nil {
		args = append(args, "--range1", fmt.Sprintf("%d:%d", opt.Ranges[0], opt.Ranges[1]), "--range2", fmt.Sprintf("%d:%d", opt.Ranges[2], opt.Ranges[3]))
	}
	if threads > 0 {
		args = append(args, "-t", strconv.Itoa(threads))
	}
	return args
}

// ParseMatrix is an independent reader of the printed matrix: a line with the number of rows, then
// one line per row: name, then the values separated by tabs
func ParseMatrix(out string) (names []string, m [][]float64, err error) {
	lines := strings.Split(strings.TrimRight(out, "\n"), "\n")
	if len(lines) == 0 || strings.TrimSpace(lines[0]) == "" {
		return nil, nil, fmt.Errorf("empty output")
	}
	n, e := strconv.Atoi(strings.TrimSpace(lines[0]))
	if e != nil || n < 0 {
		return nil, nil, fmt.Errorf("first line is not a number of rows: %q", lines[0])
	}
	if len(lines) != n+1 {
		return nil, nil, fmt.Errorf("%d lines after the header for %d rows", len(lines)-1, n)
	}
	for i := 1; i <= n; i++ {
		f := strings.Split(lines[i], "\t")
		if len(f) != n+1 {
			return nil, nil, fmt.Errorf("line %d has %d fields, want name + %d values", i+1, len(f), n)
		}
		names = append(names, f[0])
		row := make([]float64, n)
		for j := 0; j < n; j++ {
			v, perr := parseFloat(f[j+1])
			if perr != nil {
				return nil, nil, fmt.Errorf("line %d field %d: %v", i+1, j+2, perr)
			}
			row[j] = v
		}
		m = append(m, row)
	}
	return names, m, nil
}

// ParseMatrices reads several matrices printed one after the other (multi-alignment input)
func ParseMatrices(out string) (names [][]string, ms [][][]float64, err error) {
	lines := strings.Split(strings.TrimRight(out, "\n"), "\n")
	for k := 0; k < len(lines); {
		n, e := strconv.Atoi(strings.TrimSpace(lines[k]))
		if e != nil || n < 0 || k+1+n > len(lines) {
			return nil, nil, fmt.Errorf("line %d is not the header of a complete matrix: %q", k+1, lines[k])
		}
		nm, m, e := ParseMatrix(strings.Join(lines[k:k+1+n], "\n"))
		if e != nil {
			return nil, nil, fmt.Errorf("matrix starting at line %d: %v", k+1, e)
		}
		names, ms = append(names, nm), append(ms, m)
		k += 1 + n
	}
	return names, ms, nil
}

func parseFloat(s string) (float64, error) {
	switch s {
	case "NaN":
		return math.NaN(), nil
	case "+Inf", "Inf":
		return math.Inf(1), nil
	case "-Inf":
		return math.Inf(-1), nil
	}
	// digits '.' 12 decimals
	dot := strings.IndexByte(s, '.')
	if dot < 0 || len(s)-dot-1 != 12 {
		return 0, fmt.Errorf("%q is not printed with 12 decimals", s)
	}
	return strconv.ParseFloat(s, 64)
}
