// Package refmodels holds the reference substitution-model code shared by the checks of C18 and C17:
// small dense matrices, the scaling-and-squaring Taylor exponential, the normalisation of a rate
// matrix to one expected substitution per unit time, the rate matrix of the empirical protein models
// (exchangeabilities x frequencies) and an eigen-decomposition of a reversible rate matrix by Jacobi
// rotations. Nothing here calls goalign code or gonum; only the published exchangeability tables and
// frequency vectors are read from goalign's exported *Mats() functions (data, not judged code).
package refmodels

import (
	"crypto/sha256"
	"fmt"
	"math"
	"sort"

	"github.com/evolbioinfo/goalign/models/protein"
)

// Matrix is a square dense matrix
type Matrix [][]float64

func NewMatrix(n int) Matrix {
	m := make(Matrix, n)
	for i := range m {
		m[i] = make([]float64, n)
	}
	return m
}

func Identity(n int) Matrix {
	m := NewMatrix(n)
	for i := range m {
		m[i][i] = 1
	}
	return m
}

func Mul(a, b Matrix) Matrix {
	n := len(a)
	c := NewMatrix(n)
	for i := 0; i < n; i++ {
		ci := c[i]
		for k := 0; k < n; k++ {
			aik := a[i][k]
			if aik == 0 {
				continue
			}
			bk := b[k]
			for j := 0; j < n; j++ {
				ci[j] += aik * bk[j]
			}
		}
	}
	return c
}

// Expm: exp(q*t) by scaling and squaring of a Taylor series. q*t/2^s has infinity norm <= 1, the
// series is summed to the 30th power (remainder < 1e-32), the result is squared s times. Each squaring
// of a stochastic matrix at most doubles the rounding error: with |q_ii| t <= 1e4 (s <= 15) the result is
// exact to about 1e-11.
func Expm(q Matrix, t float64) Matrix {
	n := len(q)
	norm := 0.0
	for i := 0; i < n; i++ {
		r := 0.0
		for j := 0; j < n; j++ {
			r += math.Abs(q[i][j])
		}
		if r > norm {
			norm = r
		}
	}
	norm *= t
	s := 0
	for norm > 1 {
		norm /= 2
		s++
	}
	a := NewMatrix(n)
	f := t / math.Pow(2, float64(s))
	for i := 0; i < n; i++ {
		for j := 0; j < n; j++ {
			a[i][j] = q[i][j] * f
		}
	}
	res := Identity(n)
	term := Identity(n)
	for k := 1; k <= 30; k++ {
		term = Mul(term, a)
		for i := 0; i < n; i++ {
			for j := 0; j < n; j++ {
				term[i][j] /= float64(k)
				res[i][j] += term[i][j]
			}
		}
	}
	for ; s > 0; s-- {
		res = Mul(res, res)
	}
	return res
}

// Normalise scales q (off-diagonal entries given) to one expected substitution per unit time at
// stationarity, -sum_i w_i q_ii = 1, and fills the diagonal
func Normalise(q Matrix, w []float64) {
	n := len(q)
	mu := 0.0
	for i := 0; i < n; i++ {
		s := 0.0
		for j := 0; j < n; j++ {
			if j != i {
				s += q[i][j]
			}
		}
		q[i][i] = -s
		mu += w[i] * s
	}
	for i := 0; i < n; i++ {
		for j := 0; j < n; j++ {
			q[i][j] /= mu
		}
	}
}

// pinned: fingerprint of each published table (sha256 over the IEEE-754 bits of the 190 exchangeabilities
// of the lower triangle, row by row, then of the 20 frequencies), number of zero exchangeabilities and
// their sum, taken from the pinned snapshot of the repository (commit 8c25132,
// models/protein/matrices.go, identical to the file at the time the check was written). No independent
// transcription of the PAML/FastME tables is available offline: the published matrices are taken to be
// those of the pinned snapshot, any later change of an entry is reported.
var pinned = map[string]struct {
	sha   string
	zeros int
	sum   float64
}{
	"dayhoff": {"9cd94772d841b9750bf64916747e62ebdf7bfeeda61fe0bb764be3806316bcce", 34, 19140},
	"jtt":     {"894c607fa58ee791d294484d3325e9f356344dd7a6d3e6b3e5976ea4dccdc482", 0, 18873},
	"mtrev":   {"eaed4a0a4acf97141024d9c79884ee7bcd83b695492c37e4c7b069b9ff97baad", 0, 18999.989999999994},
	"lg":      {"6f5ccb453b9952082871e0837fdd6ed28672e21f4c6bc6f0863457dcf8374507", 0, 194.22041400000009},
	"wag":     {"e57eb3dac358345ab6a163d75aef5935b04d8c9716e95be67b51fccc4f668e07", 0, 18514.133089999999},
	"hivb":    {"f422c96dc4355b0a47e2b8665c520906c239edce0df9f88f14970b8b4639adfe", 0, 374.78780770999981},
	"ab":      {"1e7af393097d490329222b666cf48705a47233424c56ea9067e0e45f2c22e821", 0, 309.08732261538762},
}

func fingerprint(s Matrix, pi []float64) (sha string, zeros int, sum float64) {
	h := sha256.New()
	for i := 0; i < 20; i++ {
		for j := 0; j < i; j++ {
			fmt.Fprintf(h, "%016x,", math.Float64bits(s[i][j]))
			if s[i][j] == 0 {
				zeros++
			}
			sum += s[i][j]
		}
	}
	for _, p := range pi {
		fmt.Fprintf(h, "%016x;", math.Float64bits(p))
	}
	return fmt.Sprintf("%x", h.Sum(nil)), zeros, sum
}

// ProtData returns the exchangeabilities and the model frequencies of an empirical protein model as
// exported by goalign (state order A R N D C Q E G H I L K M F P S T W Y V), after checking that they are
// the published tables (fingerprint of the pinned snapshot)
func ProtData(name string) (s Matrix, pi []float64, err error) {
	if s, pi, err = protTable(name); err != nil {
		return
	}
	key := name
	if key == "dayoff" {
		key = "dayhoff"
	}
	want := pinned[key]
	if sha, zeros, sum := fingerprint(s, pi); sha != want.sha {
		return nil, nil, fmt.Errorf("the exchangeabilities/frequencies of %s are not the published table any more (pinned snapshot 8c25132: %d zero exchangeabilities, sum %.10g; now %d zeros, sum %.10g)", name, want.zeros, want.sum, zeros, sum)
	}
	return
}

func protTable(name string) (s Matrix, pi []float64, err error) {
	var at func(i, j int) float64
	switch name {
	case "dayhoff", "dayoff":
		m, p := protein.DayoffMats()
		at, pi = m.At, p
	case "jtt":
		m, p := protein.JTTMats()
		at, pi = m.At, p
	case "mtrev":
		m, p := protein.MtREVMats()
		at, pi = m.At, p
	case "lg":
		m, p := protein.LGMats()
		at, pi = m.At, p
	case "wag":
		m, p := protein.WAGMats()
		at, pi = m.At, p
	case "hivb":
		m, p := protein.HIVBMats()
		at, pi = m.At, p
	case "ab":
		m, p := protein.ABMats()
		at, pi = m.At, p
	default:
		return nil, nil, fmt.Errorf("unknown protein model %q", name)
	}
	s = NewMatrix(20)
	for i := 0; i < 20; i++ {
		for j := 0; j < 20; j++ {
			s[i][j] = at(i, j)
		}
	}
	for i := 0; i < 20; i++ {
		for j := 0; j < 20; j++ {
			if s[i][j] != s[j][i] || s[i][j] < 0 {
				return nil, nil, fmt.Errorf("exchangeability matrix of %s is not symmetric non-negative at (%d,%d): %v / %v", name, i, j, s[i][j], s[j][i])
			}
		}
	}
	return
}

// ProtQ: q_ij = s_ij w_j (i != j), scaled so that -sum_i weights_i q_ii = 1
func ProtQ(s Matrix, w, weights []float64) Matrix {
	n := len(s)
	q := NewMatrix(n)
	for i := 0; i < n; i++ {
		for j := 0; j < n; j++ {
			if i != j {
				q[i][j] = s[i][j] * w[j]
			}
		}
	}
	Normalise(q, weights)
	return q
}

// SymEigen: eigen values (ascending) and orthonormal eigen vectors (columns of v) of a symmetric
// matrix by cyclic Jacobi rotations
func SymEigen(a Matrix) (val []float64, v Matrix) {
	n := len(a)
	m := NewMatrix(n)
	for i := range a {
		copy(m[i], a[i])
	}
	v = Identity(n)
	for sweep := 0; sweep < 100; sweep++ {
		off := 0.0
		for i := 0; i < n; i++ {
			for j := i + 1; j < n; j++ {
				off += m[i][j] * m[i][j]
			}
		}
		if off < 1e-300 {
			break
		}
		for p := 0; p < n; p++ {
			for q := p + 1; q < n; q++ {
				if m[p][q] == 0 {
					continue
				}
				theta := (m[q][q] - m[p][p]) / (2 * m[p][q])
				t := 1 / (math.Abs(theta) + math.Sqrt(theta*theta+1))
				if theta < 0 {
					t = -t
				}
				c := 1 / math.Sqrt(t*t+1)
				s := t * c
				for k := 0; k < n; k++ {
					mkp, mkq := m[k][p], m[k][q]
					m[k][p] = c*mkp - s*mkq
					m[k][q] = s*mkp + c*mkq
				}
				for k := 0; k < n; k++ {
					mpk, mqk := m[p][k], m[q][k]
					m[p][k] = c*mpk - s*mqk
					m[q][k] = s*mpk + c*mqk
				}
				for k := 0; k < n; k++ {
					vkp, vkq := v[k][p], v[k][q]
					v[k][p] = c*vkp - s*vkq
					v[k][q] = s*vkp + c*vkq
				}
			}
		}
	}
	idx := make([]int, n)
	for i := range idx {
		idx[i] = i
	}
	sort.Slice(idx, func(x, y int) bool { return m[idx[x]][idx[x]] < m[idx[y]][idx[y]] })
	val = make([]float64, n)
	sorted := NewMatrix(n)
	for c, k := range idx {
		val[c] = m[k][k]
		for r := 0; r < n; r++ {
			sorted[r][c] = v[r][k]
		}
	}
	return val, sorted
}

// ReversibleEigen: q = right diag(val) left for a rate matrix q reversible with respect to pi
// (pi_i q_ij = pi_j q_ji), through the symmetric matrix diag(sqrt pi) q diag(1/sqrt pi)
func ReversibleEigen(q Matrix, pi []float64) (val []float64, left, right Matrix) {
	n := len(q)
	sym := NewMatrix(n)
	for i := 0; i < n; i++ {
		for j := 0; j < n; j++ {
			// average of the two triangles: exactly symmetric
			sym[i][j] = 0.5 * (q[i][j]*math.Sqrt(pi[i]/pi[j]) + q[j][i]*math.Sqrt(pi[j]/pi[i]))
		}
	}
	val, v := SymEigen(sym)
	left, right = NewMatrix(n), NewMatrix(n)
	for i := 0; i < n; i++ {
		for k := 0; k < n; k++ {
			right[i][k] = v[i][k] / math.Sqrt(pi[i])
			left[k][i] = v[i][k] * math.Sqrt(pi[i])
		}
	}
	return
}
