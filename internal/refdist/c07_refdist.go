// Package refdist is the reference model of goalign's nucleotide distances shared by the checks of
// C07 (estimators) and C08 (metamorphic relations, threads, faults).
//
// It is written from the literature and from the documentation (goalign compute distance --help,
// docs/commands/compute.md, doc comments of distance/dna) and works on plain strings: it imports
// nothing of goalign and never calls the code it judges.
//
//	raw    weighted number of counted differences
//	pdist  p = differences / comparable sites
//	JC69   d = -3/4 ln(1 - 4p/3)                                    (Jukes & Cantor 1969)
//	K2P    d = -1/2 ln(1 - 2P - Q) - 1/4 ln(1 - 2Q)                 (Kimura 1980)
//	F81    d = -B ln(1 - p/B), B = 1 - sum pi^2                     (Felsenstein 1981; Tajima & Nei 1984)
//	F84    d = -2A ln(1 - P/(2A) - (A-B)Q/(2AC)) + 2(A-B-C) ln(1 - Q/(2C))
//	       A = piA piG/piR + piC piT/piY, B = piA piG + piC piT, C = piR piY   (Felsenstein & Churchill 1996)
//	TN93   d = -(2 piA piG/piR) ln(1 - piR P1/(2 piA piG) - Q/(2 piR))
//	           -(2 piC piT/piY) ln(1 - piY P2/(2 piC piT) - Q/(2 piY))
//	           -2 (piR piY - piA piG piY/piR - piC piT piR/piY) ln(1 - Q/(2 piR piY))   (Tamura & Nei 1993)
//	gamma  every -ln(x) above becomes alpha (x^(-1/alpha) - 1)
package refdist

import (
	"fmt"
	"math"
)

const (
	Raw   = "rawdist"
	PDist = "pdist"
	JC    = "jc"
	K2P   = "k2p"
	F81   = "f81"
	F84   = "f84"
	TN93  = "tn93"
)

// Models lists the seven nucleotide models of `goalign compute distance`
var Models = []string{Raw, PDist, JC, K2P, F81, F84, TN93}

// Corrected tells whether the model applies a correction for multiple substitutions
func Corrected(model string) bool { return model != Raw && model != PDist }

// UsesPi tells whether the model uses the base frequencies of the alignment
func UsesPi(model string) bool { return model == F81 || model == F84 || model == TN93 }

// Gap counting modes of --gap-mut ("0: inactivated, 1: only internal gaps, 2: all gaps")
const (
	GapNone     = 0
	GapInternal = 1
	GapAll      = 2
)

// HugeLimit is the documented limit (NT_DIST_OVER) above which a distance is treated as not computable
const HugeLimit = 100000.0

// IllLimit : below this value of the smallest logarithm/power argument a pair is not judged (DESIGN 1)
const IllLimit = 1e-6

// Options of one distance computation
type Options struct {
	Model       string    `json:"model"`
	Gamma       bool      `json:"gamma"`
	Alpha       float64   `json:"alpha"`
	RmGaps      bool      `json:"rmgaps"`
	GapMut      int       `json:"gapmut"`
	RmAmbiguous bool      `json:"rmamb"`
	Weights     []float64 `json:"weights"` // nil: every site has weight 1
	Ranges      []int     `json:"ranges"`  // nil or {range1min, range1max, range2min, range2max}
}

// Reading fixes the point that statement and documentation leave open
type Reading struct {
	// RmGapsStrict: --rm-gaps removes every column that holds something else than A,C,G,T (the doc
	// comment of selectedSites: "sites that contain only nucleotides and no gaps"); otherwise only
	// the columns that hold a gap (flag help: "positions containing >=1 gaps")
	RmGapsStrict bool
}

func (r Reading) String() string {
	return fmt.Sprintf("{rm-gaps drops ambiguity columns:%v}", r.RmGapsStrict)
}

// ---- residues ---------------------------------------------------------------------------------

const (
	bA = 1 << iota
	bC
	bG
	bT
)

var iupac = map[byte]uint8{
	'A': bA, 'C': bC, 'G': bG, 'T': bT,
	'R': bA | bG, 'Y': bC | bT, 'S': bC | bG, 'W': bA | bT, 'K': bG | bT, 'M': bA | bC,
	'B': bC | bG | bT, 'D': bA | bG | bT, 'H': bA | bC | bT, 'V': bA | bC | bG, 'N': bA | bC | bG | bT,
}

// Set returns the set of bases a residue stands for (0 for the gap); residues outside the domain of
// the property (anything but IUPAC DNA letters and '-') panic: the generators never produce them
func Set(c byte) uint8 {
	if c == '-' {
		return 0
	}
	if c >= 'a' && c <= 'z' {
		c -= 32
	}
	s, ok := iupac[c]
	if !ok {
		panic(fmt.Sprintf("harness: residue %q outside the domain of the distance properties", c))
	}
	return s
}

func card(s uint8) int {
	n := 0
	for ; s != 0; s &= s - 1 {
		n++
	}
	return n
}

// ---- counting ---------------------------------------------------------------------------------

// Counts of one pair of rows
type Counts struct {
	Diff  float64 // weighted number of counted differences (incompatible residues; gap against residue in the gap modes)
	Total float64 // weighted number of comparable sites
	Ts    float64 // transitions between unambiguous bases
	Tv    float64 // transversions (one side within the purines, the other within the pyrimidines)
	AG    float64 // A<->G
	CT    float64 // C<->T
	MTot  float64 // comparable sites of the transition/transversion counter
}

func weight(w []float64, i int) float64 {
	if w == nil {
		return 1
	}
	return w[i]
}

// Selected returns the columns kept under the options
func Selected(rows []string, rmgaps bool, strict bool) []bool {
	l := 0
	if len(rows) > 0 {
		l = len(rows[0])
	}
	sel := make([]bool, l)
	for j := range sel {
		sel[j] = true
		if !rmgaps {
			continue
		}
		for _, r := range rows {
			s := Set(r[j])
			if s == 0 || (strict && card(s) != 1) {
				sel[j] = false
				break
			}
		}
	}
	return sel
}

// CountPair counts differences and comparable sites of rows a and b
func CountPair(a, b string, sel []bool, w []float64, gapmut int, rmamb bool) Counts {
	var c Counts
	lo, hi := 0, len(a)-1
	if gapmut == GapInternal {
		// only the columns between the first and the last residue of both rows
		f1, l1 := firstLast(a)
		f2, l2 := firstLast(b)
		if f1 < 0 || f2 < 0 {
			lo, hi = 0, -1
		} else {
			lo, hi = maxInt(f1, f2), minInt(l1, l2)
		}
	}
	for i := lo; i <= hi; i++ {
		if !sel[i] {
			continue
		}
		x, y := Set(a[i]), Set(b[i])
		wi := weight(w, i)
		// transition / transversion counter: residues on both sides
		if x != 0 && y != 0 {
			c.MTot += wi
			pur, pyr := uint8(bA|bG), uint8(bC|bT)
			switch {
			case x|pur == pur && y|pyr == pyr, x|pyr == pyr && y|pur == pur:
				c.Tv += wi
			case x|y == pur && x != y && card(x) == 1 && card(y) == 1:
				c.Ts += wi
				c.AG += wi
			case x|y == pyr && x != y && card(x) == 1 && card(y) == 1:
				c.Ts += wi
				c.CT += wi
			}
		}
		comparable := x != 0 && y != 0
		if gapmut != GapNone {
			comparable = x != 0 || y != 0
		}
		if !comparable {
			continue
		}
		differ := x&y == 0 // incompatible residues, or a gap against a residue
		if differ {
			c.Diff += wi
		}
		if rmamb && !differ && (card(x) > 1 || card(y) > 1) {
			continue // compatible but not known to be identical: left out of the length
		}
		c.Total += wi
	}
	return c
}

func firstLast(s string) (int, int) {
	f, l := -1, -1
	for i := 0; i < len(s); i++ {
		if Set(s[i]) != 0 {
			if f < 0 {
				f = i
			}
			l = i
		}
	}
	return f, l
}

func maxInt(a, b int) int {
	if a > b {
		return a
	}
	return b
}
func minInt(a, b int) int {
	if a < b {
		return a
	}
	return b
}

// Pi returns the base frequencies (A,C,G,T) of the selected columns, normalised over the nucleotide
// cells (they sum to 1; gap cells do not count); an ambiguity code shares its weight equally among the
// bases it stands for
func Pi(rows []string, sel []bool, w []float64) [4]float64 {
	var pi [4]float64
	tot := 0.0
	for _, r := range rows {
		for j := 0; j < len(r); j++ {
			if !sel[j] {
				continue
			}
			s := Set(r[j])
			wj := weight(w, j)
			if s != 0 {
				k := float64(card(s))
				for b := 0; b < 4; b++ {
					if s&(1<<uint(b)) != 0 {
						pi[b] += wj / k
					}
				}
			}
			if s != 0 {
				tot += wj
			}
		}
	}
	for b := range pi {
		pi[b] /= tot
	}
	return pi
}

// ---- estimators -------------------------------------------------------------------------------

// corr is -ln(x), or its gamma counterpart alpha (x^(-1/alpha) - 1)
func corr(x float64, gamma bool, alpha float64) float64 {
	if gamma {
		return alpha * (math.Pow(x, -1/alpha) - 1)
	}
	return -math.Log(x)
}

// Kind of a matrix entry
type Kind int

const (
	Defined   Kind = iota // the estimator has a value and is well conditioned
	Undefined             // a logarithm/power argument is <= 0 or not a number, or 0/0
	Ill                   // the smallest argument is within IllLimit of 0, or the value is at the documented limit: not judged
	Huge                  // the value exceeds the documented limit of 100000: the value or the substitute
	Outside               // not computed in range mode: 0
)

func (k Kind) String() string {
	return [...]string{"defined", "undefined", "ill-conditioned", "huge", "outside-ranges"}[k]
}

// Entry is what the reference knows about one pair
type Entry struct {
	Kind   Kind
	Value  float64 // value of the estimator (Defined, Huge)
	Diff   float64 // counted differences, under the model's counting rule
	Total  float64 // comparable sites
	P      float64 // observed proportion of differing sites, under the model's counting rule (NaN without a comparable site)
	MinArg float64 // smallest logarithm/power argument (+Inf if the model has none)
	// RelExtra widens the relative tolerance of this entry: the argument x itself carries a rounding error
	// of a few 1e-14 (weighted sums in another order), which -ln x turns into a relative error of about
	// 1e-14/x and x^(-1/alpha) into 1e-14/(alpha x): negligible for typical pairs, up to 4e-8/alpha at
	// the limit x = 1e-6 below which a pair is not judged at all
	RelExtra float64
}

// ArgRounding is the assumed absolute rounding error of a logarithm/power argument
const ArgRounding = 4e-14

// Estimate evaluates the model on the counts of one pair
func Estimate(opt Options, c Counts, pi [4]float64) Entry {
	e := Entry{MinArg: math.Inf(1)}
	switch opt.Model {
	case Raw:
		e.Diff, e.Total, e.P = c.Diff, c.Total, c.Diff/c.Total
		e.Kind, e.Value = Defined, c.Diff
		return e
	case PDist:
		e.Diff, e.Total, e.P = c.Diff, c.Total, c.Diff/c.Total
		if !(c.Total > 0) {
			e.Kind, e.Value = Undefined, math.NaN()
			return e
		}
		e.Kind, e.Value = Defined, e.P
		return e
	case JC, F81:
		e.Diff, e.Total = c.Diff, c.Total
	default:
		e.Diff, e.Total = c.Ts+c.Tv, c.MTot
	}
	e.P = e.Diff / e.Total
	if !(e.Total > 0) {
		e.Kind, e.Value = Undefined, math.NaN()
		return e
	}
	if e.Diff == 0 {
		// two rows without a counted difference are at distance 0, whatever the frequencies
		e.Kind, e.Value = Defined, 0
		return e
	}
	var args []float64
	var val func() float64
	g, al := opt.Gamma, opt.Alpha
	piA, piC, piG, piT := pi[0], pi[1], pi[2], pi[3]
	piR, piY := piA+piG, piC+piT
	switch opt.Model {
	case JC:
		x := 1 - 4*e.P/3
		args = []float64{x}
		val = func() float64 { return 0.75 * corr(x, g, al) }
	case K2P:
		P, Q := c.Ts/c.MTot, c.Tv/c.MTot
		x1, x2 := 1-2*P-Q, 1-2*Q
		args = []float64{x1, x2}
		val = func() float64 { return 0.5*corr(x1, g, al) + 0.25*corr(x2, g, al) }
	case F81:
		B := 1 - (piA*piA + piC*piC + piG*piG + piT*piT)
		x := 1 - e.P/B
		args = []float64{x}
		val = func() float64 { return B * corr(x, g, al) }
	case F84:
		P, Q := c.Ts/c.MTot, c.Tv/c.MTot
		A := piA*piG/piR + piC*piT/piY
		B := piA*piG + piC*piT
		C := piR * piY
		x1 := 1 - P/(2*A) - (A-B)*Q/(2*A*C)
		x2 := 1 - Q/(2*C)
		args = []float64{x1, x2}
		val = func() float64 { return 2*A*corr(x1, g, al) - 2*(A-B-C)*corr(x2, g, al) }
	case TN93:
		P1, P2, Q := c.AG/c.MTot, c.CT/c.MTot, c.Tv/c.MTot
		x1 := 1 - piR*P1/(2*piA*piG) - Q/(2*piR)
		x2 := 1 - piY*P2/(2*piC*piT) - Q/(2*piY)
		x3 := 1 - Q/(2*piR*piY)
		args = []float64{x1, x2, x3}
		val = func() float64 {
			return 2*piA*piG/piR*corr(x1, g, al) + 2*piC*piT/piY*corr(x2, g, al) +
				2*(piR*piY-piA*piG*piY/piR-piC*piT*piR/piY)*corr(x3, g, al)
		}
	default:
		panic("harness: unknown model " + opt.Model)
	}
	nan := false
	for _, x := range args {
		if math.IsNaN(x) {
			nan = true
		}
		if x < e.MinArg {
			e.MinArg = x
		}
	}
	switch {
	case nan:
		// a base frequency the estimator divides by is 0 while a difference exists
		e.Kind, e.Value, e.MinArg = Undefined, math.NaN(), math.NaN()
	case math.Abs(e.MinArg) < IllLimit:
		e.Kind, e.Value = Ill, math.NaN()
	case e.MinArg < 0:
		e.Kind, e.Value = Undefined, math.NaN()
	default:
		v := val()
		switch {
		case math.IsNaN(v) || math.IsInf(v, 0):
			e.Kind, e.Value = Undefined, math.NaN()
		case math.Abs(v-HugeLimit) <= 1e-6*HugeLimit:
			e.Kind, e.Value = Ill, v
		case v > HugeLimit:
			e.Kind, e.Value = Huge, v
		default:
			if v < 0 {
				v = 0 // rounding of a value that is mathematically >= 0
			}
			e.Kind, e.Value = Defined, v
			e.RelExtra = ArgRounding / e.MinArg
			if g && al < 1 {
				e.RelExtra /= al
			}
		}
	}
	return e
}

// Ref is the reference matrix
type Ref struct {
	N int
	E [][]Entry
	// Max is the largest Defined value among the computed pairs (0 if none); MaxHuge also includes the
	// Huge values
	Max, MaxHuge float64
	MaxExtra     float64 // RelExtra of the entry that is the maximum
	// NIll, NHuge, NUndefined, NDefined among the computed pairs
	NIll, NHuge, NUndefined, NDefined int
	Pi                                [4]float64
}

// Computed tells whether pair (i,j), i != j, is computed under the ranges
func Computed(ranges []int, i, j int) bool {
	if ranges == nil {
		return true
	}
	in := func(x, lo, hi int) bool { return x >= lo && x <= hi }
	return in(i, ranges[0], ranges[1]) && in(j, ranges[2], ranges[3]) || in(j, ranges[0], ranges[1]) && in(i, ranges[2], ranges[3])
}

// Reference computes the reference matrix of rows under the options and one reading
func Reference(rows []string, opt Options, rd Reading) *Ref {
	n := len(rows)
	r := &Ref{N: n, E: make([][]Entry, n)}
	for i := range r.E {
		r.E[i] = make([]Entry, n)
	}
	gapmut, rmamb := GapNone, false
	if opt.Model == Raw || opt.Model == PDist {
		gapmut = opt.GapMut
	}
	if opt.Model == PDist {
		rmamb = opt.RmAmbiguous
	}
	sel := Selected(rows, opt.RmGaps, rd.RmGapsStrict)
	if UsesPi(opt.Model) {
		r.Pi = Pi(rows, sel, opt.Weights)
	}
	for i := 0; i < n; i++ {
		for j := i + 1; j < n; j++ {
			var e Entry
			if !Computed(opt.Ranges, i, j) {
				e = Entry{Kind: Outside}
			} else {
				c := CountPair(rows[i], rows[j], sel, opt.Weights, gapmut, rmamb)
				e = Estimate(opt, c, r.Pi)
				switch e.Kind {
				case Defined:
					r.NDefined++
					if e.Value > r.Max {
						r.Max, r.MaxExtra = e.Value, e.RelExtra
					}
				case Huge:
					r.NHuge++
					if e.Value > r.MaxHuge {
						r.MaxHuge = e.Value
					}
				case Ill:
					r.NIll++
				case Undefined:
					r.NUndefined++
				}
			}
			r.E[i][j], r.E[j][i] = e, e
		}
	}
	if r.Max > r.MaxHuge {
		r.MaxHuge = r.Max
	}
	return r
}

// Readings returns the readings that can give different matrices for these rows and options (the
// first one is always present)
func Readings(rows []string, opt Options) []Reading {
	_, hasAmb := Describe(rows)
	if opt.RmGaps && hasAmb {
		return []Reading{{RmGapsStrict: true}, {RmGapsStrict: false}}
	}
	return []Reading{{RmGapsStrict: true}}
}
