package refdist

// Transformations of plain rows used by the metamorphic relations of C08 (no goalign code).

var letterOf = func() map[uint8]byte {
	m := map[uint8]byte{}
	for c, s := range iupac {
		m[s] = c
	}
	return m
}()

// complement of a residue from set complementation: A<->T, C<->G on every member of the set; the
// letter case is kept
func complement(c byte) byte {
	if c >= 'a' && c <= 'z' {
		return complement(c-32) + 32
	}
	s := Set(c)
	if s == 0 {
		return c
	}
	var t uint8
	if s&bA != 0 {
		t |= bT
	}
	if s&bT != 0 {
		t |= bA
	}
	if s&bC != 0 {
		t |= bG
	}
	if s&bG != 0 {
		t |= bC
	}
	return letterOf[t]
}

// RevComp reverse-complements every row
func RevComp(rows []string) []string {
	out := make([]string, len(rows))
	for i, r := range rows {
		b := make([]byte, len(r))
		for j := 0; j < len(r); j++ {
			b[len(r)-1-j] = complement(r[j])
		}
		out[i] = string(b)
	}
	return out
}

// SelectColumns returns the rows restricted to the given columns, in that order (repeats allowed)
func SelectColumns(rows []string, cols []int) []string {
	out := make([]string, len(rows))
	for i, r := range rows {
		b := make([]byte, len(cols))
		for k, j := range cols {
			b[k] = r[j]
		}
		out[i] = string(b)
	}
	return out
}

// SelectWeights does the same on a weight vector (nil stays nil)
func SelectWeights(w []float64, cols []int) []float64 {
	if w == nil {
		return nil
	}
	out := make([]float64, len(cols))
	for k, j := range cols {
		out[k] = w[j]
	}
	return out
}

// Replicate returns the column list in which every column occurs k times: adjacent copies
// (0,0,1,1,...) or k concatenated copies of the alignment (0,1,...,0,1,...)
func Replicate(l, k int, adjacent bool) []int {
	var cols []int
	if adjacent {
		for j := 0; j < l; j++ {
			for r := 0; r < k; r++ {
				cols = append(cols, j)
			}
		}
		return cols
	}
	for r := 0; r < k; r++ {
		for j := 0; j < l; j++ {
			cols = append(cols, j)
		}
	}
	return cols
}

// Reversed returns l-1 ... 0
func Reversed(l int) []int {
	cols := make([]int, l)
	for j := range cols {
		cols[j] = l - 1 - j
	}
	return cols
}

// PairStatus summarises what every reading says about each pair: Defined under all readings, Undefined
// under all readings, or something else (not compared by the relations)
type PairStatus int

const (
	AllDefined PairStatus = iota
	AllUndefined
	NotJudged
)

// Statuses classifies the pairs of the rows under all readings; clean tells that every computed pair is
// AllDefined or AllUndefined (then the substitute 2*max is well conditioned too)
func Statuses(rows []string, opt Options) (st [][]PairStatus, clean bool) {
	st, clean, _ = StatusesTol(rows, opt)
	return
}

// StatusesTol also returns, per pair, the widening of the relative tolerance (Entry.RelExtra, twice: both
// presentations carry the rounding), and in [i][i] the one of the pair that is the maximum
func StatusesTol(rows []string, opt Options) (st [][]PairStatus, clean bool, extra [][]float64) {
	n := len(rows)
	st = make([][]PairStatus, n)
	for i := range st {
		st[i] = make([]PairStatus, n)
	}
	clean = true
	extra = make([][]float64, n)
	for i := range extra {
		extra[i] = make([]float64, n)
	}
	refs := []*Ref{}
	for _, rd := range Readings(rows, opt) {
		refs = append(refs, Reference(rows, opt, rd))
	}
	for i := 0; i < n; i++ {
		for j := 0; j < n; j++ {
			if i == j {
				continue
			}
			k0 := refs[0].E[i][j].Kind
			for _, r := range refs {
				if x := 2 * r.E[i][j].RelExtra; x > extra[i][j] {
					extra[i][j] = x
				}
			}
			s := NotJudged
			switch k0 {
			case Defined, Outside:
				s = AllDefined
			case Undefined:
				s = AllUndefined
			}
			for _, r := range refs[1:] {
				k := r.E[i][j].Kind
				if k != k0 {
					s = NotJudged
				}
			}
			st[i][j] = s
			if s == NotJudged {
				clean = false
			}
		}
	}
	for i := 0; i < n; i++ {
		for _, r := range refs {
			if x := 2 * r.MaxExtra; x > extra[i][i] {
				extra[i][i] = x
			}
		}
	}
	return st, clean, extra
}
