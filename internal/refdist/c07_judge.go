package refdist

import (
	"fmt"
	"math"
)

// Tol are the tolerances of a comparison: |got-want| <= Abs + Rel*max(|got|,|want|)
type Tol struct {
	Rel, Abs float64
}

// LibTol is used on values returned by the library, CLITol on values printed with 12 decimals
var (
	LibTol = Tol{Rel: 1e-9, Abs: 1e-12}
	CLITol = Tol{Rel: 1e-9, Abs: 2e-12}
)

// Wider returns the tolerance with a larger relative part
func (t Tol) Wider(extra float64) Tol { return Tol{Rel: t.Rel + extra, Abs: t.Abs} }

// Close compares two finite values
func (t Tol) Close(a, b float64) bool {
	return math.Abs(a-b) <= t.Abs+t.Rel*math.Max(math.Abs(a), math.Abs(b))
}

// Verdict counts what Judge saw
type Verdict struct {
	Ill        int // entries not judged
	Ambiguous  int // entries where two readings of the statement were accepted
	NonTrivial int // well defined entries with >= 1 counted difference and >= 1 comparable site that agreed with the estimator
	Substitute int // undefined entries reported as the substitute
	NaNs       int // undefined entries reported as NaN/Inf
}

// JudgeOpt are the tolerances of a comparison
type JudgeOpt struct {
	Tol
}

func notNumber(x float64) bool { return math.IsNaN(x) || math.IsInf(x, 0) }

// Judge compares a matrix returned by goalign with the reference:
//
//   - square of the right size, symmetric, zero diagonal, 0 outside the ranges
//   - a defined entry equals the estimator; without a counted difference it is 0 within 1e-12; a
//     finite corrected distance is not below the observed proportion of differences
//   - an undefined entry (saturation, no comparable site) is NaN, +-Inf or the substitute 2*max (max over the defined entries), and
//     NaN/Inf only when there is no positive maximum; never anything else
//   - ill-conditioned entries are not judged, except that they may not be below the observed proportion
func Judge(got [][]float64, r *Ref, opt Options, jo JudgeOpt) (v Verdict, err error) {
	tol := jo.Tol
	n := r.N
	if len(got) != n {
		return v, fmt.Errorf("matrix has %d rows for %d sequences", len(got), n)
	}
	for i := range got {
		if len(got[i]) != n {
			return v, fmt.Errorf("row %d of the matrix has %d entries for %d sequences", i, len(got[i]), n)
		}
	}
	// accepted substitutes
	var subs []float64
	if r.Max > 0 {
		subs = append(subs, 2*r.Max)
	}
	if r.NHuge > 0 && r.MaxHuge > r.Max {
		subs = append(subs, 2*r.MaxHuge)
	}
	isSub := func(x float64) bool {
		for _, s := range subs {
			if tol.Wider(r.MaxExtra).Close(x, s) {
				return true
			}
		}
		// with ill-conditioned entries in the matrix the maximum itself is not known: any value
		// that is at least twice the largest defined one can be the substitute
		if r.NIll > 0 && x > 0 && x >= 2*r.Max*(1-tol.Rel)-tol.Abs {
			return true
		}
		return false
	}
	for i := 0; i < n; i++ {
		if !(got[i][i] == 0) {
			return v, fmt.Errorf("diagonal entry [%d][%d] = %v, want 0", i, i, got[i][i])
		}
		for j := i + 1; j < n; j++ {
			g, h := got[i][j], got[j][i]
			if !(g == h || math.IsNaN(g) && math.IsNaN(h)) {
				return v, fmt.Errorf("matrix not symmetric: [%d][%d] = %v, [%d][%d] = %v", i, j, g, j, i, h)
			}
			e := r.E[i][j]
			where := fmt.Sprintf("entry [%d][%d] (%s; counted differences %g over %g comparable sites", i, j, e.Kind, e.Diff, e.Total)
			if !math.IsInf(e.MinArg, 1) {
				where += fmt.Sprintf("; smallest log argument %.6g", e.MinArg)
			}
			where += ")"
			belowP := func() bool {
				return Corrected(opt.Model) && !notNumber(g) && !math.IsNaN(e.P) && g < e.P-tol.Abs-tol.Rel*e.P
			}
			switch e.Kind {
			case Outside:
				if !(g == 0) {
					return v, fmt.Errorf("%s = %v: pairs outside the ranges must be 0", where, g)
				}
			case Defined:
				if notNumber(g) {
					return v, fmt.Errorf("%s = %v, the estimator is defined and equals %.15g", where, g, e.Value)
				}
				if e.Diff == 0 && math.Abs(g) > tol.Abs {
					return v, fmt.Errorf("%s = %v: rows without a counted difference must be at distance 0", where, g)
				}
				if !tol.Wider(e.RelExtra).Close(g, e.Value) {
					return v, fmt.Errorf("%s = %.15g, the estimator gives %.15g (relative difference %.3g)", where, g, e.Value, math.Abs(g-e.Value)/math.Max(math.Abs(g), math.Abs(e.Value)))
				}
				if belowP() {
					return v, fmt.Errorf("%s = %.15g is below the observed proportion of differing sites %.15g", where, g, e.P)
				}
				if e.Diff > 0 && e.Total > 0 {
					v.NonTrivial++
				}
			case Undefined:
				switch {
				case notNumber(g):
					v.NaNs++
				case isSub(g):
					v.Substitute++
				default:
					return v, fmt.Errorf("%s = %.15g: the estimator is undefined, accepted are NaN, +-Inf or the substitute %v", where, g, subs)
				}
			case Ill:
				v.Ill++
				if notNumber(g) || isSub(g) {
					break
				}
				if g < 0 {
					return v, fmt.Errorf("%s = %.15g: negative distance", where, g)
				}
				if belowP() {
					return v, fmt.Errorf("%s = %.15g is below the observed proportion of differing sites %.15g", where, g, e.P)
				}
			case Huge:
				switch {
				case notNumber(g), isSub(g):
					v.Ambiguous++
				case tol.Close(g, e.Value):
					v.Ambiguous++
				default:
					return v, fmt.Errorf("%s = %.15g: the estimator gives %.15g, above the documented limit %g: accepted are that value, NaN, +-Inf or the substitute %v", where, g, e.Value, HugeLimit, subs)
				}
			}
		}
	}
	return v, nil
}

// JudgeAny accepts the matrix if it agrees with the reference under one of the readings (the same
// reading for the whole matrix)
func JudgeAny(got [][]float64, rows []string, opt Options, readings []Reading, jo JudgeOpt) (v Verdict, ref *Ref, err error) {
	var msgs string
	for k, rd := range readings {
		r := Reference(rows, opt, rd)
		vk, e := Judge(got, r, opt, jo)
		if e == nil {
			if len(readings) > 1 {
				// does any other reading give another matrix? then an open point was accepted
				for k2, rd2 := range readings {
					if k2 != k && !SameRef(r, Reference(rows, opt, rd2)) {
						vk.Ambiguous++
						break
					}
				}
			}
			return vk, r, nil
		}
		if k == 0 {
			ref = r
		}
		msgs += fmt.Sprintf("\n  under reading %v: %v", rd, e)
	}
	return v, ref, fmt.Errorf("the matrix agrees with the reference under no reading:%s", msgs)
}

// SameRef tells whether two references demand the same matrix
func SameRef(a, b *Ref) bool {
	for i := 0; i < a.N; i++ {
		for j := i + 1; j < a.N; j++ {
			x, y := a.E[i][j], b.E[i][j]
			if x.Kind != y.Kind {
				return false
			}
			if (x.Kind == Defined || x.Kind == Huge) && x.Value != y.Value {
				return false
			}
		}
	}
	return a.Max == b.Max
}
