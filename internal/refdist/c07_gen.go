package refdist

import (
	"strings"

	"pgregory.net/rapid"
)

// Generators shared by C07 and C08. Every random choice goes through rapid.

const iupacOnly = "RYSWKMBDHVN"

// compatible[b] lists the ambiguity codes that contain base b
var compatible = map[byte]string{'A': "RWMDHVN", 'C': "YSMBHVN", 'G': "RSKBDVN", 'T': "YWKBDHN"}

var transitionOf = map[byte]byte{'A': 'G', 'G': 'A', 'C': 'T', 'T': 'C'}
var transversionsOf = map[byte]string{'A': "CT", 'G': "CT", 'C': "AG", 'T': "AG"}
var othersOf = map[byte]string{'A': "CGT", 'C': "AGT", 'G': "ACT", 'T': "ACG"}

// GenRows draws an alignment of minRows..maxRows rows and 1..maxL columns: an "ancestor" over a drawn
// base composition, and every row derived from the ancestor or from an earlier row by substitutions at
// a drawn rate (identical ... saturated ... every site differs; transitions or transversions only),
// then gap runs (tier >= 1: leading, trailing, internal, whole rows, whole columns) and ambiguity
// codes (tier 2). tier < 0: drawn.
func GenRows(t *rapid.T, minRows, maxRows, maxL, tier int) ([]string, int) {
	if tier < 0 {
		tier = rapid.IntRange(0, 2).Draw(t, "tier")
	}
	n := rapid.IntRange(minRows, maxRows).Draw(t, "rows")
	var l int
	switch rapid.IntRange(0, 3).Draw(t, "Lkind") {
	case 0:
		l = rapid.IntRange(1, minInt(6, maxL)).Draw(t, "L")
	default:
		l = rapid.IntRange(1, maxL).Draw(t, "L")
	}
	comp := rapid.SampledFrom([]string{"ACGT", "ACGT", "ACGT", "ACGT", "AAAACGT", "ACGGGGT", "AACCGT", "ACGT", "ACGT", "AACGTT", "AG", "CT", "ACG", "AGT", "AC", "A"}).Draw(t, "composition")
	anc := make([]byte, l)
	for j := range anc {
		anc[j] = comp[rapid.IntRange(0, len(comp)-1).Draw(t, "a")]
	}
	rows := make([][]byte, n)
	for i := 0; i < n; i++ {
		parent := anc
		if i > 0 {
			if p := rapid.IntRange(-1, i-1).Draw(t, "parent"); p >= 0 {
				parent = rows[p]
			}
		}
		kind := rapid.SampledFrom([]int{0, 1, 1, 1, 2, 2, 2, 3, 3, 4, 5, 6, 6, 7, 7}).Draw(t, "rowkind")
		rate := 0
		switch kind {
		case 0:
			rate = 0
		case 1:
			rate = rapid.IntRange(1, 10).Draw(t, "rate")
		case 2:
			rate = rapid.IntRange(10, 40).Draw(t, "rate")
		case 3:
			rate = rapid.IntRange(40, 70).Draw(t, "rate")
		case 4:
			rate = rapid.IntRange(70, 100).Draw(t, "rate")
		case 5:
			rate = 100
		default:
			rate = rapid.IntRange(5, 100).Draw(t, "rate")
		}
		row := make([]byte, l)
		for j := range row {
			b := parent[j]
			if rate == 0 {
				row[j] = b
				continue
			}
			v := rapid.IntRange(0, 599).Draw(t, "s")
			if v%100 >= rate {
				row[j] = b
				continue
			}
			switch kind {
			case 6:
				row[j] = transitionOf[b]
			case 7:
				row[j] = transversionsOf[b][(v/100)%2]
			default:
				row[j] = othersOf[b][(v/100)%3]
			}
		}
		rows[i] = row
	}
	out := make([][]byte, n)
	for i := range rows {
		out[i] = append([]byte{}, rows[i]...)
	}
	if tier >= 2 {
		for i := range out {
			dens := rapid.SampledFrom([]int{0, 0, 5, 15, 40}).Draw(t, "ambdensity")
			if dens == 0 {
				continue
			}
			for j := range out[i] {
				v := rapid.IntRange(0, 199).Draw(t, "amb")
				if v%100 >= dens {
					continue
				}
				if v >= 100 {
					cs := compatible[out[i][j]]
					out[i][j] = cs[rapid.IntRange(0, len(cs)-1).Draw(t, "code")]
				} else {
					out[i][j] = iupacOnly[rapid.IntRange(0, len(iupacOnly)-1).Draw(t, "code")]
				}
			}
		}
	}
	if tier >= 1 {
		for i := range out {
			switch rapid.IntRange(0, 79).Draw(t, "gapkind") {
			case 0: // a row of gaps only: no comparable site with anybody
				for j := range out[i] {
					out[i][j] = '-'
				}
				continue
			case 1, 2, 3, 4, 5, 6, 7, 8, 9, 10, 11, 12, 13, 14, 15, 16, 17, 18, 19, 20, 21, 22, 23, 24, 25, 26, 27, 28, 29, 30: // no gap in this row
				continue
			}
			run := func(label string, max int) int {
				if max <= 0 || rapid.Bool().Draw(t, label+"?") {
					return 0
				}
				return rapid.IntRange(1, max).Draw(t, label)
			}
			lead := run("lead", l/2)
			trail := run("trail", l/2)
			for j := 0; j < lead; j++ {
				out[i][j] = '-'
			}
			for j := 0; j < trail; j++ {
				out[i][l-1-j] = '-'
			}
			for k := rapid.IntRange(0, 2).Draw(t, "nruns"); k > 0; k-- {
				s := rapid.IntRange(0, l-1).Draw(t, "runstart")
				e := minInt(l, s+rapid.IntRange(1, 4).Draw(t, "runlen"))
				for j := s; j < e; j++ {
					out[i][j] = '-'
				}
			}
		}
		if rapid.IntRange(0, 14).Draw(t, "gapcol") == 0 {
			j := rapid.IntRange(0, l-1).Draw(t, "gapcolpos")
			for i := range out {
				out[i][j] = '-'
			}
		}
	}
	// letter case: the counters and the site selection read residues case-insensitively ("It takes the
	// upper case of the given uint8"); lower-case (soft-masked) stretches, whole lower-case rows or
	// alignments and cell-wise mixed case must not change any distance
	lower := func(b []byte, from, to int) {
		for j := from; j < to; j++ {
			if b[j] >= 'A' && b[j] <= 'Z' {
				b[j] += 32
			}
		}
	}
	switch rapid.IntRange(0, 9).Draw(t, "case") {
	case 0: // everything lower case
		for i := range out {
			lower(out[i], 0, l)
		}
	case 1, 2: // soft-masked stretches in some rows
		for i := range out {
			if rapid.Bool().Draw(t, "masked-row") {
				s := rapid.IntRange(0, l-1).Draw(t, "maskstart")
				lower(out[i], s, minInt(l, s+rapid.IntRange(1, maxInt(1, l/2)).Draw(t, "masklen")))
			}
		}
	case 3: // a soft-masked block of columns over all rows, and a lower-case row
		s := rapid.IntRange(0, l-1).Draw(t, "maskstart")
		e := minInt(l, s+rapid.IntRange(1, maxInt(1, l/2)).Draw(t, "masklen"))
		for i := range out {
			lower(out[i], s, e)
		}
		lower(out[rapid.IntRange(0, n-1).Draw(t, "lowerrow")], 0, l)
	case 4: // cell-wise mixed case
		for i := range out {
			for j := range out[i] {
				if rapid.Bool().Draw(t, "lc") {
					lower(out[i], j, j+1)
				}
			}
		}
	}
	res := make([]string, n)
	for i := range out {
		res[i] = string(out[i])
	}
	return res, tier
}

// GenAlpha draws the shape parameter: values whose inverse is an integer (defect 23 of DESIGN 3) and
// arbitrary reals of [0.1,10]
func GenAlpha(t *rapid.T) float64 {
	if rapid.Bool().Draw(t, "alphakind") {
		return rapid.SampledFrom([]float64{0.1, 0.2, 0.25, 0.5, 1, 2, 4, 10}).Draw(t, "alpha")
	}
	return rapid.Float64Range(0.1, 10).Draw(t, "alpha")
}

// GenWeights draws nil, unit weights, positive reals or small positive integers
func GenWeights(t *rapid.T, l int) []float64 {
	var w []float64
	switch rapid.IntRange(0, 5).Draw(t, "weightkind") {
	case 0, 1:
		return nil
	case 2:
		w = make([]float64, l)
		for i := range w {
			w[i] = 1
		}
	case 3, 4:
		w = make([]float64, l)
		for i := range w {
			w[i] = rapid.Float64Range(0.05, 5).Draw(t, "w")
		}
	default:
		w = make([]float64, l)
		for i := range w {
			w[i] = float64(rapid.IntRange(1, 4).Draw(t, "wi"))
		}
	}
	return w
}

// GenOptions draws a full option set for n rows and l columns
func GenOptions(t *rapid.T, n, l int, allowRanges, allowWeights bool) Options {
	var o Options
	o.Model = rapid.SampledFrom(Models).Draw(t, "model")
	o.Gamma = rapid.Bool().Draw(t, "gamma")
	if o.Gamma || rapid.IntRange(0, 3).Draw(t, "alpha-without-gamma") == 0 {
		o.Alpha = GenAlpha(t)
	}
	o.RmGaps = rapid.IntRange(0, 2).Draw(t, "rmgaps") == 0
	if o.Model == Raw || o.Model == PDist || rapid.IntRange(0, 5).Draw(t, "gapmut-ignored") == 0 {
		o.GapMut = rapid.IntRange(0, 2).Draw(t, "gapmut")
	}
	if o.Model == PDist || rapid.IntRange(0, 5).Draw(t, "rmamb-ignored") == 0 {
		o.RmAmbiguous = rapid.Bool().Draw(t, "rmamb")
	}
	if allowWeights {
		o.Weights = GenWeights(t, l)
	}
	if allowRanges && rapid.IntRange(0, 3).Draw(t, "ranges") == 0 {
		a := rapid.IntRange(0, n-1).Draw(t, "r1min")
		b := rapid.IntRange(a, n-1).Draw(t, "r1max")
		c := rapid.IntRange(0, n-1).Draw(t, "r2min")
		d := rapid.IntRange(c, n-1).Draw(t, "r2max")
		o.Ranges = []int{a, b, c, d}
	}
	return o
}

// Describe classifies the rows for the evidence histogram
func Describe(rows []string) (hasGap, hasAmb bool) {
	// (case-insensitive)
	for _, r := range rows {
		if strings.ContainsRune(r, '-') {
			hasGap = true
		}
		if strings.ContainsAny(strings.ToUpper(r), iupacOnly) {
			hasAmb = true
		}
	}
	return
}

// HasLower tells whether a row holds a lower-case residue
func HasLower(rows []string) bool {
	for _, r := range rows {
		if strings.ToUpper(r) != r {
			return true
		}
	}
	return false
}

// Perturb draws an alignment of the same dimensions as rows: every row keeps its cells except for a
// drawn share that is redrawn from the residues of the tier (used for "edit in place" histories)
func Perturb(t *rapid.T, rows []string, tier int) []string {
	chars := "ACGT"
	if tier >= 1 {
		chars = "ACGT-"
	}
	if tier >= 2 {
		chars = "ACGTRYSWKMBDHVN-"
	}
	out := make([]string, len(rows))
	for i, r := range rows {
		rate := rapid.SampledFrom([]int{0, 5, 30, 30, 100}).Draw(t, "editrate")
		b := []byte(r)
		for j := range b {
			if rate > 0 && rapid.IntRange(0, 99).Draw(t, "edit") < rate {
				b[j] = chars[rapid.IntRange(0, len(chars)-1).Draw(t, "newchar")]
			}
		}
		out[i] = string(b)
	}
	return out
}
