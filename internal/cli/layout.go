package cli

import (
	"os"
	"strings"

	"pgregory.net/rapid"
	"verif/internal/gen"
)

// Layout is one presentation of a FASTA file. Every layout below is read by the FASTA parser of the
// unchanged tree as the same alignment (line wrapping, blocks of residues separated by a blank,
// a blank at the end of sequence lines, CRLF line ends, empty lines between records and at the top,
// no final newline): what a command computes must not depend on it.
type Layout struct {
	Width    int  `json:"w,omitempty"`     // residues per line, 0 = one line
	Blocks   int  `json:"b,omitempty"`     // a blank after every Blocks residues of a line, 0 = none
	Trailing bool `json:"tr,omitempty"`    // a blank at the end of sequence lines
	CRLF     bool `json:"crlf,omitempty"`  // \r\n line ends
	Empty    bool `json:"empty,omitempty"` // an empty line before every record
	NoFinal  bool `json:"nofinal,omitempty"`
}

// DrawLayout draws a layout; half of the draws are the plain one-line layout
func DrawLayout(t *rapid.T) Layout {
	if rapid.Bool().Draw(t, "plainlayout") {
		return Layout{}
	}
	return Layout{
		Width:    rapid.SampledFrom([]int{0, 1, 3, 10, 60}).Draw(t, "width"),
		Blocks:   rapid.SampledFrom([]int{0, 0, 1, 4, 10}).Draw(t, "blocks"),
		Trailing: rapid.Bool().Draw(t, "trailing"),
		CRLF:     rapid.Bool().Draw(t, "crlf"),
		Empty:    rapid.Bool().Draw(t, "emptylines"),
		NoFinal:  rapid.Bool().Draw(t, "nofinal"),
	}
}

// Plain tells whether the layout is the default one-line layout of Fasta
func (l Layout) Plain() bool { return l == Layout{} }

// FastaLayout writes rows as FASTA in the given layout
func FastaLayout(rows []gen.Row, l Layout) string {
	nl := "\n"
	if l.CRLF {
		nl = "\r\n"
	}
	var sb strings.Builder
	for _, r := range rows {
		if l.Empty {
			sb.WriteString(nl)
		}
		sb.WriteString(">" + r.Name + nl)
		w := l.Width
		if w <= 0 {
			w = len(r.Seq)
		}
		for i := 0; i < len(r.Seq) || i == 0; i += w {
			e := i + w
			if e > len(r.Seq) {
				e = len(r.Seq)
			}
			line := r.Seq[i:e]
			if l.Blocks > 0 {
				var lb strings.Builder
				for k := 0; k < len(line); k++ {
					if k > 0 && k%l.Blocks == 0 {
						lb.WriteByte(' ')
					}
					lb.WriteByte(line[k])
				}
				line = lb.String()
			}
			if l.Trailing {
				line += " "
			}
			sb.WriteString(line + nl)
			if w == 0 {
				break
			}
		}
	}
	s := sb.String()
	if l.NoFinal {
		s = strings.TrimSuffix(s, nl)
	}
	return s
}

// StaleFile creates path with a content that is longer than what a command is expected to write
// there (n lines of text that no reader of goalign's output formats accepts). A command given an
// existing file as output must replace it: what is read back afterwards must be what it reads
// back when the file did not exist.
func StaleFile(path string, n int) {
	if n < 1 {
		n = 1
	}
	if err := os.WriteFile(path, []byte(strings.Repeat("!! stale content of an earlier run, 64 bytes per line, to be replaced\n", n)), 0o644); err != nil {
		panic(err)
	}
}
