// Package cli runs the goalign binary built from the tree under test and reads its output
// with small independent readers (not goalign's parsers).
package cli

import (
	"bytes"
	"context"
	"fmt"
	"os"
	"os/exec"
	"path/filepath"
	"strings"
	"sync/atomic"
	"time"

	"verif/internal/gen"
)

// Result of one execution
type Result struct {
	Stdout, Stderr string
	Exit           int
	TimedOut       bool
}

// Binary returns the path of the goalign binary built by the driver ("" if not built)
func Binary() string {
	p := os.Getenv("VERIF_GOALIGN")
	if p == "" {
		return ""
	}
	if _, err := os.Stat(p); err != nil {
		return ""
	}
	return p
}

// Run executes goalign with the arguments and standard input, with a generous time limit
func Run(stdin string, args ...string) Result {
	return RunIn("", stdin, args...)
}

// RunIn executes goalign in the given working directory
func RunIn(dir, stdin string, args ...string) Result {
	ctx, cancel := context.WithTimeout(context.Background(), 60*time.Second)
	defer cancel()
	c := exec.CommandContext(ctx, Binary(), args...)
	c.Dir = dir
	c.Stdin = strings.NewReader(stdin)
	var so, se bytes.Buffer
	c.Stdout, c.Stderr = &so, &se
	err := c.Run()
	r := Result{Stdout: so.String(), Stderr: se.String()}
	if ctx.Err() != nil {
		r.TimedOut = true
		r.Exit = -1
		return r
	}
	if err != nil {
		if ee, ok := err.(*exec.ExitError); ok {
			r.Exit = ee.ExitCode()
		} else {
			r.Exit = -2
			r.Stderr += err.Error()
		}
	}
	return r
}

var tmpSeq int64

// TempDir creates a scratch directory under TMPDIR (owned and removed by the driver)
func TempDir(prefix string) string {
	d, err := os.MkdirTemp("", prefix)
	if err != nil {
		panic(err)
	}
	return d
}

// TempFile writes content to a new file in dir and returns its path
func TempFile(dir, ext, content string) string {
	n := atomic.AddInt64(&tmpSeq, 1)
	p := filepath.Join(dir, fmt.Sprintf("f%d%s", n, ext))
	if err := os.WriteFile(p, []byte(content), 0o644); err != nil {
		panic(err)
	}
	return p
}

// Fasta writes rows as FASTA, one line per sequence
func Fasta(rows []gen.Row) string {
	var sb strings.Builder
	for _, r := range rows {
		sb.WriteString(">" + r.Name + "\n" + r.Seq + "\n")
	}
	return sb.String()
}

// ParseFasta is an independent, minimal FASTA reader: header lines start with '>', the
// name is the whole header line, sequence lines are concatenated
func ParseFasta(s string) ([]gen.Row, error) {
	var rows []gen.Row
	for _, line := range strings.Split(s, "\n") {
		line = strings.TrimRight(line, "\r")
		if line == "" {
			continue
		}
		if strings.HasPrefix(line, ">") {
			rows = append(rows, gen.Row{Name: line[1:]})
			continue
		}
		if len(rows) == 0 {
			return nil, fmt.Errorf("sequence data before the first header: %q", line)
		}
		rows[len(rows)-1].Seq += line
	}
	return rows, nil
}
