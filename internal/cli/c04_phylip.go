package cli

import (
	"fmt"
	"strconv"
	"strings"

	"verif/internal/gen"
)

// Phylip writes a stream of alignments in relaxed sequential Phylip: a header "  n  l", then one line
// "name  residues" per row. Used to feed several alignments in one file (C04, C15).
func Phylip(alis ...[]gen.Row) string {
	var sb strings.Builder
	for _, rows := range alis {
		l := 0
		if len(rows) > 0 {
			l = len(rows[0].Seq)
		}
		fmt.Fprintf(&sb, "  %d  %d\n", len(rows), l)
		for _, r := range rows {
			sb.WriteString(r.Name + "  " + r.Seq + "\n")
		}
	}
	return sb.String()
}

// ParsePhylipStream is an independent, minimal reader of a stream of relaxed Phylip alignments,
// sequential or interleaved, with or without blanks between blocks of residues: a header line with two
// integers n and l, n lines "name residues...", then - while the rows are shorter than l - further
// groups of n lines of residues. An alignment of length 0 is printed as its header only: its rows come
// back with the name "?" and an empty sequence.
func ParsePhylipStream(s string) ([][]gen.Row, error) {
	var out [][]gen.Row
	var lines []string
	for _, ln := range strings.Split(s, "\n") {
		ln = strings.TrimRight(ln, "\r")
		if strings.TrimSpace(ln) != "" {
			lines = append(lines, ln)
		}
	}
	i := 0
	for i < len(lines) {
		h := strings.Fields(lines[i])
		if len(h) != 2 {
			return nil, fmt.Errorf("line %q is not a Phylip header", lines[i])
		}
		n, e1 := strconv.Atoi(h[0])
		l, e2 := strconv.Atoi(h[1])
		if e1 != nil || e2 != nil || n < 0 || l < 0 {
			return nil, fmt.Errorf("line %q is not a Phylip header", lines[i])
		}
		i++
		rows := make([]gen.Row, n)
		if l == 0 {
			for r := range rows {
				rows[r].Name = "?"
			}
			out = append(out, rows)
			continue
		}
		for r := 0; r < n; r++ {
			if i >= len(lines) {
				return nil, fmt.Errorf("alignment %d: %d rows announced, %d found", len(out), n, r)
			}
			f := strings.Fields(lines[i])
			rows[r].Name = f[0]
			rows[r].Seq = strings.Join(f[1:], "")
			i++
		}
		for n > 0 && len(rows[0].Seq) < l {
			for r := 0; r < n; r++ {
				if i >= len(lines) {
					return nil, fmt.Errorf("alignment %d: rows shorter than the announced length %d", len(out), l)
				}
				rows[r].Seq += strings.Join(strings.Fields(lines[i]), "")
				i++
			}
		}
		for r := range rows {
			if len(rows[r].Seq) != l {
				return nil, fmt.Errorf("alignment %d: row %q holds %d residues, header says %d", len(out), rows[r].Name, len(rows[r].Seq), l)
			}
		}
		out = append(out, rows)
	}
	return out, nil
}
