package cli

import (
	"strings"
	"testing"

	"github.com/evolbioinfo/goalign/io/fasta"
	"pgregory.net/rapid"
	"verif/internal/gen"
)

// Every layout is read by the FASTA parser of the tree under test as the rows it presents.
func TestLayoutsAreTheSameAlignment(t *testing.T) {
	rapid.Check(t, func(t *rapid.T) {
		a := gen.Rect(t, "ACGTacgtN-.*", 1, 5, 1, 25, "nt")
		l := DrawLayout(t)
		text := FastaLayout(a.Rows, l)
		al, err := fasta.NewParser(strings.NewReader(text)).Parse()
		if err != nil {
			t.Fatalf("layout %+v of %s is refused: %v\n%q", l, gen.Show(a.Rows), err, text)
		}
		if !gen.SameRows(gen.Snapshot(al), a.Rows) {
			t.Fatalf("layout %+v of %s is read as %s\n%q", l, gen.Show(a.Rows), gen.Show(gen.Snapshot(al)), text)
		}
		back, err := ParseFasta(strings.ReplaceAll(strings.ReplaceAll(text, " ", ""), "\r", ""))
		if err != nil || !gen.SameRows(back, a.Rows) {
			t.Fatalf("layout %+v: the independent reader gets %s (%v)", l, gen.Show(back), err)
		}
	})
}
