package pbt

import (
	"encoding/json"
	"fmt"
	"os"
	"path/filepath"
	"strconv"
	"sync/atomic"
	"time"
)

var sideSeq int64

// WatchdogLimit is the bounded wait used where termination is part of the property. It
// is far above the normal running time of the guarded calls (micro- to milliseconds) and
// is raised for the confirmation run in a fresh process (VERIF_WATCHDOG_S).
func WatchdogLimit(def time.Duration) time.Duration {
	if s := os.Getenv("VERIF_WATCHDOG_S"); s != "" {
		if v, err := strconv.Atoi(s); err == nil && v > 0 {
			return time.Duration(v) * time.Second
		}
	}
	return def
}

// Guarded runs f, which may never return or may kill the process. The in-flight case is
// written to a side file first; if f does not return within limit the whole process exits
// with status 7 (a leaked goroutine cannot be killed, and under native fuzzing a t.Fatal
// would leave it spinning, see DESIGN 2.5). The driver re-runs the side-file case alone.
func Guarded(test string, c interface{}, limit time.Duration, f func()) {
	side := os.Getenv("VERIF_SIDE")
	if d := os.Getenv("VERIF_SIDE_DIR"); d != "" {
		side = filepath.Join(d, fmt.Sprintf("inflight-%d.json", os.Getpid()))
	}
	if side != "" {
		cj, _ := json.Marshal(c)
		b, _ := json.Marshal(Failure{Property: PropertyID, Test: test, Message: "in flight when the process died", Case: cj})
		os.WriteFile(side, b, 0o644)
	}
	timer := time.AfterFunc(limit, func() {
		fmt.Fprintf(os.Stderr, "WATCHDOG: call in %s did not return within %v\n", test, limit)
		os.Exit(7)
	})
	defer func() {
		timer.Stop()
		if side != "" && os.Getenv("VERIF_SIDE_DIR") != "" {
			os.Remove(side)
		}
	}()
	f()
}

// SideViolation stores a violation found inside a native fuzz target
func SideViolation(test string, c interface{}, msg string) {
	d := os.Getenv("VERIF_SIDE_DIR")
	if d == "" {
		return
	}
	cj, _ := json.Marshal(c)
	b, _ := json.Marshal(Failure{Property: PropertyID, Test: test, Message: msg, Case: cj})
	n := atomic.AddInt64(&sideSeq, 1)
	os.WriteFile(filepath.Join(d, fmt.Sprintf("violation-%d-%d.json", os.Getpid(), n)), b, 0o644)
}
