// Package pbt is the small harness shared by every property package.
//
// A property is a pair (generator, check): the generator draws a JSON-serialisable case
// through rapid, the check runs the real goalign code on it and compares with an explicit
// oracle. The harness counts what was generated (evaluations, distinct non-trivial cases,
// class histogram, samples), turns panics of the code under test into violations, records
// the last (= shrunk) failing case so that the driver can store it as a replay file, and
// re-executes replay/regression files without going through rapid at all.
package pbt

import (
	"encoding/json"
	"fmt"
	"hash/fnv"
	"os"
	"path/filepath"
	"runtime/debug"
	"sort"
	"strings"
	"sync"
	"testing"

	"pgregory.net/rapid"
)

// Outcome describes one evaluated case, for the evidence file.
type Outcome struct {
	// NonTrivial: the case satisfied the property's stated non-triviality rule
	NonTrivial bool
	// Key identifies the case for distinctness; empty = hash of the JSON form of the case
	Key string
	// Classes the case belongs to (histogram in the evidence file)
	Classes []string
	// Ambiguous: number of points at which statement/doc leave the behaviour open and
	// the oracle accepted every reading
	Ambiguous int
	// Ill: number of ill-conditioned points not judged
	Ill int
	// Excluded: per known-finding key, how often the generator/oracle steered around it
	Excluded map[string]int
	// Skip: the case is outside the property's domain; it is not counted
	Skip bool
}

// Class is a convenience to append a class name
func (o *Outcome) Class(format string, a ...interface{}) {
	o.Classes = append(o.Classes, fmt.Sprintf(format, a...))
}

// Exclude counts a case (or a part of it) steered away from a known finding
func (o *Outcome) Exclude(key string) {
	if o.Excluded == nil {
		o.Excluded = map[string]int{}
	}
	o.Excluded[key]++
}

// Failure is what is written to a replay file
type Failure struct {
	Property string          `json:"property"`
	Test     string          `json:"test"`
	Message  string          `json:"message"`
	Case     json.RawMessage `json:"case"`
}

type testStats struct {
	Test         string            `json:"test"`
	Evaluations  int64             `json:"evaluations"`
	Skipped      int64             `json:"skipped"`
	NonTrivial   int64             `json:"nontrivial_evaluations"`
	Hashes       map[uint64]bool   `json:"-"`
	HashList     []uint64          `json:"nt_hashes"`
	HashCapped   bool              `json:"nt_hashes_capped"`
	Classes      map[string]int64  `json:"classes"`
	Samples      []json.RawMessage `json:"samples"`
	Ambiguous    int64             `json:"ambiguous_accepted"`
	Ill          int64             `json:"ill_conditioned"`
	Excluded     map[string]int64  `json:"excluded_known"`
	Exhaustive   []string          `json:"exhaustive_subspaces"`
	Regress      int64             `json:"regression_cases"`
	Completed    bool              `json:"completed"`
	Requested    int               `json:"requested_checks"`
	KnownPrinted []string          `json:"known_findings_printed"`
	Fail         *Failure          `json:"failure,omitempty"`
	nsample      int64
}

const maxHashes = 3_000_000
const maxSamples = 6
const maxSampleBytes = 1500

var (
	mu    sync.Mutex
	all   = map[string]*testStats{}
	order []string
	// PropertyID is set by each package's TestMain
	PropertyID string
)

func statsFor(test string) *testStats {
	st, ok := all[test]
	if !ok {
		st = &testStats{Test: test, Hashes: map[uint64]bool{}, Classes: map[string]int64{}, Excluded: map[string]int64{}}
		all[test] = st
		order = append(order, test)
	}
	return st
}

func hash64(b []byte) uint64 {
	h := fnv.New64a()
	h.Write(b)
	return h.Sum64()
}

func record(test string, cjson []byte, o Outcome) {
	mu.Lock()
	defer mu.Unlock()
	st := statsFor(test)
	if o.Skip {
		st.Skipped++
		return
	}
	st.Evaluations++
	for _, c := range o.Classes {
		st.Classes[c]++
	}
	st.Ambiguous += int64(o.Ambiguous)
	st.Ill += int64(o.Ill)
	for k, v := range o.Excluded {
		st.Excluded[k] += int64(v)
	}
	if o.NonTrivial {
		st.NonTrivial++
		var h uint64
		if o.Key != "" {
			h = hash64([]byte(o.Key))
		} else {
			h = hash64(cjson)
		}
		if len(st.Hashes) < maxHashes {
			st.Hashes[h] = true
		} else if !st.Hashes[h] {
			st.HashCapped = true
		}
		// deterministic reservoir: the first few, then cases number 2^k
		st.nsample++
		n := st.nsample
		if len(cjson) <= maxSampleBytes && (len(st.Samples) < maxSamples/2 || (n&(n-1)) == 0) {
			if len(st.Samples) < maxSamples {
				st.Samples = append(st.Samples, append(json.RawMessage{}, cjson...))
			} else {
				st.Samples[maxSamples/2+int(n%int64(maxSamples-maxSamples/2))] = append(json.RawMessage{}, cjson...)
			}
		}
	}
}

func recordFailure(test string, cjson []byte, msg string) {
	mu.Lock()
	defer mu.Unlock()
	st := statsFor(test)
	st.Fail = &Failure{Property: PropertyID, Test: test, Message: msg, Case: append(json.RawMessage{}, cjson...)}
}

// Eval runs check on one case, converting a panic of the code under test into an error
func Eval[C any](c C, check func(C) (Outcome, error)) (o Outcome, err error) {
	defer func() {
		if r := recover(); r != nil {
			st := string(debug.Stack())
			if len(st) > 3000 {
				st = st[:3000]
			}
			err = fmt.Errorf("panic: %v\n%s", r, st)
		}
	}()
	return check(c)
}

func baseName(t testing.TB) string {
	n := t.Name()
	return n
}

// replayFor returns the failures that this test must re-execute without rapid: the file
// named by VERIF_REPLAY (if it belongs to this test) and every file of VERIF_REGRESS_DIR
// belonging to this test
func replayFor(test string) (replay *Failure, regress []Failure) {
	if p := os.Getenv("VERIF_REPLAY"); p != "" {
		if b, err := os.ReadFile(p); err == nil {
			var f Failure
			if json.Unmarshal(b, &f) == nil && f.Test == test {
				replay = &f
			}
		}
	}
	if d := os.Getenv("VERIF_REGRESS_DIR"); d != "" {
		files, _ := filepath.Glob(filepath.Join(d, "*.json"))
		sort.Strings(files)
		for _, fn := range files {
			if b, err := os.ReadFile(fn); err == nil {
				var f Failure
				if json.Unmarshal(b, &f) == nil && f.Test == test {
					regress = append(regress, f)
				}
			}
		}
	}
	return
}

// ReplayOnly tells whether the process was started to replay one file
func ReplayOnly() bool { return os.Getenv("VERIF_REPLAY") != "" }

// Scale returns n in the quick tier and m in the thorough tier
func Scale(quick, thorough int) int {
	if os.Getenv("VERIF_TIER") == "thorough" {
		return thorough
	}
	return quick
}

// Thorough tells whether the thorough tier runs
func Thorough() bool { return os.Getenv("VERIF_TIER") == "thorough" }

// Run drives one property: regression files first, then rapid generated cases.
func Run[C any](t *testing.T, gen func(*rapid.T) C, check func(C) (Outcome, error)) {
	test := baseName(t)
	mu.Lock()
	st := statsFor(test)
	mu.Unlock()
	replay, regress := replayFor(test)
	runSaved := func(f Failure, kind string) bool {
		var c C
		if err := json.Unmarshal(f.Case, &c); err != nil {
			t.Logf("cannot decode %s case: %v", kind, err)
			return true
		}
		o, err := Eval(c, check)
		o.Classes = append(o.Classes, kind)
		record(test, f.Case, o)
		if err != nil {
			recordFailure(test, f.Case, err.Error())
			t.Errorf("%s case fails: %v\ncase: %s", kind, err, string(f.Case))
			return false
		}
		return true
	}
	if ReplayOnly() {
		if replay == nil {
			t.Skip("replay file is for another test")
		}
		runSaved(*replay, "replay")
		return
	}
	for _, f := range regress {
		mu.Lock()
		st.Regress++
		mu.Unlock()
		if !runSaved(f, "regress") {
			return
		}
	}
	rapid.Check(t, func(rt *rapid.T) {
		c := gen(rt)
		cjson, jerr := json.Marshal(c)
		if jerr != nil {
			rt.Fatalf("case not serialisable: %v", jerr)
		}
		o, err := Eval(c, check)
		if err != nil {
			recordFailure(test, cjson, err.Error())
			rt.Fatalf("%v\ncase: %s", err, trunc(string(cjson), 4000))
		}
		record(test, cjson, o)
	})
	if !t.Failed() {
		mu.Lock()
		st.Completed = true
		mu.Unlock()
	}
}

// Enumerate drives a finite enumeration: every case produced by iter is checked; the
// sub-space is reported as exhaustively covered if the enumeration completes.
func Enumerate[C any](t *testing.T, subspace string, iter func(yield func(C) bool), check func(C) (Outcome, error)) {
	test := baseName(t)
	mu.Lock()
	st := statsFor(test)
	mu.Unlock()
	if ReplayOnly() {
		replay, _ := replayFor(test)
		if replay == nil {
			t.Skip("replay file is for another test")
		}
		var c C
		if err := json.Unmarshal(replay.Case, &c); err != nil {
			t.Fatalf("cannot decode replay case: %v", err)
		}
		o, err := Eval(c, check)
		record(test, replay.Case, o)
		if err != nil {
			recordFailure(test, replay.Case, err.Error())
			t.Errorf("replay case fails: %v", err)
		}
		return
	}
	ok := true
	var n int64
	iter(func(c C) bool {
		o, err := Eval(c, check)
		n++
		// JSON only when needed (samples / failure): enumeration loops are hot
		if err != nil {
			cjson, _ := json.Marshal(c)
			recordFailure(test, cjson, err.Error())
			t.Errorf("%v\ncase: %s", err, trunc(string(cjson), 4000))
			ok = false
			return false
		}
		var cjson []byte
		if o.NonTrivial && o.Key == "" || (o.NonTrivial && (n < 64 || n&(n-1) == 0)) {
			cjson, _ = json.Marshal(c)
		}
		if o.NonTrivial && cjson == nil {
			cjson = []byte(`"` + o.Key + `"`)
		}
		record(test, cjson, o)
		return true
	})
	if ok {
		mu.Lock()
		st.Completed = true
		st.Exhaustive = append(st.Exhaustive, subspace)
		mu.Unlock()
	}
}

// Note records a free evaluation made outside Run/Enumerate (used by checks that are not
// case based, e.g. repeated command executions)
func Note(t testing.TB, caseJSON interface{}, o Outcome) {
	b, _ := json.Marshal(caseJSON)
	record(baseName(t), b, o)
}

// Fail records a violation found outside Run/Enumerate
func Fail(t testing.TB, caseJSON interface{}, format string, a ...interface{}) {
	b, _ := json.Marshal(caseJSON)
	msg := fmt.Sprintf(format, a...)
	recordFailure(baseName(t), b, msg)
	t.Errorf("%s\ncase: %s", msg, trunc(string(b), 4000))
}

// Complete marks a non-rapid test as completed
func Complete(t testing.TB) {
	if !t.Failed() {
		mu.Lock()
		statsFor(baseName(t)).Completed = true
		mu.Unlock()
	}
}

// KnownFinding prints the line the interface requires for a listed finding that still
// fails, and remembers it for the evidence file
func KnownFinding(t testing.TB, key, what string) {
	fmt.Printf("KNOWN-FINDING: property=%s %s: %s\n", PropertyID, key, what)
	mu.Lock()
	st := statsFor(baseName(t))
	st.KnownPrinted = append(st.KnownPrinted, key)
	mu.Unlock()
}

func trunc(s string, n int) string {
	if len(s) > n {
		return s[:n] + "…"
	}
	return s
}

// Main is called from TestMain: runs the tests and writes the evidence fragment
func Main(m *testing.M, property string) {
	PropertyID = property
	loadKnown()
	code := m.Run()
	WriteFragment()
	os.Exit(code)
}

// WriteFragment writes what was counted so far to the file named by VERIF_FRAG
func WriteFragment() {
	out := os.Getenv("VERIF_FRAG")
	if out == "" {
		return
	}
	mu.Lock()
	defer mu.Unlock()
	var list []*testStats
	for _, n := range order {
		st := all[n]
		st.HashList = st.HashList[:0]
		for h := range st.Hashes {
			st.HashList = append(st.HashList, h)
		}
		sort.Slice(st.HashList, func(i, j int) bool { return st.HashList[i] < st.HashList[j] })
		list = append(list, st)
	}
	b, _ := json.Marshal(map[string]interface{}{"property": PropertyID, "tests": list})
	tmp := out + ".tmp"
	if err := os.WriteFile(tmp, b, 0o644); err == nil {
		os.Rename(tmp, out)
	}
}

// ---- known findings -------------------------------------------------------------------

var known = map[string]bool{}

func loadKnown() {
	p := os.Getenv("VERIF_KNOWN")
	if p == "" {
		p = "/verif/KNOWN_FINDINGS.txt"
	}
	b, err := os.ReadFile(p)
	if err != nil {
		return
	}
	for _, line := range strings.Split(string(b), "\n") {
		line = strings.TrimSpace(line)
		if !strings.HasPrefix(line, "known:") {
			continue
		}
		var prop, key string
		for _, f := range strings.Fields(line) {
			if strings.HasPrefix(f, "property=") {
				prop = strings.TrimPrefix(f, "property=")
			}
			if strings.HasPrefix(f, "key=") {
				key = strings.TrimPrefix(f, "key=")
			}
		}
		if prop == PropertyID && key != "" {
			known[key] = true
		}
	}
}

// Known tells whether KNOWN_FINDINGS.txt lists this key as a known (unrepaired) finding
// for the current property
func Known(key string) bool { return known[key] }
