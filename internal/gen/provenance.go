package gen

import (
	"fmt"
	"regexp"
	"strings"
	"unicode"

	"github.com/evolbioinfo/goalign/align"
	"github.com/evolbioinfo/goalign/io/fasta"
	"pgregory.net/rapid"
)

// Provenance of an input object.
//
// Every property quantifies over "all alignments", and a user's alignment is rarely a freshly
// constructed one: it was cloned, renamed, cut, cleaned, concatenated or read from a file before.
// A Plan is a drawn chain of such public operations that ENDS with an object holding exactly the
// content asked for (same rows, names and order). It is built backwards: the content before each
// step is the pre-image of the content after it (junk columns to cut, all-gap rows to clean, names
// to rename back ...), the first content is constructed the ordinary way and the steps are applied.
// What a property then checks on the object is judged against the plain content as before, so the
// oracle does not depend on any of the operations of the chain.
//
// BuildVia reports usable=false when the object read back by index does not hold the expected
// content: the chain itself misbehaved, which is the business of the properties of those
// operations, not of the caller's; the caller then falls back on a fresh Build.

// Step is one operation of a plan (JSON-serialisable: plans are part of replayable cases)
type Step struct {
	Kind string   `json:"k"`
	N    int      `json:"n,omitempty"`   // a count or a position, by kind
	M    int      `json:"m,omitempty"`   // a second one
	Pos  []int    `json:"pos,omitempty"` // positions, by kind
	Junk []string `json:"junk,omitempty"`
	Flag bool     `json:"f,omitempty"`
}

// Plan is a chain of steps, applied in order
type Plan struct {
	Steps []Step `json:"steps,omitempty"`
}

func (p Plan) String() string {
	if len(p.Steps) == 0 {
		return "fresh"
	}
	k := make([]string, len(p.Steps))
	for i, s := range p.Steps {
		k[i] = s.Kind
	}
	return strings.Join(k, "+")
}

// Kinds lists the steps of the plan (for class labels)
func (p Plan) Kinds() []string {
	var k []string
	for _, s := range p.Steps {
		k = append(k, s.Kind)
	}
	return k
}

var provKinds = []string{"clone", "touch", "rename-cycle", "cut-window", "select-sites", "trim-gap-ends", "trim-constant-ends", "drop-gap-rows", "concat", "append", "reparse-fasta"}

var safeName = regexp.MustCompile(`^[A-Za-z0-9_.|:/=+-]+$`)

func distinctNames(rows []Row) bool {
	seen := map[string]bool{}
	for _, r := range rows {
		if seen[r.Name] {
			return false
		}
		seen[r.Name] = true
	}
	return true
}

func allGapColumn(rows []Row, j int) bool {
	for _, r := range rows {
		if r.Seq[j] != '-' {
			return false
		}
	}
	return true
}

func constantColumn(rows []Row, j int) bool {
	c := unicode.ToUpper(rune(rows[0].Seq[j]))
	for _, r := range rows {
		if unicode.ToUpper(rune(r.Seq[j])) != c {
			return false
		}
	}
	return true
}

// applicable tells whether the step kind can end on this content
func applicable(kind string, rows []Row) bool {
	n := len(rows)
	if n == 0 {
		return false
	}
	l := len(rows[0].Seq)
	for _, r := range rows {
		if len(r.Seq) != l {
			return false
		}
	}
	switch kind {
	case "clone", "touch", "cut-window", "select-sites":
		return l >= 1
	case "rename-cycle":
		return n >= 2 && distinctNames(rows)
	case "trim-gap-ends":
		return l >= 1 && !allGapColumn(rows, 0) && !allGapColumn(rows, l-1)
	case "trim-constant-ends":
		return l >= 1 && n >= 2 && !constantColumn(rows, 0) && !constantColumn(rows, l-1)
	case "drop-gap-rows":
		if l < 1 || !distinctNames(rows) {
			return false
		}
		for _, r := range rows {
			if strings.Trim(r.Seq, "-") == "" || strings.HasPrefix(r.Name, "zzgaprow") {
				return false
			}
		}
		return true
	case "concat":
		return l >= 2 && distinctNames(rows)
	case "append":
		return n >= 2 && l >= 1 && distinctNames(rows)
	case "reparse-fasta":
		if l < 1 || !distinctNames(rows) {
			return false
		}
		for _, r := range rows {
			if !safeName.MatchString(r.Name) || strings.ContainsAny(r.Seq, " \t\r\n>") {
				return false
			}
		}
		return true
	}
	return false
}

// DrawPlan draws a chain of at most maxSteps operations ending on the content of a. chars is
// the pool of residues of the junk that some steps add and remove again. The chain is drawn from
// its last step backwards, each step against the content it has to end on.
func DrawPlan(t *rapid.T, a Ali, chars string, maxSteps int) Plan {
	var p Plan
	if len(a.Rows) == 0 || maxSteps <= 0 {
		return p
	}
	if chars == "" {
		chars = "ACGT"
	}
	cur := a.Rows
	ns := rapid.IntRange(1, maxSteps).Draw(t, "provsteps")
	for i := 0; i < ns; i++ {
		kind := rapid.SampledFrom(provKinds).Draw(t, "provkind")
		if !applicable(kind, cur) {
			continue
		}
		n := len(cur)
		l := len(cur[0].Seq)
		s := Step{Kind: kind}
		switch kind {
		case "rename-cycle":
			// a cycle over a drawn subset of at least 2 rows
			k := rapid.IntRange(2, n).Draw(t, "cyclelen")
			s.Pos = Perm(t, n, "cyclerows")[:k]
		case "cut-window":
			s.N = rapid.IntRange(0, 4).Draw(t, "junkleft")
			s.M = rapid.IntRange(0, 4).Draw(t, "junkright")
			for r := 0; r < n; r++ {
				s.Junk = append(s.Junk, SeqN(t, chars, s.N+s.M))
			}
		case "select-sites":
			k := rapid.IntRange(1, 4).Draw(t, "junkcols")
			for c := 0; c < k; c++ {
				s.Pos = append(s.Pos, rapid.IntRange(0, l).Draw(t, "junkat"))
			}
			for r := 0; r < n; r++ {
				s.Junk = append(s.Junk, SeqN(t, chars, k))
			}
		case "trim-gap-ends", "trim-constant-ends":
			s.N = rapid.IntRange(0, 3).Draw(t, "trimleft")
			s.M = rapid.IntRange(0, 3).Draw(t, "trimright")
			if kind == "trim-constant-ends" {
				s.Junk = []string{SeqN(t, chars, 1)}
			}
		case "drop-gap-rows":
			k := rapid.IntRange(1, 3).Draw(t, "gaprows")
			for c := 0; c < k; c++ {
				s.Pos = append(s.Pos, rapid.IntRange(0, n).Draw(t, "gaprowat"))
			}
		case "concat":
			s.N = rapid.IntRange(1, l-1).Draw(t, "concatat")
		case "append":
			s.N = rapid.IntRange(1, n-1).Draw(t, "appendat")
		}
		pre, ok := preimage(s, cur)
		if !ok {
			continue
		}
		p.Steps = append([]Step{s}, p.Steps...)
		cur = pre.rows
	}
	return p
}

type content struct {
	rows  []Row
	extra []Row // second operand of concat / append
}

func copyRows(rows []Row) []Row { return append([]Row{}, rows...) }

// preimage returns the content before the step, given the content after it; ok=false when the
// step cannot end on that content
func preimage(s Step, after []Row) (before content, ok bool) {
	if !applicable(s.Kind, after) {
		return before, false
	}
	n := len(after)
	l := len(after[0].Seq)
	rows := copyRows(after)
	switch s.Kind {
	case "clone", "touch", "reparse-fasta":
	case "rename-cycle":
		// row Pos[i] is first named as row Pos[i+1] and renamed to its own name
		if len(s.Pos) < 2 {
			return before, false
		}
		for i, r := range s.Pos {
			if r < 0 || r >= n {
				return before, false
			}
			rows[r].Name = after[s.Pos[(i+1)%len(s.Pos)]].Name
		}
	case "cut-window":
		if len(s.Junk) != n {
			return before, false
		}
		for i := range rows {
			if len(s.Junk[i]) != s.N+s.M {
				return before, false
			}
			rows[i].Seq = s.Junk[i][:s.N] + rows[i].Seq + s.Junk[i][s.N:]
		}
	case "select-sites":
		if len(s.Junk) != n {
			return before, false
		}
		for i := range rows {
			if len(s.Junk[i]) != len(s.Pos) {
				return before, false
			}
			rows[i].Seq = interleave(after[i].Seq, s.Pos, s.Junk[i])
		}
	case "trim-gap-ends":
		for i := range rows {
			rows[i].Seq = strings.Repeat("-", s.N) + rows[i].Seq + strings.Repeat("-", s.M)
		}
	case "trim-constant-ends":
		if len(s.Junk) != 1 || len(s.Junk[0]) != 1 {
			return before, false
		}
		for i := range rows {
			rows[i].Seq = strings.Repeat(s.Junk[0], s.N) + rows[i].Seq + strings.Repeat(s.Junk[0], s.M)
		}
	case "drop-gap-rows":
		out := make([]Row, 0, n+len(s.Pos))
		k := 0
		for i := 0; i <= n; i++ {
			for _, at := range s.Pos {
				if at == i {
					out = append(out, Row{fmt.Sprintf("zzgaprow%d", k), strings.Repeat("-", l)})
					k++
				}
			}
			if i < n {
				out = append(out, after[i])
			}
		}
		rows = out
	case "concat":
		if s.N < 1 || s.N >= l {
			return before, false
		}
		for i := range rows {
			rows[i].Seq = after[i].Seq[:s.N]
			before.extra = append(before.extra, Row{after[i].Name, after[i].Seq[s.N:]})
		}
	case "append":
		if s.N < 1 || s.N >= n {
			return before, false
		}
		before.extra = copyRows(after[s.N:])
		rows = rows[:s.N]
	default:
		return before, false
	}
	before.rows = rows
	return before, true
}

// interleave inserts junk[k] before position pos[k] of s (positions in coordinates of s)
func interleave(s string, pos []int, junk string) string {
	var sb strings.Builder
	for i := 0; i <= len(s); i++ {
		for k, at := range pos {
			if at == i {
				sb.WriteByte(junk[k])
			}
		}
		if i < len(s) {
			sb.WriteByte(s[i])
		}
	}
	return sb.String()
}

// keptSites returns, for interleave(s, pos, junk), the indices of the characters of s
func keptSites(l int, pos []int) []int {
	var kept []int
	at := 0
	for i := 0; i <= l; i++ {
		for _, p := range pos {
			if p == i {
				at++
			}
		}
		if i < l {
			kept = append(kept, at)
			at++
		}
	}
	return kept
}

// BuildVia constructs an alignment holding the content of a through the plan
func BuildVia(a Ali, p Plan) (al align.Alignment, usable bool) {
	if len(p.Steps) == 0 {
		al, err := Build(a)
		return al, err == nil
	}
	// contents, backwards
	before := make([]content, len(p.Steps))
	cur := a.Rows
	for i := len(p.Steps) - 1; i >= 0; i-- {
		c, ok := preimage(p.Steps[i], cur)
		if !ok {
			return nil, false
		}
		before[i] = c
		cur = c.rows
	}
	al, err := Build(Ali{Rows: cur, Alphabet: a.Alphabet})
	if err != nil {
		return nil, false
	}
	for i, s := range p.Steps {
		var after []Row
		if i+1 < len(p.Steps) {
			after = before[i+1].rows
		} else {
			after = a.Rows
		}
		al, err = applyStep(al, s, before[i], after, a.Alphabet)
		if err != nil || al == nil {
			return nil, false
		}
	}
	if !SameRows(Snapshot(al), a.Rows) {
		return nil, false
	}
	return al, true
}

func applyStep(al align.Alignment, s Step, c content, after []Row, alphabet string) (align.Alignment, error) {
	switch s.Kind {
	case "clone":
		return al.Clone()
	case "touch":
		// every way of reading: by index, by name, as strings and as characters, iterators
		for i := 0; i < al.NbSequences(); i++ {
			al.GetSequenceById(i)
			al.GetSequenceCharById(i)
			if n, ok := al.GetSequenceNameById(i); ok {
				al.GetSequence(n)
				al.GetSequenceChar(n)
			}
		}
		al.Iterate(func(name string, sequence string) bool { return false })
		al.IterateChar(func(name string, sequence []uint8) bool { return false })
		al.IterateAll(func(name string, sequence []uint8, comment string) bool { return false })
		for _, q := range al.Sequences() {
			_ = q.Sequence()
			_ = q.Length()
		}
		al.Length()
		al.Alphabet()
		return al, nil
	case "rename-cycle":
		m := map[string]string{}
		for i, r := range c.rows {
			if r.Name != after[i].Name {
				m[r.Name] = after[i].Name
			}
		}
		al.Rename(m)
		return al, nil
	case "cut-window":
		return al.SubAlign(s.N, len(after[0].Seq))
	case "select-sites":
		return al.SelectSites(keptSites(len(after[0].Seq), s.Pos))
	case "trim-gap-ends":
		al.RemoveGapSites(1.0, true)
		return al, nil
	case "trim-constant-ends":
		al.RemoveMajorityCharacterSites(1.0, true, false, false)
		return al, nil
	case "drop-gap-rows":
		al.RemoveGapSeqs(1.0, false)
		return al, nil
	case "concat":
		other, err := Build(Ali{Rows: c.extra, Alphabet: alphabet})
		if err != nil {
			return nil, err
		}
		if other.Alphabet() != al.Alphabet() {
			// auto-detected alphabets of the two halves may differ: not a usable chain
			return nil, fmt.Errorf("alphabets of the two halves differ")
		}
		return al, al.Concat(other)
	case "append":
		other, err := Build(Ali{Rows: c.extra, Alphabet: alphabet})
		if err != nil {
			return nil, err
		}
		return al, al.Append(other)
	case "reparse-fasta":
		text := fasta.WriteAlignment(al)
		back, err := fasta.NewParser(strings.NewReader(text)).Parse()
		if err != nil {
			return nil, err
		}
		if code := alphabetCode(alphabet); code != align.UNKNOWN {
			if err = back.SetAlphabet(code); err != nil {
				return nil, err
			}
		} else if alphabet != "auto" && alphabet != "" {
			return nil, fmt.Errorf("unknown alphabet")
		}
		return back, nil
	}
	return nil, fmt.Errorf("unknown step %q", s.Kind)
}
