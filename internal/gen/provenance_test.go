package gen

import (
	"encoding/json"
	"testing"

	"pgregory.net/rapid"
)

// On the unchanged tree every drawn plan is usable and ends on the content asked for; the test
// also shows how often each kind of step is drawn.
func TestProvenanceEndsOnContent(t *testing.T) {
	kinds := map[string]int{}
	fresh, total := 0, 0
	rapid.Check(t, func(t *rapid.T) {
		var a Ali
		if rapid.Bool().Draw(t, "columnwise") {
			a = Columnwise(t, "ACGTacgtNRY-", 1, 6, 1, 12, "nt")
		} else {
			a = Rect(t, "ARNDCQEGHILKMFPSTWYVX-", 1, 6, 1, 12, "aa")
		}
		p := DrawPlan(t, a, "ACGT-", 3)
		// the plan survives serialisation
		b, _ := json.Marshal(p)
		var q Plan
		if err := json.Unmarshal(b, &q); err != nil {
			t.Fatalf("plan does not round-trip: %v", err)
		}
		al, ok := BuildVia(a, q)
		if !ok {
			t.Fatalf("plan %s is not usable for %s (%s)", p, Show(a.Rows), b)
		}
		if !SameRows(Snapshot(al), a.Rows) || al.Length() != a.Length() || al.NbSequences() != len(a.Rows) {
			t.Fatalf("plan %s ends on %s (length %d), want %s", p, Show(Snapshot(al)), al.Length(), Show(a.Rows))
		}
		for i, r := range a.Rows {
			if s, found := al.GetSequence(r.Name); distinctNames(a.Rows) && (!found || s != r.Seq) {
				t.Fatalf("plan %s: row %d not reached by its name %q", p, i, r.Name)
			}
		}
		total++
		if len(p.Steps) == 0 {
			fresh++
		}
		for _, k := range p.Kinds() {
			kinds[k]++
		}
	})
	t.Logf("%d plans, %d without step; steps: %v", total, fresh, kinds)
}
