// Package gen holds the generators and small conversion helpers shared by the property
// packages. Every random choice goes through rapid.
package gen

import (
	"fmt"
	"strings"

	"github.com/evolbioinfo/goalign/align"
	"pgregory.net/rapid"
)

// Row is one (name, sequence) pair of the plain reference representation
type Row struct {
	Name string `json:"n"`
	Seq  string `json:"s"`
}

// Ali is the JSON-serialisable form of an alignment or sequence set
type Ali struct {
	Rows []Row `json:"rows"`
	// Alphabet: "nt", "aa" or "auto" (detected after insertion)
	Alphabet string `json:"alphabet"`
}

const (
	DNA       = "ACGT"
	IUPACOnly = "RYSWKMBDHVN"
	IUPAC     = DNA + IUPACOnly
	AA20      = "ARNDCQEGHILKMFPSTWYV"
)

// Lower returns the lower case version of an alphabet, appended to it
func BothCases(s string) string { return s + strings.ToLower(s) }

// Length(s) in rows of an alignment
func (a Ali) Length() int {
	if len(a.Rows) == 0 {
		return -1
	}
	return len(a.Rows[0].Seq)
}

func alphabetCode(s string) int {
	switch s {
	case "nt":
		return align.NUCLEOTIDS
	case "aa":
		return align.AMINOACIDS
	}
	return align.UNKNOWN
}

// Build constructs the alignment through the public constructors only
func Build(a Ali) (align.Alignment, error) {
	al := align.NewAlign(alphabetCode(a.Alphabet))
	for _, r := range a.Rows {
		if err := al.AddSequence(r.Name, r.Seq, ""); err != nil {
			return nil, err
		}
	}
	if a.Alphabet == "auto" || a.Alphabet == "" {
		al.AutoAlphabet()
	}
	return al, nil
}

// MustBuild is Build for cases that are valid by construction
func MustBuild(a Ali) align.Alignment {
	al, err := Build(a)
	if err != nil {
		panic(fmt.Sprintf("harness: cannot build alignment: %v", err))
	}
	return al
}

// BuildBag constructs a sequence set through the public constructors only
func BuildBag(a Ali) align.SeqBag {
	sb := align.NewSeqBag(alphabetCode(a.Alphabet))
	for _, r := range a.Rows {
		sb.AddSequence(r.Name, r.Seq, "")
	}
	if a.Alphabet == "auto" || a.Alphabet == "" {
		sb.AutoAlphabet()
	}
	return sb
}

// Snapshot reads names and residues back, by index
func Snapshot(sb align.SeqBag) []Row {
	rows := make([]Row, 0, sb.NbSequences())
	for i := 0; i < sb.NbSequences(); i++ {
		n, _ := sb.GetSequenceNameById(i)
		s, _ := sb.GetSequenceById(i)
		rows = append(rows, Row{n, s})
	}
	return rows
}

// SameRows compares two row lists
func SameRows(a, b []Row) bool {
	if len(a) != len(b) {
		return false
	}
	for i := range a {
		if a[i] != b[i] {
			return false
		}
	}
	return true
}

// Show prints rows compactly
func Show(rows []Row) string {
	var sb strings.Builder
	for _, r := range rows {
		fmt.Fprintf(&sb, "%s=%s ", r.Name, r.Seq)
	}
	return sb.String()
}

// SeqOf draws a string of length in [min,max] over the given characters
func SeqOf(chars string, min, max int) *rapid.Generator[string] {
	return rapid.Custom(func(t *rapid.T) string {
		n := rapid.IntRange(min, max).Draw(t, "len")
		return SeqN(t, chars, n)
	})
}

// SeqN draws a string of exactly n characters
func SeqN(t *rapid.T, chars string, n int) string {
	b := make([]byte, n)
	for i := range b {
		b[i] = chars[rapid.IntRange(0, len(chars)-1).Draw(t, "c")]
	}
	return string(b)
}

// SimpleNames gives n distinct plain names
func SimpleNames(n int) []string {
	out := make([]string, n)
	for i := range out {
		out[i] = fmt.Sprintf("s%d", i)
	}
	return out
}

// Rect draws a rectangular alignment with plain names
func Rect(t *rapid.T, chars string, minRows, maxRows, minLen, maxLen int, alphabet string) Ali {
	n := rapid.IntRange(minRows, maxRows).Draw(t, "rows")
	l := rapid.IntRange(minLen, maxLen).Draw(t, "L")
	a := Ali{Alphabet: alphabet}
	for i := 0; i < n; i++ {
		a.Rows = append(a.Rows, Row{fmt.Sprintf("s%d", i), SeqN(t, chars, l)})
	}
	return a
}

// Columnwise draws an alignment column by column from a small pool of column patterns, so
// that repeated columns, ties and constant columns are frequent
func Columnwise(t *rapid.T, chars string, minRows, maxRows, minLen, maxLen int, alphabet string) Ali {
	n := rapid.IntRange(minRows, maxRows).Draw(t, "rows")
	l := rapid.IntRange(minLen, maxLen).Draw(t, "L")
	np := rapid.IntRange(1, 5).Draw(t, "npatterns")
	pool := make([]string, np)
	for i := range pool {
		switch rapid.IntRange(0, 3).Draw(t, "kind") {
		case 0: // constant column
			pool[i] = strings.Repeat(string(chars[rapid.IntRange(0, len(chars)-1).Draw(t, "c")]), n)
		case 1: // two characters
			two := SeqN(t, chars, 2)
			pool[i] = SeqN(t, two, n)
		default:
			pool[i] = SeqN(t, chars, n)
		}
	}
	cols := make([]string, l)
	for j := range cols {
		if rapid.IntRange(0, 3).Draw(t, "fresh") == 0 {
			cols[j] = SeqN(t, chars, n)
		} else {
			cols[j] = pool[rapid.IntRange(0, np-1).Draw(t, "p")]
		}
	}
	a := Ali{Alphabet: alphabet}
	for i := 0; i < n; i++ {
		b := make([]byte, l)
		for j := range cols {
			b[j] = cols[j][i]
		}
		a.Rows = append(a.Rows, Row{fmt.Sprintf("s%d", i), string(b)})
	}
	return a
}

// Column returns column j of the rows
func Column(rows []Row, j int) string {
	b := make([]byte, len(rows))
	for i, r := range rows {
		b[i] = r.Seq[j]
	}
	return string(b)
}

// Boundary draws an integer biased to the boundary values around n
func Boundary(t *rapid.T, n int, label string) int {
	switch rapid.IntRange(0, 9).Draw(t, label+"_k") {
	case 0:
		return -1
	case 1:
		return 0
	case 2:
		return 1
	case 3:
		return n - 1
	case 4:
		return n
	case 5:
		return n + 1
	default:
		return rapid.IntRange(-1, n+2).Draw(t, label)
	}
}

// Perm draws a permutation of 0..n-1
func Perm(t *rapid.T, n int, label string) []int {
	p := make([]int, n)
	for i := range p {
		p[i] = i
	}
	for i := n - 1; i > 0; i-- {
		j := rapid.IntRange(0, i).Draw(t, label)
		p[i], p[j] = p[j], p[i]
	}
	return p
}
