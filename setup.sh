#!/bin/sh
# Builds the driver from the files on disk (offline) and warms the Go build cache so that
# the first check does not pay for compiling gonum and the race runtime.
set -e
cd "$(dirname "$0")"
export GOFLAGS=-mod=mod GOPROXY=off GOSUMDB=off GOTOOLCHAIN=local
W=$(mktemp -d)
trap 'rm -rf "$W"' EXIT
cp go.mod "$W/go.mod"; cp go.sum "$W/go.sum"
go build -modfile="$W/go.mod" -o bin/check ./cmd/check
for d in props/*/; do
  go test -modfile="$W/go.mod" -c -vet=off -o "$W/t.test" "./$d" >/dev/null 2>&1 || true
done
go build -modfile="$W/go.mod" -o "$W/goalign" github.com/evolbioinfo/goalign >/dev/null 2>&1 || true
for d in props/c08 props/c16; do
  [ -d "$d" ] && go test -modfile="$W/go.mod" -race -c -vet=off -o "$W/t.test" "./$d" >/dev/null 2>&1 || true
done
echo "setup done"
