// C15 - Masking rewrites exactly the selected residues and nothing else
//
// The oracle is a frame condition plus a selection rule computed on the generated rows (a list of
// (name, string) pairs) from the doc comments of Mask / MaskOccurences / MaskUnique, docs/commands/mask.md
// and the property statement. Nothing here calls the function it judges.
package c15

import (
	"fmt"
	"io"
	"log"
	"math"
	"os"
	"strings"
	"testing"

	"github.com/evolbioinfo/goalign/align"
	"pgregory.net/rapid"
	"verif/internal/gen"
	"verif/internal/pbt"
)

func TestMain(m *testing.M) {
	log.SetOutput(io.Discard)
	pbt.Main(m, "C15")
}

// Findings on the unchanged tree that wait for a decision (props/c15/FINDINGS.md) would be listed here:
// the generators steer around the signature of a pending or known finding and count it
// (none at present: 4edb852 and eed1939 repaired the two findings of props/c15/FINDINGS.md).
var pending = map[string]bool{}

// sumOverflows: start >= 0, length >= 0 and start+length does not fit in an int (the overflow defects of Mask and
// RefCoordinates were repaired by eed1939 and d923a70; such windows are judged like any other)
func sumOverflows(s, n int) bool { return s >= 0 && n >= 0 && n > math.MaxInt-s }

// VERIF_NO_PENDING=1 judges the pending signatures strictly (to try a candidate repair in a scratch copy)
func steerAround(key string) bool {
	return pbt.Known(key) || (pending[key] && os.Getenv("VERIF_NO_PENDING") == "")
}

// ---- the model --------------------------------------------------------------------------------------

// colRule is what may happen in one column
type colRule struct {
	Sel  []int  // rows whose cell must be rewritten
	Opt  []int  // rows whose cell may be rewritten or kept (a case variant of the reference residue)
	Reps string // acceptable replacement bytes; every rewritten cell of the column carries the same one
	Free bool   // the readings of "same residue" differ in this column: any cell may be kept or rewritten
}

type maskModel struct {
	Err   bool // an error must be reported
	ErrOK bool // an error may be reported (a corner the documentation leaves open), otherwise Cols
	Cols  map[int]colRule
}

func aliLen(a gen.Ali) int { return len(a.Rows[0].Seq) }

func rowIndex(rows []gen.Row, name string) int {
	for i, r := range rows {
		if r.Name == name {
			return i
		}
	}
	return -1
}

func fold(c byte) byte {
	if c >= 'a' && c <= 'z' {
		return c - 32
	}
	return c
}

// tieSet returns the bytes that occur most often among the cells (empty for no cell)
func tieSet(cells []byte) string {
	var cnt [256]int
	max := 0
	for _, c := range cells {
		cnt[c]++
		if cnt[c] > max {
			max = cnt[c]
		}
	}
	var out []byte
	for c := 0; c < 256; c++ {
		if max > 0 && cnt[c] == max {
			out = append(out, byte(c))
		}
	}
	return string(out)
}

func union(a, b string) string {
	out := a
	for i := 0; i < len(b); i++ {
		if !strings.Contains(out, b[i:i+1]) {
			out += b[i : i+1]
		}
	}
	return out
}

// detect: the alphabet goalign's documented character sets give to the rows when it is not forced (letters
// in either case): nucleotide codes ACGT RYSWKMBDHVN U O X, amino acids the 20 + B Z X, specials - . * ?;
// compatible with both = nucleotides
func detect(rows []gen.Row) string {
	const both = "ACBRG?-.*DKSHMNVXTWY"
	isnt, isaa := true, true
	for _, r := range rows {
		for i := 0; i < len(r.Seq); i++ {
			c := string([]byte{fold(r.Seq[i])})
			inBoth := strings.Contains(both, c)
			isnt = isnt && (inBoth || strings.Contains("UO", c))
			isaa = isaa && (inBoth || strings.Contains("QEILFPZ", c))
		}
	}
	switch {
	case isnt:
		return "nt"
	case isaa:
		return "aa"
	}
	return "unknown"
}

// alphaOf: the alphabet of the alignment object: the forced one, or the detected one for "auto"
func alphaOf(a gen.Ali) string {
	if a.Alphabet == "auto" {
		return detect(a.Rows)
	}
	return a.Alphabet
}

// decided: detection of these rows gives the intended alphabet whatever the reading of the letters that
// both alphabets share (nucleotide rows always; protein rows need a letter that is no nucleotide code)
func decided(rows []gen.Row, alphabet string) bool { return detect(rows) == alphabet }

// replacement interprets the replacement mode: a fixed byte, or MAJ; ok=false for an unknown word
func replacement(mode, alphabet string) (rep byte, maj, ok bool) {
	switch {
	case mode == "" || mode == "AMBIG":
		switch alphabet {
		case "aa":
			return 'X', false, true
		case "nt":
			return 'N', false, true
		}
		return 0, false, false
	case mode == "GAP":
		return '-', false, true
	case mode == "MAJ":
		return 0, true, true
	case len(mode) == 1:
		return mode[0], false, true
	}
	return 0, false, false
}

func column(rows []gen.Row, i int, skip int) []byte {
	var out []byte
	for r := range rows {
		if r != skip {
			out = append(out, rows[r].Seq[i])
		}
	}
	return out
}

// hasCaseVariants: two cells of the column are the same letter in different case
func hasCaseVariants(cells []byte) bool {
	for i := range cells {
		for j := i + 1; j < len(cells); j++ {
			if cells[i] != cells[j] && fold(cells[i]) == fold(cells[j]) {
				return true
			}
		}
	}
	return false
}

// maskColumns: the rule of Mask for a set of columns. ref is the index of the reference row or -1.
// A cell of a listed column is rewritten unless it is a protected gap (nogap) or a protected copy of the
// reference residue (noref with a reference).
func maskColumns(o *pbt.Outcome, rows []gen.Row, alphabet string, ref int, cols []int, mode string, nogap, noref bool) map[int]colRule {
	rep, maj, _ := replacement(mode, alphabet)
	out := map[int]colRule{}
	for _, i := range cols {
		var rule colRule
		for r := range rows {
			c := rows[r].Seq[i]
			switch {
			case nogap && c == '-':
			case noref && ref >= 0 && c == rows[ref].Seq[i]:
			case noref && ref >= 0 && fold(c) == fold(rows[ref].Seq[i]):
				// the same residue in the other case: protected or not, both accepted
				rule.Opt = append(rule.Opt, r)
				o.Ambiguous++
			default:
				rule.Sel = append(rule.Sel, r)
			}
		}
		if maj {
			// "the most frequent character of the column"; docs/commands/mask.md adds "without considering the
			// reference sequence when --ref-seq is given": both readings, any of the tied characters
			rule.Reps = tieSet(column(rows, i, -1))
			if ref >= 0 {
				if alt := tieSet(column(rows, i, ref)); alt != "" && alt != rule.Reps {
					rule.Reps = union(rule.Reps, alt)
					o.Ambiguous++
				}
			}
		} else {
			rule.Reps = string([]byte{rep})
		}
		out[i] = rule
	}
	return out
}

// modelMask: Mask(refseq, start, length, replace, nogap, noref)
func modelMask(o *pbt.Outcome, a gen.Ali, refName string, start, length int, mode string, nogap, noref bool) maskModel {
	rows, l := a.Rows, aliLen(a)
	_, _, ok := replacement(mode, alphaOf(a))
	ref := rowIndex(rows, refName)
	if start < 0 || start > l || !ok || (refName != "" && noref && ref < 0) {
		return maskModel{Err: true}
	}
	m := maskModel{}
	// open corners: an empty window at position L, a negative length, a reference name that is not needed
	// (no protection asked) and does not exist
	if start == l || length < 0 || (refName != "" && ref < 0) {
		m.ErrOK = true
		o.Ambiguous++
	}
	end := l // (written without the sum start+length, which overflows for huge lengths)
	if length <= l-start {
		end = start + length
	}
	var cols []int
	for i := start; i < end; i++ {
		cols = append(cols, i)
	}
	m.Cols = maskColumns(o, rows, alphaOf(a), ref, cols, mode, nogap, noref)
	return m
}

// modelOccurences: MaskOccurences(refseq, k, replace). In every column the cells that count are those of
// the rows other than the reference whose residue differs from the reference's (or the reference has a
// gap there); all cells when no reference is given. A non-gap counting cell is rewritten iff at most k
// counting cells of the column carry its residue.
func modelOccurences(o *pbt.Outcome, a gen.Ali, refName string, k int, mode string) maskModel {
	rows, l := a.Rows, aliLen(a)
	rep, maj, ok := replacement(mode, alphaOf(a))
	ref := rowIndex(rows, refName)
	if !ok || (refName != "" && ref < 0) {
		return maskModel{Err: true}
	}
	m := maskModel{Cols: map[int]colRule{}}
	for i := 0; i < l; i++ {
		var counted []int
		var cells []byte
		for r := range rows {
			c := rows[r].Seq[i]
			if ref < 0 || (r != ref && (c != rows[ref].Seq[i] || rows[ref].Seq[i] == '-')) {
				counted = append(counted, r)
				cells = append(cells, c)
			}
		}
		var rule colRule
		for j, r := range counted {
			n := 0
			for _, c := range cells {
				if c == cells[j] {
					n++
				}
			}
			if cells[j] != '-' && n <= k {
				rule.Sel = append(rule.Sel, r)
			}
		}
		if maj {
			// a most frequent character among the counting cells (the pinned MaskUniqueMAJ test), or of the
			// column without the reference row (docs/commands/mask.md)
			rule.Reps = tieSet(cells)
			if ref >= 0 {
				if alt := tieSet(column(rows, i, ref)); alt != "" && alt != rule.Reps && len(rule.Sel) > 0 {
					rule.Reps = union(rule.Reps, alt)
					o.Ambiguous++
				}
			}
		} else {
			rule.Reps = string([]byte{rep})
		}
		if hasCaseVariants(column(rows, i, -1)) {
			// 'a' and 'A' in one column: one residue or two? every cell may be kept or rewritten
			rule.Free = true
			rule.Reps = union(rule.Reps, tieSet(column(rows, i, -1)))
			o.Ambiguous++
		}
		if len(rule.Sel) > 0 || rule.Free {
			m.Cols[i] = rule
		}
	}
	return m
}

// judge compares the alignment after the call with the model
func judge(m maskModel, before, after []gen.Row, lengthAfter int, e error, what string) (rewritten, kept int, err error) {
	l := len(before[0].Seq)
	unchanged := func() error {
		if !gen.SameRows(before, after) || lengthAfter != l {
			return fmt.Errorf("%s reported an error but changed the alignment\n before: %s\n after : %s (Length %d)", what, gen.Show(before), gen.Show(after), lengthAfter)
		}
		return nil
	}
	if m.Err {
		if e == nil {
			return 0, 0, fmt.Errorf("%s: the arguments are invalid but no error was reported; result %s", what, gen.Show(after))
		}
		return 0, 0, unchanged()
	}
	if e != nil {
		if m.ErrOK {
			return 0, 0, unchanged()
		}
		return 0, 0, fmt.Errorf("%s refused valid arguments: %v", what, e)
	}
	if len(after) != len(before) || lengthAfter != l {
		return 0, 0, fmt.Errorf("%s: %d rows of length %d became %d rows, Length() %d", what, len(before), l, len(after), lengthAfter)
	}
	for r := range before {
		if after[r].Name != before[r].Name || len(after[r].Seq) != l {
			return 0, 0, fmt.Errorf("%s: row %d %q (length %d) became %q (length %d)", what, r, before[r].Name, l, after[r].Name, len(after[r].Seq))
		}
	}
	for i := 0; i < l; i++ {
		rule, masked := m.Cols[i]
		if !masked {
			for r := range before {
				if after[r].Seq[i] != before[r].Seq[i] {
					return 0, 0, fmt.Errorf("%s rewrote row %d column %d (%q -> %q), which is outside the selection\n before: %s\n after : %s", what, r, i, before[r].Seq[i], after[r].Seq[i], gen.Show(before), gen.Show(after))
				}
			}
			continue
		}
		role := make([]int, len(before)) // 0 keep, 1 must, 2 may
		for _, r := range rule.Sel {
			role[r] = 1
		}
		for _, r := range rule.Opt {
			role[r] = 2
		}
		okCol := false
		for ci := 0; ci < len(rule.Reps) && !okCol; ci++ {
			rep := rule.Reps[ci]
			good := true
			for r := range before {
				b, a := before[r].Seq[i], after[r].Seq[i]
				switch {
				case rule.Free || role[r] == 2:
					good = good && (a == b || a == rep)
				case role[r] == 1:
					good = good && a == rep
				default:
					good = good && a == b
				}
			}
			okCol = good
		}
		if !okCol {
			return 0, 0, fmt.Errorf("%s, column %d: rows %v must become one of %q, rows %v may, every other cell is kept\n before: %s\n after : %s", what, i, rule.Sel, rule.Reps, rule.Opt, gen.Show(before), gen.Show(after))
		}
		rewritten += len(rule.Sel)
		kept += len(before) - len(rule.Sel)
	}
	return rewritten, kept, nil
}

// ---- generators -------------------------------------------------------------------------------------

// uni draws 0..n-1 nearly uniformly from fair bits (rapid's integer generators favour small values)
func uni(t *rapid.T, n int, label string) int {
	v := 0
	for b := 1; b < n*8; b <<= 1 {
		v <<= 1
		if rapid.Bool().Draw(t, label) {
			v |= 1
		}
	}
	return v % n
}

// (a repeated '-' raises the share of gaps)
var ntSets = []string{"ACGT--", "AC-", "ACGTN--", "ACGT-.", "ACacGT--", "ACGTRY--N", "ACGUacgu--", "ACGTacgtuo--"}
var aaSets = []string{"ARND--", "AR-", "ARNDCQEGHX---", "ARND-.", "ARarND--", "LKMFPSTWYV*---", "LKMFlkmfqe--", "ARNDqeilfpz--"}

func genAli(t *rapid.T, maxRows, maxLen int) gen.Ali {
	set := uni(t, len(ntSets), "letters")
	alphabet, chars := "nt", ntSets[set]
	if rapid.Bool().Draw(t, "protein") {
		alphabet, chars = "aa", aaSets[set]
	}
	var a gen.Ali
	if uni(t, 3, "rowwise") == 0 {
		a = gen.Rect(t, chars, 1, maxRows, 1, maxLen, alphabet)
	} else {
		a = gen.Columnwise(t, chars, 1, maxRows, 1, maxLen, alphabet)
	}
	// the alphabet is forced, or - when the letters decide - detected the way every reader does it
	if decided(a.Rows, alphabet) && uni(t, 3, "autoalphabet") == 0 {
		a.Alphabet = "auto"
	}
	return a
}

// genPlan draws, for one case in three, a chain of public operations that ends on the content of a
func genPlan(t *rapid.T, a gen.Ali) gen.Plan {
	if uni(t, 3, "prov") != 0 {
		return gen.Plan{}
	}
	junk := "ACGT-"
	if alphaOf(a) == "aa" {
		junk = "ARNDLKMFqe-"
	}
	return gen.DrawPlan(t, a, junk, 3)
}

// build constructs the alignment object: freshly, or through the plan; an "auto" alphabet is detected on
// the final content (AutoAlphabet, as the readers do)
func build(o *pbt.Outcome, a gen.Ali, p gen.Plan) align.Alignment {
	var al align.Alignment
	if len(p.Steps) == 0 {
		o.Class("provenance=fresh")
		al = gen.MustBuild(a)
	} else {
		seen := map[string]bool{}
		for _, k := range p.Kinds() {
			if !seen[k] {
				seen[k] = true
				o.Class("provenance=%s", k)
			}
		}
		var ok bool
		if al, ok = gen.BuildVia(a, p); !ok {
			o.Class("provenance-unusable")
			al = gen.MustBuild(a)
		}
	}
	if a.Alphabet == "auto" {
		al.AutoAlphabet()
	}
	return al
}

var literals = []string{"?", "-", "n", "*", "A", ".", "X"}
var unknownWords = []string{"XX", "maj", "Gap", "\u00e9"}

// genMode draws the replacement: "", AMBIG, GAP, MAJ, a literal character, rarely an unknown word
func genMode(t *rapid.T) string {
	switch k := uni(t, 16, "mode"); {
	case k <= 1:
		return ""
	case k <= 3:
		return "AMBIG"
	case k <= 5:
		return "GAP"
	case k <= 10:
		return "MAJ"
	case k <= 14:
		return literals[uni(t, len(literals), "literal")]
	}
	return unknownWords[uni(t, len(unknownWords), "word")]
}

func genRef(t *rapid.T, a gen.Ali) string {
	switch k := uni(t, 16, "refkind"); {
	case k <= 3:
		return ""
	case k == 4:
		return "nosuch"
	}
	return a.Rows[uni(t, len(a.Rows), "refrow")].Name
}

// genMaskWindow: (start,length) over [-1,L+2]^2 with the kinds the quantifier names
func genMaskWindow(t *rapid.T, l int) (s, n int) {
	switch uni(t, 10, "wkind") {
	case 0, 1, 8: // inside
		s = rapid.IntRange(0, l-1).Draw(t, "s")
		n = rapid.IntRange(1, l-s).Draw(t, "n")
	case 2: // overhanging
		s = rapid.IntRange(0, l-1).Draw(t, "s")
		n = l - s + rapid.IntRange(1, 3).Draw(t, "over")
	case 3: // ends on the last column
		s = rapid.IntRange(0, l-1).Draw(t, "s")
		n = l - s
	case 4: // empty
		s = rapid.IntRange(0, l).Draw(t, "s")
		n = 0
	case 5: // far too long (the pinned test uses 2000)
		s = rapid.IntRange(0, l-1).Draw(t, "s")
		n = []int{1000, 1 << 31, 1<<31 - 1, math.MaxInt/2 + 1, math.MaxInt - s, math.MaxInt - s + 1, math.MaxInt - 1, math.MaxInt}[uni(t, 8, "huge")]
	case 9: // a huge start or a huge negative argument: refused
		s = []int{math.MaxInt, math.MaxInt/2 + 1, math.MinInt, math.MinInt + 1, 0, 1}[uni(t, 6, "hs")]
		n = []int{math.MaxInt, math.MinInt, math.MinInt + 1, 1}[uni(t, 4, "hn")]
	default:
		s = rapid.IntRange(-1, l+2).Draw(t, "us")
		n = rapid.IntRange(-1, l+2).Draw(t, "un")
	}
	return
}

func windowKind(l, s, n int) string {
	switch {
	case s < 0:
		return "start<0"
	case s > l:
		return "start>L"
	case s == l:
		return "start==L"
	case n < 0:
		return "len<0"
	case n == 0:
		return "empty"
	case sumOverflows(s, n):
		return "overhanging-sum-overflows"
	case s+n > l:
		return "overhanging"
	case s+n == l:
		return "ends-on-last"
	}
	return "inside"
}

func modeKind(mode string) string {
	_, maj, ok := replacement(mode, "nt")
	switch {
	case !ok:
		return "unknown-word"
	case maj:
		return "MAJ"
	case mode == "" || mode == "AMBIG" || mode == "GAP":
		return "'" + mode + "'"
	}
	return "literal"
}

// ---- the long class --------------------------------------------------------------------------------------
//
// A low share of the cases masks alignments of 1000-2600 columns (around 1024 and 2048 too). They are stored
// compactly: the short generated alignment is tiled to the asked number of columns, then a few cells are edited.

type edit struct {
	Row int  `json:"r"`
	Col int  `json:"c"`
	Ch  byte `json:"ch"`
}

type longSpec struct {
	Cols  int    `json:"cols,omitempty"`
	Edits []edit `json:"edits,omitempty"`
}

func genLong(t *rapid.T, a gen.Ali, rate int) longSpec {
	var l longSpec
	if uni(t, rate, "long") != 0 {
		return l
	}
	l.Cols = []int{1000, 1023, 1024, 1025, 1030, 1500, 2047, 2048, 2049, 2100, 2600}[uni(t, 11, "longcols")]
	if uni(t, 3, "anycols") == 0 {
		l.Cols = rapid.IntRange(1000, 2600).Draw(t, "cols")
	}
	chars := a.Rows[0].Seq + "-"
	for k := rapid.IntRange(0, 8).Draw(t, "nedits"); k > 0; k-- {
		l.Edits = append(l.Edits, edit{Row: uni(t, len(a.Rows), "er"), Col: rapid.IntRange(0, l.Cols-1).Draw(t, "ec"), Ch: chars[uni(t, len(chars), "ech")]})
	}
	return l
}

// expand builds the long alignment of the case
func expand(a gen.Ali, l longSpec) gen.Ali {
	if l.Cols <= 0 {
		return a
	}
	out := gen.Ali{Alphabet: a.Alphabet}
	for _, r := range a.Rows {
		b := make([]byte, l.Cols)
		for i := range b {
			b[i] = r.Seq[i%len(r.Seq)]
		}
		out.Rows = append(out.Rows, gen.Row{Name: r.Name, Seq: string(b)})
	}
	for _, e := range l.Edits {
		if e.Row >= 0 && e.Row < len(out.Rows) && e.Col >= 0 && e.Col < l.Cols {
			b := []byte(out.Rows[e.Row].Seq)
			b[e.Col] = e.Ch
			out.Rows[e.Row].Seq = string(b)
		}
	}
	return out
}

// ---- Mask ---------------------------------------------------------------------------------------------

type maskCase struct {
	Long    longSpec `json:"long"`
	Plan    gen.Plan `json:"plan"`
	Ali     gen.Ali  `json:"ali"`
	Ref     string   `json:"ref"`
	Start   int      `json:"start"`
	Len     int      `json:"len"`
	Replace string   `json:"replace"`
	NoGap   bool     `json:"nogap"`
	NoRef   bool     `json:"noref"`
}

func genMask(t *rapid.T) maskCase {
	var c maskCase
	c.Ali = genAli(t, 6, 15)
	c.Ref = genRef(t, c.Ali)
	c.Long = genLong(t, c.Ali, 80)
	c.Start, c.Len = genMaskWindow(t, aliLen(expand(c.Ali, c.Long)))
	c.Replace = genMode(t)
	c.NoGap = rapid.Bool().Draw(t, "nogap")
	c.NoRef = rapid.Bool().Draw(t, "noref")
	if c.Long.Cols == 0 {
		c.Plan = genPlan(t, c.Ali)
	}
	return c
}

func checkMask(c maskCase) (o pbt.Outcome, err error) {
	if c.Long.Cols > 0 {
		c.Ali = expand(c.Ali, c.Long)
		o.Class("mask long alignment (%d00+ columns)", c.Long.Cols/100)
	}
	rows, l := c.Ali.Rows, aliLen(c.Ali)
	al := build(&o, c.Ali, c.Plan)
	lengthBefore := al.Length()
	m := modelMask(&o, c.Ali, c.Ref, c.Start, c.Len, c.Replace, c.NoGap, c.NoRef)
	e := al.Mask(c.Ref, c.Start, c.Len, c.Replace, c.NoGap, c.NoRef)
	what := fmt.Sprintf("Mask(ref=%q, start=%d, length=%d, replace=%q, nogap=%v, noref=%v) on %d columns", c.Ref, c.Start, c.Len, c.Replace, c.NoGap, c.NoRef, l)
	// the selection is judged on the rows read back by index, over their full length; Length() must not change
	rewritten, _, err := judge(m, rows, gen.Snapshot(al), l+al.Length()-lengthBefore, e, what)
	if err != nil {
		return
	}
	// protected cells inside the window
	protected := 0
	if !m.Err && e == nil {
		for _, rule := range m.Cols {
			protected += len(rows) - len(rule.Sel)
		}
	}
	o.NonTrivial = rewritten > 0 && protected > 0
	refKind := "none"
	switch {
	case c.Ref != "" && rowIndex(rows, c.Ref) < 0:
		refKind = "unknown"
	case c.Ref != "":
		refKind = "row"
	}
	o.Class("mask mode=%s", modeKind(c.Replace))
	o.Class("mask nogap=%v noref=%v ref=%s", c.NoGap, c.NoRef, refKind)
	o.Class("mask window=%s", windowKind(l, c.Start, c.Len))
	o.Class("alphabet=%s", c.Ali.Alphabet)
	if c.Ali.Alphabet == "auto" {
		o.Class("alphabet=auto detected as %s", alphaOf(c.Ali))
	}
	if m.Err {
		o.Class("mask:error-expected")
	}
	return
}

func TestMask(t *testing.T) { pbt.Run(t, genMask, checkMask) }

// ---- MaskOccurences / MaskUnique --------------------------------------------------------------------------

type occCase struct {
	Long    longSpec `json:"long"`
	Plan    gen.Plan `json:"plan"`
	Ali     gen.Ali  `json:"ali"`
	Ref     string   `json:"ref"`
	K       int      `json:"k"`
	Replace string   `json:"replace"`
	Unique  bool     `json:"unique"` // call MaskUnique (k = 1) instead of MaskOccurences
}

func genOcc(t *rapid.T) occCase {
	var c occCase
	c.Ali = genAli(t, 6, 15)
	c.Ref = genRef(t, c.Ali)
	n := len(c.Ali.Rows)
	c.K = uni(t, n+2, "k")
	if uni(t, 12, "hugek") == 0 {
		c.K = []int{math.MaxInt, math.MaxInt - 1, math.MinInt, -1}[uni(t, 4, "hk")]
	}
	c.Replace = genMode(t)
	c.Unique = uni(t, 5, "unique") == 0
	if c.Unique {
		c.K = 1
	}
	c.Long = genLong(t, c.Ali, 80)
	if c.Long.Cols == 0 {
		c.Plan = genPlan(t, c.Ali)
	}
	return c
}

func checkOcc(c occCase) (o pbt.Outcome, err error) {
	if c.Long.Cols > 0 {
		c.Ali = expand(c.Ali, c.Long)
		o.Class("occ long alignment (%d00+ columns)", c.Long.Cols/100)
	}
	rows := c.Ali.Rows
	al := build(&o, c.Ali, c.Plan)
	lengthBefore := al.Length()
	m := modelOccurences(&o, c.Ali, c.Ref, c.K, c.Replace)
	var e error
	what := ""
	if c.Unique {
		e = al.MaskUnique(c.Ref, c.Replace)
		what = fmt.Sprintf("MaskUnique(ref=%q, replace=%q)", c.Ref, c.Replace)
	} else {
		e = al.MaskOccurences(c.Ref, c.K, c.Replace)
		what = fmt.Sprintf("MaskOccurences(ref=%q, max=%d, replace=%q)", c.Ref, c.K, c.Replace)
	}
	rewritten, kept, err := judge(m, rows, gen.Snapshot(al), len(rows[0].Seq)+al.Length()-lengthBefore, e, what)
	if err != nil {
		return
	}
	o.NonTrivial = rewritten > 0 && kept > 0
	refKind := "none"
	switch {
	case c.Ref != "" && rowIndex(rows, c.Ref) < 0:
		refKind = "unknown"
	case c.Ref != "":
		refKind = "row"
	}
	o.Class("occ mode=%s", modeKind(c.Replace))
	o.Class("occ ref=%s", refKind)
	switch {
	case c.Unique:
		o.Class("occ MaskUnique")
	case c.K == 0:
		o.Class("occ k=0")
	case c.K >= len(rows):
		o.Class("occ k>=n")
	default:
		o.Class("occ 0<k<n")
	}
	if rewritten > 0 {
		o.Class("occ:some-rewritten")
	} else if !m.Err {
		o.Class("occ:nothing-rewritten")
	}
	return
}

func TestOccurences(t *testing.T) { pbt.Run(t, genOcc, checkOcc) }

// ---- every window, flag, mode and reference of two fixed alignments ------------------------------------------

type enumCase struct {
	Which   int    `json:"which"`
	Ref     string `json:"ref"`
	Start   int    `json:"start"`
	Len     int    `json:"len"`
	Replace string `json:"replace"`
	NoGap   bool   `json:"nogap"`
	NoRef   bool   `json:"noref"`
	K       int    `json:"k"` // >= 0: MaskOccurences with this threshold instead of Mask
}

var enumAlis = []gen.Ali{
	{Alphabet: "nt", Rows: []gen.Row{{Name: "r0", Seq: "AC-GT-"}, {Name: "r1", Seq: "AG-GA-"}, {Name: "r2", Seq: "-CTGCA"}, {Name: "r3", Seq: "TCT-CA"}}},
	{Alphabet: "aa", Rows: []gen.Row{{Name: "r0", Seq: "LK-"}, {Name: "r1", Seq: "LKM"}, {Name: "r2", Seq: "-XM"}}},
}

func TestEnumerate(t *testing.T) {
	reps := []string{"", "AMBIG", "GAP", "MAJ", "?", "XX"}
	pbt.Enumerate(t, "two fixed alignments (4x6 nucleotide, 3x3 protein): Mask for every (start,length) in [-1,L+2]^2 x {no reference, each row, unknown name} x both protection flags x replacement in {'', AMBIG, GAP, MAJ, '?', unknown word}; MaskOccurences for every threshold 0..n+1 x the same references and replacements",
		func(yield func(enumCase) bool) {
			for w, a := range enumAlis {
				l := aliLen(a)
				refs := []string{"", "nosuch"}
				for _, r := range a.Rows {
					refs = append(refs, r.Name)
				}
				for _, ref := range refs {
					for _, rep := range reps {
						for s := -1; s <= l+2; s++ {
							for n := -1; n <= l+2; n++ {
								for f := 0; f < 4; f++ {
									if !yield(enumCase{Which: w, Ref: ref, Start: s, Len: n, Replace: rep, NoGap: f&1 != 0, NoRef: f&2 != 0, K: -1}) {
										return
									}
								}
							}
						}
						for k := 0; k <= len(a.Rows)+1; k++ {
							if !yield(enumCase{Which: w, Ref: ref, Replace: rep, K: k}) {
								return
							}
						}
					}
				}
			}
		},
		func(c enumCase) (o pbt.Outcome, err error) {
			a := enumAlis[c.Which]
			if c.K >= 0 {
				o, err = checkOcc(occCase{Ali: a, Ref: c.Ref, K: c.K, Replace: c.Replace})
			} else {
				o, err = checkMask(maskCase{Ali: a, Ref: c.Ref, Start: c.Start, Len: c.Len, Replace: c.Replace, NoGap: c.NoGap, NoRef: c.NoRef})
			}
			o.Classes = nil
			if c.K >= 0 {
				o.Class("enumerated:MaskOccurences")
			} else {
				o.Class("enumerated:Mask window=%s", windowKind(aliLen(a), c.Start, c.Len))
			}
			o.Key = fmt.Sprintf("%d/%s/%d/%d/%s/%v/%v/%d", c.Which, c.Ref, c.Start, c.Len, c.Replace, c.NoGap, c.NoRef, c.K)
			return
		})
}

var _ align.Alignment // the package is used through gen.MustBuild
