package c15

import (
	"bytes"
	"compress/gzip"
	"fmt"
	"io"
	"os"
	"strings"
	"testing"

	"pgregory.net/rapid"
	"verif/internal/cli"
	"verif/internal/gen"
	"verif/internal/pbt"
)

// ---- command line tier: goalign mask ------------------------------------------------------------------
//
// Flag semantics from docs/commands/mask.md and the flag help: -s/-l window (on the alignment, or on the
// ungapped reference with --ref-seq), --pos list of single positions (replaces -s -l), --unique with
// --at-most (then -s, -l, --no-gaps and --no-ref are ignored), --replace, --no-gaps, --no-ref (only with
// --ref-seq). The same model judges the output; the exit status must be non-zero exactly when the model
// predicts an error.

type cliCase struct {
	Ali        gen.Ali    `json:"ali"`
	Kind       string     `json:"kind"` // window | pos | unique
	UseRef     bool       `json:"use_ref"`
	Ref        string     `json:"ref"`
	Start      int        `json:"start"`
	Len        int        `json:"len"`
	Pos        []int      `json:"pos"`
	SetReplace bool       `json:"set_replace"`
	Replace    string     `json:"replace"`
	NoGap      bool       `json:"nogap"`
	NoRef      bool       `json:"noref"`
	SetAtMost  bool       `json:"set_at_most"`
	AtMost     int        `json:"at_most"`
	Auto       bool       `json:"auto_alphabet"` // let goalign detect the alphabet
	Extra      bool       `json:"extra"`         // --unique together with the flags documented as ignored
	Fasta      cli.Layout `json:"fasta_layout"`  // presentation of the FASTA input
	OutFile    int        `json:"out_file"`      // 0 standard output; -o <file>: 1 a new file, 2 an existing (stale) file
	Omit       bool       `json:"omit_defaults"` // -s 0 / -l 10 are left out (documented defaults)
	More       []gen.Ali  `json:"more"`          // further alignments of the input file (then a Phylip stream, -p)
	Layout     int        `json:"layout"`        // Phylip output layout: 0 default, 1 --one-line, 2 --no-block, 3 both
}

var cliNt = []string{"ACGT--", "AC-", "ACGTN--", "ACacGT--", "ACGUacgu--"}
var cliAa = []string{"ARND--", "AR-", "ARNDCQEGHX---", "LKMFPSTWYV---", "LKMFlkmfqeip---"}

func nonGap(seq string) []int {
	var p []int
	for i := 0; i < len(seq); i++ {
		if seq[i] != '-' {
			p = append(p, i)
		}
	}
	return p
}

func genCLI(t *rapid.T) cliCase {
	var c cliCase
	set := uni(t, len(cliNt), "letters")
	alphabet, chars := "nt", cliNt[set]
	if rapid.Bool().Draw(t, "protein") {
		alphabet, chars = "aa", cliAa[set]
	}
	c.Ali = gen.Columnwise(t, chars, 1, 5, 1, 12, alphabet)
	if uni(t, 40, "longcli") == 0 {
		// the long class (1000-2600 columns), here stored as it is
		c.Ali = expand(c.Ali, genLong(t, c.Ali, 1))
	}
	l := aliLen(c.Ali)
	c.Kind = []string{"window", "window", "pos", "unique"}[uni(t, 4, "kind")]
	c.UseRef = uni(t, 3, "useref") != 0
	c.Ref = c.Ali.Rows[uni(t, len(c.Ali.Rows), "refrow")].Name
	if uni(t, 12, "unknownref") == 0 {
		c.Ref = "nosuch"
	}
	bound := l
	if c.UseRef {
		if i := rowIndex(c.Ali.Rows, c.Ref); i >= 0 {
			bound = len(nonGap(c.Ali.Rows[i].Seq))
		}
	}
	refValid := c.UseRef && bound > 0 && uni(t, 3, "refvalid") != 0
	c.SetReplace = uni(t, 4, "setreplace") != 0
	if c.SetReplace {
		c.Replace = genMode(t)
	} else {
		c.Replace = "AMBIG" // the default of the flag
	}
	c.NoGap = rapid.Bool().Draw(t, "nogap")
	c.NoRef = rapid.Bool().Draw(t, "noref")
	switch c.Kind {
	case "window":
		if refValid {
			// inside the reference, often up to its last residue
			c.Start = rapid.IntRange(0, bound-1).Draw(t, "rs")
			c.Len = rapid.IntRange(1, bound-c.Start).Draw(t, "rn")
			if uni(t, 3, "toend") == 0 {
				c.Len = bound - c.Start
			}
		} else if bound > 0 {
			c.Start, c.Len = genMaskWindow(t, bound)
		} else {
			c.Start, c.Len = rapid.IntRange(-1, 1).Draw(t, "s0"), rapid.IntRange(-1, 2).Draw(t, "n0")
		}
	case "pos":
		k := rapid.IntRange(1, 4).Draw(t, "npos")
		for i := 0; i < k; i++ {
			if bound > 0 && uni(t, 6, "posvalid") != 0 {
				c.Pos = append(c.Pos, rapid.IntRange(0, bound-1).Draw(t, "pos"))
			} else {
				c.Pos = append(c.Pos, rapid.IntRange(-1, bound+1).Draw(t, "posb"))
			}
		}
		if _, maj, _ := replacement(c.Replace, alphabet); maj {
			// a column masked twice would take its second majority from the masked column
			seen := map[int]bool{}
			var d []int
			for _, p := range c.Pos {
				if !seen[p] {
					seen[p] = true
					d = append(d, p)
				}
			}
			c.Pos = d
		}
	case "unique":
		c.SetAtMost = uni(t, 3, "setatmost") != 0
		c.AtMost = 1
		if c.SetAtMost {
			c.AtMost = uni(t, len(c.Ali.Rows)+2, "atmost")
		}
		c.Extra = uni(t, 3, "extra") == 0
		if c.Extra {
			c.Start, c.Len = rapid.IntRange(0, l).Draw(t, "xs"), rapid.IntRange(0, 3).Draw(t, "xn")
		}
	}
	// automatic detection is predictable when the letters decide: nucleotide sets always, protein sets only
	// with a letter (in either case) that is no nucleotide code
	decides := decided(c.Ali.Rows, alphabet)
	c.Auto = decides && rapid.Bool().Draw(t, "auto")
	// several alignments in one (Phylip) input file: the command loops over them
	if uni(t, 3, "multi") == 0 {
		n := 1 + uni(t, 2, "nmore")
		for i := 0; i < n; i++ {
			rowsN := len(c.Ali.Rows)
			if rowsN > 1 && uni(t, 8, "fewer") == 0 {
				rowsN--
			}
			c.More = append(c.More, gen.Columnwise(t, chars, rowsN, rowsN, 1, 12, alphabet))
		}
		c.Layout = uni(t, 4, "layout")
		c.Auto = false
	}
	if uni(t, 3, "fastalayout") == 0 {
		c.Fasta = cli.DrawLayout(t)
	}
	if c.Kind == "window" && uni(t, 4, "omit") == 0 {
		c.Omit = true
		if uni(t, 2, "deflen") == 0 {
			c.Len = 10
		}
		if uni(t, 2, "defstart") == 0 {
			c.Start = 0
		}
	}
	if uni(t, 3, "outfile") == 0 {
		c.OutFile = 1 + uni(t, 3, "stale") // 1 new file, 2 existing file, 3 new compressed file (.gz)
	}
	return c
}

func checkCLI(dir string, c cliCase) (o pbt.Outcome, err error) {
	rows := c.Ali.Rows
	multi := len(c.More) > 0
	in := ""
	if multi {
		all := [][]gen.Row{rows}
		for _, a := range c.More {
			all = append(all, a.Rows)
		}
		in = cli.TempFile(dir, ".phy", cli.Phylip(all...))
	} else {
		in = cli.TempFile(dir, ".fa", cli.FastaLayout(rows, c.Fasta))
		if !c.Fasta.Plain() {
			o.Class("cli input:fasta-other-layout")
		}
	}
	defer os.Remove(in)
	args := []string{"mask", "-i", in}
	if multi {
		args = append(args, "-p")
		switch c.Layout {
		case 1:
			args = append(args, "--one-line")
		case 2:
			args = append(args, "--no-block")
		case 3:
			args = append(args, "--one-line", "--no-block")
		}
	}
	if !c.Auto {
		args = append(args, "--alphabet", c.Ali.Alphabet)
	}
	if c.UseRef {
		args = append(args, "--ref-seq", c.Ref)
	}
	if c.SetReplace {
		args = append(args, "--replace="+c.Replace)
	}
	if c.NoGap {
		args = append(args, "--no-gaps")
	}
	if c.NoRef {
		args = append(args, "--no-ref")
	}
	switch c.Kind {
	case "window":
		if !(c.Omit && c.Start == 0) {
			args = append(args, "-s", fmt.Sprint(c.Start))
		}
		if !(c.Omit && c.Len == 10) {
			args = append(args, "-l", fmt.Sprint(c.Len))
		}
		if c.Omit && (c.Start == 0 || c.Len == 10) {
			o.Class("cli window:default of -s / -l left out")
		}
	case "pos":
		args = append(args, "--pos", strings.Join(itoas(c.Pos), ","))
	case "unique":
		args = append(args, "--unique")
		if c.SetAtMost {
			args = append(args, "--at-most", fmt.Sprint(c.AtMost))
		}
		if c.Extra {
			args = append(args, "-s", fmt.Sprint(c.Start), "-l", fmt.Sprint(c.Len))
		}
	}
	o.Class("cli kind=%s ref=%v", c.Kind, c.UseRef)
	if aliLen(c.Ali) >= 1000 {
		o.Class("cli long alignment kind=%s ref=%v", c.Kind, c.UseRef)
	}
	o.Class("cli mode=%s", modeKind(c.Replace))
	_, _, modeOK := replacement(c.Replace, alphaOf(c.Ali))
	// plan: the model's prediction for one alignment of the input
	plan := func(o *pbt.Outcome, a gen.Ali) (m maskModel) {
		rows, l := a.Rows, aliLen(a)
		refName := ""
		ref := -1
		if c.UseRef {
			refName = c.Ref
			ref = rowIndex(rows, c.Ref)
		}
		switch c.Kind {
		case "window":
			if !c.UseRef {
				m = modelMask(o, a, "", c.Start, c.Len, c.Replace, c.NoGap, c.NoRef)
				o.Class("cli window=%s", windowKind(l, c.Start, c.Len))
				break
			}
			var p []int
			if ref >= 0 {
				p = nonGap(rows[ref].Seq)
			}
			switch {
			case ref < 0 || c.Start < 0 || c.Len < 0 || c.Len > len(p)-c.Start || !modeOK:
				m = maskModel{Err: true}
				o.Class("cli refwindow:refused")
			case c.Len == 0:
				// nothing requested on the reference: refused or nothing masked
				o.Ambiguous++
				m = maskModel{ErrOK: true, Cols: map[int]colRule{}}
				o.Class("cli refwindow:empty")
			default:
				ws, wn := p[c.Start], p[c.Start+c.Len-1]-p[c.Start]+1
				m = modelMask(o, a, refName, ws, wn, c.Replace, c.NoGap, c.NoRef)
				if wn > c.Len {
					o.Class("cli refwindow:valid-gap-of-reference-inside")
				} else {
					o.Class("cli refwindow:valid")
				}
			}
		case "pos":
			var p []int
			if ref >= 0 {
				p = nonGap(rows[ref].Seq)
			}
			var cols []int
			m = maskModel{}
			for _, q := range c.Pos {
				switch {
				case !modeOK, c.UseRef && (ref < 0 || q < 0 || q >= len(p)), !c.UseRef && (q < 0 || q > l):
					m.Err = true
				case !c.UseRef && q == l:
					m.ErrOK = true
					o.Ambiguous++
				case c.UseRef:
					cols = append(cols, p[q])
				default:
					cols = append(cols, q)
				}
			}
			if !m.Err {
				m.Cols = maskColumns(o, rows, alphaOf(a), ref, cols, c.Replace, c.NoGap, c.NoRef)
			}
			if !m.Err && c.UseRef && !c.NoRef && len(c.Pos) > 1 {
				// an earlier position turns the reference residue into a gap and a later position is not smaller:
				// every position must still be read on the reference as given (defect repaired by 4edb852)
				shifted := false
				for i, q := range c.Pos {
					if !strings.Contains(m.Cols[p[q]].Reps, "-") {
						continue
					}
					for _, q2 := range c.Pos[i+1:] {
						shifted = shifted || q <= q2
					}
				}
				if shifted {
					o.Class("cli pos:reference-residue-gapped-before-a-later-position")
				}
			}
			if len(c.Pos) > 1 {
				o.Class("cli pos:several")
			} else {
				o.Class("cli pos:one")
			}
		case "unique":
			m = modelOccurences(o, a, refName, c.AtMost, c.Replace)
			if c.Extra {
				o.Class("cli unique:with-ignored-flags")
			}
		}
		return
	}
	if c.Kind == "window" && sumOverflows(c.Start, c.Len) {
		o.Class("cli window:start+length-overflows ref=%v", c.UseRef)
	}
	inputs := []gen.Ali{c.Ali}
	models := []maskModel{plan(&o, c.Ali)}
	for _, a := range c.More {
		// `goalign mask` loops over the alignments of the stream: each one is judged with ITS model
		var o2 pbt.Outcome
		models = append(models, plan(&o2, a))
		inputs = append(inputs, a)
		o.Ambiguous += o2.Ambiguous
	}
	outPath := ""
	if c.OutFile > 0 {
		// the output goes to a new file, or to a file that exists already (its stale content must be replaced)
		outPath = cli.TempFile(dir, ".out", "")
		os.Remove(outPath)
		switch c.OutFile {
		case 2:
			cli.StaleFile(outPath, 40)
			o.Class("cli output:-o existing file")
		case 3:
			outPath += ".gz"
			o.Class("cli output:-o compressed file (.gz)")
		default:
			o.Class("cli output:-o new file")
		}
		args = append(args, "-o", outPath)
		defer os.Remove(outPath)
	}
	r := cli.Run("", args...)
	what := fmt.Sprintf("goalign %s", strings.Join(args, " "))
	if outPath != "" && r.Exit == 0 {
		b, e := os.ReadFile(outPath)
		if e == nil && strings.HasSuffix(outPath, ".gz") {
			var zr *gzip.Reader
			if zr, e = gzip.NewReader(bytes.NewReader(b)); e == nil {
				b, e = io.ReadAll(zr)
			}
		}
		if e != nil {
			return o, fmt.Errorf("%s: the output file was not written (or is not a complete gzip stream): %v", what, e)
		}
		if strings.TrimSpace(r.Stdout) != "" {
			return o, fmt.Errorf("%s: output requested in a file, but standard output holds\n%s", what, firstLines(r.Stdout, 6))
		}
		r.Stdout = string(b)
	}
	showIn := gen.Show(rows)
	for _, a := range c.More {
		showIn += "| " + gen.Show(a.Rows)
	}
	if r.TimedOut {
		return o, fmt.Errorf("%s (input %s) did not return", what, showIn)
	}
	if strings.Contains(r.Stderr, "panic:") || strings.Contains(r.Stderr, "goroutine 1 [") {
		return o, fmt.Errorf("%s (input %s) crashed:\n%s", what, showIn, firstLines(r.Stderr, 10))
	}
	mustFail, mayFail := false, false
	for _, m := range models {
		mustFail = mustFail || m.Err
		mayFail = mayFail || m.ErrOK
	}
	rewritten, kept := 0, 0
	switch {
	case r.Exit != 0:
		if !mustFail && !mayFail {
			return o, fmt.Errorf("%s (input %s) refused valid arguments: exit status %d: %s", what, showIn, r.Exit, firstLines(r.Stderr, 2))
		}
	case mustFail:
		return o, fmt.Errorf("%s (input %s): the arguments are invalid for (one of) the alignment(s) but the status is 0; output:\n%s", what, showIn, firstLines(r.Stdout, 12))
	default:
		var stream [][]gen.Row
		if multi {
			if stream, err = cli.ParsePhylipStream(r.Stdout); err != nil {
				return o, fmt.Errorf("%s: unreadable Phylip output: %v", what, err)
			}
		} else {
			one, e := cli.ParseFasta(r.Stdout)
			if e != nil {
				return o, fmt.Errorf("%s: unreadable output: %v", what, e)
			}
			stream = [][]gen.Row{one}
		}
		if len(stream) != len(inputs) {
			return o, fmt.Errorf("%s (input %s): %d alignments in, %d out", what, showIn, len(inputs), len(stream))
		}
		for k, after := range stream {
			la := 0
			if len(after) > 0 {
				la = len(after[0].Seq)
			}
			rw, kp, e := judge(models[k], inputs[k].Rows, after, la, nil, fmt.Sprintf("%s, alignment %d of the input", what, k))
			if e != nil {
				return o, e
			}
			rewritten += rw
			kept += kp
		}
	}
	o.NonTrivial = rewritten > 0 && kept > 0
	if mustFail {
		o.Class("cli:error-expected")
	} else if rewritten > 0 {
		o.Class("cli:some-rewritten")
	} else {
		o.Class("cli:nothing-rewritten")
	}
	if multi {
		switch {
		case models[0].Err:
			o.Class("cli multi:refused-for-the-first-alignment")
		case mustFail:
			o.Class("cli multi:refused-for-a-later-alignment")
		default:
			o.Class("cli multi:valid-for-every-alignment")
		}
	}
	if c.Auto {
		o.Class("cli alphabet=auto")
	} else {
		o.Class("cli alphabet=%s", c.Ali.Alphabet)
	}
	return
}

func itoas(v []int) []string {
	out := make([]string, len(v))
	for i, x := range v {
		out[i] = fmt.Sprint(x)
	}
	return out
}

func firstLines(s string, n int) string {
	l := strings.Split(s, "\n")
	if len(l) > n {
		l = l[:n]
	}
	return strings.Join(l, "\n")
}

func TestCLI(t *testing.T) {
	if cli.Binary() == "" {
		t.Skip("no goalign binary")
	}
	dir := cli.TempDir("c15cli")
	pbt.Run(t, genCLI, func(c cliCase) (pbt.Outcome, error) { return checkCLI(dir, c) })
}
