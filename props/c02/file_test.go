package c02

import (
	"bytes"
	"compress/gzip"
	"fmt"
	"io"
	"os"
	"path/filepath"
	"sync/atomic"
	"testing"

	"github.com/evolbioinfo/goalign/align"
	"github.com/evolbioinfo/goalign/io/utils"
	"github.com/ulikunitz/xz"
	"pgregory.net/rapid"
	"verif/internal/cli"
	"verif/internal/gen"
	"verif/internal/pbt"
)

// decompress is the independent reading of the file layer: Go's gzip and the xz package,
// chosen from the extension
func decompress(raw []byte, ext string) ([]byte, error) {
	switch ext {
	case ".gz":
		r, err := gzip.NewReader(bytes.NewReader(raw))
		if err != nil {
			return nil, err
		}
		return io.ReadAll(r)
	case ".xz":
		r, err := xz.NewReader(bytes.NewReader(raw))
		if err != nil {
			return nil, err
		}
		return io.ReadAll(r)
	}
	return raw, nil
}

func compress(text string, ext string) []byte {
	var b bytes.Buffer
	switch ext {
	case ".gz":
		w := gzip.NewWriter(&b)
		w.Write([]byte(text))
		w.Close()
	case ".xz":
		w, err := xz.NewWriter(&b)
		if err != nil {
			panic(err)
		}
		w.Write([]byte(text))
		w.Close()
	default:
		b.WriteString(text)
	}
	return b.Bytes()
}

var exts = []string{"", ".gz", ".xz"}

type fileCase struct {
	Ali      gen.Ali `json:"ali"`
	Cfg      cfg     `json:"cfg"`
	Ext      string  `json:"ext"`
	Pieces   int     `json:"pieces"`    // the text is handed to the writer in this many pieces
	UseWrite bool    `json:"use_write"` // Write([]byte) instead of WriteString
	CloseVia bool    `json:"close_via"` // utils.CloseWriteFile instead of Close
}

var fileSeq int64
var fileDir string

func genFile(t *rapid.T) fileCase {
	var c fileCase
	c.Cfg = genCfg(t, "cfg")
	c.Ext = rapid.SampledFrom(exts).Draw(t, "ext")
	max := maxLen()
	if rapid.IntRange(0, 7).Draw(t, "large") == 0 {
		max = 1000 // more than the 4096 bytes of the buffered writer
	}
	c.Ali = genAli(t, domOf(c.Cfg), max, c.Cfg)
	c.Pieces = rapid.IntRange(1, 3).Draw(t, "pieces")
	c.UseWrite = rapid.Bool().Draw(t, "write")
	c.CloseVia = rapid.Bool().Draw(t, "closevia")
	return c
}

func checkFile(c fileCase) (o pbt.Outcome, err error) {
	if !c.Cfg.valid() || !inDomain(c.Ali, domOf(c.Cfg)) || (c.Ext != "" && c.Ext != ".gz" && c.Ext != ".xz") || c.Pieces < 1 || c.Pieces > 8 {
		o.Skip = true
		return o, nil
	}
	al, want, err := buildModel(c.Ali)
	if err != nil {
		return o, err
	}
	text := writeText(al, c.Cfg)
	path := filepath.Join(fileDir, fmt.Sprintf("a%d.%s%s", atomic.AddInt64(&fileSeq, 1), c.Cfg.Format, c.Ext))
	defer os.Remove(path)
	f, e := utils.OpenWriteFile(path)
	if e != nil {
		return o, fmt.Errorf("OpenWriteFile(%q): %v", filepath.Base(path), e)
	}
	for i := 0; i < c.Pieces; i++ {
		part := text[i*len(text)/c.Pieces : (i+1)*len(text)/c.Pieces]
		var n int
		if c.UseWrite {
			n, e = f.Write([]byte(part))
		} else {
			n, e = f.WriteString(part)
		}
		if e != nil || n != len(part) {
			return o, fmt.Errorf("writing %d bytes to %q: n=%d, error %v", len(part), filepath.Base(path), n, e)
		}
	}
	if c.CloseVia {
		utils.CloseWriteFile(f, path)
	} else if e = f.Close(); e != nil {
		return o, fmt.Errorf("closing %q: %v", filepath.Base(path), e)
	}
	// the file holds exactly the text, in the container its extension announces
	raw, e := os.ReadFile(path)
	if e != nil {
		return o, fmt.Errorf("harness: %v", e)
	}
	back, e := decompress(raw, c.Ext)
	if e != nil {
		return o, fmt.Errorf("the %q file written through OpenWriteFile is not readable by an independent %s reader: %v (%d bytes on disk for %d bytes of text)", c.Ext, c.Ext, e, len(raw), len(text))
	}
	if string(back) != text {
		return o, fmt.Errorf("the file written through OpenWriteFile (%q) holds %d bytes instead of the %d written; first difference at byte %d", c.Ext, len(back), len(text), firstDiff(string(back), text))
	}
	// and it is read back to the same alignment
	var got align.Alignment
	viaReadAlign := c.Cfg.Format != "stockholm" && !c.Cfg.Strict
	if viaReadAlign {
		got, e = utils.ReadAlign(path, formatCode(c.Cfg.Format), align.BOTH)
		if e == nil && got == nil {
			e = fmt.Errorf("no alignment")
		}
	} else {
		closer, r, e2 := utils.GetReader(path)
		if e2 != nil {
			return o, fmt.Errorf("GetReader(%q): %v", filepath.Base(path), e2)
		}
		got, e = parseFrom(r, c.Cfg)
		closer.Close()
	}
	if e != nil {
		return o, fmt.Errorf("%s file with extension %q: reading it back fails: %v\ntext: %s", c.Cfg, c.Ext, e, excerpt(text))
	}
	if e = same(got, want); e != nil {
		return o, fmt.Errorf("%s file with extension %q: %v\ntext: %s", c.Cfg, c.Ext, e, excerpt(text))
	}
	nt := classify(&o, "", c.Cfg, c.Ali)
	ext := c.Ext
	if ext == "" {
		ext = "plain"
	}
	o.Class("file:%s", ext)
	o.Class("file:%s %s", ext, c.Cfg.Format)
	if len(text) > 4096 {
		o.Class("file:%s text > 4096 bytes", ext)
	} else {
		o.Class("file:%s text <= 4096 bytes", ext)
	}
	if viaReadAlign {
		o.Class("read through ReadAlign")
	} else {
		o.Class("read through GetReader + parser")
	}
	o.NonTrivial = nt
	return o, nil
}

func TestFileLayer(t *testing.T) {
	fileDir = cli.TempDir("c02file")
	defer os.RemoveAll(fileDir)
	pbt.Run(t, genFile, checkFile)
}

// input side alone: a file compressed by the harness is read through GetReader
type readCase struct {
	Ali gen.Ali `json:"ali"`
	Cfg cfg     `json:"cfg"`
	Ext string  `json:"ext"`
}

func TestCompressedInput(t *testing.T) {
	dir := cli.TempDir("c02in")
	defer os.RemoveAll(dir)
	pbt.Run(t, func(t *rapid.T) readCase {
		var c readCase
		c.Cfg = genCfg(t, "cfg")
		c.Ext = rapid.SampledFrom(exts).Draw(t, "ext")
		c.Ali = genAli(t, domOf(c.Cfg), maxLen(), c.Cfg)
		return c
	}, func(c readCase) (o pbt.Outcome, err error) {
		if !c.Cfg.valid() || !inDomain(c.Ali, domOf(c.Cfg)) || (c.Ext != "" && c.Ext != ".gz" && c.Ext != ".xz") {
			o.Skip = true
			return o, nil
		}
		al, want, err := buildModel(c.Ali)
		if err != nil {
			return o, err
		}
		text := writeText(al, c.Cfg)
		path := filepath.Join(dir, fmt.Sprintf("r%d.%s%s", atomic.AddInt64(&fileSeq, 1), c.Cfg.Format, c.Ext))
		defer os.Remove(path)
		if e := os.WriteFile(path, compress(text, c.Ext), 0o644); e != nil {
			return o, fmt.Errorf("harness: %v", e)
		}
		closer, r, e := utils.GetReader(path)
		if e != nil {
			return o, fmt.Errorf("GetReader(%q): %v", filepath.Base(path), e)
		}
		got, e := parseFrom(r, c.Cfg)
		closer.Close()
		if e != nil {
			return o, fmt.Errorf("%s file compressed as %q by an independent writer: reading fails: %v", c.Cfg, c.Ext, e)
		}
		if e = same(got, want); e != nil {
			return o, fmt.Errorf("%s file compressed as %q by an independent writer: %v", c.Cfg, c.Ext, e)
		}
		o.NonTrivial = classify(&o, "", c.Cfg, c.Ali)
		o.Class("input ext=%q", c.Ext)
		return o, nil
	})
}
