package c02

import (
	"bytes"
	"compress/gzip"
	"fmt"
	"io"
	"os"
	"path/filepath"
	"sort"
	"strings"
	"sync/atomic"
	"testing"

	"github.com/evolbioinfo/goalign/align"
	"github.com/evolbioinfo/goalign/io/phylip"
	"github.com/evolbioinfo/goalign/io/utils"
	"github.com/ulikunitz/xz"
	"pgregory.net/rapid"
	"verif/internal/cli"
	"verif/internal/gen"
	"verif/internal/pbt"
)

// ---- file names and containers --------------------------------------------------------------------

// The documentation says: "If the given output file has a .gz or .xz extension, the output is
// compressed accordingly", and the same two extensions (lower case) for input. For these, and for
// names without anything resembling them, the container on disk is fixed (gzip, xz, plain). For
// look-alikes (.GZ, .Gz, .XZ, .gzip, x.gz.txt ...) the documentation is silent: the file may be
// plain or compressed (counted as ambiguous, the container is recognised from its magic bytes), but
// writer and reader must agree - the file written under a name is read back under that name.
var exactExts = []string{"", ".gz", ".xz"}

var lookAlikes = []string{".GZ", ".Gz", ".gZ", ".XZ", ".Xz", ".xZ", ".gzip", ".GZIP", ".gz.txt", ".xz.fa", ".GZ.TXT", ".gz_", ".xz~", "gz", "xz", ".z", ".Z", ".zip", ".tgz", ".g.z", ".x.z"}

// exts: two names in three carry a documented extension (or none), one in three a look-alike
var exts = func() []string {
	l := []string{}
	for i := 0; i < 14; i++ {
		l = append(l, exactExts[i%3])
	}
	return append(l, lookAlikes...)
}()

// container: "plain", "gz", "xz" where the documentation fixes it, "" where it does not
func container(ext string) string {
	switch {
	case strings.HasSuffix(ext, ".gz"):
		return "gz"
	case strings.HasSuffix(ext, ".xz"):
		return "xz"
	case ext == "":
		return "plain"
	}
	return ""
}

func validExt(e string) bool {
	if len(e) > 12 || strings.ContainsAny(e, "/\\ \t\n\x00") {
		return false
	}
	// .bz / .bz2 have a reader and no writer in goalign: no round trip is stated for them
	l := strings.ToLower(e)
	return !strings.HasSuffix(l, ".bz") && !strings.HasSuffix(l, ".bz2")
}

// extName: class label of an extension
func extName(e string) string {
	switch {
	case e == "":
		return "plain"
	case container(e) == "":
		return "look-alike"
	}
	return e
}

func gunzip(raw []byte) ([]byte, error) {
	r, err := gzip.NewReader(bytes.NewReader(raw))
	if err != nil {
		return nil, err
	}
	return io.ReadAll(r)
}

func unxz(raw []byte) ([]byte, error) {
	r, err := xz.NewReader(bytes.NewReader(raw))
	if err != nil {
		return nil, err
	}
	return io.ReadAll(r)
}

// decompress is the independent reading of the file layer: Go's gzip and the xz package, chosen
// from the extension where the documentation fixes the container, from the magic bytes otherwise
// (ambiguous = true)
func decompress(raw []byte, ext string) (text []byte, ambiguous bool, err error) {
	switch container(ext) {
	case "gz":
		text, err = gunzip(raw)
		return text, false, err
	case "xz":
		text, err = unxz(raw)
		return text, false, err
	case "plain":
		return raw, false, nil
	}
	switch {
	case bytes.HasPrefix(raw, []byte{0x1f, 0x8b}):
		text, err = gunzip(raw)
	case bytes.HasPrefix(raw, []byte{0xfd, '7', 'z', 'X', 'Z', 0}):
		text, err = unxz(raw)
	default:
		text = raw
	}
	return text, true, err
}

// compress writes the container the documentation fixes for the extension (plain for look-alikes)
func compress(text string, ext string) []byte {
	var b bytes.Buffer
	switch container(ext) {
	case "gz":
		w := gzip.NewWriter(&b)
		w.Write([]byte(text))
		w.Close()
	case "xz":
		w, err := xz.NewWriter(&b)
		if err != nil {
			panic(err)
		}
		w.Write([]byte(text))
		w.Close()
	default:
		b.WriteString(text)
	}
	return b.Bytes()
}

// fileName: base names in lower, upper and mixed case, then the format and the extension
func fileName(prefix string, n int64, format, ext string, style int) string {
	base := fmt.Sprintf("%s%d.%s", prefix, n, format)
	switch style {
	case 1:
		base = strings.ToUpper(base)
	case 2:
		base = strings.ToUpper(base[:1]) + base[1:]
	}
	return base + ext
}

// ---- how a text is handed to the writer ----------------------------------------------------------

// writePlan: the text is cut at the given positions (per mille of its length) and the pieces are
// given in turn to WriteString or Write([]byte)
type writePlan struct {
	Cuts     []int  `json:"cuts,omitempty"`
	UseWrite []bool `json:"use_write,omitempty"` // piece i uses Write([]byte) if UseWrite[i % len]
	CloseVia bool   `json:"close_via,omitempty"` // utils.CloseWriteFile instead of Close
	// Prior: the path already exists and holds a longer content when the case's content is written:
	// 1 = written before through utils.OpenWriteFile (the case's text plus more), 2 = a plain file
	// put there by the harness (same bytes, not compressed whatever the extension)
	Prior int `json:"prior,omitempty"`
}

func genPlan(t *rapid.T) writePlan {
	var p writePlan
	n := rapid.IntRange(0, 4).Draw(t, "ncuts")
	for i := 0; i < n; i++ {
		// IntRange is biased to its ends: many tiny first pieces and tiny last pieces
		p.Cuts = append(p.Cuts, rapid.IntRange(0, 1000).Draw(t, "cut"))
	}
	m := rapid.IntRange(1, 3).Draw(t, "nmodes")
	for i := 0; i < m; i++ {
		p.UseWrite = append(p.UseWrite, rapid.Bool().Draw(t, "write"))
	}
	p.CloseVia = rapid.Bool().Draw(t, "closevia")
	p.Prior = rapid.SampledFrom([]int{0, 0, 0, 0, 0, 0, 1, 2}).Draw(t, "prior")
	return p
}

func (p writePlan) valid() bool {
	if len(p.Cuts) > 16 || p.Prior < 0 || p.Prior > 2 {
		return false
	}
	for _, c := range p.Cuts {
		if c < 0 || c > 1000 {
			return false
		}
	}
	return true
}

// pieces cuts a list of texts further at the plan's positions (relative to the whole)
func (p writePlan) pieces(texts []string) []string {
	total := 0
	for _, s := range texts {
		total += len(s)
	}
	var cuts []int
	for _, c := range p.Cuts {
		cuts = append(cuts, int(int64(c)*int64(total)/1000))
	}
	sort.Ints(cuts)
	var out []string
	off := 0
	for _, s := range texts {
		start := 0
		for _, c := range cuts {
			if c > off+start && c < off+len(s) {
				out = append(out, s[start:c-off])
				start = c - off
			}
		}
		out = append(out, s[start:])
		off += len(s)
	}
	return out
}

// writeOnce hands the pieces to a writer opened by utils.OpenWriteFile and closes it
func writeOnce(path string, pieces []string, p writePlan) error {
	f, e := utils.OpenWriteFile(path)
	if e != nil {
		return fmt.Errorf("OpenWriteFile(%q): %v", filepath.Base(path), e)
	}
	for i, part := range pieces {
		var n int
		if len(p.UseWrite) > 0 && p.UseWrite[i%len(p.UseWrite)] {
			n, e = f.Write([]byte(part))
		} else {
			n, e = f.WriteString(part)
		}
		if e != nil || n != len(part) {
			return fmt.Errorf("writing piece %d (%d bytes) to %q: n=%d, error %v", i, len(part), filepath.Base(path), n, e)
		}
	}
	if p.CloseVia {
		utils.CloseWriteFile(f, path)
	} else if e = f.Close(); e != nil {
		return fmt.Errorf("closing %q: %v", filepath.Base(path), e)
	}
	return nil
}

// priorContent: something longer than the text, made from it (the text, the text again in
// reverse line order, and a line of padding)
func priorContent(text string) string {
	lines := strings.Split(text, "\n")
	var sb strings.Builder
	sb.WriteString(text)
	for i := len(lines) - 1; i >= 0; i-- {
		sb.WriteString(lines[i])
		sb.WriteString("\n")
	}
	sb.WriteString(">previous content of this file, 64 bytes of padding ............\n")
	return sb.String()
}

// writeFile writes the pieces through utils.OpenWriteFile - over an existing longer file if the
// plan says so - and checks, with an independent reader, that the file holds exactly their
// concatenation in the container its name announces, and nothing else
func writeFile(path, ext string, pieces []string, p writePlan) (priorLonger, ambiguous bool, err error) {
	text := strings.Join(pieces, "")
	sizes := make([]int, len(pieces))
	for i := range pieces {
		sizes[i] = len(pieces[i])
	}
	priorSize := int64(-1)
	switch p.Prior {
	case 1:
		if err = writeOnce(path, []string{priorContent(text)}, writePlan{}); err != nil {
			return false, false, err
		}
	case 2:
		if e := os.WriteFile(path, []byte(priorContent(text)), 0o644); e != nil {
			return false, false, fmt.Errorf("harness: %v", e)
		}
	}
	if p.Prior != 0 {
		if st, e := os.Stat(path); e == nil {
			priorSize = st.Size()
		}
	}
	if err = writeOnce(path, pieces, p); err != nil {
		return false, false, err
	}
	raw, e := os.ReadFile(path)
	if e != nil {
		return false, false, fmt.Errorf("harness: %v", e)
	}
	if p.Prior != 0 {
		// the file must be what a write to a fresh path gives
		fresh := filepath.Join(filepath.Dir(path), "fresh-"+filepath.Base(path))
		defer os.Remove(fresh)
		if err = writeOnce(fresh, pieces, p); err != nil {
			return false, false, err
		}
		rawFresh, e := os.ReadFile(fresh)
		if e != nil {
			return false, false, fmt.Errorf("harness: %v", e)
		}
		priorLonger = priorSize > int64(len(rawFresh))
		if !bytes.Equal(raw, rawFresh) {
			return priorLonger, false, fmt.Errorf("writing %d bytes of text through OpenWriteFile to an existing %q file of %d bytes leaves %d bytes on disk; the same writes to a fresh path give %d bytes (first difference at byte %d): the previous content is not replaced",
				len(text), extName(ext), priorSize, len(raw), len(rawFresh), firstDiff(string(raw), string(rawFresh)))
		}
	}
	back, ambiguous, e := decompress(raw, ext)
	if e != nil {
		return priorLonger, false, fmt.Errorf("the %q file written through OpenWriteFile is not readable by an independent %s reader: %v (%d bytes on disk for %d bytes of text, written in pieces of %v bytes)", ext, ext, e, len(raw), len(text), sizes)
	}
	if string(back) != text {
		return priorLonger, false, fmt.Errorf("the file written through OpenWriteFile (%q) in pieces of %v bytes holds %d bytes instead of the %d written; first difference at byte %d", ext, sizes, len(back), len(text), firstDiff(string(back), text))
	}
	return priorLonger, ambiguous, nil
}

func classifyPlan(o *pbt.Outcome, pieces []string, ext string, p writePlan, priorLonger bool) {
	switch {
	case p.Prior == 0:
		o.Class("file:%s fresh path", extName(ext))
	case priorLonger:
		o.Class("file:%s written over an existing longer file (kind %d)", extName(ext), p.Prior)
	default:
		o.Class("file:%s written over an existing file that is not longer", extName(ext))
	}
	// a small piece still pending in the 4096-byte buffer followed by one that does not fit
	pending := 0
	mixed := false
	for _, s := range pieces {
		if pending > 0 && len(s) > 4096-pending {
			mixed = true
		}
		pending = (pending + len(s)) % 4096
	}
	if mixed {
		o.Class("file:%s a write larger than the free buffer space after a smaller one", extName(ext))
	}
	o.Class("file:%s pieces=%d", extName(ext), len(pieces))
}

func textClass(n int) string {
	switch {
	case n > 65536:
		return "text > 64 KiB"
	case n > 32768:
		return "text > 32 KiB"
	case n > 8192:
		return "text > 8 KiB"
	case n > 4096:
		return "text > 4 KiB"
	}
	return "text <= 4 KiB"
}

// ---- one alignment per file, every format ----------------------------------------------------------

type fileCase struct {
	Ali    gen.Ali   `json:"ali"`
	Shape  shape     `json:"shape"`
	Cfg    cfg       `json:"cfg"`
	Ext    string    `json:"ext"`
	Plan   writePlan `json:"plan"`
	// NameStyle: base name of the file in lower (0), upper (1) or mixed (2) case
	NameStyle int `json:"name_style,omitempty"`
}

var fileSeq int64
var fileDir string

func genFile(t *rapid.T) fileCase {
	var c fileCase
	c.Cfg = genCfg(t, "cfg")
	c.Ext = rapid.SampledFrom(exts).Draw(t, "ext")
	c.Ali, c.Shape = genSized(t, domOf(c.Cfg), rapid.SampledFrom(singleSizes).Draw(t, "size"), c.Cfg)
	c.Plan = genPlan(t)
	c.NameStyle = rapid.IntRange(0, 2).Draw(t, "namestyle")
	return c
}

func checkFile(c fileCase) (o pbt.Outcome, err error) {
	if !c.Cfg.valid() || !inDomain(c.Ali, domOf(c.Cfg)) || !validExt(c.Ext) || !c.Plan.valid() || !c.Shape.valid() {
		o.Skip = true
		return o, nil
	}
	full := expand(c.Ali, c.Shape, domOf(c.Cfg))
	al, want, err := buildModel(full)
	if err != nil {
		return o, err
	}
	text := writeText(al, c.Cfg)
	path := filepath.Join(fileDir, fileName("a", atomic.AddInt64(&fileSeq, 1), c.Cfg.Format, c.Ext, c.NameStyle))
	defer os.Remove(path)
	pieces := c.Plan.pieces([]string{text})
	priorLonger, ambiguous, err := writeFile(path, c.Ext, pieces, c.Plan)
	if err != nil {
		return o, err
	}
	if ambiguous {
		o.Ambiguous++
		o.Class("file name with a look-alike extension: writer and reader must agree")
	}
	// and it is read back to the same alignment
	var got align.Alignment
	var e error
	viaReadAlign := c.Cfg.Format != "stockholm" && !c.Cfg.Strict
	if viaReadAlign {
		got, e = utils.ReadAlign(path, formatCode(c.Cfg.Format), align.BOTH)
		if e == nil && got == nil {
			e = fmt.Errorf("no alignment")
		}
	} else {
		closer, r, e2 := utils.GetReader(path)
		if e2 != nil {
			return o, fmt.Errorf("GetReader(%q): %v", filepath.Base(path), e2)
		}
		got, e = parseFrom(r, c.Cfg)
		closer.Close()
	}
	if e != nil {
		return o, fmt.Errorf("%s file with extension %q: reading it back fails: %v\ntext: %s", c.Cfg, c.Ext, e, excerpt(text))
	}
	if e = same(got, want); e != nil {
		return o, fmt.Errorf("%s file with extension %q: %v\ntext: %s", c.Cfg, c.Ext, e, excerpt(text))
	}
	nt := classify(&o, "", c.Cfg, full)
	o.Class("file:%s", extName(c.Ext))
	o.Class("file:%s %s", extName(c.Ext), c.Cfg.Format)
	o.Class("file:%s %s", extName(c.Ext), textClass(len(text)))
	o.Class("%s %s", c.Cfg.Format, textClass(len(text)))
	classifyPlan(&o, pieces, c.Ext, c.Plan, priorLonger)
	if viaReadAlign {
		o.Class("read through ReadAlign")
	} else {
		o.Class("read through GetReader + parser")
	}
	o.NonTrivial = nt
	return o, nil
}

func TestFileLayer(t *testing.T) {
	fileDir = cli.TempDir("c02file")
	defer os.RemoveAll(fileDir)
	pbt.Run(t, genFile, checkFile)
}

// ---- lists of alignments in one file: multi-Phylip streams of mixed sizes ---------------------

type fstreamCase struct {
	Alis   []gen.Ali `json:"alis"`
	Shapes []shape   `json:"shapes"`
	Opts   []phyOpt  `json:"opts"`
	Strict bool      `json:"strict"`
	Ext    string    `json:"ext"`
	Plan   writePlan `json:"plan"`
	// NameStyle: base name of the file in lower (0), upper (1) or mixed (2) case
	NameStyle int `json:"name_style,omitempty"`
	// Reader: "auto" = GetReader + ParseMultiAlignmentsAuto with the file as closer (what the
	// command line does with --auto-detect); "multiple" = GetReader + phylip ParseMultiple (-p)
	Reader string `json:"reader"`
}

func genSizedStream(t *rapid.T, d dom, strict bool, min, max int) (alis []gen.Ali, shapes []shape, opts []phyOpt) {
	k := rapid.IntRange(min, max).Draw(t, "k")
	for i := 0; i < k; i++ {
		op := phyOpt{rapid.Bool().Draw(t, "oneline"), rapid.Bool().Draw(t, "noblock")}
		a, sh := genSized(t, d, rapid.SampledFrom(streamSizes).Draw(t, "size"), cfg{Format: "phylip", Strict: strict, OneLine: op.OneLine, NoBlock: op.NoBlock})
		alis, shapes, opts = append(alis, a), append(shapes, sh), append(opts, op)
	}
	return
}

func genFStream(t *rapid.T) fstreamCase {
	var c fstreamCase
	c.Strict = rapid.Bool().Draw(t, "strict")
	c.Ext = rapid.SampledFrom(exts).Draw(t, "ext")
	c.Reader = rapid.SampledFrom([]string{"auto", "multiple"}).Draw(t, "reader")
	c.Alis, c.Shapes, c.Opts = genSizedStream(t, domOf(cfg{Format: "phylip", Strict: c.Strict}), c.Strict, 2, 6)
	c.Plan = genPlan(t)
	c.NameStyle = rapid.IntRange(0, 2).Draw(t, "namestyle")
	return c
}

func validStream(alis []gen.Ali, shapes []shape, opts []phyOpt, d dom) bool {
	if len(alis) == 0 || len(alis) > 12 || len(opts) != len(alis) || len(shapes) > len(alis) {
		return false
	}
	for i, a := range alis {
		if !inDomain(a, d) || !shapeAt(shapes, i).valid() {
			return false
		}
	}
	return true
}

func checkFStream(c fstreamCase) (o pbt.Outcome, err error) {
	d := domOf(cfg{Format: "phylip", Strict: c.Strict})
	if !validStream(c.Alis, c.Shapes, c.Opts, d) || !validExt(c.Ext) || !c.Plan.valid() || (c.Reader != "auto" && c.Reader != "multiple") {
		o.Skip = true
		return o, nil
	}
	texts, want, err := buildTexts(c.Alis, c.Shapes, d, c.Strict, c.Opts)
	if err != nil {
		return o, err
	}
	total := 0
	for _, s := range texts {
		total += len(s)
	}
	path := filepath.Join(fileDir, fileName("s", atomic.AddInt64(&fileSeq, 1), "phy", c.Ext, c.NameStyle))
	defer os.Remove(path)
	// one write per alignment (what goalign reformat phylip does), cut further by the plan
	pieces := c.Plan.pieces(texts)
	priorLonger, ambiguous, err := writeFile(path, c.Ext, pieces, c.Plan)
	if err != nil {
		return o, err
	}
	if ambiguous {
		o.Ambiguous++
		o.Class("file name with a look-alike extension: writer and reader must agree")
	}
	sizes := make([]int, len(texts))
	for i := range texts {
		sizes[i] = len(texts[i])
	}
	what := fmt.Sprintf("stream of %d Phylip alignments (texts of %v bytes) in a %s file", len(texts), sizes, extName(c.Ext))
	closer, r, e := utils.GetReader(path)
	if e != nil {
		return o, fmt.Errorf("GetReader(%q): %v", filepath.Base(path), e)
	}
	var got []align.Alignment
	switch c.Reader {
	case "auto":
		ach, format, e := utils.ParseMultiAlignmentsAuto(closer, r, c.Strict, align.BOTH)
		if e != nil {
			return o, fmt.Errorf("%s: ParseMultiAlignmentsAuto: %v", what, e)
		}
		if format != align.FORMAT_PHYLIP {
			return o, fmt.Errorf("%s: ParseMultiAlignmentsAuto reports format %d", what, format)
		}
		if got, e = drain(ach.Achan, len(want)+3); e != nil {
			return o, fmt.Errorf("%s: ParseMultiAlignmentsAuto: %v", what, e)
		}
		if ach.Err != nil {
			return o, fmt.Errorf("%s: ParseMultiAlignmentsAuto (file passed as closer) ends with an error after %d of %d alignments: %v", what, len(got), len(want), ach.Err)
		}
	default:
		p := phylip.NewParser(r, c.Strict)
		ch := &align.AlignChannel{Achan: make(chan align.Alignment, 15)}
		go p.ParseMultiple(ch)
		if got, e = drain(ch.Achan, len(want)+3); e != nil {
			return o, fmt.Errorf("%s: ParseMultiple: %v", what, e)
		}
		if ch.Err != nil {
			return o, fmt.Errorf("%s: ParseMultiple ends with an error after %d of %d alignments: %v", what, len(got), len(want), ch.Err)
		}
		if al, e2 := p.Parse(); al != nil || e2 != nil {
			return o, fmt.Errorf("%s: after the last alignment Parse returns (%v, %v) instead of (nil, nil)", what, al != nil, e2)
		}
		closer.Close()
	}
	if e = sameList(got, want, what+", read through "+c.Reader); e != nil {
		return o, e
	}
	small, large := false, false
	order := ""
	for i, a := range c.Alis {
		sc := sizeClassOf(a, shapeAt(c.Shapes, i))
		o.Class("stream member %s", sc)
		o.Class("stream member shape: %s", shapeClass(shapeAt(c.Shapes, i)))
		if len(texts[i]) <= 4096 {
			small = true
			if large && order == "" {
				order = "large before small"
			}
		} else {
			large = true
			if small && order == "" {
				order = "small before large"
			}
		}
	}
	if order != "" {
		o.Class("stream %s (%s)", order, extName(c.Ext))
	}
	o.Class("file:%s stream %s, reader %s", extName(c.Ext), textClass(total), c.Reader)
	o.Class("stream of %d", len(c.Alis))
	o.Class("strict=%v", c.Strict)
	classifyPlan(&o, pieces, c.Ext, c.Plan, priorLonger)
	// non-trivial: the stream does not fit in one buffer of the reader (4096 bytes), so the
	// end of the list is read after the calls that opened it have returned
	o.NonTrivial = total > 4096
	return o, nil
}

func TestFileStream(t *testing.T) {
	fileDir = cli.TempDir("c02fstream")
	defer os.RemoveAll(fileDir)
	pbt.Run(t, genFStream, checkFStream)
}

// ---- input side alone: a file compressed by the harness is read through GetReader --------------

type readCase struct {
	Ali    gen.Ali `json:"ali"`
	Shape  shape   `json:"shape"`
	Cfg    cfg     `json:"cfg"`
	Ext    string  `json:"ext"`
}

func TestCompressedInput(t *testing.T) {
	dir := cli.TempDir("c02in")
	defer os.RemoveAll(dir)
	pbt.Run(t, func(t *rapid.T) readCase {
		var c readCase
		c.Cfg = genCfg(t, "cfg")
		c.Ext = rapid.SampledFrom(exactExts).Draw(t, "ext")
		c.Ali, c.Shape = genSized(t, domOf(c.Cfg), rapid.SampledFrom(singleSizes).Draw(t, "size"), c.Cfg)
		return c
	}, func(c readCase) (o pbt.Outcome, err error) {
		if !c.Cfg.valid() || !inDomain(c.Ali, domOf(c.Cfg)) || container(c.Ext) == "" || !c.Shape.valid() {
			o.Skip = true
			return o, nil
		}
		full := expand(c.Ali, c.Shape, domOf(c.Cfg))
		al, want, err := buildModel(full)
		if err != nil {
			return o, err
		}
		text := writeText(al, c.Cfg)
		path := filepath.Join(dir, fmt.Sprintf("r%d.%s%s", atomic.AddInt64(&fileSeq, 1), c.Cfg.Format, c.Ext))
		defer os.Remove(path)
		if e := os.WriteFile(path, compress(text, c.Ext), 0o644); e != nil {
			return o, fmt.Errorf("harness: %v", e)
		}
		closer, r, e := utils.GetReader(path)
		if e != nil {
			return o, fmt.Errorf("GetReader(%q): %v", filepath.Base(path), e)
		}
		got, e := parseFrom(r, c.Cfg)
		closer.Close()
		if e != nil {
			return o, fmt.Errorf("%s file compressed as %q by an independent writer: reading fails: %v", c.Cfg, c.Ext, e)
		}
		if e = same(got, want); e != nil {
			return o, fmt.Errorf("%s file compressed as %q by an independent writer: %v", c.Cfg, c.Ext, e)
		}
		o.NonTrivial = classify(&o, "", c.Cfg, full)
		o.Class("input %s %s", extName(c.Ext), textClass(len(text)))
		return o, nil
	})
}
