package c02

import (
	"bufio"
	"fmt"
	"strings"
	"testing"

	"github.com/evolbioinfo/goalign/align"
	"github.com/evolbioinfo/goalign/io/phylip"
	"github.com/evolbioinfo/goalign/io/utils"
	"pgregory.net/rapid"
	"verif/internal/gen"
	"verif/internal/pbt"
)

// drain reads a channel of alignments until it is closed; more than limit items is a failure
func drain(ch chan align.Alignment, limit int) (list []align.Alignment, err error) {
	for al := range ch {
		list = append(list, al)
		if len(list) > limit {
			return list, fmt.Errorf("more than %d alignments read from the stream", limit)
		}
	}
	return list, nil
}

func sameList(got []align.Alignment, want []model, what string) error {
	if len(got) != len(want) {
		return fmt.Errorf("%s: %d alignments read, %d written", what, len(got), len(want))
	}
	for i := range got {
		if err := same(got[i], want[i]); err != nil {
			return fmt.Errorf("%s: alignment %d of %d: %v", what, i+1, len(want), err)
		}
	}
	return nil
}

// ---- multi-Phylip stream -------------------------------------------------------------------------

type phyOpt struct {
	OneLine bool `json:"oneline,omitempty"`
	NoBlock bool `json:"noblock,omitempty"`
}

type multiCase struct {
	Alis   []gen.Ali `json:"alis"`
	Strict bool      `json:"strict"`
	Opts   []phyOpt  `json:"opts"`
}

func genMulti(t *rapid.T) multiCase {
	var c multiCase
	c.Strict = rapid.Bool().Draw(t, "strict")
	k := rapid.IntRange(1, 4).Draw(t, "k")
	d := domOf(cfg{Format: "phylip", Strict: c.Strict})
	for i := 0; i < k; i++ {
		op := phyOpt{rapid.Bool().Draw(t, "oneline"), rapid.Bool().Draw(t, "noblock")}
		c.Opts = append(c.Opts, op)
		c.Alis = append(c.Alis, genAli(t, d, pbt.Scale(130, 400), cfg{Format: "phylip", Strict: c.Strict, OneLine: op.OneLine, NoBlock: op.NoBlock}))
	}
	return c
}

// buildTexts writes each alignment (base alignment blown up by shapes[i]) with the Phylip writer
func buildTexts(alis []gen.Ali, shapes []shape, d dom, strict bool, opts []phyOpt) (texts []string, want []model, err error) {
	for i, a := range alis {
		al, m, e := buildModel(expand(a, shapeAt(shapes, i), d))
		if e != nil {
			return nil, nil, e
		}
		want = append(want, m)
		texts = append(texts, phylip.WriteAlignment(al, strict, opts[i].OneLine, opts[i].NoBlock))
	}
	return texts, want, nil
}

// buildStream writes the alignments one after the other with the Phylip writer
func buildStream(alis []gen.Ali, strict bool, opts []phyOpt) (text string, want []model, err error) {
	texts, want, err := buildTexts(alis, nil, dom{Strict: strict}, strict, opts)
	return strings.Join(texts, ""), want, err
}

func checkMulti(c multiCase) (o pbt.Outcome, err error) {
	d := domOf(cfg{Format: "phylip", Strict: c.Strict})
	if len(c.Alis) == 0 || len(c.Opts) != len(c.Alis) {
		o.Skip = true
		return o, nil
	}
	for _, a := range c.Alis {
		if !inDomain(a, d) {
			o.Skip = true
			return o, nil
		}
	}
	text, want, err := buildStream(c.Alis, c.Strict, c.Opts)
	if err != nil {
		return o, err
	}
	p := phylip.NewParser(strings.NewReader(text), c.Strict)
	ch := &align.AlignChannel{Achan: make(chan align.Alignment, 15)}
	go p.ParseMultiple(ch)
	got, err := drain(ch.Achan, len(want)+3)
	if err != nil {
		return o, fmt.Errorf("ParseMultiple: %v\ntext: %s", err, excerpt(text))
	}
	if ch.Err != nil {
		return o, fmt.Errorf("ParseMultiple ends with an error after %d of %d alignments: %v\ntext: %s", len(got), len(want), ch.Err, excerpt(text))
	}
	if err = sameList(got, want, "ParseMultiple"); err != nil {
		return o, fmt.Errorf("%v\ntext: %s", err, excerpt(text))
	}
	// then the end of the stream
	if al, e := p.Parse(); al != nil || e != nil {
		return o, fmt.Errorf("after the last alignment Parse returns (%v, %v) instead of the end-of-stream marker (nil, nil)", al != nil, e)
	}
	// reading one by one gives the same list
	p2 := phylip.NewParser(strings.NewReader(text), c.Strict)
	for i := range want {
		al, e := p2.Parse()
		if e != nil || al == nil {
			return o, fmt.Errorf("Parse number %d of %d on the stream: (%v, %v)\ntext: %s", i+1, len(want), al != nil, e, excerpt(text))
		}
		if e = same(al, want[i]); e != nil {
			return o, fmt.Errorf("Parse number %d of %d on the stream: %v\ntext: %s", i+1, len(want), e, excerpt(text))
		}
	}
	nt := false
	for i, a := range c.Alis {
		x := cfg{Format: "phylip", Strict: c.Strict, OneLine: c.Opts[i].OneLine, NoBlock: c.Opts[i].NoBlock}
		var sub pbt.Outcome
		if classify(&sub, "", x, a) {
			nt = true
		}
		if i == 0 {
			o.Classes = append(o.Classes, sub.Classes...)
		}
		if i > 0 {
			// what precedes a header: a complete single block or the last of several blocks
			if c.Alis[i-1].Length() <= 60 || c.Opts[i-1].OneLine {
				o.Class("header after a single-block alignment")
			} else {
				o.Class("header after a multi-block alignment")
			}
		}
	}
	o.Class("stream of %d", len(c.Alis))
	o.Class("strict=%v", c.Strict)
	o.NonTrivial = nt && len(c.Alis) > 1
	return o, nil
}

func TestMultiPhylip(t *testing.T) { pbt.Run(t, genMulti, checkMulti) }

// ---- auto-detection ------------------------------------------------------------------------------

type autoCase struct {
	Alis      []gen.Ali `json:"alis"` // several only for Phylip
	Cfg       cfg       `json:"cfg"`
	Opts      []phyOpt  `json:"opts,omitempty"`
	StrictArg bool      `json:"strict_arg"` // the strict argument when the format is not Phylip (irrelevant by its doc)
}

var autoFormats = []string{"fasta", "nexus", "clustal", "phylip"}

func genAuto(t *rapid.T) autoCase {
	var c autoCase
	c.Cfg.Format = rapid.SampledFrom(autoFormats).Draw(t, "format")
	k := 1
	if c.Cfg.Format == "phylip" {
		c.Cfg.Strict = rapid.Bool().Draw(t, "strict")
		c.StrictArg = c.Cfg.Strict
		k = rapid.IntRange(1, 3).Draw(t, "k")
	} else {
		c.StrictArg = rapid.Bool().Draw(t, "strictarg")
	}
	d := domOf(c.Cfg)
	for i := 0; i < k; i++ {
		x := c.Cfg
		if c.Cfg.Format == "phylip" {
			op := phyOpt{rapid.Bool().Draw(t, "oneline"), rapid.Bool().Draw(t, "noblock")}
			c.Opts = append(c.Opts, op)
			x.OneLine, x.NoBlock = op.OneLine, op.NoBlock
		}
		c.Alis = append(c.Alis, genAli(t, d, pbt.Scale(130, 400), x))
	}
	return c
}

type nopCloser struct{ closed *int }

func (n nopCloser) Close() error { *n.closed++; return nil }

func checkAuto(c autoCase) (o pbt.Outcome, err error) {
	ok := false
	for _, f := range autoFormats {
		ok = ok || f == c.Cfg.Format
	}
	if !ok || len(c.Alis) == 0 || (c.Cfg.Format != "phylip" && (len(c.Alis) != 1 || !c.Cfg.valid())) ||
		(c.Cfg.Format == "phylip" && (len(c.Opts) != len(c.Alis) || c.StrictArg != c.Cfg.Strict)) {
		o.Skip = true
		return o, nil
	}
	for _, a := range c.Alis {
		if !inDomain(a, domOf(c.Cfg)) {
			o.Skip = true
			return o, nil
		}
	}
	var text string
	var want []model
	if c.Cfg.Format == "phylip" {
		if text, want, err = buildStream(c.Alis, c.Cfg.Strict, c.Opts); err != nil {
			return o, err
		}
	} else {
		al, m, e := buildModel(c.Alis[0])
		if e != nil {
			return o, e
		}
		want = []model{m}
		text = writeText(al, c.Cfg)
	}
	code := formatCode(c.Cfg.Format)
	// single alignment entry point: the first alignment of the input
	al, format, e := utils.ParseAlignmentAuto(bufio.NewReader(strings.NewReader(text)), c.StrictArg)
	if e != nil {
		return o, fmt.Errorf("ParseAlignmentAuto refuses the %s writer's output: %v\ntext: %s", c.Cfg, e, excerpt(text))
	}
	if format != code {
		return o, fmt.Errorf("ParseAlignmentAuto reports format %d for text written as %s (%d)\ntext: %s", format, c.Cfg, code, excerpt(text))
	}
	if e = same(al, want[0]); e != nil {
		return o, fmt.Errorf("ParseAlignmentAuto on %s: %v\ntext: %s", c.Cfg, e, excerpt(text))
	}
	// multi alignment entry point
	closed := 0
	ach, format2, e := utils.ParseMultiAlignmentsAuto(nopCloser{&closed}, bufio.NewReader(strings.NewReader(text)), c.StrictArg, align.BOTH)
	if e != nil {
		return o, fmt.Errorf("ParseMultiAlignmentsAuto refuses the %s writer's output: %v\ntext: %s", c.Cfg, e, excerpt(text))
	}
	if format2 != code {
		return o, fmt.Errorf("ParseMultiAlignmentsAuto reports format %d for text written as %s (%d)", format2, c.Cfg, code)
	}
	got, e := drain(ach.Achan, len(want)+3)
	if e != nil {
		return o, fmt.Errorf("ParseMultiAlignmentsAuto on %s: %v", c.Cfg, e)
	}
	if ach.Err != nil {
		return o, fmt.Errorf("ParseMultiAlignmentsAuto on %s ends with an error: %v\ntext: %s", c.Cfg, ach.Err, excerpt(text))
	}
	if e = sameList(got, want, "ParseMultiAlignmentsAuto on "+c.Cfg.String()); e != nil {
		return o, fmt.Errorf("%v\ntext: %s", e, excerpt(text))
	}
	x := c.Cfg
	if len(c.Opts) > 0 {
		x.OneLine, x.NoBlock = c.Opts[0].OneLine, c.Opts[0].NoBlock
	}
	nt := classify(&o, "", x, c.Alis[0])
	o.Class("auto: %s, %d alignment(s)", c.Cfg.Format, len(c.Alis))
	o.NonTrivial = nt
	return o, nil
}

func TestAutoDetect(t *testing.T) { pbt.Run(t, genAuto, checkAuto) }

// ---- chains of conversions -----------------------------------------------------------------------

type chainCase struct {
	Ali   gen.Ali `json:"ali"`
	Shape shape   `json:"shape"`
	Steps []cfg   `json:"steps"`
}

func genChain(t *rapid.T) chainCase {
	var c chainCase
	k := rapid.IntRange(2, 5).Draw(t, "steps")
	for i := 0; i < k; i++ {
		c.Steps = append(c.Steps, genCfg(t, "cfg"))
	}
	if rapid.IntRange(0, 11).Draw(t, "manyrows") == 0 {
		c.Ali, c.Shape = genMany(t, domOf(c.Steps...), c.Steps...)
		return c
	}
	c.Ali = genAli(t, domOf(c.Steps...), pbt.Scale(170, 600), c.Steps...)
	return c
}

func checkChain(c chainCase) (o pbt.Outcome, err error) {
	if len(c.Steps) < 1 || !inDomain(c.Ali, domOf(c.Steps...)) || !c.Shape.valid() {
		o.Skip = true
		return o, nil
	}
	for _, s := range c.Steps {
		if !s.valid() {
			o.Skip = true
			return o, nil
		}
	}
	full := expand(c.Ali, c.Shape, domOf(c.Steps...))
	first, want, err := buildModel(full)
	if err != nil {
		return o, err
	}
	cur := first
	nt := false
	formats := map[string]bool{}
	for i, s := range c.Steps {
		text := writeText(cur, s)
		next, e := parseText(text, s)
		if e != nil {
			return o, fmt.Errorf("chain %s, step %d (%s): the parser refuses the writer's output: %v\ntext: %s", showCfgs(c.Steps), i+1, s, e, excerpt(text))
		}
		// the statement's conclusion is about the end of the chain; a difference is
		// reported at the first step where it appears
		if e = same(next, want); e != nil {
			return o, fmt.Errorf("chain %s: after step %d (%s) the alignment differs from the first one: %v\ntext: %s", showCfgs(c.Steps), i+1, s, e, excerpt(text))
		}
		cur = next
		var sub pbt.Outcome
		if classify(&sub, "", s, full) {
			nt = true
		}
		formats[s.Format] = true
		if i > 0 {
			o.Class("%s -> %s", c.Steps[i-1].Format, s.Format)
		}
	}
	if e := same(cur, want); e != nil {
		return o, fmt.Errorf("chain %s: the last alignment differs from the first: %v", showCfgs(c.Steps), e)
	}
	// the source was not modified on the way
	if !gen.SameRows(gen.Snapshot(first), full.Rows) {
		return o, fmt.Errorf("chain %s: the first alignment was modified by writing it", showCfgs(c.Steps))
	}
	o.Class("chain of %d", len(c.Steps))
	o.Class("shape: %s", shapeClass(c.Shape))
	o.Class("distinct formats in chain: %d", len(formats))
	o.Class("alphabet=%s", refAlphabet(c.Ali))
	o.NonTrivial = nt && len(formats) > 1
	return o, nil
}

func TestChain(t *testing.T) { pbt.Run(t, genChain, checkChain) }
