package c02

import (
	"testing"

	"pgregory.net/rapid"
	"verif/internal/pbt"
)

// Native coverage-guided fuzzing of the pair (alignment -> write -> parse), thorough tier:
// the fuzzer's bytes drive the same generator as TestRoundTrip (rapid.MakeFuzz), restricted to
// one format per target, and the same oracle judges the case. A failing case is stored through
// pbt.SideViolation under the name of TestRoundTrip, which re-runs it alone.
func fuzzFormat(f *testing.F, format string) {
	f.Fuzz(rapid.MakeFuzz(func(t *rapid.T) {
		var c rtCase
		c.Cfg.Format = format
		if format == "phylip" {
			c.Cfg.Strict = rapid.Bool().Draw(t, "strict")
			c.Cfg.OneLine = rapid.Bool().Draw(t, "oneline")
			c.Cfg.NoBlock = rapid.Bool().Draw(t, "noblock")
		}
		c.Ali = genAli(t, domOf(c.Cfg), 400, c.Cfg)
		if _, err := pbt.Eval(c, checkRT); err != nil {
			pbt.SideViolation("TestRoundTrip", c, err.Error())
			t.Fatalf("%v", err)
		}
	}))
}

func FuzzRoundTripFasta(f *testing.F)     { fuzzFormat(f, "fasta") }
func FuzzRoundTripPhylip(f *testing.F)    { fuzzFormat(f, "phylip") }
func FuzzRoundTripNexus(f *testing.F)     { fuzzFormat(f, "nexus") }
func FuzzRoundTripClustal(f *testing.F)   { fuzzFormat(f, "clustal") }
func FuzzRoundTripStockholm(f *testing.F) { fuzzFormat(f, "stockholm") }
