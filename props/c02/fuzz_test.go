package c02

import (
	"strconv"
	"testing"

	"verif/internal/gen"
	"verif/internal/pbt"
)

// Native coverage-guided fuzzing of the pair (alignment -> write -> parse), thorough tier.
// The fuzzer's bytes are decoded into a case of TestRoundTrip (one byte per residue, so that
// mutation and minimisation work on the alignment itself) and the same oracle judges it. A
// failing case is stored through pbt.SideViolation under the name of TestRoundTrip, which
// re-runs it alone.
//
// (rapid.MakeFuzz over the generator of TestRoundTrip was tried first: a case needs 8 bytes per
// draw, i.e. tens of KiB per input, and the fuzzer then spends its whole budget minimising.)

// decodeCase: opt = option bits (Phylip strict/one-line/no-block, protein, number of rows);
// data = for each row a name descriptor, then the residues row after row
func decodeCase(format string, data []byte, opt uint16) (c rtCase, ok bool) {
	c.Cfg.Format = format
	if format == "phylip" {
		c.Cfg.Strict, c.Cfg.OneLine, c.Cfg.NoBlock = opt&1 != 0, opt&2 != 0, opt&4 != 0
	}
	chars := ntTiers[1]
	if opt&8 != 0 {
		chars = aaTiers[1]
	}
	n := 1 + int(opt>>4)%6
	d := domOf(c.Cfg)
	used := map[string]bool{}
	pos := 0
	next := func() int {
		if pos >= len(data) {
			return 100
		}
		pos++
		return int(data[pos-1])
	}
	names := make([]string, n)
	for i := range names {
		var name string
		switch b := next(); {
		case b < 96:
			list := dictOf(d)
			name = list[(b*256+next())%len(list)]
		case b < 128:
			name = "s" + strconv.Itoa(i)
		default:
			l := 1 + (b-128)%16
			buf := make([]byte, l)
			for j := range buf {
				buf[j] = printable[next()%len(printable)]
			}
			name = string(buf)
		}
		names[i] = uniqueName(name, d, i, used)
	}
	rest := data[pos:]
	l := len(rest) / n
	if l < 1 {
		return c, false
	}
	if l > 1000 {
		l = 1000
	}
	c.Ali.Alphabet = "auto"
	for i := range names {
		b := make([]byte, l)
		for j := range b {
			b[j] = chars[int(rest[i*l+j])%len(chars)]
		}
		c.Ali.Rows = append(c.Ali.Rows, gen.Row{Name: names[i], Seq: string(b)})
	}
	return c, true
}

// seedData: three plainly named rows of l patterned residues
func seedData(l int) []byte {
	data := []byte{100, 100, 100}
	for i := 0; i < 3; i++ {
		for j := 0; j < l; j++ {
			data = append(data, byte(7*j+3*i+j/11))
		}
	}
	return data
}

func fuzzFormat(f *testing.F, format string) {
	for _, l := range []int{1, 9, 10, 11, 49, 50, 51, 60, 61, 80, 81, 120, 161} {
		for _, flags := range []uint16{0, 7, 8, 13} {
			f.Add(seedData(l), 0x20|flags)
		}
	}
	// hostile names: dictionary entries, a 10 character name, two names equal up to case
	f.Add([]byte{0, 17, 0, 18, 137, 1, 2, 3, 4, 5, 6, 7, 8, 9, 10, 1, 2, 3, 4, 5, 6}, uint16(0x20|1))
	f.Fuzz(func(t *testing.T, data []byte, opt uint16) {
		if len(data) > 8192 {
			return
		}
		c, ok := decodeCase(format, data, opt)
		if !ok {
			return
		}
		if _, err := pbt.Eval(c, checkRT); err != nil {
			pbt.SideViolation("TestRoundTrip", c, err.Error())
			t.Fatalf("%v", err)
		}
	})
}

func FuzzRoundTripFasta(f *testing.F)     { fuzzFormat(f, "fasta") }
func FuzzRoundTripPhylip(f *testing.F)    { fuzzFormat(f, "phylip") }
func FuzzRoundTripNexus(f *testing.F)     { fuzzFormat(f, "nexus") }
func FuzzRoundTripClustal(f *testing.F)   { fuzzFormat(f, "clustal") }
func FuzzRoundTripStockholm(f *testing.F) { fuzzFormat(f, "stockholm") }
