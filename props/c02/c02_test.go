// C02 - Every alignment format round-trips losslessly through writer and parser
package c02

import (
	"fmt"
	"io"
	"log"
	"strings"
	"testing"

	"github.com/evolbioinfo/goalign/align"
	"github.com/evolbioinfo/goalign/io/clustal"
	"github.com/evolbioinfo/goalign/io/fasta"
	"github.com/evolbioinfo/goalign/io/nexus"
	"github.com/evolbioinfo/goalign/io/phylip"
	"github.com/evolbioinfo/goalign/io/stockholm"
	"pgregory.net/rapid"
	"verif/internal/gen"
	"verif/internal/pbt"
)

func TestMain(m *testing.M) {
	log.SetOutput(io.Discard)
	pbt.Main(m, "C02")
}

// ---- configurations --------------------------------------------------------------------------

// cfg is one writer configuration of the statement
type cfg struct {
	Format  string `json:"format"` // fasta | phylip | nexus | clustal | stockholm
	Strict  bool   `json:"strict,omitempty"`
	OneLine bool   `json:"oneline,omitempty"`
	NoBlock bool   `json:"noblock,omitempty"`
}

func (c cfg) String() string {
	s := c.Format
	if c.Format == "phylip" {
		if c.Strict {
			s += "/strict"
		}
		if c.OneLine {
			s += "/oneline"
		}
		if c.NoBlock {
			s += "/noblock"
		}
	}
	return s
}

func (c cfg) valid() bool {
	switch c.Format {
	case "fasta", "nexus", "clustal", "stockholm":
		return !c.Strict && !c.OneLine && !c.NoBlock
	case "phylip":
		return true
	}
	return false
}

// allCfgs: FASTA; Phylip x {strict} x {one-line} x {no-block}; Nexus; Clustal; Stockholm
var allCfgs = func() []cfg {
	l := []cfg{{Format: "fasta"}}
	for _, s := range []bool{false, true} {
		for _, o := range []bool{false, true} {
			for _, n := range []bool{false, true} {
				l = append(l, cfg{Format: "phylip", Strict: s, OneLine: o, NoBlock: n})
			}
		}
	}
	return append(l, cfg{Format: "nexus"}, cfg{Format: "clustal"}, cfg{Format: "stockholm"})
}()

func genCfg(t *rapid.T, label string) cfg {
	return allCfgs[rapid.IntRange(0, len(allCfgs)-1).Draw(t, label)]
}

// widths: the line/block widths at which the writer of this configuration wraps
func (c cfg) widths() []int {
	switch c.Format {
	case "fasta":
		return []int{80}
	case "clustal":
		return []int{50}
	case "phylip":
		var w []int
		if !c.OneLine {
			w = append(w, 60)
		}
		if !c.NoBlock {
			w = append(w, 10)
		}
		return w
	}
	return nil
}

func formatCode(format string) int {
	switch format {
	case "fasta":
		return align.FORMAT_FASTA
	case "phylip":
		return align.FORMAT_PHYLIP
	case "nexus":
		return align.FORMAT_NEXUS
	case "clustal":
		return align.FORMAT_CLUSTAL
	case "stockholm":
		return align.FORMAT_STOCKHOLM
	}
	return -1
}

// ---- the code under test: writers and parsers -----------------------------------------------

func writeText(al align.Alignment, c cfg) string {
	switch c.Format {
	case "fasta":
		return fasta.WriteAlignment(al)
	case "phylip":
		return phylip.WriteAlignment(al, c.Strict, c.OneLine, c.NoBlock)
	case "nexus":
		return nexus.WriteAlignment(al)
	case "clustal":
		return clustal.WriteAlignment(al)
	case "stockholm":
		return stockholm.WriteAlignment(al)
	}
	panic("harness: unknown format " + c.Format)
}

func parseFrom(r io.Reader, c cfg) (al align.Alignment, err error) {
	return parseFromAlphabet(r, c, align.BOTH)
}

// parseFromAlphabet: alphabet = align.BOTH (detected, the parsers' default) or the alphabet the
// caller declares (Parser.Alphabet: "considers alignment as nucleotides / aminoacids")
func parseFromAlphabet(r io.Reader, c cfg, alphabet int) (al align.Alignment, err error) {
	switch c.Format {
	case "fasta":
		al, err = fasta.NewParser(r).Alphabet(alphabet).Parse()
	case "phylip":
		al, err = phylip.NewParser(r, c.Strict).Alphabet(alphabet).Parse()
	case "nexus":
		al, err = nexus.NewParser(r).Alphabet(alphabet).Parse()
	case "clustal":
		al, err = clustal.NewParser(r).Alphabet(alphabet).Parse()
	case "stockholm":
		al, err = stockholm.NewParser(r).Alphabet(alphabet).Parse()
	default:
		panic("harness: unknown format " + c.Format)
	}
	if err == nil && al == nil {
		err = fmt.Errorf("the parser found no alignment")
	}
	return
}

func parseText(text string, c cfg) (align.Alignment, error) {
	return parseFrom(strings.NewReader(text), c)
}

// ---- oracle ----------------------------------------------------------------------------------

// model is what the statement says must be preserved
type model struct {
	Rows     []gen.Row
	Length   int
	Alphabet int
}

// buildModel constructs the alignment through the public constructors (alphabet detected
// after insertion) and records what it holds
func buildModel(a gen.Ali) (align.Alignment, model, error) {
	a.Alphabet = "auto"
	al, err := gen.Build(a)
	if err != nil {
		return nil, model{}, fmt.Errorf("harness: cannot build the alignment: %v", err)
	}
	if !gen.SameRows(gen.Snapshot(al), a.Rows) {
		return nil, model{}, fmt.Errorf("harness: the container does not hold the generated rows: %s", gen.Show(gen.Snapshot(al)))
	}
	return al, model{Rows: a.Rows, Length: a.Length(), Alphabet: al.Alphabet()}, nil
}

func alphaName(a int) string {
	switch a {
	case align.AMINOACIDS:
		return "aa"
	case align.NUCLEOTIDS:
		return "nt"
	case align.BOTH:
		return "both"
	}
	return "unknown"
}

func excerpt(s string) string {
	if len(s) > 700 {
		return fmt.Sprintf("%q ... (%d bytes)", s[:700], len(s))
	}
	return fmt.Sprintf("%q", s)
}

func firstDiff(a, b string) int {
	n := len(a)
	if len(b) < n {
		n = len(b)
	}
	for i := 0; i < n; i++ {
		if a[i] != b[i] {
			return i
		}
	}
	return n
}

// same: names in the same order, same residues, same length, same detected alphabet;
// nothing lost and nothing invented
func same(got align.Alignment, want model) error {
	if got == nil {
		return fmt.Errorf("no alignment returned")
	}
	rows := gen.Snapshot(got)
	if len(rows) != len(want.Rows) || got.NbSequences() != len(want.Rows) {
		names := make([]string, len(rows))
		for i := range rows {
			names[i] = rows[i].Name
		}
		return fmt.Errorf("%d sequences instead of %d (names read: %q)", got.NbSequences(), len(want.Rows), names)
	}
	for i := range rows {
		if rows[i].Name != want.Rows[i].Name {
			return fmt.Errorf("row %d: name %q instead of %q", i, rows[i].Name, want.Rows[i].Name)
		}
		if rows[i].Seq != want.Rows[i].Seq {
			p := firstDiff(rows[i].Seq, want.Rows[i].Seq)
			return fmt.Errorf("row %d (%q): residues differ from position %d (length read %d, written %d): read %q, written %q",
				i, rows[i].Name, p, len(rows[i].Seq), len(want.Rows[i].Seq), around(rows[i].Seq, p), around(want.Rows[i].Seq, p))
		}
	}
	if got.Length() != want.Length {
		return fmt.Errorf("length %d instead of %d", got.Length(), want.Length)
	}
	if want.Alphabet >= 0 && got.Alphabet() != want.Alphabet {
		return fmt.Errorf("detected alphabet %s instead of %s", alphaName(got.Alphabet()), alphaName(want.Alphabet))
	}
	return nil
}

func around(s string, p int) string {
	a, b := p-5, p+10
	if a < 0 {
		a = 0
	}
	if b > len(s) {
		b = len(s)
	}
	if a > b {
		a = b
	}
	return s[a:b]
}

// roundTrip writes and parses back with the same configuration
func roundTrip(al align.Alignment, want model, c cfg) (align.Alignment, error) {
	text := writeText(al, c)
	got, err := parseText(text, c)
	if err != nil {
		return nil, fmt.Errorf("%s: the parser refuses the writer's output: %v\ntext: %s", c, err, excerpt(text))
	}
	if err = same(got, want); err != nil {
		return nil, fmt.Errorf("%s: write then parse changes the alignment: %v\ntext: %s", c, err, excerpt(text))
	}
	// declaring to the parser the alphabet that it detects changes nothing
	if want.Alphabet == align.NUCLEOTIDS || want.Alphabet == align.AMINOACIDS {
		got2, err := parseFromAlphabet(strings.NewReader(text), c, want.Alphabet)
		if err != nil {
			return nil, fmt.Errorf("%s: the parser, told that the alphabet is %s (the one it detects), refuses the writer's output: %v\ntext: %s", c, alphaName(want.Alphabet), err, excerpt(text))
		}
		if err = same(got2, want); err != nil {
			return nil, fmt.Errorf("%s: write then parse with the alphabet declared as %s (the one detected): %v\ntext: %s", c, alphaName(want.Alphabet), err, excerpt(text))
		}
	}
	return got, nil
}

// ---- classes and the non-trivial rule -----------------------------------------------------------

func lenClass(l, w int) string {
	switch {
	case l < w-1:
		return "L<w"
	case l%w == 0:
		return "L=k*w"
	case l%w == 1 || l%w == w-1:
		return "L=k*w+-1"
	}
	return "L>w,other"
}

// classify fills the classes and evaluates the stated non-trivial rule: the alignment needs
// more than one output line or block in that format, or its length falls exactly on a
// line/block boundary, or a name (or a whole row) comes from the hostile dictionary
func classify(o *pbt.Outcome, prefix string, c cfg, a gen.Ali) bool {
	l := a.Length()
	multi, boundary := false, false
	for _, w := range c.widths() {
		if l > w {
			multi = true
		}
		if l%w == 0 {
			boundary = true
		}
		o.Class("%s%s len/%d:%s", prefix, c, w, lenClass(l, w))
	}
	if len(c.widths()) == 0 {
		o.Class("%s%s (no wrapping)", prefix, c)
	}
	hostile := false
	kinds := map[string]bool{}
	for _, r := range a.Rows {
		k := nameKind(r.Name)
		kinds[k] = true
		if inDictionary(r.Name) {
			hostile = true
		}
		if isKeywordRow(r.Seq) {
			hostile = true
			kinds["row-spells-keyword"] = true
		}
	}
	for _, k := range nameKindOrder {
		if kinds[k] {
			o.Class("%sname:%s", prefix, k)
			o.Class("%s%s name:%s", prefix, c.Format, k)
		}
	}
	o.Class("%salphabet=%s", prefix, refAlphabet(a))
	o.Class("%s%s alphabet=%s", prefix, c.Format, refAlphabet(a))
	return multi || boundary || hostile
}

// refAlphabet: reference reading of the alphabet, for the class histogram only (the oracle
// compares the alphabet detected before with the one detected after)
func refAlphabet(a gen.Ali) string {
	for _, r := range a.Rows {
		if strings.ContainsAny(r.Seq, "QEILFPZqeilfpz") {
			return "aa"
		}
	}
	return "nt"
}

// ---- the main run: one alignment, one configuration -------------------------------------------

type rtCase struct {
	Ali   gen.Ali `json:"ali"`
	Shape shape   `json:"shape"`
	Cfg   cfg     `json:"cfg"`
	// Plan: the chain of public operations through which the object is obtained (empty = fresh
	// from the constructor); drawn for one case in three
	Plan gen.Plan `json:"plan"`
}

func genRT(t *rapid.T) rtCase {
	var c rtCase
	c.Cfg = genCfg(t, "cfg")
	// one case in twelve: many rows with long names (8-64 KiB of text), so that names, headers
	// and block separators fall across the 4096-byte buffer of the lexers
	if rapid.IntRange(0, 11).Draw(t, "manyrows") == 0 {
		c.Ali, c.Shape = genMany(t, domOf(c.Cfg), c.Cfg)
		return c
	}
	c.Ali = genAli(t, domOf(c.Cfg), maxLen(), c.Cfg)
	if rapid.IntRange(0, 2).Draw(t, "provenance") == 0 {
		c.Plan = gen.DrawPlan(t, c.Ali, present(c.Ali), 3)
	}
	return c
}

func checkRT(c rtCase) (o pbt.Outcome, err error) {
	if !c.Cfg.valid() || !inDomain(c.Ali, domOf(c.Cfg)) || !c.Shape.valid() {
		o.Skip = true
		return o, nil
	}
	full := expand(c.Ali, c.Shape, domOf(c.Cfg))
	al, want, usable, err := buildVia(full, c.Plan)
	if err != nil {
		return o, err
	}
	if want.Alphabet == align.UNKNOWN {
		o.Skip = true
		return o, nil
	}
	if !usable {
		o.Class("provenance-unusable")
	} else if len(c.Plan.Steps) > 0 {
		o.Class("provenance: object obtained through other operations")
		for _, k := range c.Plan.Kinds() {
			o.Class("provenance step: %s", k)
		}
	} else {
		o.Class("provenance: fresh")
	}
	got, err := roundTrip(al, want, c.Cfg)
	if err != nil {
		return o, err
	}
	// the alignment read back is itself written to the same text (nothing invented that a
	// comparison through the accessors would not see)
	if t1, t2 := writeText(al, c.Cfg), writeText(got, c.Cfg); t1 != t2 {
		return o, fmt.Errorf("%s: the alignment read back is written differently at byte %d", c.Cfg, firstDiff(t1, t2))
	}
	if c.Cfg.Format == "fasta" {
		// an alignment is also a set of sequences: the FASTA text read by the parser of sequence
		// sets (ParseUnalign, what the command line uses under --unaligned) holds the same rows,
		// and that set is written to the same text
		text := writeText(al, c.Cfg)
		sb, e := fasta.NewParser(strings.NewReader(text)).ParseUnalign()
		if e != nil || sb == nil {
			return o, fmt.Errorf("fasta: ParseUnalign refuses the writer's output: %v\ntext: %s", e, excerpt(text))
		}
		if rows := gen.Snapshot(sb); !gen.SameRows(rows, want.Rows) {
			return o, fmt.Errorf("fasta: write then ParseUnalign changes the sequences\n got : %s\n want: %s", excerpt(gen.Show(rows)), excerpt(gen.Show(want.Rows)))
		}
		if sb.Alphabet() != want.Alphabet {
			return o, fmt.Errorf("fasta: write then ParseUnalign: detected alphabet %s instead of %s", alphaName(sb.Alphabet()), alphaName(want.Alphabet))
		}
		if t2 := fasta.WriteAlignment(sb); t2 != text {
			return o, fmt.Errorf("fasta: the sequence set read back is written differently at byte %d", firstDiff(text, t2))
		}
	}
	o.NonTrivial = classify(&o, "", c.Cfg, full)
	o.Class("shape: %s", shapeClass(c.Shape))
	if c.Shape.Many > 0 {
		o.Class("many rows: %s %s", c.Cfg.Format, textClass(len(writeText(al, c.Cfg))))
	}
	return o, nil
}

func TestRoundTrip(t *testing.T) { pbt.Run(t, genRT, checkRT) }

// ---- every length, every configuration, both alphabets: complete enumeration -----------------

type lenCase struct {
	L     int    `json:"L"`
	Cfg   cfg    `json:"cfg"`
	Alpha string `json:"alphabet"`
}

// patterned alignment: no randomness, residues chosen so that neighbouring positions and
// rows differ and no period equals a writer width
func patterned(l int, alpha string) gen.Ali {
	chars := "ACGTRYKMacgtn-?*SWBDHV"
	if alpha == "aa" {
		chars = "ARNDCQEGHILKMFPSTWYVBZXarndcqeg-*?"
	}
	names := []string{"a", "bb", "n_0003", "0004"}
	var a gen.Ali
	a.Alphabet = "auto"
	for i, n := range names {
		b := make([]byte, l)
		for j := range b {
			b[j] = chars[(7*j+3*i+j/11+j/61)%len(chars)]
		}
		if alpha == "aa" && l > 0 {
			b[0] = "QEIL"[i] // the alphabet is protein whatever the length
		}
		a.Rows = append(a.Rows, gen.Row{Name: n, Seq: string(b)})
	}
	return a
}

func TestAllLengths(t *testing.T) {
	max := pbt.Scale(250, 1000)
	pbt.Enumerate(t, fmt.Sprintf("every length 1..%d x the 12 writer configurations x {nt, aa}, 4 patterned rows", max),
		func(yield func(lenCase) bool) {
			for l := 1; l <= max; l++ {
				for _, c := range allCfgs {
					for _, al := range []string{"nt", "aa"} {
						if !yield(lenCase{l, c, al}) {
							return
						}
					}
				}
			}
		}, func(c lenCase) (o pbt.Outcome, err error) {
			a := patterned(c.L, c.Alpha)
			al, want, err := buildModel(a)
			if err != nil {
				return o, err
			}
			if c.Alpha == "aa" && want.Alphabet != align.AMINOACIDS || c.Alpha == "nt" && want.Alphabet != align.NUCLEOTIDS {
				return o, fmt.Errorf("harness: patterned %s alignment detected as %s", c.Alpha, alphaName(want.Alphabet))
			}
			if _, err = roundTrip(al, want, c.Cfg); err != nil {
				return o, err
			}
			multi, boundary := false, false
			for _, w := range c.Cfg.widths() {
				multi = multi || c.L > w
				boundary = boundary || c.L%w == 0
				if c.Alpha == "nt" {
					o.Class("%s len/%d:%s", c.Cfg, w, lenClass(c.L, w))
				}
			}
			// the two hostile names (n_0003, 0004) are not counted here: only wrapping makes
			// a case of this enumeration non-trivial
			o.NonTrivial = multi || boundary
			o.Key = fmt.Sprintf("%s/%d/%s", c.Cfg, c.L, c.Alpha)
			return o, nil
		})
}
