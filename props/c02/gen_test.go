package c02

import (
	"fmt"
	"regexp"
	"strconv"
	"strings"
	"unicode"
	"unicode/utf8"

	"pgregory.net/rapid"
	"verif/internal/gen"
	"verif/internal/pbt"
)

// ---- name domain ------------------------------------------------------------------------------

// dom: the restrictions that the formats of a case put on names ("printable non-blank
// characters without the format's own delimiters; <= 10 characters for strict Phylip")
type dom struct {
	Fasta, Nexus, Stockholm, Strict bool
}

func domOf(cs ...cfg) (d dom) {
	for _, c := range cs {
		switch c.Format {
		case "fasta":
			d.Fasta = true
		case "nexus":
			d.Nexus = true
		case "stockholm":
			d.Stockholm = true
		case "phylip":
			if c.Strict {
				d.Strict = true
			}
		}
	}
	return
}

func (d dom) key() int {
	k := 0
	for i, b := range []bool{d.Fasta, d.Nexus, d.Stockholm, d.Strict} {
		if b {
			k |= 1 << i
		}
	}
	return k
}

func (d dom) legalRune(r rune) bool {
	if r <= ' ' || r == 0x7f || r == utf8.RuneError || unicode.IsSpace(r) || !unicode.IsPrint(r) {
		return false
	}
	if d.Fasta && r == '>' {
		return false
	}
	if d.Nexus && strings.ContainsRune("[];=", r) {
		return false
	}
	return true
}

func (d dom) legal(name string) bool {
	if name == "" || !utf8.ValidString(name) {
		return false
	}
	for _, r := range name {
		if !d.legalRune(r) {
			return false
		}
	}
	if d.Stockholm && (name[0] == '#' || name == "//") {
		return false
	}
	// strict Phylip: 10 characters; for non-ASCII names the narrower reading (10 bytes) is taken
	if d.Strict && len(name) > 10 {
		return false
	}
	return true
}

const residueChars = "ACGTURYSWKMBDHVNQEILFPZXacgturyswkmbdhvnqeilfpzx-*?"

// inDomain: the case belongs to the quantifier's domain (used for saved and fuzzed cases;
// generated cases are in the domain by construction)
func inDomain(a gen.Ali, d dom) bool {
	if len(a.Rows) == 0 || len(a.Rows[0].Seq) == 0 {
		return false
	}
	seen := map[string]bool{}
	for _, r := range a.Rows {
		if !d.legal(r.Name) || seen[r.Name] || len(r.Seq) != len(a.Rows[0].Seq) {
			return false
		}
		seen[r.Name] = true
		for i := 0; i < len(r.Seq); i++ {
			if strings.IndexByte(residueChars, r.Seq[i]) < 0 {
				return false
			}
		}
	}
	return true
}

// ---- hostile-but-legal dictionary -------------------------------------------------------------

var dictionary = []string{
	// pure numerics and things integer parsers accept
	"7", "0", "0001", "42", "123456789", "+5", "-3", "1e5", "0x1F", "1.0", "007",
	// collisions with the duplicate-renaming suffix
	"x_0001", "a_0001", "s1_0002", "_0001",
	// Nexus keywords in several cases
	"end", "END", "End", "data", "DATA", "Data", "matrix", "MATRIX", "Matrix", "gap", "GAP", "Gap",
	"missing", "MISSING", "format", "FORMAT", "ntax", "NTAX", "nchar", "NCHAR", "taxa", "TAXA",
	"taxlabels", "tree", "TREE", "trees", "begin", "BEGIN", "Begin", "dimensions", "datatype",
	"matchchar", "characters", "CHARACTERS", "#NEXUS", "#nexus", "dna", "protein",
	// Clustal and Stockholm keywords
	"clustal", "CLUSTAL", "Clustal", "clustalw", "CLUSTALW", "ClustalW", "W",
	"stockholm", "STOCKHOLM", "Stockholm", "#=GF", "//x", "x//", "/", "#", "x#",
	// strict Phylip boundary: ten and eleven characters, long common prefixes
	"abcdefghij", "ABCDEFGHIJ", "0123456789", "sequence_1", "sequence_2", "123456789x",
	"abcdefghijk", "sequence_10", "sequence_11", "a_very_long_sequence_name_1", "a_very_long_sequence_name_2",
	// names that look like residues
	"a", "A", "-", "*", "?", "--", "ACGT", "acgt", "N", "X", "ACGT-ACGT",
	// punctuation met in real identifiers, and other formats' delimiters
	"gi|12345|ref", "a/b", "a.b", "a:b,c", "(a)", "'q'", "\"q\"", "a\\b", "%s", "%d", "%-10s",
	"a>b", "a=b", "a;b", "[a]", "a[1]", "x=", ";",
	// non-ASCII printable
	"séq", "Ωmega", "中文名", "ж1",
}

var dictSet = func() map[string]bool {
	m := map[string]bool{}
	for _, s := range dictionary {
		m[s] = true
	}
	return m
}()

func inDictionary(name string) bool { return dictSet[name] }

var dictFor = map[int][]string{}

func dictOf(d dom) []string {
	if l, ok := dictFor[d.key()]; ok {
		return l
	}
	var l []string
	for _, s := range dictionary {
		if d.legal(s) {
			l = append(l, s)
		}
	}
	dictFor[d.key()] = l
	return l
}

var keywords = map[string]bool{}

func init() {
	for _, k := range []string{"end", "data", "matrix", "gap", "missing", "format", "ntax", "nchar", "taxa", "taxlabels", "tree",
		"trees", "begin", "dimensions", "datatype", "matchchar", "characters", "#nexus", "clustal", "clustalw", "stockholm"} {
		keywords[k] = true
	}
}

var suffixRe = regexp.MustCompile(`_[0-9]{4}$`)

var nameKindOrder = []string{"keyword", "numeric", "suffix_NNNN", "non-ascii", "10-chars", "11+chars", "residue-like", "punctuation", "plain", "row-spells-keyword"}

func nameKind(name string) string {
	if keywords[strings.ToLower(name)] {
		return "keyword"
	}
	if _, err := strconv.ParseInt(name, 10, 64); err == nil {
		return "numeric"
	}
	if suffixRe.MatchString(name) {
		return "suffix_NNNN"
	}
	if len(name) != utf8.RuneCountInString(name) {
		return "non-ascii"
	}
	if len(name) == 10 {
		return "10-chars"
	}
	if len(name) > 10 {
		return "11+chars"
	}
	if strings.Trim(name, residueChars) == "" {
		return "residue-like"
	}
	for _, r := range name {
		if !(r >= '0' && r <= '9' || r >= 'a' && r <= 'z' || r >= 'A' && r <= 'Z' || r == '_') {
			return "punctuation"
		}
	}
	return "plain"
}

// rows that spell a keyword of one of the lexers (possible for short alignments only)
var keywordRowsNT = []string{"DATA", "NCHAR", "MATCHCHAR"}
var keywordRowsAA = []string{"END", "GAP", "DATA", "TAXA", "TREE", "TREES", "MATRIX", "MISSING", "NCHAR", "NTAX", "BEGIN", "DATATYPE", "MATCHCHAR", "TAXLABELS", "CHARACTERS"}

func isKeywordRow(seq string) bool { return len(seq) <= 12 && keywords[strings.ToLower(seq)] }

// ---- generators -------------------------------------------------------------------------------

const printable = "!\"#$%&'()*+,-./0123456789:;<=>?@ABCDEFGHIJKLMNOPQRSTUVWXYZ[\\]^_`abcdefghijklmnopqrstuvwxyz{|}~"
const alnum = "abcdefghijklmnopqrstuvwxyzABCDEFGHIJKLMNOPQRSTUVWXYZ0123456789_"

var nonASCII = []rune("éñüßøΩλж中日")

func cutBytes(s string, n int) string {
	for len(s) > n {
		_, sz := utf8.DecodeLastRuneInString(s)
		s = s[:len(s)-sz]
	}
	return s
}

// sanitize makes a drawn name legal for the domain without rejecting the draw
func sanitize(name string, d dom) string {
	var b strings.Builder
	for _, r := range name {
		if d.legalRune(r) {
			b.WriteRune(r)
		} else {
			b.WriteByte('_')
		}
	}
	name = b.String()
	if d.Strict {
		name = cutBytes(name, 10)
	}
	if name == "" {
		name = "x"
	}
	if d.Stockholm {
		if name[0] == '#' {
			name = "_" + name[1:]
		}
		if name == "//" {
			name = "/_"
		}
	}
	return name
}

func swapCase(s string) string {
	b := []byte(s)
	for i, c := range b {
		switch {
		case c >= 'a' && c <= 'z':
			b[i] = c - 32
		case c >= 'A' && c <= 'Z':
			b[i] = c + 32
		}
	}
	return string(b)
}

func genName(t *rapid.T, d dom, i int, used map[string]bool, prev []string) string {
	maxLen := 16
	if d.Strict {
		maxLen = 10
	}
	var name string
	k := rapid.IntRange(0, 12).Draw(t, "namekind")
	if k == 12 && len(prev) == 0 {
		k = 3
	}
	switch {
	case k == 12:
		// a name that differs from an earlier one by case only, or by its last character
		name = prev[rapid.IntRange(0, len(prev)-1).Draw(t, "earlier")]
		switch rapid.IntRange(0, 3).Draw(t, "variant") {
		case 0:
			name = strings.ToUpper(name)
		case 1:
			name = strings.ToLower(name)
		case 2:
			name = swapCase(name)
		default:
			name = cutBytes(name, len(name)-1) + "Z"
		}
	case k <= 2:
		name = rapid.SampledFrom([]string{"s", "seq", "Seq", "t", "sp_", "H_sap_"}).Draw(t, "prefix") + strconv.Itoa(i)
	case k <= 6:
		name = rapid.SampledFrom(dictOf(d)).Draw(t, "dict")
	case k == 7:
		name = gen.SeqN(t, printable, rapid.IntRange(1, maxLen).Draw(t, "namelen"))
	case k == 8:
		name = gen.SeqN(t, printable, rapid.IntRange(1, 3).Draw(t, "namelen"))
	case k <= 10:
		// the strict Phylip boundary: 9, 10 and (where allowed) 11 and 12 characters
		l := rapid.IntRange(9, 12).Draw(t, "namelen")
		if l > maxLen {
			l = 10
		}
		name = gen.SeqN(t, alnum, l)
	default:
		n := rapid.IntRange(1, 4).Draw(t, "namelen")
		r := make([]rune, n)
		for j := range r {
			if rapid.Bool().Draw(t, "ascii") {
				r[j] = rune(alnum[rapid.IntRange(0, len(alnum)-1).Draw(t, "c")])
			} else {
				r[j] = nonASCII[rapid.IntRange(0, len(nonASCII)-1).Draw(t, "c")]
			}
		}
		name = string(r)
	}
	return uniqueName(name, d, i, used)
}

// uniqueName makes the name legal for the domain and different from the names already used
func uniqueName(name string, d dom, i int, used map[string]bool) string {
	name = sanitize(name, d)
	base := name
	for n := 0; used[name]; n++ {
		suffix := strconv.Itoa(i)
		if n > 0 {
			suffix += string(rune('a' + n%26))
		}
		b := base
		if d.Strict {
			b = cutBytes(b, 10-len(suffix))
		}
		name = sanitize(b+suffix, d)
		if n > 60 {
			panic("harness: cannot make a unique name")
		}
	}
	used[name] = true
	return name
}

func maxLen() int { return pbt.Scale(245, 1000) }

// genLen: the boundary-biased length distribution for I/O (DESIGN section 4): small values,
// every writer width (10, 50, 60, 80) times k, plus and minus one, and uniform values
func genLen(t *rapid.T, max int, own []int) int {
	l := 1
	switch k := rapid.IntRange(0, 9).Draw(t, "lenkind"); {
	case k <= 1:
		l = rapid.IntRange(1, 12).Draw(t, "L")
	case k <= 7:
		w := rapid.SampledFrom([]int{10, 50, 60, 80}).Draw(t, "width")
		// half of the time a width of the configurations at hand
		if len(own) > 0 && rapid.Bool().Draw(t, "ownwidth") {
			w = rapid.SampledFrom(own).Draw(t, "width")
		}
		m := 1
		if rapid.Bool().Draw(t, "multiple") {
			top := max / w
			if top < 1 {
				top = 1
			}
			m = rapid.IntRange(1, top).Draw(t, "k")
		}
		l = w*m + rapid.SampledFrom([]int{0, -1, 1, 0}).Draw(t, "delta")
	case k == 8:
		l = rapid.SampledFrom([]int{99, 100, 101, 119, 120, 121, 149, 150, 151, 159, 160, 161, 179, 180, 181, 199, 200, 201, 239, 240, 241,
			299, 300, 301, 399, 400, 401, 479, 480, 481, 599, 600, 601, 799, 800, 801, 999, 1000}).Draw(t, "L")
	default:
		l = rapid.IntRange(1, max).Draw(t, "L")
	}
	if l < 1 {
		l = 1
	}
	if l > max+1 {
		l = max + 1
	}
	return l
}

var ntTiers = []string{
	"ACGT",
	"ACGTRYSWKMBDHVNacgtryswkmbdhvn-*?",
	"ACGUacguRYNn-",
	"-*?AN",
}
var aaTiers = []string{
	"ARNDCQEGHILKMFPSTWYV",
	"ARNDCQEGHILKMFPSTWYVBZXarndcqeghilkmfpstwyvbzx-*?",
	"-*?LXEq",
}

func caseVariant(t *rapid.T, w string) string {
	switch rapid.IntRange(0, 2).Draw(t, "case") {
	case 0:
		return strings.ToLower(w)
	case 1:
		return w[:1] + strings.ToLower(w[1:])
	}
	return w
}

// genAliL draws an alignment of 1-6 rows and exactly l columns (fewer when a row is made
// to spell a keyword) with names of the domain
func genAliL(t *rapid.T, d dom, l int) gen.Ali {
	a := gen.Ali{Alphabet: "auto"}
	n := rapid.IntRange(1, 6).Draw(t, "rows")
	protein := rapid.Bool().Draw(t, "protein")
	chars := ntTiers[rapid.IntRange(0, len(ntTiers)-1).Draw(t, "tier")]
	kw := keywordRowsNT
	if protein {
		chars = aaTiers[rapid.IntRange(0, len(aaTiers)-1).Draw(t, "tier")]
		kw = keywordRowsAA
	}
	spell := ""
	if rapid.IntRange(0, 24).Draw(t, "keywordrow") == 0 {
		spell = caseVariant(t, rapid.SampledFrom(kw).Draw(t, "kw"))
		l = len(spell)
	}
	which := rapid.IntRange(0, n-1).Draw(t, "kwrow")
	used := map[string]bool{}
	for i := 0; i < n; i++ {
		seq := ""
		if spell != "" && i == which {
			seq = spell
		} else {
			seq = gen.SeqN(t, chars, l)
		}
		var prev []string
		for _, r := range a.Rows {
			prev = append(prev, r.Name)
		}
		a.Rows = append(a.Rows, gen.Row{Name: genName(t, d, i, used, prev), Seq: seq})
	}
	return a
}

func genAli(t *rapid.T, d dom, max int, cs ...cfg) gen.Ali {
	var own []int
	for _, c := range cs {
		own = append(own, c.widths()...)
	}
	return genAliL(t, d, genLen(t, max, own))
}

func showCfgs(cs []cfg) string {
	s := make([]string, len(cs))
	for i := range cs {
		s[i] = cs[i].String()
	}
	return fmt.Sprint(s)
}

// ---- large alignments ---------------------------------------------------------------------------

// shape: how the (small) base alignment of a case is blown up. A case stores the base and the
// shape, so that texts crossing the 4 KiB / 32 KiB / 64 KiB buffers of the lexers and of the file
// layer cost neither thousands of draws nor megabytes of replay file.
//   Repeat: every row becomes Repeat rotated copies of itself (few long rows);
//   Many:   the alignment gets Many rows (50-400) made from the base rows in turn, rotated, with
//           names of about NameLen characters derived from the base names (many short rows: names,
//           header lines and block separators fall on every offset modulo the buffer sizes)
type shape struct {
	Repeat  int `json:"repeat,omitempty"`
	Many    int `json:"many,omitempty"`
	NameLen int `json:"namelen,omitempty"`
}

const maxRepeat = 140000

func (sh shape) valid() bool {
	return sh.Repeat >= 0 && sh.Repeat <= maxRepeat && sh.Many >= 0 && sh.Many <= 1000 && sh.NameLen >= 0 && sh.NameLen <= 64 &&
		(sh.Many == 0 || sh.Repeat <= 50)
}

func shapeAt(shapes []shape, i int) shape {
	if i < len(shapes) {
		return shapes[i]
	}
	return shape{}
}

func rotate(s string, k int) string {
	if len(s) == 0 {
		return s
	}
	k %= len(s)
	return s[k:] + s[:k]
}

// expand builds the alignment a case stands for; the rotations keep the content from being
// periodic with the base length
func expand(a gen.Ali, sh shape, d dom) gen.Ali {
	if sh.Many > 0 && len(a.Rows) > 0 {
		out := gen.Ali{Alphabet: a.Alphabet}
		nb := len(a.Rows)
		for i := 0; i < sh.Many; i++ {
			b := a.Rows[i%nb]
			idx := strconv.Itoa(i)
			// name lengths vary around NameLen, and stay within ten bytes for strict Phylip
			nl := sh.NameLen + (i*5)%7 - 3
			if d.Strict && nl > 10 {
				nl = 10 - (i*5)%3
			}
			if nl < len(idx)+1 {
				nl = len(idx) + 1
			}
			head := cutBytes(b.Name, nl-len(idx)-1)
			name := head + strings.Repeat("x", nl-len(idx)-1-len(head)) + "_" + idx
			out.Rows = append(out.Rows, gen.Row{Name: name, Seq: rotate(b.Seq, (i/nb)*3)})
		}
		a = out
	}
	if sh.Repeat <= 1 {
		return a
	}
	out := gen.Ali{Alphabet: a.Alphabet}
	for _, r := range a.Rows {
		var sb strings.Builder
		for k := 0; k < sh.Repeat && len(r.Seq) > 0; k++ {
			sb.WriteString(rotate(r.Seq, k*7))
		}
		out.Rows = append(out.Rows, gen.Row{Name: r.Name, Seq: sb.String()})
	}
	return out
}

// size classes by the amount of text the alignment gives (residues, rows x columns)
var sizeClasses = []string{"tiny", "normal", ">4KiB", ">8KiB", ">32KiB", ">64KiB"}

func sizeClassOf(a gen.Ali, sh shape) string {
	rows, rep := len(a.Rows), sh.Repeat
	if sh.Many > 0 {
		rows = sh.Many
	}
	if rep < 1 {
		rep = 1
	}
	n := rows * a.Length() * rep
	switch {
	case n > 65536:
		return ">64KiB"
	case n > 32768:
		return ">32KiB"
	case n > 8192:
		return ">8KiB"
	case n > 4096:
		return ">4KiB"
	case n <= 200:
		return "tiny"
	}
	return "normal"
}

func shapeClass(sh shape) string {
	switch {
	case sh.Many > 0:
		return "many rows"
	case sh.Repeat > 1:
		return "few long rows"
	}
	return "as drawn"
}

// genMany: 50-400 rows of short to moderate length, names of 10-40 characters (at most 10 for
// strict Phylip): 8-64 KiB of text in most cases
func genMany(t *rapid.T, d dom, cs ...cfg) (gen.Ali, shape) {
	a := genAli(t, d, 200, cs...)
	sh := shape{Many: rapid.IntRange(50, 400).Draw(t, "many"), NameLen: rapid.IntRange(10, 40).Draw(t, "namelen")}
	if a.Length() < 8 && rapid.Bool().Draw(t, "longer") {
		sh.Repeat = rapid.IntRange(2, 12).Draw(t, "repeat")
	}
	return a, sh
}

// genSized draws a base alignment and a shape for a size class
func genSized(t *rapid.T, d dom, class string, cs ...cfg) (gen.Ali, shape) {
	switch class {
	case "tiny":
		return genAliL(t, d, rapid.IntRange(1, 30).Draw(t, "L")), shape{}
	case "normal":
		return genAli(t, d, 245, cs...), shape{}
	case "many":
		return genMany(t, d, cs...)
	}
	target := map[string]int{">4KiB": 4096, ">8KiB": 8192, ">32KiB": 32768, ">64KiB": 65536}[class]
	a := genAli(t, d, 245, cs...)
	cells := len(a.Rows) * a.Length()
	// just above the threshold, or anywhere up to twice the threshold
	extra := rapid.IntRange(1, target).Draw(t, "extra")
	if rapid.Bool().Draw(t, "justabove") {
		extra = rapid.IntRange(1, 64).Draw(t, "extra")
	}
	return a, shape{Repeat: (target+extra)/cells + 1}
}

var streamSizes = []string{"tiny", "tiny", "tiny", "normal", "normal", ">4KiB", ">4KiB", ">4KiB", ">8KiB", ">8KiB", ">32KiB", ">64KiB", "many", "many"}
var singleSizes = []string{"tiny", "normal", "normal", "normal", "normal", "normal", ">4KiB", ">8KiB", ">32KiB", ">64KiB", "many", "many", "many"}
