package c02

import (
	"fmt"
	"os"
	"path/filepath"
	"strings"
	"sync/atomic"
	"testing"

	"github.com/evolbioinfo/goalign/align"
	"github.com/evolbioinfo/goalign/io/phylip"
	"pgregory.net/rapid"
	"verif/internal/cli"
	"verif/internal/gen"
	"verif/internal/pbt"
)

// command-line tier (DESIGN 2.6): goalign reformat fasta/phylip/nexus/clustal from every
// input flag, with the Phylip input/output options and plain/.gz/.xz files on both sides

type cliCase struct {
	Alis   []gen.Ali `json:"alis"`             // several: Phylip input only
	Shapes []shape   `json:"shapes,omitempty"` // how each base alignment is blown up, see expand
	In     cfg       `json:"in"`   // format and layout of the input file
	InOpts []phyOpt  `json:"in_opts,omitempty"`
	Auto   bool      `json:"auto"`   // --auto-detect instead of the format flag
	Long   bool      `json:"long"`   // long flag names
	InVia  string    `json:"in_via"` // file | stdin | .gz | .xz
	Out    cfg       `json:"out"`    // sub-command and Phylip output options
	OutVia string    `json:"out_via"`
	// Existing: the -o path already exists and is longer than the output: 1 = a file of the same
	// container (plain/gz/xz) holding a longer content, 2 = plain bytes whatever the extension,
	// 3 = lines of stale text (cli.StaleFile)
	Existing int `json:"existing,omitempty"`
	// NameStyle: base name of the output file in lower (0), upper (1) or mixed (2) case
	NameStyle int `json:"name_style,omitempty"`
	// Alphabet: --alphabet is given, with the alphabet that is detected for every alignment of the
	// input ("auto" when they differ)
	Alphabet bool `json:"alphabet,omitempty"`
	// Unaligned: reformat fasta --unaligned on a FASTA input ("Considers sequences as unaligned and
	// format fasta"): an alignment read and written as a set of sequences
	Unaligned bool `json:"unaligned,omitempty"`
	// Preserve: a command documented to write "in the format of the input" (subseq over the whole
	// length) is run on the same input with the same input options
	Preserve bool `json:"preserve,omitempty"`
	// Layout: presentation of a FASTA input (wrapping, blanks, CRLF, empty lines, no final newline)
	Layout cli.Layout `json:"layout"`
	// Reread: the output file is given to a second goalign reformat fasta -i <file>
	Reread bool `json:"reread,omitempty"`
}

var cliOut = []string{"fasta", "phylip", "nexus", "clustal"}
var cliIn = []string{"fasta", "phylip", "nexus", "clustal", "stockholm"}

func genCLI(t *rapid.T) cliCase {
	var c cliCase
	c.Out.Format = rapid.SampledFrom([]string{"fasta", "phylip", "phylip", "nexus", "clustal"}).Draw(t, "out")
	if c.Out.Format == "phylip" {
		c.Out.Strict = rapid.Bool().Draw(t, "ostrict")
		c.Out.OneLine = rapid.Bool().Draw(t, "ooneline")
		c.Out.NoBlock = rapid.Bool().Draw(t, "onoblock")
	}
	c.In.Format = rapid.SampledFrom([]string{"fasta", "phylip", "phylip", "phylip", "nexus", "clustal", "stockholm"}).Draw(t, "in")
	// one case in eight: the alignment goes through the command line as a set of sequences
	// (reformat fasta --unaligned, FASTA in and out)
	c.Unaligned = rapid.IntRange(0, 7).Draw(t, "unaligned") == 0
	if c.Unaligned {
		c.In, c.Out = cfg{Format: "fasta"}, cfg{Format: "fasta"}
	}
	c.Auto = !c.Unaligned && c.In.Format != "stockholm" && rapid.IntRange(0, 3).Draw(t, "auto") == 0
	k := 1
	if c.In.Format == "phylip" {
		// the help says that --auto-detect reads Phylip as not strict while the code
		// passes --input-strict on: strict input is given with -p only
		if !c.Auto {
			c.In.Strict = rapid.Bool().Draw(t, "istrict")
		}
		if c.Out.Format == "phylip" || c.Out.Format == "fasta" {
			k = rapid.IntRange(1, 5).Draw(t, "k")
		}
	}
	c.Long = rapid.Bool().Draw(t, "long")
	c.Alphabet = rapid.IntRange(0, 3).Draw(t, "alphabet") == 0
	c.Preserve = rapid.IntRange(0, 2).Draw(t, "preserve") == 0
	if c.In.Format == "fasta" {
		c.Layout = cli.DrawLayout(t)
		if c.Auto {
			// auto-detection looks at the first byte, which must be '>'
			c.Layout.Empty = false
		}
	}
	c.InVia = rapid.SampledFrom([]string{"file", "file", "stdin", ".gz", ".xz"}).Draw(t, "invia")
	c.OutVia = rapid.SampledFrom([]string{"stdout", "stdout", "stdout", "file", "file", ".gz", ".gz", ".xz", ".xz", "lookalike"}).Draw(t, "outvia")
	if c.OutVia == "lookalike" {
		c.OutVia = rapid.SampledFrom(lookAlikes).Draw(t, "lookalike")
	}
	c.NameStyle = rapid.IntRange(0, 2).Draw(t, "namestyle")
	// the output file is read again by goalign itself (a pipeline through files)
	c.Reread = c.OutVia != "stdout" && rapid.IntRange(0, 2).Draw(t, "reread") == 0
	if c.OutVia != "stdout" {
		c.Existing = rapid.SampledFrom([]int{0, 0, 0, 0, 0, 1, 2, 3}).Draw(t, "existing")
	}
	d := domOf(c.In, c.Out)
	for i := 0; i < k; i++ {
		x := c.In
		if c.In.Format == "phylip" {
			op := phyOpt{rapid.Bool().Draw(t, "ioneline"), rapid.Bool().Draw(t, "inoblock")}
			c.InOpts = append(c.InOpts, op)
			x.OneLine, x.NoBlock = op.OneLine, op.NoBlock
		}
		// streams: mixed sizes; single alignments: mostly ordinary, a few crossing 4-64 KiB
		sizes := singleSizes
		if k > 1 {
			sizes = streamSizes
		}
		a, sh := genSized(t, d, rapid.SampledFrom(sizes).Draw(t, "size"), x, c.Out)
		c.Alis = append(c.Alis, a)
		c.Shapes = append(c.Shapes, sh)
	}
	return c
}

var cliSeq int64
var cliDir string

// outKind: class label of the output destination
func outKind(via string) string {
	if via == "stdout" || via == "file" || container(via) != "" {
		return via
	}
	return "look-alike extension"
}

func has(list []string, s string) bool {
	for _, x := range list {
		if x == s {
			return true
		}
	}
	return false
}

func checkCLI(c cliCase) (o pbt.Outcome, err error) {
	if !has(cliOut, c.Out.Format) || !has(cliIn, c.In.Format) || !c.In.valid() || !c.Out.valid() || len(c.Alis) == 0 ||
		!has([]string{"file", "stdin", ".gz", ".xz"}, c.InVia) || !(c.OutVia == "stdout" || c.OutVia == "file" || (c.OutVia != "" && validExt(c.OutVia))) || (c.Reread && c.OutVia == "stdout") ||
		(c.Auto && (c.In.Format == "stockholm" || c.In.Strict)) || c.Existing < 0 || c.Existing > 3 || (c.Existing != 0 && c.OutVia == "stdout") {
		o.Skip = true
		return o, nil
	}
	if c.Unaligned && (c.In.Format != "fasta" || c.Out.Format != "fasta" || c.Auto) {
		o.Skip = true
		return o, nil
	}
	if !c.Layout.Plain() && (c.In.Format != "fasta" || (c.Auto && c.Layout.Empty) || c.Layout.Width < 0 || c.Layout.Blocks < 0) {
		o.Skip = true
		return o, nil
	}
	if c.In.Format == "phylip" && len(c.InOpts) != len(c.Alis) || c.In.Format != "phylip" && len(c.Alis) != 1 ||
		len(c.Alis) > 1 && c.Out.Format != "phylip" && c.Out.Format != "fasta" {
		o.Skip = true
		return o, nil
	}
	d := domOf(c.In, c.Out)
	for i, a := range c.Alis {
		if !inDomain(a, d) || !shapeAt(c.Shapes, i).valid() {
			o.Skip = true
			return o, nil
		}
	}
	if len(c.Shapes) > len(c.Alis) {
		o.Skip = true
		return o, nil
	}
	// input text (written with the library writers, which the other runs judge)
	var text string
	var want []model
	if c.In.Format == "phylip" {
		texts, w, e := buildTexts(c.Alis, c.Shapes, d, c.In.Strict, c.InOpts)
		if e != nil {
			return o, e
		}
		text, want = strings.Join(texts, ""), w
	} else {
		al, m, e := buildModel(expand(c.Alis[0], shapeAt(c.Shapes, 0), d))
		if e != nil {
			return o, e
		}
		want = []model{m}
		text = writeText(al, c.In)
		if c.In.Format == "fasta" && !c.Layout.Plain() {
			// the same content in another presentation of the FASTA format
			text = cli.FastaLayout(m.Rows, c.Layout)
		}
	}
	// documented: reformat fasta takes the first alignment only; reformat phylip all of them
	inputModels := want
	if c.Out.Format != "phylip" {
		want = want[:1]
	}
	n := atomic.AddInt64(&cliSeq, 1)
	args := []string{"reformat", c.Out.Format}
	flag := func(short, long string) string {
		if c.Long {
			return long
		}
		return short
	}
	if c.Auto {
		args = append(args, "--auto-detect")
	} else {
		switch c.In.Format {
		case "phylip":
			args = append(args, flag("-p", "--phylip"))
		case "nexus":
			args = append(args, flag("-x", "--nexus"))
		case "clustal":
			args = append(args, flag("-u", "--clustal"))
		case "stockholm":
			args = append(args, flag("-k", "--stockholm"))
		}
	}
	if c.In.Strict {
		args = append(args, "--input-strict")
	}
	if c.Alphabet {
		// the alphabet that is detected anyway, declared: nothing may change
		alpha := alphaName(inputModels[0].Alphabet)
		for _, m := range inputModels {
			if m.Alphabet != inputModels[0].Alphabet {
				alpha = "auto"
			}
		}
		if alpha != "nt" && alpha != "aa" {
			alpha = "auto"
		}
		args = append(args, "--alphabet", alpha)
		o.Class("--alphabet %s", alpha)
	}
	stdin := ""
	var inPath string
	switch c.InVia {
	case "stdin":
		stdin = text
	default:
		ext := ""
		if c.InVia != "file" {
			ext = c.InVia
		}
		inPath = filepath.Join(cliDir, fmt.Sprintf("in%d.%s%s", n, c.In.Format, ext))
		if e := os.WriteFile(inPath, compress(text, ext), 0o644); e != nil {
			return o, fmt.Errorf("harness: %v", e)
		}
		defer os.Remove(inPath)
		args = append(args, flag("-i", "--align"), inPath)
	}
	// the options that describe the input, for the further commands run on the same input
	inArgs := append([]string{}, args[2:]...)
	if c.Unaligned {
		args = append(args, "--unaligned")
		o.Class("reformat fasta --unaligned")
	}
	if c.Out.Strict {
		args = append(args, "--output-strict")
	}
	if c.Out.OneLine {
		args = append(args, "--one-line")
	}
	if c.Out.NoBlock {
		args = append(args, "--no-block")
	}
	var outPath, outExt string
	existingSize := -1
	if c.OutVia != "stdout" {
		if c.OutVia != "file" {
			outExt = c.OutVia
		}
		outPath = filepath.Join(cliDir, fileName("out", n, c.Out.Format, outExt, c.NameStyle))
		defer os.Remove(outPath)
		args = append(args, flag("-o", "--output"), outPath)
		// an output file that already exists and is longer than what will be written
		// (three times the input text and padding; the output holds the input once)
		if c.Existing != 0 {
			old := strings.Repeat(priorContent(text), 2)
			var content []byte
			switch c.Existing {
			case 1:
				content = compress(old, outExt)
			case 2:
				content = []byte(old)
			}
			if c.Existing == 3 {
				cli.StaleFile(outPath, len(old)/64+2)
				if st, e := os.Stat(outPath); e == nil {
					existingSize = int(st.Size())
				}
			} else {
				if e := os.WriteFile(outPath, content, 0o644); e != nil {
					return o, fmt.Errorf("harness: %v", e)
				}
				existingSize = len(content)
			}
		}
	}
	r := cli.Run(stdin, args...)
	show := strings.Join(args, " ")
	if r.TimedOut {
		// time is not a correctness signal here
		o.Skip = true
		return o, nil
	}
	if r.Exit != 0 {
		return o, fmt.Errorf("goalign %s: exit status %d on a valid %s input, stderr %q\ninput: %s", show, r.Exit, c.In, r.Stderr, excerpt(text))
	}
	out := r.Stdout
	if outPath != "" {
		raw, e := os.ReadFile(outPath)
		if e != nil {
			return o, fmt.Errorf("goalign %s: exit status 0 but the output file is missing: %v", show, e)
		}
		back, ambiguous, e := decompress(raw, outExt)
		if ambiguous {
			o.Ambiguous++
		}
		if e != nil {
			return o, fmt.Errorf("goalign %s: the output file (which existed before with %d bytes; -1 = did not exist) is not readable by an independent %s reader: %v (%d bytes on disk)", show, existingSize, outExt, e, len(raw))
		}
		out = string(back)
		if c.Existing != 0 {
			if existingSize > len(raw) {
				o.Class("-o names an existing longer file (%s, kind %d)", outKind(c.OutVia), c.Existing)
			} else {
				o.Class("-o names an existing file that is not longer")
			}
		}
	}
	// read the output back
	var got []align.Alignment
	if c.Out.Format == "phylip" {
		p := phylip.NewParser(strings.NewReader(out), c.Out.Strict)
		ch := &align.AlignChannel{Achan: make(chan align.Alignment, 15)}
		go p.ParseMultiple(ch)
		var e error
		if got, e = drain(ch.Achan, len(want)+3); e != nil {
			return o, fmt.Errorf("goalign %s: %v", show, e)
		}
		if ch.Err != nil {
			return o, fmt.Errorf("goalign %s: the output is not read back as Phylip: %v\ninput: %s\noutput: %s", show, ch.Err, excerpt(text), excerpt(out))
		}
	} else {
		al, e := parseText(out, c.Out)
		if e != nil {
			return o, fmt.Errorf("goalign %s: the output is not read back as %s: %v\ninput: %s\noutput: %s", show, c.Out, e, excerpt(text), excerpt(out))
		}
		got = []align.Alignment{al}
	}
	if e := sameList(got, want, "goalign "+show); e != nil {
		return o, fmt.Errorf("%v\ninput: %s\noutput: %s", e, excerpt(text), excerpt(out))
	}
	if c.Out.Format == "fasta" {
		// independent reading of the FASTA output
		rows, e := cli.ParseFasta(out)
		if e != nil {
			return o, fmt.Errorf("goalign %s: unreadable FASTA output: %v", show, e)
		}
		if !gen.SameRows(rows, want[0].Rows) {
			return o, fmt.Errorf("goalign %s: independent reading of the FASTA output\n got : %s\n want: %s", show, gen.Show(rows), gen.Show(want[0].Rows))
		}
	}
	if c.Preserve && len(c.Alis) == 1 {
		// docs: "-p: input is in phylip format. Output format will also be phylip", the same for -x,
		// -u, and --auto-detect overrides them; subseq: "The output format is the same than input
		// format". The whole window (start 0, length L) is the alignment itself.
		args3 := append([]string{"subseq"}, inArgs...)
		args3 = append(args3, flag("-s", "--start"), "0", flag("-l", "--length"), fmt.Sprint(want[0].Length))
		r3 := cli.Run(stdin, args3...)
		show3 := strings.Join(args3, " ")
		if r3.TimedOut {
			o.Skip = true
			return o, nil
		}
		if r3.Exit != 0 {
			return o, fmt.Errorf("goalign %s: exit status %d on a valid %s input, stderr %q", show3, r3.Exit, c.In, r3.Stderr)
		}
		al3, e := parseText(r3.Stdout, cfg{Format: c.In.Format})
		if e != nil {
			return o, fmt.Errorf("goalign %s: the output is not in the format of the input (%s): %v\ninput: %s\noutput: %s", show3, c.In.Format, e, excerpt(text), excerpt(r3.Stdout))
		}
		if e = same(al3, want[0]); e != nil {
			return o, fmt.Errorf("goalign %s: the whole window, written in the format of the input (%s), is not the input alignment: %v\noutput: %s", show3, c.In.Format, e, excerpt(r3.Stdout))
		}
		o.Class("format-preserving command (%s input%s)", c.In.Format, map[bool]string{true: ", --auto-detect", false: ""}[c.Auto])
	}
	if c.Reread && outPath != "" {
		// the file goalign wrote under this name is read by goalign under this name
		args2 := []string{"reformat", "fasta", flag("-i", "--align"), outPath}
		switch c.Out.Format {
		case "phylip":
			args2 = append(args2, flag("-p", "--phylip"))
		case "nexus":
			args2 = append(args2, flag("-x", "--nexus"))
		case "clustal":
			args2 = append(args2, flag("-u", "--clustal"))
		}
		if c.Out.Strict {
			args2 = append(args2, "--input-strict")
		}
		r2 := cli.Run("", args2...)
		show2 := strings.Join(args2, " ")
		if r2.TimedOut {
			o.Skip = true
			return o, nil
		}
		if r2.Exit != 0 {
			return o, fmt.Errorf("goalign %s, then goalign %s: the second command fails on the file the first one wrote: exit status %d, stderr %q", show, show2, r2.Exit, r2.Stderr)
		}
		rows, e := cli.ParseFasta(r2.Stdout)
		if e != nil {
			return o, fmt.Errorf("goalign %s, then goalign %s: unreadable FASTA output: %v", show, show2, e)
		}
		if !gen.SameRows(rows, want[0].Rows) {
			return o, fmt.Errorf("goalign %s, then goalign %s: the file is not read back to the alignment written\n got : %s\n want: %s", show, show2, excerpt(gen.Show(rows)), excerpt(gen.Show(want[0].Rows)))
		}
		o.Class("output file read again by goalign (%s)", map[bool]string{true: "documented extension or none", false: "look-alike extension"}[container(outExt) != ""])
	}
	x := c.In
	if len(c.InOpts) > 0 {
		x.OneLine, x.NoBlock = c.InOpts[0].OneLine, c.InOpts[0].NoBlock
	}
	first := expand(c.Alis[0], shapeAt(c.Shapes, 0), d)
	o.Class("shape of the first alignment: %s", shapeClass(shapeAt(c.Shapes, 0)))
	ntIn := classify(&o, "in:", x, first)
	ntOut := classify(&o, "out:", c.Out, first)
	o.Class("input %s, %s", c.InVia, textClass(len(text)))
	o.Class("output %s, %s", outKind(c.OutVia), textClass(len(out)))
	if len(c.Alis) > 1 {
		o.Class("stream input %s%s, %s", map[bool]string{true: "--auto-detect", false: "-p"}[c.Auto], map[bool]string{true: " from a file", false: " from stdin"}[c.InVia != "stdin"], textClass(len(text)))
		if c.Out.Format == "phylip" {
			o.Class("stream output via %s, %s", outKind(c.OutVia), textClass(len(out)))
		}
	}
	in := c.In.Format
	if c.Auto {
		in = "auto(" + in + ")"
	}
	o.Class("%s -> %s", in, c.Out.Format)
	o.Class("input via %s", c.InVia)
	if c.In.Format == "fasta" {
		if c.Layout.Plain() {
			o.Class("fasta input: writer's layout")
		} else {
			o.Class("fasta input: other layout (wrapping/blanks/CRLF/empty lines/no final newline)")
		}
	}
	o.Class("output via %s", outKind(c.OutVia))
	o.Class("alignments in the input: %d", len(c.Alis))
	if c.In.Strict {
		o.Class("--input-strict")
	}
	o.NonTrivial = ntIn || ntOut
	return o, nil
}

func TestCLI(t *testing.T) {
	if cli.Binary() == "" {
		t.Skip("no goalign binary")
	}
	cliDir = cli.TempDir("c02cli")
	defer os.RemoveAll(cliDir)
	pbt.Run(t, genCLI, checkCLI)
}
