package c02

import (
	"fmt"
	"strings"
	"testing"

	"github.com/evolbioinfo/goalign/align"
	"pgregory.net/rapid"
	"verif/internal/gen"
	"verif/internal/pbt"
)

// Object histories. "For every alignment" includes alignments that are not fresh from a
// constructor: objects that went through other public operations before (gen.Plan), that were
// already written or read as strings, and that were edited in place between two writes. Whatever
// its history, what a writer emits must be the CURRENT content of the object: every writer is
// applied again after every edit and its output parsed back.

// present lists the residue characters of the alignment (junk and edits are drawn from them, so
// that the detected alphabet cannot change on the way)
func present(a gen.Ali) string {
	var seen [256]bool
	var b []byte
	for _, r := range a.Rows {
		for i := 0; i < len(r.Seq); i++ {
			if !seen[r.Seq[i]] {
				seen[r.Seq[i]] = true
				b = append(b, r.Seq[i])
			}
		}
	}
	return string(b)
}

// buildVia builds the object through the plan; falls back on a fresh object when the chain itself
// misbehaves (not this property's business) or leaves another alphabet than the detected one
func buildVia(a gen.Ali, p gen.Plan) (al align.Alignment, want model, usable bool, err error) {
	fresh, want, err := buildModel(a)
	if err != nil || len(p.Steps) == 0 {
		return fresh, want, true, err
	}
	a.Alphabet = "auto"
	al, ok := gen.BuildVia(a, p)
	if !ok || al == nil || al.Alphabet() != want.Alphabet || al.Length() != want.Length {
		return fresh, want, false, nil
	}
	return al, want, true, nil
}

// ---- reading an object as strings ------------------------------------------------------------

var readKinds = []string{"write", "iterate", "getsequence", "getsequencebyid", "sequence", "string", "iteratechar"}

// readObject takes the string form of the object in one of the public ways
func readObject(al align.Alignment, kind string, c cfg) {
	switch kind {
	case "write":
		_ = writeText(al, c)
	case "iterate":
		al.Iterate(func(name, seq string) bool { return false })
	case "getsequence":
		for _, r := range gen.Snapshot(al) {
			al.GetSequence(r.Name)
		}
	case "getsequencebyid":
		for i := 0; i < al.NbSequences(); i++ {
			al.GetSequenceById(i)
		}
	case "sequence":
		for i := 0; i < al.NbSequences(); i++ {
			if s, ok := al.Sequence(i); ok {
				_ = s.Sequence()
			}
		}
	case "string":
		_ = al.String()
	case "iteratechar":
		al.IterateChar(func(name string, seq []uint8) bool { return false })
	}
}

// ---- edits in place, with their model ---------------------------------------------------------

type edit struct {
	Kind string `json:"kind"` // setchar | replacechar | toupper | tolower | replace | rename
	Row  int    `json:"row,omitempty"`
	Site int    `json:"site,omitempty"`
	Char string `json:"char,omitempty"` // new residue (setchar, replacechar, replace)
	Old  string `json:"old,omitempty"`  // replaced residue (replace)
	Name string `json:"name,omitempty"` // new name (rename)
}

var editKinds = []string{"setchar", "setchar", "replacechar", "toupper", "tolower", "replace", "rename"}

func genEdit(t *rapid.T, rows []gen.Row, d dom) edit {
	e := edit{Kind: rapid.SampledFrom(editKinds).Draw(t, "edit")}
	chars := present(gen.Ali{Rows: rows})
	e.Row = rapid.IntRange(0, len(rows)-1).Draw(t, "row")
	e.Site = rapid.IntRange(0, len(rows[0].Seq)-1).Draw(t, "site")
	switch e.Kind {
	case "setchar", "replacechar":
		e.Char = string(chars[rapid.IntRange(0, len(chars)-1).Draw(t, "char")])
	case "replace":
		e.Old = string(chars[rapid.IntRange(0, len(chars)-1).Draw(t, "old")])
		e.Char = string(chars[rapid.IntRange(0, len(chars)-1).Draw(t, "char")])
	case "rename":
		used := map[string]bool{}
		var prev []string
		for _, r := range rows {
			used[r.Name] = true
			prev = append(prev, r.Name)
		}
		e.Name = genName(t, d, len(rows), used, prev)
	}
	return e
}

func (e edit) valid(rows []gen.Row, d dom) bool {
	if e.Row < 0 || e.Row >= len(rows) || e.Site < 0 || e.Site >= len(rows[0].Seq) {
		return false
	}
	one := func(s string) bool { return len(s) == 1 && strings.Contains(residueChars, s) }
	switch e.Kind {
	case "setchar", "replacechar":
		return one(e.Char)
	case "replace":
		return one(e.Char) && one(e.Old)
	case "rename":
		if !d.legal(e.Name) {
			return false
		}
		for _, r := range rows {
			if r.Name == e.Name {
				return false
			}
		}
		return true
	case "toupper", "tolower":
		return true
	}
	return false
}

func asciiMap(s string, upper bool) string {
	b := []byte(s)
	for i, c := range b {
		if upper && c >= 'a' && c <= 'z' {
			b[i] = c - 32
		}
		if !upper && c >= 'A' && c <= 'Z' {
			b[i] = c + 32
		}
	}
	return string(b)
}

// model: the content after the edit (written from the doc comments of the operations)
func (e edit) model(rows []gen.Row) []gen.Row {
	out := append([]gen.Row{}, rows...)
	switch e.Kind {
	case "setchar", "replacechar":
		b := []byte(out[e.Row].Seq)
		b[e.Site] = e.Char[0]
		out[e.Row].Seq = string(b)
	case "toupper", "tolower":
		for i := range out {
			out[i].Seq = asciiMap(out[i].Seq, e.Kind == "toupper")
		}
	case "replace":
		for i := range out {
			out[i].Seq = strings.ReplaceAll(out[i].Seq, e.Old, e.Char)
		}
	case "rename":
		out[e.Row].Name = e.Name
	}
	return out
}

// apply edits the object in place and returns the content it must hold afterwards
func (e edit) apply(al align.Alignment, rows []gen.Row) ([]gen.Row, error) {
	var err error
	switch e.Kind {
	case "setchar":
		err = al.SetSequenceChar(e.Row, e.Site, e.Char[0])
	case "replacechar":
		err = al.ReplaceChar(rows[e.Row].Name, e.Site, e.Char[0])
	case "toupper":
		al.ToUpper()
	case "tolower":
		al.ToLower()
	case "replace":
		// plain replacement (regex=false): '*' and '?' are ordinary characters
		err = al.Replace(e.Old, e.Char, false)
	case "rename":
		al.Rename(map[string]string{rows[e.Row].Name: e.Name})
	}
	if err != nil {
		return nil, fmt.Errorf("harness: edit %s refused: %v", e.Kind, err)
	}
	return e.model(rows), nil
}

// ---- the run ------------------------------------------------------------------------------------

type histCase struct {
	Ali    gen.Ali  `json:"ali"`
	Plan   gen.Plan `json:"plan"`
	Strict bool     `json:"strict"` // the strict Phylip configurations take part (names <= 10)
	Reads  []string `json:"reads"`  // how the object is read before the first edit
	First  cfg      `json:"first"`  // configuration of the first write
	Edits  []edit   `json:"edits"`
	Touch  []string `json:"touch"` // how the object is read again between an edit and the writes
}

func histCfgs(strict bool) []cfg {
	var l []cfg
	for _, c := range allCfgs {
		if !c.Strict || strict {
			l = append(l, c)
		}
	}
	return l
}

func genHist(t *rapid.T) histCase {
	var c histCase
	c.Strict = rapid.Bool().Draw(t, "strict")
	cs := histCfgs(c.Strict)
	d := domOf(cs...)
	c.Ali = genAli(t, d, 130, cs...)
	if rapid.IntRange(0, 2).Draw(t, "provenance") == 0 {
		c.Plan = gen.DrawPlan(t, c.Ali, present(c.Ali), 3)
	}
	n := rapid.IntRange(1, 3).Draw(t, "nreads")
	for i := 0; i < n; i++ {
		c.Reads = append(c.Reads, rapid.SampledFrom(readKinds).Draw(t, "read"))
	}
	c.First = cs[rapid.IntRange(0, len(cs)-1).Draw(t, "first")]
	rows := c.Ali.Rows
	ne := rapid.IntRange(1, 3).Draw(t, "nedits")
	for i := 0; i < ne; i++ {
		e := genEdit(t, rows, d)
		c.Edits = append(c.Edits, e)
		rows = e.model(rows)
		c.Touch = append(c.Touch, rapid.SampledFrom(append([]string{"none"}, readKinds...)).Draw(t, "touch"))
	}
	return c
}

func checkHist(c histCase) (o pbt.Outcome, err error) {
	cs := histCfgs(c.Strict)
	d := domOf(cs...)
	if !inDomain(c.Ali, d) || len(c.Edits) == 0 || len(c.Edits) > 8 || len(c.Reads) > 8 || !c.First.valid() || (c.First.Strict && !c.Strict) {
		o.Skip = true
		return o, nil
	}
	al, want, usable, err := buildVia(c.Ali, c.Plan)
	if err != nil {
		return o, err
	}
	if want.Alphabet == align.UNKNOWN {
		o.Skip = true
		return o, nil
	}
	if !usable {
		o.Class("provenance-unusable")
	} else if len(c.Plan.Steps) == 0 {
		o.Class("provenance: fresh")
	} else {
		o.Class("provenance: object obtained through other operations")
		for _, k := range c.Plan.Kinds() {
			o.Class("provenance step: %s", k)
		}
	}
	// the object is read, and written a first time
	for _, k := range c.Reads {
		readObject(al, k, c.First)
		o.Class("read before the edit: %s", k)
	}
	if _, err = roundTrip(al, want, c.First); err != nil {
		return o, fmt.Errorf("first write (object built through %s): %v", c.Plan.String(), err)
	}
	rows := c.Ali.Rows
	nt := false
	for i, e := range c.Edits {
		if !e.valid(rows, d) {
			o.Skip = true
			return o, nil
		}
		before := rows
		if rows, err = e.apply(al, rows); err != nil {
			return o, err
		}
		changed := !gen.SameRows(before, rows)
		now := gen.Ali{Rows: rows, Alphabet: "auto"}
		m := model{Rows: rows, Length: want.Length, Alphabet: want.Alphabet}
		// an edit can remove the last protein-only letter: the object keeps its alphabet while a
		// parser detects it anew; the statement does not say which one counts
		if refAlphabet(now) != refAlphabet(c.Ali) {
			m.Alphabet = -1
			o.Ambiguous++
		}
		if i < len(c.Touch) && c.Touch[i] != "none" {
			readObject(al, c.Touch[i], c.First)
		}
		// every writer must emit the current content
		for _, x := range cs {
			if _, err = roundTrip(al, m, x); err != nil {
				return o, fmt.Errorf("object built through %s, read (%s), written as %s, then edit %d (%s) in place: the next write does not hold the current content: %v",
					c.Plan.String(), strings.Join(c.Reads, ","), c.First, i+1, e.Kind, err)
			}
		}
		o.Class("edit: %s", e.Kind)
		if changed {
			nt = true
			o.Class("edit changes the content: %s", e.Kind)
		}
	}
	o.Class("first write: %s", c.First.Format)
	o.Class("edits: %d", len(c.Edits))
	// non-trivial: the object was read as strings and then really changed before being written again
	o.NonTrivial = nt
	return o, nil
}

func TestHistory(t *testing.T) { pbt.Run(t, genHist, checkHist) }
