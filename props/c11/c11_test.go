// C11 - The command line is reproducible: same input, flags and seed, same bytes
package c11

import (
	"archive/tar"
	"bytes"
	"compress/gzip"
	"fmt"
	"io"
	"log"
	"math"
	"os"
	"path/filepath"
	"sort"
	"strconv"
	"strings"
	"testing"
	"time"

	"pgregory.net/rapid"
	"verif/internal/cli"
	"verif/internal/gen"
	"verif/internal/pbt"
)

func TestMain(m *testing.M) {
	log.SetOutput(io.Discard)
	pbt.Main(m, "C11")
}

// Two defects found with this check have been repaired in the repository ("fix:" commits f25e994 and
// 21f2412, see FINDINGS.md): phase/phasent printed their records in worker-arrival order when
// --threads > 1, and trim name/rename wrote the name map file in map iteration order. Both are now
// under the plain byte-identity oracle; TestPhaseOrder and TestNameMapOrder keep the original
// reproductions as regressions.

// ---- one execution of the binary ---------------------------------------------------------------

// snap is everything the property observes of one execution: exit status, standard output and
// every file the command created in its (fresh) working directory
type snap struct {
	Exit     int
	TimedOut bool
	Stdout   string
	Stderr   string // not compared: error messages carry a time stamp
	Files    map[string]string
	// TarSeen: an output was a tar archive; its member names and contents are compared, not
	// the header time stamps (an archive records when it was made, like a file system does)
	TarSeen bool
	// Compressed: an output file is a .gz, .xz or tar file (formats that can carry a time stamp)
	Compressed bool
}

var execSeq int

// execute runs goalign with the arguments in a fresh working directory below caseDir and
// collects what it produced. Input files live in caseDir and are given by absolute path.
func execute(caseDir, stdin string, args []string) snap {
	return executeStale(caseDir, stdin, args, nil)
}

// executeStale: same, but the working directory already holds the named files (file name -> number
// of lines), with a longer stale content of "an earlier run": a command must replace the files it
// writes, what is read back must be what is read back when they did not exist
func executeStale(caseDir, stdin string, args []string, stale map[string]int) snap {
	execSeq++
	wd := filepath.Join(caseDir, fmt.Sprintf("x%d", execSeq))
	if err := os.MkdirAll(wd, 0o755); err != nil {
		panic(err)
	}
	defer os.RemoveAll(wd)
	for name, lines := range stale {
		p := filepath.Join(wd, name)
		os.MkdirAll(filepath.Dir(p), 0o755)
		cli.StaleFile(p, lines)
	}
	r := cli.RunIn(wd, stdin, args...)
	s := snap{Exit: r.Exit, TimedOut: r.TimedOut, Stdout: r.Stdout, Stderr: r.Stderr, Files: map[string]string{}}
	filepath.Walk(wd, func(p string, info os.FileInfo, err error) error {
		if err != nil || info.IsDir() {
			return nil
		}
		rel, _ := filepath.Rel(wd, p)
		b, _ := os.ReadFile(p)
		if strings.HasSuffix(rel, ".tar") || strings.HasSuffix(rel, ".tar.gz") {
			if txt, ok := tarMembers(b, strings.HasSuffix(rel, ".gz")); ok {
				s.TarSeen = true
				s.Compressed = true
				s.Files[rel] = txt
				if strings.HasSuffix(rel, ".gz") {
					// the gzip layer around the archive has a header of its own
					s.Files[rel+" [gzip header]"] = gzipHeader(b)
				}
				return nil
			}
		}
		s.Files[rel] = string(b)
		if strings.HasSuffix(rel, ".xz") {
			s.Compressed = true
		}
		if strings.HasSuffix(rel, ".gz") {
			s.Compressed = true
			s.Files[rel+" [gzip header]"] = gzipHeader(b)
			// the compressed bytes are compared, and so is what they decompress to (with the
			// harness's own reader): the second comparison names the differing line
			if txt, ok := gunzip(b); ok {
				s.Files[rel+" [decompressed]"] = txt
			} else {
				s.Files[rel+" [decompressed]"] = "(not a readable gzip stream)"
			}
		}
		return nil
	})
	return s
}

// gzipHeader: the header fields of a gzip stream read with compress/gzip: they must be the same on
// every execution (the unchanged tree writes no name, no comment and a zero modification time)
func gzipHeader(b []byte) string {
	g, err := gzip.NewReader(bytes.NewReader(b))
	if err != nil {
		return "(not a gzip stream: " + err.Error() + ")"
	}
	mt := int64(0)
	if !g.ModTime.IsZero() {
		mt = g.ModTime.Unix()
	}
	return fmt.Sprintf("name=%q comment=%q modtime=%d os=%d extra=%q", g.Name, g.Comment, mt, g.OS, g.Extra)
}

func gunzip(b []byte) (string, bool) {
	g, err := gzip.NewReader(bytes.NewReader(b))
	if err != nil {
		return "", false
	}
	out, err := io.ReadAll(g)
	if err != nil {
		return "", false
	}
	return string(out), true
}

// tarMembers lists the members of an archive: name, size and bytes of every entry, in order
func tarMembers(b []byte, gz bool) (string, bool) {
	var rd io.Reader = bytes.NewReader(b)
	if gz {
		g, err := gzip.NewReader(rd)
		if err != nil {
			return "", false
		}
		rd = g
	}
	tr := tar.NewReader(rd)
	var sb strings.Builder
	for {
		h, err := tr.Next()
		if err == io.EOF {
			break
		}
		if err != nil {
			return "", false
		}
		content, err := io.ReadAll(tr)
		if err != nil {
			return "", false
		}
		fmt.Fprintf(&sb, "== member %q mode %o size %d\n%s\n", h.Name, h.Mode, len(content), content)
	}
	return sb.String(), true
}

func (s snap) empty() bool {
	if strings.TrimSpace(s.Stdout) != "" {
		return false
	}
	for _, c := range s.Files {
		if strings.TrimSpace(c) != "" {
			return false
		}
	}
	return true
}

// diffSnap describes the first difference between two executions ("" = identical bytes)
func diffSnap(a, b snap) string {
	if a.Exit != b.Exit {
		return fmt.Sprintf("exit status %d / %d", a.Exit, b.Exit)
	}
	if a.Stdout != b.Stdout {
		return "standard output differs:\n" + firstDiff(a.Stdout, b.Stdout)
	}
	names := map[string]bool{}
	for n := range a.Files {
		names[n] = true
	}
	for n := range b.Files {
		names[n] = true
	}
	list := make([]string, 0, len(names))
	for n := range names {
		list = append(list, n)
	}
	// derived entries ("… [gzip header]", "… [decompressed]") first: they give the readable message
	sort.Slice(list, func(i, j int) bool {
		di, dj := strings.HasSuffix(list[i], "]"), strings.HasSuffix(list[j], "]")
		if di != dj {
			return di
		}
		return list[i] < list[j]
	})
	for _, n := range list {
		ca, oka := a.Files[n]
		cb, okb := b.Files[n]
		if oka != okb {
			return fmt.Sprintf("output file %q written by one execution only", n)
		}
		if ca != cb {
			return fmt.Sprintf("output file %q differs:\n%s", n, firstDiff(ca, cb))
		}
	}
	return ""
}

func firstDiff(a, b string) string {
	la, lb := strings.Split(a, "\n"), strings.Split(b, "\n")
	for i := 0; i < len(la) || i < len(lb); i++ {
		var x, y string
		if i < len(la) {
			x = la[i]
		}
		if i < len(lb) {
			y = lb[i]
		}
		if x != y {
			return fmt.Sprintf("  line %d: %q\n  line %d: %q", i+1, clip(x, 200), i+1, clip(y, 200))
		}
	}
	return "  (same lines)"
}

func clip(s string, n int) string {
	if len(s) > n {
		return s[:n] + "…"
	}
	return s
}

// canonical forgets the order of the output records: FASTA records (header and its sequence
// lines) are sorted; any other text has its lines sorted. Used only to word the message of the two
// regressions (same records in another order / different records); the oracle is byte identity.
func canonical(s snap) snap {
	c := snap{Exit: s.Exit, Stdout: canonText(s.Stdout), Files: map[string]string{}}
	for n, t := range s.Files {
		c.Files[n] = canonText(t)
	}
	return c
}

func canonText(t string) string {
	if strings.HasPrefix(t, ">") {
		recs := strings.Split("\n"+t, "\n>")[1:]
		for i := range recs {
			recs[i] = strings.TrimRight(recs[i], "\n")
		}
		sort.Strings(recs)
		return ">" + strings.Join(recs, "\n>") + "\n"
	}
	lines := strings.Split(t, "\n")
	sort.Strings(lines)
	return strings.Join(lines, "\n")
}

// ---- input generation ------------------------------------------------------------------------------

const orfSeq = "ATGGCTAAAGGTCTGGAACGTATTCCGGATCTGAAAGCTTAA"

// tiedAlignment draws an alignment column by column; many columns have a tied majority (two or
// four characters with the same count), some are constant, gap-heavy or hold N/X
func tiedAlignment(t *rapid.T, aa bool, nmin, nmax, lmin, lmax int) []gen.Row {
	n := rapid.IntRange(nmin, nmax).Draw(t, "rows")
	if rapid.IntRange(0, 3).Draw(t, "evenrows") != 0 && n%2 == 1 && n < nmax {
		n++
	}
	l := rapid.IntRange(lmin, lmax).Draw(t, "L")
	letters := "ACGT"
	wild := byte('N')
	if aa {
		letters = "ARNDCQEGHILKMFPSTWYV"
		wild = 'X'
	}
	cols := make([][]byte, l)
	for j := 0; j < l; j++ {
		col := make([]byte, n)
		a := letters[rapid.IntRange(0, len(letters)-1).Draw(t, "a")]
		b := letters[rapid.IntRange(0, len(letters)-1).Draw(t, "b")]
		switch rapid.IntRange(0, 10).Draw(t, "colkind") {
		case 0: // constant
			for i := range col {
				col[i] = a
			}
		case 1, 2: // two-way tie (exact when n is even)
			for i := range col {
				if i%2 == 0 {
					col[i] = a
				} else {
					col[i] = b
				}
			}
		case 3: // four-way tie
			for i := range col {
				col[i] = letters[(int(a)+i)%4]
			}
		case 4: // gaps tied with a letter
			for i := range col {
				if i < n/2 {
					col[i] = '-'
				} else {
					col[i] = a
				}
			}
		case 5: // wildcard tied with a letter
			for i := range col {
				if i%2 == 0 {
					col[i] = wild
				} else {
					col[i] = a
				}
			}
		case 6: // nothing but gaps and wildcards (both cases), in equal numbers when n is even
			fillGapWild(col, wild)
		case 7: // gaps only
			for i := range col {
				col[i] = '-'
			}
		case 8: // wildcards only
			for i := range col {
				col[i] = wild
			}
		default:
			for i := range col {
				col[i] = letters[rapid.IntRange(0, len(letters)-1).Draw(t, "c")]
			}
		}
		cols[j] = col
	}
	rows := make([]gen.Row, n)
	for i := range rows {
		b := make([]byte, l)
		for j := range b {
			b[j] = cols[j][i]
		}
		rows[i] = gen.Row{Name: fmt.Sprintf("s%02d", i), Seq: string(b)}
	}
	// the first row starts with a plain letter so that the alphabet is detected as intended
	if aa {
		rows[0].Seq = "M" + rows[0].Seq[1:]
		if l > 1 {
			rows[0].Seq = rows[0].Seq[:1] + "W" + rows[0].Seq[2:]
		}
	} else {
		rows[0].Seq = "A" + rows[0].Seq[1:]
	}
	return rows
}

// fillGapWild: half gaps, half wildcards (upper and lower case alternating)
func fillGapWild(col []byte, wild byte) {
	for i := range col {
		switch {
		case i%2 == 0:
			col[i] = '-'
		case i%4 == 1:
			col[i] = wild
		default:
			col[i] = wild + 32
		}
	}
}

// tiedWithSpecials: a tied alignment with an even number of rows that is guaranteed to hold, after
// its drawn columns, several columns of each special kind: gaps and wildcards in equal numbers, gaps
// only, wildcards only, a two-way and a four-way letter tie, gaps tied with a letter
func tiedWithSpecials(t *rapid.T, aa bool) []gen.Row {
	rows := tiedAlignment(t, aa, 2, 10, 4, 30)
	if len(rows)%2 == 1 {
		rows = append(rows, gen.Row{Name: fmt.Sprintf("s%02d", len(rows)), Seq: rows[0].Seq})
	}
	n := len(rows)
	letters, wild := "ACGT", byte('N')
	if aa {
		letters, wild = "ARND", 'X'
	}
	extra := make([][]byte, 6)
	for k := range extra {
		extra[k] = make([]byte, n)
	}
	fillGapWild(extra[0], wild)
	for i := 0; i < n; i++ {
		extra[1][i] = '-'
		extra[2][i] = wild
		extra[3][i] = letters[i%2]
		extra[4][i] = letters[i%4]
		if i%2 == 0 {
			extra[5][i] = '-'
		} else {
			extra[5][i] = letters[2]
		}
	}
	// drawn order of the special columns. Every kind comes several times (the gap/wildcard tie six
	// times, the others three times): a tie decided by the iteration order of a small Go map comes
	// out the other way in one execution out of eight only, so one such site would be seen by six
	// executions with probability 0.55; the sites are decided independently of each other
	var order []int
	for k := range extra {
		copies := 3
		if k == 0 {
			copies = 6
		}
		for c := 0; c < copies; c++ {
			order = append(order, k)
		}
	}
	for _, j := range gen.Perm(t, len(order), "specials") {
		k := order[j]
		for i := range rows {
			rows[i].Seq += string(extra[k][i])
		}
	}
	return rows
}

// orfSequences draws unaligned sequences that contain a mutated copy of an open reading frame
func orfSequences(t *rapid.T, nmin, nmax int) []gen.Row {
	n := rapid.IntRange(nmin, nmax).Draw(t, "rows")
	rows := make([]gen.Row, n)
	for i := range rows {
		body := []byte(orfSeq)
		for k := rapid.IntRange(0, 3).Draw(t, "nmut"); k > 0; k-- {
			body[rapid.IntRange(3, len(body)-4).Draw(t, "mutpos")] = "ACGT"[rapid.IntRange(0, 3).Draw(t, "mut")]
		}
		pre := gen.SeqN(t, "ACGT", rapid.IntRange(0, 7).Draw(t, "pre"))
		post := gen.SeqN(t, "ACGT", rapid.IntRange(0, 5).Draw(t, "post"))
		rows[i] = gen.Row{Name: fmt.Sprintf("s%02d", i), Seq: pre + string(body) + post}
	}
	return rows
}

func phylip(rows []gen.Row) string {
	var sb strings.Builder
	fmt.Fprintf(&sb, "   %d   %d\n", len(rows), len(rows[0].Seq))
	for _, r := range rows {
		fmt.Fprintf(&sb, "%s  %s\n", r.Name, r.Seq)
	}
	return sb.String()
}

func ungap(s string) string { return strings.ReplaceAll(s, "-", "") }

// ---- command templates -------------------------------------------------------------------------

// ctx is what a template sees of the case
type ctx struct {
	c   *sweepCase
	dir string // case directory: input files
	in  string // the main input (FASTA), absolute path
}

func (x *ctx) k(i, mod int) int { return x.c.Knobs[i%len(x.c.Knobs)] % mod }
func (x *ctx) n() int           { return len(x.c.Rows) }
func (x *ctx) l() int           { return len(x.c.Rows[0].Seq) }
func (x *ctx) name(i int) string {
	return x.c.Rows[((i%x.n())+x.n())%x.n()].Name
}
func (x *ctx) file(name, content string) string {
	p := filepath.Join(x.dir, name)
	if err := os.WriteFile(p, []byte(content), 0o644); err != nil {
		panic(err)
	}
	return p
}
func (x *ctx) pick(i int, opts ...string) string { return opts[x.k(i, len(opts))] }

// opt returns the flags when the knob says so
func (x *ctx) opt(i int, flags ...interface{}) []string {
	if x.k(i, 2) == 1 {
		return cat(flags...)
	}
	return nil
}

// opt2: two independent on/off flags driven by one knob, so that knob, knob+1, knob+2, knob+3
// run the four combinations
func (x *ctx) opt2(i int, a, b string) []string {
	var out []string
	k := x.k(i, 4)
	if k&1 == 1 {
		out = append(out, a)
	}
	if k&2 == 2 {
		out = append(out, b)
	}
	return out
}

func cat(parts ...interface{}) []string {
	var out []string
	for _, p := range parts {
		switch v := p.(type) {
		case string:
			out = append(out, v)
		case []string:
			out = append(out, v...)
		case int:
			out = append(out, fmt.Sprint(v))
		default:
			panic("cat: unsupported argument")
		}
	}
	return out
}

func frac(k int) string { return []string{"0", "0.1", "0.25", "0.5", "0.75", "1"}[k%6] }

type tmpl struct {
	Name string
	// Class: name under which the template is counted in the evidence (default: Name); variants of
	// one command share it
	Class string
	// In: kind of input the command is run on: nt | aa | any (nt or aa alignment) | codon (nt
	// alignment whose length is a multiple of 3) | orf (unaligned nucleotide sequences with an ORF) |
	// tied (even number of rows, guaranteed columns of gaps/wildcards only and tied letters)
	In string
	// Random: the command draws from math/rand: it is always run with --seed
	Random bool
	// Threads: the command hands --threads to a worker pool
	Threads bool
	// Map: its output is assembled from a Go map (order must be imposed by the code)
	Map bool
	// Compressed: the template writes a .gz, .xz or tar output (at least for some knob values): in
	// TestEveryTemplate its executions are separated by more than a second (see sweepCase.Gap)
	Compressed bool
	Args       func(x *ctx) []string
}

var ntModels = []string{"jc", "k2p", "pdist", "rawdist", "f81", "tn93", "f84"}

var templates = []tmpl{
	// ---- format conversions
	{Name: "reformat fasta", In: "any", Args: func(x *ctx) []string { return cat("reformat", "fasta", "-i", x.in, x.opt(0, "-o", "out.fa")) }},
	{Name: "reformat phylip", In: "any", Args: func(x *ctx) []string {
		return cat("reformat", "phylip", "-i", x.in, x.pick(0, "--output-strict", "--one-line", "--no-block", "--clean-names"))
	}},
	{Name: "reformat nexus", In: "any", Args: func(x *ctx) []string { return cat("reformat", "nexus", "-i", x.in) }},
	{Name: "reformat clustal", In: "any", Args: func(x *ctx) []string { return cat("reformat", "clustal", "-i", x.in) }},
	{Name: "reformat paml", In: "nt", Args: func(x *ctx) []string { return cat("reformat", "paml", "-i", x.in) }},
	{Name: "reformat tnt", In: "any", Args: func(x *ctx) []string { return cat("reformat", "tnt", "-i", x.in) }},
	{Name: "reformat fasta -p", In: "any", Args: func(x *ctx) []string {
		return cat("reformat", "fasta", "-p", "-i", x.file("in.phy", phylip(x.c.Rows)), x.opt(0, "--auto-detect"))
	}},
	{Name: "reformat nexus gz", In: "any", Compressed: true, Args: func(x *ctx) []string { return cat("reformat", "nexus", "-i", x.in, "-o", "out.nx.gz") }},
	{Name: "reformat phylip xz", Class: "reformat phylip", In: "any", Compressed: true, Args: func(x *ctx) []string {
		return cat("reformat", "phylip", "-i", x.in, "-o", x.pick(0, "out.phy.xz", "out.phy.gz"))
	}},
	{Name: "clean sites gz", Class: "clean sites", In: "any", Compressed: true, Args: func(x *ctx) []string {
		return cat("clean", "sites", "-i", x.in, "-c", "0.5", "-o", x.pick(0, "clean.fa.gz", "clean.fa.xz"), "--positions", "pos.txt.gz")
	}},
	// ---- cleaning
	{Name: "clean sites", In: "any", Map: true, Args: func(x *ctx) []string {
		return cat("clean", "sites", "-i", x.in, "-c", frac(x.k(0, 6)), "--char", x.pick(1, "GAP", "MAJ", "N", "A", "X"),
			x.opt(2, "--ends"), x.opt(3, "--ignore-gaps"), x.opt(4, "--ignore-n"), x.opt(5, "--positions", "pos.txt", "--positions-rm", "rm.txt"))
	}},
	{Name: "clean sites MAJ", Class: "clean sites", In: "tied", Map: true, Args: func(x *ctx) []string {
		return cat("clean", "sites", "-i", x.in, "-c", frac(1+x.k(1, 5)), "--char", "MAJ", x.opt2(0, "--ignore-gaps", "--ignore-n"),
			x.opt(2, "--positions", "pos.txt", "--positions-rm", "rm.txt"))
	}},
	{Name: "clean seqs", In: "any", Args: func(x *ctx) []string {
		return cat("clean", "seqs", "-i", x.in, "-c", frac(x.k(0, 6)), "--char", x.pick(1, "GAP", "N", "A"), x.opt(2, "--ignore-n"), x.opt(3, "--ignore-case"))
	}},
	// ---- computations
	{Name: "compute distance", In: "nt", Threads: true, Args: func(x *ctx) []string {
		a := cat("compute", "distance", "-i", x.in, "-m", ntModels[x.k(0, len(ntModels))], x.opt(1, "-r"), x.opt(2, "-a"))
		if x.k(3, 3) == 0 {
			a = append(a, "--alpha", x.pick(4, "0.5", "1", "2.5"))
		}
		if m := ntModels[x.k(0, len(ntModels))]; (m == "pdist" || m == "rawdist") && x.k(5, 2) == 1 {
			a = append(a, "--gap-mut", x.pick(6, "1", "2"))
		}
		return a
	}},
	{Name: "compute distance multi", Class: "compute distance", In: "nt", Threads: true, Args: func(x *ctx) []string {
		// a Phylip file with several data sets: the rows with their columns rotated and, every other
		// data set, complemented A<->C (different alignments, same names)
		var sb strings.Builder
		for j := 0; j < 3+x.k(1, 4); j++ {
			rows := make([]gen.Row, x.n())
			for i, r := range x.c.Rows {
				k := (j * 3) % len(r.Seq)
				seq := r.Seq[k:] + r.Seq[:k]
				if (i+j)%2 == 1 {
					seq = strings.NewReplacer("A", "C", "C", "A", "G", "T", "T", "G").Replace(seq)
				}
				rows[i] = gen.Row{Name: r.Name, Seq: seq}
			}
			sb.WriteString(phylip(rows))
		}
		a := cat("compute", "distance", "-p", "-i", x.file("multi.phy", sb.String()), "-m", ntModels[x.k(0, len(ntModels))], x.opt(2, "-a"))
		if x.k(3, 3) == 0 {
			a = append(a, "--alpha", "0.7")
		}
		return a
	}},
	{Name: "compute distance ranges", In: "nt", Threads: true, Args: func(x *ctx) []string {
		return cat("compute", "distance", "-i", x.in, "-m", "pdist", "--range1", fmt.Sprintf("0:%d", x.n()/2), "--range2", fmt.Sprintf("%d:%d", x.n()/2, x.n()-1))
	}},
	{Name: "compute distance aa", In: "aa", Threads: true, Args: func(x *ctx) []string {
		return cat("compute", "distance", "-i", x.in, "-m", x.pick(0, "lg", "wag", "jtt", "dayoff", "mtrev", "hivb"))
	}},
	{Name: "compute entropy", In: "any", Map: true, Args: func(x *ctx) []string {
		return cat("compute", "entropy", "-i", x.in, x.opt(0, "-a"), x.opt(1, "-g"))
	}},
	{Name: "compute pssm", In: "any", Map: true, Args: func(x *ctx) []string {
		return cat("compute", "pssm", "-i", x.in, "-n", x.k(0, 5), "-c", x.pick(1, "0", "0.01", "1"), x.opt(2, "-l"))
	}},
	{Name: "consensus", In: "tied", Map: true, Args: func(x *ctx) []string {
		return cat("consensus", "-i", x.in, x.opt2(0, "--ignore-gaps", "--ignore-n"))
	}},
	// ---- statistics
	{Name: "stats", In: "any", Map: true, Args: func(x *ctx) []string { return cat("stats", "-i", x.in) }},
	{Name: "stats per-sequences", In: "any", Map: true, Args: func(x *ctx) []string {
		return cat("stats", "-i", x.in, "--per-sequences", x.opt(0, "--ref-sequence", x.name(x.k(1, 50))))
	}},
	{Name: "stats alleles", In: "any", Map: true, Args: func(x *ctx) []string { return cat("stats", "alleles", "-i", x.in) }},
	{Name: "stats alphabet", In: "any", Args: func(x *ctx) []string { return cat("stats", "alphabet", "-i", x.in) }},
	{Name: "stats char", In: "any", Map: true, Args: func(x *ctx) []string {
		return cat("stats", "char", "-i", x.in, x.pick(0, "--per-sites", "--per-sequences", "--only=A", "--only=*"))
	}},
	{Name: "stats gaps", In: "any", Args: func(x *ctx) []string {
		return cat("stats", "gaps", "-i", x.in, x.pick(0, "--from-start", "--from-end", "--openning", "--unique"))
	}},
	{Name: "stats length", In: "any", Args: func(x *ctx) []string { return cat("stats", "length", "-i", x.in) }},
	{Name: "stats maxchar", In: "tied", Map: true, Args: func(x *ctx) []string {
		return cat("stats", "maxchar", "-i", x.in, x.opt2(0, "--ignore-gaps", "--ignore-n"))
	}},
	{Name: "stats mutations", In: "any", Map: true, Args: func(x *ctx) []string {
		return cat("stats", "mutations", "-i", x.in, "--ref-sequence", x.name(x.k(0, 50)), x.opt(1, "--unique"))
	}},
	{Name: "stats mutations list", In: "any", Map: true, Args: func(x *ctx) []string {
		return cat("stats", "mutations", "list", "-i", x.in, "--ref-sequence", x.name(x.k(0, 50)))
	}},
	{Name: "stats nalign", In: "any", Args: func(x *ctx) []string {
		return cat("stats", "nalign", "-p", "-i", x.file("multi.phy", phylip(x.c.Rows)+phylip(x.c.Rows[:1])))
	}},
	{Name: "stats nseq", In: "any", Args: func(x *ctx) []string { return cat("stats", "nseq", "-i", x.in) }},
	{Name: "stats taxa", In: "any", Args: func(x *ctx) []string { return cat("stats", "taxa", "-i", x.in) }},
	// ---- redundancy
	{Name: "dedup", In: "any", Map: true, Args: func(x *ctx) []string {
		// duplicate the first rows under new names so that there is something to group
		rows := append([]gen.Row{}, x.c.Rows...)
		for i := 0; i < 1+x.k(0, 3) && i < x.n(); i++ {
			rows = append(rows, gen.Row{Name: fmt.Sprintf("dup%d", i), Seq: x.c.Rows[i].Seq})
		}
		return cat("dedup", "-i", x.file("dup.fa", cli.Fasta(rows)), "-l", "dedup.log", x.opt(1, "--n-as-gap"), x.opt(2, "--name"))
	}},
	{Name: "compress", In: "any", Map: true, Args: func(x *ctx) []string {
		return cat("compress", "-i", x.in, "--weight-out", "weights.txt")
	}},
	// ---- several inputs
	// commands that merge several inputs get inputs whose taxon sets differ: shared names in another
	// order, names missing from a later input, several names that only a later input brings
	{Name: "concat", In: "any", Map: true, Args: func(x *ctx) []string {
		second, third := otherTaxa(x, "n", 2+x.k(0, 3)), otherTaxa(x, "m", 2+x.k(1, 4))
		// the third input also holds the names the second one brought, in reverse order
		for i := len(second) - 1; i >= 0; i-- {
			if strings.HasPrefix(second[i].Name, "n") {
				third = append(third, gen.Row{Name: second[i].Name, Seq: third[0].Seq})
			}
		}
		a := cat("concat", "-i", x.in, x.file("second.fa", cli.Fasta(second)))
		if x.k(2, 3) != 0 {
			a = append(a, x.file("third.fa", cli.Fasta(third)))
		}
		return cat(a, "-l", "concat.log")
	}},
	{Name: "concat same taxa", Class: "concat", In: "any", Map: true, Args: func(x *ctx) []string {
		var rows []gen.Row
		for i := x.n() - 1; i >= 0; i-- {
			rows = append(rows, gen.Row{Name: x.c.Rows[i].Name, Seq: x.c.Rows[(i+1)%x.n()].Seq})
		}
		return cat("concat", "-i", "none", x.in, x.file("second.fa", cli.Fasta(rows)), x.in)
	}},
	{Name: "append", In: "any", Map: true, Args: func(x *ctx) []string {
		// new names, and names the first input already has (renamed or ignored by the policy)
		second := otherTaxa(x, "b", 2+x.k(0, 3))
		return cat("append", "-i", x.in, x.file("second.fa", cli.Fasta(second)), x.file("third.fa", cli.Fasta(otherTaxa(x, "c", 2))), x.pick(1, "", "--ignore-identical=1", "--ignore-identical=2"))
	}},
	{Name: "identical", In: "any", Args: func(x *ctx) []string {
		rows := append([]gen.Row{}, x.c.Rows...)
		if x.k(0, 2) == 1 {
			rows[0], rows[len(rows)-1] = rows[len(rows)-1], rows[0]
		}
		return cat("identical", "-i", x.in, "-c", x.file("second.fa", cli.Fasta(rows)))
	}},
	{Name: "diff", In: "any", Map: true, Args: func(x *ctx) []string {
		return cat("diff", "-i", x.in, x.pick(0, "--counts", "--reverse", "--one-line", "--counts"), x.opt(1, "--no-gaps"))
	}},
	{Name: "codonalign", In: "codon", Args: func(x *ctx) []string {
		// protein alignment = translation of the rows (done by goalign itself would be circular:
		// a fixed amino acid per codon is enough here, gaps every other codon of the last row)
		var aa, nt []gen.Row
		for i, r := range x.c.Rows {
			s := strings.ReplaceAll(strings.ReplaceAll(r.Seq, "-", "A"), "N", "C")
			p := strings.Repeat("LEFPQI", len(s)/3+1)[:len(s)/3]
			if i == x.n()-1 && len(p) > 1 {
				p = "-" + p[1:]
				s = s[3:]
			}
			aa = append(aa, gen.Row{Name: r.Name, Seq: p})
			nt = append(nt, gen.Row{Name: r.Name, Seq: s})
		}
		// the nucleotide file is in another order and holds sequences the protein alignment lacks
		for i, j := 0, len(nt)-1; i < j; i, j = i+1, j-1 {
			nt[i], nt[j] = nt[j], nt[i]
		}
		for k := 0; k < 1+x.k(0, 3); k++ {
			nt = append(nt, gen.Row{Name: fmt.Sprintf("only_nt%d", k), Seq: nt[0].Seq})
		}
		return cat("codonalign", "-i", x.file("prot.fa", cli.Fasta(aa)), "-f", x.file("nt.fa", cli.Fasta(nt)))
	}},
	// ---- masking, extraction
	{Name: "mask", In: "tied", Map: true, Args: func(x *ctx) []string {
		a := cat("mask", "-i", x.in)
		switch x.k(0, 4) {
		case 0:
			a = cat(a, "-s", x.k(1, x.l()), "-l", 1+x.k(2, x.l()))
		case 1:
			a = cat(a, "--pos", fmt.Sprintf("%d,%d", x.k(1, x.l()), x.k(2, x.l())))
		case 2:
			a = cat(a, "--unique", "--at-most", 1+x.k(1, 3))
		default:
			a = cat(a, "-s", x.k(1, x.l()), "-l", 1+x.k(2, 4), "--ref-seq", x.name(x.k(3, 50)))
		}
		return cat(a, "--replace", x.pick(4, "AMBIG", "MAJ", "GAP", "MAJ"), x.opt(5, "--no-gaps"))
	}},
	{Name: "subseq", In: "any", Args: func(x *ctx) []string {
		return cat("subseq", "-i", x.in, "-s", x.k(0, x.l()), "-l", 1+x.k(1, 4), x.opt(2, "-r"), x.opt(3, "--step", 1+x.k(4, 3)))
	}},
	{Name: "subsites", In: "any", Args: func(x *ctx) []string {
		if x.k(0, 3) == 0 {
			return cat("subsites", "-i", x.in, "--informative")
		}
		p := x.k(2, x.l())
		return cat("subsites", "-i", x.in, x.opt(1, "-r"), p, (p+1+x.k(3, 2))%x.l(), (p+3+x.k(4, 2))%x.l())
	}},
	{Name: "subset", In: "any", Args: func(x *ctx) []string {
		return cat("subset", "-i", x.in, x.opt(0, "-r"), x.name(x.k(1, 50)), x.name(x.k(2, 50)))
	}},
	{Name: "split", In: "any", Args: func(x *ctx) []string {
		h := x.l() / 2
		part := fmt.Sprintf("M1,p1=1-%d\nM2,p2=%d-%d\n", h, h+1, x.l())
		return cat("split", "-i", x.in, "--partition", x.file("parts.txt", part), "-o", "part_")
	}},
	{Name: "extract", In: "codon", Args: func(x *ctx) []string {
		coords := fmt.Sprintf("0\t3\tg1\n3\t%d\tg2\n", x.l())
		return cat("extract", "-i", x.in, "--coordinates", x.file("coords.txt", coords), "--translate", x.pick(0, "-1", "0"), "-o", ".")
	}},
	{Name: "divide", In: "any", Args: func(x *ctx) []string {
		return cat("divide", "-p", "-i", x.file("multi.phy", phylip(x.c.Rows)+phylip(x.c.Rows)), "-o", "div", x.opt(0, "-f"), x.opt(1, "--nb-sequences", 1+x.k(2, 3)))
	}},
	{Name: "divide compress", Class: "divide", In: "any", Compressed: true, Args: func(x *ctx) []string {
		return cat("divide", "-p", "-i", x.file("multi.phy", phylip(x.c.Rows)+phylip(x.c.Rows)), "-o", "div", "--compress", x.opt(0, "-f"))
	}},
	{Name: "transpose", In: "any", Args: func(x *ctx) []string { return cat("transpose", "-i", x.in) }},
	// ---- names and order
	{Name: "rename", In: "any", Map: true, Args: func(x *ctx) []string {
		switch x.k(0, 3) {
		case 0:
			var m strings.Builder
			for i, r := range x.c.Rows {
				if i%2 == 0 {
					fmt.Fprintf(&m, "%s\tnew%d\n", r.Name, i)
				}
			}
			return cat("rename", "-i", x.in, "-m", x.file("map.txt", m.String()), x.opt(1, "-r"))
		case 1:
			return cat("rename", "-i", x.in, "-e", "s(\\d)", "-b", "t$1", "-m", "outmap.txt")
		}
		return cat("rename", "-i", x.in, "--clean-names", "-m", "outmap.txt")
	}},
	{Name: "sort", In: "any", Args: func(x *ctx) []string {
		rows := append([]gen.Row{}, x.c.Rows...)
		for i, j := 0, len(rows)-1; i < j; i, j = i+1, j-1 {
			rows[i], rows[j] = rows[j], rows[i]
		}
		return cat("sort", "-i", x.file("rev.fa", cli.Fasta(rows)))
	}},
	{Name: "addid", In: "any", Args: func(x *ctx) []string { return cat("addid", "-i", x.in, "-n", "id_", x.opt(0, "-r")) }},
	{Name: "trim name", In: "any", Map: true, Args: func(x *ctx) []string {
		if x.k(0, 2) == 0 {
			return cat("trim", "name", "-i", x.in, "-a", "-m", "map.txt")
		}
		return cat("trim", "name", "-i", x.in, "-n", 3, "-m", "map.txt")
	}},
	{Name: "trim seq", In: "any", Args: func(x *ctx) []string {
		return cat("trim", "seq", "-i", x.in, "-n", 1+x.k(0, 3), x.opt(1, "-s"))
	}},
	{Name: "replace", In: "any", Args: func(x *ctx) []string {
		if x.k(0, 2) == 0 {
			return cat("replace", "-i", x.in, "-s", "-", "-n", "N")
		}
		return cat("replace", "-i", x.in, "-e", "-s", "A.", "-n", "--")
	}},
	// ---- strands, case, translation
	{Name: "revcomp", In: "nt", Args: func(x *ctx) []string { return cat("revcomp", "-i", x.in, x.opt(0, x.name(x.k(1, 50)))) }},
	{Name: "tolower", In: "any", Args: func(x *ctx) []string { return cat("tolower", "-i", x.in) }},
	{Name: "unalign", In: "any", Args: func(x *ctx) []string { return cat("unalign", "-i", x.in) }},
	{Name: "translate", In: "codon", Args: func(x *ctx) []string {
		return cat("translate", "-i", x.in, "--phase", x.pick(0, "-1", "0", "1", "2"), "--genetic-code", x.pick(1, "standard", "mitov", "mitoi"), x.opt(2, "--unaligned"))
	}},
	{Name: "orf", In: "orf", Args: func(x *ctx) []string { return cat("orf", "-i", x.in, x.opt(0, "--reverse")) }},
	{Name: "phase", In: "orf", Threads: true, Args: func(x *ctx) []string {
		return cat("phase", "-i", x.in, "--unaligned", "-o", "phased.fa", "--aa-output", "phased.aa.fa", "-l", "phase.log", x.opt(0, "--reverse"), x.opt(1, "--cut-end"))
	}},
	{Name: "phase stdout", In: "orf", Threads: true, Args: func(x *ctx) []string {
		return cat("phase", "-i", x.in, "--unaligned", x.opt(0, "--reverse"), "--match-cutoff", x.pick(1, "0.5", "0.8", "-1"))
	}},
	{Name: "phasent", In: "orf", Threads: true, Args: func(x *ctx) []string {
		return cat("phasent", "-i", x.in, "--unaligned", "-o", "phased.fa", "--aa-output", "phased.aa.fa", "-l", "phase.log", x.opt(0, "--reverse"), x.opt(1, "--cut-end"))
	}},
	{Name: "sw", In: "orf", Args: func(x *ctx) []string {
		two := []gen.Row{x.c.Rows[0], x.c.Rows[x.n()-1]}
		if two[1].Name == two[0].Name {
			two[1].Name = "other"
		}
		return cat("sw", "-i", x.file("two.fa", cli.Fasta(two)), "-l", "sw.log", x.opt(0, "--match", "2", "--mismatch", "-1"))
	}},
	// ---- randomised commands (always seeded)
	{Name: "shuffle sites", In: "any", Random: true, Args: func(x *ctx) []string {
		return cat("shuffle", "sites", "-i", x.in, "-r", frac(1+x.k(0, 5)), x.opt(1, "--rogue", "0.4", "--rogue-file", "rogues.txt"), x.opt(2, "--stable-rogues"))
	}},
	{Name: "shuffle seqs", In: "any", Random: true, Args: func(x *ctx) []string { return cat("shuffle", "seqs", "-i", x.in) }},
	{Name: "shuffle rogue", In: "any", Random: true, Args: func(x *ctx) []string {
		return cat("shuffle", "rogue", "-i", x.in, "-l", frac(1+x.k(0, 5)), "-n", frac(1+x.k(1, 5)), "--rogue-file", "rogues.txt")
	}},
	{Name: "shuffle recomb", In: "any", Random: true, Args: func(x *ctx) []string {
		return cat("shuffle", "recomb", "-i", x.in, "-l", frac(1+x.k(0, 4)), "-n", frac(1+x.k(1, 3)), x.opt(2, "--swap"))
	}},
	{Name: "shuffle swap", In: "any", Random: true, Args: func(x *ctx) []string {
		return cat("shuffle", "swap", "-i", x.in, "-r", frac(1+x.k(0, 5)))
	}},
	{Name: "sample seqs", In: "any", Random: true, Args: func(x *ctx) []string {
		return cat("sample", "seqs", "-i", x.in, "-n", 1+x.k(0, x.n()), x.opt(1, "-s", 2, "-o", "sample.fa"))
	}},
	{Name: "sample sites", In: "any", Random: true, Args: func(x *ctx) []string {
		return cat("sample", "sites", "-i", x.in, "-l", 1+x.k(0, x.l()), x.opt(1, "--consecutive=false"), x.opt(2, "-n", 3, "-o", "sites"))
	}},
	{Name: "sample rarefy", In: "any", Random: true, Map: true, Args: func(x *ctx) []string {
		// counts with ties on purpose (three values at most, all equal for one knob value in four),
		// and a sample smaller than the sum of the counts (a larger one is an error)
		var m strings.Builder
		total := 0
		for i, r := range x.c.Rows {
			cnt := 1 + (i+x.k(0, 3))%3
			if x.k(3, 4) == 0 {
				cnt = 2
			}
			total += cnt
			fmt.Fprintf(&m, "%s\t%d\n", r.Name, cnt)
		}
		return cat("sample", "rarefy", "-i", x.in, "-c", x.file("counts.txt", m.String()), "-n", 1+x.k(1, total-1), x.opt(2, "-r", 2, "-o", "rare.fa"))
	}},
	{Name: "mutate snvs", In: "any", Random: true, Args: func(x *ctx) []string {
		return cat("mutate", "snvs", "-i", x.in, "-r", frac(1+x.k(0, 5)))
	}},
	{Name: "mutate gaps", In: "any", Random: true, Args: func(x *ctx) []string {
		return cat("mutate", "gaps", "-i", x.in, "-r", frac(1+x.k(0, 5)), "-n", frac(1+x.k(1, 5)))
	}},
	// every output mode the command documents: plain files, --gz, --tar, --tar --gz; drawn -o prefix,
	// -S (order of the sequences shuffled too), -f (partial bootstrap); mostly several replicates
	{Name: "build seqboot", In: "any", Random: true, Threads: true, Args: func(x *ctx) []string {
		return cat("build", "seqboot", "-i", x.in, "-n", seqbootN(x), "-o", x.pick(4, "boot", "rep_", "b.x"), x.opt(1, "-S"), x.opt(2, "-f", "0.6"))
	}},
	{Name: "build seqboot gz", Class: "build seqboot", In: "any", Random: true, Threads: true, Compressed: true, Args: func(x *ctx) []string {
		return cat("build", "seqboot", "-i", x.in, "-n", seqbootN(x), "-o", x.pick(4, "boot", "rep_", "b.x"), "--gz", x.opt(1, "-S"), x.opt(2, "-f", "0.6"))
	}},
	{Name: "build seqboot tar", Class: "build seqboot", In: "any", Random: true, Threads: true, Compressed: true, Args: func(x *ctx) []string {
		return cat("build", "seqboot", "-i", x.in, "-n", seqbootN(x), "-o", x.pick(4, "boot", "rep_", "b.x"), "--tar", x.opt(1, "-S"), x.opt(2, "-f", "0.6"))
	}},
	{Name: "build seqboot tar gz", Class: "build seqboot", In: "any", Random: true, Threads: true, Compressed: true, Args: func(x *ctx) []string {
		return cat("build", "seqboot", "-i", x.in, "-n", seqbootN(x), "-o", x.pick(4, "boot", "rep_", "b.x"), "--tar", "--gz", x.opt(1, "-S"), x.opt(2, "-f", "0.6"))
	}},
	{Name: "build seqboot partition", Class: "build seqboot", In: "any", Random: true, Threads: true, Compressed: true, Args: func(x *ctx) []string {
		h := x.l() / 2
		part := fmt.Sprintf("M1,p1=1-%d\nM2,p2=%d-%d\n", h, h+1, x.l())
		return cat("build", "seqboot", "-i", x.in, "-n", seqbootN(x), "-o", "boot", "--partition", x.file("parts.txt", part), "--out-partition", "parts_out.txt", x.pick(3, "", "--gz", "--tar", "--tar --gz"))
	}},
	{Name: "build distboot", In: "nt", Random: true, Threads: true, Args: func(x *ctx) []string {
		return cat("build", "distboot", "-i", x.in, "-n", 1+x.k(0, 6), "-m", ntModels[x.k(1, len(ntModels))], x.opt(2, "-r"), x.opt(3, "-f", "0.6"), x.opt(4, "--alpha", "0.8"))
	}},
	{Name: "build weightboot", In: "any", Random: true, Args: func(x *ctx) []string {
		return cat("build", "weightboot", "-i", x.in, "-n", 1+x.k(0, 5))
	}},
	{Name: "random", In: "any", Random: true, Args: func(x *ctx) []string {
		return cat("random", "-n", 1+x.k(0, 8), "-l", 1+x.k(1, 90), x.opt(2, "-a"), x.pick(3, "", "-p", "-x", "-u"))
	}},
}

// otherTaxa: another alignment of the same length for the commands that merge several inputs: the
// odd rows of the case in reverse order (so: names shared in another order, the even ones missing)
// followed by k rows under new names <prefix>0.. (k >= 2: several names only this input brings)
func otherTaxa(x *ctx, prefix string, k int) []gen.Row {
	var rows []gen.Row
	for i := x.n() - 1; i >= 0; i-- {
		if i%2 == 1 {
			rows = append(rows, gen.Row{Name: x.c.Rows[i].Name, Seq: x.c.Rows[(i+1)%x.n()].Seq})
		}
	}
	for j := 0; j < k; j++ {
		rows = append(rows, gen.Row{Name: fmt.Sprintf("%s%d", prefix, j), Seq: x.c.Rows[j%x.n()].Seq})
	}
	return rows
}

// seqbootN: number of replicates, 2-7 in five cases out of six (a single replicate hides every
// mix-up between replicates)
func seqbootN(x *ctx) int {
	if x.k(0, 6) == 0 {
		return 1
	}
	return 2 + x.k(5, 6)
}

func templateByName(name string) *tmpl {
	for i := range templates {
		if templates[i].Name == name {
			return &templates[i]
		}
	}
	return nil
}

// ---- the sweep: repeated executions and every --threads value ----------------------------------

type sweepCase struct {
	Cmd      string    `json:"cmd"`
	Alphabet string    `json:"alphabet"`
	Rows     []gen.Row `json:"rows"`
	Knobs    []int     `json:"knobs"`
	Seed     int64     `json:"seed"`
	// Seeded: --seed is given. Always true for a randomised command; drawn for the others, which
	// must be deterministic without it ("seedless determinism")
	Seeded bool `json:"seeded"`
	// Threads: the first value is executed Repeat times, every other value once
	Threads []int `json:"threads"`
	Repeat  int   `json:"repeat"`
	// Gap: when the first execution wrote a compressed file (.gz, .xz, tar), wait 1.1 s before the
	// second one, so that the two executions do not fall in the same second of the clock (the
	// resolution of the time stamps those formats can carry)
	Gap bool `json:"gap,omitempty"`
	// Layout: from the second execution on, the main FASTA input is presented in this layout
	// (wrapped lines, blank-separated blocks, CRLF, empty lines, no final newline): same alignment,
	// the output must not depend on it
	Layout cli.Layout `json:"layout"`
	// Stale: from the second execution on, every file the first execution created exists already,
	// with a longer stale content
	Stale bool `json:"stale,omitempty"`
}

func genInput(t *rapid.T, kind string) (string, []gen.Row) {
	switch kind {
	case "aa":
		return "aa", tiedAlignment(t, true, 2, 10, 4, 30)
	case "codon":
		rows := tiedAlignment(t, false, 2, 8, 6, 30)
		l := len(rows[0].Seq) / 3 * 3
		for i := range rows {
			rows[i].Seq = rows[i].Seq[:l]
		}
		return "nt", rows
	case "orf":
		return "nt", orfSequences(t, 2, pbt.Scale(12, 40))
	case "tied":
		if rapid.IntRange(0, 3).Draw(t, "aa") == 0 {
			return "aa", tiedWithSpecials(t, true)
		}
		return "nt", tiedWithSpecials(t, false)
	case "any":
		if rapid.IntRange(0, 3).Draw(t, "aa") == 0 {
			return "aa", tiedAlignment(t, true, 2, 10, 4, 30)
		}
	}
	return "nt", tiedAlignment(t, false, 2, 10, 4, 40)
}

// seedSpecials: the values at which a seeding rule could change (sign, zero, the documented -1
// excluded, 32/64 bit limits)
var seedSpecials = []int64{0, 1, -2, -12345, math.MinInt64, math.MaxInt64, 2, -3, math.MinInt64 + 1, 1 << 31, -(1 << 31), 1<<32 + 7}

// genSeed draws a --seed value over the whole int64 range, with the values at which a seeding
// rule could change over-weighted; never -1, which is documented as "the clock"
func genSeed(t *rapid.T) int64 {
	var v int64
	switch rapid.IntRange(0, 3).Draw(t, "seedkind") {
	case 0:
		v = rapid.SampledFrom(seedSpecials).Draw(t, "seedspecial")
	case 1:
		v = rapid.Int64Range(-1000, 1000).Draw(t, "seedsmall")
	default:
		v = rapid.Int64().Draw(t, "seed")
	}
	if v == -1 {
		v = -2
	}
	return v
}

func seedClass(v int64) string {
	switch {
	case v < 0:
		return "seed<0"
	}
	return "seed>=0"
}

func genThreads(t *rapid.T) []int {
	all := []int{1, 2, 4, 16}
	p := gen.Perm(t, 4, "tperm")
	k := rapid.IntRange(2, 4).Draw(t, "nthreads")
	var out []int
	for _, i := range p[:k] {
		out = append(out, all[i])
	}
	return out
}

func genSweepFor(t *rapid.T, tp *tmpl) sweepCase {
	var c sweepCase
	c.Cmd = tp.Name
	c.Alphabet, c.Rows = genInput(t, tp.In)
	for i := 0; i < 8; i++ {
		c.Knobs = append(c.Knobs, rapid.IntRange(0, 999).Draw(t, "knob"))
	}
	c.Seed = genSeed(t)
	c.Seeded = tp.Random || rapid.Bool().Draw(t, "seeded")
	c.Threads = genThreads(t)
	c.Repeat = 3
	c.Gap = tp.Compressed && rapid.IntRange(0, 9).Draw(t, "gap") == 0
	if tp.In != "orf" && rapid.IntRange(0, 2).Draw(t, "relayout") == 0 {
		c.Layout = cli.DrawLayout(t)
	}
	c.Stale = rapid.IntRange(0, 2).Draw(t, "stale") == 0
	return c
}

func genSweep(t *rapid.T) sweepCase {
	// rapid favours small values: three draws are mixed so that the table is covered evenly
	n := len(templates)
	i := rapid.IntRange(0, n-1).Draw(t, "template") + 7*rapid.IntRange(0, n-1).Draw(t, "template2") + 13*rapid.IntRange(0, n-1).Draw(t, "template3")
	tp := &templates[i%n]
	return genSweepFor(t, tp)
}

func checkSweep(c sweepCase) (o pbt.Outcome, err error) {
	tp := templateByName(c.Cmd)
	if tp == nil {
		return o, fmt.Errorf("harness: unknown command template %q", c.Cmd)
	}
	dir := cli.TempDir("c11case")
	defer os.RemoveAll(dir)
	x := &ctx{c: &c, dir: dir}
	x.in = x.file("in.fa", cli.Fasta(c.Rows))
	base := tp.Args(x)
	var clean []string
	for _, a := range base {
		if a == "" {
			continue
		}
		clean = append(clean, strings.Fields(a)...)
	}
	if c.Seeded {
		clean = append(clean, fmt.Sprintf("--seed=%d", c.Seed))
	}
	type run struct {
		t int
		s snap
	}
	var runs []run
	waited := false
	for i, th := range c.Threads {
		rep := 1
		if i == 0 {
			rep = c.Repeat
		}
		for r := 0; r < rep; r++ {
			args := append(append([]string{}, clean...), "-t", fmt.Sprint(th))
			var stale map[string]int
			if len(runs) > 0 {
				if !c.Layout.Plain() {
					x.file("in.fa", cli.FastaLayout(c.Rows, c.Layout))
				}
				if c.Stale {
					stale = map[string]int{}
					for name, content := range runs[0].s.Files {
						if !strings.HasSuffix(name, "]") {
							stale[name] = len(content)/64 + 5
						}
					}
				}
			}
			s := executeStale(dir, "", args, stale)
			if s.TimedOut {
				// a time limit is not a correctness signal: the case is not judged
				o.Skip = true
				return o, nil
			}
			runs = append(runs, run{th, s})
			if c.Gap && len(runs) == 1 && s.Compressed {
				time.Sleep(1100 * time.Millisecond)
				waited = true
			}
		}
	}
	cmdline := "goalign " + strings.Join(clean, " ")
	ref := runs[0]
	for _, r := range runs[1:] {
		if d := diffSnap(ref.s, r.s); d != "" {
			return o, fmt.Errorf("%s -t %d and -t %d (same input, flags and seed) do not produce byte-identical output: %s", cmdline, ref.t, r.t, d)
		}
	}
	if ref.s.TarSeen {
		o.Ambiguous++
	}
	multi := false
	for _, th := range c.Threads {
		if th > 1 {
			multi = true
		}
	}
	o.NonTrivial = !ref.s.empty() && (tp.Random || (tp.Threads && multi) || tp.Map)
	// (the driver keeps 80 classes per test: one per command plus at most seven below)
	if tp.Class != "" {
		o.Class("cmd=%s", tp.Class)
	} else {
		o.Class("cmd=%s", c.Cmd)
	}
	if !c.Seeded {
		o.Class("run without --seed (command draws nothing)")
	} else if tp.Random {
		o.Class("randomised command, " + seedClass(c.Seed))
	}
	if ref.s.Exit != 0 {
		if os.Getenv("C11_DEBUG") != "" {
			fmt.Fprintf(os.Stderr, "DEBUG exit %d: %s\n   %s\n", ref.s.Exit, cmdline, clip(strings.ReplaceAll(ref.s.Stderr, "\n", " | "), 300))
		}
		o.Class("exit!=0")
	}
	if c.Stale && len(ref.s.Files) > 0 {
		o.Class("output files existed (stale, longer) from the second execution on")
	}
	if !c.Layout.Plain() {
		o.Class("FASTA input in another layout from the second execution on")
	}
	if waited {
		o.Class("compressed output, executions 1.1 s apart")
	}
	return o, nil
}

func TestSweep(t *testing.T) {
	if cli.Binary() == "" {
		t.Skip("no goalign binary")
	}
	pbt.Run(t, genSweep, checkSweep)
}

func envInt(name string, def int) int {
	if v, err := strconv.Atoi(os.Getenv(name)); err == nil {
		return v
	}
	return def
}

// TestEveryTemplate runs every template of the table on generated inputs (four per template in
// the quick tier, twelve per shard in the thorough tier), so that each command is covered in every
// run whatever the random sweep drew. The inputs are examples of the same generator, derived from
// VERIF_SEED and the shard number; cases come in groups of four whose knobs differ by 0..3, so that every
// two-valued option of a template is run both with and without it, and the randomised templates
// take their --seed from the list of special values in turn (each value at least twice per run).
func TestEveryTemplate(t *testing.T) {
	if cli.Binary() == "" {
		t.Skip("no goalign binary")
	}
	seed := envInt("VERIF_SEED", 1)*1000 + envInt("VERIF_SHARD", 0)
	rounds := pbt.Scale(1, 3)
	pbt.Enumerate(t, fmt.Sprintf("every command template of the table (%d templates) x %d generated input(s), every on/off option both ways, every option of up to four values", len(templates), 4*rounds),
		func(yield func(sweepCase) bool) {
			nrandom := 0
			for i := range templates {
				tp := &templates[i]
				g := rapid.Custom(func(rt *rapid.T) sweepCase { return genSweepFor(rt, tp) })
				for r := 0; r < rounds; r++ {
					var first sweepCase
					for v := 0; v < 4; v++ {
						c := g.Example(seed*100000 + i*100 + 4*r + v)
						if v == 0 {
							first = c
						} else {
							// same knobs plus v: an on/off option is run both ways, an option of up
							// to four values (or two on/off options on one knob) every way
							c.Knobs = append([]int{}, first.Knobs...)
							for k := range c.Knobs {
								c.Knobs[k] += v
							}
						}
						// compressed outputs: the first two executions more than a second apart; once
						// per template, for every case of a template whose output mode is a knob
						c.Gap = tp.Compressed && (v == 0 || strings.HasSuffix(tp.Name, "partition") || v == 1 && (strings.HasSuffix(tp.Name, "xz") || strings.HasSuffix(tp.Name, "sites gz")))
						if tp.Random {
							// the randomised templates go through the special seeds in turn
							c.Seed = seedSpecials[(seed+nrandom)%len(seedSpecials)]
							nrandom++
						}
						if !yield(c) {
							return
						}
					}
				}
			}
		}, checkSweep)
}
