package c11

import (
	"strconv"
	"strings"
	"unicode"
	"unicode/utf8"

	"pgregory.net/rapid"
	"verif/internal/gen"
)

// Inputs of the reformat chains: the whole set of alignments that every format of the chain can
// represent (the domain of property C02): nucleotide and protein IUPAC letters in both cases plus
// '-', '*' and '?' (no '.', the match character of Nexus), names of printable non-blank characters
// without the delimiters of the formats met along the chain, many of them taken from a
// hostile-but-legal dictionary.

const ntResidues = "ACGTURYSWKMBDHVNacgturyswkmbdhvn-*?"
const aaResidues = "ARNDCQEGHILKMFPSTWYVBZXarndcqeghilkmfpstwyvbzx-*?"

// nameDom: what the formats of a chain forbid in a name
type nameDom struct {
	Nexus  bool // no [ ] ; =
	Strict bool // strict Phylip: at most 10 bytes
}

func (d nameDom) legalRune(r rune) bool {
	if r <= ' ' || r == 0x7f || r == utf8.RuneError || unicode.IsSpace(r) || !unicode.IsPrint(r) {
		return false
	}
	// every chain starts from a FASTA file
	if r == '>' {
		return false
	}
	if d.Nexus && strings.ContainsRune("[];=", r) {
		return false
	}
	return true
}

func (d nameDom) legal(name string) bool {
	if name == "" || !utf8.ValidString(name) {
		return false
	}
	for _, r := range name {
		if !d.legalRune(r) {
			return false
		}
	}
	return !d.Strict || len(name) <= 10
}

var nameDictionary = []string{
	// pure numerics and things integer parsers accept
	"7", "0", "0001", "42", "123456789", "+5", "-3", "1e5", "0x1F", "1.0", "007",
	// collisions with the duplicate-renaming suffix
	"x_0001", "a_0001", "s1_0002", "_0001",
	// Nexus keywords in several cases
	"end", "END", "End", "data", "DATA", "matrix", "MATRIX", "gap", "GAP", "missing", "MISSING", "format", "FORMAT",
	"ntax", "nchar", "taxa", "taxlabels", "tree", "TREE", "trees", "begin", "BEGIN", "dimensions", "datatype",
	"matchchar", "characters", "#NEXUS", "#nexus", "dna", "protein",
	// Clustal and Stockholm keywords
	"clustal", "CLUSTAL", "Clustal", "clustalw", "CLUSTALW", "W", "stockholm", "STOCKHOLM", "#=GF", "//", "#",
	// strict Phylip boundary
	"abcdefghij", "0123456789", "sequence_1", "sequence_2", "abcdefghijk", "sequence_10", "sequence_11",
	"a_very_long_sequence_name_1", "a_very_long_sequence_name_2",
	// names that look like residues
	"a", "A", "-", "*", "?", "--", "ACGT", "acgt", "N", "X", "ACGT-ACGT",
	// punctuation met in real identifiers, and other formats' delimiters
	"gi|12345|ref", "a/b", "a.b", "a:b,c", "(a)", "'q'", "\"q\"", "a\\b", "%s", "%d", "%-10s", "a=b", "a;b", "[a]", "a[1]", "x=", ";",
	// non-ASCII printable
	"séq", "Ωmega", "中文名", "ж1",
}

var nonASCIIRunes = []rune("éñüßøÅΩλжЯ中日語한𝛼😀")

func hasNonASCII(rows []gen.Row) bool {
	for _, r := range rows {
		if len(r.Name) != utf8.RuneCountInString(r.Name) {
			return true
		}
	}
	return false
}

const printableChars = "!\"#$%&'()*+,-./0123456789:;<=?@ABCDEFGHIJKLMNOPQRSTUVWXYZ[\\]^_`abcdefghijklmnopqrstuvwxyz{|}~"

func isDictionaryName(n string) bool {
	for _, s := range nameDictionary {
		if s == n {
			return true
		}
	}
	return false
}

// chainRows draws n rows of length l over the whole residue set of the alphabet, with names legal
// for the domain and pairwise different
func chainRows(t *rapid.T, aa bool, n, l int, d nameDom) []gen.Row {
	chars := ntResidues
	if aa {
		chars = aaResidues
	}
	var dict []string
	for _, s := range nameDictionary {
		if d.legal(s) {
			dict = append(dict, s)
		}
	}
	used := map[string]bool{}
	variantAt := -1
	if n >= 2 && rapid.IntRange(0, 4).Draw(t, "casevariant") == 0 {
		variantAt = rapid.IntRange(1, n-1).Draw(t, "variantat")
	}
	rows := make([]gen.Row, n)
	for i := range rows {
		var name string
		switch rapid.IntRange(0, 7).Draw(t, "namekind") {
		case 7:
			// multi-byte UTF-8: 1-6 characters, each an ASCII letter/digit or a non-ASCII letter
			// (2, 3 and 4 byte encodings); goalign counts the strict Phylip name column in characters
			k := rapid.IntRange(1, 6).Draw(t, "nrunes")
			r := make([]rune, k)
			multi := false
			for j := range r {
				if rapid.IntRange(0, 2).Draw(t, "ascii") == 0 {
					r[j] = rune("abcXYZ019_"[rapid.IntRange(0, 9).Draw(t, "c")])
				} else {
					r[j] = nonASCIIRunes[rapid.IntRange(0, len(nonASCIIRunes)-1).Draw(t, "c")]
					multi = true
				}
			}
			if !multi {
				r[0] = 'ü'
			}
			name = string(r)
			for d.Strict && len(name) > 10 {
				_, sz := utf8.DecodeLastRuneInString(name)
				name = name[:len(name)-sz]
			}
		case 0, 1:
			name = "s" + strconv.Itoa(i)
		case 2, 3, 4:
			name = rapid.SampledFrom(dict).Draw(t, "dict")
		case 5:
			// lengths around the widths a writer could pad or cut names to
			ln := rapid.SampledFrom([]int{9, 10, 11, 15, 16, 24, 25, 26, 30, 31, 40, 64, 100}).Draw(t, "longlen")
			if d.Strict && ln > 10 {
				ln = 10
			}
			name = gen.SeqN(t, "abcdefghijklmnopqrstuvwxyzABCDEFGHIJKLMNOPQRSTUVWXYZ0123456789_.|", ln)
		default:
			max := 14
			if d.Strict {
				max = 10
			}
			raw := gen.SeqN(t, printableChars, rapid.IntRange(1, max).Draw(t, "namelen"))
			var b strings.Builder
			for _, r := range raw {
				if d.legalRune(r) {
					b.WriteRune(r)
				} else {
					b.WriteByte('_')
				}
			}
			name = b.String()
		}
		for k := 0; used[name]; k++ {
			suffix := strconv.Itoa(i) + strings.Repeat("x", k)
			base := name
			if d.Strict && len(base)+len(suffix) > 10 {
				base = "n"
			}
			name = base + suffix
		}
		// about one alignment in five (decided once per alignment, below) gets a name that is a
		// variant of an earlier one: same letters in another case, or another last character
		if i > 0 && i == variantAt {
			prev := rows[rapid.IntRange(0, i-1).Draw(t, "earlier")].Name
			var v string
			switch rapid.IntRange(0, 5).Draw(t, "variant") {
			case 0:
				v = strings.ToUpper(prev)
			case 1:
				v = strings.ToLower(prev)
			case 2, 3:
				v = swapCase(prev)
			default:
				v = prev[:len(prev)-1] + "Z"
				if !utf8.ValidString(v) {
					v = prev
				}
			}
			if d.legal(v) && !used[v] {
				name = v
			}
		}
		used[name] = true
		// residues: mostly the whole set, sometimes a row of one special character
		var seq string
		switch rapid.IntRange(0, 9).Draw(t, "rowkind") {
		case 0:
			seq = strings.Repeat(rapid.SampledFrom([]string{"?", "*", "-", "N", "n", "x"}).Draw(t, "fill"), l)
		default:
			seq = gen.SeqN(t, chars, l)
		}
		rows[i] = gen.Row{Name: name, Seq: seq}
	}
	return rows
}

func swapCase(s string) string {
	b := []byte(s)
	for i, c := range b {
		switch {
		case c >= 'a' && c <= 'z':
			b[i] = c - 32
		case c >= 'A' && c <= 'Z':
			b[i] = c + 32
		}
	}
	return string(b)
}

// caseVariantNames tells whether two names of the rows differ by case only
func caseVariantNames(rows []gen.Row) bool {
	seen := map[string]string{}
	for _, r := range rows {
		k := strings.ToLower(r.Name)
		if o, ok := seen[k]; ok && o != r.Name {
			return true
		}
		seen[k] = r.Name
	}
	return false
}
