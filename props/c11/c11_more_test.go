package c11

import (
	"fmt"
	"os"
	"strings"
	"testing"

	"pgregory.net/rapid"
	"verif/internal/cli"
	"verif/internal/gen"
	"verif/internal/pbt"
)

// ---- reformat chains: back to the first format, byte for byte ---------------------------------

type chainCase struct {
	Alphabet string    `json:"alphabet"`
	Rows     []gen.Row `json:"rows"`
	// Formats: the first one is the starting format, the chain returns to it at the end
	Formats []string `json:"formats"`
	// Phylip: how phylip files are written along the chain: "" | strict | one-line | no-block
	Phylip string `json:"phylip"`
	// Pipe[i]: step i reads its input from standard input and writes to standard output
	Pipe []bool `json:"pipe"`
	// Auto[i]: step i reads its input with --auto-detect instead of the format flag (documented for
	// fasta, nexus, phylip - read as not strict - and clustal)
	Auto []bool `json:"auto"`
}

var chainFormats = []string{"fasta", "phylip", "nexus", "clustal"}

func readFlags(format, phylipMode string) []string {
	switch format {
	case "phylip":
		if phylipMode == "strict" {
			return []string{"-p", "--input-strict"}
		}
		return []string{"-p"}
	case "nexus":
		return []string{"-x"}
	case "clustal":
		return []string{"-u"}
	}
	return nil
}

func writeFlags(format, phylipMode string) []string {
	if format == "phylip" {
		switch phylipMode {
		case "strict":
			return []string{"--output-strict"}
		case "one-line":
			return []string{"--one-line"}
		case "no-block":
			return []string{"--no-block"}
		}
	}
	return nil
}

func genChain(t *rapid.T) chainCase {
	var c chainCase
	aa := rapid.IntRange(0, 2).Draw(t, "aa") == 0
	c.Alphabet = "nt"
	if aa {
		c.Alphabet = "aa"
	}
	// lengths around the line widths of the writers
	l := rapid.SampledFrom([]int{1, 2, 9, 10, 11, 49, 50, 51, 59, 60, 61, 79, 80, 81, 119, 120, 121}).Draw(t, "Lw")
	if rapid.Bool().Draw(t, "Lfree") {
		l = rapid.IntRange(1, 130).Draw(t, "Lf")
	}
	c.Formats = append(c.Formats, rapid.SampledFrom(chainFormats).Draw(t, "first"))
	k := rapid.IntRange(1, 5).Draw(t, "steps")
	for i := 0; i < k; i++ {
		f := rapid.SampledFrom(chainFormats).Draw(t, "next")
		c.Formats = append(c.Formats, f)
	}
	c.Phylip = rapid.SampledFrom([]string{"", "", "strict", "one-line", "no-block"}).Draw(t, "phylip")
	for i := 0; i <= k; i++ {
		c.Pipe = append(c.Pipe, rapid.IntRange(0, 2).Draw(t, "pipe") == 0)
		c.Auto = append(c.Auto, rapid.IntRange(0, 3).Draw(t, "auto") == 0)
	}
	// names: whatever every format met along the chain can represent
	var d nameDom
	for _, f := range c.Formats {
		if f == "nexus" {
			d.Nexus = true
		}
		if f == "phylip" && c.Phylip == "strict" {
			d.Strict = true
		}
	}
	if rapid.IntRange(0, 4).Draw(t, "tied") == 0 {
		// the column-wise generator of the sweep (tied columns, plain names)
		c.Rows = tiedAlignment(t, aa, 1, 8, l, l)
	} else {
		c.Rows = chainRows(t, aa, rapid.IntRange(1, 8).Draw(t, "rows"), l, d)
	}
	return c
}

func checkChain(c chainCase) (o pbt.Outcome, err error) {
	dir := cli.TempDir("c11chain")
	defer os.RemoveAll(dir)
	first := c.Formats[0]
	// the starting file is written by goalign from the generated rows
	src := cli.TempFile(dir, ".fa", cli.Fasta(c.Rows))
	args := append([]string{"reformat", first, "-i", src}, writeFlags(first, c.Phylip)...)
	r := cli.Run("", args...)
	if r.Exit != 0 {
		return o, fmt.Errorf("goalign %s: exit %d on a generated alignment: %s", strings.Join(args, " "), r.Exit, clip(r.Stderr, 300))
	}
	start := r.Stdout
	cur, curFormat := start, first
	steps := append(append([]string{}, c.Formats[1:]...), first)
	var trace []string
	autoUsed := false
	for i, next := range steps {
		args := append([]string{"reformat", next}, readFlags(curFormat, c.Phylip)...)
		if len(c.Auto) > 0 && c.Auto[i%len(c.Auto)] && !(curFormat == "phylip" && c.Phylip == "strict") {
			args = []string{"reformat", next, "--auto-detect"}
			autoUsed = true
		}
		args = append(args, writeFlags(next, c.Phylip)...)
		var res cli.Result
		if c.Pipe[i%len(c.Pipe)] {
			res = cli.Run(cur, args...)
			trace = append(trace, "goalign "+strings.Join(args, " ")+" < previous")
		} else {
			in := cli.TempFile(dir, "."+curFormat, cur)
			out := in + ".out"
			args = append(args, "-i", in, "-o", out)
			res = cli.Run("", args...)
			trace = append(trace, "goalign "+strings.Join(args, " "))
			if res.Exit == 0 {
				b, e := os.ReadFile(out)
				if e != nil {
					return o, fmt.Errorf("%s: no output file", trace[len(trace)-1])
				}
				res.Stdout = string(b)
			}
		}
		if res.TimedOut {
			o.Skip = true
			return o, nil
		}
		if res.Exit != 0 {
			return o, fmt.Errorf("step %d of the chain %v fails on a file written by goalign: %s: exit %d: %s\ninput of the step:\n%s", i+1, c.Formats, trace[len(trace)-1], res.Exit, clip(res.Stderr, 300), clip(cur, 600))
		}
		cur, curFormat = res.Stdout, next
	}
	if cur != start {
		return o, fmt.Errorf("the chain %v (phylip mode %q) does not return the starting bytes:\n%s\nsteps:\n  %s", c.Formats, c.Phylip, firstDiff(start, cur), strings.Join(trace, "\n  "))
	}
	distinct := map[string]bool{}
	for _, f := range c.Formats {
		distinct[f] = true
	}
	o.NonTrivial = len(distinct) >= 2 && strings.TrimSpace(start) != ""
	o.Class("first=%s", first)
	o.Class("formats-in-chain=%d", len(distinct))
	o.Class("alphabet=%s", c.Alphabet)
	hostile, special := false, map[byte]bool{}
	for _, r := range c.Rows {
		if isDictionaryName(r.Name) {
			hostile = true
		}
		for _, ch := range []byte("?*-") {
			if strings.IndexByte(r.Seq, ch) >= 0 {
				special[ch] = true
			}
		}
		if strings.ToUpper(r.Seq) != r.Seq {
			special['a'] = true
		}
	}
	if hostile {
		o.Class("a name of the hostile dictionary")
	}
	if autoUsed {
		o.Class("a step reads with --auto-detect")
	}
	if hasNonASCII(c.Rows) {
		o.Class("a name with multi-byte characters")
		if c.Phylip == "strict" && distinct["phylip"] {
			o.Class("a name with multi-byte characters through strict Phylip")
		}
	}
	if caseVariantNames(c.Rows) {
		o.Class("two names differing by case only")
	}
	for _, r := range c.Rows {
		if len(r.Name) > 25 {
			o.Class("a name longer than 25 characters")
			break
		}
	}
	if special['?'] {
		o.Class("residues contain ?")
	}
	if special['*'] {
		o.Class("residues contain *")
	}
	if special['a'] {
		o.Class("lower case residues")
	}
	if distinct["phylip"] {
		o.Class("phylip-mode=%q", c.Phylip)
	}
	return o, nil
}

func TestReformatChain(t *testing.T) {
	if cli.Binary() == "" {
		t.Skip("no goalign binary")
	}
	pbt.Run(t, genChain, checkChain)
}

// ---- seqboot + compute distance == distboot ---------------------------------------------------

type bootCase struct {
	Protein bool      `json:"protein"`
	Rows    []gen.Row `json:"rows"`
	N       int       `json:"n"`
	Seed    int64     `json:"seed"`
	Model   string    `json:"model"`
	RmGaps  bool      `json:"rmgaps"`
	Alpha   string    `json:"alpha"` // "" = no gamma
	Frac    string    `json:"frac"`  // "" = full bootstrap
	Gz      bool      `json:"gz"`    // the seqboot side writes gzipped replicates (--gz)
	// Multi: the replicates are written in Phylip (-p), put one after the other in one file and
	// given to a single compute distance execution (a multi-alignment input)
	Multi   bool  `json:"multi"`
	Threads []int `json:"threads"` // seqboot, compute distance, distboot
}

func genBoot(t *rapid.T) bootCase {
	var c bootCase
	c.Protein = rapid.IntRange(0, 3).Draw(t, "protein") == 0
	if c.Protein {
		c.Rows = tiedAlignment(t, true, 2, 6, 4, 30)
	} else {
		c.Rows = tiedAlignment(t, false, 2, 8, 4, 40)
	}
	c.N = rapid.IntRange(1, pbt.Scale(6, 12)).Draw(t, "n")
	c.Seed = genSeed(t)
	// k2p is the default model of both commands: drawn more often
	c.Model = rapid.SampledFrom([]string{"k2p", "k2p", "k2p", "jc", "pdist", "f81", "tn93", "f84"}).Draw(t, "model")
	if c.Protein {
		// the equivalence is stated for "distance matrices", not for nucleotide models only
		c.Model = rapid.SampledFrom([]string{"lg", "wag", "jtt", "dayoff", "mtrev", "hivb"}).Draw(t, "aamodel")
	}
	c.RmGaps = rapid.IntRange(0, 2).Draw(t, "rmgaps") != 0
	c.Alpha = rapid.SampledFrom([]string{"", "", "0.5", "1", "2.5"}).Draw(t, "alpha")
	c.Frac = rapid.SampledFrom([]string{"", "", "0.5", "0.9"}).Draw(t, "frac")
	c.Gz = rapid.Bool().Draw(t, "gz")
	c.Multi = rapid.IntRange(0, 2).Draw(t, "multi") == 0
	for i := 0; i < 3; i++ {
		c.Threads = append(c.Threads, rapid.SampledFrom([]int{1, 2, 4, 16}).Draw(t, "threads"))
	}
	return c
}

func checkBoot(c bootCase) (o pbt.Outcome, err error) {
	dir := cli.TempDir("c11boot")
	defer os.RemoveAll(dir)
	in := cli.TempFile(dir, ".fa", cli.Fasta(c.Rows))
	common := []string{"-n", fmt.Sprint(c.N), fmt.Sprintf("--seed=%d", c.Seed)}
	if c.Frac != "" {
		common = append(common, "-f", c.Frac)
	}
	dist := []string{"-m", c.Model}
	if c.Protein {
		// a FASTA replicate does not carry its alphabet and a resampled protein alignment can spell
		// nucleotide codes only: the alphabet is stated, as the documentation of --alphabet provides
		dist = append(dist, "--alphabet", "aa")
	}
	if c.RmGaps {
		dist = append(dist, "-r")
	}
	if c.Alpha != "" {
		dist = append(dist, "--alpha", c.Alpha)
	}
	// 1. bootstrap alignments
	sbArgs := append(append([]string{"build", "seqboot", "-i", in, "-o", "boot"}, common...), "-t", fmt.Sprint(c.Threads[0]))
	ext := ".fa"
	if c.Multi {
		sbArgs = append(append([]string{"build", "seqboot", "-p", "-i", cli.TempFile(dir, ".phy", phylip(c.Rows)), "-o", "boot"}, common...), "-t", fmt.Sprint(c.Threads[0]))
		ext = ".ph"
	}
	if c.Gz {
		sbArgs = append(sbArgs, "--gz")
	}
	sb := execute(dir, "", sbArgs)
	if sb.TimedOut {
		o.Skip = true
		return o, nil
	}
	if sb.Exit != 0 {
		return o, fmt.Errorf("goalign %s: exit %d", strings.Join(sbArgs, " "), sb.Exit)
	}
	nfiles := 0
	for name := range sb.Files {
		if !strings.HasSuffix(name, "]") {
			nfiles++
		}
	}
	if nfiles != c.N {
		return o, fmt.Errorf("goalign %s wrote %d files for -n %d: %v", strings.Join(sbArgs, " "), nfiles, c.N, fileNames(sb.Files))
	}
	// 2. distances of each of them, in order
	var cat, multi strings.Builder
	failed := false
	for i := 0; i < c.N; i++ {
		want := fmt.Sprintf("boot%d%s", i, ext)
		if c.Gz {
			// decompressed by the harness's own gzip reader (see execute)
			want += ".gz [decompressed]"
		}
		content, ok := sb.Files[want]
		if !ok {
			return o, fmt.Errorf("goalign %s: no file %q among %v", strings.Join(sbArgs, " "), want, fileNames(sb.Files))
		}
		if c.Multi {
			multi.WriteString(content)
			continue
		}
		f := cli.TempFile(dir, ".fa", content)
		args := append(append([]string{"compute", "distance", "-i", f}, dist...), "-t", fmt.Sprint(c.Threads[1]))
		r := cli.Run("", args...)
		if r.TimedOut {
			o.Skip = true
			return o, nil
		}
		if r.Exit != 0 {
			failed = true
		}
		cat.WriteString(r.Stdout)
	}
	if c.Multi {
		// one execution on the file holding the N replicates
		args := append(append([]string{"compute", "distance", "-p", "-i", cli.TempFile(dir, ".phy", multi.String())}, dist...), "-t", fmt.Sprint(c.Threads[1]))
		r := cli.Run("", args...)
		if r.TimedOut {
			o.Skip = true
			return o, nil
		}
		if r.Exit != 0 {
			failed = true
		}
		cat.WriteString(r.Stdout)
	}
	// 3. the direct way
	dbArgs := append(append(append([]string{"build", "distboot", "-i", in}, common...), dist...), "-t", fmt.Sprint(c.Threads[2]))
	db := cli.Run("", dbArgs...)
	if db.TimedOut {
		o.Skip = true
		return o, nil
	}
	if failed {
		// an error of compute distance on one replicate: the direct way must not succeed silently
		if db.Exit == 0 {
			return o, fmt.Errorf("compute distance fails on a bootstrap replicate but goalign %s exits 0", strings.Join(dbArgs, " "))
		}
		o.Class("distance error on a replicate")
		return o, nil
	}
	if db.Exit != 0 {
		return o, fmt.Errorf("goalign %s: exit %d (%s) although compute distance succeeds on each of the %d seqboot files", strings.Join(dbArgs, " "), db.Exit, clip(db.Stderr, 200), c.N)
	}
	if db.Stdout != cat.String() {
		return o, fmt.Errorf("goalign %s differs from compute distance %v on the files of goalign %s:\n%s", strings.Join(dbArgs, " "), dist, strings.Join(sbArgs, " "), firstDiff(cat.String(), db.Stdout))
	}
	o.NonTrivial = strings.TrimSpace(db.Stdout) != "" && len(c.Rows) >= 2
	o.Class("model=%s", c.Model)
	o.Class("protein=%v", c.Protein)
	o.Class(seedClass(c.Seed))
	o.Class("n>1=%v", c.N > 1)
	o.Class("partial=%v", c.Frac != "")
	o.Class("seqboot --gz=%v", c.Gz)
	o.Class("replicates in one multi-alignment file=%v", c.Multi)
	if c.Multi && c.Threads[1] > 1 && c.N > 1 {
		o.Class("multi-alignment compute distance with -t > 1")
	}
	o.Class("gamma=%v", c.Alpha != "")
	if c.Threads[0] != c.Threads[2] {
		o.Class("different thread counts")
	}
	return o, nil
}

func fileNames(m map[string]string) []string {
	var out []string
	for n := range m {
		out = append(out, n)
	}
	return out
}

func TestBootCross(t *testing.T) {
	if cli.Binary() == "" {
		t.Skip("no goalign binary")
	}
	pbt.Run(t, genBoot, checkBoot)
}

// ---- regressions of the two repaired defects ---------------------------------------------------

// phaseInput: n fixed sequences around one ORF (no random choice: a constant input)
func phaseInput(n int) []gen.Row {
	rows := make([]gen.Row, n)
	for i := range rows {
		body := []byte(orfSeq)
		body[3+(i*7)%(len(body)-7)] = "ACGT"[i%4]
		body[3+(i*11+5)%(len(body)-7)] = "ACGT"[(i/4)%4]
		pre := strings.Repeat("GATTACA", 2)[:i%8]
		post := strings.Repeat("CTGA", 2)[:(i*3)%6]
		rows[i] = gen.Row{Name: fmt.Sprintf("s%02d", i), Seq: pre + string(body) + post}
	}
	return rows
}

type phaseRepro struct {
	Cmd       string `json:"cmd"`
	Sequences int    `json:"sequences"`
	Threads   int    `json:"threads"`
	Runs      int    `json:"runs"`
}

// orderOnly words a difference: the same records in another order, or different records
func orderOnly(a, b snap) string {
	if diffSnap(canonical(a), canonical(b)) == "" {
		return "the same records in a different order"
	}
	return "different records"
}

// TestPhaseOrder is the reproduction of the defect repaired by f25e994: 80 sequences,
// `goalign phase|phasent --unaligned -t 8`, 6 executions, all byte-identical to `-t 1`
func TestPhaseOrder(t *testing.T) {
	if cli.Binary() == "" {
		t.Skip("no goalign binary")
	}
	dir := cli.TempDir("c11phase")
	defer os.RemoveAll(dir)
	rows := phaseInput(80)
	in := cli.TempFile(dir, ".fa", cli.Fasta(rows))
	for _, cmd := range []string{"phase", "phasent"} {
		c := phaseRepro{Cmd: cmd, Sequences: len(rows), Threads: 8, Runs: 6}
		base := []string{cmd, "-i", in, "--unaligned", "-o", "phased.fa", "--aa-output", "phased.aa.fa", "-l", "phase.log"}
		one := execute(dir, "", append(append([]string{}, base...), "-t", "1"))
		if one.Exit != 0 || one.empty() {
			pbt.Fail(t, c, "goalign %s -t 1: exit %d, empty output %v", strings.Join(base, " "), one.Exit, one.empty())
			continue
		}
		ok := true
		for r := 0; r < c.Runs+1 && ok; r++ {
			th := c.Threads
			if r == c.Runs {
				th = 1
			}
			s := execute(dir, "", append(append([]string{}, base...), "-t", fmt.Sprint(th)))
			if d := diffSnap(one, s); d != "" {
				pbt.Fail(t, c, "goalign %s: execution %d with -t %d differs from -t 1 (%s): %s", strings.Join(base, " "), r+1, th, orderOnly(one, s), d)
				ok = false
			}
		}
		if !ok {
			continue
		}
		var o pbt.Outcome
		o.NonTrivial = true
		o.Class("cmd=%s", cmd)
		pbt.Note(t, c, o)
	}
	pbt.Complete(t)
}

type nameMapRepro struct {
	Cmd   string `json:"cmd"`
	Names int    `json:"names"`
	Runs  int    `json:"runs"`
}

// TestNameMapOrder is the reproduction of the defect repaired by 21f2412: 12 sequences,
// `goalign trim name -a -m map.txt` and `goalign rename -e ... -m outmap.txt`, 8 executions each
func TestNameMapOrder(t *testing.T) {
	if cli.Binary() == "" {
		t.Skip("no goalign binary")
	}
	dir := cli.TempDir("c11namemap")
	defer os.RemoveAll(dir)
	var rows []gen.Row
	for i := 0; i < 12; i++ {
		rows = append(rows, gen.Row{Name: fmt.Sprintf("seq%02d", i), Seq: strings.Repeat("ACGT", 3)[i%4 : i%4+8]})
	}
	in := cli.TempFile(dir, ".fa", cli.Fasta(rows))
	for _, v := range []struct {
		name string
		file string
		args []string
	}{
		{"trim name", "map.txt", []string{"trim", "name", "-i", in, "-a", "-m", "map.txt"}},
		{"rename", "outmap.txt", []string{"rename", "-i", in, "-e", "seq(\\d+)", "-b", "t$1", "-m", "outmap.txt"}},
		{"rename clean-names", "outmap.txt", []string{"rename", "-i", in, "--clean-names", "-m", "outmap.txt"}},
	} {
		c := nameMapRepro{Cmd: v.name, Names: len(rows), Runs: 8}
		first := execute(dir, "", v.args)
		if first.Exit != 0 || strings.TrimSpace(first.Files[v.file]) == "" {
			pbt.Fail(t, c, "goalign %s: exit %d, map file %q", strings.Join(v.args, " "), first.Exit, first.Files[v.file])
			continue
		}
		ok := true
		for r := 1; r < c.Runs && ok; r++ {
			s := execute(dir, "", v.args)
			if d := diffSnap(first, s); d != "" {
				pbt.Fail(t, c, "goalign %s: execution %d differs from the first one (%s): %s", strings.Join(v.args, " "), r+1, orderOnly(first, s), d)
				ok = false
			}
		}
		if !ok {
			continue
		}
		var o pbt.Outcome
		o.NonTrivial = true
		o.Class("cmd=%s", v.name)
		pbt.Note(t, c, o)
	}
	pbt.Complete(t)
}
