package c04

import (
	"bytes"
	"compress/gzip"
	"fmt"
	"io"
	"math"
	"os"
	"path/filepath"
	"strings"
	"testing"

	"pgregory.net/rapid"
	"verif/internal/cli"
	"verif/internal/gen"
	"verif/internal/pbt"
)

// ---- command line tier -----------------------------------------------------------------------------
//
// The same column arithmetic judges the commands. Flag semantics are taken from docs/commands/*.md and
// the flag help: subseq (-s -l --ref-seq -r --step), subsites (arguments, --sitefile, --ref-seq, -r,
// --informative), split --partition, extract --coordinates (blocks, strand, --ref-seq), trim seq,
// concat, transpose, diff, diff --reverse. The exit status must be non-zero exactly when the model
// predicts an error; a Go panic trace is a violation whatever the arguments.

type block struct {
	Starts []int  `json:"starts"`
	Ends   []int  `json:"ends"`
	Name   string `json:"name"`
	Strand string `json:"strand"` // "" (no column), "+", "-"
}

type cliCase struct {
	Cmd       string     `json:"cmd"`
	Ali       gen.Ali    `json:"ali"`
	Others    []gen.Ali  `json:"others"`
	More      []gen.Ali  `json:"more"`          // further alignments of the input file (then a Phylip stream)
	Layout    int        `json:"layout"`        // Phylip output: 0 blocks of 10 in lines of 60, 1 --one-line, 2 --no-block, 3 both
	Fasta     cli.Layout `json:"fasta_layout"`  // presentation of the FASTA input file(s)
	OutFile   int        `json:"out_file"`      // 0 standard output; -o <file>: 1 a new file, 2 an existing (stale) file
	LogFile   int        `json:"log_file"`      // concat -l: 0 none, 1 a new file, 2 an existing file
	StaleOut  bool       `json:"stale_out"`     // split / extract: the output files exist already
	GFF       bool       `json:"gff"`           // extract: the blocks are given as a GFF3 annotation (--gff)
	Translate bool       `json:"translate"`     // extract --translate 0 (standard code)
	Omit      bool       `json:"omit_defaults"` // flags whose value is the documented default are left out (subseq -s 0 -l 10, trim seq -n 1)
	NoInput   bool       `json:"no_input"`      // concat -i none: every alignment comes from the file arguments
	Start     int        `json:"start"`
	Len       int        `json:"len"`
	Step      int        `json:"step"`
	Reverse   bool       `json:"reverse"`
	Ref       string     `json:"ref"`
	Sites     []int      `json:"sites"`
	SiteFile  bool       `json:"sitefile"`
	Split     splitCase  `json:"split"`
	Blocks    []block    `json:"blocks"`
	Trim      int        `json:"trim"`
	FromStart bool       `json:"from_start"`
}

// genCLIAli: alignments whose letters the FASTA reader classifies without surprise
func genCLIAli(t *rapid.T, maxRows, minL, maxL int, forceNT bool) gen.Ali {
	n := rapid.IntRange(1, maxRows).Draw(t, "rows")
	l := genLen(t, minL, maxL)
	if rapid.IntRange(0, 19).Draw(t, "wide") == 0 && maxL >= 30 {
		l = rapid.SampledFrom([]int{59, 60, 61, 121}).Draw(t, "Lwide") // around the FASTA writer's line width
	}
	a := gen.Ali{Alphabet: "nt"}
	letters := ntPlain
	switch uni(t, 4, "alphabet") {
	case 0:
		if !forceNT {
			letters = "ACGTNacgt"
		}
	case 1:
		if !forceNT {
			a.Alphabet, letters = "aa", gen.AA20
		}
	}
	for i := 0; i < n; i++ {
		a.Rows = append(a.Rows, gen.Row{Name: fmt.Sprintf("s%d", i), Seq: genSeqRow(t, letters, l)})
	}
	return a
}

func refLen(a gen.Ali, name string) int {
	if r, ok := rowByName(a.Rows, name); ok {
		return len(nonGap(r.Seq))
	}
	return aliLen(a)
}

func genCLI(t *rapid.T, cmds []string) cliCase {
	var c cliCase
	c.Cmd = cmds[uni(t, len(cmds), "cmd")]
	strandMinus := false
	if c.Cmd == "extract" || c.Cmd == "extract-ref" {
		strandMinus = uni(t, 3, "minus") == 0
	}
	c.Ali = genCLIAli(t, 5, 1, 30, strandMinus)
	l := aliLen(c.Ali)
	switch c.Cmd {
	case "subseq":
		c.Start, c.Len = genWindow(t, l, "w")
		c.Reverse = rapid.IntRange(0, 2).Draw(t, "r") == 0
	case "subseq-ref":
		c.Ref = genRefName(t, c.Ali)
		np := refLen(c.Ali, c.Ref)
		if np > 0 && uni(t, 3, "valid") != 0 {
			c.Start = rapid.IntRange(0, np-1).Draw(t, "s")
			c.Len = rapid.IntRange(1, np-c.Start).Draw(t, "n")
			if uni(t, 3, "toend") == 0 {
				c.Len = np - c.Start
			}
		} else {
			c.Start, c.Len = genWindow(t, np, "w")
		}
		c.Reverse = rapid.IntRange(0, 2).Draw(t, "r") == 0
	case "subseq-step":
		c.Start = rapid.IntRange(0, l).Draw(t, "s")
		if rapid.IntRange(0, 5).Draw(t, "sb") == 0 {
			c.Start = bint(t, l, "sb2")
		}
		c.Len = rapid.IntRange(1, l+1).Draw(t, "n")
		if c.Start >= 0 && c.Start < l && uni(t, 4, "fits") != 0 {
			c.Len = rapid.IntRange(1, l-c.Start).Draw(t, "nfit")
		}
		c.Step = rapid.IntRange(1, 4).Draw(t, "step")
		if uni(t, 8, "hugestep") == 0 {
			c.Step = []int{math.MaxInt, math.MaxInt - 1, math.MaxInt/2 + 1}[uni(t, 3, "hs")]
		}
		if rapid.IntRange(0, 7).Draw(t, "withref") == 0 {
			c.Ref = c.Ali.Rows[0].Name
		}
	case "subsites":
		c.Sites = genSiteList(t, l, "site")
		c.SiteFile = rapid.Bool().Draw(t, "file")
		c.Reverse = rapid.IntRange(0, 2).Draw(t, "r") == 0
	case "subsites-ref":
		c.Ref = genRefName(t, c.Ali)
		c.Sites = genSiteList(t, refLen(c.Ali, c.Ref), "site")
		c.SiteFile = rapid.Bool().Draw(t, "file")
		c.Reverse = rapid.IntRange(0, 2).Draw(t, "r") == 0
	case "subsites-informative":
		// upper case letters without gaps or wildcards, so that every reading of "character" agrees;
		// columns drawn from few letters so that informative sites exist
		n := rapid.IntRange(4, 6).Draw(t, "rows4")
		c.Ali = gen.Columnwise(t, "ACGT", n, n, 1, 12, "nt")
		c.Reverse = rapid.Bool().Draw(t, "r")
		if uni(t, 3, "withref") == 0 {
			c.Ref = "s0" // documented as ignored
		}
		// gaps in the first row only: a character seen once never counts, so the readings still agree
		b := []byte(c.Ali.Rows[0].Seq)
		for i := range b {
			if uni(t, 3, "g0") == 0 {
				b[i] = '-'
			}
		}
		c.Ali.Rows[0].Seq = string(b)
	case "split":
		c.Ali = genCLIAli(t, 4, 1, 24, false)
		l = aliLen(c.Ali)
		c.Split = splitCase{PartL: l, Text: true, Spaces: rapid.IntRange(0, 3).Draw(t, "spaces"),
			CRLF: rapid.IntRange(0, 4).Draw(t, "crlf") == 0, NoEOL: rapid.IntRange(0, 3).Draw(t, "noeol") == 0}
		c.Split.Ranges = genRanges(t, l)
		for i := range c.Split.Ranges {
			c.Split.Ranges[i].Model = modelNames[rapid.IntRange(0, len(modelNames)-1).Draw(t, "model")]
		}
		switch uni(t, 10, "perturb2") {
		case 0:
			i := rapid.IntRange(0, len(c.Split.Ranges)-1).Draw(t, "which")
			switch rapid.IntRange(0, 2).Draw(t, "how") {
			case 0:
				c.Split.Ranges[i].Start = -1
			case 1:
				c.Split.Ranges[i].End = l
			case 2:
				c.Split.Ranges[i].Mod = 0
			}
		case 1:
			i := rapid.IntRange(0, len(c.Split.Ranges)-1).Draw(t, "which")
			c.Split.Ranges = append(c.Split.Ranges, c.Split.Ranges[i])
		case 2:
			if len(c.Split.Ranges) > 1 {
				i := rapid.IntRange(0, len(c.Split.Ranges)-1).Draw(t, "which")
				c.Split.Ranges = append(c.Split.Ranges[:i:i], c.Split.Ranges[i+1:]...)
			}
		case 3, 4:
			c.Split.Ranges = addBackwards(t, c.Split.Ranges, l)
		}
	case "extract", "extract-ref":
		bound := l
		if c.Cmd == "extract-ref" {
			c.Ref = genRefName(t, c.Ali)
			bound = refLen(c.Ali, c.Ref)
		}
		c.Translate = uni(t, 4, "translate") == 0
		codons := false
		if c.Translate && c.Ali.Alphabet == "nt" {
			// translation is judged on gap-free upper-case ACGT rows and blocks of whole codons, where every
			// reading of the translation rules agrees (the rest is C05's subject)
			n := len(c.Ali.Rows)
			l = rapid.IntRange(3, 24).Draw(t, "Lcodons")
			c.Ali = gen.Ali{Alphabet: "nt"}
			for i := 0; i < n; i++ {
				c.Ali.Rows = append(c.Ali.Rows, gen.Row{Name: fmt.Sprintf("s%d", i), Seq: gen.SeqN(t, ntPlain, l)})
			}
			if c.Cmd == "extract-ref" {
				c.Ref = c.Ali.Rows[uni(t, n, "tref")].Name
			}
			bound = l
			codons = true
			strandMinus = true
		}
		nlines := rapid.IntRange(1, 3).Draw(t, "lines")
		for i := 0; i < nlines; i++ {
			b := block{Name: fmt.Sprintf("orf%d", i)}
			nb := rapid.IntRange(1, 3).Draw(t, "blocks")
			for j := 0; j < nb; j++ {
				var s, e int
				if codons {
					s = rapid.IntRange(0, bound-3).Draw(t, "cs")
					e = s + 3*rapid.IntRange(1, (bound-s)/3).Draw(t, "ncodons")
				} else if bound > 0 && uni(t, 6, "valid") != 0 {
					s = rapid.IntRange(0, bound-1).Draw(t, "s")
					e = rapid.IntRange(s+1, bound).Draw(t, "e")
					if rapid.IntRange(0, 3).Draw(t, "toend") == 0 {
						e = bound
					}
				} else {
					s = bint(t, bound, "bs")
					e = bint(t, bound, "be")
				}
				b.Starts = append(b.Starts, s)
				b.Ends = append(b.Ends, e)
			}
			switch uni(t, 4, "strand") {
			case 0:
				b.Strand = "+"
			case 1:
				if strandMinus {
					b.Strand = "-"
				}
			}
			c.Blocks = append(c.Blocks, b)
		}
	case "trim":
		if rapid.Bool().Draw(t, "trimvalid") {
			c.Trim = rapid.IntRange(0, l-1).Draw(t, "trim")
		} else {
			c.Trim = bint(t, l, "trimb")
		}
		c.FromStart = rapid.Bool().Draw(t, "fromstart")
	case "concat":
		pool := []string{"n0", "n1", "n2", "n3", "n4"}
		letters := ntPlain
		if c.Ali.Alphabet == "aa" {
			letters = gen.AA20
		}
		c.Ali = genNamed(t, drawNames(t, pool, "a"), c.Ali.Alphabet, letters, genLen(t, 1, 10))
		k := rapid.IntRange(1, 2).Draw(t, "others")
		for i := 0; i < k; i++ {
			c.Others = append(c.Others, genNamed(t, drawNames(t, pool, "o"), c.Ali.Alphabet, letters, genLen(t, 1, 10)))
		}
	case "diff":
		mc := genMat(t)
		c.Ali = stripStars(mc.Ali, false)
	case "diff-reverse":
		mc := genMat(t)
		c.Ali = stripStars(mc.Ali, true)
	}
	// several alignments in one (Phylip) input file, for the commands that loop over the input stream
	if (multiCmd[c.Cmd] || c.Cmd == "concat") && uni(t, 3, "multi") == 0 {
		n := 1 + uni(t, 2, "nmore")
		for i := 0; i < n; i++ {
			c.More = append(c.More, genMore(t, c))
		}
		c.Layout = uni(t, 4, "layout")
	}
	// presentation of the input and destination of the output
	if uni(t, 3, "fastalayout") == 0 {
		c.Fasta = cli.DrawLayout(t)
	}
	if uni(t, 3, "outfile") == 0 {
		c.OutFile = 1 + uni(t, 3, "stale") // 1 new file, 2 existing file, 3 new compressed file (.gz)
	}
	if c.Cmd == "concat" && uni(t, 2, "log") == 0 {
		c.LogFile = 1 + uni(t, 3, "stalelog")
	}
	c.StaleOut = uni(t, 3, "staleout") == 0
	// documented defaults: the flag is left out when its value is the default
	if uni(t, 4, "omit") == 0 {
		c.Omit = true
		switch c.Cmd {
		case "trim":
			c.Trim = 1
		case "subseq":
			if uni(t, 2, "deflen") == 0 {
				c.Len = 10
			}
			if uni(t, 2, "defstart") == 0 {
				c.Start = 0
			}
		}
	}
	c.NoInput = c.Cmd == "concat" && uni(t, 3, "noinput") == 0
	c.GFF = (c.Cmd == "extract" || c.Cmd == "extract-ref") && uni(t, 3, "gff") == 0
	return c
}

// genMore draws a further alignment of the input stream: same kind of content as the first one, another
// length, other gap patterns, the same row names (rarely fewer rows, so that a reference can be missing)
func genMore(t *rapid.T, c cliCase) gen.Ali {
	letters := ntPlain
	if c.Ali.Alphabet == "aa" {
		letters = gen.AA20
	}
	l := aliLen(c.Ali) + rapid.IntRange(-1, 3).Draw(t, "dl")
	if l < 1 {
		l = 1
	}
	switch c.Cmd {
	case "subsites-informative":
		n := rapid.IntRange(4, 6).Draw(t, "rows4")
		a := gen.Columnwise(t, "ACGT", n, n, 1, 12, "nt")
		b := []byte(a.Rows[0].Seq)
		for i := range b {
			if uni(t, 3, "g0") == 0 {
				b[i] = '-'
			}
		}
		a.Rows[0].Seq = string(b)
		return a
	case "diff":
		return stripStars(genMat(t).Ali, false)
	case "diff-reverse":
		return stripStars(genMat(t).Ali, true)
	case "concat":
		return genNamed(t, drawNames(t, []string{"n0", "n1", "n2", "n3", "n4"}, "m"), c.Ali.Alphabet, letters, genLen(t, 1, 10))
	}
	n := len(c.Ali.Rows)
	if n > 1 && uni(t, 8, "fewer") == 0 {
		n--
	}
	a := gen.Ali{Alphabet: c.Ali.Alphabet}
	for i := 0; i < n; i++ {
		a.Rows = append(a.Rows, gen.Row{Name: c.Ali.Rows[i].Name, Seq: genSeqRow(t, letters, l)})
	}
	return a
}

// stripStars keeps the letters the command line reader takes without translation; with dots,
// rows below the first get '.' at some of the positions where they agree with the first row
func stripStars(a gen.Ali, dots bool) gen.Ali {
	out := gen.Ali{Alphabet: a.Alphabet}
	for i, r := range a.Rows {
		b := []byte(strings.ReplaceAll(strings.ReplaceAll(r.Seq, "*", "A"), ".", "C"))
		if dots && i > 0 {
			for j := range b {
				if b[j] == out.Rows[0].Seq[j] && j%2 == 0 {
					b[j] = '.'
				}
			}
		}
		out.Rows = append(out.Rows, gen.Row{Name: r.Name, Seq: string(b)})
	}
	return out
}

// expect is what the model predicts for one execution
type expect struct {
	Err    bool                 // the exit status must be non-zero
	AltErr bool                 // ... or may be non-zero (documentation leaves it open)
	Any    bool                 // documentation leaves the outcome open: anything but a crash
	Outs   [][]gen.Row          // accepted standard outputs; the first one is the primary reading
	Files  map[string][]gen.Row // expected output files
}

func ok(rows []gen.Row) expect { return expect{Outs: [][]gen.Row{rows}} }

var fails = expect{Err: true}

func complementACGT(s string) string {
	b := []byte(s)
	for i, j := 0, len(b)-1; i <= j; i, j = i+1, j-1 {
		b[i], b[j] = comp(b[j]), comp(b[i])
	}
	return string(b)
}

func comp(c byte) byte {
	switch c {
	case 'A':
		return 'T'
	case 'T':
		return 'A'
	case 'C':
		return 'G'
	case 'G':
		return 'C'
	}
	return c
}

func itoas(v []int) []string {
	out := make([]string, len(v))
	for i, x := range v {
		out[i] = fmt.Sprint(x)
	}
	return out
}

// modelWindow: rows of a (start,length) window request, or of its complement
func modelWindow(o *pbt.Outcome, rows []gen.Row, s, n int, reverse bool) expect {
	l := len(rows[0].Seq)
	valid := winValid(l, s, n)
	overhang := s >= 0 && s <= l && n >= 0 && n > l-s
	if !reverse {
		switch {
		case valid && n > 0:
			return ok(takeCols(rows, span(s, s+n)))
		case valid:
			o.Ambiguous++
			return expect{Outs: [][]gen.Row{takeCols(rows, nil)}, AltErr: true}
		case overhang:
			// the API refuses; docs/commands/subseq.md says the window stops at the end
			o.Ambiguous++
			return expect{Outs: [][]gen.Row{takeCols(rows, span(s, l))}, AltErr: true}
		}
		return fails
	}
	switch {
	case valid:
		idx := append(span(0, s), span(s+n, l)...)
		e := ok(takeCols(rows, idx))
		if n == 0 || len(idx) == 0 {
			o.Ambiguous++
			e.AltErr = true
		}
		return e
	case overhang:
		o.Ambiguous++
		return expect{Outs: [][]gen.Row{takeCols(rows, span(0, s))}, AltErr: true}
	}
	return fails
}

func modelInformative(rows []gen.Row) []int {
	var out []int
	for j := 0; j < len(rows[0].Seq); j++ {
		cnt := map[byte]int{}
		for _, r := range rows {
			cnt[r.Seq[j]]++
		}
		twice := 0
		for _, n := range cnt {
			if n >= 2 {
				twice++
			}
		}
		if twice >= 2 {
			out = append(out, j)
		}
	}
	return out
}

// multiCmd: the commands that loop over every alignment of the input stream (cmd/subseq.go, subsites.go,
// seq.go, transpose.go, diff.go: `for al := range aligns.Achan`); concat loops too, but appends them
var multiCmd = map[string]bool{"subseq": true, "subseq-ref": true, "subseq-step": true, "subsites": true, "subsites-ref": true,
	"subsites-informative": true, "trim": true, "transpose": true, "diff": true, "diff-reverse": true}

// samePhylipRows compares rows read from a Phylip stream with the expected ones; rows of an alignment
// of length 0 are not printed, their names cannot be compared
func samePhylipRows(got, want []gen.Row) bool {
	if len(got) != len(want) {
		return false
	}
	for i := range got {
		if got[i].Seq != want[i].Seq || (got[i].Name != want[i].Name && !(want[i].Seq == "" && got[i].Name == "?")) {
			return false
		}
	}
	return true
}

func checkCLI(dir string, c cliCase) (o pbt.Outcome, err error) {
	rows := c.Ali.Rows
	multi := len(c.More) > 0
	in := ""
	if multi {
		all := [][]gen.Row{rows}
		for _, a := range c.More {
			all = append(all, a.Rows)
		}
		in = cli.TempFile(dir, ".phy", cli.Phylip(all...))
	} else {
		in = cli.TempFile(dir, ".fa", cli.FastaLayout(rows, c.Fasta))
		if !c.Fasta.Plain() {
			o.Class("input:fasta-other-layout")
		}
	}
	o.Class("cmd=%s", c.Cmd)
	// plan: the arguments of the command and the model's prediction for one input alignment
	plan := func(o *pbt.Outcome, rows []gen.Row, primary bool) (args []string, exp expect, outDir string) {
		l := len(rows[0].Seq)
		switch c.Cmd {
		case "subseq":
			args = []string{"subseq", "-i", in}
			if !(c.Omit && c.Start == 0) {
				args = append(args, "-s", fmt.Sprint(c.Start))
			}
			if !(c.Omit && c.Len == 10) {
				args = append(args, "-l", fmt.Sprint(c.Len))
			}
			if c.Omit && (c.Start == 0 || c.Len == 10) {
				o.Class("subseq:default of -s / -l left out")
			}
			if c.Reverse {
				args = append(args, "-r")
			}
			exp = modelWindow(o, rows, c.Start, c.Len, c.Reverse)
			o.Class("subseq:%s reverse=%v", winClass(l, c.Start, c.Len), c.Reverse)
			o.NonTrivial = isBoundary(c.Start, l) || isBoundary(c.Start+c.Len, l)
		case "subseq-ref":
			args = []string{"subseq", "-i", in, "--ref-seq", c.Ref, "-s", fmt.Sprint(c.Start), "-l", fmt.Sprint(c.Len)}
			if c.Reverse {
				args = append(args, "-r")
			}
			ref, known := rowByName(rows, c.Ref)
			p := nonGap(ref.Seq)
			switch {
			case !known || c.Start < 0 || c.Len < 0 || c.Len > len(p)-c.Start:
				exp = fails
				o.Class("subseq-ref:refused")
			case c.Len == 0:
				o.Ambiguous++
				exp = expect{Any: true}
				o.Class("subseq-ref:zero-length")
			default:
				ws, wn := p[c.Start], p[c.Start+c.Len-1]-p[c.Start]+1
				exp = modelWindow(o, rows, ws, wn, c.Reverse)
				if wn > c.Len {
					o.Class("subseq-ref:valid-gap-inside-window reverse=%v", c.Reverse)
				} else {
					o.Class("subseq-ref:valid reverse=%v", c.Reverse)
				}
				o.NonTrivial = wn > c.Len || isBoundary(c.Start, len(p)) || isBoundary(c.Start+c.Len, len(p))
			}
		case "subseq-step":
			args = []string{"subseq", "-i", in, "-s", fmt.Sprint(c.Start), "-l", fmt.Sprint(c.Len), "--step", fmt.Sprint(c.Step)}
			if c.Ref != "" {
				// documented as incompatible
				args = append(args, "--ref-seq", c.Ref)
				exp = fails
				o.Class("subseq-step:with-ref-seq")
				break
			}
			switch {
			case winValid(l, c.Start, c.Len):
				var all []gen.Row
				k := 0
				for s := c.Start; s <= l-c.Len; s += c.Step {
					all = append(all, takeCols(rows, span(s, s+c.Len))...)
					k++
					if c.Step > l-s { // the next start is past the end (and the sum may overflow)
						break
					}
				}
				if isHuge(c.Step) {
					o.Class("subseq-step:huge-step")
				}
				if c.Step > math.MaxInt-c.Start-c.Len {
					o.Class("subseq-step:start+step+length-overflows")
				}
				exp = ok(all)
				o.Class("subseq-step:%d-windows", min(k, 4))
				o.NonTrivial = k > 1
			case c.Start >= 0 && c.Start <= l:
				o.Ambiguous++
				exp = expect{Any: true} // first window overhangs: refused by the API, truncated by the doc
				o.Class("subseq-step:first-window-overhangs")
			default:
				exp = fails
				o.Class("subseq-step:refused")
			}
		case "subsites", "subsites-ref":
			args = []string{"subsites", "-i", in}
			if c.Cmd == "subsites-ref" {
				args = append(args, "--ref-seq", c.Ref)
			}
			if c.Reverse {
				args = append(args, "-r")
			}
			if c.SiteFile && primary {
				args = append(args, "--sitefile", cli.TempFile(dir, ".txt", strings.Join(itoas(c.Sites), "\n")+"\n"))
			} else if !c.SiteFile {
				args = append(args, itoas(c.Sites)...)
			}
			bad := len(c.Sites) == 0
			pos := [][]int{c.Sites} // accepted column lists
			if c.Cmd == "subsites-ref" {
				ref, known := rowByName(rows, c.Ref)
				p := nonGap(ref.Seq)
				bad = bad || !known
				for _, s := range c.Sites {
					bad = bad || s < 0 || s >= len(p)
				}
				if !bad {
					var asc, given []int
					for _, s := range sortedSet(c.Sites) {
						asc = append(asc, p[s])
					}
					for _, s := range c.Sites {
						given = append(given, p[s])
					}
					pos = [][]int{asc}
					if !sameInts(asc, given) && !c.Reverse {
						pos = append(pos, given)
					}
					o.NonTrivial = len(p) < l
				}
			} else {
				for _, s := range c.Sites {
					bad = bad || s < 0 || s >= l
					o.NonTrivial = o.NonTrivial || isBoundary(s, l)
				}
			}
			switch {
			case bad:
				exp = fails
				o.NonTrivial = len(c.Sites) > 0
				o.Class("%s:refused", c.Cmd)
			case c.Reverse:
				in := map[int]bool{}
				for _, s := range pos[0] {
					in[s] = true
				}
				var inv []int
				for i := 0; i < l; i++ {
					if !in[i] {
						inv = append(inv, i)
					}
				}
				exp = ok(takeCols(rows, inv))
				if len(inv) == 0 {
					o.Ambiguous++
					exp.AltErr = true
				}
				o.Class("%s:valid-reverse", c.Cmd)
			default:
				for _, p := range pos {
					exp.Outs = append(exp.Outs, takeCols(rows, p))
				}
				o.Class("%s:valid", c.Cmd)
			}
		case "subsites-informative":
			args = []string{"subsites", "-i", in, "--informative"}
			if c.Ref != "" {
				args = append(args, "--ref-seq", c.Ref)
			}
			if c.Reverse {
				args = append(args, "-r")
			}
			inf := modelInformative(rows)
			switch {
			case len(inf) == 0:
				exp = fails
				o.Class("informative:none")
			case c.Reverse:
				in := map[int]bool{}
				for _, s := range inf {
					in[s] = true
				}
				var inv []int
				for i := 0; i < l; i++ {
					if !in[i] {
						inv = append(inv, i)
					}
				}
				exp = ok(takeCols(rows, inv))
				if len(inv) == 0 {
					o.Ambiguous++
					exp.AltErr = true
				}
				o.NonTrivial = len(inv) > 0
				o.Class("informative:reverse")
			default:
				exp = ok(takeCols(rows, inf))
				o.NonTrivial = len(inf) < l
				o.Class("informative:some")
			}
		case "split":
			sc := c.Split
			sc.PartL = l
			sc.Text = true
			pf := cli.TempFile(dir, ".part", partitionText(sc))
			outDir, _ = os.MkdirTemp(dir, "split")
			args = []string{"split", "-i", in, "--partition", pf, "-o", filepath.Join(outDir, "x_")}
			m := modelPartition(sc.Ranges, l)
			complete := true
			for _, p := range m.Site {
				complete = complete && p >= 0
			}
			switch {
			case m.Status == "outside":
				exp = fails
				o.Class("split:range-outside")
				o.NonTrivial = true
			case m.Status != "ok":
				o.Ambiguous++
				exp = expect{Any: true}
				o.Class("split:overlap")
			case !complete:
				exp = fails
				o.Class("split:sites-without-partition")
			case len(m.Names) <= 1:
				exp = fails
				o.Class("split:single-partition")
			default:
				exp.Files = map[string][]gen.Row{}
				contiguous := true
				cols := make([][]int, len(m.Names))
				for i, p := range m.Site {
					if n := len(cols[p]); n > 0 && cols[p][n-1] != i-1 {
						contiguous = false
					}
					cols[p] = append(cols[p], i)
				}
				for pi, n := range m.Names {
					exp.Files["x_"+n+".fa"] = takeCols(rows, cols[pi])
				}
				o.NonTrivial = !contiguous
				if contiguous {
					o.Class("split:contiguous")
				} else {
					o.Class("split:non-contiguous")
				}
			}
		case "extract", "extract-ref":
			var lines []string
			for _, b := range c.Blocks {
				f := []string{strings.Join(itoas(b.Starts), ","), strings.Join(itoas(b.Ends), ","), b.Name}
				if b.Strand != "" {
					f = append(f, b.Strand)
				}
				lines = append(lines, strings.Join(f, "\t"))
			}
			if c.GFF {
				// the same blocks as a GFF3 annotation: one gene per sub-alignment (Name = its name), one CDS per
				// block with Parent = the gene, coordinates 1-based inclusive, strand in column 7
				lines = []string{"chr1\tverif\tregion\t1\t" + fmt.Sprint(l) + "\t.\t+\t.\tID=chr1"}
				for gi, b := range c.Blocks {
					strand := "+"
					if b.Strand == "-" {
						strand = "-"
					}
					lo, hi := b.Starts[0], b.Ends[0]
					for k := range b.Starts {
						if b.Starts[k] < lo {
							lo = b.Starts[k]
						}
						if b.Ends[k] > hi {
							hi = b.Ends[k]
						}
					}
					lines = append(lines, fmt.Sprintf("chr1\tverif\tgene\t%d\t%d\t.\t%s\t.\tID=g%d;Name=%s", lo+1, hi, strand, gi, b.Name))
					for k := range b.Starts {
						lines = append(lines, fmt.Sprintf("chr1\tverif\tCDS\t%d\t%d\t.\t%s\t0\tID=cds%d.%d;Parent=g%d", b.Starts[k]+1, b.Ends[k], strand, gi, k, gi))
					}
				}
				o.Class("%s:gff", c.Cmd)
			}
			cf := cli.TempFile(dir, ".coord", strings.Join(lines, "\n")+"\n")
			outDir, _ = os.MkdirTemp(dir, "extract")
			args = []string{"extract", "-i", in, "--coordinates", cf, "-o", outDir}
			if c.GFF {
				args = append(args, "--gff")
			}
			if c.Translate {
				// the alphabet is given: a short protein row made of A, C, G, T, R, N ... would be detected as nucleotides
				args = append(args, "--translate", "0", "--alphabet", c.Ali.Alphabet)
			}
			ref, known := rowByName(rows, c.Ref)
			p := nonGap(ref.Seq)
			if c.Cmd == "extract-ref" {
				args = append(args, "--ref-seq", c.Ref)
			}
			exp.Files = map[string][]gen.Row{}
			multi, gapIn, minus := false, false, false
		lines:
			for _, b := range c.Blocks {
				var idx []int
				for i := range b.Starts {
					s, e := b.Starts[i], b.Ends[i]
					if s < 0 || e > l || s >= e {
						exp = fails
						break lines
					}
					if c.Cmd == "extract-ref" {
						if !known || e > len(p) {
							exp = fails
							break lines
						}
						if p[e-1]-p[s]+1 > e-s {
							gapIn = true
						}
						s, e = p[s], p[e-1]+1
					}
					idx = append(idx, span(s, e)...)
				}
				multi = multi || len(b.Starts) > 1
				sub := takeCols(rows, idx)
				if b.Strand == "-" {
					minus = true
					for i := range sub {
						sub[i].Seq = complementACGT(sub[i].Seq)
					}
				}
				if c.Translate && c.Ali.Alphabet == "nt" {
					// "extracted subsequences are translated into amino acids" (only if the input is nucleotide)
					for i := range sub {
						sub[i].Seq = translateStd(sub[i].Seq)
					}
				}
				exp.Files[b.Name+".fa"] = sub
			}
			if exp.Err {
				exp.Files = nil
				o.Class("%s:refused", c.Cmd)
			} else {
				o.Class("%s:valid", c.Cmd)
				if c.Translate {
					o.Class("%s:valid --translate on %s input", c.Cmd, c.Ali.Alphabet)
				}
				if multi {
					o.Class("%s:valid-several-blocks", c.Cmd)
				}
				if minus {
					o.Class("%s:valid-minus-strand", c.Cmd)
				}
				if gapIn {
					o.Class("%s:valid-gap-inside-block", c.Cmd)
				}
			}
			o.NonTrivial = multi || gapIn || exp.Err
		case "trim":
			args = []string{"trim", "seq", "-i", in}
			if c.Omit && c.Trim == 1 {
				o.Class("trim:default of -n left out")
			} else {
				args = append(args, "-n", fmt.Sprint(c.Trim))
			}
			if c.FromStart {
				args = append(args, "-s")
			}
			switch {
			case c.Trim < 0 || c.Trim >= l:
				exp = fails
				o.Class("trim:refused")
			case c.FromStart:
				exp = ok(takeCols(rows, span(c.Trim, l)))
				o.Class("trim:from-start")
			default:
				exp = ok(takeCols(rows, span(0, l-c.Trim)))
				o.Class("trim:from-end")
			}
			o.NonTrivial = isBoundary(c.Trim, l)
		case "concat":
			// every alignment of the input file, then every further file, is appended to the first one
			args = []string{"concat", "--alphabet", c.Ali.Alphabet, "-i", in}
			if c.NoInput {
				// "It is possible to give only otherfiles, without -i, by giving -i none"
				args = []string{"concat", "--alphabet", c.Ali.Alphabet, "-i", "none", in}
				o.Class("concat:-i none")
			}
			want := rows
			rest := []gen.Ali{}
			rest = append(rest, c.More...)
			for _, a := range c.Others {
				rest = append(rest, a)
				if len(c.More) > 0 {
					args = append(args, cli.TempFile(dir, ".phy", cli.Phylip(a.Rows)))
				} else {
					args = append(args, cli.TempFile(dir, ".fa", cli.FastaLayout(a.Rows, c.Fasta)))
				}
			}
			for _, a := range rest {
				for _, r := range want {
					if _, found := rowByName(a.Rows, r.Name); !found {
						o.NonTrivial = true
					}
				}
				for _, r := range a.Rows {
					if _, found := rowByName(want, r.Name); !found {
						o.NonTrivial = true
					}
				}
				want = modelConcat(want, a.Rows)
			}
			exp = ok(want)
		case "transpose":
			args = []string{"transpose", "-i", in}
			exp = ok(modelTranspose(rows))
			o.NonTrivial = len(rows) != l
		case "diff":
			args = []string{"diff", "-i", in}
			exp = ok(modelDiff(rows))
			o.NonTrivial = !gen.SameRows(exp.Outs[0], rows)
		case "diff-reverse":
			args = []string{"diff", "--reverse", "-i", in}
			exp = ok(modelReplace(rows))
			o.NonTrivial = !gen.SameRows(exp.Outs[0], rows)
		}
		return
	}
	args, exp, outDir := plan(&o, rows, true)
	exps := []expect{exp}
	inputs := [][]gen.Row{rows}
	if multi {
		if c.Cmd == "trim" {
			args = append([]string{"trim", "seq", "-p"}, args[2:]...)
		} else {
			args = append([]string{args[0], "-p"}, args[1:]...)
		}
		switch c.Layout {
		case 1:
			args = append(args, "--one-line")
		case 2:
			args = append(args, "--no-block")
		case 3:
			args = append(args, "--one-line", "--no-block")
		}
		o.Class("multi:%s", c.Cmd)
		if multiCmd[c.Cmd] {
			// the same options, judged for every alignment of the stream with the oracle of ITS alignment
			for _, a := range c.More {
				var o2 pbt.Outcome
				_, e2, _ := plan(&o2, a.Rows, false)
				o.Ambiguous += o2.Ambiguous
				o.NonTrivial = o.NonTrivial || o2.NonTrivial
				exps = append(exps, e2)
				inputs = append(inputs, a.Rows)
			}
		}
	}

	// destination of the output: standard output, a new file, or a file that exists already (its stale
	// content must be replaced); the output files of split / extract may exist already too
	outPath, logPath := "", ""
	severalFiles := c.Cmd == "subseq-step" || (multi && (strings.HasPrefix(c.Cmd, "subseq") || strings.HasPrefix(c.Cmd, "subsites")))
	var outFiles []string // -o with several alignments or windows: the documented family of file names, in order
	if c.OutFile > 0 && severalFiles && !mustFailAny(exps) && !anyOpenAny(exps) {
		tmp := cli.TempFile(dir, "", "")
		os.Remove(tmp)
		base := tmp + "out" // no other scratch file starts with this
		ext := ".out"
		for k, e := range exps {
			windows := 1
			if c.Cmd == "subseq-step" && len(inputs[k]) > 0 {
				windows = len(e.Outs[0]) / len(inputs[k])
			}
			for w := 0; w < windows; w++ {
				n := base
				if k > 0 {
					n += fmt.Sprintf("_al%d", k)
				}
				if w > 0 {
					n += fmt.Sprintf("_sub%d", w)
				}
				outFiles = append(outFiles, n+ext)
			}
		}
		for _, f := range outFiles {
			if c.OutFile == 2 {
				cli.StaleFile(f, 40)
			}
			defer os.Remove(f)
		}
		args = append(args, "-o", base+ext)
		o.Class("output:-o family of files (_al<i>, _sub<j>)")
	}
	if c.OutFile > 0 && exp.Files == nil && outDir == "" && !severalFiles {
		outPath = cli.TempFile(dir, ".out", "")
		os.Remove(outPath)
		switch c.OutFile {
		case 2:
			cli.StaleFile(outPath, 40)
			o.Class("output:-o existing file")
		case 3:
			outPath += ".gz"
			o.Class("output:-o compressed file (.gz)")
		default:
			o.Class("output:-o new file")
		}
		args = append(args, "-o", outPath)
		defer os.Remove(outPath)
	}
	if c.Cmd == "concat" && c.LogFile > 0 {
		logPath = cli.TempFile(dir, ".log", "")
		os.Remove(logPath)
		if c.LogFile == 2 {
			cli.StaleFile(logPath, 40)
		}
		if c.LogFile == 3 {
			logPath += ".gz"
		}
		args = append(args, "-l", logPath)
		o.Class("output:concat log file")
		defer os.Remove(logPath)
	}
	if c.StaleOut && exp.Files != nil {
		for name := range exp.Files {
			cli.StaleFile(filepath.Join(outDir, name), 40)
		}
		o.Class("output:existing split/extract files")
	}
	r := cli.Run("", args...)
	if outDir != "" {
		defer os.RemoveAll(outDir)
	}
	defer os.Remove(in)
	stdout := r.Stdout
	if outPath != "" && r.Exit == 0 {
		b, e := readMaybeGz(outPath)
		if e != nil {
			return o, fmt.Errorf("goalign %s: the output file was not written (or is not a complete gzip stream): %v", strings.Join(args, " "), e)
		}
		if strings.TrimSpace(r.Stdout) != "" {
			return o, fmt.Errorf("goalign %s: output requested in a file, but standard output holds\n%s", strings.Join(args, " "), firstLines(r.Stdout, 6))
		}
		stdout = string(b)
	}
	if len(outFiles) > 0 && r.Exit == 0 {
		// every alignment / window in its own file: <name>.ext, <name>_sub<j>.ext, <name>_al<i>.ext,
		// <name>_al<i>_sub<j>.ext (help text of subseq); read in that order they are the stream of results
		var all strings.Builder
		for _, f := range outFiles {
			b, e := os.ReadFile(f)
			if e != nil {
				return o, fmt.Errorf("goalign %s: expected output file %s: %v", strings.Join(args, " "), filepath.Base(f), e)
			}
			all.Write(b)
		}
		if strings.TrimSpace(r.Stdout) != "" {
			return o, fmt.Errorf("goalign %s: output requested in files, but standard output holds\n%s", strings.Join(args, " "), firstLines(r.Stdout, 6))
		}
		stdout = all.String()
		found, _ := filepath.Glob(strings.TrimSuffix(outFiles[0], ".out") + "*")
		if len(found) != len(outFiles) {
			return o, fmt.Errorf("goalign %s: wrote %d files %v, expected %d", strings.Join(args, " "), len(found), found, len(outFiles))
		}
	}
	show := func() string {
		d := gen.Show(rows)
		for _, a := range c.More {
			d += "| " + gen.Show(a.Rows)
		}
		return fmt.Sprintf("goalign %s (input %s)", strings.Join(args[0:], " "), d)
	}
	if r.TimedOut {
		return o, fmt.Errorf("%s did not return", show())
	}
	if strings.Contains(r.Stderr, "panic:") || strings.Contains(r.Stderr, "goroutine 1 [") {
		return o, fmt.Errorf("%s crashed (status %d):\n%s", show(), r.Exit, firstLines(r.Stderr, 12))
	}
	anyOpen, mustFail, mayFail := false, false, false
	for _, e := range exps {
		anyOpen = anyOpen || e.Any
		mustFail = mustFail || e.Err
		mayFail = mayFail || e.AltErr
	}
	if multi && multiCmd[c.Cmd] {
		switch {
		case mustFail && exps[0].Err:
			o.Class("multi:refused-for-the-first-alignment")
		case mustFail:
			o.Class("multi:refused-for-a-later-alignment")
		case !anyOpen:
			o.Class("multi:valid-for-every-alignment")
		}
	}
	if anyOpen {
		return o, nil
	}
	if mustFail {
		if r.Exit == 0 {
			return o, fmt.Errorf("%s: the request is outside (one of) the alignment(s) or malformed but the status is 0; output:\n%s", show(), firstLines(r.Stdout, 12))
		}
		return o, nil
	}
	if r.Exit != 0 {
		if mayFail {
			return o, nil
		}
		return o, fmt.Errorf("%s: a valid request failed with status %d: %s", show(), r.Exit, firstLines(r.Stderr, 3))
	}
	if exp.Files != nil {
		for name, want := range exp.Files {
			b, e := os.ReadFile(filepath.Join(outDir, name))
			if e != nil {
				return o, fmt.Errorf("%s: expected output file %s: %v", show(), name, e)
			}
			got, e := cli.ParseFasta(string(b))
			if e != nil {
				return o, fmt.Errorf("%s: file %s unreadable: %v", show(), name, e)
			}
			if !gen.SameRows(got, want) {
				return o, fmt.Errorf("%s: file %s\n got : %s\n want: %s", show(), name, gen.Show(got), gen.Show(want))
			}
		}
		ents, _ := os.ReadDir(outDir)
		if len(ents) != len(exp.Files) {
			var names []string
			for _, e := range ents {
				names = append(names, e.Name())
			}
			return o, fmt.Errorf("%s: wrote %v, expected %d file(s)", show(), names, len(exp.Files))
		}
		return o, nil
	}
	// standard output: one alignment (FASTA), or a Phylip stream read as the flat list of its rows
	var got []gen.Row
	same := gen.SameRows
	if multi {
		stream, e := cli.ParsePhylipStream(stdout)
		if e != nil {
			return o, fmt.Errorf("%s: unreadable Phylip output: %v\n%s", show(), e, firstLines(stdout, 12))
		}
		for _, al := range stream {
			got = append(got, al...)
		}
		same = samePhylipRows
	} else if got, err = cli.ParseFasta(stdout); err != nil {
		return o, fmt.Errorf("%s: unreadable output: %v", show(), err)
	}
	// every input alignment contributes, in order, one of its accepted outputs
	pos := 0
	for k, e := range exps {
		matched := false
		for i, want := range e.Outs {
			if pos+len(want) <= len(got) && same(got[pos:pos+len(want)], want) {
				if i > 0 {
					o.Ambiguous++
				}
				pos += len(want)
				matched = true
				break
			}
		}
		if !matched {
			rest := got[pos:]
			if len(rest) > len(e.Outs[0]) {
				rest = rest[:len(e.Outs[0])]
			}
			return o, fmt.Errorf("%s: output for input alignment %d (%s)\n got : %s\n want: %s", show(), k, gen.Show(inputs[k]), gen.Show(rest), gen.Show(e.Outs[0]))
		}
	}
	if logPath != "" {
		// start (0-based inclusive), end (exclusive) and file of every input alignment, in order
		b, e := readMaybeGz(logPath)
		if e != nil {
			return o, fmt.Errorf("%s: the log file was not written (or is not a complete gzip stream): %v", show(), e)
		}
		var want []string
		at := 0
		files := []string{}
		for _, a := range args {
			if strings.HasSuffix(a, ".fa") || strings.HasSuffix(a, ".phy") {
				files = append(files, a)
			}
		}
		add := func(l int, f string) { want = append(want, fmt.Sprintf("%d\t%d\t%s", at, at+l, f)); at += l }
		add(aliLen(c.Ali), files[0])
		for _, a := range c.More {
			add(aliLen(a), files[0])
		}
		for k, a := range c.Others {
			add(aliLen(a), files[1+k])
		}
		gotLog := strings.Split(strings.TrimRight(string(b), "\n"), "\n")
		if strings.Join(gotLog, "|") != strings.Join(want, "|") {
			return o, fmt.Errorf("%s: log file holds %q want %q", show(), gotLog, want)
		}
	}
	if pos != len(got) {
		return o, fmt.Errorf("%s: %d unexpected extra rows in the output: %s", show(), len(got)-pos, gen.Show(got[pos:]))
	}
	return o, nil
}

// translateStd translates whole upper-case ACGT codons with the standard genetic code (NCBI table 1 in
// its compact form, bases in the order TCAG)
func translateStd(nt string) string {
	const aas = "FFLLSSSSYY**CC*WLLLLPPPPHHQQRRRRIIIMTTTTNNKKSSRRVVVVAAAADDEEGGGG"
	var out []byte
	for i := 0; i+3 <= len(nt); i += 3 {
		k := 0
		for j := 0; j < 3; j++ {
			k = k*4 + strings.IndexByte("TCAG", nt[i+j])
		}
		out = append(out, aas[k])
	}
	return string(out)
}

// readMaybeGz reads a file, through gzip when its name ends in .gz (a truncated stream is an error)
func readMaybeGz(path string) ([]byte, error) {
	b, err := os.ReadFile(path)
	if err != nil || !strings.HasSuffix(path, ".gz") {
		return b, err
	}
	zr, err := gzip.NewReader(bytes.NewReader(b))
	if err != nil {
		return nil, err
	}
	return io.ReadAll(zr)
}

func mustFailAny(exps []expect) bool {
	for _, e := range exps {
		if e.Err || e.AltErr {
			return true
		}
	}
	return false
}

func anyOpenAny(exps []expect) bool {
	for _, e := range exps {
		if e.Any || len(e.Outs) != 1 {
			return true
		}
	}
	return false
}

func firstLines(s string, n int) string {
	l := strings.Split(s, "\n")
	if len(l) > n {
		l = l[:n]
	}
	return strings.Join(l, "\n")
}

func runCLI(t *testing.T, cmds ...string) {
	if cli.Binary() == "" {
		t.Skip("no goalign binary")
	}
	dir := cli.TempDir("c04cli")
	pbt.Run(t, func(t *rapid.T) cliCase { return genCLI(t, cmds) }, func(c cliCase) (pbt.Outcome, error) { return checkCLI(dir, c) })
}

func TestCLISubseq(t *testing.T) {
	runCLI(t, "subseq", "subseq", "subseq-ref", "subseq-ref", "subseq-step")
}
func TestCLISubsites(t *testing.T) {
	runCLI(t, "subsites", "subsites", "subsites-ref", "subsites-ref", "subsites-informative")
}
func TestCLISplitExtract(t *testing.T) { runCLI(t, "split", "extract", "extract-ref") }
func TestCLIOther(t *testing.T)        { runCLI(t, "trim", "concat", "transpose", "diff", "diff-reverse") }
