package c04

import (
	"fmt"
	"math"
	"strings"
	"testing"

	"github.com/evolbioinfo/goalign/align"
	"github.com/evolbioinfo/goalign/io/partition"
	"pgregory.net/rapid"
	"verif/internal/gen"
	"verif/internal/pbt"
)

// ---- partitions: AddRange / partition text, Split, re-interleaving ------------------------------

// rng is one range of a partition definition, 0-based inclusive as AddRange takes it; in the text
// form it is written 1-based inclusive as "start-end/modulo"
type rng struct {
	Name  string `json:"name"`
	Model string `json:"model"`
	Start int    `json:"start"`
	End   int    `json:"end"`
	Mod   int    `json:"mod"`
	// text layout
	NewLine bool `json:"newline"` // start a new definition line even if the previous range has the same name
	Single  bool `json:"single"`  // write a one-site range as a single number
}

type splitCase struct {
	Plan   gen.Plan `json:"plan"`
	Ali    gen.Ali  `json:"ali"`
	Ranges []rng    `json:"ranges"`
	Text   bool     `json:"text"`   // build the set by parsing text instead of calling AddRange
	Spaces int      `json:"spaces"` // blanks around the separators of the text form (0..3 layouts)
	CRLF   bool     `json:"crlf"`
	NoEOL  bool     `json:"no_eol"` // no end of line after the last definition
	PartL  int      `json:"part_len"`
}

var partNames = []string{"p0", "p1", "p2", "p3"}
var modelNames = []string{"DNA", "GTR", "M1", "WAG"}

// genRanges: a partition of [0,l) into segments; every segment is given to one partition as a plain
// range or divided between up to m partitions by a modulo (codon positions for m = 3); a name can
// come back for a later segment, which makes its partition non contiguous
func genRanges(t *rapid.T, l int) []rng {
	var out []rng
	pos := 0
	for pos < l {
		end := rapid.IntRange(pos, l-1).Draw(t, "segend")
		if uni(t, 4, "toend") == 0 {
			end = l - 1
		}
		if pos == 0 && end == l-1 && l > 1 && uni(t, 8, "onesegment") != 0 {
			end = rapid.IntRange(0, l-2).Draw(t, "firstend")
		}
		m := 1
		if end > pos {
			m = rapid.SampledFrom([]int{1, 1, 2, 3, 3}).Draw(t, "mod")
		}
		for r := 0; r < m && pos+r <= end; r++ {
			name := partNames[(len(out)+uni(t, 4, "pname")%3)%len(partNames)]
			out = append(out, rng{Name: name, Start: pos + r, End: end, Mod: m,
				NewLine: rapid.Bool().Draw(t, "nl"), Single: rapid.Bool().Draw(t, "single")})
		}
		pos = end + 1
	}
	return out
}

func genSplit(t *rapid.T) splitCase {
	var c splitCase
	c.Ali = genAli(t, 5, 1, 24)
	l := aliLen(c.Ali)
	c.PartL = l
	c.Ranges = genRanges(t, l)
	// the model of a name is the one of its first range
	for i := range c.Ranges {
		c.Ranges[i].Model = modelNames[rapid.IntRange(0, len(modelNames)-1).Draw(t, "model")]
	}
	// perturbations
	switch uni(t, 16, "perturb") {
	case 0: // a range outside the alignment
		i := rapid.IntRange(0, len(c.Ranges)-1).Draw(t, "which")
		switch uni(t, 7, "how") {
		case 0:
			c.Ranges[i].Start = -1
		case 1:
			c.Ranges[i].End = l
		case 2:
			c.Ranges[i].End = l + 1
		case 3:
			c.Ranges[i].Mod = []int{0, -1, math.MinInt, math.MinInt + 1}[uni(t, 4, "badmod")]
		case 4:
			c.Ranges[i].Start = []int{math.MinInt, math.MinInt + 1}[uni(t, 2, "hugestart")]
		case 5:
			c.Ranges[i].End = []int{math.MaxInt, math.MaxInt - 1, math.MaxInt/2 + 1}[uni(t, 3, "hugeend")]
		case 6:
			c.Ranges[i].Start = []int{math.MinInt, -1}[uni(t, 2, "s2")]
			c.Ranges[i].End = math.MaxInt
		}
	case 4: // a huge modulo is a valid one: only the first site of the range belongs to the partition
		i := rapid.IntRange(0, len(c.Ranges)-1).Draw(t, "which")
		c.Ranges[i].Mod = []int{math.MaxInt, math.MaxInt - 1, math.MaxInt/2 + 1}[uni(t, 3, "hugemod")]
		// the sites it no longer takes stay without partition
	case 5, 6: // a backwards range under an existing name: no site, nothing else changes
		c.Ranges = addBackwards(t, c.Ranges, l)
	case 1: // a range given twice
		i := rapid.IntRange(0, len(c.Ranges)-1).Draw(t, "which")
		c.Ranges = append(c.Ranges, c.Ranges[i])
	case 2: // a range left out: some sites belong to no partition
		if len(c.Ranges) > 1 {
			i := rapid.IntRange(0, len(c.Ranges)-1).Draw(t, "which")
			c.Ranges = append(c.Ranges[:i:i], c.Ranges[i+1:]...)
		}
	case 3: // a partition set declared for another length
		c.PartL = rapid.SampledFrom([]int{l - 1, l + 1}).Draw(t, "partlen")
		if c.PartL < 1 {
			c.PartL = l + 1
		}
	}
	c.Text = rapid.Bool().Draw(t, "text")
	c.Spaces = rapid.IntRange(0, 3).Draw(t, "spaces")
	c.CRLF = rapid.IntRange(0, 4).Draw(t, "crlf") == 0
	c.NoEOL = rapid.IntRange(0, 3).Draw(t, "noeol") == 0
	c.Plan = genPlan(t, c.Ali, "prov")
	return c
}

// addBackwards inserts, after a range drawn among the existing ones and under its name, a BACKWARDS range
// (end < start): any stride, starts up to and past the end of the alignment, ends down to -1 (text "1-0")
func addBackwards(t *rapid.T, ranges []rng, l int) []rng {
	i := rapid.IntRange(0, len(ranges)-1).Draw(t, "after")
	r := ranges[i]
	r.Start = rapid.IntRange(0, l+1).Draw(t, "bstart")
	hi := r.Start - 1
	if hi > l-1 {
		hi = l - 1
	}
	r.End = rapid.IntRange(-1, hi).Draw(t, "bend")
	r.Mod = []int{1, 2, 3, 3, 7, math.MaxInt}[uni(t, 6, "bmod")]
	r.NewLine, r.Single = rapid.Bool().Draw(t, "bnl"), false
	out := append([]rng{}, ranges[:i+1]...)
	out = append(out, r)
	return append(out, ranges[i+1:]...)
}

// partModel is the expected content of the partition set
type partModel struct {
	Status string // ok | outside | overlap | empty-range
	Site   []int  // partition index of each site, -1 = none
	Names  []string
	Models []string
}

// modelPartition interprets the ranges the way the RAxML-style definition reads: the sites
// start, start+mod, ... <= end belong to the named partition; partitions are numbered in order of
// first appearance
func modelPartition(ranges []rng, l int) partModel {
	m := partModel{Status: "ok", Site: make([]int, l)}
	for i := range m.Site {
		m.Site[i] = -1
	}
	for _, r := range ranges {
		if r.Start < 0 || r.End >= l || r.Mod <= 0 {
			m.Status = "outside"
			return m
		}
		idx := -1
		for i, n := range m.Names {
			if n == r.Name {
				idx = i
			}
		}
		if r.Start > r.End {
			// a backwards range addresses no site, whatever the stride and wherever it starts; whether it
			// opens a partition of its own is left open (only judged when the name exists already)
			if idx >= 0 {
				continue
			}
			m.Status = "empty-range"
			return m
		}
		if idx < 0 {
			m.Names = append(m.Names, r.Name)
			m.Models = append(m.Models, r.Model)
			idx = len(m.Names) - 1
		}
		for i := r.Start; i <= r.End; i += r.Mod {
			if m.Site[i] != -1 {
				m.Status = "overlap"
				return m
			}
			m.Site[i] = idx
			if r.Mod > r.End-i { // the next step would leave the range (and may overflow)
				break
			}
		}
	}
	return m
}

// partitionText writes the ranges in the documented text form "MODEL,name=1-4,10-11" with modulo
// intervals "1-10/3"
func partitionText(c splitCase) string {
	sp := func(s string, where int) string {
		// layouts: 0 none, 1 blank after ',' of the model, 2 blanks around '=', 3 both and around ranges
		switch {
		case c.Spaces == 1 && where == 0, c.Spaces == 3 && where == 0:
			return s + " "
		case c.Spaces == 2 && where == 1, c.Spaces == 3 && where == 1:
			return " " + s + " "
		case c.Spaces == 3 && where == 2:
			return s + " "
		}
		return s
	}
	eol := "\n"
	if c.CRLF {
		eol = "\r\n"
	}
	var lines []string
	cur := ""
	prev := ""
	for _, r := range c.Ranges {
		iv := fmt.Sprintf("%d-%d", r.Start+1, r.End+1)
		if r.Start == r.End && r.Single {
			iv = fmt.Sprintf("%d", r.Start+1)
		}
		if r.Mod != 1 {
			iv += fmt.Sprintf("/%d", r.Mod)
		}
		if cur != "" && r.Name == prev && !r.NewLine {
			cur += sp(",", 2) + iv
			continue
		}
		if cur != "" {
			lines = append(lines, cur)
		}
		cur = r.Model + sp(",", 0) + r.Name + sp("=", 1) + iv
		prev = r.Name
	}
	if cur != "" {
		lines = append(lines, cur)
	}
	txt := strings.Join(lines, eol)
	if !c.NoEOL {
		txt += eol
	}
	return txt
}

// buildPartition constructs the set through AddRange or through the text parser
func buildPartition(c splitCase) (*align.PartitionSet, error) {
	if c.Text {
		return partition.NewParser(strings.NewReader(partitionText(c))).Parse(c.PartL)
	}
	ps := align.NewPartitionSet(c.PartL)
	for _, r := range c.Ranges {
		if e := ps.AddRange(r.Name, r.Model, r.Start, r.End, r.Mod); e != nil {
			return ps, e
		}
	}
	return ps, nil
}

func checkSplit(c splitCase) (o pbt.Outcome, err error) {
	usePlan(&o, c.Plan)
	defer donePlan(&o)
	rows, l := c.Ali.Rows, aliLen(c.Ali)
	m := modelPartition(c.Ranges, c.PartL)
	via := "AddRange"
	if c.Text {
		via = "text"
	}
	o.Class("built-by=%s", via)
	ps, e := buildPartition(c)
	describe := func() string {
		if c.Text {
			return fmt.Sprintf("partition text %q for length %d", partitionText(c), c.PartL)
		}
		return fmt.Sprintf("ranges %+v for length %d", c.Ranges, c.PartL)
	}
	switch m.Status {
	case "outside":
		if e == nil {
			return o, fmt.Errorf("%s: a range outside the alignment (or a modulo <= 0) was accepted", describe())
		}
		o.NonTrivial = true
		o.Class("partition:range-outside")
		return o, nil
	case "overlap":
		// two partitions for one site: an error is the documented answer of AddRange; anything but a
		// crash is accepted
		if e == nil {
			o.Ambiguous++
		}
		o.Class("partition:overlap")
		return o, nil
	case "empty-range":
		o.Ambiguous++
		o.Class("partition:empty-range")
		return o, nil
	}
	if e != nil {
		return o, fmt.Errorf("%s refused: %v", describe(), e)
	}
	if ps.AliLength() != c.PartL || ps.NPartitions() != len(m.Names) {
		return o, fmt.Errorf("%s: AliLength %d NPartitions %d, want %d and %d", describe(), ps.AliLength(), ps.NPartitions(), c.PartL, len(m.Names))
	}
	for i, n := range m.Names {
		if ps.PartitionName(i) != n || ps.ModeleName(i) != m.Models[i] {
			return o, fmt.Errorf("%s: partition %d is %q/%q want %q/%q", describe(), i, ps.ModeleName(i), ps.PartitionName(i), m.Models[i], n)
		}
	}
	complete := true
	for i, p := range m.Site {
		if ps.Partition(i) != p {
			return o, fmt.Errorf("%s: site %d is in partition %d want %d", describe(), i, ps.Partition(i), p)
		}
		complete = complete && p >= 0
	}
	if ps.Partition(-1) != -1 || ps.Partition(c.PartL) != -1 {
		return o, fmt.Errorf("%s: a position outside the alignment has a partition", describe())
	}
	if ce := ps.CheckSites(); (ce == nil) != complete {
		return o, fmt.Errorf("%s: CheckSites() = %v but complete coverage is %v", describe(), ce, complete)
	}
	// the printed form parses back to the same map
	if complete {
		back, e := partition.NewParser(strings.NewReader(ps.String())).Parse(c.PartL)
		if e != nil {
			return o, fmt.Errorf("%s: its String() %q does not parse: %v", describe(), ps.String(), e)
		}
		for i, p := range m.Site {
			if back.Partition(i) != p {
				return o, fmt.Errorf("%s: String() %q parses back with site %d in partition %d want %d", describe(), ps.String(), i, back.Partition(i), p)
			}
		}
	}
	// Split
	al := build(c.Ali)
	blocks, e := al.Split(ps)
	if len(m.Names) <= 1 || c.PartL != l {
		if e == nil {
			return o, fmt.Errorf("Split with %d partition(s) declared for length %d on %d columns accepted", len(m.Names), c.PartL, l)
		}
		if c.PartL != l {
			o.Class("split:other-length")
		} else {
			o.Class("split:single-partition")
		}
		return o, nil
	}
	if e != nil {
		return o, fmt.Errorf("Split(%s) refused: %v", describe(), e)
	}
	if len(blocks) != len(m.Names) {
		return o, fmt.Errorf("Split(%s) returns %d alignments for %d partitions", describe(), len(blocks), len(m.Names))
	}
	contiguous := true
	cols := make([][]int, len(m.Names))
	for i, p := range m.Site {
		if p >= 0 {
			if n := len(cols[p]); n > 0 && cols[p][n-1] != i-1 {
				contiguous = false
			}
			cols[p] = append(cols[p], i)
		}
	}
	for pi := range blocks {
		if err = sameAli(blocks[pi], takeCols(rows, cols[pi]), fmt.Sprintf("Split(%s) block %d (%s)", describe(), pi, m.Names[pi])); err != nil {
			return
		}
	}
	if !gen.SameRows(gen.Snapshot(al), rows) {
		return o, fmt.Errorf("Split changed its receiver")
	}
	// re-interleave the blocks by the partition map
	next := make([]int, len(blocks))
	snap := make([][]gen.Row, len(blocks))
	for pi := range blocks {
		snap[pi] = gen.Snapshot(blocks[pi])
	}
	back := make([][]byte, len(rows))
	for _, p := range m.Site {
		if p < 0 {
			continue
		}
		for r := range rows {
			back[r] = append(back[r], snap[p][r].Seq[next[p]])
		}
		next[p]++
	}
	var assigned []int
	for i, p := range m.Site {
		if p >= 0 {
			assigned = append(assigned, i)
		}
	}
	want := takeCols(rows, assigned)
	for r := range rows {
		if string(back[r]) != want[r].Seq {
			return o, fmt.Errorf("re-interleaving the blocks of Split(%s) gives %q for row %d want %q", describe(), back[r], r, want[r].Seq)
		}
	}
	hasMod := false
	for _, r := range c.Ranges {
		hasMod = hasMod || r.Mod > 1
		if r.Start > r.End {
			o.Class("split:with-a-backwards-range")
		}
	}
	o.NonTrivial = !contiguous
	switch {
	case hasMod:
		o.Class("split:modulo-partition")
	case !contiguous:
		o.Class("split:non-contiguous-ranges")
	default:
		o.Class("split:contiguous")
	}
	if !complete {
		o.Class("split:sites-without-partition")
	}
	return o, nil
}

func TestSplit(t *testing.T) { pbt.Run(t, genSplit, checkSplit) }

// ---- Transpose twice; DiffWithFirst and ReplaceMatchChars ------------------------------------------

type matCase struct {
	Plan gen.Plan `json:"plan"`
	Ali  gen.Ali  `json:"ali"`
	Dots bool     `json:"dots"` // rows below the first contain '.' before the round trip
}

func genMat(t *rapid.T) matCase {
	var c matCase
	c.Ali = genAli(t, 6, 1, 20)
	// rows that agree with the first one often
	first := c.Ali.Rows[0].Seq
	for i := 1; i < len(c.Ali.Rows); i++ {
		b := []byte(c.Ali.Rows[i].Seq)
		for j := range b {
			if rapid.IntRange(0, 2).Draw(t, "same") == 0 {
				b[j] = first[j]
			}
		}
		c.Ali.Rows[i].Seq = string(b)
	}
	c.Dots = rapid.IntRange(0, 3).Draw(t, "dots") == 0
	if c.Dots {
		for i := range c.Ali.Rows {
			b := []byte(c.Ali.Rows[i].Seq)
			for j := range b {
				if rapid.IntRange(0, 3).Draw(t, "dot") == 0 {
					b[j] = '.'
				}
			}
			c.Ali.Rows[i].Seq = string(b)
		}
	}
	c.Plan = genPlan(t, c.Ali, "prov")
	return c
}

func modelTranspose(rows []gen.Row) []gen.Row {
	l := len(rows[0].Seq)
	out := make([]gen.Row, l)
	for j := 0; j < l; j++ {
		out[j] = gen.Row{Name: fmt.Sprint(j), Seq: gen.Column(rows, j)}
	}
	return out
}

func modelDiff(rows []gen.Row) []gen.Row {
	out := make([]gen.Row, len(rows))
	copy(out, rows)
	for i := 1; i < len(rows); i++ {
		b := []byte(rows[i].Seq)
		for j := range b {
			if b[j] == rows[0].Seq[j] {
				b[j] = '.'
			}
		}
		out[i].Seq = string(b)
	}
	return out
}

// modelReplace: '.' of rows below the first become the first row's character unless that is '.' too
func modelReplace(rows []gen.Row) []gen.Row {
	out := make([]gen.Row, len(rows))
	copy(out, rows)
	for i := 1; i < len(rows); i++ {
		b := []byte(rows[i].Seq)
		for j := range b {
			if b[j] == '.' && rows[0].Seq[j] != '.' {
				b[j] = rows[0].Seq[j]
			}
		}
		out[i].Seq = string(b)
	}
	return out
}

func checkMat(c matCase) (o pbt.Outcome, err error) {
	usePlan(&o, c.Plan)
	defer donePlan(&o)
	rows := c.Ali.Rows
	al := build(c.Ali)
	tr, e := al.Transpose()
	if e != nil {
		return o, fmt.Errorf("Transpose refused: %v", e)
	}
	if err = sameAli(tr, modelTranspose(rows), "Transpose"); err != nil {
		return
	}
	tt, e := tr.Transpose()
	if e != nil {
		return o, fmt.Errorf("second Transpose refused: %v", e)
	}
	// names become indices, the residue matrix is the original one
	want := make([]gen.Row, len(rows))
	for i, r := range rows {
		want[i] = gen.Row{Name: fmt.Sprint(i), Seq: r.Seq}
	}
	if err = sameAli(tt, want, "Transpose(Transpose)"); err != nil {
		return
	}
	if !gen.SameRows(gen.Snapshot(al), rows) {
		return o, fmt.Errorf("Transpose changed its receiver")
	}
	matches := 0
	if c.Dots {
		al.ReplaceMatchChars()
		if err = sameAli(al, modelReplace(rows), "ReplaceMatchChars"); err != nil {
			return
		}
		o.Class("replace-match-chars:input-with-dots")
	} else {
		al.DiffWithFirst()
		d := modelDiff(rows)
		if err = sameAli(al, d, "DiffWithFirst"); err != nil {
			return
		}
		for _, r := range d[1:] {
			matches += strings.Count(r.Seq, ".")
		}
		al.ReplaceMatchChars()
		if err = sameAli(al, rows, "ReplaceMatchChars(DiffWithFirst)"); err != nil {
			return
		}
		if len(rows) == 1 {
			o.Class("diff:single-row")
		} else if matches > 0 {
			o.Class("diff:with-matches")
		} else {
			o.Class("diff:no-match")
		}
	}
	l := aliLen(c.Ali)
	o.NonTrivial = (len(rows) != l && len(rows) > 1 && l > 1) && (c.Dots || matches > 0)
	if len(rows) == l {
		o.Class("transpose:square")
	} else {
		o.Class("transpose:rectangular")
	}
	return o, nil
}

func TestTransposeDiff(t *testing.T) { pbt.Run(t, genMat, checkMat) }

// ---- bounded-exhaustive enumeration -----------------------------------------------------------------

type exCase struct {
	L    int    `json:"L"`
	Gaps int    `json:"gaps"` // bit j set = the reference row has a gap at column j
	Op   string `json:"op"`
	A    int    `json:"a"`
	B    int    `json:"b"`
}

// exAli: a ruler row of pairwise distinct residues, the reference row with the gap pattern, a third row
func exAli(c exCase) gen.Ali {
	ruler := gen.AA20[:c.L]
	ref := []byte(strings.ToLower(ruler))
	for j := 0; j < c.L; j++ {
		if c.Gaps&(1<<uint(j)) != 0 {
			ref[j] = '-'
		}
	}
	other := []byte(ruler)
	for j := range other {
		other[j] = gen.AA20[(j+7)%20]
	}
	return gen.Ali{Alphabet: "aa", Rows: []gen.Row{{Name: "ruler", Seq: ruler}, {Name: "ref", Seq: string(ref)}, {Name: "x", Seq: string(other)}}}
}

func TestExhaustive(t *testing.T) {
	maxL := pbt.Scale(8, 10)
	name := fmt.Sprintf("alignments of 3 rows and 1..%d columns: SubAlign/InverseCoordinates for every (start,length) in [-1,L+1]^2; TrimSequences for every size in [-1,L+1] from both ends; SelectSites/InversePositions for every pair of sites in [-1,L+1]^2; RefCoordinates for every gap pattern of the reference and every (start,length) in [-1,L+1]^2; RefSites for every gap pattern and every site in [-1,L+1]", maxL)
	pbt.Enumerate(t, name, func(yield func(exCase) bool) {
		for l := 1; l <= maxL; l++ {
			for a := -1; a <= l+1; a++ {
				for b := -1; b <= l+1; b++ {
					if !yield(exCase{L: l, Op: "window", A: a, B: b}) || !yield(exCase{L: l, Op: "sites", A: a, B: b}) {
						return
					}
				}
				if !yield(exCase{L: l, Op: "trim", A: a, B: 0}) || !yield(exCase{L: l, Op: "trim", A: a, B: 1}) {
					return
				}
			}
			for g := 0; g < 1<<uint(l); g++ {
				for a := -1; a <= l+1; a++ {
					for b := -1; b <= l+1; b++ {
						if !yield(exCase{L: l, Gaps: g, Op: "refcoord", A: a, B: b}) {
							return
						}
					}
					if !yield(exCase{L: l, Gaps: g, Op: "refsite", A: a}) {
						return
					}
				}
			}
		}
	}, func(c exCase) (o pbt.Outcome, err error) {
		activePlan = gen.Plan{}
		a := exAli(c)
		switch c.Op {
		case "window":
			if err = checkSubAlign(&o, a, c.A, c.B); err != nil {
				return
			}
			if err = checkInverse(&o, a, c.A, c.B); err != nil {
				return
			}
			if c.B == 0 && c.A >= 0 && c.A <= c.L {
				err = checkCut(&o, a, c.A)
			}
			o.Class("window:%s", winClass(c.L, c.A, c.B))
		case "trim":
			err = checkTrim(&o, a, c.A, c.B == 1)
			o.Class("trim")
		case "sites":
			err = checkSelect(&o, a, []int{c.A, c.B})
			if err == nil {
				err = checkSelect(&o, a, []int{c.A})
			}
			o.Class("sites")
		case "refcoord":
			var valid, gap bool
			valid, gap, err = checkRefCoord(&o, a, "ref", c.A, c.B)
			switch {
			case valid && gap:
				o.Class("refcoord:valid-gap-inside-window")
			case valid:
				o.Class("refcoord:valid-no-gap-inside")
			default:
				o.Class("refcoord:invalid")
			}
		case "refsite":
			err = checkRefSites(&o, a, "ref", []int{c.A})
			o.Class("refsite")
		}
		o.NonTrivial = true
		o.Key = fmt.Sprintf("%d/%d/%s/%d/%d", c.L, c.Gaps, c.Op, c.A, c.B)
		return
	})
}

// ---- a history on one partition set: Split after every AddRange ---------------------------------------

type histCase struct {
	Plan     gen.Plan `json:"plan"`
	Ali      gen.Ali  `json:"ali"`
	Ranges   []rng    `json:"ranges"`    // pairwise disjoint, in the order they are added
	FromText int      `json:"from_text"` // the first ranges come from parsed text, the others from AddRange
}

func genHist(t *rapid.T) histCase {
	var c histCase
	c.Ali = genAli(t, 4, 2, 24)
	rs := genRanges(t, aliLen(c.Ali))
	for i := range rs {
		rs[i].Model = modelNames[uni(t, len(modelNames), "model")]
	}
	// any order: a later AddRange may give earlier columns to an existing partition
	for _, i := range gen.Perm(t, len(rs), "order") {
		c.Ranges = append(c.Ranges, rs[i])
	}
	if uni(t, 5, "backwards") == 0 {
		c.Ranges = addBackwards(t, c.Ranges, aliLen(c.Ali))
	}
	c.FromText = rapid.IntRange(0, len(c.Ranges)).Draw(t, "fromtext")
	if uni(t, 3, "notext") == 0 {
		c.FromText = 0
	}
	c.Plan = genPlan(t, c.Ali, "prov")
	return c
}

// judgeSplit compares Split(ps) with the model of the ranges applied so far
func judgeSplit(rows []gen.Row, al align.Alignment, ps *align.PartitionSet, m partModel, what string) error {
	blocks, e := al.Split(ps)
	if len(m.Names) <= 1 {
		if e == nil {
			return fmt.Errorf("%s: Split with %d partition(s) accepted", what, len(m.Names))
		}
		return nil
	}
	if e != nil {
		return fmt.Errorf("%s: Split refused: %v", what, e)
	}
	if len(blocks) != len(m.Names) {
		return fmt.Errorf("%s: Split returns %d alignments for %d partitions", what, len(blocks), len(m.Names))
	}
	cols := make([][]int, len(m.Names))
	for i, p := range m.Site {
		if ps.Partition(i) != p {
			return fmt.Errorf("%s: site %d is in partition %d want %d", what, i, ps.Partition(i), p)
		}
		if p >= 0 {
			cols[p] = append(cols[p], i)
		}
	}
	for pi := range blocks {
		if ps.PartitionName(pi) != m.Names[pi] {
			return fmt.Errorf("%s: partition %d is named %q want %q", what, pi, ps.PartitionName(pi), m.Names[pi])
		}
		if err := sameAli(blocks[pi], takeCols(rows, cols[pi]), fmt.Sprintf("%s: Split block %d (%s)", what, pi, m.Names[pi])); err != nil {
			return err
		}
	}
	if !gen.SameRows(gen.Snapshot(al), rows) {
		return fmt.Errorf("%s: Split changed its receiver", what)
	}
	return nil
}

func checkHist(c histCase) (o pbt.Outcome, err error) {
	usePlan(&o, c.Plan)
	defer donePlan(&o)
	rows, l := c.Ali.Rows, aliLen(c.Ali)
	al := build(c.Ali)
	var ps *align.PartitionSet
	if c.FromText > 0 {
		txt := partitionText(splitCase{Ranges: c.Ranges[:c.FromText], PartL: l})
		var e error
		if ps, e = partition.NewParser(strings.NewReader(txt)).Parse(l); e != nil {
			return o, fmt.Errorf("partition text %q refused: %v", txt, e)
		}
		o.Class("history:starts-from-text")
	} else {
		ps = align.NewPartitionSet(l)
		o.Class("history:starts-empty")
	}
	existingAfterSplit, newAfterSplit := 0, 0
	for k := c.FromText; k <= len(c.Ranges); k++ {
		m := modelPartition(c.Ranges[:k], l)
		what := fmt.Sprintf("after %d of the ranges %+v on %d columns", k, c.Ranges, l)
		// twice in a row: the observation must not change the partition set
		for rep := 0; rep < 2; rep++ {
			if err = judgeSplit(rows, al, ps, m, what); err != nil {
				return
			}
		}
		if k == len(c.Ranges) {
			break
		}
		r := c.Ranges[k]
		known := false
		for _, n := range m.Names {
			known = known || n == r.Name
		}
		if e := ps.AddRange(r.Name, r.Model, r.Start, r.End, r.Mod); e != nil {
			return o, fmt.Errorf("%s: AddRange(%+v) refused: %v", what, r, e)
		}
		if len(m.Names) > 1 {
			if known {
				existingAfterSplit++
			} else {
				newAfterSplit++
			}
		}
	}
	o.NonTrivial = existingAfterSplit > 0
	if existingAfterSplit > 0 {
		o.Class("history:range-added-to-an-existing-partition-after-a-split")
	}
	if newAfterSplit > 0 {
		o.Class("history:new-partition-after-a-split")
	}
	return o, nil
}

func TestSplitHistory(t *testing.T) { pbt.Run(t, genHist, checkHist) }
