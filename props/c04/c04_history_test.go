package c04

// Histories on ONE alignment object: the addressing queries (RefCoordinates, RefSites, SubAlign,
// SelectSites) are first called on the object (and judged), then the object is edited IN PLACE by a drawn
// sequence of the library's mutators, then the queries are judged again on the same object by the same
// column-arithmetic oracle applied to the content the object holds now (read back row by row, which is
// what a fresh object built from the same content would hold). An answer that depends on what the object
// held at an earlier call is a violation: the property addresses "the requested columns of every
// sequence", i.e. of the alignment as it is when the request is made.

import (
	"fmt"
	"testing"

	"pgregory.net/rapid"

	"github.com/evolbioinfo/goalign/align"

	"verif/internal/gen"
	"verif/internal/pbt"
)

// histQuery is one addressing request; with Fit the integers are reduced into the valid domain of the
// content present when the request is made (which the generator cannot know), otherwise they are used as drawn
type histQuery struct {
	Kind  string `json:"kind"` // coord | sites | sub | select
	Ref   string `json:"ref"`
	Fit   bool   `json:"fit"`
	S     int    `json:"s"`
	N     int    `json:"n"`
	Sites []int  `json:"sites"`
}

// histEdit is one in-place mutation of the object; positions are reduced modulo the present length
type histEdit struct {
	Kind   string  `json:"kind"`
	Row    int     `json:"row"`
	Pos    int     `json:"pos"`
	Len    int     `json:"len"`
	Char   string  `json:"char"`
	Old    string  `json:"old"`
	Cutoff float64 `json:"cutoff"`
	Flag   bool    `json:"flag"`
	Flag2  bool    `json:"flag2"`
}

type useCase struct {
	Plan   gen.Plan    `json:"plan"`
	Ali    gen.Ali     `json:"ali"`
	Before []histQuery `json:"before"`
	Edits  []histEdit  `json:"edits"`
	After  []histQuery `json:"after"`
	Again  []histEdit  `json:"again"` // a second round of edits ...
	Last   []histQuery `json:"last"`  // ... and of requests
}

var histEditKinds = []string{"replacechar", "replacechar", "setchar", "writethrough", "replace", "removegapsites", "removegapsites",
	"mask", "diff", "undiff", "revcomp", "sort", "swapnames", "trim", "removecharsites"}

func genHistQuery(t *rapid.T, a gen.Ali, ref string) histQuery {
	q := histQuery{Ref: ref}
	if uni(t, 6, "otherref") == 0 {
		q.Ref = genRefName(t, a)
	}
	q.Kind = []string{"coord", "coord", "sites", "sites", "sub", "select"}[uni(t, 6, "qkind")]
	q.Fit = uni(t, 4, "fit") != 0
	// 0..31, or -1 (rapid draws the sign of a range that crosses zero first: -1 would come half of the time)
	arg := rapid.Map(rapid.IntRange(0, 32), func(v int) int {
		if v == 32 {
			return -1
		}
		return v
	})
	q.S = arg.Draw(t, "qs")
	q.N = arg.Draw(t, "qn")
	if q.Kind == "sites" || q.Kind == "select" {
		q.Sites = rapid.SliceOfN(arg, 0, 5).Draw(t, "qsites")
	}
	return q
}

func genHistEdit(t *rapid.T, a gen.Ali, ref string) histEdit {
	letters := "ACGTN"
	if a.Alphabet == "aa" {
		letters = "ARNDLKX"
	}
	e := histEdit{Kind: histEditKinds[uni(t, len(histEditKinds), "ekind")]}
	e.Row = rapid.IntRange(0, len(a.Rows)-1).Draw(t, "erow")
	if uni(t, 2, "onref") == 0 {
		for i, r := range a.Rows {
			if r.Name == ref {
				e.Row = i
			}
		}
	}
	e.Pos = rapid.IntRange(0, 31).Draw(t, "epos")
	e.Len = rapid.IntRange(0, 8).Draw(t, "elen")
	e.Char = "-"
	if uni(t, 2, "gapchar") == 0 {
		e.Char = string(letters[uni(t, len(letters), "echar")])
	}
	e.Old = "-"
	if uni(t, 2, "gapold") == 0 {
		e.Old = string(letters[uni(t, len(letters), "eold")])
	}
	e.Cutoff = []float64{0, 0.3, 0.5, 1}[uni(t, 4, "cutoff")]
	e.Flag = rapid.Bool().Draw(t, "flag")
	e.Flag2 = rapid.Bool().Draw(t, "flag2")
	return e
}

func genUse(t *rapid.T) useCase {
	var c useCase
	c.Ali = genAli(t, 5, 1, 20)
	ref := genRefName(t, c.Ali)
	if ref == "nosuch" {
		ref = c.Ali.Rows[0].Name
	}
	for i, n := 0, rapid.IntRange(1, 3).Draw(t, "nbefore"); i < n; i++ {
		c.Before = append(c.Before, genHistQuery(t, c.Ali, ref))
	}
	for i, n := 0, rapid.IntRange(1, 3).Draw(t, "nedits"); i < n; i++ {
		c.Edits = append(c.Edits, genHistEdit(t, c.Ali, ref))
	}
	for i, n := 0, rapid.IntRange(1, 3).Draw(t, "nafter"); i < n; i++ {
		c.After = append(c.After, genHistQuery(t, c.Ali, ref))
	}
	if uni(t, 3, "second") == 0 {
		for i, n := 0, rapid.IntRange(1, 2).Draw(t, "nagain"); i < n; i++ {
			c.Again = append(c.Again, genHistEdit(t, c.Ali, ref))
		}
		for i, n := 0, rapid.IntRange(1, 2).Draw(t, "nlast"); i < n; i++ {
			c.Last = append(c.Last, genHistQuery(t, c.Ali, ref))
		}
	}
	c.Plan = genPlan(t, c.Ali, "prov")
	return c
}

// applyEdit mutates the object in place through the library. Whether the mutator does what it documents is
// not this property's business (an error is ignored too): the content is read back afterwards
func applyEdit(al align.Alignment, e histEdit) {
	l, nr := al.Length(), al.NbSequences()
	if nr == 0 {
		return
	}
	row := e.Row % nr
	name, _ := al.GetSequenceNameById(row)
	pos := 0
	if l > 0 {
		pos = e.Pos % l
	}
	switch e.Kind {
	case "replacechar":
		al.ReplaceChar(name, pos, e.Char[0])
	case "setchar":
		al.SetSequenceChar(row, pos, e.Char[0])
	case "writethrough":
		if s, ok := al.GetSequenceByName(name); ok && l > 0 {
			s.SequenceChar()[pos] = e.Char[0]
		}
	case "replace":
		if e.Old != e.Char {
			al.Replace(e.Old, e.Char, false)
		}
	case "removegapsites":
		al.RemoveGapSites(e.Cutoff, e.Flag)
	case "removecharsites":
		al.RemoveCharacterSites([]uint8{e.Old[0]}, e.Cutoff, e.Flag, false, e.Flag2, false, false)
	case "mask":
		rep := e.Char
		if rep == "-" {
			rep = "GAP"
		}
		al.Mask("", pos, e.Len, rep, e.Flag, false)
	case "diff":
		al.DiffWithFirst()
	case "undiff":
		al.ReplaceMatchChars()
	case "revcomp":
		al.ReverseComplement()
	case "sort":
		al.Sort()
	case "swapnames":
		other, _ := al.GetSequenceNameById((row + 1) % nr)
		if other != name {
			al.Rename(map[string]string{name: other, other: name})
		}
	case "trim":
		if l > 1 {
			al.TrimSequences(1+e.Len%(l-1), e.Flag)
		}
	}
}

// checkHistQuery judges one request on the object al, whose present content is a
func checkHistQuery(o *pbt.Outcome, al align.Alignment, a gen.Ali, q histQuery, when string) (onRef bool, err error) {
	rows, l := a.Rows, aliLen(a)
	ref, known := rowByName(rows, q.Ref)
	np := len(nonGap(ref.Seq))
	wrap := func(e error) error {
		if e == nil {
			return nil
		}
		return fmt.Errorf("%s, on the object holding %s: %v", when, gen.Show(rows), e)
	}
	switch q.Kind {
	case "coord":
		s, n := q.S, q.N
		if q.Fit && known && np > 0 && s >= 0 && n >= 0 {
			s = s % np
			n = 1 + n%(np-s)
		}
		valid, _, e := checkRefCoordOn(o, al, a, q.Ref, s, n)
		if e != nil {
			return false, wrap(e)
		}
		onRef = valid
		o.Class("history:%s:refcoord valid=%v", when, valid)
	case "sites":
		sites := append([]int{}, q.Sites...)
		ok := known && len(sites) > 0
		for i, s := range sites {
			if q.Fit && known && np > 0 && s >= 0 {
				sites[i] = s % np
			}
			ok = ok && sites[i] >= 0 && sites[i] < np
		}
		if e := checkRefSitesOn(o, al, a, q.Ref, sites); e != nil {
			return false, wrap(e)
		}
		onRef = ok
		o.Class("history:%s:refsites valid=%v", when, ok)
	case "sub":
		s, n := q.S, q.N
		if q.Fit && l > 0 && s >= 0 && n >= 0 {
			s = s % l
			n = 1 + n%(l-s)
		}
		sub, e := al.SubAlign(s, n)
		switch {
		case !winValid(l, s, n):
			if e == nil {
				return false, wrap(fmt.Errorf("SubAlign(%d,%d) on %d columns: accepted a window outside the alignment", s, n, l))
			}
		case n == 0:
			o.Ambiguous++
		default:
			if e != nil {
				return false, wrap(fmt.Errorf("SubAlign(%d,%d) on %d columns refused a window inside the alignment: %v", s, n, l, e))
			}
			if e := sameAli(sub, takeCols(rows, span(s, s+n)), fmt.Sprintf("SubAlign(%d,%d)", s, n)); e != nil {
				return false, wrap(e)
			}
		}
		o.Class("history:%s:subalign", when)
	case "select":
		sites := append([]int{}, q.Sites...)
		bad := false
		for i, s := range sites {
			if q.Fit && l > 0 && s >= 0 {
				sites[i] = s % l
			}
			bad = bad || sites[i] < 0 || sites[i] >= l
		}
		sub, e := al.SelectSites(sites)
		switch {
		case bad:
			if e == nil {
				return false, wrap(fmt.Errorf("SelectSites(%v) on %d columns accepted a site outside the alignment", sites, l))
			}
		case len(sites) == 0:
			o.Ambiguous++
		default:
			if e != nil {
				return false, wrap(fmt.Errorf("SelectSites(%v) on %d columns refused: %v", sites, l, e))
			}
			if e := sameAli(sub, takeCols(rows, sites), fmt.Sprintf("SelectSites(%v)", sites)); e != nil {
				return false, wrap(e)
			}
		}
		o.Class("history:%s:selectsites", when)
	}
	if !gen.SameRows(gen.Snapshot(al), rows) || al.Length() != l {
		return false, wrap(fmt.Errorf("the request %+v changed its receiver: %s (Length() = %d)", q, gen.Show(gen.Snapshot(al)), al.Length()))
	}
	return onRef, nil
}

func checkUse(c useCase) (o pbt.Outcome, err error) {
	usePlan(&o, c.Plan)
	defer donePlan(&o)
	al := build(c.Ali)
	now := c.Ali
	used := map[string]bool{} // references a valid conversion was already made on
	layout := func(a gen.Ali, name string) string {
		r, _ := rowByName(a.Rows, name)
		return fmt.Sprint(nonGap(r.Seq))
	}
	round := func(edits []histEdit, queries []histQuery, when string) error {
		before := now
		for _, e := range edits {
			applyEdit(al, e)
			o.Class("history:edit=%s", e.Kind)
		}
		if len(edits) > 0 {
			now = gen.Ali{Alphabet: c.Ali.Alphabet, Rows: gen.Snapshot(al)}
			if len(now.Rows) == 0 {
				return nil
			}
			if al.Length() != aliLen(now) {
				return fmt.Errorf("%s: Length() = %d but the rows hold %d columns: %s", when, al.Length(), aliLen(now), gen.Show(now.Rows))
			}
			if aliLen(now) != aliLen(before) {
				o.Class("history:length-changed")
			}
		}
		for _, q := range queries {
			onRef, e := checkHistQuery(&o, al, now, q, when)
			if e != nil {
				return e
			}
			if onRef {
				if used[q.Ref] && len(edits) > 0 && layout(before, q.Ref) != layout(now, q.Ref) {
					// a valid conversion on a reference already used, whose gap layout the edits changed
					o.NonTrivial = true
					o.Class("history:conversion-after-the-gap-layout-of-a-used-reference-changed")
				}
			}
		}
		for _, q := range queries {
			if _, known := rowByName(now.Rows, q.Ref); known && (q.Kind == "coord" || q.Kind == "sites") {
				used[q.Ref] = true
			}
		}
		return nil
	}
	if err = round(nil, c.Before, "first-use"); err != nil {
		return
	}
	if err = round(c.Edits, c.After, "after-edits"); err != nil {
		return
	}
	if len(c.Again) > 0 {
		err = round(c.Again, c.Last, "after-more-edits")
	}
	return
}

func TestRefHistory(t *testing.T) { pbt.Run(t, genUse, checkUse) }
