// C04 - Site extraction and coordinates address exactly the requested columns
//
// Library tier. The oracle is column arithmetic on the generated rows (a list of (name, string)
// pairs): nothing here calls the function it judges.
package c04

import (
	"fmt"
	"io"
	"log"
	"math"
	"os"
	"sort"
	"strings"
	"testing"

	"github.com/evolbioinfo/goalign/align"
	"pgregory.net/rapid"
	"verif/internal/gen"
	"verif/internal/pbt"
)

func TestMain(m *testing.M) {
	log.SetOutput(io.Discard)
	pbt.Main(m, "C04")
}

// Findings on the unchanged tree that wait for a decision (props/c04/FINDINGS.md) would be listed here:
// the generators steer around the signature of a pending or known finding and count it
// (none at present: 711de4d, d923a70 and 558bb27 repaired the three findings of props/c04/FINDINGS.md).
var pending = map[string]bool{}

// sumOverflows: start >= 0, length >= 0 and start+length does not fit in an int (the overflow defects of
// RefCoordinates and `subseq --step` were repaired by d923a70 and 558bb27; such calls are judged like any other)
func sumOverflows(s, n int) bool { return s >= 0 && n >= 0 && n > math.MaxInt-s }

// VERIF_NO_PENDING=1 judges the pending signatures strictly (to try a candidate repair in a scratch copy)
func steerAround(key string) bool {
	return pbt.Known(key) || (pending[key] && os.Getenv("VERIF_NO_PENDING") == "")
}

// ---- provenance of the operands --------------------------------------------------------------------
//
// A share of the cases builds its alignments through a drawn chain of public operations (clone, rename
// cycle, cut, select, clean, concat, append, re-parse ...) that ends on exactly the generated content
// (gen.DrawPlan / gen.BuildVia): the oracle stays the column arithmetic on the generated rows.

// activePlan is the plan of the alignment the running check builds (checks run one at a time)
var activePlan gen.Plan
var planUnusable bool

// build constructs the alignment, through the active plan if there is one
func build(a gen.Ali) align.Alignment {
	if len(activePlan.Steps) > 0 {
		if al, ok := gen.BuildVia(a, activePlan); ok {
			return al
		}
		planUnusable = true
	}
	return gen.MustBuild(a)
}

// usePlan makes p the active plan and labels the case
func usePlan(o *pbt.Outcome, p gen.Plan) {
	activePlan = p
	planUnusable = false
	if len(p.Steps) == 0 {
		o.Class("provenance=fresh")
		return
	}
	seen := map[string]bool{}
	for _, k := range p.Kinds() {
		if !seen[k] {
			seen[k] = true
			o.Class("provenance=%s", k)
		}
	}
}

// donePlan closes the case: counts a chain that did not end on the content (not this property's business)
func donePlan(o *pbt.Outcome) {
	if planUnusable {
		o.Class("provenance-unusable")
	}
	activePlan = gen.Plan{}
}

// genPlan draws a plan for one case in three
func genPlan(t *rapid.T, a gen.Ali, label string) gen.Plan {
	if uni(t, 3, label) != 0 {
		return gen.Plan{}
	}
	junk := "ACGT-"
	if a.Alphabet == "aa" {
		junk = "ARNDLKMF-"
	}
	return gen.DrawPlan(t, a, junk, 3)
}

// ---- model helpers ------------------------------------------------------------------------

func aliLen(a gen.Ali) int { return len(a.Rows[0].Seq) }

// takeCols returns the rows restricted to the given columns, in the given order
func takeCols(rows []gen.Row, idx []int) []gen.Row {
	out := make([]gen.Row, len(rows))
	for i, r := range rows {
		b := make([]byte, len(idx))
		for j, p := range idx {
			b[j] = r.Seq[p]
		}
		out[i] = gen.Row{Name: r.Name, Seq: string(b)}
	}
	return out
}

func span(s, e int) []int {
	var out []int
	for i := s; i < e; i++ {
		out = append(out, i)
	}
	return out
}

// nonGap lists the alignment positions of the residues of a row that are not gaps
func nonGap(seq string) []int {
	var p []int
	for i := 0; i < len(seq); i++ {
		if seq[i] != '-' {
			p = append(p, i)
		}
	}
	return p
}

func rowByName(rows []gen.Row, name string) (gen.Row, bool) {
	for _, r := range rows {
		if r.Name == name {
			return r, true
		}
	}
	return gen.Row{}, false
}

// winValid: the documented bounds of a window (start, length) on an alignment of length l
// (written without the sum start+length, which overflows for huge arguments)
func winValid(l, s, n int) bool { return s >= 0 && s <= l && n >= 0 && n <= l-s }

// hugeInts: the quantifier says "all integer arguments"
var hugeInts = []int{math.MaxInt, math.MaxInt - 1, math.MaxInt/2 + 1, math.MinInt, math.MinInt + 1}

func isHuge(v int) bool { return v > 1<<40 || v < -(1<<40) }

// bint draws an integer argument: a boundary value around n, a uniform one, or (1 in 6) a huge one
func bint(t *rapid.T, n int, label string) int {
	if uni(t, 6, label+"_huge") == 0 {
		return hugeInts[uni(t, len(hugeInts), label+"_h")]
	}
	return gen.Boundary(t, n, label)
}

// hugeLen draws a length that makes start+length overflow or nearly so
func hugeLen(t *rapid.T, s int, label string) int {
	return []int{math.MaxInt, math.MaxInt - 1, math.MaxInt/2 + 1, math.MaxInt - s, math.MaxInt - s + 1}[uni(t, 5, label)]
}

// sameAli compares an alignment returned by goalign with the expected rows
func sameAli(al align.Alignment, want []gen.Row, what string) error {
	if al == nil {
		return fmt.Errorf("%s: nil alignment without error", what)
	}
	got := gen.Snapshot(al)
	if !gen.SameRows(got, want) {
		return fmt.Errorf("%s differs from the addressed columns\n got : %s\n want: %s", what, gen.Show(got), gen.Show(want))
	}
	if len(want) > 0 && al.Length() != len(want[0].Seq) {
		return fmt.Errorf("%s: Length() = %d but the rows hold %d columns", what, al.Length(), len(want[0].Seq))
	}
	for _, r := range want {
		if s, ok := al.GetSequence(r.Name); !ok || s != r.Seq {
			return fmt.Errorf("%s: GetSequence(%q) = %q,%v want %q", what, r.Name, s, ok, r.Seq)
		}
	}
	return nil
}

func isBoundary(v, l int) bool {
	return v == -1 || v == 0 || v == 1 || v == l-1 || v == l || v == l+1
}

func sameInts(a, b []int) bool {
	if len(a) != len(b) {
		return false
	}
	for i := range a {
		if a[i] != b[i] {
			return false
		}
	}
	return true
}

// ---- generators ---------------------------------------------------------------------------

const (
	ntPlain = "ACGT"
	ntRich  = "ACGTNRYacgtn"
	aaRich  = "ARNDCQEGHILKMFPSTWYVXarndcq*"
)

// uni draws 0..n-1 nearly uniformly from fair bits (rapid's integer generators favour small values,
// which starves the later alternatives of a choice)
func uni(t *rapid.T, n int, label string) int {
	v := 0
	for b := 1; b < n*8; b <<= 1 {
		v <<= 1
		if rapid.Bool().Draw(t, label) {
			v |= 1
		}
	}
	return v % n
}

// genSeqRow draws one row of length l with one of several gap layouts (none, scattered, leading and
// trailing runs, all gaps, mostly gaps)
func genSeqRow(t *rapid.T, letters string, l int) string {
	b := []byte(gen.SeqN(t, letters, l))
	style := uni(t, 8, "gapstyle")
	if style == 6 && uni(t, 2, "allgaps") == 0 {
		style = 0
	}
	switch style {
	case 0, 1, 2:
	case 3, 4: // scattered
		for i := range b {
			if rapid.IntRange(0, 2).Draw(t, "g") == 0 {
				b[i] = '-'
			}
		}
	case 5: // leading and trailing runs, some inside
		lead := rapid.IntRange(0, l).Draw(t, "lead")
		trail := rapid.IntRange(0, l-lead).Draw(t, "trail")
		for i := 0; i < lead; i++ {
			b[i] = '-'
		}
		for i := l - trail; i < l; i++ {
			b[i] = '-'
		}
		for i := lead; i < l-trail; i++ {
			if rapid.IntRange(0, 4).Draw(t, "g") == 0 {
				b[i] = '-'
			}
		}
	case 6: // all gaps
		for i := range b {
			b[i] = '-'
		}
	case 7: // mostly gaps
		for i := range b {
			if rapid.IntRange(0, 3).Draw(t, "g") != 0 {
				b[i] = '-'
			}
		}
	}
	return string(b)
}

func genLetters(t *rapid.T) (alphabet, letters string) {
	switch uni(t, 6, "alphabet") {
	case 0, 1, 2:
		return "nt", ntPlain
	case 3:
		return "nt", ntRich
	case 4:
		return "aa", gen.AA20
	default:
		return "aa", aaRich
	}
}

func genLen(t *rapid.T, minL, maxL int) int {
	if rapid.IntRange(0, 3).Draw(t, "short") == 0 {
		hi := 3
		if hi > maxL {
			hi = maxL
		}
		if hi < minL {
			hi = minL
		}
		return rapid.IntRange(minL, hi).Draw(t, "Lsmall")
	}
	return rapid.IntRange(minL, maxL).Draw(t, "L")
}

// genAli draws an alignment of 1..maxRows rows
func genAli(t *rapid.T, maxRows, minL, maxL int) gen.Ali {
	n := rapid.IntRange(1, maxRows).Draw(t, "rows")
	l := genLen(t, minL, maxL)
	a := gen.Ali{}
	var letters string
	a.Alphabet, letters = genLetters(t)
	for i := 0; i < n; i++ {
		a.Rows = append(a.Rows, gen.Row{Name: fmt.Sprintf("s%d", i), Seq: genSeqRow(t, letters, l)})
	}
	return a
}

// genRefName picks a reference: mostly a row with gaps, sometimes an unknown name
func genRefName(t *rapid.T, a gen.Ali) string {
	if uni(t, 10, "unknownref") == 0 {
		return "nosuch"
	}
	var gappy []int
	for i, r := range a.Rows {
		if strings.Contains(r.Seq, "-") {
			gappy = append(gappy, i)
		}
	}
	if len(gappy) > 0 && rapid.IntRange(0, 3).Draw(t, "gappyref") != 0 {
		return a.Rows[gappy[rapid.IntRange(0, len(gappy)-1).Draw(t, "gi")]].Name
	}
	return a.Rows[rapid.IntRange(0, len(a.Rows)-1).Draw(t, "ri")].Name
}

// genWindow draws (start,length): valid by construction half of the time (with the window touching
// the ends often), boundary biased otherwise
func genWindow(t *rapid.T, l int, label string) (s, n int) {
	kind := uni(t, 9, label+"_kind")
	if l == 0 {
		kind = 7
	}
	switch kind {
	case 0, 1: // valid, anywhere, not empty
		s = rapid.IntRange(0, l-1).Draw(t, label+"_s")
		n = rapid.IntRange(1, l-s).Draw(t, label+"_n")
	case 2: // valid, ends on the last column
		s = rapid.IntRange(0, l).Draw(t, label+"_s")
		n = l - s
	case 3: // valid, starts on the first column
		s = 0
		n = rapid.IntRange(1, l).Draw(t, label+"_n")
	case 4: // one past the end
		s = rapid.IntRange(0, l).Draw(t, label+"_s")
		n = l - s + 1
	case 8: // a start inside, a length so large that start+length overflows (or nearly)
		s = rapid.IntRange(0, l).Draw(t, label+"_s")
		n = hugeLen(t, s, label+"_hl")
	default:
		s = bint(t, l, label+"_bs")
		n = bint(t, l, label+"_bn")
	}
	return
}

// ---- windows: SubAlign, InverseCoordinates, TrimSequences, prefix+suffix re-assembly ----------

type winCase struct {
	Plan      gen.Plan `json:"plan"`
	Ali       gen.Ali  `json:"ali"`
	Start     int      `json:"start"`
	Len       int      `json:"len"`
	Cut       int      `json:"cut"`
	Trim      int      `json:"trim"`
	FromStart bool     `json:"from_start"`
}

func genWin(t *rapid.T) winCase {
	var c winCase
	c.Ali = genAli(t, 6, 1, 30)
	l := aliLen(c.Ali)
	c.Start, c.Len = genWindow(t, l, "w")
	c.Cut = rapid.IntRange(0, l).Draw(t, "cut")
	if rapid.IntRange(0, 3).Draw(t, "cutedge") == 0 {
		c.Cut = rapid.SampledFrom([]int{0, 1, l - 1, l}).Draw(t, "cutb")
		if c.Cut < 0 {
			c.Cut = 0
		}
	}
	if rapid.Bool().Draw(t, "trimvalid") {
		c.Trim = rapid.IntRange(0, l-1).Draw(t, "trim")
	} else {
		c.Trim = bint(t, l, "trimb")
	}
	c.FromStart = rapid.Bool().Draw(t, "fromstart")
	c.Plan = genPlan(t, c.Ali, "prov")
	return c
}

func winClass(l, s, n int) string {
	switch {
	case isHuge(s) || isHuge(n):
		return "huge"
	case s < 0:
		return "start<0"
	case s > l:
		return "start>L"
	case n < 0:
		return "len<0"
	case n > l-s:
		return "overhang"
	case n == 0:
		return "empty"
	case s+n == l && s == 0:
		return "whole"
	case s+n == l:
		return "ends-on-last"
	case s == 0:
		return "starts-on-first"
	}
	return "inside"
}

// checkSubAlign judges SubAlign(s,n) on a freshly built alignment
func checkSubAlign(o *pbt.Outcome, a gen.Ali, s, n int) error {
	rows, l := a.Rows, aliLen(a)
	al := build(a)
	sub, e := al.SubAlign(s, n)
	switch {
	case !winValid(l, s, n):
		if e == nil {
			return fmt.Errorf("SubAlign(%d,%d) on %d columns: accepted a window outside the alignment, returned %s", s, n, l, gen.Show(gen.Snapshot(sub)))
		}
	case n == 0:
		// an empty window inside the alignment: refused or returned as empty rows, both accepted
		o.Ambiguous++
		if e == nil {
			if err := sameAli(sub, takeCols(rows, nil), fmt.Sprintf("SubAlign(%d,0)", s)); err != nil {
				return err
			}
		}
	default:
		if e != nil {
			return fmt.Errorf("SubAlign(%d,%d) on %d columns refused a window inside the alignment: %v", s, n, l, e)
		}
		if err := sameAli(sub, takeCols(rows, span(s, s+n)), fmt.Sprintf("SubAlign(%d,%d)", s, n)); err != nil {
			return err
		}
	}
	if !gen.SameRows(gen.Snapshot(al), rows) || al.Length() != l {
		return fmt.Errorf("SubAlign(%d,%d) changed its receiver: %s", s, n, gen.Show(gen.Snapshot(al)))
	}
	return nil
}

// checkInverse judges InverseCoordinates(s,n) and re-assembles the complement through SubAlign+Concat
func checkInverse(o *pbt.Outcome, a gen.Ali, s, n int) error {
	rows, l := a.Rows, aliLen(a)
	al := build(a)
	is, il, e := al.InverseCoordinates(s, n)
	if !winValid(l, s, n) {
		if e == nil {
			return fmt.Errorf("InverseCoordinates(%d,%d) on %d columns accepted a window outside the alignment: %v %v", s, n, l, is, il)
		}
		return nil
	}
	if e != nil {
		if n == 0 {
			o.Ambiguous++
			return nil
		}
		return fmt.Errorf("InverseCoordinates(%d,%d) on %d columns refused a window inside the alignment: %v", s, n, l, e)
	}
	if len(is) != len(il) {
		return fmt.Errorf("InverseCoordinates(%d,%d): %d starts for %d lengths", s, n, len(is), len(il))
	}
	var got []int
	prev := 0
	for i := range is {
		if il[i] == 0 {
			o.Ambiguous++
		}
		if is[i] < prev || il[i] < 0 || is[i]+il[i] > l {
			return fmt.Errorf("InverseCoordinates(%d,%d) on %d columns: windows %v/%v are not ordered inside the alignment", s, n, l, is, il)
		}
		got = append(got, span(is[i], is[i]+il[i])...)
		prev = is[i] + il[i]
	}
	want := append(span(0, s), span(s+n, l)...)
	if !sameInts(got, want) {
		return fmt.Errorf("InverseCoordinates(%d,%d) on %d columns: starts %v lengths %v do not cover exactly the complement %v", s, n, l, is, il, want)
	}
	// selection and complement together give the whole alignment, in order (the way `subseq -r` uses them)
	var acc align.Alignment
	pieces := [][2]int{}
	if s > 0 {
		pieces = append(pieces, [2]int{0, s})
	}
	if n > 0 {
		pieces = append(pieces, [2]int{s, n})
	}
	if s+n < l {
		pieces = append(pieces, [2]int{s + n, l - s - n})
	}
	for _, p := range pieces {
		sub, e := al.SubAlign(p[0], p[1])
		if e != nil {
			return fmt.Errorf("SubAlign(%d,%d) on %d columns: %v", p[0], p[1], l, e)
		}
		if acc == nil {
			acc = sub
		} else if e := acc.Concat(sub); e != nil {
			return fmt.Errorf("Concat of consecutive windows fails: %v", e)
		}
	}
	if err := sameAli(acc, rows, fmt.Sprintf("prefix+window+suffix around (%d,%d)", s, n)); err != nil {
		return err
	}
	// the complement alone, as the command assembles it
	acc = nil
	for i := range is {
		if il[i] == 0 {
			continue
		}
		sub, e := al.SubAlign(is[i], il[i])
		if e != nil {
			return fmt.Errorf("SubAlign(%d,%d) of an inverse window: %v", is[i], il[i], e)
		}
		if acc == nil {
			acc = sub
		} else if e := acc.Concat(sub); e != nil {
			return fmt.Errorf("Concat of the inverse windows fails: %v", e)
		}
	}
	if acc != nil {
		if err := sameAli(acc, takeCols(rows, want), fmt.Sprintf("complement of (%d,%d)", s, n)); err != nil {
			return err
		}
	}
	// growing an extracted window must not reach back into the alignment it was taken from
	if !gen.SameRows(gen.Snapshot(al), rows) || al.Length() != l {
		return fmt.Errorf("assembling the complement of (%d,%d) from extracted windows changed the source alignment: %s", s, n, gen.Show(gen.Snapshot(al)))
	}
	if n > 0 && winValid(l, s, n) {
		again, e := al.SubAlign(s, n)
		if e != nil {
			return fmt.Errorf("second SubAlign(%d,%d): %v", s, n, e)
		}
		if err := sameAli(again, takeCols(rows, span(s, s+n)), fmt.Sprintf("SubAlign(%d,%d) after the complement was assembled", s, n)); err != nil {
			return err
		}
	}
	return nil
}

// checkTrim judges TrimSequences(k, fromStart)
func checkTrim(o *pbt.Outcome, a gen.Ali, k int, fromStart bool) error {
	rows, l := a.Rows, aliLen(a)
	al := build(a)
	e := al.TrimSequences(k, fromStart)
	if k < 0 || k >= l {
		if e == nil {
			return fmt.Errorf("TrimSequences(%d,%v) on %d columns accepted, result %s", k, fromStart, l, gen.Show(gen.Snapshot(al)))
		}
		if !gen.SameRows(gen.Snapshot(al), rows) || al.Length() != l {
			return fmt.Errorf("TrimSequences(%d,%v) reported an error but changed the alignment: %s (Length %d)", k, fromStart, gen.Show(gen.Snapshot(al)), al.Length())
		}
		return nil
	}
	if e != nil {
		return fmt.Errorf("TrimSequences(%d,%v) on %d columns refused: %v", k, fromStart, l, e)
	}
	want := takeCols(rows, span(0, l-k))
	if fromStart {
		want = takeCols(rows, span(k, l))
	}
	return sameAli(al, want, fmt.Sprintf("TrimSequences(%d,%v)", k, fromStart))
}

// checkCut: SubAlign(0,k) followed by SubAlign(k,L-k) re-assembles to the original
func checkCut(o *pbt.Outcome, a gen.Ali, k int) error {
	rows, l := a.Rows, aliLen(a)
	al := build(a)
	pre, e1 := al.SubAlign(0, k)
	suf, e2 := al.SubAlign(k, l-k)
	if e1 != nil || e2 != nil {
		if (e1 != nil && k == 0) || (e2 != nil && k == l) {
			o.Ambiguous++
			return nil
		}
		return fmt.Errorf("SubAlign(0,%d) / SubAlign(%d,%d) on %d columns: %v / %v", k, k, l-k, l, e1, e2)
	}
	if e := pre.Concat(suf); e != nil {
		return fmt.Errorf("Concat(prefix %d, suffix %d): %v", k, l-k, e)
	}
	return sameAli(pre, rows, fmt.Sprintf("SubAlign(0,%d) ++ SubAlign(%d,%d)", k, k, l-k))
}

func checkWin(c winCase) (o pbt.Outcome, err error) {
	usePlan(&o, c.Plan)
	defer donePlan(&o)
	l := aliLen(c.Ali)
	if err = checkSubAlign(&o, c.Ali, c.Start, c.Len); err != nil {
		return
	}
	if err = checkInverse(&o, c.Ali, c.Start, c.Len); err != nil {
		return
	}
	if err = checkCut(&o, c.Ali, c.Cut); err != nil {
		return
	}
	if err = checkTrim(&o, c.Ali, c.Trim, c.FromStart); err != nil {
		return
	}
	o.NonTrivial = isBoundary(c.Start, l) || isBoundary(c.Len, l) || isBoundary(c.Start+c.Len, l) || isBoundary(c.Trim, l) || c.Cut == 0 || c.Cut == l
	o.Class("window:%s", winClass(l, c.Start, c.Len))
	switch {
	case isHuge(c.Trim):
		o.Class("trim:huge")
	case c.Trim < 0:
		o.Class("trim<0")
	case c.Trim == 0:
		o.Class("trim=0")
	case c.Trim == l-1:
		o.Class("trim=L-1")
	case c.Trim >= l:
		o.Class("trim>=L")
	default:
		o.Class("trim:inside")
	}
	if c.Cut == 0 || c.Cut == l {
		o.Class("cut:empty-piece")
	}
	o.Class("alphabet=%s", c.Ali.Alphabet)
	return
}

func TestWindows(t *testing.T) { pbt.Run(t, genWin, checkWin) }

// ---- site lists: SelectSites, InversePositions, RefSites ---------------------------------------

type sitesCase struct {
	Plan     gen.Plan `json:"plan"`
	Ali      gen.Ali  `json:"ali"`
	Sites    []int    `json:"sites"`
	Ref      string   `json:"ref"`
	RefSites []int    `json:"ref_sites"`
}

func genSiteList(t *rapid.T, l int, label string) []int {
	k := rapid.IntRange(0, 8).Draw(t, label+"_k")
	var out []int
	valid := rapid.IntRange(0, 2).Draw(t, label+"_valid") != 0 && l > 0
	for i := 0; i < k; i++ {
		switch {
		case valid && rapid.IntRange(0, 3).Draw(t, label+"_edge") == 0:
			out = append(out, rapid.SampledFrom([]int{0, l - 1}).Draw(t, label+"_e"))
		case valid:
			out = append(out, rapid.IntRange(0, l-1).Draw(t, label))
		case len(out) > 0 && rapid.IntRange(0, 3).Draw(t, label+"_rep") == 0:
			out = append(out, out[rapid.IntRange(0, len(out)-1).Draw(t, label+"_ri")])
		case rapid.IntRange(0, 2).Draw(t, label+"_in") != 0 && l > 0:
			out = append(out, rapid.IntRange(0, l-1).Draw(t, label))
		default:
			out = append(out, bint(t, l, label+"_b"))
		}
	}
	return out
}

func genSites(t *rapid.T) sitesCase {
	var c sitesCase
	c.Ali = genAli(t, 6, 1, 30)
	c.Sites = genSiteList(t, aliLen(c.Ali), "site")
	c.Ref = genRefName(t, c.Ali)
	np := 0
	if r, ok := rowByName(c.Ali.Rows, c.Ref); ok {
		np = len(nonGap(r.Seq))
	} else {
		np = aliLen(c.Ali)
	}
	c.RefSites = genSiteList(t, np, "refsite")
	c.Plan = genPlan(t, c.Ali, "prov")
	return c
}

func sortedSet(v []int) []int {
	m := map[int]bool{}
	var out []int
	for _, x := range v {
		if !m[x] {
			m[x] = true
			out = append(out, x)
		}
	}
	sort.Ints(out)
	return out
}

func checkSelect(o *pbt.Outcome, a gen.Ali, sites []int) error {
	rows, l := a.Rows, aliLen(a)
	al := build(a)
	bad := false
	for _, s := range sites {
		if s < 0 || s >= l {
			bad = true
		}
	}
	sub, e := al.SelectSites(sites)
	switch {
	case bad:
		if e == nil {
			return fmt.Errorf("SelectSites(%v) on %d columns accepted a site outside the alignment: %s", sites, l, gen.Show(gen.Snapshot(sub)))
		}
	case len(sites) == 0:
		o.Ambiguous++
		if e == nil {
			if err := sameAli(sub, takeCols(rows, nil), "SelectSites([])"); err != nil {
				return err
			}
		}
	default:
		if e != nil {
			return fmt.Errorf("SelectSites(%v) on %d columns refused: %v", sites, l, e)
		}
		if err := sameAli(sub, takeCols(rows, sites), fmt.Sprintf("SelectSites(%v)", sites)); err != nil {
			return err
		}
	}
	if !gen.SameRows(gen.Snapshot(al), rows) {
		return fmt.Errorf("SelectSites(%v) changed its receiver", sites)
	}
	inv, e := al.InversePositions(sites)
	if bad {
		if e == nil {
			return fmt.Errorf("InversePositions(%v) on %d columns accepted a site outside the alignment: %v", sites, l, inv)
		}
		return nil
	}
	if e != nil {
		return fmt.Errorf("InversePositions(%v) on %d columns refused: %v", sites, l, e)
	}
	in := map[int]bool{}
	for _, s := range sites {
		in[s] = true
	}
	var want []int
	for i := 0; i < l; i++ {
		if !in[i] {
			want = append(want, i)
		}
	}
	if !sameInts(inv, want) {
		return fmt.Errorf("InversePositions(%v) on %d columns = %v, the ordered complement is %v", sites, l, inv, want)
	}
	// selection (as a set) and complement partition [0,L): merging both restores the alignment
	merged := append(append([]int{}, sortedSet(sites)...), inv...)
	sort.Ints(merged)
	if !sameInts(merged, span(0, l)) {
		return fmt.Errorf("sites %v and their inverse %v do not partition [0,%d)", sites, inv, l)
	}
	if len(inv) > 0 {
		sub, e := al.SelectSites(inv)
		if e != nil {
			return fmt.Errorf("SelectSites(inverse positions %v): %v", inv, e)
		}
		if err := sameAli(sub, takeCols(rows, want), fmt.Sprintf("SelectSites(InversePositions(%v))", sites)); err != nil {
			return err
		}
	}
	return nil
}

// checkRefSites judges RefSites(name, sites). Accepted results: the ascending set of the alignment
// positions of the addressed residues (the doc comment's reading, DESIGN C04) or the same positions in
// the order the caller gave them (the statement's "addressed order")
func checkRefSites(o *pbt.Outcome, a gen.Ali, name string, sites []int) error {
	return checkRefSitesOn(o, build(a), a, name, sites)
}

// checkRefSitesOn judges RefSites on an existing object whose present content is a
func checkRefSitesOn(o *pbt.Outcome, al align.Alignment, a gen.Ali, name string, sites []int) error {
	rows := a.Rows
	ref, known := rowByName(rows, name)
	p := nonGap(ref.Seq)
	bad := !known
	for _, s := range sites {
		if s < 0 || s >= len(p) {
			bad = true
		}
	}
	got, e := al.RefSites(name, sites)
	if bad {
		if e == nil {
			return fmt.Errorf("RefSites(%q,%v): reference has %d residues (known=%v) but the call succeeded with %v", name, sites, len(p), known, got)
		}
		return nil
	}
	if e != nil {
		return fmt.Errorf("RefSites(%q,%v) on a reference of %d residues refused: %v", name, sites, len(p), e)
	}
	var asc, given []int
	for _, s := range sortedSet(sites) {
		asc = append(asc, p[s])
	}
	for _, s := range sites {
		given = append(given, p[s])
	}
	if !sameInts(got, asc) {
		if !sameInts(got, given) {
			return fmt.Errorf("RefSites(%q,%v) = %v; reference %q has its residues at %v, so the addressed columns are %v", name, sites, got, ref.Seq, p, asc)
		}
		o.Ambiguous++
	}
	// independent characterisation: the selected columns hold exactly the requested reference residues
	if len(got) > 0 {
		sub, e := al.SelectSites(got)
		if e != nil {
			return fmt.Errorf("SelectSites(RefSites(%q,%v) = %v): %v", name, sites, got, e)
		}
		s, _ := sub.GetSequence(name)
		ung := strings.ReplaceAll(ref.Seq, "-", "")
		var want []byte
		order := sortedSet(sites)
		if !sameInts(got, asc) {
			order = sites
		}
		for _, x := range order {
			want = append(want, ung[x])
		}
		if s != string(want) {
			return fmt.Errorf("columns %v of reference %q read %q, the requested residues are %q", got, ref.Seq, s, want)
		}
	}
	return nil
}

func checkSites(c sitesCase) (o pbt.Outcome, err error) {
	usePlan(&o, c.Plan)
	defer donePlan(&o)
	l := aliLen(c.Ali)
	if err = checkSelect(&o, c.Ali, c.Sites); err != nil {
		return
	}
	if err = checkRefSites(&o, c.Ali, c.Ref, c.RefSites); err != nil {
		return
	}
	ref, known := rowByName(c.Ali.Rows, c.Ref)
	np := len(nonGap(ref.Seq))
	bnd, out, rep := false, false, false
	seen := map[int]bool{}
	for _, s := range c.Sites {
		bnd = bnd || isBoundary(s, l)
		out = out || s < 0 || s >= l
		rep = rep || seen[s]
		seen[s] = true
	}
	rbnd, rout := false, false
	for _, s := range c.RefSites {
		rbnd = rbnd || isBoundary(s, np)
		rout = rout || s < 0 || s >= np
	}
	gapInside := known && np > 0 && np < l
	o.NonTrivial = bnd || (rbnd && known) || (gapInside && len(c.RefSites) > 0 && !rout)
	switch {
	case len(c.Sites) == 0:
		o.Class("select:empty-list")
	case out:
		o.Class("select:outside")
	case rep:
		o.Class("select:valid-with-repeats")
	case !sort.IntsAreSorted(c.Sites):
		o.Class("select:valid-unordered")
	default:
		o.Class("select:valid-ascending")
	}
	for _, s := range c.Sites {
		if s == l {
			o.Class("select:site==L")
			break
		}
	}
	for _, s := range append(append([]int{}, c.Sites...), c.RefSites...) {
		if isHuge(s) {
			o.Class("sites:huge-argument")
			break
		}
	}
	switch {
	case !known:
		o.Class("refsites:unknown-reference")
	case len(c.RefSites) == 0:
		o.Class("refsites:empty-list")
	case rout:
		o.Class("refsites:outside")
	case gapInside:
		o.Class("refsites:valid-gapped-reference")
	default:
		o.Class("refsites:valid-ungapped-reference")
	}
	for _, s := range c.RefSites {
		if known && s == np {
			o.Class("refsites:site==ungapped-length")
			break
		}
	}
	return
}

func TestSites(t *testing.T) { pbt.Run(t, genSites, checkSites) }

// ---- RefCoordinates -------------------------------------------------------------------------

type refCase struct {
	Plan  gen.Plan `json:"plan"`
	Ali   gen.Ali  `json:"ali"`
	Ref   string   `json:"ref"`
	Start int      `json:"start"`
	Len   int      `json:"len"`
}

func genRef(t *rapid.T) refCase {
	var c refCase
	c.Ali = genAli(t, 6, 1, 30)
	c.Ref = genRefName(t, c.Ali)
	np := aliLen(c.Ali)
	if r, ok := rowByName(c.Ali.Rows, c.Ref); ok {
		np = len(nonGap(r.Seq))
	}
	var p []int
	if r, ok := rowByName(c.Ali.Rows, c.Ref); ok {
		p = nonGap(r.Seq)
	}
	var jumps []int // i such that the reference has a gap between its residues i and i+1
	for i := 0; i+1 < len(p); i++ {
		if p[i+1] > p[i]+1 {
			jumps = append(jumps, i)
		}
	}
	switch k := uni(t, 14, "kind") - 1; {
	case k == 11: // a start on the reference, a length so large that start+length overflows
		c.Start = rapid.IntRange(0, np).Draw(t, "s")
		c.Len = hugeLen(t, c.Start, "hl")
	case k == 12: // a huge start, a small length
		c.Start = []int{math.MaxInt, math.MaxInt - 1, math.MaxInt/2 + 1}[uni(t, 3, "hs")]
		c.Len = rapid.IntRange(1, 3).Draw(t, "n")
	case len(jumps) > 0 && k <= 1: // valid, across a gap of the reference
		j := jumps[rapid.IntRange(0, len(jumps)-1).Draw(t, "jump")]
		c.Start = rapid.IntRange(0, j).Draw(t, "s")
		c.Len = rapid.IntRange(j+2-c.Start, np-c.Start).Draw(t, "n")
	case np > 0 && k <= 2: // valid, anywhere
		c.Start = rapid.IntRange(0, np-1).Draw(t, "s")
		c.Len = rapid.IntRange(1, np-c.Start).Draw(t, "n")
	case np > 0 && k == 3: // valid, ends on the last residue
		c.Start = rapid.IntRange(0, np-1).Draw(t, "s")
		c.Len = np - c.Start
	case np > 0 && k == 4: // valid, starts on the first residue
		c.Start = 0
		c.Len = rapid.IntRange(1, np).Draw(t, "n")
	case np > 0 && k == 5: // valid, one residue
		c.Start = rapid.IntRange(0, np-1).Draw(t, "s")
		c.Len = 1
	case k == 6: // one residue past the end
		c.Start = rapid.IntRange(0, np).Draw(t, "s")
		c.Len = np - c.Start + 1
	case k == 7: // nothing requested
		c.Start = rapid.IntRange(0, np).Draw(t, "s")
		c.Len = 0
	default:
		c.Start = bint(t, np, "bs")
		c.Len = bint(t, np, "bn")
	}
	c.Plan = genPlan(t, c.Ali, "prov")
	return c
}

// checkRefCoord judges RefCoordinates(name,s,n): returns whether the call was valid and whether
// the window contains a gap of the reference
func checkRefCoord(o *pbt.Outcome, a gen.Ali, name string, s, n int) (valid, gapInside bool, err error) {
	return checkRefCoordOn(o, build(a), a, name, s, n)
}

// checkRefCoordOn judges RefCoordinates on an existing object whose present content is a
func checkRefCoordOn(o *pbt.Outcome, al align.Alignment, a gen.Ali, name string, s, n int) (valid, gapInside bool, err error) {
	rows, l := a.Rows, aliLen(a)
	ref, known := rowByName(rows, name)
	p := nonGap(ref.Seq)
	if known && sumOverflows(s, n) {
		o.Class("refcoord:start+length-overflows")
	}
	as, an, e := al.RefCoordinates(name, s, n)
	if !known || s < 0 || n < 0 || n > len(p)-s {
		if e == nil {
			return false, false, fmt.Errorf("RefCoordinates(%q,%d,%d): reference %q has %d residues (known=%v) but the call succeeded with (%d,%d)", name, s, n, ref.Seq, len(p), known, as, an)
		}
		return false, false, nil
	}
	if n == 0 {
		// no residue requested: refused, or an empty window
		o.Ambiguous++
		if e == nil && an != 0 {
			return false, false, fmt.Errorf("RefCoordinates(%q,%d,0) returns a window of length %d", name, s, an)
		}
		return false, false, nil
	}
	if e != nil {
		return true, false, fmt.Errorf("RefCoordinates(%q,%d,%d) on reference %q (%d residues) refused: %v", name, s, n, ref.Seq, len(p), e)
	}
	ws, wn := p[s], p[s+n-1]-p[s]+1
	if as != ws || an != wn {
		return true, false, fmt.Errorf("RefCoordinates(%q,%d,%d) on reference %q = (%d,%d), the smallest window holding residues %d..%d is (%d,%d)", name, s, n, ref.Seq, as, an, s, s+n-1, ws, wn)
	}
	// independent characterisation of "smallest window whose reference residues are exactly the requested ones"
	if !winValid(l, as, an) {
		return true, false, fmt.Errorf("RefCoordinates(%q,%d,%d) = (%d,%d) lies outside the %d columns", name, s, n, as, an, l)
	}
	sub, e := al.SubAlign(as, an)
	if e != nil {
		return true, false, fmt.Errorf("SubAlign(RefCoordinates(%q,%d,%d) = (%d,%d)): %v", name, s, n, as, an, e)
	}
	w, _ := sub.GetSequence(name)
	ung := strings.ReplaceAll(ref.Seq, "-", "")
	if strings.ReplaceAll(w, "-", "") != ung[s:s+n] {
		return true, false, fmt.Errorf("window (%d,%d) of reference %q reads %q, the requested residues are %q", as, an, ref.Seq, w, ung[s:s+n])
	}
	if w[0] == '-' || w[len(w)-1] == '-' {
		return true, false, fmt.Errorf("window (%d,%d) of reference %q reads %q: not the smallest one (a gap at an end)", as, an, ref.Seq, w)
	}
	if err := sameAli(sub, takeCols(rows, span(ws, ws+wn)), "SubAlign(RefCoordinates)"); err != nil {
		return true, false, err
	}
	return true, strings.Contains(w, "-"), nil
}

func checkRef(c refCase) (o pbt.Outcome, err error) {
	usePlan(&o, c.Plan)
	defer donePlan(&o)
	valid, gapInside, err := checkRefCoord(&o, c.Ali, c.Ref, c.Start, c.Len)
	if err != nil {
		return
	}
	ref, known := rowByName(c.Ali.Rows, c.Ref)
	np := len(nonGap(ref.Seq))
	o.NonTrivial = known && (isBoundary(c.Start, np) || isBoundary(c.Start+c.Len, np) || gapInside)
	switch {
	case !known:
		o.Class("refcoord:unknown-reference")
	case valid && gapInside:
		o.Class("refcoord:valid-gap-inside-window")
	case valid:
		o.Class("refcoord:valid-no-gap-inside")
	case c.Len == 0:
		o.Class("refcoord:zero-length")
	case isHuge(c.Start) || isHuge(c.Len):
		o.Class("refcoord:huge-argument")
	case c.Start < 0 || c.Len < 0:
		o.Class("refcoord:negative")
	default:
		o.Class("refcoord:past-the-reference")
	}
	if known && valid {
		if strings.HasPrefix(ref.Seq, "-") {
			o.Class("refcoord:valid-reference-starts-with-gap")
		}
		if strings.HasSuffix(ref.Seq, "-") {
			o.Class("refcoord:valid-reference-ends-with-gap")
		}
		if c.Start+c.Len == np {
			o.Class("refcoord:valid-ends-on-last-residue")
		}
	}
	if known && c.Start+c.Len == np+1 && c.Start >= 0 && c.Len > 0 {
		o.Class("refcoord:one-past-the-reference")
	}
	return
}

func TestRefCoordinates(t *testing.T) { pbt.Run(t, genRef, checkRef) }

// ---- Concat and Append --------------------------------------------------------------------------

type concatCase struct {
	PlanA gen.Plan `json:"plan_a"`
	PlanB gen.Plan `json:"plan_b"`
	A     gen.Ali  `json:"a"`
	B     gen.Ali  `json:"b"`
	C     gen.Ali  `json:"c"`
	Mode  string   `json:"mode"` // concat | append
}

func genNamed(t *rapid.T, names []string, alphabet, letters string, l int) gen.Ali {
	a := gen.Ali{Alphabet: alphabet}
	for _, n := range names {
		a.Rows = append(a.Rows, gen.Row{Name: n, Seq: genSeqRow(t, letters, l)})
	}
	return a
}

// drawNames draws 1..k distinct names of the pool in random order
func drawNames(t *rapid.T, pool []string, label string) []string {
	p := gen.Perm(t, len(pool), label+"_perm")
	k := rapid.IntRange(1, len(pool)).Draw(t, label+"_k")
	if k > 6 {
		k = 6
	}
	out := make([]string, k)
	for i := range out {
		out[i] = pool[p[i]]
	}
	return out
}

func genConcat(t *rapid.T) concatCase {
	var c concatCase
	alphabet, letters := genLetters(t)
	pool := []string{"n0", "n1", "n2", "n3", "n4", "n5", "n6"}
	c.Mode = rapid.SampledFrom([]string{"concat", "concat", "append"}).Draw(t, "mode")
	la := genLen(t, 1, 12)
	c.A = genNamed(t, drawNames(t, pool, "a"), alphabet, letters, la)
	if c.Mode == "concat" {
		balpha, bletters := alphabet, letters
		if rapid.IntRange(0, 11).Draw(t, "otheralphabet") == 0 {
			if alphabet == "nt" {
				balpha, bletters = "aa", gen.AA20
			} else {
				balpha, bletters = "nt", ntPlain
			}
		}
		var bn []string
		switch rapid.IntRange(0, 4).Draw(t, "bnames") {
		case 0: // same names, same order
			for _, r := range c.A.Rows {
				bn = append(bn, r.Name)
			}
		case 1: // same names, another order
			p := gen.Perm(t, len(c.A.Rows), "bperm")
			for _, i := range p {
				bn = append(bn, c.A.Rows[i].Name)
			}
		default:
			bn = drawNames(t, pool, "b")
		}
		c.B = genNamed(t, bn, balpha, bletters, genLen(t, 1, 12))
		c.C = genNamed(t, drawNames(t, pool, "c"), alphabet, letters, genLen(t, 1, 6))
		c.PlanA = genPlan(t, c.A, "prova")
		c.PlanB = genPlan(t, c.B, "provb")
		return c
	}
	// append
	lb := la
	if rapid.IntRange(0, 3).Draw(t, "otherlen") == 0 {
		lb = rapid.SampledFrom([]int{la - 1, la + 1, 1, la + 3}).Draw(t, "lb")
		if lb < 1 {
			lb = la + 1
		}
	}
	var bn []string
	if rapid.IntRange(0, 3).Draw(t, "collide") == 0 {
		bn = drawNames(t, pool, "b")
	} else {
		bn = drawNames(t, []string{"m0", "m1", "m2", "m3", "m4"}, "b")
	}
	c.B = genNamed(t, bn, alphabet, letters, lb)
	c.PlanA = genPlan(t, c.A, "prova")
	c.PlanB = genPlan(t, c.B, "provb")
	return c
}

func gaps(n int) string { return strings.Repeat("-", n) }

// modelConcat pairs rows by name and pads absent rows with gaps on the side where they are absent
func modelConcat(a, b []gen.Row) []gen.Row {
	la, lb := len(a[0].Seq), len(b[0].Seq)
	var out []gen.Row
	for _, r := range a {
		if o, ok := rowByName(b, r.Name); ok {
			out = append(out, gen.Row{Name: r.Name, Seq: r.Seq + o.Seq})
		} else {
			out = append(out, gen.Row{Name: r.Name, Seq: r.Seq + gaps(lb)})
		}
	}
	for _, r := range b {
		if _, ok := rowByName(a, r.Name); !ok {
			out = append(out, gen.Row{Name: r.Name, Seq: gaps(la) + r.Seq})
		}
	}
	return out
}

func checkConcat(c concatCase) (o pbt.Outcome, err error) {
	usePlan(&o, c.PlanB)
	b := build(c.B)
	unusableB := planUnusable
	usePlan(&o, c.PlanA) // the receiver
	a := build(c.A)
	planUnusable = planUnusable || unusableB
	activePlan = gen.Plan{} // the third alignment is freshly built
	defer donePlan(&o)
	common, onlyA, onlyB := 0, 0, 0
	for _, r := range c.A.Rows {
		if _, ok := rowByName(c.B.Rows, r.Name); ok {
			common++
		} else {
			onlyA++
		}
	}
	for _, r := range c.B.Rows {
		if _, ok := rowByName(c.A.Rows, r.Name); !ok {
			onlyB++
		}
	}
	if c.Mode == "concat" {
		e := a.Concat(b)
		if c.A.Alphabet != c.B.Alphabet {
			if e == nil {
				return o, fmt.Errorf("Concat of a %s and a %s alignment accepted", c.A.Alphabet, c.B.Alphabet)
			}
			o.Class("concat:different-alphabets")
			return o, nil
		}
		if e != nil {
			return o, fmt.Errorf("Concat refused: %v", e)
		}
		want := modelConcat(c.A.Rows, c.B.Rows)
		if err = sameAli(a, want, "Concat(A,B)"); err != nil {
			return
		}
		if !gen.SameRows(gen.Snapshot(b), c.B.Rows) {
			return o, fmt.Errorf("Concat changed its argument: %s", gen.Show(gen.Snapshot(b)))
		}
		// a third alignment on top: padding of rows that were themselves padded
		cc := build(c.C)
		if e := a.Concat(cc); e != nil {
			return o, fmt.Errorf("second Concat refused: %v", e)
		}
		if err = sameAli(a, modelConcat(want, c.C.Rows), "Concat(Concat(A,B),C)"); err != nil {
			return
		}
		sameOrder := len(c.A.Rows) == len(c.B.Rows)
		if sameOrder {
			for i := range c.A.Rows {
				sameOrder = sameOrder && c.A.Rows[i].Name == c.B.Rows[i].Name
			}
		}
		o.NonTrivial = onlyA > 0 || onlyB > 0 || !sameOrder
		switch {
		case onlyA > 0 && onlyB > 0:
			o.Class("concat:absent-on-both-sides")
		case onlyA > 0:
			o.Class("concat:absent-in-argument")
		case onlyB > 0:
			o.Class("concat:absent-in-receiver")
		case !sameOrder:
			o.Class("concat:same-names-other-order")
		default:
			o.Class("concat:same-names-same-order")
		}
		return o, nil
	}
	// Append = successive insertions
	la, lb := aliLen(c.A), aliLen(c.B)
	e := a.Append(b)
	if la != lb {
		if e == nil {
			return o, fmt.Errorf("Append of rows of length %d to an alignment of length %d accepted: %s", lb, la, gen.Show(gen.Snapshot(a)))
		}
		if a.Length() != la {
			return o, fmt.Errorf("refused Append changed Length() from %d to %d", la, a.Length())
		}
		got := gen.Snapshot(a)
		if len(got) < len(c.A.Rows) || !gen.SameRows(got[:len(c.A.Rows)], c.A.Rows) {
			return o, fmt.Errorf("refused Append changed the rows: %s", gen.Show(got))
		}
		for _, r := range got {
			if len(r.Seq) != la {
				return o, fmt.Errorf("refused Append left a row of length %d in an alignment of length %d", len(r.Seq), la)
			}
		}
		o.NonTrivial = true
		o.Class("append:different-length")
		return o, nil
	}
	if e != nil {
		return o, fmt.Errorf("Append refused: %v", e)
	}
	got := gen.Snapshot(a)
	if len(got) != len(c.A.Rows)+len(c.B.Rows) || a.Length() != la {
		return o, fmt.Errorf("Append: %d rows, Length %d; want %d rows, Length %d", len(got), a.Length(), len(c.A.Rows)+len(c.B.Rows), la)
	}
	if !gen.SameRows(got[:len(c.A.Rows)], c.A.Rows) {
		return o, fmt.Errorf("Append changed the receiver's own rows: %s", gen.Show(got))
	}
	for i, r := range c.B.Rows {
		g := got[len(c.A.Rows)+i]
		if g.Seq != r.Seq {
			return o, fmt.Errorf("Append: appended row %d holds %q want %q", i, g.Seq, r.Seq)
		}
		if _, dup := rowByName(c.A.Rows, r.Name); dup {
			// the duplicate-name policy (a renaming suffix) belongs to C01; here only the residues
			if !strings.HasPrefix(g.Name, r.Name) {
				return o, fmt.Errorf("Append: row %q came back as %q", r.Name, g.Name)
			}
		} else if g.Name != r.Name {
			return o, fmt.Errorf("Append: row %q came back as %q", r.Name, g.Name)
		}
	}
	o.NonTrivial = true
	if common > 0 {
		o.Class("append:name-collision")
	} else {
		o.Class("append:new-names")
	}
	return o, nil
}

func TestConcatAppend(t *testing.T) { pbt.Run(t, genConcat, checkConcat) }
