// C10 - Randomised operations keep invariants, reach all outcomes, replay from seed
//
// Three kinds of runs:
//   - TestInvariants: generated (operation, alignment, parameters, seed) cases; the operation is
//     executed twice from fresh copies after rand.Seed(seed); the two results must be identical
//     (replay) and the result must satisfy the invariants the statement / doc comments promise.
//   - TestSupport: on fixed small inputs, across N hashed seeds, every admissible outcome must be
//     seen; N is computed so that correct code misses one with probability < 1e-30.
//   - TestCLI: the same invariants and the same-seed-same-bytes clause on the command line.
//
// The invariant functions (inv*) are written from the property statement and the doc comments /
// command documentation; none of them calls the code it judges.
package c10

import (
	"fmt"
	"io"
	"log"
	"math/big"
	"sort"
	"strings"
	"testing"

	"verif/internal/gen"
	"verif/internal/pbt"
)

func TestMain(m *testing.M) {
	log.SetOutput(io.Discard)
	pbt.Main(m, "C10")
}

const eps = 1e-9

// ---- small helpers -----------------------------------------------------------------------------

// floors returns the accepted values of floor(x*n): computed exactly (rational arithmetic on the
// float64 value) and in floating point; lo <= hi, they differ only on rounding borders
func floors(x float64, n int) (lo, hi int) {
	f := int(x * float64(n))
	r := new(big.Rat).SetFloat64(x)
	if r == nil {
		return f, f
	}
	r.Mul(r, big.NewRat(int64(n), 1))
	e := ratFloor(r)
	if e < f {
		return e, f
	}
	return f, e
}

// floorsRogue returns the accepted values of floor(rate*(1-rate)*n)
func floorsRogue(rate float64, n int) (lo, hi int) {
	f := int(rate * (1.0 - rate) * float64(n))
	r := new(big.Rat).SetFloat64(rate)
	if r == nil {
		return f, f
	}
	one := big.NewRat(1, 1)
	q := new(big.Rat).Sub(one, r)
	q.Mul(q, r)
	q.Mul(q, big.NewRat(int64(n), 1))
	e := ratFloor(q)
	if e < f {
		return e, f
	}
	return f, e
}

func ratFloor(r *big.Rat) int {
	q := new(big.Int)
	m := new(big.Int)
	q.DivMod(r.Num(), r.Denom(), m) // Euclidean: m >= 0, so q is the floor
	return int(q.Int64())
}

func colsOf(rows []gen.Row) []string {
	if len(rows) == 0 {
		return nil
	}
	l := len(rows[0].Seq)
	out := make([]string, l)
	b := make([]byte, len(rows))
	for j := 0; j < l; j++ {
		for i, r := range rows {
			b[i] = r.Seq[j]
		}
		out[j] = string(b)
	}
	return out
}

func sortedBytes(s string) string {
	b := []byte(s)
	sort.Slice(b, func(i, j int) bool { return b[i] < b[j] })
	return string(b)
}

// sameShape: same number of rows, same names in the same order, every row of length l
func sameShape(orig, got []gen.Row, l int) error {
	if len(orig) != len(got) {
		return fmt.Errorf("number of rows changed: %d -> %d", len(orig), len(got))
	}
	for i := range orig {
		if orig[i].Name != got[i].Name {
			return fmt.Errorf("row %d: name %q became %q (names and row order must not change)", i, orig[i].Name, got[i].Name)
		}
		if len(got[i].Seq) != l {
			return fmt.Errorf("row %d (%s): length %d, expected %d", i, got[i].Name, len(got[i].Seq), l)
		}
	}
	return nil
}

// show prints rows compactly, shortened for the large inputs
func show(rows []gen.Row) string {
	s := gen.Show(rows)
	if len(s) > 1200 {
		return s[:1200] + fmt.Sprintf("... (%d rows)", len(rows))
	}
	return s
}

func aliLen(rows []gen.Row) int {
	if len(rows) == 0 {
		return 0
	}
	return len(rows[0].Seq)
}

func changedRows(orig, got []gen.Row) []int {
	var c []int
	for i := range orig {
		if orig[i].Seq != got[i].Seq {
			c = append(c, i)
		}
	}
	return c
}

func diffPositions(a, b string) []int {
	var d []int
	for i := 0; i < len(a); i++ {
		if a[i] != b[i] {
			d = append(d, i)
		}
	}
	return d
}

// columnMultisets: every column of got is a rearrangement of the same column of orig
func columnMultisets(orig, got []gen.Row) error {
	co, cg := colsOf(orig), colsOf(got)
	for j := range co {
		if sortedBytes(co[j]) != sortedBytes(cg[j]) {
			return fmt.Errorf("column %d: characters %q became %q (not a rearrangement of the column)", j, co[j], cg[j])
		}
	}
	return nil
}

// perfectPairs: can the items 0..k-1 be split into disjoint pairs (i,j) with ok(i,j)
func perfectPairs(k int, ok func(i, j int) bool) bool {
	if k%2 == 1 {
		return false
	}
	used := make([]bool, k)
	var rec func() bool
	rec = func() bool {
		i := 0
		for i < k && used[i] {
			i++
		}
		if i == k {
			return true
		}
		used[i] = true
		for j := i + 1; j < k; j++ {
			if !used[j] && ok(i, j) {
				used[j] = true
				if rec() {
					return true
				}
				used[j] = false
			}
		}
		used[i] = false
		return false
	}
	return rec()
}

// injective: every item 0..k-1 gets its own candidate among 0..m-1 with ok(i,c) (Kuhn's matching)
func injective(k, m int, ok func(i, c int) bool) bool {
	owner := make([]int, m)
	for i := range owner {
		owner[i] = -1
	}
	var try func(i int, seen []bool) bool
	try = func(i int, seen []bool) bool {
		for c := 0; c < m; c++ {
			if seen[c] || !ok(i, c) {
				continue
			}
			seen[c] = true
			if owner[c] < 0 || try(owner[c], seen) {
				owner[c] = i
				return true
			}
		}
		return false
	}
	for i := 0; i < k; i++ {
		if !try(i, make([]bool, m)) {
			return false
		}
	}
	return true
}

// distinctExisting: the names designate distinct rows: no name is listed more often than rows carry
// it (rows may share a name after an in-place rename; the clauses count rows, not names)
func distinctExisting(names []string, rows []gen.Row) bool {
	have := nameCounts(rows)
	for _, n := range names {
		if have[n] == 0 {
			return false
		}
		have[n]--
	}
	return true
}

func nameCounts(rows []gen.Row) map[string]int {
	m := map[string]int{}
	for _, r := range rows {
		m[r.Name]++
	}
	return m
}

func listCounts(names []string) map[string]int {
	m := map[string]int{}
	for _, n := range names {
		m[n]++
	}
	return m
}

func rowIndex(rows []gen.Row) map[string]int {
	m := map[string]int{}
	for i, r := range rows {
		m[r.Name] = i
	}
	return m
}

// ---- invariants (the oracle) ----------------------------------------------------------------------

// ShuffleSequences: "Shuffle the order of the sequences ... Does not change biological information":
// the rows after are a permutation of the rows before
func invShuffleSeqs(orig, got []gen.Row) error {
	if len(orig) != len(got) {
		return fmt.Errorf("number of rows changed: %d -> %d", len(orig), len(got))
	}
	a := make([]string, len(orig))
	b := make([]string, len(got))
	for i := range orig {
		a[i] = orig[i].Name + "\x00" + orig[i].Seq
		b[i] = got[i].Name + "\x00" + got[i].Seq
	}
	sort.Strings(a)
	sort.Strings(b)
	for i := range a {
		if a[i] != b[i] {
			return fmt.Errorf("rows after the shuffle are not a permutation of the rows before: %s", show(got))
		}
	}
	return nil
}

// ShuffleSites(rate, roguerate): characters move within their column only; names and row order
// stay; floor(roguerate*n) rogue names; at most floor(rate*L) columns are shuffled for everybody
// plus floor(rate*(1-rate)*L) "remaining intact" columns for the rogue rows only.
func invShuffleSites(orig, got []gen.Row, rogues []string, rate, roguerate float64) (amb int, err error) {
	l := aliLen(orig)
	n := len(orig)
	if err = sameShape(orig, got, l); err != nil {
		return
	}
	if err = columnMultisets(orig, got); err != nil {
		return
	}
	_, nShi := floors(rate, l)
	nRlo, nRhi := floorsRogue(rate, l)
	co, cg := colsOf(orig), colsOf(got)
	diff := 0
	for j := range co {
		if co[j] != cg[j] {
			diff++
		}
	}
	if diff > nShi+nRhi {
		return amb, fmt.Errorf("%d columns differ from the original, at most floor(rate*L)+floor(rate*(1-rate)*L) = %d+%d may be shuffled (rate %v, L %d)", diff, nShi, nRhi, rate, l)
	}
	kLo, kHi := floors(roguerate, n)
	if kLo != kHi {
		amb++
	}
	allEmpty := true
	for _, r := range rogues {
		if r != "" {
			allEmpty = false
		}
	}
	if len(rogues) < kLo || len(rogues) > kHi {
		return amb, fmt.Errorf("%d rogue names returned, floor(roguerate*n) = %d (roguerate %v, n %d)", len(rogues), kLo, roguerate, n)
	}
	if len(rogues) == 0 {
		if diff > nShi {
			return amb, fmt.Errorf("%d columns differ, only floor(rate*L) = %d may be shuffled without rogue rows", diff, nShi)
		}
		return amb, nil
	}
	valid := distinctExisting(rogues, orig)
	if !valid {
		// the doc promises the names of the taxa "that are more shuffled than others"; when no
		// extra site is shuffled for them (floor(rate*(1-rate)*L) = 0) nobody is, and the code
		// returns empty names: accepted, counted
		if allEmpty && nRlo == 0 {
			amb++
			if diff > nShi && nRhi == 0 {
				return amb, fmt.Errorf("%d columns differ, only floor(rate*L) = %d may be shuffled", diff, nShi)
			}
			return amb, nil
		}
		return amb, fmt.Errorf("rogue names %q are not distinct rows of the alignment", rogues)
	}
	isRogue := map[string]bool{}
	for _, r := range rogues {
		isRogue[r] = true
	}
	nonRogueCols := 0
	for j := 0; j < l; j++ {
		for i := 0; i < n; i++ {
			if !isRogue[orig[i].Name] && orig[i].Seq[j] != got[i].Seq[j] {
				nonRogueCols++
				break
			}
		}
	}
	if nonRogueCols > nShi {
		return amb, fmt.Errorf("a non rogue row changed in %d columns, only floor(rate*L) = %d columns are shuffled for every row (rogues %q)", nonRogueCols, nShi, rogues)
	}
	return amb, nil
}

// Swap(rate,pos): floor(rate*n)/2 pairs of rows exchange their suffix from a break point; the
// break point is floor(pos*L) when 0<=pos<=1. Column multisets are preserved.
func invSwap(orig, got []gen.Row, rate, pos float64) error {
	l := aliLen(orig)
	n := len(orig)
	if err := sameShape(orig, got, l); err != nil {
		return err
	}
	if err := columnMultisets(orig, got); err != nil {
		return err
	}
	_, nbHi := floors(rate, n)
	ch := changedRows(orig, got)
	if len(ch) > 2*(nbHi/2) {
		return fmt.Errorf("%d rows changed, at most 2*(floor(rate*n)/2) = %d may (rate %v, n %d)", len(ch), 2*(nbHi/2), rate, n)
	}
	pLo, pHi := 0, l
	if pos >= 0 && pos <= 1 {
		pLo, pHi = floors(pos, l)
	}
	pairOK := func(x, y int) bool {
		r, s := ch[x], ch[y]
		for p := pLo; p <= pHi && p <= l; p++ {
			if got[r].Seq == orig[r].Seq[:p]+orig[s].Seq[p:] && got[s].Seq == orig[s].Seq[:p]+orig[r].Seq[p:] {
				return true
			}
		}
		return false
	}
	if !perfectPairs(len(ch), pairOK) {
		return fmt.Errorf("the changed rows %v cannot be split into pairs that exchanged their suffix from a break point in [%d,%d]\n before: %s\n after : %s", ch, pLo, pHi, show(orig), show(got))
	}
	return nil
}

func splice(dst, src string, p, k int) string { return dst[:p] + src[p:p+k] + dst[p+k:] }

// Recombine(prop,lenprop,swap): floor(prop*n) receivers get a window of floor(lenprop*L) columns
// copied from as many other rows, at the same columns; with swap the two windows are exchanged
func invRecombine(orig, got []gen.Row, prop, lenprop float64, swap bool) error {
	l := aliLen(orig)
	n := len(orig)
	if err := sameShape(orig, got, l); err != nil {
		return err
	}
	// the statement's clause: every cell equals some cell of the same column of the original
	co, cg := colsOf(orig), colsOf(got)
	for j := range co {
		for i := 0; i < n; i++ {
			if strings.IndexByte(co[j], cg[j][i]) < 0 {
				return fmt.Errorf("cell (%d,%d) = %q does not occur in column %d of the original (%q)", i, j, cg[j][i], j, co[j])
			}
		}
	}
	if swap {
		if err := columnMultisets(orig, got); err != nil {
			return err
		}
	}
	_, nbHi := floors(prop, n)
	wLo, wHi := floors(lenprop, l)
	ch := changedRows(orig, got)
	max := nbHi
	if swap {
		max = 2 * nbHi
	}
	if len(ch) > max {
		return fmt.Errorf("%d rows changed, at most %d may (prop %v, n %d, swap %v)", len(ch), max, prop, n, swap)
	}
	isCh := map[int]bool{}
	for _, r := range ch {
		isCh[r] = true
	}
	if swap {
		ok := func(x, y int) bool {
			r, s := ch[x], ch[y]
			for w := wLo; w <= wHi; w++ {
				for p := 0; p+w <= l; p++ {
					if got[r].Seq == splice(orig[r].Seq, orig[s].Seq, p, w) && got[s].Seq == splice(orig[s].Seq, orig[r].Seq, p, w) {
						return true
					}
				}
			}
			return false
		}
		if !perfectPairs(len(ch), ok) {
			return fmt.Errorf("the changed rows %v cannot be split into pairs that exchanged a window of %d columns\n before: %s\n after : %s", ch, wLo, show(orig), show(got))
		}
		return nil
	}
	// no swap: every changed row received a window from its own, unchanged, donor row
	var donors []int
	for i := 0; i < n; i++ {
		if !isCh[i] {
			donors = append(donors, i)
		}
	}
	ok := func(x, d int) bool {
		r, s := ch[x], donors[d]
		for w := wLo; w <= wHi; w++ {
			for p := 0; p+w <= l; p++ {
				if got[r].Seq == splice(orig[r].Seq, orig[s].Seq, p, w) {
					return true
				}
			}
		}
		return false
	}
	if !injective(len(ch), len(donors), ok) {
		return fmt.Errorf("the changed rows %v are not each the original row with a window of %d columns copied from a distinct unchanged row\n before: %s\n after : %s", ch, wLo, show(orig), show(got))
	}
	return nil
}

// AddGaps: cells are unchanged or became '-'. Count reading "code/command": floor(seqProp*n)
// rows receive floor(siteProp*L) gaps each.
func invAddGapsReading(orig, got []gen.Row, siteProp, seqProp float64) error {
	l := aliLen(orig)
	n := len(orig)
	_, rowsHi := floors(seqProp, n)
	rowsLo, _ := floors(seqProp, n)
	gLo, gHi := floors(siteProp, l)
	noGap := true
	for _, r := range orig {
		if strings.IndexByte(r.Seq, '-') >= 0 {
			noGap = false
		}
	}
	ch := changedRows(orig, got)
	if len(ch) > rowsHi {
		return fmt.Errorf("%d rows received gaps, at most floor(%v*%d) = %d may", len(ch), seqProp, n, rowsHi)
	}
	for _, i := range ch {
		d := len(diffPositions(orig[i].Seq, got[i].Seq))
		if d > gHi {
			return fmt.Errorf("row %d received %d gaps, at most floor(%v*%d) = %d may", i, d, siteProp, l, gHi)
		}
		if noGap && d < gLo {
			return fmt.Errorf("row %d received %d gaps, floor(%v*%d) = %d expected (no gap before)", i, d, siteProp, l, gLo)
		}
	}
	if noGap && gLo > 0 && len(ch) < rowsLo {
		return fmt.Errorf("%d rows received gaps, floor(%v*%d) = %d expected (no gap before)", len(ch), seqProp, n, rowsLo)
	}
	return nil
}

// invAddGaps: first, second are the arguments in call order. The doc comment reads them as
// (proportion of the sequences, proportion of gaps), the parameter names and the command line
// as (proportion of sites, proportion of sequences): both accepted unless strict
func invAddGaps(orig, got []gen.Row, first, second float64, strict bool) (amb int, err error) {
	l := aliLen(orig)
	if err = sameShape(orig, got, l); err != nil {
		return
	}
	for i := range orig {
		for j := 0; j < l; j++ {
			if got[i].Seq[j] != orig[i].Seq[j] && got[i].Seq[j] != '-' {
				return amb, fmt.Errorf("cell (%d,%d): %q became %q (only residue -> gap is allowed)", i, j, orig[i].Seq[j], got[i].Seq[j])
			}
		}
	}
	if first < 0 || first > 1 || second < 0 || second > 1 {
		if len(changedRows(orig, got)) > 0 {
			return amb, fmt.Errorf("a proportion outside [0,1] (%v, %v) must do nothing, rows changed", first, second)
		}
		return amb, nil
	}
	e1 := invAddGapsReading(orig, got, first, second)
	if strict {
		return amb, e1
	}
	e2 := invAddGapsReading(orig, got, second, first)
	if e1 != nil && e2 != nil {
		return amb, e1
	}
	if (e1 == nil) != (e2 == nil) {
		amb++
	}
	return amb, nil
}

const ntLetters = "ACGT"
const aaLetters = "ARNDCQEGHILKMFPSTWYV"

// Mutate(rate): "Adds substitutions uniformly ... does not apply to gaps or other special
// characters"; rate <= 0 does nothing, rate > 1 is 1; new characters are letters of the alphabet
func invMutate(orig, got []gen.Row, rate float64, alphabet string) error {
	l := aliLen(orig)
	if err := sameShape(orig, got, l); err != nil {
		return err
	}
	letters := ntLetters
	if alphabet == "aa" {
		letters = aaLetters
	}
	for i := range orig {
		for j := 0; j < l; j++ {
			o, g := orig[i].Seq[j], got[i].Seq[j]
			special := o == '-' || o == '.' || o == '*'
			if special {
				if g != o {
					return fmt.Errorf("cell (%d,%d): the gap/special character %q became %q", i, j, o, g)
				}
				continue
			}
			if rate <= 0 {
				if g != o {
					return fmt.Errorf("cell (%d,%d) changed (%q -> %q) with rate %v <= 0", i, j, o, g, rate)
				}
				continue
			}
			if g != o && strings.IndexByte(letters, g) < 0 {
				return fmt.Errorf("cell (%d,%d): %q became %q, not a letter of the alphabet %q", i, j, o, g, letters)
			}
			if rate >= 1 && strings.IndexByte(letters, g) < 0 {
				return fmt.Errorf("cell (%d,%d): %q was not redrawn with rate %v >= 1 (every residue is substituted by a letter of %q)", i, j, g, rate, letters)
			}
		}
	}
	return nil
}

// SimulateRogue(prop,proplen): floor(prop*n) rogue rows; a rogue row is a permutation of itself
// differing in at most floor(proplen*L) positions; the other rows are intact; rogue and intact
// names partition the rows (intact == nil: not observable, command line)
func invRogue(orig, got []gen.Row, rogue, intact []string, haveIntact bool, prop, proplen float64) (amb int, err error) {
	l := aliLen(orig)
	n := len(orig)
	if err = sameShape(orig, got, l); err != nil {
		return
	}
	kLo, kHi := floors(prop, n)
	if proplen == 0 {
		// nothing can be shuffled: the code reports no rogue at all, the doc does not say
		if len(rogue) == 0 && kHi > 0 {
			amb++
		} else if len(rogue) < kLo || len(rogue) > kHi {
			return amb, fmt.Errorf("%d rogue names, floor(prop*n) = %d or 0 expected", len(rogue), kLo)
		}
	} else if len(rogue) < kLo || len(rogue) > kHi {
		return amb, fmt.Errorf("%d rogue names, floor(prop*n) = %d expected (prop %v, n %d)", len(rogue), kLo, prop, n)
	}
	if !distinctExisting(rogue, orig) {
		return amb, fmt.Errorf("rogue names %q are not distinct rows of the alignment", rogue)
	}
	rogueOf := listCounts(rogue)
	if haveIntact {
		if !distinctExisting(intact, orig) {
			return amb, fmt.Errorf("intact names %q are not distinct rows of the alignment", intact)
		}
		if len(intact)+len(rogue) != n {
			return amb, fmt.Errorf("rogue (%d) and intact (%d) names do not partition the %d rows", len(rogue), len(intact), n)
		}
		// every name is listed, rogue or intact, as often as rows carry it
		intactOf := listCounts(intact)
		for name, k := range nameCounts(orig) {
			if rogueOf[name]+intactOf[name] != k {
				return amb, fmt.Errorf("%d rows are named %q, it is listed %d times as rogue and %d times as intact: the lists do not partition the rows (rogue %q, intact %q)", k, name, rogueOf[name], intactOf[name], rogue, intact)
			}
		}
	}
	_, wHi := floors(proplen, l)
	changedOf := map[string]int{}
	for i := range orig {
		if orig[i].Seq == got[i].Seq {
			continue
		}
		name := orig[i].Name
		changedOf[name]++
		if changedOf[name] > rogueOf[name] {
			return amb, fmt.Errorf("intact row %d (%s) changed: %q -> %q (%d rogue rows of that name)", i, name, orig[i].Seq, got[i].Seq, rogueOf[name])
		}
		if sortedBytes(orig[i].Seq) != sortedBytes(got[i].Seq) {
			return amb, fmt.Errorf("rogue row %s is not a permutation of itself: %q -> %q", name, orig[i].Seq, got[i].Seq)
		}
		if d := len(diffPositions(orig[i].Seq, got[i].Seq)); d > wHi {
			return amb, fmt.Errorf("rogue row %s differs in %d positions, at most floor(proplen*L) = %d are shuffled", name, d, wHi)
		}
	}
	return amb, nil
}

// BuildBootstrap(frac): same names and order, length floor(frac*L), every output column is one
// original column taken for all rows at once
func invBootstrap(orig, got []gen.Row, frac float64) (amb int, err error) {
	l := aliLen(orig)
	lo, hi := floors(frac, l)
	if lo != hi {
		amb++
	}
	if frac <= 0 || frac > 1 {
		// not a fraction: the code builds a full bootstrap, the doc does not say
		amb++
		lo, hi = 0, l
	}
	gl := aliLen(got)
	if frac > 0 && frac <= 1 {
		if gl != lo && gl != hi {
			return amb, fmt.Errorf("bootstrap length %d, floor(frac*L) = %d (frac %v, L %d)", gl, lo, frac, l)
		}
	} else if gl != 0 && gl != l {
		return amb, fmt.Errorf("bootstrap length %d for frac %v (0 or L = %d accepted)", gl, frac, l)
	}
	if err = sameShape(orig, got, gl); err != nil {
		return
	}
	have := map[string]bool{}
	for _, c := range colsOf(orig) {
		have[c] = true
	}
	for j, c := range colsOf(got) {
		if !have[c] {
			return amb, fmt.Errorf("bootstrap column %d = %q is not a column of the original %s", j, c, show(orig))
		}
	}
	return amb, nil
}

// invPartBoot: the partitioned bootstrap (Split by the partition, BuildBootstrap per part, Concat):
// same names; the result is the concatenation, in partition order, of one block per partition of
// floor(frac*L_p) columns, and every column of a block is a column of that partition of the
// original, taken for all rows at once
func invPartBoot(orig, got []gen.Row, frac float64, part []int, k int) (amb int, err error) {
	gl := aliLen(got)
	if err = sameShape(orig, got, gl); err != nil {
		return
	}
	co, cg := colsOf(orig), colsOf(got)
	have := make([]map[string]bool, k)
	size := make([]int, k)
	for p := range have {
		have[p] = map[string]bool{}
	}
	for j, c := range co {
		have[part[j]][c] = true
		size[part[j]]++
	}
	// the accepted block lengths (exact and floating point floor may differ)
	var lens [][2]int
	for p := 0; p < k; p++ {
		lo, hi := floors(frac, size[p])
		if frac <= 0 || frac > 1 {
			lo, hi = size[p], size[p]
		}
		if lo != hi {
			amb++
		}
		lens = append(lens, [2]int{lo, hi})
	}
	var firstErr error
	for mask := 0; mask < 1<<k; mask++ {
		pos, ok := 0, true
		for p := 0; p < k && ok; p++ {
			n := lens[p][mask>>p&1]
			if mask>>p&1 == 1 && lens[p][0] == lens[p][1] {
				ok = false // same as with bit 0
				break
			}
			for j := pos; j < pos+n; j++ {
				if j >= gl {
					ok = false
					if firstErr == nil {
						firstErr = fmt.Errorf("the result has %d columns, the blocks of the %d partitions need more (frac %v, partition sizes %v)", gl, k, frac, size)
					}
					break
				}
				if !have[p][cg[j]] {
					ok = false
					if firstErr == nil {
						firstErr = fmt.Errorf("column %d of the result = %q lies in the block of partition %d but is not a column of that partition of the original\n original: %s\n result  : %s", j, cg[j], p, show(orig), show(got))
					}
					break
				}
			}
			pos += n
		}
		if ok && pos == gl {
			return amb, nil
		}
		if ok && firstErr == nil {
			firstErr = fmt.Errorf("the result has %d columns, the blocks of the partitions sum to %d (frac %v, partition sizes %v)", gl, pos, frac, size)
		}
	}
	return amb, firstErr
}

// Sample(nb): nb distinct original rows
func invSample(orig, got []gen.Row, nb int) error {
	if len(got) != nb {
		return fmt.Errorf("%d rows sampled, %d requested", len(got), nb)
	}
	idx := rowIndex(orig)
	seen := map[string]bool{}
	for _, r := range got {
		i, ok := idx[r.Name]
		if !ok {
			return fmt.Errorf("sampled row %q is not a row of the original", r.Name)
		}
		if seen[r.Name] {
			return fmt.Errorf("row %q sampled twice", r.Name)
		}
		seen[r.Name] = true
		if orig[i].Seq != r.Seq {
			return fmt.Errorf("sampled row %q: residues %q, original %q", r.Name, r.Seq, orig[i].Seq)
		}
	}
	return nil
}

// RandSubAlign(length, consecutive): a contiguous window resp. `length` distinct columns
func invSubAlign(orig, got []gen.Row, length int, consecutive bool) error {
	l := aliLen(orig)
	if err := sameShape(orig, got, length); err != nil {
		return err
	}
	co, cg := colsOf(orig), colsOf(got)
	if consecutive {
		for o := 0; o+length <= l; o++ {
			ok := true
			for p := 0; p < length; p++ {
				if cg[p] != co[o+p] {
					ok = false
					break
				}
			}
			if ok {
				return nil
			}
		}
		return fmt.Errorf("the result is not a window of %d consecutive columns of the original\n original: %s\n result  : %s", length, show(orig), show(got))
	}
	// fast path (long alignments): when the original columns are pairwise different the choice is
	// injective iff every result column exists and none is repeated
	where := make(map[string]int, l)
	for j, x := range co {
		where[x] = j
	}
	if len(where) == l {
		used := make(map[int]bool, length)
		for p, x := range cg {
			j, ok := where[x]
			if !ok {
				return fmt.Errorf("result column %d = %q is not a column of the original", p, x)
			}
			if used[j] {
				return fmt.Errorf("column %d of the original was taken twice (result column %d)", j, p)
			}
			used[j] = true
		}
		return nil
	}
	if !injective(length, l, func(p, j int) bool { return cg[p] == co[j] }) {
		return fmt.Errorf("the result columns are not %d distinct columns of the original\n original: %s\n result  : %s", length, show(orig), show(got))
	}
	return nil
}

// Rarefy(nb, counts): nb draws without replacement from the data set in which row r occurs
// counts[r] times; the result holds the distinct rows drawn
func invRarefy(orig, got []gen.Row, nb int, counts map[string]int) error {
	idx := rowIndex(orig)
	seen := map[string]bool{}
	sum := 0
	for _, r := range got {
		i, ok := idx[r.Name]
		if !ok {
			return fmt.Errorf("row %q of the result is not a row of the original", r.Name)
		}
		if seen[r.Name] {
			return fmt.Errorf("row %q twice in the result", r.Name)
		}
		seen[r.Name] = true
		if orig[i].Seq != r.Seq {
			return fmt.Errorf("row %q: residues %q, original %q", r.Name, r.Seq, orig[i].Seq)
		}
		if counts[r.Name] <= 0 {
			return fmt.Errorf("row %q has no positive count but is in the result", r.Name)
		}
		sum += counts[r.Name]
	}
	if len(got) > nb {
		return fmt.Errorf("%d distinct rows from %d draws", len(got), nb)
	}
	if sum < nb {
		return fmt.Errorf("%d draws without replacement cannot all fall on rows whose counts sum to %d (result %s)", nb, sum, show(got))
	}
	return nil
}
