package c10

import (
	"archive/tar"
	"compress/gzip"
	"fmt"
	goio "io"
	"os"
	"path/filepath"
	"sort"
	"strconv"
	"strings"
	"testing"

	"pgregory.net/rapid"
	"verif/internal/cli"
	"verif/internal/gen"
	"verif/internal/pbt"
)

// ---- command line tier -------------------------------------------------------------------------------
//
// goalign <command> --seed S twice: the same bytes (standard output and every output file); the
// output satisfies the same invariants; the exit status is non-zero exactly when the documented
// domain is left.

type cliCase struct {
	Cmd      string     `json:"cmd"`
	Ali      gen.Ali    `json:"ali"`
	Alphabet string     `json:"alphabet_flag"` // "", "nt", "aa"
	Seed     int64      `json:"seed"`
	A        float64    `json:"a"`
	B        float64    `json:"b"`
	N        int        `json:"n"`
	K        int        `json:"k"` // number of samples / replicates
	Flag     bool       `json:"flag"`
	Counts   []cnt      `json:"counts,omitempty"`
	Ranges   []prange   `json:"ranges,omitempty"` // build seqboot --partition: the partition set (several ranges and strides per partition)
	Layout   cli.Layout `json:"layout"`           // presentation of the input FASTA file
	OutFile  bool       `json:"outfile"`          // the main output goes to a file (-o) instead of the standard output
	Defaults bool       `json:"defaults"`         // no optional flag is given: the documented default values apply
	Stdin    int        `json:"stdin"`            // 1: the alignment comes on the standard input (no -i); 2: the counts of rarefy do (no -c)
	Phylip   bool       `json:"phylip"`           // -p: phylip input and output
	Dest     int        `json:"dest"`             // sample sites -n k>1 -p: 0 = -o file (one file per sample), 1 = default output, 2 = -o - (all on the standard output)
	Gz       bool       `json:"gz"`               // build seqboot --gz
	Tar      bool       `json:"tar"`              // build seqboot --tar
	Stale    bool       `json:"stale"`            // first run: every output file exists already, with a longer stale content
	T        int        `json:"threads"`          // 0: -t is not given; otherwise two more runs with -t T
	Big      *bigSpec   `json:"big,omitempty"`
}

func (c cliCase) expand() cliCase {
	if c.Big != nil {
		c.Ali = gen.Ali{Alphabet: "aa", Rows: bigRows(c.Big.Rows, c.Big.Len)}
	}
	return c
}

var cliCmds = []string{
	"shuffle sites", "shuffle recomb", "shuffle swap", "shuffle rogue", "build seqboot", "sample sites",
	"mutate snvs", "mutate gaps", "sample seqs", "sample rarefy", "shuffle seqs",
}

func ff(x float64) string { return strconv.FormatFloat(x, 'g', -1, 64) }

// genBigBoot: bootstrap replicates of a long alignment, many of them, several threads: the
// replicates must not depend on how the work is scheduled
func genBigBoot(t *rapid.T) cliCase {
	var c cliCase
	c.Cmd = "build seqboot"
	c.Seed = genSeed(t)
	c.Alphabet = "aa"
	c.Big = &bigSpec{Rows: 3, Len: rapid.IntRange(1500, 3000).Draw(t, "L")}
	c.A = rapid.SampledFrom([]float64{1, 0.5, 1}).Draw(t, "frac")
	c.K = rapid.IntRange(6, 16).Draw(t, "nboot")
	c.T = rapid.SampledFrom([]int{2, 4, 16}).Draw(t, "threads")
	c.Flag = rapid.IntRange(0, 3).Draw(t, "shuforder") == 0
	return c
}

func genCLI(t *rapid.T) cliCase {
	if rapid.IntRange(0, 39).Draw(t, "bigboot")%20 == 13 {
		return genBigBoot(t)
	}
	var c cliCase
	c.Cmd = cliCmds[rapid.IntRange(0, 1<<20).Draw(t, "cmd")%len(cliCmds)]
	c.Seed = genSeed(t)
	alphabet := rapid.SampledFrom([]string{"nt", "aa"}).Draw(t, "alphabet")
	n := size(t, "rows", 1, 6)
	l := size(t, "L", 1, 14)
	cells := ntCells
	if alphabet == "aa" {
		cells = aaCells
	}
	off := rapid.IntRange(0, len(cells)-1).Draw(t, "off")
	gaps := rapid.Bool().Draw(t, "gaps")
	c.Ali.Alphabet = alphabet
	for i := 0; i < n; i++ {
		b := make([]byte, l)
		for j := range b {
			b[j] = cells[(i+j+off)%len(cells)]
			if gaps && rapid.IntRange(0, 4).Draw(t, "g") == 0 {
				b[j] = '-'
			}
		}
		c.Ali.Rows = append(c.Ali.Rows, gen.Row{Name: fmt.Sprintf("s%d", i), Seq: string(b)})
	}
	// alphabet given on the command line, or left to the detection when that is unambiguous: a
	// protein input is recognised by a letter that is not a nucleotide code
	if rapid.Bool().Draw(t, "alphabet_flag") {
		c.Alphabet = alphabet
	} else if alphabet == "aa" {
		found := false
		for _, r := range c.Ali.Rows {
			if strings.ContainsAny(r.Seq, "QEILFPqeilfp") {
				found = true
			}
		}
		if !found {
			c.Alphabet = "aa"
		}
	}
	// the global --threads flag: every randomised command is also run with several threads
	if rapid.IntRange(0, 2).Draw(t, "with_threads") == 0 {
		c.T = rapid.SampledFrom([]int{2, 4, 16}).Draw(t, "threads")
	}
	switch c.Cmd {
	case "shuffle seqs":
		c.Flag = rapid.Bool().Draw(t, "unaligned")
	case "shuffle sites":
		c.A = genRate(t, "rate", 1, l, true)
		c.B = genRate(t, "roguerate", 1, n, true)
		if rapid.Bool().Draw(t, "rogues") {
			c.A = rapid.Float64Range(0.2, 0.8).Draw(t, "rate_mid")
			c.B = rapid.Float64Range(0.3, 1).Draw(t, "roguerate_high")
		}
		c.Flag = rapid.Bool().Draw(t, "stable")
	case "shuffle rogue":
		c.A = genRate(t, "prop", 1, n, false)
		c.B = genRate(t, "proplen", 1, l, false)
	case "shuffle recomb":
		c.A = genRate(t, "prop", 0.5, n, true)
		c.B = genRate(t, "lenprop", 1, l, true)
		c.Flag = rapid.Bool().Draw(t, "swap")
	case "shuffle swap":
		c.A = genRate(t, "rate", 1, n, true)
		if rapid.Bool().Draw(t, "randompos") {
			c.B = -1
		} else {
			c.B = genRate(t, "pos", 1, l, false)
		}
	case "sample seqs":
		c.N = genCount(t, n, "nb")
		c.K = rapid.IntRange(1, 3).Draw(t, "samples")
		c.Flag = rapid.Bool().Draw(t, "unaligned")
	case "sample sites":
		c.N = genCount(t, l, "length")
		c.K = rapid.IntRange(1, 3).Draw(t, "samples")
		c.Flag = rapid.Bool().Draw(t, "consecutive")
	case "sample rarefy":
		total := 0
		for i := 0; i < n; i++ {
			if rapid.IntRange(0, 3).Draw(t, "has") > 0 {
				v := rapid.IntRange(1, 4).Draw(t, "count")
				c.Counts = append(c.Counts, cnt{c.Ali.Rows[i].Name, v})
				total += v
			}
		}
		if rapid.IntRange(0, 11).Draw(t, "unknown") == 0 {
			c.Counts = append(c.Counts, cnt{"nosuch", 1})
			total++
		}
		c.N = rapid.IntRange(0, total+1).Draw(t, "nb")
		c.Flag = rapid.Bool().Draw(t, "unaligned")
		c.K = 1
		if c.N >= 1 && rapid.Bool().Draw(t, "replicated") {
			// -r: several replicates from the same count file (the output is then phylip)
			c.K = rapid.IntRange(2, 6).Draw(t, "replicates")
			c.Flag = false
		}
	case "mutate snvs":
		c.A = genRate(t, "rate", 1, 0, true)
	case "mutate gaps":
		c.A = genRate(t, "rate", 1, l, true)
		c.B = genRate(t, "propseq", 1, n, true)
	case "build seqboot":
		c.A = genRate(t, "frac", 1, l, false)
		if l >= 2 && rapid.Bool().Draw(t, "partitioned") {
			c.Ranges = genRanges(t, l)
			if c.A <= 0 {
				c.A = 1
			}
		}
		// the replicates as plain files, compressed files, or one (compressed) tar archive
		switch rapid.IntRange(0, 5).Draw(t, "container") {
		case 1:
			c.Gz = true
		case 2:
			c.Tar = true
		case 3:
			c.Gz, c.Tar = true, true
		}
		c.K = rapid.IntRange(1, 3).Draw(t, "nboot")
		if c.T > 0 {
			c.K = rapid.IntRange(2, 8).Draw(t, "nboot_threads")
		}
		c.Flag = rapid.Bool().Draw(t, "shuforder")
	}
	// every optional flag left out: the values documented in docs/commands and in the flag help apply
	if c.Cmd != "build seqboot" && rapid.IntRange(0, 5).Draw(t, "defaults") == 0 {
		c.Defaults = true
		if rapid.Bool().Draw(t, "longinput") {
			// long enough for the default window of 10 sites and for proportions of 1 %
			c.Ali.Rows = nil
			for i := 0; i < 4; i++ {
				b := make([]byte, 200)
				for j := range b {
					b[j] = cells[(i+j+off)%len(cells)]
				}
				c.Ali.Rows = append(c.Ali.Rows, gen.Row{Name: fmt.Sprintf("s%d", i), Seq: string(b)})
			}
			var kept []cnt
			for _, x := range c.Counts {
				if x.Name == "nosuch" || x.Name < "s4" {
					kept = append(kept, x)
				}
			}
			c.Counts = kept
		}
		c.A, c.B, c.N, c.K, c.Flag = 0, 0, 0, 1, false
		switch c.Cmd {
		case "shuffle sites":
			c.A, c.B = 0.5, 0
		case "shuffle rogue", "shuffle recomb":
			c.A, c.B = 0.5, 0.5
		case "shuffle swap":
			c.A, c.B = 0.5, -1
		case "sample seqs":
			c.N = 1
		case "sample sites":
			c.N, c.Flag = 10, true
		case "sample rarefy":
			c.N = 1
		case "mutate snvs":
			c.A = 0.1
		case "mutate gaps":
			c.A, c.B = 0.1, 0.5
		}
	}
	// sequence sets (--unaligned): rows of different lengths
	if c.Flag && (c.Cmd == "shuffle seqs" || c.Cmd == "sample seqs" || c.Cmd == "sample rarefy") && rapid.Bool().Draw(t, "ragged") {
		for i := range c.Ali.Rows {
			if k := len(c.Ali.Rows[i].Seq) - i%3; k >= 1 {
				c.Ali.Rows[i].Seq = c.Ali.Rows[i].Seq[:k]
			}
		}
	}
	// where the inputs come from, the format
	switch rapid.IntRange(0, 7).Draw(t, "stdin") {
	case 0:
		c.Stdin = 1
	case 1:
		if c.Cmd == "sample rarefy" {
			c.Stdin = 2
		}
	}
	unalignedMode := c.Flag && (c.Cmd == "shuffle seqs" || c.Cmd == "sample seqs" || c.Cmd == "sample rarefy")
	if !unalignedMode && rapid.IntRange(0, 4).Draw(t, "phylip") == 0 {
		c.Phylip = true
	}
	if c.Cmd == "sample sites" && c.K > 1 && rapid.Bool().Draw(t, "phylip_samples") {
		c.Phylip = true // several samples: files, or the standard output for phylip
	}
	if c.Cmd == "sample sites" && c.K > 1 && c.Phylip {
		c.Dest = rapid.IntRange(0, 2).Draw(t, "dest")
	}
	// presentation of the input file, destination of the main output, stale output files
	c.Layout = cli.DrawLayout(t)
	c.Stale = rapid.IntRange(0, 2).Draw(t, "stale") == 0
	if c.Cmd != "build seqboot" && !(c.Cmd == "sample sites" && c.K > 1) {
		c.OutFile = rapid.IntRange(0, 2).Draw(t, "outfile") == 0
	}
	if c.Defaults {
		c.OutFile = false
	}
	return c
}

type cliRun struct {
	res   cli.Result
	files map[string]string // output files (base name -> content)
}

func runCLI(dir string, c cliCase, threads int, stale bool) (cliRun, []string) {
	work, err := os.MkdirTemp(dir, "run")
	if err != nil {
		panic(err)
	}
	in := filepath.Join(work, "in.fa")
	input := cli.FastaLayout(c.Ali.Rows, c.Layout)
	if c.Phylip {
		input = phylipText(c.Ali.Rows)
	}
	os.WriteFile(in, []byte(input), 0o644)
	stdin := ""
	// the files the command is asked to write (pre-created with stale content in a stale run)
	var outputs []string
	if c.OutFile {
		outputs = append(outputs, "out.main")
	}
	words := strings.Fields(c.Cmd)
	args := append(words, "--seed="+strconv.FormatInt(c.Seed, 10))
	if c.Stdin == 1 {
		stdin = input // -i is left to its default, the standard input
	} else {
		args = append(args, "-i", in)
	}
	if c.Phylip {
		args = append(args, "-p")
	}
	ext := "fa"
	if c.Phylip {
		ext = "ph"
	}
	nfixed := 0 // arguments that are destinations, kept when the optional flags are left out
	if c.Alphabet != "" {
		args = append(args, "--alphabet", c.Alphabet)
	}
	if threads > 0 {
		args = append(args, "-t", strconv.Itoa(threads))
	}
	if c.OutFile {
		args = append(args, "-o", filepath.Join(work, "out.main"))
	}
	base := len(args)
	switch c.Cmd {
	case "shuffle seqs":
		if c.Flag {
			args = append(args, "--unaligned")
		}
	case "shuffle sites":
		args = append(args, "--rogue-file", filepath.Join(work, "out.rogues"))
		nfixed = 2
		args = append(args, "-r", ff(c.A), "--rogue", ff(c.B))
		if c.Flag {
			args = append(args, "--stable-rogues")
		}
	case "shuffle rogue":
		args = append(args, "--rogue-file", filepath.Join(work, "out.rogues"))
		nfixed = 2
		args = append(args, "-n", ff(c.A), "-l", ff(c.B))
	case "shuffle recomb":
		args = append(args, "-n", ff(c.A), "-l", ff(c.B))
		if c.Flag {
			args = append(args, "--swap")
		}
	case "shuffle swap":
		args = append(args, "-r", ff(c.A))
		if c.B >= 0 {
			args = append(args, "--pos", ff(c.B))
		}
	case "sample seqs":
		args = append(args, "-n", strconv.Itoa(c.N), "-s", strconv.Itoa(c.K))
		if c.Flag {
			args = append(args, "--unaligned")
		}
	case "sample sites":
		args = append(args, "-l", strconv.Itoa(c.N), "-n", strconv.Itoa(c.K))
		if !c.Flag {
			args = append(args, "--consecutive=false")
		}
		if c.K > 1 && c.Dest == 0 {
			args = append(args, "-o", filepath.Join(work, "out.sub"))
		} else if c.K > 1 && c.Dest == 2 {
			args = append(args, "-o", "-")
		}
	case "sample rarefy":
		var sb strings.Builder
		for _, x := range c.Counts {
			fmt.Fprintf(&sb, "%s\t%d\n", x.Name, x.C)
		}
		cf := filepath.Join(work, "counts.txt")
		os.WriteFile(cf, []byte(sb.String()), 0o644)
		if c.Stdin == 2 {
			stdin = sb.String() // -c is left to its default, the standard input
		} else {
			args = append(args, "-c", cf)
			nfixed = 2
		}
		args = append(args, "-n", strconv.Itoa(c.N))
		if c.Flag {
			args = append(args, "--unaligned")
		}
		if c.K > 1 {
			args = append(args, "-r", strconv.Itoa(c.K))
		}
	case "mutate snvs":
		args = append(args, "-r", ff(c.A))
	case "mutate gaps":
		args = append(args, "-r", ff(c.A), "-n", ff(c.B))
	case "build seqboot":
		args = append(args, "-f", ff(c.A), "-n", strconv.Itoa(c.K), "-o", filepath.Join(work, "out.boot"))
		if len(c.Ranges) > 0 {
			// the partition file in the RAxML-like syntax of the documentation (1-based, start-end/modulo)
			pf := filepath.Join(work, "partition.txt")
			os.WriteFile(pf, []byte(partitionFile(c.Ranges)), 0o644)
			args = append(args, "--partition", pf, "--out-partition", filepath.Join(work, "out.partition"))
			outputs = append(outputs, "out.partition")
		}
		switch {
		case c.Tar && c.Gz:
			args = append(args, "--tar", "--gz")
			outputs = append(outputs, "out.boot.tar.gz")
		case c.Tar:
			args = append(args, "--tar")
			outputs = append(outputs, "out.boot.tar")
		case c.Gz:
			args = append(args, "--gz")
			for k := 0; k < c.K; k++ {
				outputs = append(outputs, fmt.Sprintf("out.boot%d.%s.gz", k, ext))
			}
		default:
			for k := 0; k < c.K; k++ {
				outputs = append(outputs, fmt.Sprintf("out.boot%d.%s", k, ext))
			}
		}
		if c.Flag {
			args = append(args, "-S")
		}
	}
	if c.Defaults {
		// only the destinations stay
		args = args[:base+nfixed]
	}
	if strings.Contains(strings.Join(args, " "), "out.rogues") {
		outputs = append(outputs, "out.rogues")
	}
	if stale {
		for i, f := range outputs {
			cli.StaleFile(filepath.Join(work, f), 40+7*i)
		}
	}
	// run inside the scratch directory: a file written under a relative name lands there
	r := cliRun{res: cli.RunIn(work, stdin, args...), files: map[string]string{}}
	outs, _ := filepath.Glob(filepath.Join(work, "out.*"))
	sort.Strings(outs)
	for _, f := range outs {
		b, _ := os.ReadFile(f)
		r.files[filepath.Base(f)] = string(b)
	}
	// compressed files and archives are opened: what is compared and checked is their content (a
	// tar header carries the time of the run)
	for _, name := range keysOf(r.files) {
		content := r.files[name]
		if strings.HasSuffix(name, ".gz") {
			zr, err := gzip.NewReader(strings.NewReader(content))
			if err != nil {
				r.files[name] = "unreadable gzip: " + err.Error()
				continue
			}
			b, err := goio.ReadAll(zr)
			if err != nil {
				r.files[name] = "unreadable gzip: " + err.Error()
				continue
			}
			delete(r.files, name)
			name = strings.TrimSuffix(name, ".gz")
			content = string(b)
			r.files[name] = content
		}
		if strings.HasSuffix(name, ".tar") {
			delete(r.files, name)
			tr := tar.NewReader(strings.NewReader(content))
			for {
				h, err := tr.Next()
				if err != nil {
					if err != goio.EOF {
						r.files[name] = "unreadable tar: " + err.Error()
					}
					break
				}
				b, _ := goio.ReadAll(tr)
				r.files[filepath.Base(h.Name)] = string(b)
			}
		}
	}
	os.RemoveAll(work)
	// the arguments without the scratch directory, for messages
	show := make([]string, len(args))
	for i, a := range args {
		show[i] = strings.TrimPrefix(a, work+"/")
	}
	return r, show
}

func linesOf(s string) []string {
	if s == "" {
		return nil
	}
	return strings.Split(strings.TrimSuffix(s, "\n"), "\n")
}

func sortByName(rows []gen.Row, like []gen.Row) ([]gen.Row, bool) {
	m := map[string]gen.Row{}
	for _, r := range rows {
		if _, dup := m[r.Name]; dup {
			return nil, false
		}
		m[r.Name] = r
	}
	if len(m) != len(like) {
		return nil, false
	}
	out := make([]gen.Row, 0, len(like))
	for _, r := range like {
		x, ok := m[r.Name]
		if !ok {
			return nil, false
		}
		out = append(out, x)
	}
	return out, true
}

func checkCLI(dir string) func(c cliCase) (pbt.Outcome, error) {
	return func(c cliCase) (o pbt.Outcome, err error) {
		c = c.expand()
		orig := c.Ali.Rows
		n, l := len(orig), c.Ali.Length()
		r1, args := runCLI(dir, c, 0, c.Stale)
		r2, _ := runCLI(dir, c, 0, false)
		if !c.Layout.Plain() {
			o.Class("input layout not plain")
		}
		if c.Stale {
			o.Class("stale output files")
		}
		if c.OutFile {
			o.Class("main output to a file")
		}
		if c.Defaults {
			o.Class("optional flags left to their defaults")
		}
		if c.Stdin > 0 {
			o.Class("input on the standard input (%d)", c.Stdin)
		}
		if c.Phylip {
			o.Class("phylip in and out")
		}
		o.Class("cmd=%s", c.Cmd)
		if c.Big != nil {
			o.Class("seqboot: long alignment, many replicates, threads")
		}
		o.Class(seedClass(c.Seed))
		if r1.res.TimedOut || r2.res.TimedOut {
			return o, fmt.Errorf("goalign %v did not return", args)
		}
		// replay
		if r1.res.Exit != r2.res.Exit || (r1.res.Exit == 0 && r1.res.Stdout != r2.res.Stdout) { // the text of an error message is not compared
			return o, fmt.Errorf("goalign %v run twice with the same seed: exit %d / %d\n first : %q\n second: %q", args, r1.res.Exit, r2.res.Exit, r1.res.Stdout, r2.res.Stdout)
		}
		if len(r1.files) != len(r2.files) {
			return o, fmt.Errorf("goalign %v run twice with the same seed wrote %d and %d files", args, len(r1.files), len(r2.files))
		}
		for k, v := range r1.files {
			if r2.files[k] != v {
				return o, fmt.Errorf("goalign %v run twice with the same seed: file %s differs\n first : %q\n second: %q", args, k, v, r2.files[k])
			}
		}
		// several threads: the same bytes again, and the same as with one thread
		if c.T > 0 {
			o.Class("threads=%d", c.T)
			t1, targs := runCLI(dir, c, c.T, false)
			t2, _ := runCLI(dir, c, c.T, c.Stale)
			if d := sameRun(t1, t2); d != "" {
				return o, fmt.Errorf("goalign %v run twice with the same seed and -t %d: %s", targs, c.T, d)
			}
			if d := sameRun(r1, t1); d != "" {
				return o, fmt.Errorf("goalign %v: the result with -t %d differs from the result without -t (same seed): %s", targs, c.T, d)
			}
		}
		// exit status
		counts := map[string]int{}
		total := 0
		unknown := false
		for _, x := range c.Counts {
			counts[x.Name] = x.C
			total += x.C
			if x.Name == "nosuch" {
				unknown = true
			}
		}
		outside := func(x, max float64) bool { return x < 0 || x > max }
		wantErr := false
		switch c.Cmd {
		case "shuffle sites":
			wantErr = outside(c.A, 1) || outside(c.B, 1)
		case "shuffle recomb":
			wantErr = outside(c.A, 0.5) || outside(c.B, 1)
		case "shuffle swap":
			wantErr = outside(c.A, 1)
		case "sample seqs":
			wantErr = c.N < 1 || c.N > n
		case "sample sites":
			wantErr = c.N < 1 || c.N > l
		case "sample rarefy":
			wantErr = c.N >= total || unknown
		}
		if wantErr {
			o.Class("%s: error expected", c.Cmd)
			if r1.res.Exit == 0 {
				return o, fmt.Errorf("goalign %v: exit status 0, an error is documented for these arguments\n stdout: %q", args, r1.res.Stdout)
			}
			return o, nil
		}
		if r1.res.Exit != 0 {
			return o, fmt.Errorf("goalign %v: exit %d, stderr %q", args, r1.res.Exit, trunc(r1.res.Stderr, 400))
		}
		var replicates [][]gen.Row
		var got []gen.Row
		var perr error
		main := r1.res.Stdout
		if c.OutFile {
			// the main output was sent to a file: it is read there (nothing but it may be in the file)
			main = r1.files["out.main"]
			delete(r1.files, "out.main")
			delete(r2.files, "out.main")
		}
		if c.Cmd == "sample rarefy" && c.K > 1 {
			if replicates, perr = parsePhylips(main); perr == nil && len(replicates) > 0 {
				got = replicates[0]
			}
		} else if c.Phylip && (c.Cmd == "sample seqs" || (c.Cmd == "sample sites" && c.K > 1)) {
			// several phylip alignments one after the other on the standard output
			if replicates, perr = parsePhylips(main); perr == nil {
				for _, rep := range replicates {
					got = append(got, rep...)
				}
			}
		} else {
			got, perr = readAli(c, main)
		}
		if perr == errZeroPhylip {
			o.Class("phylip output without columns: not judged")
			return o, nil
		}
		if perr != nil {
			return o, fmt.Errorf("goalign %v: unreadable output: %v", args, perr)
		}
		changed := false
		drew := false
		amb := 0
		switch c.Cmd {
		case "shuffle seqs":
			err = invShuffleSeqs(orig, got)
			drew = n >= 2
		case "shuffle sites":
			amb, err = invShuffleSites(orig, got, linesOf(r1.files["out.rogues"]), c.A, c.B)
		case "shuffle rogue":
			amb, err = invRogue(orig, got, linesOf(r1.files["out.rogues"]), nil, false, c.A, c.B)
		case "shuffle recomb":
			err = invRecombine(orig, got, c.A, c.B, c.Flag)
		case "shuffle swap":
			err = invSwap(orig, got, c.A, c.B)
		case "mutate snvs":
			err = invMutate(orig, got, c.A, c.Ali.Alphabet)
			drew = c.A > 0
		case "mutate gaps":
			// -r: proportion of sites, -n: proportion of the sequences (flag help): one reading
			amb, err = invAddGaps(orig, got, c.A, c.B, true)
		case "sample seqs":
			if len(got) != c.K*c.N {
				err = fmt.Errorf("%d samples of %d sequences requested, %d sequences written", c.K, c.N, len(got))
				break
			}
			for k := 0; k < c.K && err == nil; k++ {
				err = invSample(orig, got[k*c.N:(k+1)*c.N], c.N)
			}
			drew = true
		case "sample rarefy":
			if c.K > 1 {
				o.Class("sample rarefy -r")
				if len(replicates) != c.K {
					err = fmt.Errorf("%d replicates requested, %d alignments written", c.K, len(replicates))
					break
				}
				for _, rep := range replicates {
					if err = invRarefy(orig, rep, c.N, counts); err != nil {
						break
					}
				}
			} else {
				err = invRarefy(orig, got, c.N, counts)
			}
			drew = c.N >= 1
		case "sample sites":
			var outs [][]gen.Row
			if c.K == 1 {
				outs = append(outs, got)
			} else if c.Phylip && c.Dest != 0 {
				// documented exception: phylip samples with the default output all go to the standard output
				o.Class("sample sites -p -n k on the standard output")
				if len(replicates) != c.K || len(r1.files) != 0 {
					err = fmt.Errorf("%d samples requested, %d alignments on the standard output, files %v", c.K, len(replicates), keysOf(r1.files))
					break
				}
				outs = replicates
			} else {
				if len(r1.files) != c.K {
					err = fmt.Errorf("%d samples requested, %d files written", c.K, len(r1.files))
					break
				}
				for k := 0; k < c.K; k++ {
					found := false
					for name, content := range r1.files {
						if strings.HasPrefix(name, fmt.Sprintf("out.sub_%d.", k)) {
							rows, e := readAli(c, content)
							if e == errZeroPhylip {
								o.Class("phylip output without columns: not judged")
								return o, nil
							}
							if e != nil {
								return o, fmt.Errorf("goalign %v: unreadable file %s: %v", args, name, e)
							}
							outs = append(outs, rows)
							found = true
						}
					}
					if !found {
						return o, fmt.Errorf("goalign %v: no output file for sample %d (files %v)", args, k, keysOf(r1.files))
					}
				}
			}
			for _, rows := range outs {
				if err = invSubAlign(orig, rows, c.N, c.Flag); err != nil {
					break
				}
			}
			got = outs[0]
			drew = true
		case "build seqboot":
			nfiles := c.K
			if len(c.Ranges) > 0 {
				nfiles++ // the partition file of the replicates
				o.Class("seqboot --partition")
			}
			if len(r1.files) != nfiles {
				err = fmt.Errorf("%d bootstrap replicates requested, %d files written (%v)", c.K, len(r1.files), keysOf(r1.files))
				break
			}
			for k := 0; k < c.K; k++ {
				bext := "fa"
				if c.Phylip {
					bext = "ph"
				}
				content, ok := r1.files[fmt.Sprintf("out.boot%d.%s", k, bext)]
				if !ok {
					return o, fmt.Errorf("goalign %v: replicate %d not written (files %v)", args, k, keysOf(r1.files))
				}
				rows, e := readAli(c, content)
				if e == errZeroPhylip {
					o.Class("phylip output without columns: not judged")
					return o, nil
				}
				if e != nil {
					return o, fmt.Errorf("goalign %v: unreadable replicate %d: %v", args, k, e)
				}
				if c.Flag {
					// -S: the row order is shuffled as well
					var ok2 bool
					if rows, ok2 = sortByName(rows, orig); !ok2 {
						return o, fmt.Errorf("goalign %v: replicate %d does not hold each input name once", args, k)
					}
				}
				var a int
				if len(c.Ranges) > 0 {
					part, k := partitionOf(c.Ranges, l)
					a, err = invPartBoot(orig, rows, c.A, part, k)
				} else {
					a, err = invBootstrap(orig, rows, c.A)
				}
				amb += a
				if err != nil {
					break
				}
				if len(c.Ranges) > 0 {
					// the partition file written for the replicates describes their blocks
					part, k := partitionOf(c.Ranges, l)
					if blocksShorterThanParts(c.A, part, k) {
						// what the file should hold when a block is shorter than its partition is not
						// specified (observation in FINDINGS.md): not judged
						o.Ambiguous++
						o.Class("seqboot --partition --frac < 1: out-partition file not judged")
					} else if err = invOutPartition(r1.files["out.partition"], orig, rows, c.A, part, k); err != nil {
						break
					}
				}
				got = rows
				if aliLen(rows) > 0 {
					drew = true
				}
			}
			if c.Gz || c.Tar {
				o.Class("seqboot gz=%v tar=%v", c.Gz, c.Tar)
			}
		}
		o.Ambiguous += amb
		if err != nil {
			return o, fmt.Errorf("goalign %v\n input : %s\n output: %s\n%v", args, show(orig), trunc(main, 600), err)
		}
		changed = !gen.SameRows(orig, got)
		if changed {
			o.Class("changed")
		}
		if c.Alphabet == "" {
			o.Class("alphabet detected")
		} else {
			o.Class("alphabet given")
		}
		o.NonTrivial = (changed || drew) && n >= 2 && l >= 2
		return o, nil
	}
}

// blocksShorterThanParts: some block of the replicate has fewer columns than its partition
func blocksShorterThanParts(frac float64, part []int, k int) bool {
	if frac <= 0 || frac > 1 {
		return false
	}
	size := make([]int, k)
	for _, p := range part {
		if p >= 0 {
			size[p]++
		}
	}
	for _, s := range size {
		if lo, _ := floors(frac, s); lo != s {
			return true
		}
	}
	return false
}

// invOutPartition: the partition file that `build seqboot --partition` writes for the replicates
// ("model,name=a-b,c" per line, 1-based) must give every column of the replicate to exactly one
// partition, partition p a contiguous block after the blocks of the partitions before it, of
// floor(frac*L_p) columns, all of them columns of partition p of the original
func invOutPartition(file string, orig, got []gen.Row, frac float64, part []int, k int) error {
	gl := aliLen(got)
	lines := linesOf(file)
	if len(lines) != k {
		return fmt.Errorf("the partition file of the replicates has %d lines for %d partitions: %q", len(lines), k, file)
	}
	co, cg := colsOf(orig), colsOf(got)
	next := 0
	for p, line := range lines {
		eq := strings.IndexByte(line, '=')
		if eq < 0 {
			return fmt.Errorf("partition file of the replicates, line %d: no '=': %q", p+1, line)
		}
		var cols []int
		for _, f := range strings.Split(line[eq+1:], ",") {
			f = strings.TrimSpace(f)
			if f == "" {
				continue
			}
			a, b := f, f
			if i := strings.IndexByte(f, '-'); i >= 0 {
				a, b = f[:i], f[i+1:]
			}
			x, e1 := strconv.Atoi(a)
			y, e2 := strconv.Atoi(b)
			if e1 != nil || e2 != nil || x < 1 || y < x {
				return fmt.Errorf("partition file of the replicates, line %d: unreadable range %q", p+1, f)
			}
			for j := x - 1; j <= y-1; j++ {
				cols = append(cols, j)
			}
		}
		size := 0
		have := map[string]bool{}
		for j, c := range co {
			if part[j] == p {
				size++
				have[c] = true
			}
		}
		lo, hi := floors(frac, size)
		if frac <= 0 || frac > 1 {
			lo, hi = size, size
		}
		if len(cols) != lo && len(cols) != hi {
			return fmt.Errorf("partition file of the replicates: partition %d gets %d columns, floor(frac*%d) = %d expected: %q", p, len(cols), size, lo, file)
		}
		for _, j := range cols {
			if j != next {
				return fmt.Errorf("partition file of the replicates: partition %d does not continue at column %d (it lists column %d): %q", p, next+1, j+1, file)
			}
			if j >= gl {
				return fmt.Errorf("partition file of the replicates: column %d is beyond the replicate (%d columns): %q", j+1, gl, file)
			}
			if !have[cg[j]] {
				return fmt.Errorf("partition file of the replicates gives column %d = %q to partition %d, it is not a column of that partition of the original: %q", j+1, cg[j], p, file)
			}
			next++
		}
	}
	if next != gl {
		return fmt.Errorf("the partition file of the replicates covers %d of the %d columns: %q", next, gl, file)
	}
	return nil
}

// errZeroPhylip: a phylip text of n > 0 rows and 0 columns does not name its rows: nothing to judge
var errZeroPhylip = fmt.Errorf("phylip alignment without columns")

// phylipText writes rows as a sequential phylip file
func phylipText(rows []gen.Row) string {
	var sb strings.Builder
	fmt.Fprintf(&sb, "   %d   %d\n", len(rows), aliLen(rows))
	for _, r := range rows {
		sb.WriteString(r.Name + "  " + r.Seq + "\n")
	}
	return sb.String()
}

// readAli reads one alignment written by a command, FASTA or (with -p) phylip
func readAli(c cliCase, text string) ([]gen.Row, error) {
	if !c.Phylip {
		return cli.ParseFasta(text)
	}
	reps, err := parsePhylips(text)
	if err != nil {
		return nil, err
	}
	switch len(reps) {
	case 0:
		return nil, nil
	case 1:
		return reps[0], nil
	}
	return nil, fmt.Errorf("%d alignments where one is expected", len(reps))
}

// parsePhylips is a minimal reader of concatenated sequential/interleaved phylip alignments whose
// rows fit on one line (short alignments): header "n L", then n lines "name  blocks of residues"
func parsePhylips(s string) ([][]gen.Row, error) {
	var out [][]gen.Row
	lines := strings.Split(s, "\n")
	i := 0
	next := func() ([]string, bool) { // fields of the next non-empty line
		for i < len(lines) {
			f := strings.Fields(lines[i])
			i++
			if len(f) > 0 {
				return f, true
			}
		}
		return nil, false
	}
	for {
		f, ok := next()
		if !ok {
			return out, nil
		}
		if len(f) != 2 {
			return nil, fmt.Errorf("phylip header expected, found %q", strings.Join(f, " "))
		}
		n, e1 := strconv.Atoi(f[0])
		l, e2 := strconv.Atoi(f[1])
		if e1 != nil || e2 != nil {
			return nil, fmt.Errorf("phylip header expected, found %q", strings.Join(f, " "))
		}
		if l <= 0 && n > 0 {
			// the phylip writer has no line for the rows of an alignment without columns
			return nil, errZeroPhylip
		}
		rows := make([]gen.Row, n)
		// first block: name and residues; further blocks (interleaved): residues only
		for k := 0; k < n; k++ {
			g, ok := next()
			if !ok {
				return nil, fmt.Errorf("phylip alignment truncated: %d of %d rows", k, n)
			}
			rows[k] = gen.Row{Name: g[0], Seq: strings.Join(g[1:], "")}
		}
		for n > 0 && len(rows[0].Seq) < l {
			for k := 0; k < n; k++ {
				g, ok := next()
				if !ok {
					return nil, fmt.Errorf("phylip alignment truncated inside a block (row %d has %d of %d residues)", k, len(rows[k].Seq), l)
				}
				rows[k].Seq += strings.Join(g, "")
			}
		}
		for _, r := range rows {
			if len(r.Seq) != l {
				return nil, fmt.Errorf("phylip row %q has %d residues, header says %d", r.Name, len(r.Seq), l)
			}
		}
		out = append(out, rows)
	}
}

// sameRun compares two executions byte for byte (exit status, standard output, output files)
func sameRun(a, b cliRun) string {
	if a.res.Exit != b.res.Exit {
		return fmt.Sprintf("exit status %d / %d", a.res.Exit, b.res.Exit)
	}
	if a.res.Exit != 0 {
		return "" // both refused: the text of the error message is not compared
	}
	if a.res.Stdout != b.res.Stdout {
		return fmt.Sprintf("standard output differs\n first : %q\n second: %q", trunc(a.res.Stdout, 500), trunc(b.res.Stdout, 500))
	}
	if len(a.files) != len(b.files) {
		return fmt.Sprintf("%d / %d output files", len(a.files), len(b.files))
	}
	for _, k := range keysOf(a.files) {
		if b.files[k] != a.files[k] {
			return fmt.Sprintf("file %s differs\n first : %q\n second: %q", k, trunc(a.files[k], 500), trunc(b.files[k], 500))
		}
	}
	return ""
}

func keysOf(m map[string]string) []string {
	var k []string
	for x := range m {
		k = append(k, x)
	}
	sort.Strings(k)
	return k
}

func trunc(s string, n int) string {
	if len(s) > n {
		return s[:n] + "..."
	}
	return s
}

func TestCLI(t *testing.T) {
	if cli.Binary() == "" {
		t.Skip("no goalign binary")
	}
	dir := cli.TempDir("c10cli")
	defer os.RemoveAll(dir)
	pbt.Run(t, genCLI, checkCLI(dir))
}

// ---- command line: the defaults of the flags that select the randomisation ------------------------------
//
// `shuffle swap` without --pos must draw its break point (default -1 = random), `sample sites` without
// --consecutive draws the offset of a window: on fixed small inputs, over N hashed seeds, every break point
// and every offset (the last one included) must be produced by the command itself.
func TestCLISupport(t *testing.T) {
	if cli.Binary() == "" {
		t.Skip("no goalign binary")
	}
	if pbt.ReplayOnly() {
		t.Skip("re-run the whole test: it is deterministic given VERIF_SEED")
	}
	base := int64(1)
	if s := os.Getenv("VERIF_SEED"); s != "" {
		if v, err := strconv.ParseInt(s, 10, 64); err == nil {
			base = v
		}
	}
	dir := cli.TempDir("c10clisupport")
	defer os.RemoveAll(dir)
	type check struct {
		name string
		rows []gen.Row
		args []string
		all  []string
		pmin float64
		key  func(rows, got []gen.Row) string
	}
	swapRows := latin(2, 5, distinctCells)
	siteRows := latin(2, 4, distinctCells)
	checks := []check{
		{"shuffle swap -r 1 (break point left to its default)", swapRows, []string{"shuffle", "swap", "-r", "1"},
			[]string{"break 0", "break 1", "break 2", "break 3", "break 4"}, 1.0 / 5,
			func(rows, got []gen.Row) string {
				if len(got) != 2 {
					return "unreadable"
				}
				d := diffPositions(rows[0].Seq, got[0].Seq)
				if len(d) == 0 {
					return "unchanged"
				}
				return fmt.Sprintf("break %d", d[0])
			}},
		{"sample sites -l 2 (consecutive by default)", siteRows, []string{"sample", "sites", "-l", "2"},
			[]string{"offset 0", "offset 1", "offset 2"}, 1.0 / 3,
			func(rows, got []gen.Row) string {
				if len(got) != 2 || len(got[0].Seq) != 2 {
					return "unreadable"
				}
				o := strings.IndexByte(rows[0].Seq, got[0].Seq[0])
				if o < 0 || o+2 > 4 || rows[0].Seq[o:o+2] != got[0].Seq {
					return "not a window"
				}
				return fmt.Sprintf("offset %d", o)
			}},
	}
	for _, ck := range checks {
		in := cli.TempFile(dir, ".fa", cli.Fasta(ck.rows))
		n := needSeeds(len(ck.all), ck.pmin)
		admissible := map[string]bool{}
		for _, a := range ck.all {
			admissible[a] = true
		}
		seen := map[string]bool{}
		h := nameHash(ck.name)
		for i := 0; i < n; i++ {
			seed := int64(splitmix(uint64(base)*0x100000001b3^h+uint64(i)) >> 2)
			args := append(append([]string{}, ck.args...), "-i", in, "--alphabet", "aa", "--seed="+strconv.FormatInt(seed, 10))
			r := cli.RunIn(dir, "", args...)
			cs := supportCase{Sub: ck.name, Base: base, Seeds: n, Seed: seed}
			if r.Exit != 0 {
				pbt.Fail(t, cs, "goalign %v: exit %d, stderr %q", args, r.Exit, trunc(r.Stderr, 300))
				return
			}
			got, err := cli.ParseFasta(r.Stdout)
			k := "unreadable"
			if err == nil {
				k = ck.key(ck.rows, got)
			}
			if !admissible[k] {
				pbt.Fail(t, cs, "goalign %v: outcome %q is not one of the admissible outcomes %v\n output: %q", args, k, ck.all, r.Stdout)
				return
			}
			seen[k] = true
			var o pbt.Outcome
			o.NonTrivial = true
			o.Key = fmt.Sprintf("%s/%d", ck.name, seed)
			o.Class("cli support: %s", ck.name)
			pbt.Note(t, cs, o)
		}
		var missing []string
		for _, a := range ck.all {
			if !seen[a] {
				missing = append(missing, a)
			}
		}
		if len(missing) > 0 {
			pbt.Fail(t, supportCase{Sub: ck.name, Base: base, Seeds: n, Missing: missing},
				"goalign %v: %d of %d admissible outcomes were never produced in %d runs with different seeds (each has probability >= %.3g per run on correct code; missing one has probability < 1e-30): %v",
				ck.args, len(missing), len(ck.all), n, ck.pmin, missing)
			return
		}
	}
	pbt.Complete(t)
}
