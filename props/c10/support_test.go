package c10

import (
	"encoding/json"
	"fmt"
	"math"
	"math/rand"
	"os"
	"sort"
	"strconv"
	"strings"
	"testing"

	"verif/internal/gen"
	"verif/internal/pbt"
)

// ---- support: every admissible outcome is reached ---------------------------------------------------
//
// Each sub-check has a fixed small input, the complete list of outcomes the statement / doc admits
// (All), and a lower bound PMin of the probability of each of them for one seed under an
// implementation that draws as documented. With N seeds a correct implementation misses a given
// outcome with probability <= (1-PMin)^N; N is chosen so that len(All)*(1-PMin)^N < 1e-30.

type supportCheck struct {
	Name string
	All  []string
	PMin float64
	Run  func() []string // executes the operation once (the stream is already seeded)
}

type supportCase struct {
	Sub     string   `json:"sub"`
	Base    int64    `json:"base_seed"`
	Seeds   int      `json:"seeds"`
	Missing []string `json:"missing,omitempty"`
	Seed    int64    `json:"seed,omitempty"`
}

func splitmix(x uint64) uint64 {
	x += 0x9e3779b97f4a7c15
	x = (x ^ (x >> 30)) * 0xbf58476d1ce4e5b9
	x = (x ^ (x >> 27)) * 0x94d049bb133111eb
	return x ^ (x >> 31)
}

func nameHash(s string) uint64 {
	var h uint64 = 1469598103934665603
	for i := 0; i < len(s); i++ {
		h = (h ^ uint64(s[i])) * 1099511628211
	}
	return h
}

func needSeeds(outcomes int, pmin float64) int {
	n := (math.Log(1e-30) - math.Log(float64(outcomes))) / math.Log(1-pmin)
	return int(math.Ceil(n)) + 1
}

func latin(n, l int, cells string) []gen.Row {
	rows := make([]gen.Row, n)
	for i := range rows {
		b := make([]byte, l)
		for j := range b {
			b[j] = cells[(i*l+j)%len(cells)]
		}
		rows[i] = gen.Row{Name: fmt.Sprintf("s%d", i), Seq: string(b)}
	}
	return rows
}

func subsetsOf(n, k int) []string {
	var out []string
	var rec func(start int, cur []string)
	rec = func(start int, cur []string) {
		if len(cur) == k {
			out = append(out, strings.Join(cur, ","))
			return
		}
		for i := start; i < n; i++ {
			rec(i+1, append(append([]string{}, cur...), strconv.Itoa(i)))
		}
	}
	rec(0, nil)
	return out
}

func permsOf(n int) []string {
	var out []string
	var rec func(cur []int, used []bool)
	rec = func(cur []int, used []bool) {
		if len(cur) == n {
			s := make([]string, n)
			for i, v := range cur {
				s[i] = strconv.Itoa(v)
			}
			out = append(out, strings.Join(s, ""))
			return
		}
		for i := 0; i < n; i++ {
			if !used[i] {
				used[i] = true
				rec(append(cur, i), used)
				used[i] = false
			}
		}
	}
	rec(nil, make([]bool, n))
	return out
}

func keyOfInts(v []int) string {
	sort.Ints(v)
	s := make([]string, len(v))
	for i, x := range v {
		s[i] = strconv.Itoa(x)
	}
	return strings.Join(s, ",")
}

// all cells of the alignment are pairwise different: 25 letters + 25 lower case letters
const distinctCells = "ACDEFGHIKLMNPQRSTVWYBXZJOacdefghiklmnpqrstvwybxzjo"

func nameIdx(name string) int {
	v, _ := strconv.Atoi(strings.TrimPrefix(name, "s"))
	return v
}

func supportChecks() []supportCheck {
	var cs []supportCheck
	add := func(c supportCheck) { cs = append(cs, c) }

	// --- bootstrap: every site at every position, including the last site
	for _, v := range []struct {
		name string
		l    int
		frac float64
		out  int
	}{{"bootstrap frac=1 L=5", 5, 1, 5}, {"bootstrap frac=0.5 L=6", 6, 0.5, 3}} {
		v := v
		rows := latin(3, v.l, distinctCells)
		var all []string
		for p := 0; p < v.out; p++ {
			for s := 0; s < v.l; s++ {
				all = append(all, fmt.Sprintf("position %d = site %d", p, s))
			}
		}
		add(supportCheck{Name: v.name, All: all, PMin: 1 / float64(v.l), Run: func() []string {
			al := gen.MustBuild(gen.Ali{Rows: rows, Alphabet: "aa"})
			b := gen.Snapshot(al.BuildBootstrap(v.frac))
			var out []string
			for p := 0; p < len(b[0].Seq); p++ {
				out = append(out, fmt.Sprintf("position %d = site %d", p, strings.IndexByte(rows[0].Seq, b[0].Seq[p])))
			}
			return out
		}})
	}

	// --- partitioned bootstrap, partitions made of several ranges / of strides: every site of a part
	// can be drawn at every position of its block
	for _, v := range []struct {
		name   string
		ranges []prange
	}{
		{"two ranges per partition", []prange{{0, 0, 1, 1}, {1, 2, 5, 1}, {0, 6, 7, 1}, {1, 8, 8, 1}}},
		{"strides", []prange{{0, 0, 8, 3}, {1, 1, 8, 3}, {2, 2, 8, 3}}},
		{"stride then range", []prange{{0, 0, 3, 2}, {1, 1, 3, 2}, {0, 4, 6, 1}, {1, 7, 8, 1}}},
	} {
		v := v
		const l = 9
		rows := latin(2, l, distinctCells)
		part, k := partitionOf(v.ranges, l)
		var all []string
		pos := 0
		for p := 0; p < k; p++ {
			var sites []int
			for j := 0; j < l; j++ {
				if part[j] == p {
					sites = append(sites, j)
				}
			}
			for i := range sites {
				for _, s := range sites {
					all = append(all, fmt.Sprintf("position %d = site %d", pos+i, s))
				}
			}
			pos += len(sites)
		}
		add(supportCheck{Name: "partitioned bootstrap, " + v.name, All: all, PMin: 1.0 / 6, Run: func() []string {
			al := gen.MustBuild(gen.Ali{Rows: rows, Alphabet: "aa"})
			parts, err := al.Split(partitionSet(v.ranges, l))
			if err != nil {
				return []string{"error " + err.Error()}
			}
			var out []string
			at := 0
			for _, pa := range parts {
				b := gen.Snapshot(pa.BuildBootstrap(1))
				for p := 0; p < len(b[0].Seq); p++ {
					out = append(out, fmt.Sprintf("position %d = site %d", at+p, strings.IndexByte(rows[0].Seq, b[0].Seq[p])))
				}
				at += len(b[0].Seq)
			}
			return out
		}})
	}

	// --- sample: every subset of rows
	for _, bag := range []bool{false, true} {
		for _, nb := range []int{1, 2, 4} {
			bag, nb := bag, nb
			rows := latin(5, 3, distinctCells)
			name := fmt.Sprintf("sample nb=%d of 5 rows", nb)
			if bag {
				name += " (sequence set)"
			}
			all := subsetsOf(5, nb)
			add(supportCheck{Name: name, All: all, PMin: 1 / float64(len(all)), Run: func() []string {
				var got []gen.Row
				if bag {
					s, err := gen.BuildBag(gen.Ali{Rows: rows, Alphabet: "aa"}).SampleSeqBag(nb)
					if err != nil {
						return []string{"error " + err.Error()}
					}
					got = gen.Snapshot(s)
				} else {
					s, err := gen.MustBuild(gen.Ali{Rows: rows, Alphabet: "aa"}).Sample(nb)
					if err != nil {
						return []string{"error " + err.Error()}
					}
					got = gen.Snapshot(s)
				}
				var idx []int
				for _, r := range got {
					idx = append(idx, nameIdx(r.Name))
				}
				return []string{keyOfInts(idx)}
			}})
		}
	}

	// --- random sub-alignment: every window offset including the last; every set of columns
	for _, v := range []struct{ l, length int }{{6, 2}, {5, 1}, {4, 3}} {
		v := v
		rows := latin(2, v.l, distinctCells)
		var all []string
		for o := 0; o+v.length <= v.l; o++ {
			all = append(all, fmt.Sprintf("offset %d", o))
		}
		add(supportCheck{Name: fmt.Sprintf("subalign consecutive length=%d L=%d", v.length, v.l), All: all, PMin: 1 / float64(len(all)), Run: func() []string {
			s, err := gen.MustBuild(gen.Ali{Rows: rows, Alphabet: "aa"}).RandSubAlign(v.length, true)
			if err != nil {
				return []string{"error " + err.Error()}
			}
			g := gen.Snapshot(s)
			return []string{fmt.Sprintf("offset %d", strings.IndexByte(rows[0].Seq, g[0].Seq[0]))}
		}})
	}
	for _, v := range []struct{ l, length int }{{5, 2}, {4, 1}, {4, 3}} {
		v := v
		rows := latin(2, v.l, distinctCells)
		all := subsetsOf(v.l, v.length)
		add(supportCheck{Name: fmt.Sprintf("subalign free length=%d L=%d", v.length, v.l), All: all, PMin: 1 / float64(len(all)), Run: func() []string {
			s, err := gen.MustBuild(gen.Ali{Rows: rows, Alphabet: "aa"}).RandSubAlign(v.length, false)
			if err != nil {
				return []string{"error " + err.Error()}
			}
			g := gen.Snapshot(s)
			var idx []int
			for p := 0; p < len(g[0].Seq); p++ {
				idx = append(idx, strings.IndexByte(rows[0].Seq, g[0].Seq[p]))
			}
			return []string{keyOfInts(idx)}
		}})
	}

	// --- sequence order: every order of 4 rows
	for _, bag := range []bool{false, true} {
		bag := bag
		rows := latin(4, 2, distinctCells)
		name := "shuffle sequences, 4 rows"
		if bag {
			name += " (sequence set)"
		}
		add(supportCheck{Name: name, All: permsOf(4), PMin: 1.0 / 24, Run: func() []string {
			var got []gen.Row
			if bag {
				sb := gen.BuildBag(gen.Ali{Rows: rows, Alphabet: "aa"})
				sb.ShuffleSequences()
				got = gen.Snapshot(sb)
			} else {
				al := gen.MustBuild(gen.Ali{Rows: rows, Alphabet: "aa"})
				al.ShuffleSequences()
				got = gen.Snapshot(al)
			}
			k := ""
			for _, r := range got {
				k += strconv.Itoa(nameIdx(r.Name))
			}
			return []string{k}
		}})
	}

	// --- site shuffling: every column can be shuffled, into every arrangement
	for _, rate := range []float64{0.5, 1} {
		rate := rate
		rows := latin(3, 4, distinctCells)
		var all []string
		for j := 0; j < 4; j++ {
			for _, p := range permsOf(3) {
				if p != "012" {
					all = append(all, fmt.Sprintf("column %d -> %s", j, p))
				}
			}
		}
		add(supportCheck{Name: fmt.Sprintf("shuffle sites rate=%v, 3 rows x 4 columns", rate), All: all, PMin: rate / 6, Run: func() []string {
			al := gen.MustBuild(gen.Ali{Rows: rows, Alphabet: "aa"})
			al.ShuffleSites(rate, 0, false)
			g := gen.Snapshot(al)
			var out []string
			for j := 0; j < 4; j++ {
				k := ""
				for i := 0; i < 3; i++ {
					for s := 0; s < 3; s++ {
						if rows[s].Seq[j] == g[i].Seq[j] {
							k += strconv.Itoa(s)
						}
					}
				}
				if k != "012" {
					out = append(out, fmt.Sprintf("column %d -> %s", j, k))
				}
			}
			return out
		}})
	}
	for _, stable := range []bool{false, true} {
		stable := stable
		rows := latin(4, 4, distinctCells)
		all := subsetsOf(4, 2)
		add(supportCheck{Name: fmt.Sprintf("shuffle sites: rogue rows, stable=%v", stable), All: all, PMin: 1.0 / 6, Run: func() []string {
			al := gen.MustBuild(gen.Ali{Rows: rows, Alphabet: "aa"})
			names := al.ShuffleSites(0.5, 0.5, stable)
			var idx []int
			for _, n := range names {
				idx = append(idx, nameIdx(n))
			}
			return []string{keyOfInts(idx)}
		}})
	}

	// --- swap: every break point including the last column, every pair of rows
	{
		rows := latin(4, 5, distinctCells)
		var all []string
		for p := 0; p < 5; p++ {
			all = append(all, fmt.Sprintf("break %d", p))
		}
		for _, s := range subsetsOf(4, 2) {
			all = append(all, "pair "+s)
		}
		add(supportCheck{Name: "swap rate=1 random break point, 4 rows x 5 columns", All: all, PMin: 1.0 / 5, Run: func() []string {
			al := gen.MustBuild(gen.Ali{Rows: rows, Alphabet: "aa"})
			if err := al.Swap(1, -1); err != nil {
				return []string{"error " + err.Error()}
			}
			g := gen.Snapshot(al)
			var out []string
			for i := range rows {
				d := diffPositions(rows[i].Seq, g[i].Seq)
				if len(d) == 0 {
					continue
				}
				out = append(out, fmt.Sprintf("break %d", d[0]))
				for s := range rows {
					if s > i && rows[s].Seq[4] == g[i].Seq[4] {
						out = append(out, fmt.Sprintf("pair %d,%d", i, s))
					}
				}
			}
			return out
		}})
	}

	// --- recombination: every window position including the last, every (receiver, donor)
	for _, swap := range []bool{false, true} {
		swap := swap
		rows := latin(4, 5, distinctCells)
		var all []string
		for p := 0; p+2 <= 5; p++ {
			all = append(all, fmt.Sprintf("window %d", p))
		}
		for r := 0; r < 4; r++ {
			for d := 0; d < 4; d++ {
				if r != d {
					all = append(all, fmt.Sprintf("row %d receives from %d", r, d))
				}
			}
		}
		add(supportCheck{Name: fmt.Sprintf("recombine prop=0.5 lenprop=0.4 swap=%v, 4 rows x 5 columns", swap), All: all, PMin: 1.0 / 6, Run: func() []string {
			al := gen.MustBuild(gen.Ali{Rows: rows, Alphabet: "aa"})
			if err := al.Recombine(0.5, 0.4, swap); err != nil {
				return []string{"error " + err.Error()}
			}
			g := gen.Snapshot(al)
			var out []string
			for i := range rows {
				d := diffPositions(rows[i].Seq, g[i].Seq)
				if len(d) == 0 {
					continue
				}
				out = append(out, fmt.Sprintf("window %d", d[0]))
				for s := range rows {
					if rows[s].Seq[d[0]] == g[i].Seq[d[0]] {
						out = append(out, fmt.Sprintf("row %d receives from %d", i, s))
					}
				}
			}
			return out
		}})
	}

	// --- rogue simulation: every row can be rogue, every arrangement of its residues
	{
		rows := latin(4, 3, distinctCells)
		var all []string
		for i := 0; i < 4; i++ {
			all = append(all, fmt.Sprintf("row %d rogue", i))
			all = append(all, fmt.Sprintf("row %d intact", i))
		}
		for _, p := range permsOf(3) {
			all = append(all, "arrangement "+p)
		}
		add(supportCheck{Name: "rogue prop=0.5 proplen=1, 4 rows x 3 columns", All: all, PMin: 1.0 / 12, Run: func() []string {
			al := gen.MustBuild(gen.Ali{Rows: rows, Alphabet: "aa"})
			rogue, intact := al.SimulateRogue(0.5, 1)
			g := gen.Snapshot(al)
			var out []string
			for _, n := range rogue {
				i := nameIdx(n)
				out = append(out, fmt.Sprintf("row %d rogue", i))
				k := ""
				for j := 0; j < 3; j++ {
					k += strconv.Itoa(strings.IndexByte(rows[i].Seq, g[i].Seq[j]))
				}
				out = append(out, "arrangement "+k)
			}
			for _, n := range intact {
				out = append(out, fmt.Sprintf("row %d intact", nameIdx(n)))
			}
			return out
		}})
		one := latin(1, 4, distinctCells)
		var all2 []string
		for _, s := range subsetsOf(4, 2) {
			all2 = append(all2, "sites exchanged "+s)
		}
		add(supportCheck{Name: "rogue prop=1 proplen=0.5, 1 row x 4 columns: every pair of sites", All: all2, PMin: 1.0 / 12, Run: func() []string {
			al := gen.MustBuild(gen.Ali{Rows: one, Alphabet: "aa"})
			al.SimulateRogue(1, 0.5)
			g := gen.Snapshot(al)
			d := diffPositions(one[0].Seq, g[0].Seq)
			if len(d) == 0 {
				return nil
			}
			return []string{"sites exchanged " + keyOfInts(d)}
		}})
	}

	// --- substitutions: every cell can be hit and can be spared, every letter can be drawn
	for _, alpha := range []string{"nt", "aa"} {
		alpha := alpha
		letters := ntLetters
		// original residues outside the letters that can be drawn: every substitution is visible
		rows := []gen.Row{{Name: "s0", Seq: "RY-S"}, {Name: "s1", Seq: "W-KM"}}
		if alpha == "aa" {
			letters = aaLetters
			rows = []gen.Row{{Name: "s0", Seq: "XB-Z"}, {Name: "s1", Seq: "x-bz"}}
		}
		var all []string
		for i := 0; i < 2; i++ {
			for j := 0; j < 4; j++ {
				if rows[i].Seq[j] == '-' {
					continue
				}
				all = append(all, fmt.Sprintf("cell %d,%d spared", i, j))
				for _, x := range letters {
					all = append(all, fmt.Sprintf("cell %d,%d -> %c", i, j, x))
				}
			}
		}
		add(supportCheck{Name: "mutate rate=0.5 " + alpha, All: all, PMin: 0.5 / float64(len(letters)), Run: func() []string {
			al := gen.MustBuild(gen.Ali{Rows: rows, Alphabet: alpha})
			al.Mutate(0.5)
			g := gen.Snapshot(al)
			var out []string
			for i := 0; i < 2; i++ {
				for j := 0; j < 4; j++ {
					if rows[i].Seq[j] == '-' {
						continue
					}
					if g[i].Seq[j] == rows[i].Seq[j] {
						out = append(out, fmt.Sprintf("cell %d,%d spared", i, j))
					} else {
						out = append(out, fmt.Sprintf("cell %d,%d -> %c", i, j, g[i].Seq[j]))
					}
				}
			}
			return out
		}})
	}

	// --- gaps: every set of rows, every set of sites
	{
		rows := latin(4, 4, distinctCells)
		var all []string
		for _, s := range subsetsOf(4, 2) {
			all = append(all, "rows "+s)
			all = append(all, "sites "+s)
		}
		add(supportCheck{Name: "add gaps 0.5 x 0.5, 4 rows x 4 columns", All: all, PMin: 1.0 / 12, Run: func() []string {
			al := gen.MustBuild(gen.Ali{Rows: rows, Alphabet: "aa"})
			al.AddGaps(0.5, 0.5)
			g := gen.Snapshot(al)
			var out []string
			var rs []int
			for i := range rows {
				d := diffPositions(rows[i].Seq, g[i].Seq)
				if len(d) > 0 {
					rs = append(rs, i)
					out = append(out, "sites "+keyOfInts(d))
				}
			}
			out = append(out, "rows "+keyOfInts(rs))
			return out
		}})
	}

	// --- rarefaction: every composition of the sample
	for _, bag := range []bool{false, true} {
		bag := bag
		rows := latin(4, 3, distinctCells)
		counts := map[string]int{"s0": 1, "s1": 1, "s3": 2}
		all := []string{"0,1", "0,3", "1,3", "3"}
		name := "rarefy nb=2 counts 1,1,-,2"
		if bag {
			name += " (sequence set)"
		}
		add(supportCheck{Name: name, All: all, PMin: 1.0 / 6, Run: func() []string {
			var got []gen.Row
			if bag {
				s, err := gen.BuildBag(gen.Ali{Rows: rows, Alphabet: "aa"}).RarefySeqBag(2, counts)
				if err != nil {
					return []string{"error " + err.Error()}
				}
				got = gen.Snapshot(s)
			} else {
				s, err := gen.MustBuild(gen.Ali{Rows: rows, Alphabet: "aa"}).Rarefy(2, counts)
				if err != nil {
					return []string{"error " + err.Error()}
				}
				got = gen.Snapshot(s)
			}
			var idx []int
			for _, r := range got {
				idx = append(idx, nameIdx(r.Name))
			}
			return []string{keyOfInts(idx)}
		}})
	}
	return cs
}

func runSupport(t *testing.T, sc supportCheck, base int64, factor int) {
	n := needSeeds(len(sc.All), sc.PMin) * factor
	admissible := map[string]bool{}
	for _, a := range sc.All {
		admissible[a] = true
	}
	seen := map[string]bool{}
	h := nameHash(sc.Name)
	for i := 0; i < n; i++ {
		seed := int64(splitmix(uint64(base)*0x100000001b3^h+uint64(i)) >> 1)
		rand.Seed(seed)
		var obs []string
		var perr error
		func() {
			defer func() {
				if r := recover(); r != nil {
					perr = fmt.Errorf("panic: %v", r)
				}
			}()
			obs = sc.Run()
		}()
		if perr != nil {
			pbt.Fail(t, supportCase{Sub: sc.Name, Base: base, Seeds: n, Seed: seed}, "%s: %v (seed %d)", sc.Name, perr, seed)
			return
		}
		for _, k := range obs {
			if !admissible[k] {
				pbt.Fail(t, supportCase{Sub: sc.Name, Base: base, Seeds: n, Seed: seed}, "%s: outcome %q after rand.Seed(%d) is not one of the admissible outcomes %v", sc.Name, k, seed, sc.All)
				return
			}
			seen[k] = true
		}
		var o pbt.Outcome
		o.NonTrivial = true
		o.Key = fmt.Sprintf("%s/%d", sc.Name, seed)
		o.Class("support: %s", sc.Name)
		pbt.Note(t, supportCase{Sub: sc.Name, Base: base, Seeds: n, Seed: seed}, o)
	}
	var missing []string
	for _, a := range sc.All {
		if !seen[a] {
			missing = append(missing, a)
		}
	}
	if len(missing) > 0 {
		pbt.Fail(t, supportCase{Sub: sc.Name, Base: base, Seeds: n, Missing: missing},
			"%s: %d of %d admissible outcomes were never produced in %d independent seeds (each has probability >= %.4g per seed on correct code; missing all of them has probability < 1e-30): %v",
			sc.Name, len(missing), len(sc.All), n, sc.PMin, missing)
	}
}

func TestSupport(t *testing.T) {
	base := int64(1)
	if s := os.Getenv("VERIF_SEED"); s != "" {
		if v, err := strconv.ParseInt(s, 10, 64); err == nil {
			base = v
		}
	}
	if s := os.Getenv("VERIF_SHARD"); s != "" {
		if v, err := strconv.ParseInt(s, 10, 64); err == nil {
			base = base*1009 + v
		}
	}
	only := ""
	if p := os.Getenv("VERIF_REPLAY"); p != "" {
		b, err := os.ReadFile(p)
		var f pbt.Failure
		if err != nil || json.Unmarshal(b, &f) != nil || f.Test != "TestSupport" {
			t.Skip("replay file is for another test")
		}
		var sc supportCase
		if json.Unmarshal(f.Case, &sc) != nil {
			t.Fatalf("cannot decode the replay case")
		}
		base, only = sc.Base, sc.Sub
	}
	factor := pbt.Scale(1, 3)
	for _, sc := range supportChecks() {
		if only != "" && sc.Name != only {
			continue
		}
		runSupport(t, sc, base, factor)
	}
	pbt.Complete(t)
}
