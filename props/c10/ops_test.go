package c10

import (
	"encoding/json"
	"fmt"
	"math"
	"math/rand"
	"reflect"
	"strings"
	"testing"

	"github.com/evolbioinfo/goalign/align"
	"pgregory.net/rapid"
	"verif/internal/gen"
	"verif/internal/pbt"
)

// ---- cases ---------------------------------------------------------------------------------------

type cnt struct {
	Name string `json:"n"`
	C    int    `json:"c"`
}

type opCase struct {
	Op     string  `json:"op"`
	Ali    gen.Ali `json:"ali"`
	Mode   string  `json:"mode"`
	Seed   int64   `json:"seed"`
	A      float64 `json:"a"`
	B      float64 `json:"b"`
	N      int     `json:"n"`
	Flag   bool    `json:"flag"`
	Counts []cnt   `json:"counts,omitempty"`
	// Big: a large input described by formulas (the case stays small): rows "r<i>", residues a
	// function of (i,j); counts of Rarefy a function of i
	Big *bigSpec `json:"big,omitempty"`
	// Ranges: the partition set of the partitioned bootstrap
	Ranges []prange `json:"ranges,omitempty"`
	// Plan: the input object is produced by this chain of public operations (nil: freshly built)
	Plan *gen.Plan `json:"plan,omitempty"`
	// Dup: in-place operations only: row Dup[k][0] is renamed (Rename, in place) to the name of row
	// Dup[k][1] before the operation: two rows then share a name
	Dup [][2]int `json:"dup,omitempty"`
	// Touch: rows read as strings (even: by name, odd: by index) before the operation, in the
	// first execution only
	Touch []int `json:"touch,omitempty"`
	// Interlude: queries on OTHER alignments executed between the executions of the operation
	Interlude []interStep `json:"interlude,omitempty"`
}

type interStep struct {
	Kind  string `json:"kind"`  // nt | rna | aa | nt-lower
	Query string `json:"query"` // see interQueries
}

type bigSpec struct {
	Rows     int `json:"rows"`
	Len      int `json:"len"`
	CountOff int `json:"count_off"` // Rarefy: count of row i = (7*i+CountOff) mod 4, 0 = no count
}

// expand materialises a large input. Few long rows: column j spells j in base 20 over the rows
// (columns pairwise different up to 20^rows); many short rows: a mix of the 20 letters
func (c opCase) expand() opCase {
	if c.Big == nil {
		return c
	}
	b := c.Big
	c.Ali = gen.Ali{Alphabet: "aa"}
	c.Ali.Rows = bigRows(b.Rows, b.Len)
	if strings.HasPrefix(c.Op, "rarefy") {
		c.Counts = nil
		for i := 0; i < b.Rows; i++ {
			if v := (7*i + b.CountOff) % 4; v > 0 {
				c.Counts = append(c.Counts, cnt{c.Ali.Rows[i].Name, v})
			}
		}
	}
	return c
}

func bigRows(n, l int) []gen.Row {
	rows := make([]gen.Row, n)
	for i := range rows {
		s := make([]byte, l)
		pow := 1
		for k := 0; k < i && k < 8; k++ {
			pow *= 20
		}
		for j := range s {
			if n <= 4 {
				s[j] = aaLetters[(j/pow)%20]
			} else {
				s[j] = aaLetters[(i*7+j*3+i/20)%20]
			}
		}
		rows[i] = gen.Row{Name: fmt.Sprintf("r%d", i), Seq: string(s)}
	}
	return rows
}

var bigOps = []string{"sample", "sample-bag", "sample", "sample-bag", "sample", "sample-bag", "rarefy", "rarefy-bag", "subalign", "bootstrap", "shuffle-seqs", "shuffle-seqs-bag"}

// genBig draws a large case for the operations whose implementation may switch algorithm with
// the size: sampling a few rows of many, long windows, long bootstraps, long row orders
func genBig(t *rapid.T) opCase {
	var c opCase
	c.Mode = "large"
	c.Op = bigOps[rapid.IntRange(0, 1<<20).Draw(t, "bigop")%len(bigOps)]
	c.Seed = genSeed(t)
	b := &bigSpec{}
	c.Big = b
	// a count inside 1..n: small (1..n/16, mostly at its upper end), near n, or anywhere
	pick := func(n int, label string) int {
		switch rapid.IntRange(0, 7).Draw(t, label+"_k") {
		case 0, 1, 2:
			hi := n / 16
			if hi < 1 {
				hi = 1
			}
			return hi - rapid.IntRange(0, hi/4).Draw(t, label+"_below")
		case 3:
			hi := n / 16
			if hi < 1 {
				hi = 1
			}
			return rapid.IntRange(1, hi).Draw(t, label+"_small")
		case 4:
			return n - rapid.IntRange(0, 3).Draw(t, label+"_near")
		case 5:
			return n/16 + rapid.IntRange(0, 2).Draw(t, label+"_border")
		}
		return rapid.IntRange(1, n).Draw(t, label)
	}
	switch c.Op {
	case "sample", "sample-bag":
		b.Rows = rapid.SampledFrom([]int{48, 64, 160, 400, 800, 1600}).Draw(t, "N") + rapid.IntRange(0, 15).Draw(t, "Nplus")
		b.Len = rapid.IntRange(1, 3).Draw(t, "L")
		c.N = pick(b.Rows, "nb")
	case "rarefy", "rarefy-bag":
		b.Rows = rapid.IntRange(48, 600).Draw(t, "N")
		b.Len = rapid.IntRange(1, 3).Draw(t, "L")
		b.CountOff = rapid.IntRange(0, 3).Draw(t, "countoff")
		total := 0
		for i := 0; i < b.Rows; i++ {
			total += (7*i + b.CountOff) % 4
		}
		c.N = pick(total-1, "nb")
	case "shuffle-seqs", "shuffle-seqs-bag":
		b.Rows = rapid.IntRange(48, 2000).Draw(t, "N")
		b.Len = rapid.IntRange(1, 3).Draw(t, "L")
	case "subalign":
		b.Rows = 3
		b.Len = rapid.IntRange(500, 4000).Draw(t, "L")
		c.N = pick(b.Len, "length")
		c.Flag = rapid.Bool().Draw(t, "consecutive")
	case "bootstrap":
		b.Rows = 3
		b.Len = rapid.IntRange(500, 4000).Draw(t, "L")
		c.A = genRate(t, "frac", 1, b.Len, false)
	}
	return c
}

var allOps = []string{
	"shuffle-sites", "recombine", "swap", "rogue", "bootstrap", "partboot", "subalign", "mutate", "addgaps",
	"sample", "rarefy", "shuffle-seqs", "shuffle-seqs-bag", "sample-bag", "rarefy-bag",
}

const ntCells = "ACGTRYSWKMBDHVNacgtryswkmbdhvn"
const aaCells = "ARNDCQEGHILKMFPSTWYVarndcqeghilkmfpstwyv"

// genAli draws an alignment. mode "latin": cell (i,j) = cells[(i+j+off) mod K], so that the cells
// of a row are pairwise different and the cells of a column are pairwise different (K >= rows,
// columns); "latin-gaps": the same with some cells replaced by gap / special characters;
// "random": column-wise from a small pool, repeated columns and rows are frequent
func genAli(t *rapid.T, alphabet string, maxRows, maxLen int) (gen.Ali, string) {
	cells := ntCells
	if alphabet == "aa" {
		cells = aaCells
	}
	mode := rapid.SampledFrom([]string{"latin", "latin", "latin-gaps", "random"}).Draw(t, "mode")
	if mode == "random" {
		chars := "ACGT-"
		if alphabet == "aa" {
			chars = "ARNDE-"
		}
		if rapid.Bool().Draw(t, "specials") {
			chars += ".*Nn"
		}
		return gen.Columnwise(t, chars, 1, maxRows, 1, maxLen, alphabet), mode
	}
	n := size(t, "rows", 1, maxRows)
	l := size(t, "L", 1, maxLen)
	off := rapid.IntRange(0, len(cells)-1).Draw(t, "off")
	a := gen.Ali{Alphabet: alphabet}
	for i := 0; i < n; i++ {
		b := make([]byte, l)
		for j := range b {
			b[j] = cells[(i+j+off)%len(cells)]
			if mode == "latin-gaps" {
				switch rapid.IntRange(0, 7).Draw(t, "g") {
				case 0, 1:
					b[j] = '-'
				case 2:
					b[j] = ".*"[rapid.IntRange(0, 1).Draw(t, "sp")]
				}
			}
		}
		a.Rows = append(a.Rows, gen.Row{Name: fmt.Sprintf("s%d", i), Seq: string(b)})
	}
	return a, mode
}

// size draws an integer of [min,max]; rapid alone prefers the small values
func size(t *rapid.T, label string, min, max int) int {
	if rapid.IntRange(0, 3).Draw(t, label+"_small") == 0 {
		return rapid.IntRange(min, max).Draw(t, label)
	}
	return min + rapid.IntRange(0, 1<<16).Draw(t, label+"_u")%(max-min+1)
}

// genCount draws a count for a domain 1..n: mostly inside, and the borders 0, -1, 1, n-1, n, n+1
func genCount(t *rapid.T, n int, label string) int {
	switch rapid.IntRange(0, 11).Draw(t, label+"_k") {
	case 0:
		return 0
	case 1:
		return -1
	case 2:
		return n + 1
	case 3, 4:
		return n
	case 5:
		return 1
	case 6:
		if n > 1 {
			return n - 1
		}
	}
	return size(t, label, 1, n)
}

// genSeed draws a seed over the whole int64 range with a bias to the borders; never -1, which the
// command line documents as "nano seconds since 1970" (rand.Seed itself accepts any int64)
func genSeed(t *rapid.T) int64 {
	var s int64
	switch rapid.IntRange(0, 5).Draw(t, "seed_k") {
	case 0:
		s = rapid.SampledFrom([]int64{0, 1, -2, -12345, math.MinInt64, math.MaxInt64, math.MinInt64 + 1, 1 << 31, 1<<31 - 1, -(1 << 31), 1 << 32, 1<<32 + 7, -(1 << 32) - 7, -987654321}).Draw(t, "seed_special")
	case 1:
		s = rapid.Int64Range(-1000, 1000).Draw(t, "seed_small")
	case 2:
		s = rapid.Int64Range(math.MinInt64, -2).Draw(t, "seed_negative")
	case 3:
		s = rapid.Int64Range(1<<40, math.MaxInt64).Draw(t, "seed_huge")
	default:
		s = rapid.Int64().Draw(t, "seed")
	}
	if s == -1 {
		s = -2
	}
	return s
}

// genRate draws from {0, eps, max/3, max/2, max-eps, max} + uniform + k/den, and (if out) values
// outside [0,max]
func genRate(t *rapid.T, label string, max float64, den int, out bool) float64 {
	k := rapid.IntRange(0, 11).Draw(t, label+"_k")
	switch k {
	case 0:
		return 0
	case 1:
		return eps
	case 2:
		return max / 3
	case 3:
		return max / 2
	case 4:
		return max - eps
	case 5:
		return max
	case 6, 7:
		if den > 0 {
			m := int(max * float64(den))
			return float64(rapid.IntRange(0, m).Draw(t, label+"_num")) / float64(den)
		}
	case 8:
		if out {
			return rapid.SampledFrom([]float64{-eps, -0.25, max + eps, max + 0.5, 2}).Draw(t, label+"_out")
		}
	}
	return rapid.Float64Range(0, max).Draw(t, label)
}

func genOpCase(t *rapid.T) opCase {
	if rapid.IntRange(0, 49).Draw(t, "large")%25 == 13 {
		return genBig(t)
	}
	var c opCase
	c.Op = allOps[rapid.IntRange(0, 1<<20).Draw(t, "op")%len(allOps)]
	c.Seed = genSeed(t)
	alphabet := rapid.SampledFrom([]string{"nt", "aa"}).Draw(t, "alphabet")
	maxRows, maxLen := 8, 20
	if strings.HasSuffix(c.Op, "-bag") {
		// a sequence set: rows of different lengths
		n := size(t, "rows", 1, 8)
		c.Ali.Alphabet = alphabet
		for i := 0; i < n; i++ {
			c.Ali.Rows = append(c.Ali.Rows, gen.Row{Name: fmt.Sprintf("s%d", i), Seq: gen.SeqN(t, "ACGT", rapid.IntRange(0, 12).Draw(t, "Li"))})
		}
		c.Mode = "bag"
	} else {
		c.Ali, c.Mode = genAli(t, alphabet, maxRows, maxLen)
	}
	n, l := len(c.Ali.Rows), c.Ali.Length()
	switch c.Op {
	case "shuffle-sites":
		// rates stay inside [0,1]: outside, ShuffleSites ends the process (io.ExitWithMessage)
		c.A = genRate(t, "rate", 1, l, false)
		c.B = genRate(t, "roguerate", 1, n, false)
		if rapid.Bool().Draw(t, "rogues") {
			// the region in which rogue rows get extra shuffled sites
			c.A = rapid.Float64Range(0.2, 0.8).Draw(t, "rate_mid")
			c.B = rapid.Float64Range(0.3, 1).Draw(t, "roguerate_high")
		}
		c.Flag = rapid.Bool().Draw(t, "stable")
	case "swap":
		c.A = genRate(t, "rate", 1, n, true)
		if rapid.IntRange(0, 2).Draw(t, "randompos") == 0 {
			c.B = rapid.SampledFrom([]float64{-1, -eps, 1 + eps, 2}).Draw(t, "pos_random")
		} else {
			c.B = genRate(t, "pos", 1, l, false)
		}
	case "recombine":
		c.A = genRate(t, "prop", 0.5, n, true)
		c.B = genRate(t, "lenprop", 1, l, true)
		c.Flag = rapid.Bool().Draw(t, "swap")
	case "rogue":
		c.A = genRate(t, "prop", 1, n, false)
		c.B = genRate(t, "proplen", 1, l, false)
	case "bootstrap":
		c.A = genRate(t, "frac", 1, l, false)
	case "partboot":
		if l < 2 {
			c.Op = "bootstrap"
		}
		c.A = genRate(t, "frac", 1, l, false)
		if c.A <= 0 && c.Op == "partboot" {
			c.A = 1
		}
		if c.Op == "partboot" {
			c.Ranges = genRanges(t, l)
		}
	case "sample", "sample-bag":
		c.N = genCount(t, n, "nb")
	case "subalign":
		c.N = genCount(t, l, "length")
		c.Flag = rapid.Bool().Draw(t, "consecutive")
	case "mutate":
		c.A = genRate(t, "rate", 1, 0, true)
	case "addgaps":
		c.A = genRate(t, "first", 1, l, true)
		c.B = genRate(t, "second", 1, n, true)
	case "rarefy", "rarefy-bag":
		total := 0
		for i := 0; i < n; i++ {
			if rapid.IntRange(0, 3).Draw(t, "has") > 0 {
				v := rapid.IntRange(1, 4).Draw(t, "count")
				c.Counts = append(c.Counts, cnt{c.Ali.Rows[i].Name, v})
				total += v
			}
		}
		if rapid.IntRange(0, 11).Draw(t, "unknown") == 0 {
			c.Counts = append(c.Counts, cnt{"nosuch", 1})
			total++
		}
		c.N = rapid.IntRange(0, total+1).Draw(t, "nb")
	}
	genHistory(t, &c)
	return c
}

// genHistory draws what surrounds the operation: the provenance of the input (a third of the
// alignments), the rows read before the operation, the queries on other alignments in between
func genHistory(t *rapid.T, c *opCase) {
	if c.Big == nil && !strings.HasSuffix(c.Op, "-bag") && len(c.Ali.Rows) > 0 && rapid.IntRange(0, 2).Draw(t, "provenance") == 0 {
		junk := "ACGT-"
		if c.Ali.Alphabet == "aa" {
			junk = "ARNDE-"
		}
		p := gen.DrawPlan(t, c.Ali, junk, 3)
		c.Plan = &p
	}
	if inplaceOps[c.Op] && len(c.Ali.Rows) >= 2 && rapid.IntRange(0, 5).Draw(t, "dupnames") == 0 {
		n := len(c.Ali.Rows)
		k := rapid.IntRange(1, 2).Draw(t, "ndup")
		for i := 0; i < k; i++ {
			from := rapid.IntRange(0, n-1).Draw(t, "dupfrom")
			to := rapid.IntRange(0, n-1).Draw(t, "dupto")
			if from != to {
				c.Dup = append(c.Dup, [2]int{from, to})
			}
		}
	}
	if rapid.Bool().Draw(t, "touched") {
		k := rapid.IntRange(1, 3).Draw(t, "ntouch")
		for i := 0; i < k; i++ {
			c.Touch = append(c.Touch, rapid.IntRange(0, 63).Draw(t, "touch"))
		}
	}
	if rapid.IntRange(0, 9).Draw(t, "with_interlude")%5 == 3 {
		k := rapid.IntRange(1, 3).Draw(t, "ninter")
		for i := 0; i < k; i++ {
			c.Interlude = append(c.Interlude, interStep{
				Kind:  interKinds[rapid.IntRange(0, 1<<16).Draw(t, "ikind")%len(interKinds)],
				Query: interQueries[rapid.IntRange(0, 1<<16).Draw(t, "iquery")%len(interQueries)],
			})
		}
	}
}

// ---- execution -----------------------------------------------------------------------------------

type result struct {
	Rows   []gen.Row `json:"rows"` // the alignment after an in-place operation, or the returned one
	Length int       `json:"len"`  // Length() of it (-9: not an alignment / nil)
	Nil    bool      `json:"nil"`  // a nil result was returned
	Names1 []string  `json:"names1"`
	Names2 []string  `json:"names2"`
	Err    string    `json:"err"`
	// Ext: the returned alignment after it was extended (Concat with a copy of itself, then Append
	// of one row); ExtErr: an error of these two calls
	Ext    []gen.Row `json:"ext,omitempty"`
	ExtErr string    `json:"ext_err,omitempty"`
	// Disagree: the accessors of the resulting object do not show the same rows
	Disagree string `json:"disagree,omitempty"`
}

// pure operations return a new object and must leave their receiver as it is: they are also
// replayed on the SAME object
var pureOps = map[string]bool{"bootstrap": true, "sample": true, "sample-bag": true, "subalign": true, "rarefy": true, "rarefy-bag": true, "partboot": true}

// prange is one range of a partition: columns S, S+M, ... <= E (0-based, inclusive) belong to
// partition P. A partition may be made of several ranges and strides (RAxML style
// "gene1 = 1-4,9-10", "1-12/3,2-12/3")
type prange struct {
	P int `json:"p"`
	S int `json:"s"`
	E int `json:"e"`
	M int `json:"m"`
}

// genRanges draws a partition set of l >= 2 columns: every column in exactly one of 2-3 partitions;
// families: blocks dealt to the partitions in turn (several ranges per partition), strides, and a
// strided segment followed by blocks. Partitions are numbered in order of first appearance
func genRanges(t *rapid.T, l int) []prange {
	var rs []prange
	switch rapid.IntRange(0, 2).Draw(t, "partfamily") {
	case 0: // strides
		k := rapid.IntRange(2, 3).Draw(t, "k")
		if k > l {
			k = l
		}
		for i := 0; i < k; i++ {
			rs = append(rs, prange{i, i, l - 1, k})
		}
	case 1: // blocks dealt in turn
		m := rapid.IntRange(2, 6).Draw(t, "blocks")
		if m > l {
			m = l
		}
		k := rapid.IntRange(2, 3).Draw(t, "k")
		if k > m {
			k = m
		}
		cuts := gen.Perm(t, l-1, "cuts")[:m-1] // cut after column cuts[i]
		sortInts(cuts)
		start := 0
		for i := 0; i < m; i++ {
			end := l - 1
			if i < m-1 {
				end = cuts[i]
			}
			rs = append(rs, prange{i % k, start, end, 1})
			start = end + 1
		}
	default: // a segment shared by two strided partitions, then blocks
		if l < 4 {
			return []prange{{0, 0, 0, 1}, {1, 1, l - 1, 1}}
		}
		c := rapid.IntRange(2, l-1).Draw(t, "stridedupto") // columns 0..c-1 strided
		rs = append(rs, prange{0, 0, c - 1, 2}, prange{1, 1, c - 1, 2})
		last := rapid.IntRange(0, 2).Draw(t, "lastpart")
		mid := rapid.IntRange(c, l-1).Draw(t, "mid")
		rs = append(rs, prange{last, c, mid, 1})
		if mid < l-1 {
			rs = append(rs, prange{(last + 1) % 3 % 3, mid + 1, l - 1, 1})
		}
		// renumber in order of first appearance
		seen := map[int]int{}
		for i := range rs {
			if _, ok := seen[rs[i].P]; !ok {
				seen[rs[i].P] = len(seen)
			}
			rs[i].P = seen[rs[i].P]
		}
	}
	return rs
}

func sortInts(v []int) {
	for i := 1; i < len(v); i++ {
		for j := i; j > 0 && v[j] < v[j-1]; j-- {
			v[j], v[j-1] = v[j-1], v[j]
		}
	}
}

// partitionOf gives the partition index of every column (-1: none) and the number of partitions
func partitionOf(rs []prange, l int) (part []int, k int) {
	part = make([]int, l)
	for j := range part {
		part[j] = -1
	}
	for _, r := range rs {
		for j := r.S; j <= r.E && j < l; j += r.M {
			part[j] = r.P
		}
		if r.P+1 > k {
			k = r.P + 1
		}
	}
	return part, k
}

func partitionSet(rs []prange, l int) *align.PartitionSet {
	ps := align.NewPartitionSet(l)
	for _, r := range rs {
		if err := ps.AddRange(fmt.Sprintf("p%d", r.P), "m", r.S, r.E, r.M); err != nil {
			panic("harness: partition set refused: " + err.Error())
		}
	}
	return ps
}

// partitionFile writes the partition set in the syntax of the documentation (1-based,
// "model, name = start-end/modulo, start-end"), one line per partition
func partitionFile(rs []prange) string {
	_, k := partitionOf(rs, 1<<20)
	var sb strings.Builder
	for p := 0; p < k; p++ {
		fmt.Fprintf(&sb, "M, p%d = ", p)
		first := true
		for _, r := range rs {
			if r.P != p {
				continue
			}
			if !first {
				sb.WriteString(", ")
			}
			first = false
			fmt.Fprintf(&sb, "%d-%d", r.S+1, r.E+1)
			if r.M > 1 {
				fmt.Fprintf(&sb, "/%d", r.M)
			}
		}
		sb.WriteString("\n")
	}
	return sb.String()
}

func mod(x, n int) int {
	if n <= 0 {
		return 0
	}
	x %= n
	if x < 0 {
		x += n
	}
	return x
}

func buildFor(c opCase) align.SeqBag {
	sb, _ := buildVia(c, false)
	return sb
}

// buildVia builds the input; with provenance the alignment is produced by the drawn chain of
// public operations that ends on the same content (unusable: the chain itself misbehaved, which is
// not this property's business: fresh build, counted)
func buildVia(c opCase, provenance bool) (sb align.SeqBag, unusable bool) {
	c = c.expand()
	if strings.HasSuffix(c.Op, "-bag") {
		return gen.BuildBag(c.Ali), false
	}
	var al align.Alignment
	if provenance && c.Plan != nil && c.Big == nil {
		if x, ok := gen.BuildVia(c.Ali, *c.Plan); ok {
			al = x
		} else {
			unusable = true
		}
	}
	if al == nil {
		al = gen.MustBuild(c.Ali)
	}
	for _, d := range c.Dup {
		al.Rename(map[string]string{c.Ali.Rows[d[0]].Name: c.Ali.Rows[d[1]].Name})
	}
	return al, unusable
}

// renamed gives the rows as the operation sees them: with the names shared after the renames of Dup
func renamed(rows []gen.Row, dup [][2]int) []gen.Row {
	if len(dup) == 0 {
		return rows
	}
	out := append([]gen.Row{}, rows...)
	for _, d := range dup {
		// as Rename does: every row currently carrying the (original) name of row d[0]
		from, to := rows[d[0]].Name, rows[d[1]].Name
		for i := range out {
			if out[i].Name == from {
				out[i].Name = to
			}
		}
	}
	return out
}

var inplaceOps = map[string]bool{"shuffle-seqs": true, "shuffle-sites": true, "swap": true, "recombine": true, "rogue": true, "mutate": true, "addgaps": true}

// touch reads some rows as strings before the operation (a partial read: the rows not listed are
// not read)
func touch(sb align.SeqBag, rows []int) {
	n := sb.NbSequences()
	if n == 0 {
		return
	}
	for _, t := range rows {
		i := mod(t/2, n)
		if t%2 == 0 {
			name, _ := sb.GetSequenceNameById(i)
			sb.GetSequence(name)
		} else {
			sb.GetSequenceById(i)
		}
	}
}

// accessors reads the container through every accessor and reports the first disagreement
func accessors(sb align.SeqBag) string {
	n := sb.NbSequences()
	type view struct{ name, seq string }
	byIndex := make([]view, n)
	for i := 0; i < n; i++ {
		byIndex[i].name, _ = sb.GetSequenceNameById(i)
		byIndex[i].seq, _ = sb.GetSequenceById(i)
	}
	cmp := func(what string, i int, name, seq string) string {
		if i >= n {
			return fmt.Sprintf("%s yields more than %d rows", what, n)
		}
		if byIndex[i].name != name || byIndex[i].seq != seq {
			return fmt.Sprintf("row %d: GetSequenceById gives %s=%q, %s gives %s=%q", i, byIndex[i].name, byIndex[i].seq, what, name, seq)
		}
		return ""
	}
	bad := ""
	i := 0
	sb.IterateChar(func(name string, b []uint8) bool {
		if d := cmp("IterateChar", i, name, string(b)); d != "" && bad == "" {
			bad = d
		}
		i++
		return false
	})
	if bad == "" && i != n {
		bad = fmt.Sprintf("IterateChar yields %d rows of %d", i, n)
	}
	i = 0
	sb.Iterate(func(name string, s string) bool {
		if d := cmp("Iterate", i, name, s); d != "" && bad == "" {
			bad = d
		}
		i++
		return false
	})
	for k, s := range sb.Sequences() {
		if d := cmp("Sequences()[i].Sequence()", k, s.Name(), s.Sequence()); d != "" && bad == "" {
			bad = d
		}
		if d := cmp("Sequences()[i].SequenceChar()", k, s.Name(), string(s.SequenceChar())); d != "" && bad == "" {
			bad = d
		}
	}
	times := map[string]int{}
	for _, v := range byIndex {
		times[v.name]++
	}
	for k, v := range byIndex {
		if times[v.name] > 1 {
			continue // rows sharing a name: which of them the name leads to is not this property's business
		}
		if s, ok := sb.GetSequence(v.name); (!ok || s != v.seq) && bad == "" {
			bad = fmt.Sprintf("row %d: GetSequenceById gives %s=%q, GetSequence(name) gives %q,%v", k, v.name, v.seq, s, ok)
		}
		if b, ok := sb.GetSequenceChar(v.name); (!ok || string(b) != v.seq) && bad == "" {
			bad = fmt.Sprintf("row %d: GetSequenceById gives %s=%q, GetSequenceChar(name) gives %q,%v", k, v.name, v.seq, string(b), ok)
		}
	}
	return bad
}

// batteryProbe runs every in-place randomised operation and the samplers on two fixed alignments
// (nucleotide, protein) after a fixed rand.Seed and returns what they produce
var lastBattery string // nothing but the interludes runs foreign code between two probes

func batteryProbe() string {
	var sb strings.Builder
	for _, a := range []gen.Ali{
		{Alphabet: "nt", Rows: []gen.Row{{Name: "a", Seq: "ACGTRYNACGTTGCAA"}, {Name: "b", Seq: "TTGCA-NACGGTGCAC"}, {Name: "c", Seq: "GGGCATNACGATGCAG"}, {Name: "d", Seq: "CAGCATNTCGATGAAT"}}},
		{Alphabet: "aa", Rows: []gen.Row{{Name: "a", Seq: "MKVLAWXQEDFGHIPS"}, {Name: "b", Seq: "MRVLSW-QDEYTNCPS"}, {Name: "c", Seq: "MKILSWXQDDYTNCPT"}, {Name: "d", Seq: "LKILAWXHDDFTNCAT"}}},
	} {
		ops := []func(al align.Alignment) align.SeqBag{
			func(al align.Alignment) align.SeqBag { al.Mutate(1); return al },
			func(al align.Alignment) align.SeqBag { al.Mutate(0.5); return al },
			func(al align.Alignment) align.SeqBag { al.ShuffleSites(0.5, 0.5, false); return al },
			func(al align.Alignment) align.SeqBag {
				al.AddGaps(0.5, 0.5)
				al.Recombine(0.5, 0.5, true)
				al.SimulateRogue(0.5, 0.5)
				al.ShuffleSequences()
				return al
			},
			func(al align.Alignment) align.SeqBag { return al.BuildBootstrap(1) },
			func(al align.Alignment) align.SeqBag { s, _ := al.Sample(2); return s },
			func(al align.Alignment) align.SeqBag { s, _ := al.RandSubAlign(5, false); return s },
		}
		for i, op := range ops {
			al := gen.MustBuild(a)
			rand.Seed(int64(1000 + i))
			res := op(al)
			res.IterateChar(func(n string, b []uint8) bool {
				sb.WriteString(n)
				sb.WriteByte('=')
				sb.Write(b)
				sb.WriteByte(' ')
				return false
			})
			sb.WriteByte('|')
		}
	}
	return sb.String()
}

// ---- interlude: queries on other alignments -------------------------------------------------------

var interKinds = []string{"nt", "rna", "aa", "nt-lower", "rna-lower"}
var interQueries = []string{"alphabetchars", "pssm", "charstats", "maxcharstats", "autoalphabet", "consensus", "entropy", "chartoindex", "translate", "revcomp", "write"}

// interlude executes read-only work on alignments that have nothing to do with the case: the
// result of a randomised operation must not depend on it (no state shared through the package)
func interlude(steps []interStep) {
	for _, st := range steps {
		var a gen.Ali
		switch st.Kind {
		case "rna":
			a = gen.Ali{Alphabet: "nt", Rows: []gen.Row{{Name: "a", Seq: "ACGUACGUAA"}, {Name: "b", Seq: "ACGUUCGAAU"}, {Name: "c", Seq: "UCGAACGUAG"}}}
		case "rna-lower":
			a = gen.Ali{Alphabet: "nt", Rows: []gen.Row{{Name: "a", Seq: "acguacguaa"}, {Name: "b", Seq: "acguucgaau"}}}
		case "aa":
			a = gen.Ali{Alphabet: "aa", Rows: []gen.Row{{Name: "a", Seq: "MKVLAW-QE*"}, {Name: "b", Seq: "MRVLSWXQD*"}}}
		case "nt-lower":
			a = gen.Ali{Alphabet: "nt", Rows: []gen.Row{{Name: "a", Seq: "acgtacgtnn"}, {Name: "b", Seq: "acgtrcga-t"}}}
		default:
			a = gen.Ali{Alphabet: "nt", Rows: []gen.Row{{Name: "a", Seq: "ACGTACGTAA"}, {Name: "b", Seq: "ACGTTCGA-T"}, {Name: "c", Seq: "TCGAACGTNG"}}}
		}
		al := gen.MustBuild(a)
		func() {
			defer func() { recover() }()
			switch st.Query {
			case "alphabetchars":
				_ = al.AlphabetCharacters()
				_ = al.AlphabetStr()
			case "pssm":
				al.Pssm(false, 0.1, align.PSSM_NORM_NONE)
				al.Pssm(true, 0.1, align.PSSM_NORM_DATA)
			case "charstats":
				_ = al.CharStats()
				_ = al.UniqueCharacters()
			case "maxcharstats":
				al.MaxCharStats(false, false)
			case "autoalphabet":
				al.AutoAlphabet()
				_ = al.DetectAlphabet()
			case "consensus":
				_ = al.Consensus(false, false)
			case "entropy":
				al.Entropy(0, false)
			case "chartoindex":
				for _, ch := range []uint8("ACGTUacgtu-NX") {
					_ = al.AlphabetCharToIndex(ch)
				}
			case "translate":
				al.Translate(0, align.GENETIC_CODE_STANDARD)
			case "revcomp":
				al.ReverseComplement()
			case "write":
				_ = al.String()
			}
		}()
	}
}

func countsMap(c opCase) map[string]int {
	m := map[string]int{}
	for _, x := range c.Counts {
		m[x.Name] = x.C
	}
	return m
}

// execute builds a fresh container from the case, seeds goalign's random stream and runs the
// operation once
func execute(c opCase) (r result) { return executeOn(c, nil, nil, false) }

// executeOn does the same on the given container (nil: a fresh one)
// counts: the caller-owned count map of Rarefy (nil: a fresh one): a history reuses the same map
// from call to call, as `goalign sample rarefy -r N` does
func executeOn(c opCase, x align.SeqBag, counts map[string]int, withTouch bool) (r result) {
	c = c.expand()
	if x == nil {
		x = buildFor(c)
	}
	if counts == nil {
		counts = countsMap(c)
	}
	if withTouch {
		touch(x, c.Touch)
	}
	r.Length = -9
	errs := func(e error) {
		if e != nil {
			r.Err = e.Error()
		}
	}
	ret := func(al align.Alignment, e error) {
		errs(e)
		if al == nil || isNilAlign(al) {
			r.Nil = true
			return
		}
		r.Rows = gen.Snapshot(al)
		r.Disagree = accessors(al)
		r.Length = al.Length()
		if len(r.Rows) == 0 {
			return
		}
		// the new object is extended: its rows must behave like rows of their own
		cp := align.NewAlign(al.Alphabet())
		for _, row := range r.Rows {
			cp.AddSequence(row.Name, row.Seq, "")
		}
		if e := al.Concat(cp); e != nil {
			r.ExtErr = "Concat: " + e.Error()
			return
		}
		more := align.NewAlign(al.Alphabet())
		more.AddSequence("zz_new_row", strings.Repeat("A", al.Length()), "")
		if e := al.Append(more); e != nil {
			r.ExtErr = "Append: " + e.Error()
			return
		}
		r.Ext = gen.Snapshot(al)
	}
	if strings.HasSuffix(c.Op, "-bag") {
		sb := x
		rand.Seed(c.Seed)
		switch c.Op {
		case "shuffle-seqs-bag":
			sb.ShuffleSequences()
			r.Rows = gen.Snapshot(sb)
			r.Disagree = accessors(sb)
		case "sample-bag":
			s, e := sb.SampleSeqBag(c.N)
			errs(e)
			if s == nil || isNilBag(s) {
				r.Nil = true
			} else {
				r.Rows = gen.Snapshot(s)
				r.Disagree = accessors(s)
			}
		case "rarefy-bag":
			s, e := sb.RarefySeqBag(c.N, counts)
			errs(e)
			if s == nil || isNilBag(s) {
				r.Nil = true
			} else {
				r.Rows = gen.Snapshot(s)
				r.Disagree = accessors(s)
			}
		}
		return
	}
	al := x.(align.Alignment)
	rand.Seed(c.Seed)
	inplace := func() {
		r.Rows = gen.Snapshot(al)
		r.Disagree = accessors(al)
		r.Length = al.Length()
	}
	switch c.Op {
	case "shuffle-seqs":
		al.ShuffleSequences()
		inplace()
	case "shuffle-sites":
		r.Names1 = al.ShuffleSites(c.A, c.B, c.Flag)
		inplace()
	case "swap":
		errs(al.Swap(c.A, c.B))
		inplace()
	case "recombine":
		errs(al.Recombine(c.A, c.B, c.Flag))
		inplace()
	case "rogue":
		r.Names1, r.Names2 = al.SimulateRogue(c.A, c.B)
		inplace()
	case "mutate":
		al.Mutate(c.A)
		inplace()
	case "addgaps":
		al.AddGaps(c.A, c.B)
		inplace()
	case "bootstrap":
		ret(al.BuildBootstrap(c.A), nil)
	case "sample":
		ret(al.Sample(c.N))
	case "subalign":
		ret(al.RandSubAlign(c.N, c.Flag))
	case "rarefy":
		ret(al.Rarefy(c.N, counts))
	case "partboot":
		// the partitioned bootstrap as `build seqboot --partition` builds it
		parts, e := al.Split(partitionSet(c.Ranges, al.Length()))
		if e != nil {
			errs(e)
			r.Nil = true
			return
		}
		var boot align.Alignment
		for _, p := range parts {
			tb := p.BuildBootstrap(c.A)
			if boot == nil {
				boot = tb
			} else if e := boot.Concat(tb); e != nil {
				errs(e)
			}
		}
		ret(boot, nil)
	default:
		panic("harness: unknown operation " + c.Op)
	}
	return
}

func isNilAlign(a align.Alignment) (isnil bool) {
	defer func() {
		if recover() != nil {
			isnil = true
		}
	}()
	a.NbSequences()
	return false
}

func isNilBag(a align.SeqBag) (isnil bool) {
	defer func() {
		if recover() != nil {
			isnil = true
		}
	}()
	a.NbSequences()
	return false
}

func seedClass(s int64) string {
	switch {
	case s == 0:
		return "seed=0"
	case s == math.MinInt64 || s == math.MaxInt64:
		return "seed=int64 border"
	case s < -(1 << 32):
		return "seed<-2^32"
	case s < 0:
		return "seed negative"
	case s >= 1<<32:
		return "seed>=2^32"
	}
	return "seed positive"
}

func rateClass(x, max float64) string {
	switch {
	case x < 0 || x > max:
		return "outside"
	case x == 0:
		return "0"
	case x == max:
		return "max"
	case x <= 2*eps:
		return "eps"
	case x >= max-2*eps:
		return "max-eps"
	}
	return "interior"
}

func countClass(x, n int) string {
	switch {
	case x < 1:
		return "<1"
	case x == 1 && n != 1:
		return "1"
	case x == n:
		return "n"
	case x > n:
		return ">n"
	case x == n-1:
		return "n-1"
	}
	return "interior"
}

// ---- the check -------------------------------------------------------------------------------------

func checkOp(c opCase) (o pbt.Outcome, err error) {
	c = c.expand()
	orig := renamed(c.Ali.Rows, c.Dup)
	if len(c.Dup) > 0 {
		o.Class("rows sharing a name")
	}
	x, unusable := buildVia(c, true)
	if c.Plan != nil && c.Big == nil && !strings.HasSuffix(c.Op, "-bag") {
		if unusable {
			o.Class("provenance-unusable")
		} else {
			o.Class("input through a chain of operations")
			for _, k := range c.Plan.Kinds() {
				o.Class("provenance step=%s", k)
			}
		}
	}
	// the arguments the caller owns (the count map of Rarefy) are created once for the whole history
	// and must come back unchanged from every call
	args := countsMap(c)
	argsUnchanged := func(when string) error {
		want := countsMap(c)
		if !reflect.DeepEqual(args, want) {
			return fmt.Errorf("%s modified the count map given by the caller (%s): %v -> %v", c.Op, when, trunc(fmt.Sprint(want), 600), trunc(fmt.Sprint(args), 600))
		}
		return nil
	}
	r1 := executeOn(c, x, args, true)
	if r1.Disagree != "" {
		return o, fmt.Errorf("after %s the accessors of the result disagree (rows %v were read as strings before the operation): %s", c.Op, c.Touch, r1.Disagree)
	}
	// queries on other alignments before the operation is replayed; a fixed battery of seeded
	// operations on inputs of the harness must give the same bytes before and after them
	if len(c.Interlude) > 0 {
		if lastBattery == "" {
			lastBattery = batteryProbe()
		}
		before := lastBattery
		interlude(c.Interlude)
		after := batteryProbe()
		lastBattery = after
		if after != before {
			return o, fmt.Errorf("queries on other alignments (%v) changed what the randomised operations produce after the same rand.Seed on fixed inputs\n before: %s\n after : %s", c.Interlude, before, after)
		}
		o.Class("interlude")
	}
	if err = argsUnchanged("first call"); err != nil {
		return
	}
	r2 := execute(c)
	var j1, j2 []byte
	if !reflect.DeepEqual(r1, r2) || c.Big == nil {
		j1, _ = json.Marshal(r1)
		j2, _ = json.Marshal(r2)
	}
	if string(j1) != string(j2) {
		return o, fmt.Errorf("replay: the same operation on the same input after rand.Seed(%d) gave two different results\n first : %s\n second: %s", c.Seed, trunc(string(j1), 1500), trunc(string(j2), 1500))
	}
	if pureOps[c.Op] {
		// the operation does not modify its receiver: Seed(s); op(x) again on the SAME object, then
		// after another draw from it in between
		again := func(what string) error {
			r := executeOn(c, x, args, false)
			if e := argsUnchanged(what); e != nil {
				return e
			}
			if !reflect.DeepEqual(r1, r) {
				a, _ := json.Marshal(r1)
				b, _ := json.Marshal(r)
				return fmt.Errorf("replay: rand.Seed(%d) and the same operation %s on the SAME object gave a different result\n first: %s\n then : %s", c.Seed, what, trunc(string(a), 1500), trunc(string(b), 1500))
			}
			return nil
		}
		if err = again("a second time"); err != nil {
			return
		}
		other := c
		other.Seed = c.Seed ^ 0x5DEECE66D
		executeOn(other, x, args, false)
		if err = argsUnchanged("call with another seed"); err != nil {
			return
		}
		if err = again("after a call with another seed in between"); err != nil {
			return
		}
		o.Class("replayed on the same object")
	}
	// a returned alignment that is extended afterwards behaves like a list of rows of its own
	if r1.ExtErr != "" {
		return o, fmt.Errorf("extending the returned alignment failed: %s", r1.ExtErr)
	}
	if r1.Ext != nil {
		want := make([]gen.Row, 0, len(r1.Rows)+1)
		for _, row := range r1.Rows {
			want = append(want, gen.Row{Name: row.Name, Seq: row.Seq + row.Seq})
		}
		want = append(want, gen.Row{Name: "zz_new_row", Seq: strings.Repeat("A", 2*aliLen(r1.Rows))})
		if !gen.SameRows(r1.Ext, want) {
			return o, fmt.Errorf("the returned alignment, after Concat with a copy of itself and Append of one row, is not its rows doubled plus the new row\n returned: %s\n extended: %s", show(r1.Rows), show(r1.Ext))
		}
		o.Class("result extended (Concat+Append)")
	}
	n, l := len(orig), c.Ali.Length()
	got := r1.Rows
	changed := false
	drew := false
	// in-place operations must leave an alignment of the same length
	inplace := func() error {
		if r1.Length != l {
			return fmt.Errorf("Length() changed: %d -> %d", l, r1.Length)
		}
		changed = !gen.SameRows(orig, got)
		return nil
	}
	wantErr := func(want bool, what string) error {
		if want && r1.Err == "" {
			return fmt.Errorf("%s: an error is documented, none returned (result %s)", what, j1)
		}
		if !want && r1.Err != "" {
			return fmt.Errorf("%s: unexpected error %q", what, r1.Err)
		}
		return nil
	}
	o.Class("op=%s", c.Op)
	o.Class(seedClass(c.Seed))
	o.Class("mode=%s", c.Mode)
	switch c.Op {
	case "shuffle-seqs", "shuffle-seqs-bag":
		if err = invShuffleSeqs(orig, got); err != nil {
			return
		}
		if c.Op == "shuffle-seqs" && r1.Length != l {
			return o, fmt.Errorf("Length() changed: %d -> %d", l, r1.Length)
		}
		changed = !gen.SameRows(orig, got)
		drew = n >= 2
	case "shuffle-sites":
		if err = inplace(); err != nil {
			return
		}
		var amb int
		amb, err = invShuffleSites(orig, got, r1.Names1, c.A, c.B)
		o.Ambiguous += amb
		if err != nil {
			return
		}
		o.Class("shuffle-sites rate=%s", rateClass(c.A, 1))
		o.Class("shuffle-sites roguerate=%s", rateClass(c.B, 1))
		if len(r1.Names1) > 0 && r1.Names1[0] != "" {
			o.Class("shuffle-sites: rogue names reported")
		}
	case "swap":
		if err = inplace(); err != nil {
			return
		}
		out := c.A < 0 || c.A > 1
		if err = wantErr(out, "Swap with rate outside [0,1]"); err != nil {
			return
		}
		if out {
			if changed {
				return o, fmt.Errorf("Swap returned an error and changed the alignment")
			}
		} else if err = invSwap(orig, got, c.A, c.B); err != nil {
			return
		}
		pc := "random"
		if c.B >= 0 && c.B <= 1 {
			pc = rateClass(c.B, 1)
		}
		o.Class("swap rate=%s", rateClass(c.A, 1))
		o.Class("swap pos=%s", pc)
	case "recombine":
		if err = inplace(); err != nil {
			return
		}
		out := c.A < 0 || c.A > 0.5 || c.B < 0 || c.B > 1
		if err = wantErr(out, "Recombine with a proportion outside its range"); err != nil {
			return
		}
		if out {
			if changed {
				return o, fmt.Errorf("Recombine returned an error and changed the alignment")
			}
		} else if err = invRecombine(orig, got, c.A, c.B, c.Flag); err != nil {
			return
		}
		o.Class("recombine prop=%s swap=%v", rateClass(c.A, 0.5), c.Flag)
		o.Class("recombine lenprop=%s", rateClass(c.B, 1))
	case "rogue":
		if err = inplace(); err != nil {
			return
		}
		var amb int
		amb, err = invRogue(orig, got, r1.Names1, r1.Names2, true, c.A, c.B)
		o.Ambiguous += amb
		if err != nil {
			return
		}
		o.Class("rogue prop=%s", rateClass(c.A, 1))
		o.Class("rogue proplen=%s", rateClass(c.B, 1))
	case "mutate":
		if err = inplace(); err != nil {
			return
		}
		if err = invMutate(orig, got, c.A, c.Ali.Alphabet); err != nil {
			return
		}
		o.Class("mutate rate=%s %s", rateClass(c.A, 1), c.Ali.Alphabet)
		drew = c.A > 0
	case "addgaps":
		if err = inplace(); err != nil {
			return
		}
		var amb int
		amb, err = invAddGaps(orig, got, c.A, c.B, false)
		o.Ambiguous += amb
		if err != nil {
			return
		}
		o.Class("addgaps first=%s", rateClass(c.A, 1))
		o.Class("addgaps second=%s", rateClass(c.B, 1))
	case "bootstrap":
		if r1.Nil {
			return o, fmt.Errorf("BuildBootstrap returned nil")
		}
		var amb int
		amb, err = invBootstrap(orig, got, c.A)
		o.Ambiguous += amb
		if err != nil {
			return
		}
		if n > 0 && r1.Length != aliLen(got) {
			return o, fmt.Errorf("Length() of the bootstrap = %d, rows have %d residues", r1.Length, aliLen(got))
		}
		drew = aliLen(got) > 0
		changed = !gen.SameRows(orig, got)
		o.Class("bootstrap frac=%s", rateClass(c.A, 1))
	case "partboot":
		if r1.Nil || r1.Err != "" {
			return o, fmt.Errorf("partitioned bootstrap failed: %s", r1.Err)
		}
		part, k := partitionOf(c.Ranges, l)
		var amb int
		amb, err = invPartBoot(orig, got, c.A, part, k)
		o.Ambiguous += amb
		if err != nil {
			return
		}
		drew = aliLen(got) > 0
		changed = !gen.SameRows(orig, got)
		o.Class("partboot frac=%s", rateClass(c.A, 1))
		o.Class("partboot %d partitions, %d ranges", k, len(c.Ranges))
	case "sample", "sample-bag":
		out := c.N < 1 || c.N > n
		if err = wantErr(out, "Sample with nb < 1 or nb > number of sequences"); err != nil {
			return
		}
		if out {
			if !r1.Nil {
				return o, fmt.Errorf("Sample(%d) on %d rows returned an error and a non nil result", c.N, n)
			}
		} else {
			if r1.Nil {
				return o, fmt.Errorf("Sample(%d) on %d rows returned nil", c.N, n)
			}
			if err = invSample(orig, got, c.N); err != nil {
				return
			}
			if c.Op == "sample" && r1.Length != l {
				return o, fmt.Errorf("Length() of the sample = %d, source %d", r1.Length, l)
			}
			drew = true
			changed = !gen.SameRows(orig, got)
		}
		o.Class("%s nb=%s", c.Op, countClass(c.N, n))
		if c.Mode == "large" && c.N >= 1 && 16*c.N <= n {
			o.Class("large %s with nb <= N/16", c.Op)
		}
	case "subalign":
		out := c.N < 1 || c.N > l
		if err = wantErr(out, "RandSubAlign with a length < 1 or > alignment length"); err != nil {
			return
		}
		if !out {
			if r1.Nil {
				return o, fmt.Errorf("RandSubAlign(%d) returned nil", c.N)
			}
			if err = invSubAlign(orig, got, c.N, c.Flag); err != nil {
				return
			}
			if r1.Length != c.N {
				return o, fmt.Errorf("Length() of the sub-alignment = %d, requested %d", r1.Length, c.N)
			}
			drew = true
			changed = !gen.SameRows(orig, got)
		}
		o.Class("subalign length=%s consecutive=%v", countClass(c.N, l), c.Flag)
		if c.Mode == "large" {
			o.Class("large subalign consecutive=%v", c.Flag)
		}
	case "rarefy", "rarefy-bag":
		counts := countsMap(c)
		total := 0
		unknown := false
		for k, v := range counts {
			total += v
			if k == "nosuch" {
				unknown = true
			}
		}
		out := c.N >= total || unknown
		if err = wantErr(out, "Rarefy with nb >= sum of counts or a count for an unknown sequence"); err != nil {
			return
		}
		if !out {
			if r1.Nil {
				return o, fmt.Errorf("Rarefy(%d) returned nil", c.N)
			}
			if err = invRarefy(orig, got, c.N, counts); err != nil {
				return
			}
			drew = c.N >= 1
			changed = !gen.SameRows(orig, got)
		}
		switch {
		case unknown:
			o.Class("rarefy unknown name")
		case c.N == 0:
			o.Class("rarefy nb=0")
		case c.N == total-1:
			o.Class("rarefy nb=total-1")
		case c.N >= total:
			o.Class("rarefy nb>=total")
		default:
			o.Class("rarefy interior")
		}
	}
	if changed {
		o.Class("changed")
	}
	o.NonTrivial = (changed || drew) && n >= 2 && (l >= 2 || c.Mode == "bag" || c.Mode == "large")
	return o, nil
}

func TestInvariants(t *testing.T) { pbt.Run(t, genOpCase, checkOp) }
