package c10

import (
	"encoding/json"
	"fmt"
	"math"
	"math/rand"
	"reflect"
	"strings"
	"testing"

	"github.com/evolbioinfo/goalign/align"
	"pgregory.net/rapid"
	"verif/internal/gen"
	"verif/internal/pbt"
)

// ---- cases ---------------------------------------------------------------------------------------

type cnt struct {
	Name string `json:"n"`
	C    int    `json:"c"`
}

type opCase struct {
	Op     string  `json:"op"`
	Ali    gen.Ali `json:"ali"`
	Mode   string  `json:"mode"`
	Seed   int64   `json:"seed"`
	A      float64 `json:"a"`
	B      float64 `json:"b"`
	N      int     `json:"n"`
	Flag   bool    `json:"flag"`
	Counts []cnt   `json:"counts,omitempty"`
	// Big: a large input described by formulas (the case stays small): rows "r<i>", residues a
	// function of (i,j); counts of Rarefy a function of i
	Big *bigSpec `json:"big,omitempty"`
}

type bigSpec struct {
	Rows     int `json:"rows"`
	Len      int `json:"len"`
	CountOff int `json:"count_off"` // Rarefy: count of row i = (7*i+CountOff) mod 4, 0 = no count
}

// expand materialises a large input. Few long rows: column j spells j in base 20 over the rows
// (columns pairwise different up to 20^rows); many short rows: a mix of the 20 letters
func (c opCase) expand() opCase {
	if c.Big == nil {
		return c
	}
	b := c.Big
	c.Ali = gen.Ali{Alphabet: "aa"}
	c.Ali.Rows = bigRows(b.Rows, b.Len)
	if strings.HasPrefix(c.Op, "rarefy") {
		c.Counts = nil
		for i := 0; i < b.Rows; i++ {
			if v := (7*i + b.CountOff) % 4; v > 0 {
				c.Counts = append(c.Counts, cnt{c.Ali.Rows[i].Name, v})
			}
		}
	}
	return c
}

func bigRows(n, l int) []gen.Row {
	rows := make([]gen.Row, n)
	for i := range rows {
		s := make([]byte, l)
		pow := 1
		for k := 0; k < i && k < 8; k++ {
			pow *= 20
		}
		for j := range s {
			if n <= 4 {
				s[j] = aaLetters[(j/pow)%20]
			} else {
				s[j] = aaLetters[(i*7+j*3+i/20)%20]
			}
		}
		rows[i] = gen.Row{Name: fmt.Sprintf("r%d", i), Seq: string(s)}
	}
	return rows
}

var bigOps = []string{"sample", "sample-bag", "sample", "sample-bag", "sample", "sample-bag", "rarefy", "rarefy-bag", "subalign", "bootstrap", "shuffle-seqs", "shuffle-seqs-bag"}

// genBig draws a large case for the operations whose implementation may switch algorithm with
// the size: sampling a few rows of many, long windows, long bootstraps, long row orders
func genBig(t *rapid.T) opCase {
	var c opCase
	c.Mode = "large"
	c.Op = bigOps[rapid.IntRange(0, 1<<20).Draw(t, "bigop")%len(bigOps)]
	c.Seed = genSeed(t)
	b := &bigSpec{}
	c.Big = b
	// a count inside 1..n: small (1..n/16, mostly at its upper end), near n, or anywhere
	pick := func(n int, label string) int {
		switch rapid.IntRange(0, 7).Draw(t, label+"_k") {
		case 0, 1, 2:
			hi := n / 16
			if hi < 1 {
				hi = 1
			}
			return hi - rapid.IntRange(0, hi/4).Draw(t, label+"_below")
		case 3:
			hi := n / 16
			if hi < 1 {
				hi = 1
			}
			return rapid.IntRange(1, hi).Draw(t, label+"_small")
		case 4:
			return n - rapid.IntRange(0, 3).Draw(t, label+"_near")
		case 5:
			return n/16 + rapid.IntRange(0, 2).Draw(t, label+"_border")
		}
		return rapid.IntRange(1, n).Draw(t, label)
	}
	switch c.Op {
	case "sample", "sample-bag":
		b.Rows = rapid.SampledFrom([]int{48, 64, 160, 400, 800, 1600}).Draw(t, "N") + rapid.IntRange(0, 15).Draw(t, "Nplus")
		b.Len = rapid.IntRange(1, 3).Draw(t, "L")
		c.N = pick(b.Rows, "nb")
	case "rarefy", "rarefy-bag":
		b.Rows = rapid.IntRange(48, 600).Draw(t, "N")
		b.Len = rapid.IntRange(1, 3).Draw(t, "L")
		b.CountOff = rapid.IntRange(0, 3).Draw(t, "countoff")
		total := 0
		for i := 0; i < b.Rows; i++ {
			total += (7*i + b.CountOff) % 4
		}
		c.N = pick(total-1, "nb")
	case "shuffle-seqs", "shuffle-seqs-bag":
		b.Rows = rapid.IntRange(48, 2000).Draw(t, "N")
		b.Len = rapid.IntRange(1, 3).Draw(t, "L")
	case "subalign":
		b.Rows = 3
		b.Len = rapid.IntRange(500, 4000).Draw(t, "L")
		c.N = pick(b.Len, "length")
		c.Flag = rapid.Bool().Draw(t, "consecutive")
	case "bootstrap":
		b.Rows = 3
		b.Len = rapid.IntRange(500, 4000).Draw(t, "L")
		c.A = genRate(t, "frac", 1, b.Len, false)
	}
	return c
}

var allOps = []string{
	"shuffle-sites", "recombine", "swap", "rogue", "bootstrap", "partboot", "subalign", "mutate", "addgaps",
	"sample", "rarefy", "shuffle-seqs", "shuffle-seqs-bag", "sample-bag", "rarefy-bag",
}

const ntCells = "ACGTRYSWKMBDHVNacgtryswkmbdhvn"
const aaCells = "ARNDCQEGHILKMFPSTWYVarndcqeghilkmfpstwyv"

// genAli draws an alignment. mode "latin": cell (i,j) = cells[(i+j+off) mod K], so that the cells
// of a row are pairwise different and the cells of a column are pairwise different (K >= rows,
// columns); "latin-gaps": the same with some cells replaced by gap / special characters;
// "random": column-wise from a small pool, repeated columns and rows are frequent
func genAli(t *rapid.T, alphabet string, maxRows, maxLen int) (gen.Ali, string) {
	cells := ntCells
	if alphabet == "aa" {
		cells = aaCells
	}
	mode := rapid.SampledFrom([]string{"latin", "latin", "latin-gaps", "random"}).Draw(t, "mode")
	if mode == "random" {
		chars := "ACGT-"
		if alphabet == "aa" {
			chars = "ARNDE-"
		}
		if rapid.Bool().Draw(t, "specials") {
			chars += ".*Nn"
		}
		return gen.Columnwise(t, chars, 1, maxRows, 1, maxLen, alphabet), mode
	}
	n := size(t, "rows", 1, maxRows)
	l := size(t, "L", 1, maxLen)
	off := rapid.IntRange(0, len(cells)-1).Draw(t, "off")
	a := gen.Ali{Alphabet: alphabet}
	for i := 0; i < n; i++ {
		b := make([]byte, l)
		for j := range b {
			b[j] = cells[(i+j+off)%len(cells)]
			if mode == "latin-gaps" {
				switch rapid.IntRange(0, 7).Draw(t, "g") {
				case 0, 1:
					b[j] = '-'
				case 2:
					b[j] = ".*"[rapid.IntRange(0, 1).Draw(t, "sp")]
				}
			}
		}
		a.Rows = append(a.Rows, gen.Row{Name: fmt.Sprintf("s%d", i), Seq: string(b)})
	}
	return a, mode
}

// size draws an integer of [min,max]; rapid alone prefers the small values
func size(t *rapid.T, label string, min, max int) int {
	if rapid.IntRange(0, 3).Draw(t, label+"_small") == 0 {
		return rapid.IntRange(min, max).Draw(t, label)
	}
	return min + rapid.IntRange(0, 1<<16).Draw(t, label+"_u")%(max-min+1)
}

// genCount draws a count for a domain 1..n: mostly inside, and the borders 0, -1, 1, n-1, n, n+1
func genCount(t *rapid.T, n int, label string) int {
	switch rapid.IntRange(0, 11).Draw(t, label+"_k") {
	case 0:
		return 0
	case 1:
		return -1
	case 2:
		return n + 1
	case 3, 4:
		return n
	case 5:
		return 1
	case 6:
		if n > 1 {
			return n - 1
		}
	}
	return size(t, label, 1, n)
}

// genSeed draws a seed over the whole int64 range with a bias to the borders; never -1, which the
// command line documents as "nano seconds since 1970" (rand.Seed itself accepts any int64)
func genSeed(t *rapid.T) int64 {
	var s int64
	switch rapid.IntRange(0, 5).Draw(t, "seed_k") {
	case 0:
		s = rapid.SampledFrom([]int64{0, 1, -2, -12345, math.MinInt64, math.MaxInt64, math.MinInt64 + 1, 1 << 31, 1<<31 - 1, -(1 << 31), 1 << 32, 1<<32 + 7, -(1 << 32) - 7, -987654321}).Draw(t, "seed_special")
	case 1:
		s = rapid.Int64Range(-1000, 1000).Draw(t, "seed_small")
	case 2:
		s = rapid.Int64Range(math.MinInt64, -2).Draw(t, "seed_negative")
	case 3:
		s = rapid.Int64Range(1<<40, math.MaxInt64).Draw(t, "seed_huge")
	default:
		s = rapid.Int64().Draw(t, "seed")
	}
	if s == -1 {
		s = -2
	}
	return s
}

// genRate draws from {0, eps, max/3, max/2, max-eps, max} + uniform + k/den, and (if out) values
// outside [0,max]
func genRate(t *rapid.T, label string, max float64, den int, out bool) float64 {
	k := rapid.IntRange(0, 11).Draw(t, label+"_k")
	switch k {
	case 0:
		return 0
	case 1:
		return eps
	case 2:
		return max / 3
	case 3:
		return max / 2
	case 4:
		return max - eps
	case 5:
		return max
	case 6, 7:
		if den > 0 {
			m := int(max * float64(den))
			return float64(rapid.IntRange(0, m).Draw(t, label+"_num")) / float64(den)
		}
	case 8:
		if out {
			return rapid.SampledFrom([]float64{-eps, -0.25, max + eps, max + 0.5, 2}).Draw(t, label+"_out")
		}
	}
	return rapid.Float64Range(0, max).Draw(t, label)
}

func genOpCase(t *rapid.T) opCase {
	if rapid.IntRange(0, 49).Draw(t, "large")%25 == 13 {
		return genBig(t)
	}
	var c opCase
	c.Op = allOps[rapid.IntRange(0, 1<<20).Draw(t, "op")%len(allOps)]
	c.Seed = genSeed(t)
	alphabet := rapid.SampledFrom([]string{"nt", "aa"}).Draw(t, "alphabet")
	maxRows, maxLen := 8, 20
	if strings.HasSuffix(c.Op, "-bag") {
		// a sequence set: rows of different lengths
		n := size(t, "rows", 1, 8)
		c.Ali.Alphabet = alphabet
		for i := 0; i < n; i++ {
			c.Ali.Rows = append(c.Ali.Rows, gen.Row{Name: fmt.Sprintf("s%d", i), Seq: gen.SeqN(t, "ACGT", rapid.IntRange(0, 12).Draw(t, "Li"))})
		}
		c.Mode = "bag"
	} else {
		c.Ali, c.Mode = genAli(t, alphabet, maxRows, maxLen)
	}
	n, l := len(c.Ali.Rows), c.Ali.Length()
	switch c.Op {
	case "shuffle-sites":
		// rates stay inside [0,1]: outside, ShuffleSites ends the process (io.ExitWithMessage)
		c.A = genRate(t, "rate", 1, l, false)
		c.B = genRate(t, "roguerate", 1, n, false)
		if rapid.Bool().Draw(t, "rogues") {
			// the region in which rogue rows get extra shuffled sites
			c.A = rapid.Float64Range(0.2, 0.8).Draw(t, "rate_mid")
			c.B = rapid.Float64Range(0.3, 1).Draw(t, "roguerate_high")
		}
		c.Flag = rapid.Bool().Draw(t, "stable")
	case "swap":
		c.A = genRate(t, "rate", 1, n, true)
		if rapid.IntRange(0, 2).Draw(t, "randompos") == 0 {
			c.B = rapid.SampledFrom([]float64{-1, -eps, 1 + eps, 2}).Draw(t, "pos_random")
		} else {
			c.B = genRate(t, "pos", 1, l, false)
		}
	case "recombine":
		c.A = genRate(t, "prop", 0.5, n, true)
		c.B = genRate(t, "lenprop", 1, l, true)
		c.Flag = rapid.Bool().Draw(t, "swap")
	case "rogue":
		c.A = genRate(t, "prop", 1, n, false)
		c.B = genRate(t, "proplen", 1, l, false)
	case "bootstrap":
		c.A = genRate(t, "frac", 1, l, false)
	case "partboot":
		if l < 2 {
			c.Op = "bootstrap"
		}
		c.A = genRate(t, "frac", 1, l, false)
		if c.A <= 0 && c.Op == "partboot" {
			c.A = 1
		}
		c.N = rapid.IntRange(0, 40).Draw(t, "partition")
		c.Flag = rapid.Bool().Draw(t, "modulo")
	case "sample", "sample-bag":
		c.N = genCount(t, n, "nb")
	case "subalign":
		c.N = genCount(t, l, "length")
		c.Flag = rapid.Bool().Draw(t, "consecutive")
	case "mutate":
		c.A = genRate(t, "rate", 1, 0, true)
	case "addgaps":
		c.A = genRate(t, "first", 1, l, true)
		c.B = genRate(t, "second", 1, n, true)
	case "rarefy", "rarefy-bag":
		total := 0
		for i := 0; i < n; i++ {
			if rapid.IntRange(0, 3).Draw(t, "has") > 0 {
				v := rapid.IntRange(1, 4).Draw(t, "count")
				c.Counts = append(c.Counts, cnt{c.Ali.Rows[i].Name, v})
				total += v
			}
		}
		if rapid.IntRange(0, 11).Draw(t, "unknown") == 0 {
			c.Counts = append(c.Counts, cnt{"nosuch", 1})
			total++
		}
		c.N = rapid.IntRange(0, total+1).Draw(t, "nb")
	}
	return c
}

// ---- execution -----------------------------------------------------------------------------------

type result struct {
	Rows   []gen.Row `json:"rows"` // the alignment after an in-place operation, or the returned one
	Length int       `json:"len"`  // Length() of it (-9: not an alignment / nil)
	Nil    bool      `json:"nil"`  // a nil result was returned
	Names1 []string  `json:"names1"`
	Names2 []string  `json:"names2"`
	Err    string    `json:"err"`
	// Ext: the returned alignment after it was extended (Concat with a copy of itself, then Append
	// of one row); ExtErr: an error of these two calls
	Ext    []gen.Row `json:"ext,omitempty"`
	ExtErr string    `json:"ext_err,omitempty"`
}

// pure operations return a new object and must leave their receiver as it is: they are also
// replayed on the SAME object
var pureOps = map[string]bool{"bootstrap": true, "sample": true, "sample-bag": true, "subalign": true, "rarefy": true, "rarefy-bag": true, "partboot": true}

// partitionOf gives the partition index of every column for the "partboot" operation: Flag:
// columns taken modulo k (k = 2 or 3); otherwise two ranges cut at 1+N mod (L-1)
func partitionOf(flag bool, n, l int) (part []int, k int) {
	part = make([]int, l)
	if flag {
		k = 2 + mod(n, 2)
		if k > l {
			k = l
		}
		for j := range part {
			part[j] = j % k
		}
		return part, k
	}
	cut := 1 + mod(n, l-1)
	for j := range part {
		if j >= cut {
			part[j] = 1
		}
	}
	return part, 2
}

func mod(x, n int) int {
	if n <= 0 {
		return 0
	}
	x %= n
	if x < 0 {
		x += n
	}
	return x
}

func partitionSet(flag bool, n, l int) *align.PartitionSet {
	ps := align.NewPartitionSet(l)
	if flag {
		_, k := partitionOf(flag, n, l)
		for i := 0; i < k; i++ {
			ps.AddRange(fmt.Sprintf("p%d", i), "m", i, l-1, k)
		}
		return ps
	}
	cut := 1 + mod(n, l-1)
	ps.AddRange("p0", "m", 0, cut-1, 1)
	ps.AddRange("p1", "m", cut, l-1, 1)
	return ps
}

func buildFor(c opCase) align.SeqBag {
	c = c.expand()
	if strings.HasSuffix(c.Op, "-bag") {
		return gen.BuildBag(c.Ali)
	}
	return gen.MustBuild(c.Ali)
}

func countsMap(c opCase) map[string]int {
	m := map[string]int{}
	for _, x := range c.Counts {
		m[x.Name] = x.C
	}
	return m
}

// execute builds a fresh container from the case, seeds goalign's random stream and runs the
// operation once
func execute(c opCase) (r result) { return executeOn(c, nil, nil) }

// executeOn does the same on the given container (nil: a fresh one)
// counts: the caller-owned count map of Rarefy (nil: a fresh one): a history reuses the same map
// from call to call, as `goalign sample rarefy -r N` does
func executeOn(c opCase, x align.SeqBag, counts map[string]int) (r result) {
	c = c.expand()
	if x == nil {
		x = buildFor(c)
	}
	if counts == nil {
		counts = countsMap(c)
	}
	r.Length = -9
	errs := func(e error) {
		if e != nil {
			r.Err = e.Error()
		}
	}
	ret := func(al align.Alignment, e error) {
		errs(e)
		if al == nil || isNilAlign(al) {
			r.Nil = true
			return
		}
		r.Rows = gen.Snapshot(al)
		r.Length = al.Length()
		if len(r.Rows) == 0 {
			return
		}
		// the new object is extended: its rows must behave like rows of their own
		cp := align.NewAlign(al.Alphabet())
		for _, row := range r.Rows {
			cp.AddSequence(row.Name, row.Seq, "")
		}
		if e := al.Concat(cp); e != nil {
			r.ExtErr = "Concat: " + e.Error()
			return
		}
		more := align.NewAlign(al.Alphabet())
		more.AddSequence("zz_new_row", strings.Repeat("A", al.Length()), "")
		if e := al.Append(more); e != nil {
			r.ExtErr = "Append: " + e.Error()
			return
		}
		r.Ext = gen.Snapshot(al)
	}
	if strings.HasSuffix(c.Op, "-bag") {
		sb := x
		rand.Seed(c.Seed)
		switch c.Op {
		case "shuffle-seqs-bag":
			sb.ShuffleSequences()
			r.Rows = gen.Snapshot(sb)
		case "sample-bag":
			s, e := sb.SampleSeqBag(c.N)
			errs(e)
			if s == nil || isNilBag(s) {
				r.Nil = true
			} else {
				r.Rows = gen.Snapshot(s)
			}
		case "rarefy-bag":
			s, e := sb.RarefySeqBag(c.N, counts)
			errs(e)
			if s == nil || isNilBag(s) {
				r.Nil = true
			} else {
				r.Rows = gen.Snapshot(s)
			}
		}
		return
	}
	al := x.(align.Alignment)
	rand.Seed(c.Seed)
	inplace := func() {
		r.Rows = gen.Snapshot(al)
		r.Length = al.Length()
	}
	switch c.Op {
	case "shuffle-seqs":
		al.ShuffleSequences()
		inplace()
	case "shuffle-sites":
		r.Names1 = al.ShuffleSites(c.A, c.B, c.Flag)
		inplace()
	case "swap":
		errs(al.Swap(c.A, c.B))
		inplace()
	case "recombine":
		errs(al.Recombine(c.A, c.B, c.Flag))
		inplace()
	case "rogue":
		r.Names1, r.Names2 = al.SimulateRogue(c.A, c.B)
		inplace()
	case "mutate":
		al.Mutate(c.A)
		inplace()
	case "addgaps":
		al.AddGaps(c.A, c.B)
		inplace()
	case "bootstrap":
		ret(al.BuildBootstrap(c.A), nil)
	case "sample":
		ret(al.Sample(c.N))
	case "subalign":
		ret(al.RandSubAlign(c.N, c.Flag))
	case "rarefy":
		ret(al.Rarefy(c.N, counts))
	case "partboot":
		// the partitioned bootstrap as `build seqboot --partition` builds it
		parts, e := al.Split(partitionSet(c.Flag, c.N, al.Length()))
		if e != nil {
			errs(e)
			r.Nil = true
			return
		}
		var boot align.Alignment
		for _, p := range parts {
			tb := p.BuildBootstrap(c.A)
			if boot == nil {
				boot = tb
			} else if e := boot.Concat(tb); e != nil {
				errs(e)
			}
		}
		ret(boot, nil)
	default:
		panic("harness: unknown operation " + c.Op)
	}
	return
}

func isNilAlign(a align.Alignment) (isnil bool) {
	defer func() {
		if recover() != nil {
			isnil = true
		}
	}()
	a.NbSequences()
	return false
}

func isNilBag(a align.SeqBag) (isnil bool) {
	defer func() {
		if recover() != nil {
			isnil = true
		}
	}()
	a.NbSequences()
	return false
}

func seedClass(s int64) string {
	switch {
	case s == 0:
		return "seed=0"
	case s == math.MinInt64 || s == math.MaxInt64:
		return "seed=int64 border"
	case s < -(1 << 32):
		return "seed<-2^32"
	case s < 0:
		return "seed negative"
	case s >= 1<<32:
		return "seed>=2^32"
	}
	return "seed positive"
}

func rateClass(x, max float64) string {
	switch {
	case x < 0 || x > max:
		return "outside"
	case x == 0:
		return "0"
	case x == max:
		return "max"
	case x <= 2*eps:
		return "eps"
	case x >= max-2*eps:
		return "max-eps"
	}
	return "interior"
}

func countClass(x, n int) string {
	switch {
	case x < 1:
		return "<1"
	case x == 1 && n != 1:
		return "1"
	case x == n:
		return "n"
	case x > n:
		return ">n"
	case x == n-1:
		return "n-1"
	}
	return "interior"
}

// ---- the check -------------------------------------------------------------------------------------

func checkOp(c opCase) (o pbt.Outcome, err error) {
	c = c.expand()
	orig := c.Ali.Rows
	x := buildFor(c)
	// the arguments the caller owns (the count map of Rarefy) are created once for the whole history
	// and must come back unchanged from every call
	args := countsMap(c)
	argsUnchanged := func(when string) error {
		want := countsMap(c)
		if !reflect.DeepEqual(args, want) {
			return fmt.Errorf("%s modified the count map given by the caller (%s): %v -> %v", c.Op, when, trunc(fmt.Sprint(want), 600), trunc(fmt.Sprint(args), 600))
		}
		return nil
	}
	r1 := executeOn(c, x, args)
	if err = argsUnchanged("first call"); err != nil {
		return
	}
	r2 := execute(c)
	var j1, j2 []byte
	if !reflect.DeepEqual(r1, r2) || c.Big == nil {
		j1, _ = json.Marshal(r1)
		j2, _ = json.Marshal(r2)
	}
	if string(j1) != string(j2) {
		return o, fmt.Errorf("replay: the same operation on the same input after rand.Seed(%d) gave two different results\n first : %s\n second: %s", c.Seed, trunc(string(j1), 1500), trunc(string(j2), 1500))
	}
	if pureOps[c.Op] {
		// the operation does not modify its receiver: Seed(s); op(x) again on the SAME object, then
		// after another draw from it in between
		again := func(what string) error {
			r := executeOn(c, x, args)
			if e := argsUnchanged(what); e != nil {
				return e
			}
			if !reflect.DeepEqual(r1, r) {
				a, _ := json.Marshal(r1)
				b, _ := json.Marshal(r)
				return fmt.Errorf("replay: rand.Seed(%d) and the same operation %s on the SAME object gave a different result\n first: %s\n then : %s", c.Seed, what, trunc(string(a), 1500), trunc(string(b), 1500))
			}
			return nil
		}
		if err = again("a second time"); err != nil {
			return
		}
		other := c
		other.Seed = c.Seed ^ 0x5DEECE66D
		executeOn(other, x, args)
		if err = argsUnchanged("call with another seed"); err != nil {
			return
		}
		if err = again("after a call with another seed in between"); err != nil {
			return
		}
		o.Class("replayed on the same object")
	}
	// a returned alignment that is extended afterwards behaves like a list of rows of its own
	if r1.ExtErr != "" {
		return o, fmt.Errorf("extending the returned alignment failed: %s", r1.ExtErr)
	}
	if r1.Ext != nil {
		want := make([]gen.Row, 0, len(r1.Rows)+1)
		for _, row := range r1.Rows {
			want = append(want, gen.Row{Name: row.Name, Seq: row.Seq + row.Seq})
		}
		want = append(want, gen.Row{Name: "zz_new_row", Seq: strings.Repeat("A", 2*aliLen(r1.Rows))})
		if !gen.SameRows(r1.Ext, want) {
			return o, fmt.Errorf("the returned alignment, after Concat with a copy of itself and Append of one row, is not its rows doubled plus the new row\n returned: %s\n extended: %s", show(r1.Rows), show(r1.Ext))
		}
		o.Class("result extended (Concat+Append)")
	}
	n, l := len(orig), c.Ali.Length()
	got := r1.Rows
	changed := false
	drew := false
	// in-place operations must leave an alignment of the same length
	inplace := func() error {
		if r1.Length != l {
			return fmt.Errorf("Length() changed: %d -> %d", l, r1.Length)
		}
		changed = !gen.SameRows(orig, got)
		return nil
	}
	wantErr := func(want bool, what string) error {
		if want && r1.Err == "" {
			return fmt.Errorf("%s: an error is documented, none returned (result %s)", what, j1)
		}
		if !want && r1.Err != "" {
			return fmt.Errorf("%s: unexpected error %q", what, r1.Err)
		}
		return nil
	}
	o.Class("op=%s", c.Op)
	o.Class(seedClass(c.Seed))
	o.Class("mode=%s", c.Mode)
	switch c.Op {
	case "shuffle-seqs", "shuffle-seqs-bag":
		if err = invShuffleSeqs(orig, got); err != nil {
			return
		}
		if c.Op == "shuffle-seqs" && r1.Length != l {
			return o, fmt.Errorf("Length() changed: %d -> %d", l, r1.Length)
		}
		changed = !gen.SameRows(orig, got)
		drew = n >= 2
	case "shuffle-sites":
		if err = inplace(); err != nil {
			return
		}
		var amb int
		amb, err = invShuffleSites(orig, got, r1.Names1, c.A, c.B)
		o.Ambiguous += amb
		if err != nil {
			return
		}
		o.Class("shuffle-sites rate=%s", rateClass(c.A, 1))
		o.Class("shuffle-sites roguerate=%s", rateClass(c.B, 1))
		if len(r1.Names1) > 0 && r1.Names1[0] != "" {
			o.Class("shuffle-sites: rogue names reported")
		}
	case "swap":
		if err = inplace(); err != nil {
			return
		}
		out := c.A < 0 || c.A > 1
		if err = wantErr(out, "Swap with rate outside [0,1]"); err != nil {
			return
		}
		if out {
			if changed {
				return o, fmt.Errorf("Swap returned an error and changed the alignment")
			}
		} else if err = invSwap(orig, got, c.A, c.B); err != nil {
			return
		}
		pc := "random"
		if c.B >= 0 && c.B <= 1 {
			pc = rateClass(c.B, 1)
		}
		o.Class("swap rate=%s", rateClass(c.A, 1))
		o.Class("swap pos=%s", pc)
	case "recombine":
		if err = inplace(); err != nil {
			return
		}
		out := c.A < 0 || c.A > 0.5 || c.B < 0 || c.B > 1
		if err = wantErr(out, "Recombine with a proportion outside its range"); err != nil {
			return
		}
		if out {
			if changed {
				return o, fmt.Errorf("Recombine returned an error and changed the alignment")
			}
		} else if err = invRecombine(orig, got, c.A, c.B, c.Flag); err != nil {
			return
		}
		o.Class("recombine prop=%s swap=%v", rateClass(c.A, 0.5), c.Flag)
		o.Class("recombine lenprop=%s", rateClass(c.B, 1))
	case "rogue":
		if err = inplace(); err != nil {
			return
		}
		var amb int
		amb, err = invRogue(orig, got, r1.Names1, r1.Names2, true, c.A, c.B)
		o.Ambiguous += amb
		if err != nil {
			return
		}
		o.Class("rogue prop=%s", rateClass(c.A, 1))
		o.Class("rogue proplen=%s", rateClass(c.B, 1))
	case "mutate":
		if err = inplace(); err != nil {
			return
		}
		if err = invMutate(orig, got, c.A, c.Ali.Alphabet); err != nil {
			return
		}
		o.Class("mutate rate=%s %s", rateClass(c.A, 1), c.Ali.Alphabet)
		drew = c.A > 0
	case "addgaps":
		if err = inplace(); err != nil {
			return
		}
		var amb int
		amb, err = invAddGaps(orig, got, c.A, c.B, false)
		o.Ambiguous += amb
		if err != nil {
			return
		}
		o.Class("addgaps first=%s", rateClass(c.A, 1))
		o.Class("addgaps second=%s", rateClass(c.B, 1))
	case "bootstrap":
		if r1.Nil {
			return o, fmt.Errorf("BuildBootstrap returned nil")
		}
		var amb int
		amb, err = invBootstrap(orig, got, c.A)
		o.Ambiguous += amb
		if err != nil {
			return
		}
		if n > 0 && r1.Length != aliLen(got) {
			return o, fmt.Errorf("Length() of the bootstrap = %d, rows have %d residues", r1.Length, aliLen(got))
		}
		drew = aliLen(got) > 0
		changed = !gen.SameRows(orig, got)
		o.Class("bootstrap frac=%s", rateClass(c.A, 1))
	case "partboot":
		if r1.Nil || r1.Err != "" {
			return o, fmt.Errorf("partitioned bootstrap failed: %s", r1.Err)
		}
		part, k := partitionOf(c.Flag, c.N, l)
		var amb int
		amb, err = invPartBoot(orig, got, c.A, part, k)
		o.Ambiguous += amb
		if err != nil {
			return
		}
		drew = aliLen(got) > 0
		changed = !gen.SameRows(orig, got)
		o.Class("partboot frac=%s parts=%d modulo=%v", rateClass(c.A, 1), k, c.Flag)
	case "sample", "sample-bag":
		out := c.N < 1 || c.N > n
		if err = wantErr(out, "Sample with nb < 1 or nb > number of sequences"); err != nil {
			return
		}
		if out {
			if !r1.Nil {
				return o, fmt.Errorf("Sample(%d) on %d rows returned an error and a non nil result", c.N, n)
			}
		} else {
			if r1.Nil {
				return o, fmt.Errorf("Sample(%d) on %d rows returned nil", c.N, n)
			}
			if err = invSample(orig, got, c.N); err != nil {
				return
			}
			if c.Op == "sample" && r1.Length != l {
				return o, fmt.Errorf("Length() of the sample = %d, source %d", r1.Length, l)
			}
			drew = true
			changed = !gen.SameRows(orig, got)
		}
		o.Class("%s nb=%s", c.Op, countClass(c.N, n))
		if c.Mode == "large" && c.N >= 1 && 16*c.N <= n {
			o.Class("large %s with nb <= N/16", c.Op)
		}
	case "subalign":
		out := c.N < 1 || c.N > l
		if err = wantErr(out, "RandSubAlign with a length < 1 or > alignment length"); err != nil {
			return
		}
		if !out {
			if r1.Nil {
				return o, fmt.Errorf("RandSubAlign(%d) returned nil", c.N)
			}
			if err = invSubAlign(orig, got, c.N, c.Flag); err != nil {
				return
			}
			if r1.Length != c.N {
				return o, fmt.Errorf("Length() of the sub-alignment = %d, requested %d", r1.Length, c.N)
			}
			drew = true
			changed = !gen.SameRows(orig, got)
		}
		o.Class("subalign length=%s consecutive=%v", countClass(c.N, l), c.Flag)
		if c.Mode == "large" {
			o.Class("large subalign consecutive=%v", c.Flag)
		}
	case "rarefy", "rarefy-bag":
		counts := countsMap(c)
		total := 0
		unknown := false
		for k, v := range counts {
			total += v
			if k == "nosuch" {
				unknown = true
			}
		}
		out := c.N >= total || unknown
		if err = wantErr(out, "Rarefy with nb >= sum of counts or a count for an unknown sequence"); err != nil {
			return
		}
		if !out {
			if r1.Nil {
				return o, fmt.Errorf("Rarefy(%d) returned nil", c.N)
			}
			if err = invRarefy(orig, got, c.N, counts); err != nil {
				return
			}
			drew = c.N >= 1
			changed = !gen.SameRows(orig, got)
		}
		switch {
		case unknown:
			o.Class("rarefy unknown name")
		case c.N == 0:
			o.Class("rarefy nb=0")
		case c.N == total-1:
			o.Class("rarefy nb=total-1")
		case c.N >= total:
			o.Class("rarefy nb>=total")
		default:
			o.Class("rarefy interior")
		}
	}
	if changed {
		o.Class("changed")
	}
	o.NonTrivial = (changed || drew) && n >= 2 && (l >= 2 || c.Mode == "bag" || c.Mode == "large")
	return o, nil
}

func TestInvariants(t *testing.T) { pbt.Run(t, genOpCase, checkOp) }
