// C16 - Phasing gives one correctly framed result per sequence for any thread count
package c16

import (
	"fmt"
	"io"
	"log"
	"os"
	"sort"
	"strings"
	"testing"
	"time"

	"github.com/evolbioinfo/goalign/align"
	"pgregory.net/rapid"
	"verif/internal/cli"
	"verif/internal/gen"
	"verif/internal/pbt"
)

func TestMain(m *testing.M) {
	log.SetOutput(io.Discard)
	pbt.Main(m, "C16")
}

// ---- reference model: translation of plain ACGT codons (NCBI tables 1, 2, 5, compact form) -------

const (
	ncbiBase1 = "TTTTTTTTTTTTTTTTCCCCCCCCCCCCCCCCAAAAAAAAAAAAAAAAGGGGGGGGGGGGGGGG"
	ncbiBase2 = "TTTTCCCCAAAAGGGGTTTTCCCCAAAAGGGGTTTTCCCCAAAAGGGGTTTTCCCCAAAAGGGG"
	ncbiBase3 = "TCAGTCAGTCAGTCAGTCAGTCAGTCAGTCAGTCAGTCAGTCAGTCAGTCAGTCAGTCAGTCAG"
)

var ncbiAAs = map[string]string{
	"standard": "FFLLSSSSYY**CC*WLLLLPPPPHHQQRRRRIIIMTTTTNNKKSSRRVVVVAAAADDEEGGGG",
	"mitov":    "FFLLSSSSYY**CCWWLLLLPPPPHHQQRRRRIIMMTTTTNNKKSS**VVVVAAAADDEEGGGG",
	"mitoi":    "FFLLSSSSYY**CCWWLLLLPPPPHHQQRRRRIIMMTTTTNNKKSSSSVVVVAAAADDEEGGGG",
}

var codeNames = []string{"standard", "mitov", "mitoi"}

func codeID(name string) int {
	switch name {
	case "standard":
		return align.GENETIC_CODE_STANDARD
	case "mitov":
		return align.GENETIC_CODE_VETEBRATE_MITO
	case "mitoi":
		return align.GENETIC_CODE_INVETEBRATE_MITO
	}
	panic("harness: unknown code " + name)
}

var tables = func() map[string]map[string]byte {
	m := map[string]map[string]byte{}
	for name, aas := range ncbiAAs {
		t := map[string]byte{}
		for i := 0; i < 64; i++ {
			t[string([]byte{ncbiBase1[i], ncbiBase2[i], ncbiBase3[i]})] = aas[i]
		}
		m[name] = t
	}
	return m
}()

// tr translates the complete codons of an ACGT string from its first base
func tr(s, code string) string {
	t := tables[code]
	b := make([]byte, 0, len(s)/3)
	for i := 0; i+3 <= len(s); i += 3 {
		aa, ok := t[s[i:i+3]]
		if !ok {
			aa = 'X'
		}
		b = append(b, aa)
	}
	return string(b)
}

func revcomp(s string) string {
	b := make([]byte, len(s))
	for i := 0; i < len(s); i++ {
		var c byte
		switch s[i] {
		case 'A':
			c = 'T'
		case 'T':
			c = 'A'
		case 'C':
			c = 'G'
		case 'G':
			c = 'C'
		default:
			panic("harness: not ACGT")
		}
		b[len(s)-1-i] = c
	}
	return string(b)
}

// fold: upper case, U->T (the form on which reading frames and alignments are defined)
func fold(s string) string {
	return strings.ReplaceAll(strings.ToUpper(s), "U", "T")
}

func foldAll(ss []string) []string {
	out := make([]string, len(ss))
	for i, s := range ss {
		out[i] = fold(s)
	}
	return out
}

// revcompKeepCase: reverse complement with the case kept and DNA letters written (U->A, A->T): the
// convention of goalign's complement table; only used to tell "exactly the original residues"
// from "the same residues up to case / U" on the reverse strand
func revcompKeepCase(s string) string {
	m := map[byte]byte{'A': 'T', 'T': 'A', 'U': 'A', 'C': 'G', 'G': 'C', 'a': 't', 't': 'a', 'u': 'a', 'c': 'g', 'g': 'c'}
	b := make([]byte, len(s))
	for i := 0; i < len(s); i++ {
		c, ok := m[s[i]]
		if !ok {
			panic("harness: not a nucleotide")
		}
		b[len(s)-1-i] = c
	}
	return string(b)
}

var styles = []string{"dna-upper", "dna-upper", "rna-upper", "dna-lower", "rna-lower", "mixed"}

// restyle rewrites an upper-case DNA string as RNA, lower case or a soft-masked mixture
func restyle(t *rapid.T, s, style string) string {
	switch style {
	case "rna-upper":
		return strings.ReplaceAll(s, "T", "U")
	case "dna-lower":
		return strings.ToLower(s)
	case "rna-lower":
		return strings.ToLower(strings.ReplaceAll(s, "T", "U"))
	case "mixed":
		var sb strings.Builder
		for i := 0; i < len(s); {
			n := rapid.IntRange(1, 12).Draw(t, "seg")
			if i+n > len(s) {
				n = len(s) - i
			}
			seg := s[i : i+n]
			k := rapid.IntRange(0, 3).Draw(t, "segstyle")
			if k&1 == 1 {
				seg = strings.ReplaceAll(seg, "T", "U")
			}
			if k&2 == 2 {
				seg = strings.ToLower(seg)
			}
			sb.WriteString(seg)
			i += n
		}
		return sb.String()
	}
	return s
}

func isStop(c string) bool { return c == "TAA" || c == "TAG" || c == "TGA" }

// occurrences counts the (possibly overlapping) occurrences of r in s and returns the first
func occurrences(s, r string) (n, first int) {
	first = -1
	for i := 0; i+len(r) <= len(s); i++ {
		if s[i:i+len(r)] == r {
			if n == 0 {
				first = i
			}
			n++
		}
	}
	return
}

// orfAt: length of the ATG-to-first-in-frame-stop reading frame starting at i, 0 if none
func orfAt(s string, i int) int {
	if i+3 > len(s) || s[i:i+3] != "ATG" {
		return 0
	}
	for j := i + 3; j+3 <= len(s); j += 3 {
		if isStop(s[j : j+3]) {
			return j + 3 - i
		}
	}
	return 0
}

// naiveLongest scans every ATG of every strand allowed; returns the maximal length and the
// distinct ORF strings of that length; works on the case-folded, U->T form of the sequences
func naiveLongest(seqs []string, reverse bool) (max int, orfs map[string]bool) {
	orfs = map[string]bool{}
	for _, s := range foldAll(seqs) {
		strands := []string{s}
		if reverse {
			strands = append(strands, revcomp(s))
		}
		for _, st := range strands {
			for i := 0; i+3 <= len(st); i++ {
				if l := orfAt(st, i); l > 0 {
					if l > max {
						max = l
						orfs = map[string]bool{}
					}
					if l == max {
						orfs[st[i:i+l]] = true
					}
				}
			}
		}
	}
	return
}

// validORF: the string is itself ATG ... first in-frame stop
func validORF(o string) bool { return len(o) >= 6 && orfAt(o, 0) == len(o) }

// ---- generators -----------------------------------------------------------------------------------

var senseCodons = func() []string {
	var out []string
	for _, a := range "ACGT" {
		for _, b := range "ACGT" {
			for _, c := range "ACGT" {
				cod := string([]rune{a, b, c})
				if !isStop(cod) {
					out = append(out, cod)
				}
			}
		}
	}
	return out
}()

// codons whose amino acid is not also a nucleotide code letter (L, F, P, Q, E, I in the three
// codes): with one of them the translated ORF is recognised as a protein by the aligner
var aaOnlyCodons = []string{"CTG", "CTC", "TTC", "TTT", "CCA", "CCG", "CAA", "CAG", "GAA", "GAG", "ATT", "ATC"}

func genORF(t *rapid.T, forceProtein bool) string {
	k := rapid.IntRange(8, 14).Draw(t, "k")
	if rapid.IntRange(0, 3).Draw(t, "long") == 0 {
		k = rapid.IntRange(8, 40).Draw(t, "k2")
	}
	var sb strings.Builder
	sb.WriteString("ATG")
	for i := 0; i < k; i++ {
		if i == 0 && (rapid.IntRange(0, 9).Draw(t, "aaonly") != 0 || forceProtein) {
			sb.WriteString(rapid.SampledFrom(aaOnlyCodons).Draw(t, "c2"))
			continue
		}
		sb.WriteString(rapid.SampledFrom(senseCodons).Draw(t, "c"))
	}
	sb.WriteString(rapid.SampledFrom([]string{"TAA", "TAG", "TGA"}).Draw(t, "stop"))
	return sb.String()
}

// embed: flank + mutated copy of the ORF (first two codons intact) + flank
func embed(t *rapid.T, orf string, reverse bool) string {
	cp := []byte(orf)
	switch rapid.IntRange(0, 5).Draw(t, "rate") {
	case 0, 1, 2: // verbatim
	default:
		pct := rapid.IntRange(1, 10).Draw(t, "pct")
		m := (len(cp)*pct + 99) / 100
		for i := 0; i < m; i++ {
			p := rapid.IntRange(6, len(cp)-1).Draw(t, "mp")
			cp[p] = "ACGT"[rapid.IntRange(0, 3).Draw(t, "mb")]
		}
		if rapid.IntRange(0, 7).Draw(t, "indel") == 0 {
			p := rapid.IntRange(6, len(cp)-1).Draw(t, "ip")
			if rapid.Bool().Draw(t, "ins") {
				cp = append(cp[:p], append([]byte{"ACGT"[rapid.IntRange(0, 3).Draw(t, "ib")]}, cp[p:]...)...)
			} else {
				cp = append(cp[:p], cp[p+1:]...)
			}
		}
	}
	f5 := gen.SeqN(t, "ACGT", rapid.IntRange(0, 30).Draw(t, "f5"))
	f3 := gen.SeqN(t, "ACGT", rapid.IntRange(0, 30).Draw(t, "f3"))
	s := f5 + string(cp) + f3
	if reverse && rapid.IntRange(0, 2).Draw(t, "rc") == 0 {
		s = revcomp(s)
	}
	return s
}

type phaseCase struct {
	Seqs      []gen.Row `json:"seqs"`
	Orfs      []gen.Row `json:"orfs"` // empty: no reference supplied
	Translate bool      `json:"translate"`
	Reverse   bool      `json:"reverse"`
	CutEnd    bool      `json:"cutend"`
	Code      string    `json:"code"`
	Workers   []int     `json:"workers"`
	ErrCase   bool      `json:"errcase"` // one sequence is too short to be translated in every frame
	Style     string    `json:"style"`   // how the upper-case DNA was rewritten (RNA, lower case, mixed)
	Hist      *history  `json:"hist,omitempty"` // the bag was searched / phased once, then edited in place into Seqs
}

// histRun: what runPhase needs to replay a history (the case as drawn, the derived states)
type histRun struct {
	orig phaseCase
	st   [][]string
}

var workerCounts = []int{1, 2, 3, 8, 16, 32}

func genPhase(noErr bool) func(t *rapid.T) phaseCase {
	return func(t *rapid.T) phaseCase {
		var c phaseCase
		c.Translate = rapid.Bool().Draw(t, "translate")
		c.Reverse = rapid.Bool().Draw(t, "reverse")
		c.CutEnd = rapid.Bool().Draw(t, "cutend")
		c.Code = rapid.SampledFrom(codeNames).Draw(t, "code")
		norf := 1
		if rapid.IntRange(0, 4).Draw(t, "multi") == 0 {
			norf = rapid.IntRange(2, 3).Draw(t, "norf")
		}
		orfs := make([]string, norf)
		for i := range orfs {
			orfs[i] = genORF(t, noErr)
		}
		if rapid.IntRange(0, 2).Draw(t, "explicit") != 0 {
			for i, o := range orfs {
				c.Orfs = append(c.Orfs, gen.Row{Name: fmt.Sprintf("orf%d", i), Seq: o})
			}
		}
		n := rapid.IntRange(1, 8).Draw(t, "n")
		if rapid.IntRange(0, 2).Draw(t, "many") == 0 {
			n = rapid.IntRange(4, 24).Draw(t, "n2")
		}
		for i := 0; i < n; i++ {
			o := orfs[rapid.IntRange(0, norf-1).Draw(t, "which")]
			c.Seqs = append(c.Seqs, gen.Row{Name: fmt.Sprintf("s%d", i), Seq: embed(t, o, c.Reverse)})
		}
		if noErr && c.Translate && len(c.Orfs) == 0 {
			// error-free by construction: if a longest reading frame of the set translates to
			// letters that are all nucleotide codes too, the aligner may reject '*': give the
			// references explicitly then
			var plain []string
			for _, r := range c.Seqs {
				plain = append(plain, r.Seq)
			}
			_, set := naiveLongest(plain, c.Reverse)
			prot := len(set) > 0
			for o := range set {
				for _, code := range codeNames {
					prot = prot && looksProtein(tr(o, code))
				}
			}
			if !prot {
				for i, o := range orfs {
					c.Orfs = append(c.Orfs, gen.Row{Name: fmt.Sprintf("orf%d", i), Seq: o})
				}
			}
		}
		if !noErr && c.Translate && rapid.IntRange(0, 7).Draw(t, "err") == 0 {
			c.ErrCase = true
			at := rapid.IntRange(0, n-1).Draw(t, "errat")
			c.Seqs[at].Seq = gen.SeqN(t, "ACGT", rapid.IntRange(1, 4).Draw(t, "shortlen"))
		}
		c.Style = rapid.SampledFrom(styles).Draw(t, "style")
		for i := range c.Seqs {
			c.Seqs[i].Seq = restyle(t, c.Seqs[i].Seq, c.Style)
		}
		if len(c.Orfs) > 0 && c.Style != "dna-upper" {
			os := rapid.SampledFrom(styles).Draw(t, "orfstyle")
			for i := range c.Orfs {
				c.Orfs[i].Seq = restyle(t, c.Orfs[i].Seq, os)
			}
		}
		w := rapid.SampledFrom(workerCounts[1:]).Draw(t, "w")
		w2 := rapid.SampledFrom(workerCounts).Draw(t, "w2")
		c.Workers = []int{1, w}
		if w2 != 1 && w2 != w {
			c.Workers = append(c.Workers, w2)
		}
		if rapid.IntRange(0, 2).Draw(t, "history") == 0 {
			c.Hist = genHistory(t, c.Seqs)
		}
		return c
	}
}

// ---- prior use, then in-place edits ----------------------------------------------------------------
//
// The statement quantifies over the sequences AS THEY ARE when the search / Phase is called: a bag
// that was searched (or phased) once and then edited in place by the library's own mutators must
// give the answers of a fresh bag with the same content. A history is drawn as a list of edits
// whose END state is the case's sequences: the state before each edit is derived backwards
// (inverse of the edit), the bag is built in the first state, used once, edited forwards, and the
// operation is then judged by the same oracle on the content the bag holds after the edits.

type edit struct {
	Kind string `json:"kind"` // rc-all | rc-some | seq-rc | setchar | write | replace
	Rows []int  `json:"rows,omitempty"`
	Row  int    `json:"row,omitempty"`
	At   int    `json:"at,omitempty"`   // start of the rewritten range, modulo the room there is
	Junk string `json:"junk,omitempty"` // what the range held before the edit
	Old  string `json:"old,omitempty"`  // replace: Old -> New
	New  string `json:"new,omitempty"`
}

type history struct {
	Search       string `json:"search"` // first use: "orf" (LongestORF) or "phase" (a whole Phase where that is safe)
	PriorReverse bool   `json:"priorreverse"`
	Edits        []edit `json:"edits"`
}

var editKinds = []string{"rc-all", "rc-all", "rc-some", "seq-rc", "setchar", "write", "replace"}

func genHistory(t *rapid.T, rows []gen.Row) *history {
	h := &history{Search: rapid.SampledFrom([]string{"orf", "phase"}).Draw(t, "prior"), PriorReverse: rapid.Bool().Draw(t, "priorrev")}
	n := rapid.IntRange(1, 3).Draw(t, "nedits")
	for i := 0; i < n; i++ {
		e := edit{Kind: rapid.SampledFrom(editKinds).Draw(t, "editkind")}
		switch e.Kind {
		case "rc-some", "seq-rc":
			for r := range rows {
				if rapid.Bool().Draw(t, "editrow") {
					e.Rows = append(e.Rows, r)
				}
			}
			if len(e.Rows) == 0 {
				e.Rows = []int{rapid.IntRange(0, len(rows)-1).Draw(t, "editrow1")}
			}
		case "setchar", "write":
			e.Row = rapid.IntRange(0, len(rows)-1).Draw(t, "editrow1")
			e.At = rapid.IntRange(0, 999).Draw(t, "editat")
			e.Junk = gen.SeqN(t, "ACGT", rapid.IntRange(1, 12).Draw(t, "junklen"))
		case "replace":
			// New = a piece of the end state (often a start or a stop codon), Old = a drawn word
			src := rows[rapid.IntRange(0, len(rows)-1).Draw(t, "editrow1")].Seq
			l := rapid.IntRange(1, 6).Draw(t, "newlen")
			if l > len(src) {
				l = len(src)
			}
			a := rapid.IntRange(0, len(src)-l).Draw(t, "newat")
			e.New = src[a : a+l]
			e.Old = gen.SeqN(t, "ACGT", rapid.IntRange(5, 8).Draw(t, "oldlen"))
		}
		h.Edits = append(h.Edits, e)
	}
	return h
}

func editRange(e edit, l int) (a, b int) {
	n := len(e.Junk)
	if n > l {
		n = l
	}
	a = e.At % (l - n + 1)
	return a, a + n
}

// states derives the content before every edit: states[len(edits)] = the end state (the case's
// sequences), states[j] = content before edit j
func (h *history) states(final []gen.Row) [][]string {
	st := make([][]string, len(h.Edits)+1)
	cur := make([]string, len(final))
	for i, r := range final {
		cur[i] = r.Seq
	}
	st[len(h.Edits)] = cur
	for j := len(h.Edits) - 1; j >= 0; j-- {
		e := h.Edits[j]
		prev := append([]string(nil), st[j+1]...)
		switch e.Kind {
		case "rc-all":
			for i := range prev {
				prev[i] = revcompKeepCase(prev[i])
			}
		case "rc-some", "seq-rc":
			for _, i := range e.Rows {
				if i < len(prev) {
					prev[i] = revcompKeepCase(prev[i])
				}
			}
		case "setchar", "write":
			if e.Row < len(prev) && len(prev[e.Row]) > 0 {
				a, b := editRange(e, len(prev[e.Row]))
				prev[e.Row] = prev[e.Row][:a] + e.Junk[:b-a] + prev[e.Row][b:]
			}
		case "replace":
			if e.New != "" && e.Old != "" {
				for i := range prev {
					prev[i] = strings.ReplaceAll(prev[i], e.New, e.Old)
				}
			}
		}
		st[j] = prev
	}
	return st
}

func rowsOf(names []gen.Row, seqs []string) []gen.Row {
	out := make([]gen.Row, len(names))
	for i := range names {
		out[i] = gen.Row{Name: names[i].Name, Seq: seqs[i]}
	}
	return out
}

// apply performs the edits on the bag, in place, with the library's mutators
func (h *history) apply(sb align.SeqBag, st [][]string) error {
	for j, e := range h.Edits {
		target := st[j+1]
		switch e.Kind {
		case "rc-all":
			if err := sb.ReverseComplement(); err != nil {
				return err
			}
		case "rc-some":
			var names []string
			for _, i := range e.Rows {
				if n, ok := sb.GetSequenceNameById(i); ok {
					names = append(names, n)
				}
			}
			if err := sb.ReverseComplementSequences(names...); err != nil {
				return err
			}
		case "seq-rc":
			for _, i := range e.Rows {
				if s, ok := sb.Sequence(i); ok {
					s.Reverse()
					if err := s.Complement(); err != nil {
						return err
					}
				}
			}
		case "setchar":
			if e.Row < len(target) && len(target[e.Row]) > 0 {
				a, b := editRange(e, len(target[e.Row]))
				for p := a; p < b; p++ {
					if err := sb.SetSequenceChar(e.Row, p, target[e.Row][p]); err != nil {
						return err
					}
				}
			}
		case "write":
			if s, ok := sb.Sequence(e.Row); ok && len(target[e.Row]) > 0 {
				a, b := editRange(e, len(target[e.Row]))
				if b > len(s.SequenceChar()) {
					return fmt.Errorf("harness: range outside the sequence")
				}
				copy(s.SequenceChar()[a:b], target[e.Row][a:b])
			}
		case "replace":
			if e.New != "" && e.Old != "" {
				if err := sb.Replace(e.Old, e.New, false); err != nil {
					return err
				}
			}
		}
	}
	return nil
}

func sameFolded(a, b []gen.Row) bool {
	if len(a) != len(b) {
		return false
	}
	for i := range a {
		if a[i].Name != b[i].Name || fold(a[i].Seq) != fold(b[i].Seq) {
			return false
		}
	}
	return true
}

// ---- running the phaser ---------------------------------------------------------------------------

type result struct {
	Name, CodonName, AaName string
	Err                     string
	Removed                 bool
	Pos                     int
	Nt, Codon, Aa           string
}

func (r result) key() string {
	return fmt.Sprintf("%s|%s|%s|%v|%d|%s|%s|%s|%s", r.Name, r.CodonName, r.AaName, r.Removed, r.Pos, r.Nt, r.Codon, r.Aa, r.Err)
}

// runPhase runs Phase with w workers and drains the channel under a watchdog: a channel that is
// never closed kills the process (exit 7), the driver re-runs the case alone to confirm
//
// Phase returns its named error result while the workers already run, and the workers assign that
// same variable when a sequence fails: in an error case the error may therefore come back from
// Phase itself, together with a live channel. drainOnErr asks to read the channel in that case too.
func runPhase(test string, c phaseCase, w int, drainOnErr bool, hr *histRun) (res []result, setupErr, histErr error, seqsAfter, orfsAfter []gen.Row) {
	seqs := gen.BuildBag(gen.Ali{Rows: c.Seqs, Alphabet: "nt"})
	var guardCase interface{} = c
	if hr != nil {
		seqs = gen.BuildBag(gen.Ali{Rows: rowsOf(c.Seqs, hr.st[0]), Alphabet: "nt"})
		guardCase = hr.orig
	}
	var orfs align.SeqBag
	if len(c.Orfs) > 0 {
		orfs = gen.BuildBag(gen.Ali{Rows: c.Orfs, Alphabet: "nt"})
	}
	ph := align.NewPhaser()
	ph.SetReverse(c.Reverse)
	ph.SetCutEnd(c.CutEnd)
	ph.SetCpus(w)
	if e := ph.SetTranslate(c.Translate, codeID(c.Code)); e != nil {
		return nil, e, nil, nil, nil
	}
	pbt.Guarded(test, guardCase, pbt.WatchdogLimit(20*time.Second), func() {
		var ch chan align.PhasedSequence
		if hr != nil {
			// first use of the bag in its earlier state. A whole Phase only where the earlier state
			// is in the domain by construction (both strands searched, edits = reverse complements:
			// every sequence still holds its ORF copy on one strand); otherwise the ORF search
			h := hr.orig.Hist
			onlyRC := true
			for _, e := range h.Edits {
				onlyRC = onlyRC && strings.Contains(e.Kind, "rc")
			}
			if h.Search == "phase" && c.Reverse && !c.Translate && !c.ErrCase && onlyRC {
				ph0 := align.NewPhaser()
				ph0.SetReverse(c.Reverse)
				ph0.SetCutEnd(c.CutEnd)
				ph0.SetCpus(w)
				ph0.SetTranslate(c.Translate, codeID(c.Code))
				var ch0 chan align.PhasedSequence
				var e0 error
				if orfs == nil {
					ch0, e0 = ph0.Phase(nil, seqs)
				} else {
					ch0, e0 = ph0.Phase(orfs, seqs)
				}
				if e0 == nil {
					for range ch0 {
					}
				}
			} else {
				seqs.LongestORF(h.PriorReverse)
				seqs.LongestORF(c.Reverse)
			}
			if histErr = h.apply(seqs, hr.st); histErr != nil {
				return
			}
			if now := gen.Snapshot(seqs); !gen.SameRows(now, c.Seqs) {
				histErr = fmt.Errorf("the in-place edits after a first use leave other sequences than the same edits on a fresh bag\n now  : %s\n fresh: %s", gen.Show(now), gen.Show(c.Seqs))
				return
			}
		}
		if orfs == nil {
			ch, setupErr = ph.Phase(nil, seqs)
		} else {
			ch, setupErr = ph.Phase(orfs, seqs)
		}
		if setupErr != nil && !(drainOnErr && ch != nil) {
			return
		}
		for p := range ch {
			if p.Err != nil {
				res = append(res, result{Err: p.Err.Error()})
				continue
			}
			res = append(res, result{
				Name: p.NtSeq.Name(), CodonName: p.CodonSeq.Name(), AaName: p.AaSeq.Name(),
				Removed: p.Removed, Pos: p.Position,
				Nt: p.NtSeq.Sequence(), Codon: p.CodonSeq.Sequence(), Aa: p.AaSeq.Sequence(),
			})
		}
	})
	seqsAfter = gen.Snapshot(seqs)
	if orfs != nil {
		orfsAfter = gen.Snapshot(orfs)
	}
	return
}

// looksProtein: the string holds a letter that is an amino acid and not a nucleotide code
func looksProtein(aa string) bool { return strings.ContainsAny(aa, "QEILFPZ") }

// effectiveRefs returns the references (case-folded) the verbatim clause can be applied to: the
// given ones, or the unique naive longest ORF when none is given (nil when that one is not
// determined)
func effectiveRefs(c phaseCase) []string {
	if len(c.Orfs) > 0 {
		var out []string
		for _, r := range c.Orfs {
			out = append(out, fold(r.Seq))
		}
		return out
	}
	var ss []string
	for _, r := range c.Seqs {
		ss = append(ss, r.Seq)
	}
	_, set := naiveLongest(ss, c.Reverse)
	if len(set) == 1 {
		for o := range set {
			return []string{o}
		}
	}
	return nil
}

// BLOSUM62 diagonal (Henikoff & Henikoff 1992; '*' = 1 as in the NCBI / EMBOSS files): the score
// of a residue aligned with itself, which no other pairing of that residue exceeds
var blosum62Self = map[byte]int{'A': 4, 'R': 5, 'N': 6, 'D': 6, 'C': 9, 'Q': 5, 'E': 5, 'G': 6, 'H': 8, 'I': 4,
	'L': 4, 'K': 5, 'M': 5, 'F': 6, 'P': 7, 'S': 4, 'T': 5, 'W': 11, 'Y': 7, 'V': 4, '*': 1}

// selfScore: the score of the reference aligned with a verbatim copy of itself = an upper bound of
// the score of any alignment of that reference (all gap and mismatch scores are lower); for
// nucleotides every match scores the same, so the length is the bound
func selfScore(ref string, translate bool, code string) int {
	if !translate {
		return len(ref)
	}
	n := 0
	for _, a := range []byte(tr(ref, code)) {
		n += blosum62Self[a]
	}
	return n
}

// judgeResult applies the per-sequence relations of the statement
func judgeResult(c phaseCase, input string, refs []string, r result, o *pbt.Outcome) error {
	// relations are judged on the case-folded, U->T form; the residues themselves must be the
	// original ones on the forward strand; on the reverse strand the case / U convention of the
	// complement is not stated: the observed one (case kept, DNA letters) or any other is accepted
	strands := []string{fold(input)}
	exact := []string{input}
	if c.Reverse {
		strands = append(strands, revcomp(fold(input)))
		exact = append(exact, revcompKeepCase(input))
	}
	// trimmed nucleotides = the input (or its reverse complement) from the reported position
	okStrand := -1
	for k, s := range strands {
		if r.Pos < 0 || r.Pos+len(r.Nt) > len(s) || s[r.Pos:r.Pos+len(r.Nt)] != fold(r.Nt) {
			continue
		}
		if !c.CutEnd && r.Pos+len(r.Nt) != len(s) {
			continue
		}
		if exact[k][r.Pos:r.Pos+len(r.Nt)] != r.Nt {
			if k == 0 {
				continue
			}
			o.Ambiguous++
		}
		okStrand = k
		break
	}
	if okStrand < 0 {
		return fmt.Errorf("%s: trimmed nucleotides %q are not the input %q (nor an allowed reverse complement) from position %d%s", r.Name, r.Nt, input, r.Pos,
			map[bool]string{true: " up to a cut", false: " to the end"}[c.CutEnd])
	}
	// the codon sequence is in frame with it and translates to the amino acids
	d := len(r.Nt) - len(r.Codon)
	if d < 0 || d > 2 || !strings.HasSuffix(r.Nt, r.Codon) {
		return fmt.Errorf("%s: codon sequence %q is not the trimmed nucleotides %q minus 0-2 leading bases", r.Name, r.Codon, r.Nt)
	}
	if want := tr(fold(r.Codon), c.Code); want != r.Aa {
		return fmt.Errorf("%s: codon sequence %q translates (%s) to %q, reported amino acids are %q", r.Name, r.Codon, c.Code, want, r.Aa)
	}
	if r.CodonName != r.Name || r.AaName != r.Name {
		return fmt.Errorf("%s: codon / amino-acid sequences are named %q / %q", r.Name, r.CodonName, r.AaName)
	}
	// verbatim clause: exactly one verbatim occurrence of exactly one reference in the strands
	// searched, and no other reference whose best possible score exceeds the score of that copy
	// (with one reference, or none supplied, this is the plain "contains it verbatim once")
	if len(refs) == 0 {
		return nil
	}
	total, where, strand, which := 0, -1, -1, -1
	for ri, ref := range refs {
		for k, s := range strands {
			n, first := occurrences(s, ref)
			total += n
			if n > 0 && where < 0 {
				where, strand, which = first, k, ri
			}
		}
	}
	if total != 1 {
		return nil
	}
	ref := refs[which]
	for ri, other := range refs {
		if ri != which && selfScore(other, c.Translate, c.Code) > selfScore(ref, c.Translate, c.Code) {
			return nil
		}
	}
	if c.Translate {
		for _, other := range refs {
			if !looksProtein(tr(other, c.Code)) {
				// every letter of a translated reference is also a nucleotide code: the aligner
				// may take it for DNA; what "best alignment" means then is not stated
				o.Ambiguous++
				return nil
			}
		}
		n := 0
		for _, other := range refs {
			aref := tr(other, c.Code)
			for _, s := range strands {
				for f := 0; f < 3 && f <= len(s); f++ {
					k, _ := occurrences(tr(s[f:], c.Code), aref)
					n += k
				}
			}
		}
		if n != 1 {
			return nil
		}
	}
	if len(refs) > 1 {
		o.Class("verbatim-once-among-several-references")
	}
	o.Class("verbatim-once")
	if r.Pos != where || okStrand != strand && strands[okStrand][r.Pos:] != strands[strand][where:] {
		return fmt.Errorf("%s contains the reference ORF verbatim once, at offset %d (strand %d), but is trimmed at %d (strand %d)", r.Name, where, strand, r.Pos, okStrand)
	}
	// trimmed exactly at the ORF's first base: the codon sequence in frame with it starts there too
	if d != 0 {
		return fmt.Errorf("%s contains the reference ORF verbatim once and is trimmed at its start, but the codon sequence starts %d base(s) later: not in frame with the ORF", r.Name, d)
	}
	return nil
}

func checkPhase(test string) func(c phaseCase) (pbt.Outcome, error) {
	return func(c phaseCase) (o pbt.Outcome, err error) {
		var hr *histRun
		if c.Hist != nil {
			// the content to be judged = what a fresh bag holds after the same edits; it must be
			// the case's sequences up to case / U-T (the complement convention), so that the case
			// stays inside the generator's domain
			st := c.Hist.states(c.Seqs)
			fresh := gen.BuildBag(gen.Ali{Rows: rowsOf(c.Seqs, st[0]), Alphabet: "nt"})
			if e := c.Hist.apply(fresh, st); e != nil {
				o.Class("history: edit refused")
				o.Ambiguous++
				return o, nil
			}
			content := gen.Snapshot(fresh)
			if !sameFolded(content, c.Seqs) {
				o.Class("history: edits do not lead back to the sequences")
				o.Skip = true
				return o, nil
			}
			hr = &histRun{orig: c, st: st}
			c.Seqs = content
			o.Class("history: used, edited in place, phased")
			for _, e := range c.Hist.Edits {
				o.Class("history edit=%s", e.Kind)
			}
		}
		input := map[string]string{}
		var plain []string
		for _, r := range c.Seqs {
			input[r.Name] = r.Seq
			plain = append(plain, r.Seq)
		}
		ref := effectiveRefs(c)
		noORF := false
		if len(c.Orfs) == 0 {
			if m, _ := naiveLongest(plain, c.Reverse); m == 0 {
				noORF = true
			}
		}
		if len(c.Orfs) == 0 {
			// the reference Phase will look for: settle "is there one" first, so that a wrong
			// answer is reported as such and not as a stream that is never closed
			_, e := gen.BuildBag(gen.Ali{Rows: c.Seqs, Alphabet: "nt"}).LongestORF(c.Reverse)
			if (e != nil) != noORF {
				return o, fmt.Errorf("SeqBag.LongestORF(reverse=%v) reports %v; the naive scan of every ATG says an ORF exists: %v", c.Reverse, e, !noORF)
			}
		}
		var baseline []string
		anyErr := false
		maxw := 0
		misframed := false
		for wi, w := range c.Workers {
			res, setupErr, histErr, sa, oa := runPhase(test, c, w, c.ErrCase && !noORF, hr)
			if histErr != nil {
				return o, fmt.Errorf("history: %v", histErr)
			}
			if !gen.SameRows(sa, c.Seqs) {
				return o, fmt.Errorf("input sequences modified by Phase (%d workers)\n now : %s\n were: %s", w, gen.Show(sa), gen.Show(c.Seqs))
			}
			if len(c.Orfs) > 0 && !gen.SameRows(oa, c.Orfs) {
				return o, fmt.Errorf("reference ORFs modified by Phase (%d workers)", w)
			}
			if setupErr != nil {
				if noORF {
					o.Class("no-orf-in-any-sequence")
					return o, nil
				}
				if c.ErrCase {
					// the error of the short sequence, reported through Phase's own result;
					// the channel was drained and closed
					o.Class("error-case-through-return-value")
					continue
				}
				// Phase refused the input as a whole: nothing of the statement applies
				if os.Getenv("VERIF_DEBUG") != "" {
					fmt.Fprintf(os.Stderr, "DEBUG refused: %v %+v\n", setupErr, c)
				}
				o.Class("refused")
				o.Ambiguous++
				return o, nil
			}
			// the channel was closed (the loop in runPhase ended)
			seen := map[string]bool{}
			nerr := 0
			var keys []string
			for _, r := range res {
				if r.Err != "" {
					nerr++
					continue
				}
				in, known := input[r.Name]
				if !known {
					return o, fmt.Errorf("%d workers: a result is named %q, which is no input sequence", w, r.Name)
				}
				if seen[r.Name] {
					return o, fmt.Errorf("%d workers: two results for sequence %s", w, r.Name)
				}
				seen[r.Name] = true
				if e := judgeResult(c, in, ref, r, &o); e != nil {
					return o, fmt.Errorf("%d workers: %v", w, e)
				}
				if r.Pos%3 != 0 {
					misframed = true
				}
				keys = append(keys, r.key())
			}
			if c.ErrCase && nerr == 0 {
				return o, fmt.Errorf("%d workers: a sequence of fewer than 5 nucleotides cannot be translated in the three frames, but no error is reported", w)
			}
			if nerr > 0 {
				anyErr = true
				if os.Getenv("VERIF_DEBUG") != "" && !c.ErrCase {
					for _, r := range res {
						if r.Err != "" {
							fmt.Fprintf(os.Stderr, "DEBUG unexpected error: %s\n", r.Err)
						}
					}
				}
				continue
			}
			if len(res) != len(c.Seqs) {
				var missing []string
				for _, r := range c.Seqs {
					if !seen[r.Name] {
						missing = append(missing, r.Name)
					}
				}
				return o, fmt.Errorf("%d workers: %d results for %d sequences and no error reported; missing %v", w, len(res), len(c.Seqs), missing)
			}
			sort.Strings(keys)
			if wi == 0 || baseline == nil {
				baseline = keys
			} else if strings.Join(keys, "\n") != strings.Join(baseline, "\n") {
				return o, fmt.Errorf("the set of results differs between %d and %d workers\n %d: %v\n %d: %v", c.Workers[0], w, c.Workers[0], baseline, w, keys)
			}
			if w > maxw {
				maxw = w
			}
			o.Class("workers=%d", w)
		}
		switch {
		case c.ErrCase:
			o.Class("error-case")
		case anyErr:
			o.Class("error-reported-unexpected")
		default:
			o.NonTrivial = (maxw >= 2 && len(c.Seqs) >= 4) || misframed
		}
		mode := "nt"
		if c.Translate {
			mode = "translate"
		}
		o.Class("mode=%s reverse=%v cutend=%v", mode, c.Reverse, c.CutEnd)
		o.Class("code=%s", c.Code)
		o.Class("style=%s", c.Style)
		if len(c.Orfs) == 0 && c.Style != "dna-upper" {
			o.Class("no-reference-and-rna-or-lower-case")
		}
		switch len(c.Orfs) {
		case 0:
			o.Class("refs=none")
		case 1:
			o.Class("refs=1")
		default:
			o.Class("refs=several")
		}
		if len(c.Seqs) >= 4 {
			o.Class("sequences>=4")
		}
		if misframed {
			o.Class("start-not-multiple-of-3")
		}
		return o, nil
	}
}

func TestPhase(t *testing.T) { pbt.Run(t, genPhase(false), checkPhase("TestPhase")) }

// TestPhaseRace: the error-free cases again, meant for the race detector build under several
// GOMAXPROCS values (the driver reports any "DATA RACE" of the process as a violation)
func TestPhaseRace(t *testing.T) { pbt.Run(t, genPhase(true), checkPhase("TestPhaseRace")) }

// ---- longest ORF ------------------------------------------------------------------------------------

type orfCase struct {
	Seqs    []gen.Row `json:"seqs"`
	Reverse bool      `json:"reverse"`
	Bag     bool      `json:"bag"` // SeqBag.LongestORF(reverse); otherwise Sequence.LongestORF of the first
	Style   string    `json:"style"`
	Hist    *history  `json:"hist,omitempty"` // the object was searched once, then edited in place into Seqs
}

var orfTokens = []string{"ATG", "ATG", "ATG", "ATG", "ATG", "TAA", "TAG", "TGA", "CAT", "CAT", "CAT", "TTA", "CTA", "TCA", "A", "C", "G", "T", "AT", "TG", "ATGA", "CATG", "ATGC", "GCAT"}

func genOrfSeq(t *rapid.T) string {
	var sb strings.Builder
	n := rapid.IntRange(3, 30).Draw(t, "ntok")
	for i := 0; i < n; i++ {
		if rapid.IntRange(0, 1).Draw(t, "codon") == 0 {
			sb.WriteString(gen.SeqN(t, "ACGT", 3))
		} else {
			sb.WriteString(rapid.SampledFrom(orfTokens).Draw(t, "tok"))
		}
	}
	return sb.String()
}

func genOrf(t *rapid.T) orfCase {
	var c orfCase
	c.Bag = rapid.IntRange(0, 2).Draw(t, "bag") != 0
	n := 1
	if c.Bag {
		n = rapid.IntRange(1, 5).Draw(t, "n")
		c.Reverse = rapid.Bool().Draw(t, "reverse")
	}
	for i := 0; i < n; i++ {
		c.Seqs = append(c.Seqs, gen.Row{Name: fmt.Sprintf("s%d", i), Seq: genOrfSeq(t)})
	}
	c.Style = rapid.SampledFrom(styles).Draw(t, "style")
	for i := range c.Seqs {
		c.Seqs[i].Seq = restyle(t, c.Seqs[i].Seq, c.Style)
	}
	if rapid.IntRange(0, 2).Draw(t, "history") == 0 {
		c.Hist = genHistory(t, c.Seqs)
	}
	return c
}

// overlapping: two reading frames starting at ATGs in different frames share a position
func overlapping(s string) bool {
	type iv struct{ a, b int }
	var ivs []iv
	for i := 0; i+3 <= len(s); i++ {
		if l := orfAt(s, i); l > 0 {
			ivs = append(ivs, iv{i, i + l})
		}
	}
	for i := range ivs {
		for j := i + 1; j < len(ivs); j++ {
			if ivs[i].a%3 != ivs[j].a%3 && ivs[j].a < ivs[i].b {
				return true
			}
		}
	}
	return false
}

func judgeORF(c orfCase, got string, found bool, o *pbt.Outcome) error {
	var plain []string
	for _, r := range c.Seqs {
		plain = append(plain, r.Seq)
	}
	max, _ := naiveLongest(plain, c.Reverse)
	if max == 0 {
		if found {
			return fmt.Errorf("no ATG...stop reading frame exists, but %q is returned", got)
		}
		o.Class("no-orf")
		return nil
	}
	if !found {
		return fmt.Errorf("nothing found although a reading frame of %d nucleotides exists", max)
	}
	if !validORF(fold(got)) {
		return fmt.Errorf("returned %q is not an ATG-to-first-in-frame-stop reading frame", got)
	}
	if len(got) != max {
		return fmt.Errorf("returned reading frame %q has %d nucleotides, a sequence contains one of %d", got, len(got), max)
	}
	// the residues are those of the original sequence: exactly on the forward strand; on the
	// reverse strand the observed convention (case kept, DNA letters) or, counted, any other case / U
	exactIn, foldFwd, foldRev := false, false, false
	for _, s := range plain {
		exactIn = exactIn || strings.Contains(s, got) || c.Reverse && strings.Contains(revcompKeepCase(s), got)
		foldFwd = foldFwd || strings.Contains(fold(s), fold(got))
		foldRev = foldRev || c.Reverse && strings.Contains(revcomp(fold(s)), fold(got))
	}
	switch {
	case exactIn:
	case foldRev:
		o.Ambiguous++
	case foldFwd:
		return fmt.Errorf("returned reading frame %q is in the input only up to case / U-T: not the original residues", got)
	default:
		return fmt.Errorf("returned reading frame %q occurs in no input sequence (strand allowed)", got)
	}
	ov := false
	for _, s := range foldAll(plain) {
		ov = ov || overlapping(s) || c.Reverse && overlapping(revcomp(s))
	}
	o.NonTrivial = ov
	if ov {
		o.Class("overlapping-frames")
	}
	return nil
}

func checkOrf(c orfCase) (o pbt.Outcome, err error) {
	o.Class("bag=%v reverse=%v", c.Bag, c.Reverse)
	o.Class("style=%s", c.Style)
	if c.Hist != nil {
		return checkOrfHistory(c, o)
	}
	if !c.Bag {
		s := align.NewSequence(c.Seqs[0].Name, []uint8(c.Seqs[0].Seq), "")
		st, en := s.LongestORF()
		if s.Sequence() != c.Seqs[0].Seq {
			return o, fmt.Errorf("LongestORF modified the sequence")
		}
		if st == -1 || en == -1 {
			if st != en {
				return o, fmt.Errorf("LongestORF returns (%d,%d)", st, en)
			}
			return o, judgeORF(c, "", false, &o)
		}
		if st < 0 || en > len(c.Seqs[0].Seq) || st > en {
			return o, fmt.Errorf("LongestORF returns (%d,%d) on a sequence of %d", st, en, len(c.Seqs[0].Seq))
		}
		return o, judgeORF(c, c.Seqs[0].Seq[st:en], true, &o)
	}
	sb := gen.BuildBag(gen.Ali{Rows: c.Seqs, Alphabet: "nt"})
	orf, e := sb.LongestORF(c.Reverse)
	if !gen.SameRows(gen.Snapshot(sb), c.Seqs) {
		return o, fmt.Errorf("SeqBag.LongestORF modified the sequences")
	}
	if e != nil {
		return o, judgeORF(c, "", false, &o)
	}
	return o, judgeORF(c, orf.Sequence(), true, &o)
}

// checkOrfHistory: the bag is built in the state before the edits, searched once (bag search and
// per-sequence search), edited in place; the search is then judged on the content the bag holds
func checkOrfHistory(c orfCase, o pbt.Outcome) (pbt.Outcome, error) {
	st := c.Hist.states(c.Seqs)
	sb := gen.BuildBag(gen.Ali{Rows: rowsOf(c.Seqs, st[0]), Alphabet: "nt"})
	sb.LongestORF(c.Hist.PriorReverse)
	if s0, ok := sb.Sequence(0); ok {
		s0.LongestORF()
	}
	if e := c.Hist.apply(sb, st); e != nil {
		o.Class("history: edit refused")
		o.Ambiguous++
		return o, nil
	}
	content := gen.Snapshot(sb)
	for _, r := range content {
		if strings.Trim(fold(r.Seq), "ACGT") != "" || r.Seq == "" {
			o.Class("history: content outside the domain")
			o.Skip = true
			return o, nil
		}
	}
	c2 := c
	c2.Seqs = content
	o.Class("history: searched, edited in place, searched again")
	for _, e := range c.Hist.Edits {
		o.Class("history edit=%s", e.Kind)
	}
	if !c.Bag {
		c2.Seqs = content[:1]
		s, _ := sb.Sequence(0)
		stt, en := s.LongestORF()
		if s.Sequence() != content[0].Seq {
			return o, fmt.Errorf("LongestORF modified the sequence")
		}
		if stt == -1 || en == -1 {
			if stt != en {
				return o, fmt.Errorf("LongestORF returns (%d,%d)", stt, en)
			}
			if err := judgeORF(c2, "", false, &o); err != nil {
				return o, fmt.Errorf("after a first search and in-place edits (sequence now %q): %v", content[0].Seq, err)
			}
			return o, nil
		}
		if stt < 0 || en > len(content[0].Seq) || stt > en {
			return o, fmt.Errorf("after a first search and in-place edits: LongestORF returns (%d,%d) on a sequence of %d (%q)", stt, en, len(content[0].Seq), content[0].Seq)
		}
		if err := judgeORF(c2, content[0].Seq[stt:en], true, &o); err != nil {
			return o, fmt.Errorf("after a first search and in-place edits (sequence now %q): %v", content[0].Seq, err)
		}
		return o, nil
	}
	orf, e := sb.LongestORF(c.Reverse)
	if !gen.SameRows(gen.Snapshot(sb), content) {
		return o, fmt.Errorf("SeqBag.LongestORF modified the sequences")
	}
	var err error
	if e != nil {
		err = judgeORF(c2, "", false, &o)
	} else {
		err = judgeORF(c2, orf.Sequence(), true, &o)
	}
	if err != nil {
		return o, fmt.Errorf("after a first search and in-place edits (sequences now %s): %v", gen.Show(content), err)
	}
	return o, nil
}

func TestLongestORF(t *testing.T) { pbt.Run(t, genOrf, checkOrf) }

// ---- command line tier ------------------------------------------------------------------------------

type cliCase struct {
	Cmd   string    `json:"cmd"` // phase | phasent | orf
	Phase phaseCase `json:"phase"`
	Orf   orfCase   `json:"orf"`
	// presentation of the input files
	Layout cli.Layout `json:"layout"`
	// second execution: where each output goes - "default" (option absent), "new" file, "stale"
	// (existing, longer file) or "stdout" (at most one stream); what is read back must be what
	// the first execution (every output in its own new file) gave
	Dest dests `json:"dest"`
	// Aligned: the input of phase / phasent is given as an alignment file (the same sequences
	// with gaps inserted and padded to one length, read without --unaligned: "alignment is first
	// unaligned"); the results must be those of the ungapped sequences
	Aligned []gen.Row `json:"aligned,omitempty"`
}

type dests struct {
	Out, Aa, Nt, Log string
}

func drawDests(t *rapid.T) dests {
	var d dests
	d.Out = rapid.SampledFrom([]string{"default", "default", "new", "stale"}).Draw(t, "dout")
	stdoutFree := d.Out != "default"
	pick := func(label string) string {
		opts := []string{"default", "default", "new", "stale"}
		if stdoutFree {
			opts = append(opts, "stdout")
		}
		v := rapid.SampledFrom(opts).Draw(t, label)
		if v == "stdout" {
			stdoutFree = false
		}
		return v
	}
	d.Nt = pick("dnt")
	d.Aa = pick("daa")
	d.Log = pick("dlog")
	return d
}

// destArg returns the arguments for one output option and the function reading it back
func destArg(dir, flag, dest string) (args []string, read func(stdout string) (string, bool)) {
	switch dest {
	case "new", "stale":
		path := cli.TempFile(dir, ".dest", "")
		os.Remove(path)
		if dest == "stale" {
			cli.StaleFile(path, 60)
		}
		return []string{flag, path}, func(string) (string, bool) {
			b, err := os.ReadFile(path)
			return string(b), err == nil
		}
	case "stdout":
		return []string{flag, "stdout"}, func(stdout string) (string, bool) { return stdout, true }
	}
	return nil, nil
}

// logLines: the per-sequence lines of a phase / phasent log, by sequence name
func logLines(text string, input map[string]string) (map[string]string, error) {
	m := map[string]string{}
	for _, line := range strings.Split(text, "\n") {
		f := strings.Split(line, "\t")
		if len(f) < 4 {
			continue
		}
		if _, in := input[f[0]]; !in {
			continue
		}
		if _, dup := m[f[0]]; dup {
			return nil, fmt.Errorf("two log lines for %s", f[0])
		}
		m[f[0]] = line
	}
	return m, nil
}

func sameMap(a, b map[string]string) bool {
	if len(a) != len(b) {
		return false
	}
	for k, v := range a {
		if w, ok := b[k]; !ok || w != v {
			return false
		}
	}
	return true
}

func readFastaFile(path string) ([]gen.Row, error) {
	b, err := os.ReadFile(path)
	if err != nil {
		return nil, err
	}
	return cli.ParseFasta(string(b))
}

func byName(rows []gen.Row, what string) (map[string]string, error) {
	m := map[string]string{}
	for _, r := range rows {
		if _, dup := m[r.Name]; dup {
			return nil, fmt.Errorf("%s: two records named %q", what, r.Name)
		}
		m[r.Name] = r.Seq
	}
	return m, nil
}

func TestCLI(t *testing.T) {
	if cli.Binary() == "" {
		t.Skip("no goalign binary")
	}
	dir := cli.TempDir("c16cli")
	pbt.Run(t, func(t *rapid.T) cliCase {
		var c cliCase
		c.Cmd = rapid.SampledFrom([]string{"phase", "phase", "phasent", "phasent", "phasent", "orf"}).Draw(t, "cmd")
		c.Layout = cli.DrawLayout(t)
		c.Dest = drawDests(t)
		if c.Cmd == "orf" {
			c.Orf = genOrf(t)
			c.Orf.Bag = true
			if rapid.IntRange(0, 3).Draw(t, "aligned") == 0 {
				// "if input sequences are aligned (contain '-'), they are unaligned first"
				for i := range c.Orf.Seqs {
					if l := len(c.Orf.Seqs[i].Seq); l > 0 {
						p := rapid.IntRange(0, l).Draw(t, "gp")
						c.Orf.Seqs[i].Seq = c.Orf.Seqs[i].Seq[:p] + "--" + c.Orf.Seqs[i].Seq[p:]
					}
				}
			}
			for i := range c.Orf.Seqs {
				if c.Orf.Seqs[i].Seq == "" {
					c.Orf.Seqs[i].Seq = "A"
				}
			}
			return c
		}
		c.Phase = genPhase(true)(t)
		c.Phase.Translate = c.Cmd == "phase"
		if rapid.IntRange(0, 4).Draw(t, "onethread") == 0 {
			c.Phase.Workers = []int{1}
		}
		if c.Phase.Translate && len(c.Phase.Orfs) == 0 {
			// keep the run error-free by construction (see genPhase): explicit references unless
			// the longest reading frame looks like a protein once translated
			var plain []string
			for _, r := range c.Phase.Seqs {
				plain = append(plain, r.Seq)
			}
			_, set := naiveLongest(plain, c.Phase.Reverse)
			prot := len(set) > 0
			for o := range set {
				prot = prot && looksProtein(tr(o, c.Phase.Code))
			}
			if !prot {
				c.Phase.Orfs = []gen.Row{{Name: "orf0", Seq: genORF(t, true)}}
				c.Phase.Seqs[0].Seq = embed(t, c.Phase.Orfs[0].Seq, c.Phase.Reverse)
				// (every other sequence still holds ATG + one codon of its own ORF copy, so that a
				// positive alignment exists)
			}
		}
		if c.Phase.Translate && rapid.IntRange(0, 7).Draw(t, "err") == 0 {
			c.Phase.ErrCase = true
			at := rapid.IntRange(0, len(c.Phase.Seqs)-1).Draw(t, "errat")
			c.Phase.Seqs[at].Seq = gen.SeqN(t, "ACGT", rapid.IntRange(1, 4).Draw(t, "shortlen"))
		}
		if rapid.IntRange(0, 2).Draw(t, "alignedinput") == 0 {
			maxl := 0
			rows := make([]gen.Row, len(c.Phase.Seqs))
			for i, r := range c.Phase.Seqs {
				b := r.Seq
				for k := rapid.IntRange(0, 3).Draw(t, "ngaps"); k > 0; k-- {
					at := rapid.IntRange(0, len(b)).Draw(t, "gapat")
					b = b[:at] + strings.Repeat("-", rapid.IntRange(1, 4).Draw(t, "gaplen")) + b[at:]
				}
				rows[i] = gen.Row{Name: r.Name, Seq: b}
				if len(b) > maxl {
					maxl = len(b)
				}
			}
			for i := range rows {
				rows[i].Seq += strings.Repeat("-", maxl-len(rows[i].Seq))
			}
			c.Aligned = rows
		}
		return c
	}, func(c cliCase) (o pbt.Outcome, err error) {
		o.Class("cmd=%s", c.Cmd)
		if c.Cmd == "orf" {
			o.Class("style=%s", c.Orf.Style)
			in := cli.TempFile(dir, ".fa", cli.FastaLayout(c.Orf.Seqs, c.Layout))
			args := []string{"orf", "-i", in}
			if c.Orf.Reverse {
				args = append(args, "--reverse")
			}
			r := cli.Run("", args...)
			un := orfCase{Reverse: c.Orf.Reverse, Bag: true}
			for _, s := range c.Orf.Seqs {
				un.Seqs = append(un.Seqs, gen.Row{Name: s.Name, Seq: strings.ReplaceAll(s.Seq, "-", "")})
			}
			if r.Exit != 0 {
				if e := judgeORF(un, "", false, &o); e != nil {
					return o, fmt.Errorf("goalign %v: exit %d (%s): %v", args, r.Exit, firstLine(r.Stderr), e)
				}
				return o, nil
			}
			rows, perr := cli.ParseFasta(r.Stdout)
			if perr != nil || len(rows) != 1 {
				return o, fmt.Errorf("goalign %v: expected one FASTA record, got %q (%v)", args, r.Stdout, perr)
			}
			if e := judgeORF(un, rows[0].Seq, true, &o); e != nil {
				return o, fmt.Errorf("goalign %v: %v", args, e)
			}
			if a2, read := destArg(dir, "-o", c.Dest.Out); read != nil {
				args2 := append(append([]string{}, args...), a2...)
				r2 := cli.Run("", args2...)
				text, _ := read(r2.Stdout)
				rows2, perr2 := cli.ParseFasta(text)
				if r2.Exit != 0 || perr2 != nil || !gen.SameRows(rows2, rows) {
					return o, fmt.Errorf("goalign %v: exit %d, result read back %q; on stdout the same command gave %q", args2, r2.Exit, text, r.Stdout)
				}
				o.Class("orf -o %s", c.Dest.Out)
			}
			return o, nil
		}
		pc := c.Phase
		in := cli.TempFile(dir, ".fa", cli.FastaLayout(pc.Seqs, c.Layout))
		inputMode := []string{"--unaligned"}
		if len(c.Aligned) > 0 {
			for i, r := range c.Aligned {
				if i >= len(pc.Seqs) || strings.ReplaceAll(r.Seq, "-", "") != pc.Seqs[i].Seq || len(r.Seq) != len(c.Aligned[0].Seq) {
					return o, fmt.Errorf("harness: aligned rows do not hold the sequences")
				}
			}
			in = cli.TempFile(dir, ".ali.fa", cli.FastaLayout(c.Aligned, c.Layout))
			inputMode = nil
			o.Class("input=alignment file")
		} else {
			o.Class("input=--unaligned")
		}
		logf := cli.TempFile(dir, ".log", "")
		aaf := cli.TempFile(dir, ".aa.fa", "")
		codf := cli.TempFile(dir, ".codon.fa", "")
		w := pc.Workers[len(pc.Workers)-1]
		base := append([]string{c.Cmd, "-i", in}, inputMode...)
		base = append(base, "--match-cutoff", "-1", "--genetic-code", pc.Code, "-t", fmt.Sprint(w))
		if len(pc.Orfs) > 0 {
			base = append(base, "--ref-orf", cli.TempFile(dir, ".ref.fa", cli.FastaLayout(pc.Orfs, c.Layout)))
		}
		if pc.Reverse {
			base = append(base, "--reverse")
		}
		if pc.CutEnd {
			base = append(base, "--cut-end")
		}
		args := append(append([]string{}, base...), "-l", logf, "--aa-output", aaf)
		if c.Cmd == "phasent" {
			args = append(args, "--nt-output", codf)
		}
		var plain []string
		input := map[string]string{}
		for _, r := range pc.Seqs {
			plain = append(plain, r.Seq)
			input[r.Name] = r.Seq
		}
		noORF := false
		if len(pc.Orfs) == 0 {
			if m, _ := naiveLongest(plain, pc.Reverse); m == 0 {
				noORF = true
			}
		}
		r := cli.Run("", args...)
		if pc.ErrCase || noORF {
			if r.Exit == 0 {
				return o, fmt.Errorf("goalign %v: exit 0 although an error is predicted (sequence too short to translate: %v, no reading frame: %v)", args, pc.ErrCase, noORF)
			}
			o.Class("error-predicted")
			return o, nil
		}
		if r.Exit != 0 {
			return o, fmt.Errorf("goalign %v: exit %d, stderr %q\ninput: %s\nrefs: %s", args, r.Exit, firstLine(r.Stderr), gen.Show(pc.Seqs), gen.Show(pc.Orfs))
		}
		ntRows, perr := cli.ParseFasta(r.Stdout)
		if perr != nil {
			return o, fmt.Errorf("goalign %v: unreadable output: %v", args, perr)
		}
		nt, e := byName(ntRows, "nucleotide output")
		if e != nil {
			return o, fmt.Errorf("goalign %v: %v", args, e)
		}
		aaRows, e := readFastaFile(aaf)
		if e != nil {
			return o, fmt.Errorf("goalign %v: amino-acid output: %v", args, e)
		}
		aa, e := byName(aaRows, "amino-acid output")
		if e != nil {
			return o, fmt.Errorf("goalign %v: %v", args, e)
		}
		codon := nt
		if c.Cmd == "phasent" {
			cr, e := readFastaFile(codf)
			if e != nil {
				return o, fmt.Errorf("goalign %v: codon output: %v", args, e)
			}
			if codon, e = byName(cr, "codon output"); e != nil {
				return o, fmt.Errorf("goalign %v: %v", args, e)
			}
		}
		lb, _ := os.ReadFile(logf)
		pos := map[string]int{}
		loglines, e := logLines(string(lb), input)
		if e != nil {
			return o, fmt.Errorf("goalign %v: %v", args, e)
		}
		for name, line := range loglines {
			var p int
			if _, e := fmt.Sscanf(strings.Split(line, "\t")[2], "%d", &p); e != nil {
				return o, fmt.Errorf("goalign %v: log line %q has no start position", args, line)
			}
			pos[name] = p
		}
		if len(nt) != len(pc.Seqs) || len(aa) != len(pc.Seqs) || len(codon) != len(pc.Seqs) || len(pos) != len(pc.Seqs) {
			return o, fmt.Errorf("goalign %v: %d input sequences, %d nucleotide / %d amino-acid / %d codon records, %d log lines", args, len(pc.Seqs), len(nt), len(aa), len(codon), len(pos))
		}
		ref := effectiveRefs(pc)
		misframed := false
		for _, s := range pc.Seqs {
			n, ok1 := nt[s.Name]
			a, ok2 := aa[s.Name]
			cd, ok3 := codon[s.Name]
			p, ok4 := pos[s.Name]
			if !ok1 || !ok2 || !ok3 || !ok4 {
				return o, fmt.Errorf("goalign %v: sequence %s is missing from an output (nt %v, aa %v, codon %v, log %v)", args, s.Name, ok1, ok2, ok3, ok4)
			}
			res := result{Name: s.Name, CodonName: s.Name, AaName: s.Name, Pos: p, Nt: n, Codon: cd, Aa: a}
			if e := judgeResult(pc, s.Seq, ref, res, &o); e != nil {
				return o, fmt.Errorf("goalign %v: %v", args, e)
			}
			misframed = misframed || p%3 != 0
		}
		// second execution: every combination of file / stdout / default of the output options
		{
			args2 := append([]string{}, base...)
			type stream struct {
				what string
				read func(string) (string, bool)
				want map[string]string
				log  bool
			}
			var streams []stream
			add := func(flag, dest, what string, want map[string]string, log bool) {
				a, read := destArg(dir, flag, dest)
				args2 = append(args2, a...)
				if read != nil {
					streams = append(streams, stream{what, read, want, log})
				}
				o.Class("%s %s=%s", c.Cmd, flag, dest)
			}
			if c.Dest.Out == "default" {
				streams = append(streams, stream{"nucleotide output (stdout)", func(so string) (string, bool) { return so, true }, nt, false})
				o.Class("%s -o=default", c.Cmd)
			} else {
				add("-o", c.Dest.Out, "nucleotide output (-o)", nt, false)
			}
			add("--aa-output", c.Dest.Aa, "amino-acid output (--aa-output)", aa, false)
			if c.Cmd == "phasent" {
				add("--nt-output", c.Dest.Nt, "codon output (--nt-output)", codon, false)
			}
			add("-l", c.Dest.Log, "log (-l)", loglines, true)
			r2 := cli.Run("", args2...)
			if r2.Exit != 0 {
				return o, fmt.Errorf("goalign %v: exit %d, stderr %q", args2, r2.Exit, firstLine(r2.Stderr))
			}
			for _, st := range streams {
				text, ok := st.read(r2.Stdout)
				if !ok {
					return o, fmt.Errorf("goalign %v: the %s was not written", args2, st.what)
				}
				var got map[string]string
				var e error
				if st.log {
					got, e = logLines(text, input)
				} else {
					var rows []gen.Row
					if rows, e = cli.ParseFasta(text); e == nil {
						got, e = byName(rows, st.what)
					}
				}
				if e != nil {
					return o, fmt.Errorf("goalign %v: %s unreadable: %v (%q)", args2, st.what, e, trunc(text, 200))
				}
				if !sameMap(got, st.want) {
					return o, fmt.Errorf("goalign %v: the %s holds %d records, not those the same command wrote when every output had its own new file (%d records); read back: %q", args2, st.what, len(got), len(st.want), trunc(text, 300))
				}
			}
		}
		o.NonTrivial = (w >= 2 && len(pc.Seqs) >= 4) || misframed
		if !c.Layout.Plain() {
			o.Class("input-layout-not-plain")
		}
		o.Class("threads=%d", w)
		o.Class("style=%s", pc.Style)
		o.Class("reverse=%v cutend=%v", pc.Reverse, pc.CutEnd)
		if len(pc.Orfs) == 0 {
			o.Class("refs=none")
		} else {
			o.Class("refs=%d", len(pc.Orfs))
		}
		return o, nil
	})
}

func firstLine(s string) string {
	if i := strings.IndexByte(s, '\n'); i >= 0 {
		return s[:i]
	}
	return s
}

func trunc(s string, n int) string {
	if len(s) > n {
		return s[:n] + "..."
	}
	return s
}
