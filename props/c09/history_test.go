// C09 - sequences with a past: used before (aligned, alphabet detected), then edited in place
package c09

import (
	"fmt"
	"strings"
	"testing"

	"github.com/evolbioinfo/goalign/align"
	"pgregory.net/rapid"
	"verif/internal/pbt"
)

// The statement quantifies over sequences, not over how the objects holding them came to be: the
// built-in matrix is chosen "depending on the input sequences alphabets", i.e. from what the two
// sequences contain when they are aligned. Here the two objects are the members of a SeqBag that
// first held Init1/Init2, were used (aligned with each other, in either order, or asked for their
// alphabet), and were then edited in place by a drawn chain of the library's mutators (SeqBag.Replace,
// SeqBag.SetSequenceChar, writes through Sequence.SequenceChar(), ToUpper/ToLower), possibly used again
// between two edits, until they hold S1/S2. They are then judged exactly like fresh objects.

type editOp struct {
	Kind string `json:"kind"`          // replace | setchar | write | upper | lower
	Old  string `json:"old,omitempty"` // replace: plain string replaced in every sequence of the bag
	New  string `json:"new,omitempty"`
	Seq  int    `json:"seq,omitempty"` // setchar, write: which sequence, which site, which character
	Site int    `json:"site,omitempty"`
	Char string `json:"char,omitempty"`
	Use  string `json:"use,omitempty"` // a use of the objects right after this edit
}

type history struct {
	Init1 string   `json:"init1"`
	Init2 string   `json:"init2"`
	Prior string   `json:"prior"` // use before the first edit: align | align-swapped | align-atg | detect | detect-first | detect-second | none
	Ops   []editOp `json:"ops"`
	// Clone: the objects given to the aligner are Clone()s of the edited objects
	Clone bool `json:"clone,omitempty"`
}

func applyModel(cur [2]string, op editOp) [2]string {
	switch op.Kind {
	case "replace":
		cur[0] = strings.Replace(cur[0], op.Old, op.New, -1)
		cur[1] = strings.Replace(cur[1], op.Old, op.New, -1)
	case "setchar", "write":
		b := []byte(cur[op.Seq])
		b[op.Site] = op.Char[0]
		cur[op.Seq] = string(b)
	case "upper":
		cur[0], cur[1] = strings.ToUpper(cur[0]), strings.ToUpper(cur[1])
	case "lower":
		cur[0], cur[1] = strings.ToLower(cur[0]), strings.ToLower(cur[1])
	}
	return cur
}

// model: the contents after the edits, by the documented meaning of each mutator
func (h *history) model() (string, string) {
	cur := [2]string{h.Init1, h.Init2}
	for _, op := range h.Ops {
		cur = applyModel(cur, op)
	}
	return cur[0], cur[1]
}

func useObjects(bag align.SeqBag, how string) {
	s1, _ := bag.Sequence(0)
	s2, _ := bag.Sequence(1)
	switch how {
	case "align":
		align.NewPwAligner(s1, s2, align.ALIGN_ALGO_SW).Alignment() // result and error ignored: a use, not a judged call
	case "align-swapped":
		align.NewPwAligner(s2, s1, align.ALIGN_ALGO_SW).Alignment()
	case "align-atg":
		align.NewPwAligner(s1, s2, align.ALIGN_ALGO_ATG).Alignment()
	case "detect":
		s1.DetectAlphabet()
		s2.DetectAlphabet()
	case "detect-first":
		s1.DetectAlphabet()
	case "detect-second":
		s2.DetectAlphabet()
	case "detect-bag":
		bag.DetectAlphabet()
	}
}

// build replays the history on real objects
func (h *history) build(c swCase) (s1, s2 align.Sequence, err error) {
	bag := align.NewSeqBag(align.UNKNOWN)
	if err = bag.AddSequence("query", h.Init1, "comment one"); err != nil {
		return nil, nil, fmt.Errorf("history: AddSequence: %v", err)
	}
	if err = bag.AddSequence("subject", h.Init2, "comment two"); err != nil {
		return nil, nil, fmt.Errorf("history: AddSequence: %v", err)
	}
	useObjects(bag, h.Prior)
	for i, op := range h.Ops {
		switch op.Kind {
		case "replace":
			err = bag.Replace(op.Old, op.New, false)
		case "setchar":
			err = bag.SetSequenceChar(op.Seq, op.Site, op.Char[0])
		case "write":
			q, _ := bag.Sequence(op.Seq)
			q.SequenceChar()[op.Site] = op.Char[0]
		case "upper":
			bag.ToUpper()
		case "lower":
			bag.ToLower()
		}
		if err != nil {
			return nil, nil, fmt.Errorf("history: edit %d (%+v) refused: %v", i, op, err)
		}
		useObjects(bag, op.Use)
	}
	s1, _ = bag.Sequence(0)
	s2, _ = bag.Sequence(1)
	if s1.Sequence() != c.S1 || s2.Sequence() != c.S2 {
		return nil, nil, fmt.Errorf("history: after the edits %+v of %q / %q the objects hold %q / %q, the documented meaning of the mutators gives %q / %q", h.Ops, h.Init1, h.Init2, s1.Sequence(), s2.Sequence(), c.S1, c.S2)
	}
	if h.Clone {
		s1, s2 = s1.Clone(), s2.Clone()
	}
	return s1, s2, nil
}

// alphaClass: what a sequence can be read as, by its letters (documentation of the alphabets)
func alphaClass(s string) string {
	u := strings.ToUpper(s)
	p, n := strings.ContainsAny(u, protOnly), strings.ContainsAny(u, "UO")
	switch {
	case p && n:
		return "neither"
	case p:
		return "aa"
	case n:
		return "nt"
	}
	return "both"
}

func pairClass(a, b string) string {
	ca, cb := alphaClass(a), alphaClass(b)
	if ca == "neither" || cb == "neither" || (ca == "aa" && cb == "nt") || (ca == "nt" && cb == "aa") {
		return "none"
	}
	if ca == "aa" || cb == "aa" {
		return "protein"
	}
	return "nucleotide"
}

func (h *history) classes(o *pbt.Outcome, c swCase) {
	o.Class("history:prior=%s", h.Prior)
	before, after := pairClass(h.Init1, h.Init2), pairClass(c.S1, c.S2)
	if before != after {
		o.Class("history:pair-alphabet %s->%s", before, after)
		if c.Sch.Matrix {
			o.Class("history:pair-alphabet-changed,built-in-matrix")
		}
	} else {
		o.Class("history:pair-alphabet-unchanged")
	}
	for _, op := range h.Ops {
		o.Class("history-edit:%s", op.Kind)
		if op.Use != "" {
			o.Class("history:used-between-edits")
		}
	}
	if h.Clone {
		o.Class("history:clone-of-edited")
	}
}

var priorUses = []string{"align", "align", "align-swapped", "align-atg", "detect", "detect-first", "detect-second", "detect-bag", "none"}

// genHist draws a history ending in c.S1/c.S2. It is built backwards from the final contents: each
// step undoes one mutator call, so that the forward chain is a chain of calls with drawn arguments
// whose outcome, by the documented meaning of the mutators, is exactly the pair that is judged
func genHist(t *rapid.T, c swCase) *history {
	h := &history{}
	cur := [2]string{c.S1, c.S2}
	const shared = "ACGTNRYKMSWBDHVX"
	pools := []string{protOnly, "ACGT", shared + protOnly, "acgtn" + strings.ToLower(protOnly), shared + "U"}
	letter := func(label string) byte {
		p := pools[rapid.IntRange(0, len(pools)-1).Draw(t, label+"pool")]
		return p[rapid.IntRange(0, len(p)-1).Draw(t, label)]
	}
	free := func(p string) string { // letters of p that occur in neither sequence
		out := ""
		for i := 0; i < len(p); i++ {
			if !strings.Contains(cur[0]+cur[1], p[i:i+1]) && !strings.Contains(out, p[i:i+1]) {
				out += p[i : i+1]
			}
		}
		return out
	}
	var rev []editOp
	undoReplace := func(newc byte, cand string, mode int) bool {
		if cand == "" {
			return false
		}
		old := cand[rapid.IntRange(0, len(cand)-1).Draw(t, "old")]
		op := editOp{Kind: "replace", Old: string(old), New: string(newc)}
		for k := 0; k < 2; k++ {
			if mode == 1+k { // occurrences of one sequence only are the product of the replacement
				continue
			}
			b := []byte(cur[k])
			for i := range b {
				if b[i] == newc && (mode != 3 || i%2 == 0) {
					b[i] = old
				}
			}
			cur[k] = string(b)
		}
		rev = append(rev, op)
		return true
	}
	undoSet := func(kind string) {
		k := rapid.IntRange(0, 1).Draw(t, "seq")
		i := rapid.IntRange(0, len(cur[k])-1).Draw(t, "site")
		b := []byte(cur[k])
		op := editOp{Kind: kind, Seq: k, Site: i, Char: string(b[i])}
		b[i] = letter("before")
		cur[k] = string(b)
		rev = append(rev, op)
	}
	if rapid.IntRange(0, 2).Draw(t, "directed") == 0 && strings.ContainsAny(strings.ToUpper(cur[0]+cur[1]), protOnly) {
		// every letter that makes the pair a protein pair is the product of an edit: the objects held
		// sequences readable as nucleotides when they were used
		for _, x := range []byte(protOnly + strings.ToLower(protOnly)) {
			if !strings.Contains(cur[0]+cur[1], string(x)) {
				continue
			}
			if strings.Count(cur[0]+cur[1], string(x)) == 1 && rapid.Bool().Draw(t, "single") {
				k := 0
				if !strings.Contains(cur[0], string(x)) {
					k = 1
				}
				b := []byte(cur[k])
				i := strings.IndexByte(cur[k], x)
				kind := "setchar"
				if rapid.Bool().Draw(t, "write") {
					kind = "write"
				}
				rev = append(rev, editOp{Kind: kind, Seq: k, Site: i, Char: string(x)})
				b[i] = shared[rapid.IntRange(0, len(shared)-1).Draw(t, "shared")]
				cur[k] = string(b)
				continue
			}
			if !undoReplace(x, free(shared+"acgtnU"), 0) {
				break
			}
		}
	} else {
		for n := rapid.IntRange(1, 3).Draw(t, "edits"); n > 0; n-- {
			switch kind := rapid.IntRange(0, 7).Draw(t, "editkind"); {
			case kind <= 2: // Replace(old, new): old occurs nowhere afterwards
				both := cur[0] + cur[1]
				newc := both[rapid.IntRange(0, len(both)-1).Draw(t, "new")]
				p := pools[rapid.IntRange(0, len(pools)-1).Draw(t, "oldpool")]
				if !undoReplace(newc, free(p), rapid.IntRange(0, 3).Draw(t, "mode")) {
					undoSet("setchar")
				}
			case kind <= 4:
				undoSet("setchar")
			case kind <= 6:
				undoSet("write")
			default:
				both := cur[0] + cur[1]
				lo, hi := both != strings.ToUpper(both), both != strings.ToLower(both)
				if lo == hi { // mixed case (or no letter): neither ToUpper nor ToLower ends there
					undoSet("write")
					break
				}
				op := editOp{Kind: "upper"}
				if lo {
					op.Kind = "lower"
				}
				for k := 0; k < 2; k++ {
					a := rapid.IntRange(0, len(cur[k])).Draw(t, "casefrom")
					z := rapid.IntRange(a, len(cur[k])).Draw(t, "caseto")
					if lo {
						cur[k] = cur[k][:a] + strings.ToUpper(cur[k][a:z]) + cur[k][z:]
					} else {
						cur[k] = lowerRange(cur[k], a, z)
					}
				}
				rev = append(rev, op)
			}
		}
	}
	for i := len(rev) - 1; i >= 0; i-- {
		h.Ops = append(h.Ops, rev[i])
	}
	for i := range h.Ops {
		if i < len(h.Ops)-1 && rapid.IntRange(0, 3).Draw(t, "usebetween") == 0 {
			h.Ops[i].Use = priorUses[rapid.IntRange(0, len(priorUses)-2).Draw(t, "use")]
		}
	}
	h.Init1, h.Init2 = cur[0], cur[1]
	h.Prior = priorUses[rapid.IntRange(0, len(priorUses)-1).Draw(t, "prior")]
	h.Clone = rapid.IntRange(0, 4).Draw(t, "clone") == 0
	return h
}

func genSWHist(t *rapid.T) swCase {
	c := genSW(t)
	c.Plan = nil
	if c.S1 == "" || c.S2 == "" {
		return c // nothing to edit in place
	}
	if rapid.IntRange(0, 3).Draw(t, "builtin") != 0 && !c.Sch.Matrix {
		// the built-in matrices are where the alphabet of the contents decides: most cases use them
		c.Sch.Matrix, c.Sch.Match, c.Sch.Mismatch = true, 0, 0
		c.Calls = nil
		if rapid.Bool().Draw(t, "histcalls") {
			c.Calls = genCalls(t, c.Sch)
			if len(c.Calls) == 0 {
				c.Calls = []setterCall{{Kind: "open", A: c.Sch.Open}}
			}
		}
	}
	c.Hist = genHist(t, c)
	return c
}

// TestAfterEdit: the aligner on sequence objects that were used before and edited in place since
func TestAfterEdit(t *testing.T) { pbt.Run(t, genSWHist, checkSW) }
