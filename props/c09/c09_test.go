// C09 - Pairwise local alignment is valid, self-consistent and optimal
package c09

import (
	"fmt"
	"io"
	"log"
	"math"
	"os"
	"strconv"
	"strings"
	"testing"

	"github.com/evolbioinfo/goalign/align"
	"pgregory.net/rapid"
	"verif/internal/cli"
	"verif/internal/gen"
	"verif/internal/pbt"
)

func TestMain(m *testing.M) {
	log.SetOutput(io.Discard)
	pbt.Main(m, "C09")
}

// ---- oracle part 1: the published substitution matrices, in NCBI text layout ----------------
//
// NUC.4.4 (= EMBOSS EDNAFULL without its U row; EDNAFULL adds U as a synonym of T) and the
// classic NCBI BLOSUM62 (with B, Z, X and * and without J). Typed from the published tables.

const nuc44Text = `
    A   T   G   C   S   W   R   Y   K   M   B   V   H   D   N
A   5  -4  -4  -4  -4   1   1  -4  -4   1  -4  -1  -1  -1  -2
T  -4   5  -4  -4  -4   1  -4   1   1  -4  -1  -4  -1  -1  -2
G  -4  -4   5  -4   1  -4   1  -4   1  -4  -1  -1  -4  -1  -2
C  -4  -4  -4   5   1  -4  -4   1  -4   1  -1  -1  -1  -4  -2
S  -4  -4   1   1  -1  -4  -2  -2  -2  -2  -1  -1  -3  -3  -1
W   1   1  -4  -4  -4  -1  -2  -2  -2  -2  -3  -3  -1  -1  -1
R   1  -4   1  -4  -2  -2  -1  -4  -2  -2  -3  -1  -3  -1  -1
Y  -4   1  -4   1  -2  -2  -4  -1  -2  -2  -1  -3  -1  -3  -1
K  -4   1   1  -4  -2  -2  -2  -2  -1  -4  -1  -3  -3  -1  -1
M   1  -4  -4   1  -2  -2  -2  -2  -4  -1  -3  -1  -1  -3  -1
B  -4  -1  -1  -1  -1  -3  -3  -1  -1  -3  -1  -2  -2  -2  -1
V  -1  -4  -1  -1  -1  -3  -1  -3  -3  -1  -2  -1  -2  -2  -1
H  -1  -1  -4  -1  -3  -1  -3  -1  -3  -1  -2  -2  -1  -2  -1
D  -1  -1  -1  -4  -3  -1  -1  -3  -1  -3  -2  -2  -2  -1  -1
N  -2  -2  -2  -2  -1  -1  -1  -1  -1  -1  -1  -1  -1  -1  -1
`

const blosum62Text = `
   A  R  N  D  C  Q  E  G  H  I  L  K  M  F  P  S  T  W  Y  V  B  Z  X  *
A  4 -1 -2 -2  0 -1 -1  0 -2 -1 -1 -1 -1 -2 -1  1  0 -3 -2  0 -2 -1  0 -4
R -1  5  0 -2 -3  1  0 -2  0 -3 -2  2 -1 -3 -2 -1 -1 -3 -2 -3 -1  0 -1 -4
N -2  0  6  1 -3  0  0  0  1 -3 -3  0 -2 -3 -2  1  0 -4 -2 -3  3  0 -1 -4
D -2 -2  1  6 -3  0  2 -1 -1 -3 -4 -1 -3 -3 -1  0 -1 -4 -3 -3  4  1 -1 -4
C  0 -3 -3 -3  9 -3 -4 -3 -3 -1 -1 -3 -1 -2 -3 -1 -1 -2 -2 -1 -3 -3 -2 -4
Q -1  1  0  0 -3  5  2 -2  0 -3 -2  1  0 -3 -1  0 -1 -2 -1 -2  0  3 -1 -4
E -1  0  0  2 -4  2  5 -2  0 -3 -3  1 -2 -3 -1  0 -1 -3 -2 -2  1  4 -1 -4
G  0 -2  0 -1 -3 -2 -2  6 -2 -4 -4 -2 -3 -3 -2  0 -2 -2 -3 -3 -1 -2 -1 -4
H -2  0  1 -1 -3  0  0 -2  8 -3 -3 -1 -2 -1 -2 -1 -2 -2  2 -3  0  0 -1 -4
I -1 -3 -3 -3 -1 -3 -3 -4 -3  4  2 -3  1  0 -3 -2 -1 -3 -1  3 -3 -3 -1 -4
L -1 -2 -3 -4 -1 -2 -3 -4 -3  2  4 -2  2  0 -3 -2 -1 -2 -1  1 -4 -3 -1 -4
K -1  2  0 -1 -3  1  1 -2 -1 -3 -2  5 -1 -3 -1  0 -1 -3 -2 -2  0  1 -1 -4
M -1 -1 -2 -3 -1  0 -2 -3 -2  1  2 -1  5  0 -2 -1 -1 -1 -1  1 -3 -1 -1 -4
F -2 -3 -3 -3 -2 -3 -3 -3 -1  0  0 -3  0  6 -4 -2 -2  1  3 -1 -3 -3 -1 -4
P -1 -2 -2 -1 -3 -1 -1 -2 -2 -3 -3 -1 -2 -4  7 -1 -1 -4 -3 -2 -2 -1 -2 -4
S  1 -1  1  0 -1  0  0  0 -1 -2 -2  0 -1 -2 -1  4  1 -3 -2 -2  0  0  0 -4
T  0 -1  0 -1 -1 -1 -1 -2 -2 -1 -1 -1 -1 -2 -1  1  5 -2 -2  0 -1 -1  0 -4
W -3 -3 -4 -4 -2 -2 -3 -2 -2 -3 -2 -3 -1  1 -4 -3 -2 11  2 -3 -4 -3 -2 -4
Y -2 -2 -2 -3 -2 -1 -2 -3  2 -1 -1 -2 -1  3 -3 -2 -2  2  7 -1 -3 -2 -1 -4
V  0 -3 -3 -3 -1 -2 -2 -3 -3  3  1 -2  1 -1 -2 -2  0 -3 -1  4 -3 -2 -1 -4
B -2 -1  3  4 -3  0  1 -1  0 -3 -4  0 -3 -3 -2  0 -1 -4 -3 -3  4  1 -1 -4
Z -1  0  0  1 -3  3  4 -2  0 -3 -3  1 -1 -3 -1  0 -1 -3 -2 -2  1  4 -1 -4
X  0 -1 -1 -1 -2 -1 -1 -1 -1 -1 -1 -1 -1 -1 -2  0  0 -2 -1 -1 -1 -1 -1 -4
* -4 -4 -4 -4 -4 -4 -4 -4 -4 -4 -4 -4 -4 -4 -4 -4 -4 -4 -4 -4 -4 -4 -4  1
`

type table struct {
	letters string
	m       [256][256]float64
	has     [256]bool
}

func parseNCBI(text string) *table {
	t := &table{}
	lines := []string{}
	for _, l := range strings.Split(text, "\n") {
		if strings.TrimSpace(l) != "" {
			lines = append(lines, l)
		}
	}
	head := strings.Fields(lines[0])
	for _, h := range head {
		t.letters += h
		t.has[h[0]] = true
	}
	if len(lines)-1 != len(head) {
		panic("harness: matrix text is not square")
	}
	for i, l := range lines[1:] {
		f := strings.Fields(l)
		if len(f) != len(head)+1 || f[0] != head[i] {
			panic("harness: matrix text row " + l)
		}
		for j, v := range f[1:] {
			x, err := strconv.Atoi(v)
			if err != nil {
				panic(err)
			}
			t.m[head[i][0]][head[j][0]] = float64(x)
		}
	}
	return t
}

var (
	dnaTable  = parseNCBI(nuc44Text)
	protTable = parseNCBI(blosum62Text)
)

func init() {
	// EDNAFULL = NUC.4.4 + U as a synonym of T
	for i := 0; i < len(dnaTable.letters); i++ {
		x := dnaTable.letters[i]
		dnaTable.m['U'][x] = dnaTable.m['T'][x]
		dnaTable.m[x]['U'] = dnaTable.m[x]['T']
	}
	dnaTable.m['U']['U'] = dnaTable.m['T']['T']
	dnaTable.has['U'] = true
	dnaTable.letters += "U"
	// X, the "unknown residue" symbol, is read as N in a nucleotide sequence (as EMBOSS does on input)
	all := dnaTable.letters
	for i := 0; i < len(all); i++ {
		x := all[i]
		dnaTable.m['X'][x] = dnaTable.m['N'][x]
		dnaTable.m[x]['X'] = dnaTable.m[x]['N']
	}
	dnaTable.m['X']['X'] = dnaTable.m['N']['N']
	dnaTable.has['X'] = true
	dnaTable.letters += "X"
}

const (
	dnaLetters  = "ATGCSWRYKMBVHDN" // + U and X (unknown base), drawn rarely
	protLetters = "ARNDCQEGHILKMFPSTWYVBZX*"
	protOnly    = "QEILFPZ" // letters that no nucleotide reading admits
)

// ---- oracle part 2: scoring of an explicit alignment, Gotoh optimum, brute force ------------

type scheme struct {
	Matrix   bool    `json:"matrix"` // built-in matrix (EDNAFULL / BLOSUM62) instead of match/mismatch
	Match    float64 `json:"match"`
	Mismatch float64 `json:"mismatch"`
	Open     float64 `json:"open"`
	Extend   float64 `json:"extend"`
}

func (s scheme) String() string {
	if s.Matrix {
		return fmt.Sprintf("M/%g/%g", s.Open, s.Extend)
	}
	return fmt.Sprintf("%g/%g/%g/%g", s.Match, s.Mismatch, s.Open, s.Extend)
}

type subFn func(a, b byte) float64

func up(c byte) byte {
	if c >= 'a' && c <= 'z' {
		return c - 32
	}
	return c
}

func hasLower(s string) bool { return strings.ToUpper(s) != s }

func eqRaw(a, b byte) bool  { return a == b }
func eqFold(a, b byte) bool { return up(a) == up(b) }

// sub: pair scores. The matrices are defined on letters, whatever their case (a soft-masked residue
// is the same residue). For match/mismatch schemes "match" is decided by eq: the documentation does
// not say whether a and A match, so both readings exist (see readingsOf)
func (s scheme) subWith(t *table, eq func(a, b byte) bool) subFn {
	if s.Matrix {
		return func(a, b byte) float64 { return t.m[up(a)][up(b)] }
	}
	return func(a, b byte) float64 {
		if eq(a, b) {
			return s.Match
		}
		return s.Mismatch
	}
}

func (s scheme) sub(t *table) subFn { return s.subWith(t, eqRaw) }

// reading: one admissible way of scoring and of counting matches
type reading struct {
	name string
	sub  subFn
	eq   func(a, b byte) bool
}

// readingsOf: with upper case input there is one reading. With lower case letters present:
// matrix schemes score case-folded letters, and "match" in the match/mismatch counts may mean the
// same character or the same letter; match/mismatch schemes are read either entirely
// case-sensitively or entirely case-folded (score and counts under one and the same reading)
func readingsOf(s scheme, t *table, lower bool) []reading {
	rs := []reading{{"case-sensitive", s.subWith(t, eqRaw), eqRaw}}
	if lower {
		rs = append(rs, reading{"case-folded", s.subWith(t, eqFold), eqFold})
	}
	return rs
}

// scoreRows: score of two gapped rows under gap(n) = open + (n-1)*extend, a gap being a maximal
// run of gap characters in one row
func scoreRows(r1, r2 string, sub subFn, open, ext float64) float64 {
	sc := 0.0
	prev := 0 // 0 residue pair, 1 gap in row 1, 2 gap in row 2
	for k := 0; k < len(r1); k++ {
		cur := 0
		switch {
		case r1[k] == '-':
			cur = 1
		case r2[k] == '-':
			cur = 2
		}
		switch {
		case cur == 0:
			sc += sub(r1[k], r2[k])
		case cur == prev:
			sc += ext
		default:
			sc += open
		}
		prev = cur
	}
	return sc
}

// gotoh: optimum local alignment score with affine gaps (three-state dynamic program), 0 when no
// local alignment is positive
func gotoh(x, y string, sub subFn, open, ext float64) float64 {
	n, m := len(x), len(y)
	neg := math.Inf(-1)
	hp := make([]float64, m+1) // H of the previous row
	hc := make([]float64, m+1)
	f := make([]float64, m+1) // F (gap in y, vertical) of the previous row, per column
	for j := range f {
		f[j] = neg
	}
	best := 0.0
	for i := 1; i <= n; i++ {
		hc[0] = 0
		e := neg // E (gap in x, horizontal) of the current row
		for j := 1; j <= m; j++ {
			e = math.Max(hc[j-1]+open, e+ext)
			f[j] = math.Max(hp[j]+open, f[j]+ext)
			h := hp[j-1] + sub(x[i-1], y[j-1])
			if e > h {
				h = e
			}
			if f[j] > h {
				h = f[j]
			}
			if h < 0 {
				h = 0
			}
			hc[j] = h
			if h > best {
				best = h
			}
		}
		hp, hc = hc, hp
	}
	return best
}

// brute: maximum score over every local alignment (every pair of substrings, every sequence of
// columns residue/residue, residue/gap, gap/residue consuming both exactly), enumerated one by one
func brute(x, y string, sub subFn, open, ext float64) (best float64, count int) {
	best = math.Inf(-1)
	var rec func(a, b string, i, j, prev int, sc float64, cols int)
	rec = func(a, b string, i, j, prev int, sc float64, cols int) {
		if i == len(a) && j == len(b) {
			if cols > 0 {
				count++
				if sc > best {
					best = sc
				}
			}
			return
		}
		if i < len(a) && j < len(b) {
			rec(a, b, i+1, j+1, 0, sc+sub(a[i], b[j]), cols+1)
		}
		if j < len(b) { // gap in row 1
			g := open
			if prev == 1 {
				g = ext
			}
			rec(a, b, i, j+1, 1, sc+g, cols+1)
		}
		if i < len(a) { // gap in row 2
			g := open
			if prev == 2 {
				g = ext
			}
			rec(a, b, i+1, j, 2, sc+g, cols+1)
		}
	}
	for a0 := 0; a0 <= len(x); a0++ {
		for a1 := a0; a1 <= len(x); a1++ {
			for b0 := 0; b0 <= len(y); b0++ {
				for b1 := b0; b1 <= len(y); b1++ {
					if (a1 == a0 && a0 > 0) || (b1 == b0 && b0 > 0) {
						continue // the empty substring once
					}
					rec(x[a0:a1], y[b0:b1], 0, 0, 0, 0, 0)
				}
			}
		}
	}
	return
}

// ---- what is observed (library or command line) and how it is judged ------------------------

type obs struct {
	Row1, Row2     string
	S1, E1, S2, E2 int
	Length         int
	M, MM, G       int
	Score          float64
}

type info struct {
	opt                        float64
	gapCols, gapRuns, longGap  int
	bothDirs, adjacent         bool
	touchesStart, endFirst     bool
	whole1, whole2             bool
	hasMismatch, negativeIdent bool
}

func ungap(s string) string { return strings.ReplaceAll(s, "-", "") }

// optError is a failure of the optimality clauses (the validity clauses held)
type optError struct{ msg string }

func (e *optError) Error() string { return e.msg }

func isOptError(err error) bool { _, ok := err.(*optError); return ok }

// judge checks every clause of the statement on one observation
func judge(s1, s2 string, rd reading, open, ext float64, ob obs, withBrute bool) (in info, err error) {
	sub, eq := rd.sub, rd.eq
	// --- validity
	if len(ob.Row1) != len(ob.Row2) {
		return in, fmt.Errorf("rows of different lengths: %q / %q", ob.Row1, ob.Row2)
	}
	if len(ob.Row1) != ob.Length {
		return in, fmt.Errorf("Length() = %d but the rows have %d columns (%q / %q)", ob.Length, len(ob.Row1), ob.Row1, ob.Row2)
	}
	m, mm, g := 0, 0, 0
	prev := 0
	runlen := 0
	dirs := [3]bool{}
	for k := 0; k < len(ob.Row1); k++ {
		a, b := ob.Row1[k], ob.Row2[k]
		cur := 0
		switch {
		case a == '-' && b == '-':
			return in, fmt.Errorf("column %d is all gaps (%q / %q)", k, ob.Row1, ob.Row2)
		case a == '-':
			cur = 1
		case b == '-':
			cur = 2
		}
		if cur == 0 {
			if eq(a, b) {
				m++
				if sub(a, b) < 0 {
					in.negativeIdent = true
				}
			} else {
				mm++
			}
			runlen = 0
		} else {
			g++
			dirs[cur] = true
			if cur != prev {
				in.gapRuns++
				runlen = 0
				if prev != 0 {
					in.adjacent = true
				}
			}
			runlen++
			if runlen > in.longGap {
				in.longGap = runlen
			}
		}
		prev = cur
	}
	in.gapCols = g
	in.bothDirs = dirs[1] && dirs[2]
	in.hasMismatch = mm > 0
	if ob.S1 < 0 || ob.E1 >= len(s1) || ob.S1 > ob.E1+1 {
		return in, fmt.Errorf("first sequence: reported start,end = %d,%d outside 0..%d", ob.S1, ob.E1, len(s1)-1)
	}
	if ob.S2 < 0 || ob.E2 >= len(s2) || ob.S2 > ob.E2+1 {
		return in, fmt.Errorf("second sequence: reported start,end = %d,%d outside 0..%d", ob.S2, ob.E2, len(s2)-1)
	}
	if u := ungap(ob.Row1); u != s1[ob.S1:ob.E1+1] {
		return in, fmt.Errorf("row 1 without gaps is %q but input[%d..%d] is %q", u, ob.S1, ob.E1, s1[ob.S1:ob.E1+1])
	}
	if u := ungap(ob.Row2); u != s2[ob.S2:ob.E2+1] {
		return in, fmt.Errorf("row 2 without gaps is %q but input[%d..%d] is %q", u, ob.S2, ob.E2, s2[ob.S2:ob.E2+1])
	}
	if ob.M+ob.MM+ob.G != ob.Length {
		return in, fmt.Errorf("matches %d + mismatches %d + gaps %d != length %d", ob.M, ob.MM, ob.G, ob.Length)
	}
	if ob.M != m || ob.MM != mm || ob.G != g {
		return in, fmt.Errorf("reported matches/mismatches/gaps %d/%d/%d but the rows %q / %q contain %d/%d/%d", ob.M, ob.MM, ob.G, ob.Row1, ob.Row2, m, mm, g)
	}
	in.touchesStart = ob.S1 == 0 || ob.S2 == 0
	in.endFirst = ob.E1 == 0 || ob.E2 == 0
	in.whole1 = ob.S1 == 0 && ob.E1 == len(s1)-1
	in.whole2 = ob.S2 == 0 && ob.E2 == len(s2)-1
	// --- optimality
	in.opt = gotoh(s1, s2, sub, open, ext)
	if withBrute {
		b, _ := brute(s1, s2, sub, open, ext)
		want := math.Max(b, 0)
		if want != in.opt {
			return in, fmt.Errorf("harness: the Gotoh oracle (%g) and the brute-force enumeration (%g) disagree on %q / %q", in.opt, b, s1, s2)
		}
	}
	if in.opt > 0 {
		got := scoreRows(ob.Row1, ob.Row2, sub, open, ext)
		if got != ob.Score {
			return in, &optError{fmt.Sprintf("reported score %g but the returned rows %q / %q score %g under the configured scheme", ob.Score, ob.Row1, ob.Row2, got)}
		}
		if ob.Score != in.opt {
			return in, &optError{fmt.Sprintf("reported score %g but a local alignment of score %g exists (rows returned: %q / %q)", ob.Score, in.opt, ob.Row1, ob.Row2)}
		}
	}
	return in, nil
}

func classify(o *pbt.Outcome, s1, s2 string, sch scheme, in info) {
	o.NonTrivial = in.opt > 0 && (in.gapCols > 0 || in.touchesStart || !in.whole1 || !in.whole2)
	if in.opt <= 0 {
		o.Class("no-positive-alignment")
		return
	}
	if sch.Matrix {
		o.Class("scheme=matrix")
	} else {
		o.Class("scheme=match/mismatch")
	}
	if sch.Open == sch.Extend {
		o.Class("open=extend")
	}
	if in.touchesStart {
		o.Class("touches-row/col-0")
	}
	if in.endFirst {
		o.Class("ends-in-first-row/col")
	}
	if in.gapCols > 0 {
		o.Class("contains-gap")
	}
	if in.longGap >= 2 {
		o.Class("gap-run>=2")
	}
	if in.gapRuns >= 2 {
		o.Class("several-gaps")
	}
	if in.bothDirs {
		o.Class("gaps-in-both-rows")
	}
	if in.adjacent {
		o.Class("adjacent-opposite-gaps")
	}
	if in.hasMismatch {
		o.Class("contains-mismatch")
	}
	if in.negativeIdent {
		o.Class("identical-pair-with-negative-score")
	}
	if len(s1) == 1 || len(s2) == 1 {
		o.Class("single-residue-input")
	}
	if in.whole1 && in.whole2 {
		o.Class("whole-of-both")
	} else if in.whole1 || in.whole2 {
		o.Class("whole-of-one")
	} else {
		o.Class("proper-substrings")
	}
}

// ---- case ------------------------------------------------------------------------------------

type swCase struct {
	S1   string `json:"s1"`
	S2   string `json:"s2"`
	Kind string `json:"kind"` // "dna" or "aa": which alphabet the generator drew from
	Sch  scheme `json:"scheme"`
	// SetScoreFirst: call SetScore before the gap setters (the order must not matter)
	SetScoreFirst bool `json:"setscorefirst"`
	// Calls: when not empty, the exact history of setter calls made on the aligner (any order,
	// repeated calls, earlier values overwritten later); the last call of each kind carries the
	// values of Sch, a setter that is never called leaves the documented default (open -10,
	// extend -0.5, built-in matrix)
	Calls []setterCall `json:"calls,omitempty"`
	// Plan: when set, the two sequences are not constructed afresh: they are the rows of an
	// alignment obtained through this chain of public operations (gen.BuildVia) and un-aligned
	Plan *gen.Plan `json:"plan,omitempty"`
	// Hist: when set, the two sequences are objects with a past: members of a SeqBag that held other
	// contents, were used (aligned, alphabet detected), then edited in place until they hold S1/S2
	Hist *history `json:"hist,omitempty"`
}

func allIn(s string, t *table) bool {
	for i := 0; i < len(s); i++ {
		if !t.has[up(s[i])] {
			return false
		}
	}
	return true
}

// tablesFor: the matrices the documentation admits for a pair ("blosum62 or dnafull ... depending
// on the input sequences alphabets"). A pair containing a letter that is no nucleotide code is a
// protein pair; a pair drawn as DNA is DNA; a pair drawn as protein whose letters all happen to be
// nucleotide codes too is open (both accepted)
func tablesFor(c swCase) (ts []*table, open bool) {
	if c.Kind == "dna" {
		return []*table{dnaTable}, false
	}
	if strings.ContainsAny(strings.ToUpper(c.S1+c.S2), protOnly) {
		return []*table{protTable}, false
	}
	ts = []*table{protTable}
	if allIn(c.S1, dnaTable) && allIn(c.S2, dnaTable) {
		ts = append(ts, dnaTable)
	}
	return ts, true
}

// setterCall: one call of SetGapOpenScore ("open"), SetGapExtendScore ("extend") or SetScore ("score")
type setterCall struct {
	Kind string  `json:"kind"`
	A    float64 `json:"a"`
	B    float64 `json:"b,omitempty"`
}

// effective: the scheme that a history of setter calls configures, by the documented semantics of
// independent setters (last value wins, defaults otherwise)
func effective(calls []setterCall) scheme {
	s := scheme{Matrix: true, Open: -10, Extend: -0.5}
	for _, c := range calls {
		switch c.Kind {
		case "open":
			s.Open = c.A
		case "extend":
			s.Extend = c.A
		case "score":
			s.Matrix, s.Match, s.Mismatch = false, c.A, c.B
		}
	}
	return s
}

// genCalls: a history ending in the configuration sch. The three final calls come in a drawn order;
// before and between them, earlier calls with other values of the domain may occur
func genCalls(t *rapid.T, sch scheme) []setterCall {
	final := []setterCall{{Kind: "open", A: sch.Open}, {Kind: "extend", A: sch.Extend}}
	if !sch.Matrix {
		final = append(final, setterCall{Kind: "score", A: sch.Match, B: sch.Mismatch})
	}
	// earlier calls with other values of the domain, all overwritten by the final ones
	var calls []setterCall
	staleOf := map[string]bool{}
	for k := rapid.IntRange(0, 2).Draw(t, "stale"); k > 0; k-- {
		ext := -0.5 * float64(rapid.IntRange(1, 30).Draw(t, "staleext"))
		switch rapid.IntRange(0, 2).Draw(t, "stalekind") {
		case 0:
			calls = append(calls, setterCall{Kind: "open", A: ext - 0.5*float64(rapid.IntRange(0, 20).Draw(t, "staleopen"))})
		case 1:
			calls = append(calls, setterCall{Kind: "extend", A: ext})
		default:
			if !sch.Matrix { // a call of SetScore cannot be undone: only when the final scheme has one too
				calls = append(calls, setterCall{Kind: "score", A: 0.5 * float64(rapid.IntRange(1, 10).Draw(t, "stalematch")), B: -0.5 * float64(rapid.IntRange(1, 10).Draw(t, "stalemis"))})
			}
		}
	}
	for _, c := range calls {
		staleOf[c.Kind] = true
	}
	// a setter whose value is the default may be left out (unless an earlier call changed it)
	var kept []setterCall
	for _, f := range final {
		isDefault := (f.Kind == "open" && f.A == -10) || (f.Kind == "extend" && f.A == -0.5)
		if isDefault && !staleOf[f.Kind] && rapid.Bool().Draw(t, "omitdefault") {
			continue
		}
		kept = append(kept, f)
	}
	for _, k := range gen.Perm(t, len(kept), "callorder") {
		calls = append(calls, kept[k])
	}
	return calls
}

// swAli: the two sequences as rows of one alignment (the shorter one padded with gaps at its end)
func swAli(c swCase) gen.Ali {
	pad := func(s string, n int) string { return s + strings.Repeat("-", n-len(s)) }
	n := len(c.S1)
	if len(c.S2) > n {
		n = len(c.S2)
	}
	alphabet := "nt"
	if c.Kind == "aa" {
		alphabet = "aa"
	}
	return gen.Ali{Alphabet: alphabet, Rows: []gen.Row{{Name: "query", Seq: pad(c.S1, n)}, {Name: "subject", Seq: pad(c.S2, n)}}}
}

// provenance of the last runLibrary call (classes only)
var lastProvenance string

type setters interface {
	SetGapOpenScore(float64)
	SetGapExtendScore(float64)
	SetScore(float64, float64)
}

// configure applies the case's scheme to an aligner (drawn setter history, or the three setters)
func configure(a setters, c swCase) {
	if len(c.Calls) > 0 {
		for _, call := range c.Calls {
			switch call.Kind {
			case "open":
				a.SetGapOpenScore(call.A)
			case "extend":
				a.SetGapExtendScore(call.A)
			case "score":
				a.SetScore(call.A, call.B)
			}
		}
	} else {
		if c.SetScoreFirst && !c.Sch.Matrix {
			a.SetScore(c.Sch.Match, c.Sch.Mismatch)
		}
		a.SetGapOpenScore(c.Sch.Open)
		a.SetGapExtendScore(c.Sch.Extend)
		if !c.SetScoreFirst && !c.Sch.Matrix {
			a.SetScore(c.Sch.Match, c.Sch.Mismatch)
		}
	}
}

// checkEmpty: one or both sequences have no residue. No local alignment exists; the statement's
// clauses leave two behaviours: Alignment() reports an error, or it returns the empty alignment (two
// empty rows, length 0, all counts 0, score 0). Anything else - a panic (turned into a violation by
// pbt.Run), rows with content - is a violation. Both algorithms; the inputs stay as they were
func checkEmpty(c swCase) (o pbt.Outcome, err error) {
	for _, algo := range []int{align.ALIGN_ALGO_SW, align.ALIGN_ALGO_ATG} {
		s1 := align.NewSequence("query", []uint8(c.S1), "comment one")
		s2 := align.NewSequence("subject", []uint8(c.S2), "comment two")
		a := align.NewPwAligner(s1, s2, algo)
		configure(a, c)
		al, e := a.Alignment()
		if s1.Sequence() != c.S1 || s2.Sequence() != c.S2 || s1.Name() != "query" || s2.Name() != "subject" || s1.Comment() != "comment one" || s2.Comment() != "comment two" {
			return o, fmt.Errorf("empty sequence, algorithm %d: the input sequences were modified: %s=%q %s=%q", algo, s1.Name(), s1.Sequence(), s2.Name(), s2.Sequence())
		}
		if e != nil {
			o.Class("empty-sequence:error")
			continue
		}
		m, mm, g := a.NbMatches(), a.NbMisMatches(), a.NbGaps()
		if len(a.Seq1Ali()) != 0 || len(a.Seq2Ali()) != 0 || a.Length() != 0 || m != 0 || mm != 0 || g != 0 || a.MaxScore() != 0 {
			return o, fmt.Errorf("empty sequence (%q / %q), algorithm %d: no error and rows %q / %q, length %d, counts %d/%d/%d, score %g; expected an error or the empty alignment", c.S1, c.S2, algo, a.Seq1Ali(), a.Seq2Ali(), a.Length(), m, mm, g, a.MaxScore())
		}
		if al != nil {
			for _, r := range gen.Snapshot(al) {
				if r.Seq != "" {
					return o, fmt.Errorf("empty sequence (%q / %q), algorithm %d: the returned Alignment holds %s", c.S1, c.S2, algo, gen.Show(gen.Snapshot(al)))
				}
			}
		}
		o.Ambiguous++
		o.Class("empty-sequence:empty-alignment")
	}
	if c.S1 == "" && c.S2 == "" {
		o.Class("empty-sequence:both")
	} else {
		o.Class("empty-sequence:one")
	}
	return o, nil
}

func runLibrary(c swCase) (ob obs, al align.Alignment, s1, s2 align.Sequence, err error) {
	lastProvenance = ""
	if c.Plan != nil {
		lastProvenance = "provenance-unusable"
		if src, usable := gen.BuildVia(swAli(c), *c.Plan); usable {
			bag := src.Unalign()
			q1, ok1 := bag.Sequence(0)
			q2, ok2 := bag.Sequence(1)
			if ok1 && ok2 && bag.NbSequences() == 2 && q1.Sequence() == c.S1 && q2.Sequence() == c.S2 && q1.Name() == "query" && q2.Name() == "subject" {
				s1, s2 = q1, q2
				lastProvenance = "provenance:" + c.Plan.String()
			}
		}
	}
	if s1 == nil && c.Hist != nil {
		if s1, s2, err = c.Hist.build(c); err != nil {
			s1 = align.NewSequence("query", []uint8(c.S1), "comment one")
			s2 = align.NewSequence("subject", []uint8(c.S2), "comment two")
			return
		}
	}
	if s1 == nil {
		s1 = align.NewSequence("query", []uint8(c.S1), "comment one")
		s2 = align.NewSequence("subject", []uint8(c.S2), "comment two")
	}
	comment1, comment2 := s1.Comment(), s2.Comment()
	defer func() {
		if s1.Comment() != comment1 || s2.Comment() != comment2 {
			err = fmt.Errorf("the comments of the input sequences were modified: %q %q", s1.Comment(), s2.Comment())
		}
	}()
	a := align.NewPwAligner(s1, s2, align.ALIGN_ALGO_SW)
	configure(a, c)
	al, err = a.Alignment()
	if err != nil {
		return
	}
	ob.Row1, ob.Row2 = string(a.Seq1Ali()), string(a.Seq2Ali())
	ob.S1, ob.S2 = a.AlignStarts()
	ob.E1, ob.E2 = a.AlignEnds()
	ob.Length = a.Length()
	ob.M, ob.MM, ob.G = a.NbMatches(), a.NbMisMatches(), a.NbGaps()
	ob.Score = a.MaxScore()
	return
}

func checkSW(c swCase) (o pbt.Outcome, err error) {
	if len(c.Calls) > 0 {
		if eff := effective(c.Calls); eff != c.Sch {
			return o, fmt.Errorf("harness: the setter history configures %v, the case says %v", eff, c.Sch)
		}
	}
	if len(c.S1) == 0 || len(c.S2) == 0 {
		return checkEmpty(c)
	}
	tables, openAlphabet := tablesFor(c)
	if c.Hist != nil {
		if m1, m2 := c.Hist.model(); m1 != c.S1 || m2 != c.S2 {
			return o, fmt.Errorf("harness: the drawn edits lead to %q / %q, the case says %q / %q", m1, m2, c.S1, c.S2)
		}
	}
	ob, al, q1, q2, e := runLibrary(c)
	prov := lastProvenance
	// inputs unmodified, whatever happened
	if q1.Sequence() != c.S1 || q2.Sequence() != c.S2 || q1.Name() != "query" || q2.Name() != "subject" {
		return o, fmt.Errorf("the input sequences were modified: %s=%q %s=%q", q1.Name(), q1.Sequence(), q2.Name(), q2.Sequence())
	}
	if e != nil {
		if openAlphabet && !(allIn(c.S1, dnaTable) && allIn(c.S2, dnaTable)) {
			// drawn as protein, readable as nucleotides except for a letter outside EDNAFULL
			o.Ambiguous++
			o.Class("alphabet-open:refused")
			return o, nil
		}
		return o, fmt.Errorf("Alignment() fails on sequences of the domain: %v", e)
	}
	// the Alignment object holds the same two rows under the input names
	rows := gen.Snapshot(al)
	if len(rows) != 2 || rows[0] != (gen.Row{Name: "query", Seq: ob.Row1}) || rows[1] != (gen.Row{Name: "subject", Seq: ob.Row2}) {
		return o, fmt.Errorf("the returned Alignment %s differs from Seq1Ali/Seq2Ali %q / %q", gen.Show(rows), ob.Row1, ob.Row2)
	}
	withBrute := len(c.S1) <= 3 && len(c.S2) <= 3
	var in info
	var firstErr error
	lower := hasLower(c.S1 + c.S2)
	caseReading := ""
tables:
	for _, t := range tables {
		for ri, rd := range readingsOf(c.Sch, t, lower) {
			in, err = judge(c.S1, c.S2, rd, c.Sch.Open, c.Sch.Extend, ob, withBrute)
			if err == nil {
				if ri > 0 {
					o.Ambiguous++
				}
				caseReading = rd.name
				break tables
			}
			if firstErr == nil {
				firstErr = err
			}
		}
		if !c.Sch.Matrix {
			break // the table plays no role
		}
	}
	if err != nil {
		if openAlphabet && c.Sch.Matrix && isOptError(firstErr) && !(allIn(c.S1, dnaTable) && allIn(c.S2, dnaTable)) {
			// a nucleotide reading with a letter outside EDNAFULL (X): no reference score exists
			o.Ambiguous++
			o.Class("alphabet-open:not-judged")
			return o, nil
		}
		return o, firstErr
	}
	if openAlphabet {
		o.Ambiguous++
		o.Class("alphabet-open")
	}
	classify(&o, c.S1, c.S2, c.Sch, in)
	o.Class("alphabet=%s", c.Kind)
	if prov != "" {
		if strings.HasPrefix(prov, "provenance:") {
			o.Class("provenance:yes")
			for _, k := range c.Plan.Kinds() {
				o.Class("provenance-step:%s", k)
			}
		} else {
			o.Class(prov)
		}
	}
	if c.Hist != nil {
		c.Hist.classes(&o, c)
	}
	if len(c.Calls) > 0 {
		order := ""
		for _, call := range c.Calls {
			order += call.Kind[:1]
		}
		if len(order) > 3 {
			o.Class("setter-history:longer(repeated calls)")
		} else {
			o.Class("setter-history:%s", order)
		}
	}
	if c.Sch.Extend < -10 && in.opt > 0 {
		o.Class("extend<-10")
		if in.longGap >= 2 {
			o.Class("extend<-10,gap-run>=2")
		}
	}
	if c.Kind == "dna" && strings.ContainsAny(c.S1+c.S2, "Xx") {
		o.Class("nucleotide-pair-with-X")
	}
	if lower {
		o.Class("lower-case-present:%s", caseReading)
		if strings.ToLower(c.S1+c.S2) != c.S1+c.S2 {
			o.Class("mixed-case")
		}
	}
	if withBrute {
		o.Class("brute-force-checked")
	}
	return o, nil
}

// ---- (a) exhaustive: every ordered pair over a reduced alphabet x a grid of schemes ----------

func allSeqs(alphabet string, maxLen int) []string {
	var out []string
	cur := []string{""}
	for l := 1; l <= maxLen; l++ {
		var next []string
		for _, p := range cur {
			for i := 0; i < len(alphabet); i++ {
				next = append(next, p+string(alphabet[i]))
			}
		}
		out = append(out, next...)
		cur = next
	}
	return out
}

func schemeGrid() []scheme {
	var out []scheme
	for _, ma := range []float64{1, 2, 5} {
		for _, mi := range []float64{-1, -4} {
			for _, ex := range []float64{-0.5, -1, -3} {
				for k := 0; k < 3; k++ {
					op := []float64{ex, ex - 1, -10}[k]
					out = append(out, scheme{Match: ma, Mismatch: mi, Open: op, Extend: ex})
				}
			}
		}
	}
	return out
}

// callsInOrder: the three setters, once each, in the k-th of their six orders
func callsInOrder(sch scheme, k int) []setterCall {
	three := []setterCall{{Kind: "open", A: sch.Open}, {Kind: "extend", A: sch.Extend}, {Kind: "score", A: sch.Match, B: sch.Mismatch}}
	orders := [][3]int{{0, 1, 2}, {1, 0, 2}, {2, 0, 1}, {0, 2, 1}, {1, 2, 0}, {2, 1, 0}}
	o := orders[k%6]
	return []setterCall{three[o[0]], three[o[1]], three[o[2]]}
}

func enumCheck(c swCase) (o pbt.Outcome, err error) {
	o, err = checkSW(c)
	if o.NonTrivial {
		o.Key = c.S1 + "|" + c.S2 + "|" + c.Sch.String()
	}
	return
}

func TestExhaustive(t *testing.T) {
	alphabet, maxLen := "AC", 4
	if pbt.Thorough() {
		alphabet, maxLen = "ACG", 5
	}
	// soft-masked input: {a,C} (lower case only for one letter) and {A,a} (the same letter in both cases)
	type space struct {
		alphabet string
		maxLen   int
	}
	spaces := []space{{alphabet, maxLen}, {"aC", 4}, {"Aa", 4}}
	if pbt.Thorough() {
		spaces = append(spaces, space{"AaC", 4})
	}
	grid := schemeGrid()
	name := fmt.Sprintf("all ordered pairs of sequences of length 0..%d over {%s}, and of length 0..4 over {a,C} and {A,a} (thorough: {A,a,C}), x %d match/mismatch/open/extend schemes", maxLen, alphabet, len(grid))
	pbt.Enumerate(t, name, func(yield func(swCase) bool) {
		for _, sp := range spaces {
			seqs := append([]string{""}, allSeqs(sp.alphabet, sp.maxLen)...) // the sequence without residue too
			for _, s1 := range seqs {
				for _, s2 := range seqs {
					for k, sch := range grid {
						if !yield(swCase{S1: s1, S2: s2, Kind: "dna", Sch: sch, Calls: callsInOrder(sch, k)}) {
							return
						}
					}
				}
			}
		}
	}, enumCheck)
}

// the built-in matrices on reduced alphabets whose entries have both signs, identical pairs with
// a negative score included (R/R, N/N = -1 in EDNAFULL)
func TestExhaustiveMatrix(t *testing.T) {
	maxLen := pbt.Scale(3, 4)
	gaps := [][2]float64{{-10, -0.5}, {-1, -1}, {-2, -0.5}, {-4, -3}}
	type space struct {
		kind, alphabet string
		maxLen         int
		gaps           [][2]float64
	}
	spaces := []space{{"dna", "ARN", maxLen, gaps}, {"dna", "GSB", maxLen, gaps}, {"aa", "QEL", maxLen, gaps}, {"aa", "FIZ", maxLen, gaps},
		// four letters with pair scores 5, 2, 0, -1, -2 and a gap that costs less than a strong pair: a
		// weak positive pair can restart an alignment in the middle of a running gap
		{"aa", "EDAR", 4, [][2]float64{{-3.5, -0.5}}},
		// soft-masked letters
		{"dna", "aRn", 3, gaps}, {"aa", "qEl", 3, gaps}}
	name := fmt.Sprintf("all ordered pairs of length 1..%d over {A,R,N}, {G,S,B} (EDNAFULL) and {Q,E,L}, {F,I,Z} (BLOSUM62) x %d gap settings; of length 1..4 over {E,D,A,R} with open -3.5, extend -0.5; of length 1..3 over {a,R,n} and {q,E,l}", maxLen, len(gaps))
	pbt.Enumerate(t, name, func(yield func(swCase) bool) {
		for _, sp := range spaces {
			seqs := allSeqs(sp.alphabet, sp.maxLen)
			for _, s1 := range seqs {
				for _, s2 := range seqs {
					for _, g := range sp.gaps {
						if !yield(swCase{S1: s1, S2: s2, Kind: sp.kind, Sch: scheme{Matrix: true, Open: g[0], Extend: g[1]}}) {
							return
						}
					}
				}
			}
		}
	}, enumCheck)
}

// ---- the matrices themselves: symmetry of the oracle's copy, and every entry through the aligner

type entryCase struct {
	Kind string `json:"kind"`
	X    string `json:"x"` // either letter may be in lower case
	Y    string `json:"y"`
}

func TestMatrixEntries(t *testing.T) {
	for _, tb := range []*table{dnaTable, protTable} {
		for i := 0; i < len(tb.letters); i++ {
			for j := 0; j < len(tb.letters); j++ {
				a, b := tb.letters[i], tb.letters[j]
				if tb.m[a][b] != tb.m[b][a] {
					t.Fatalf("harness: the oracle's matrix is not symmetric at %c/%c", a, b)
				}
			}
		}
	}
	pbt.Enumerate(t, "every entry of EDNAFULL (16x16) and BLOSUM62 (24x24), each pinned by the optimum of a flanked pair fXf / fYf, with X / X and Y in lower case too", func(yield func(entryCase) bool) {
		for _, k := range []string{"dna", "aa"} {
			tb := dnaTable
			if k == "aa" {
				tb = protTable
			}
			for i := 0; i < len(tb.letters); i++ {
				for j := 0; j < len(tb.letters); j++ {
					x, y := string(tb.letters[i]), string(tb.letters[j])
					for _, e := range []entryCase{{k, x, y}, {k, strings.ToLower(x), y}, {k, strings.ToLower(x), strings.ToLower(y)}} {
						if e.X == x && e.Y == y && e != (entryCase{k, x, y}) {
							continue // '*' has no lower case
						}
						if !yield(e) {
							return
						}
					}
				}
			}
		}
	}, func(e entryCase) (o pbt.Outcome, err error) {
		tb, flank := dnaTable, "A"
		if e.Kind == "aa" {
			tb, flank = protTable, "F" // F is no nucleotide code: the pair is a protein pair
		}
		c := swCase{S1: flank + e.X + flank, S2: flank + e.Y + flank, Kind: e.Kind, Sch: scheme{Matrix: true, Open: -10, Extend: -0.5}}
		o, err = checkSW(c)
		if err != nil {
			return o, fmt.Errorf("matrix entry %s/%s: %v", e.X, e.Y, err)
		}
		// is the entry really pinned: lowering it lowers the optimum, raising it raises it
		base := c.Sch.sub(tb)
		x, y := up(e.X[0]), up(e.Y[0])
		shift := func(d float64) subFn {
			return func(a, b byte) float64 {
				a, b = up(a), up(b)
				if (a == x && b == y) || (a == y && b == x) {
					return base(a, b) + d
				}
				return base(a, b)
			}
		}
		opt := gotoh(c.S1, c.S2, base, -10, -0.5)
		o.Classes = nil
		if gotoh(c.S1, c.S2, shift(-1), -10, -0.5) < opt && gotoh(c.S1, c.S2, shift(1), -10, -0.5) > opt {
			o.Class("entry-pinned:%s", e.Kind)
			o.NonTrivial = true
		} else {
			o.Class("entry-not-pinned:%s", e.Kind)
			o.NonTrivial = false
		}
		o.Key = e.Kind + e.X + e.Y
		return o, nil
	})
}

// ---- (b) random pairs related by mutation ------------------------------------------------------

func genScheme(t *rapid.T) scheme {
	var s scheme
	s.Matrix = rapid.IntRange(0, 2).Draw(t, "matrix") == 0
	if !s.Matrix {
		s.Match = 0.5 * float64(rapid.IntRange(1, 10).Draw(t, "match2"))
		s.Mismatch = -0.5 * float64(rapid.IntRange(1, 10).Draw(t, "mismatch2"))
	}
	switch rapid.IntRange(0, 6).Draw(t, "gapkind") {
	case 6: // the whole range, beyond the default opening score
		s.Extend = -0.5 * float64(rapid.IntRange(1, 30).Draw(t, "ext2wide"))
		s.Open = s.Extend - 0.5*float64(rapid.IntRange(0, 20).Draw(t, "openminus2wide"))
		return s
	case 0: // the defaults
		s.Open, s.Extend = -10, -0.5
	case 1: // linear
		s.Extend = -0.5 * float64(rapid.IntRange(1, 8).Draw(t, "ext2"))
		s.Open = s.Extend
	default:
		s.Extend = -0.5 * float64(rapid.IntRange(1, 6).Draw(t, "ext2"))
		s.Open = s.Extend - 0.5*float64(rapid.IntRange(0, 20).Draw(t, "openminus2"))
	}
	if s.Matrix && rapid.Bool().Draw(t, "cheapgaps") {
		// matrix scores are large: cheap gaps so that gapped optima are frequent
		s.Extend = -0.5 * float64(rapid.IntRange(1, 4).Draw(t, "ext2m"))
		s.Open = s.Extend - 0.5*float64(rapid.IntRange(0, 8).Draw(t, "openminus2m"))
	}
	return s
}

// genPair draws two sequences; most of the time the second one is a mutated window of the first
// (substitutions, insertions and deletions of 1..5 residues) between random flanks
func genPair(t *rapid.T, letters string, maxLen int) (string, string) {
	pool := letters
	if rapid.IntRange(0, 2).Draw(t, "lowcomplexity") == 0 {
		k := rapid.IntRange(2, 4).Draw(t, "poolsize")
		pool = gen.SeqN(t, letters, k)
	}
	n := rapid.IntRange(1, maxLen).Draw(t, "n1")
	s1 := gen.SeqN(t, pool, n)
	var s2 string
	if k := rapid.IntRange(0, 9).Draw(t, "independent"); k == 0 {
		s2 = gen.SeqN(t, pool, rapid.IntRange(1, maxLen).Draw(t, "n2"))
	} else if k == 1 && maxLen >= 30 {
		// a long copy with a single block of 1..4 residues removed or inserted in the middle: the
		// flanks pay for a gap however expensive the gap scores of the domain are
		s1, s2 = longIndelPair(t, letters, maxLen)
	} else {
		a := rapid.IntRange(0, n-1).Draw(t, "from")
		b := rapid.IntRange(a, n-1).Draw(t, "to")
		var sb strings.Builder
		sb.WriteString(gen.SeqN(t, letters, rapid.IntRange(0, 4).Draw(t, "prefix")))
		rate := rapid.IntRange(0, 3).Draw(t, "rate") // 0 = copy, 3 = heavy
		for i := a; i <= b; i++ {
			op := 0
			if rate > 0 {
				op = rapid.IntRange(0, 24/rate).Draw(t, "op")
			} else {
				op = 9
			}
			switch op {
			case 0, 1: // substitution
				sb.WriteByte(letters[rapid.IntRange(0, len(letters)-1).Draw(t, "sub")])
			case 2: // deletion of a block
				i += rapid.IntRange(0, 4).Draw(t, "dellen")
			case 3: // insertion of a block, then the residue
				sb.WriteString(gen.SeqN(t, pool, rapid.IntRange(1, 5).Draw(t, "inslen")))
				sb.WriteByte(s1[i])
			default:
				sb.WriteByte(s1[i])
			}
		}
		sb.WriteString(gen.SeqN(t, letters, rapid.IntRange(0, 4).Draw(t, "suffix")))
		s2 = sb.String()
		if len(s2) > maxLen {
			s2 = s2[:maxLen]
		}
		if s2 == "" {
			s2 = gen.SeqN(t, pool, 1)
		}
	}
	if rapid.Bool().Draw(t, "swap") {
		s1, s2 = s2, s1
	}
	return s1, s2
}

// lowerWindow / softMask: soft-masked (lower case) residues, as repeat maskers write them
func lowerRange(s string, a, b int) string {
	return s[:a] + strings.ToLower(s[a:b]) + s[b:]
}

func softMask(t *rapid.T, s1, s2 string) (string, string) {
	one := func(s string, how int) string {
		switch how {
		case 0:
			return strings.ToLower(s)
		case 1: // a window
			a := rapid.IntRange(0, len(s)-1).Draw(t, "maskfrom")
			b := rapid.IntRange(a+1, len(s)).Draw(t, "maskto")
			return lowerRange(s, a, b)
		default: // residue by residue
			for i := 0; i < len(s); i++ {
				if rapid.IntRange(0, 2).Draw(t, "maskc") == 0 {
					s = lowerRange(s, i, i+1)
				}
			}
			return s
		}
	}
	switch k := rapid.SampledFrom([]int{9, 9, 9, 9, 9, 9, 9, 9, 0, 1, 2, 3, 4, 5, 6, 7}).Draw(t, "case"); k {
	case 0, 1, 2: // both sequences, the same way
		return one(s1, k), one(s2, k)
	case 3, 4, 5: // the first only
		return one(s1, k-3), s2
	case 6, 7: // the second only
		return s1, one(s2, k-6)
	}
	return s1, s2 // upper case
}

// longIndelPair: a long sequence and its copy with one block of 1..4 residues removed or inserted in
// the middle
func longIndelPair(t *rapid.T, letters string, maxLen int) (s1, s2 string) {
	n := rapid.IntRange(maxLen-10, maxLen).Draw(t, "nlong")
	s1 = gen.SeqN(t, letters, n)
	at := rapid.IntRange(n/2-4, n/2+4).Draw(t, "indelat")
	k := rapid.IntRange(1, 4).Draw(t, "indellen")
	if rapid.Bool().Draw(t, "indelins") {
		s2 = s1[:at] + gen.SeqN(t, letters, k) + s1[at:]
		if len(s2) > maxLen {
			s2 = s2[len(s2)-maxLen:]
		}
	} else {
		s2 = s1[:at] + s1[at+k:]
	}
	return
}

func genSW(t *rapid.T) swCase {
	var c swCase
	c.Sch = genScheme(t)
	c.SetScoreFirst = rapid.Bool().Draw(t, "setscorefirst")
	if rapid.IntRange(0, 2).Draw(t, "history") != 0 {
		c.Calls = genCalls(t, c.Sch)
		if len(c.Calls) == 0 { // every setter left out: the defaults with the built-in matrix
			c.Calls = []setterCall{{Kind: "open", A: c.Sch.Open}}
		}
	}
	if rapid.Bool().Draw(t, "protein") {
		c.Kind = "aa"
		c.S1, c.S2 = genPair(t, protLetters, 40)
		// most protein pairs carry a letter that only a protein can contain; the others exercise
		// the open reading of the alphabet detection
		if !strings.ContainsAny(c.S1+c.S2, protOnly) && rapid.IntRange(0, 9).Draw(t, "leaveopen") != 0 {
			b := []byte(c.S1)
			b[rapid.IntRange(0, len(b)-1).Draw(t, "where")] = protOnly[rapid.IntRange(0, len(protOnly)-1).Draw(t, "which")]
			c.S1 = string(b)
		}
	} else {
		c.Kind = "dna"
		letters := dnaLetters
		switch rapid.IntRange(0, 6).Draw(t, "dnaletters") {
		case 0:
			letters = dnaLetters + "U"
		case 1, 2:
			letters = "ACGT"
		case 3: // every character the nucleotide index map knows
			letters = dnaLetters + "UX"
		case 4:
			letters = "ACGTNX"
		}
		c.S1, c.S2 = genPair(t, letters, 40)
		if c.Sch.Open+c.Sch.Extend < -10 && rapid.IntRange(0, 2).Draw(t, "flanks") == 0 {
			// expensive gaps: long identical flanks, so that a gapped optimum exists all the same
			c.S1, c.S2 = longIndelPair(t, "ACGT", 40)
		}
	}
	c.S1, c.S2 = softMask(t, c.S1, c.S2)
	if rapid.IntRange(0, 3).Draw(t, "provenance") == 0 {
		// the sequences come out of an alignment that was cloned, renamed, cut, cleaned, re-parsed ...
		p := gen.DrawPlan(t, swAli(c), "ACGT-", 3)
		c.Plan = &p
	}
	if rapid.IntRange(0, 39).Draw(t, "empty") == 0 {
		// a sequence without residue, on one side or both
		switch c.Plan = nil; rapid.IntRange(0, 2).Draw(t, "whichempty") {
		case 0:
			c.S1 = ""
		case 1:
			c.S2 = ""
		default:
			c.S1, c.S2 = "", ""
		}
	}
	return c
}

func TestRandom(t *testing.T) { pbt.Run(t, genSW, checkSW) }

// ---- the inputs are left unmodified: both algorithms, error paths included --------------------

type inputCase struct {
	S1  string `json:"s1"`
	S2  string `json:"s2"`
	ATG bool   `json:"atg"` // the reversed variant of the same aligner (ALIGN_ALGO_ATG)
	Sch scheme `json:"scheme"`
}

func TestInputsUnmodified(t *testing.T) {
	pbt.Run(t, func(t *rapid.T) inputCase {
		var c inputCase
		c.ATG = rapid.Bool().Draw(t, "atg")
		c.Sch = genScheme(t)
		letters := "ACGT"
		if rapid.Bool().Draw(t, "protein") {
			letters = protLetters
		}
		c.S1, c.S2 = genPair(t, letters, 20)
		c.S1, c.S2 = softMask(t, c.S1, c.S2)
		// sometimes a character that no matrix knows, at a drawn position of either sequence
		if k := rapid.IntRange(0, 3).Draw(t, "foreign"); k < 2 {
			ch := "-.?J"[rapid.IntRange(0, 3).Draw(t, "foreignchar")]
			s := &c.S1
			if k == 1 {
				s = &c.S2
			}
			b := []byte(*s)
			b[rapid.IntRange(0, len(b)-1).Draw(t, "foreignpos")] = ch
			*s = string(b)
		}
		return c
	}, func(c inputCase) (o pbt.Outcome, err error) {
		b1, b2 := []uint8(c.S1), []uint8(c.S2)
		s1 := align.NewSequence("query", b1, "c1")
		s2 := align.NewSequence("subject", b2, "c2")
		algo := align.ALIGN_ALGO_SW
		if c.ATG {
			algo = align.ALIGN_ALGO_ATG
		}
		a := align.NewPwAligner(s1, s2, algo)
		a.SetGapOpenScore(c.Sch.Open)
		a.SetGapExtendScore(c.Sch.Extend)
		if !c.Sch.Matrix {
			a.SetScore(c.Sch.Match, c.Sch.Mismatch)
		}
		var e error
		panicked := func() (p bool) {
			// only the "unmodified" clause is judged here; what the reversed variant returns
			// belongs to the phasing property
			defer func() {
				if r := recover(); r != nil {
					p = true
				}
			}()
			_, e = a.Alignment()
			return false
		}()
		if s1.Sequence() != c.S1 || s2.Sequence() != c.S2 || string(b1) != c.S1 || string(b2) != c.S2 ||
			s1.Name() != "query" || s2.Name() != "subject" || s1.Comment() != "c1" || s2.Comment() != "c2" {
			return o, fmt.Errorf("the inputs were modified by Alignment() (error: %v): %q / %q", e, s1.Sequence(), s2.Sequence())
		}
		// the rows handed out do not alias the inputs either
		if e == nil && !panicked {
			for _, r := range [][]uint8{a.Seq1Ali(), a.Seq2Ali()} {
				for i := range r {
					r[i] = '#'
				}
			}
			if s1.Sequence() != c.S1 || s2.Sequence() != c.S2 {
				return o, fmt.Errorf("writing into the returned rows changes the inputs: %q / %q", s1.Sequence(), s2.Sequence())
			}
		}
		rev := func(s string) string {
			b := []byte(s)
			for i, j := 0, len(b)-1; i < j; i, j = i+1, j-1 {
				b[i], b[j] = b[j], b[i]
			}
			return string(b)
		}
		o.NonTrivial = rev(c.S1) != c.S1 && rev(c.S2) != c.S2
		o.Class("atg=%v", c.ATG)
		if hasLower(c.S1 + c.S2) {
			o.Class("lower-case-present,atg=%v", c.ATG)
		}
		switch {
		case panicked:
			o.Class("outcome=panic(not judged)")
		case e != nil:
			o.Class("outcome=error")
		default:
			o.Class("outcome=aligned")
		}
		return o, nil
	})
}

// ---- command line tier --------------------------------------------------------------------------

type cliCase struct {
	Seqs []gen.Row `json:"seqs"` // 2 in the domain; 1 or 3 must be refused
	Kind string    `json:"kind"`
	// which flags are given; a missing --match or --mismatch takes its default (1 / -1) as soon as the
	// other one is given, both missing = built-in matrix; missing gap flags = -10 / -0.5
	GiveMatch, GiveMismatch, GiveOpen, GiveExtend bool
	Sch                                           scheme `json:"scheme"`
	ToFile                                        bool   `json:"tofile"`
	// Layout: presentation of the input FASTA file (wrapped lines, blocks, CRLF, ...)
	Layout cli.Layout `json:"layout"`
	// NoLog: -l not given (default "none"); OutState / LogState: what is at the path given to -o / -l
	// before the run: 0 an empty file, 1 nothing, 2 a longer file left by an earlier run
	NoLog    bool `json:"nolog"`
	OutState int  `json:"outstate"`
	LogState int  `json:"logstate"`
}

func parseLog(s string) (ob obs, err error) {
	lines := strings.Split(s, "\n")
	get := func(i int, format string, a ...interface{}) error {
		if i >= len(lines) {
			return fmt.Errorf("log too short: %q", s)
		}
		if _, e := fmt.Sscanf(lines[i], format, a...); e != nil {
			return fmt.Errorf("log line %q: %v", lines[i], e)
		}
		return nil
	}
	if err = get(0, "Query Start,End: %d,%d", &ob.S1, &ob.E1); err != nil {
		return
	}
	if err = get(1, "Subject Start,End: %d,%d", &ob.S2, &ob.E2); err != nil {
		return
	}
	if err = get(2, "Align length: %d", &ob.Length); err != nil {
		return
	}
	if err = get(3, "Align Score: %g", &ob.Score); err != nil {
		return
	}
	if err = get(4, "Align Matches: %d", &ob.M); err != nil {
		return
	}
	if err = get(5, "Align Mismatches: %d", &ob.MM); err != nil {
		return
	}
	if err = get(6, "Align Gaps: %d", &ob.G); err != nil {
		return
	}
	if len(lines) < 11 || lines[7] != "Alignment:" {
		return ob, fmt.Errorf("log without the alignment block: %q", s)
	}
	ob.Row1, ob.Row2 = lines[8], lines[10]
	for _, l := range lines[11:] {
		if l != "" {
			return ob, fmt.Errorf("log continues behind the alignment block: %q", l)
		}
	}
	return
}

func TestCLI(t *testing.T) {
	if cli.Binary() == "" {
		t.Skip("no goalign binary")
	}
	dir := cli.TempDir("c09cli")
	pbt.Run(t, func(t *rapid.T) cliCase {
		var c cliCase
		sw := genSW(t)
		// the command line has no way to say which alphabet is meant: keep to pairs whose alphabet is
		// not open
		if sw.Kind == "aa" && !strings.ContainsAny(strings.ToUpper(sw.S1+sw.S2), protOnly) {
			sw.S1 = "Q" + sw.S1
		}
		c.Kind = sw.Kind
		c.Sch = sw.Sch
		c.Seqs = []gen.Row{{Name: "query", Seq: sw.S1}, {Name: "subject", Seq: sw.S2}}
		switch rapid.SampledFrom([]int{2, 2, 2, 2, 2, 2, 2, 2, 2, 2, 2, 2, 2, 2, 1, 3}).Draw(t, "nseq") {
		case 1:
			c.Seqs = c.Seqs[:1]
		case 3:
			c.Seqs = append(c.Seqs, gen.Row{Name: "third", Seq: sw.S1})
		}
		if c.Sch.Matrix {
			c.GiveMatch, c.GiveMismatch = false, false
		} else {
			switch rapid.IntRange(0, 3).Draw(t, "whichscore") {
			case 0:
				c.GiveMatch = true
				c.Sch.Mismatch = -1
			case 1:
				c.GiveMismatch = true
				c.Sch.Match = 1
			default:
				c.GiveMatch, c.GiveMismatch = true, true
			}
		}
		c.GiveOpen = rapid.IntRange(0, 3).Draw(t, "giveopen") != 0
		c.GiveExtend = rapid.IntRange(0, 3).Draw(t, "giveextend") != 0
		if !c.GiveOpen {
			c.Sch.Open = -10
		}
		if !c.GiveExtend {
			c.Sch.Extend = -0.5
		}
		if c.Sch.Open > c.Sch.Extend { // keep open <= extend after the defaults came in
			c.GiveOpen = true
			c.Sch.Open = c.Sch.Extend - 0.5*float64(rapid.IntRange(0, 6).Draw(t, "reopen"))
		}
		c.ToFile = rapid.Bool().Draw(t, "tofile")
		// lengths beyond the FASTA writer's line width
		if len(c.Seqs) >= 2 && sw.S1 != "" && sw.S2 != "" && rapid.IntRange(0, 9).Draw(t, "long") == 0 {
			unit := c.Seqs[0].Seq
			for len(c.Seqs[0].Seq) < 100 {
				c.Seqs[0].Seq += unit
			}
			c.Seqs[1].Seq = c.Seqs[1].Seq + c.Seqs[0].Seq[:90]
		}
		c.Layout = cli.DrawLayout(t)
		c.NoLog = rapid.IntRange(0, 5).Draw(t, "nolog") == 0
		c.OutState = rapid.SampledFrom([]int{0, 1, 2, 2}).Draw(t, "outstate")
		c.LogState = rapid.SampledFrom([]int{0, 1, 2, 2}).Draw(t, "logstate")
		return c
	}, func(c cliCase) (o pbt.Outcome, err error) {
		in := cli.TempFile(dir, ".fa", cli.FastaLayout(c.Seqs, c.Layout))
		logf := cli.TempFile(dir, ".log", "")
		outf := cli.TempFile(dir, ".out", "")
		defer func() { os.Remove(in); os.Remove(logf); os.Remove(outf) }()
		for _, f := range []struct {
			path  string
			state int
		}{{outf, c.OutState}, {logf, c.LogState}} {
			switch f.state {
			case 1:
				os.Remove(f.path)
			case 2:
				cli.StaleFile(f.path, 60)
			}
		}
		args := []string{"sw", "-i", in}
		if !c.NoLog {
			args = append(args, "-l", logf)
		}
		if c.GiveMatch {
			args = append(args, fmt.Sprintf("--match=%g", c.Sch.Match))
		}
		if c.GiveMismatch {
			args = append(args, fmt.Sprintf("--mismatch=%g", c.Sch.Mismatch))
		}
		if c.GiveOpen {
			args = append(args, "--gap-open", fmt.Sprintf("%g", c.Sch.Open))
		}
		if c.GiveExtend {
			args = append(args, fmt.Sprintf("--gap-extend=%g", c.Sch.Extend))
		}
		if c.ToFile {
			args = append(args, "-o", outf)
		}
		r := cli.Run("", args...)
		if r.TimedOut {
			return o, fmt.Errorf("goalign %v does not return", args)
		}
		if strings.Contains(r.Stderr, "goroutine ") || strings.Contains(r.Stderr, "panic:") {
			return o, fmt.Errorf("goalign %v: the command panics: exit %d, stderr %q", args, r.Exit, r.Stderr)
		}
		if len(c.Seqs) == 2 && (c.Seqs[0].Seq == "" || c.Seqs[1].Seq == "") {
			// an entry without residue: refused with a message, or the empty alignment
			if r.Exit != 0 {
				if strings.TrimSpace(r.Stderr) == "" {
					return o, fmt.Errorf("goalign %v: exit %d without any message for an empty sequence", args, r.Exit)
				}
				o.Class("empty-sequence:refused")
				return o, nil
			}
			out := r.Stdout
			if c.ToFile {
				b, _ := os.ReadFile(outf)
				out = string(b)
			}
			rows, _ := cli.ParseFasta(out)
			for _, row := range rows {
				if row.Seq != "" {
					return o, fmt.Errorf("goalign %v: an empty input sequence, status 0 and the output %q", args, out)
				}
			}
			o.Ambiguous++
			o.Class("empty-sequence:empty-alignment")
			return o, nil
		}
		if len(c.Seqs) != 2 {
			if r.Exit == 0 {
				return o, fmt.Errorf("goalign %v: %d sequences accepted with status 0 (two are required)", args, len(c.Seqs))
			}
			o.Class("refused:%d-sequences", len(c.Seqs))
			return o, nil
		}
		if r.Exit != 0 {
			return o, fmt.Errorf("goalign %v: exit %d, stderr %q", args, r.Exit, r.Stderr)
		}
		out := r.Stdout
		if c.ToFile {
			b, _ := os.ReadFile(outf)
			out = string(b)
		}
		rows, perr := cli.ParseFasta(out)
		if perr != nil || len(rows) != 2 {
			return o, fmt.Errorf("goalign %v: output is not two FASTA records: %q", args, out)
		}
		if c.NoLog {
			// only the alignment is observable: two rows under the input names, without an all-gap
			// column, spelling substrings of the inputs, and - some local alignment being positive -
			// scoring the optimum
			if rows[0].Name != "query" || rows[1].Name != "subject" || len(rows[0].Seq) != len(rows[1].Seq) {
				return o, fmt.Errorf("goalign %v: output %s", args, gen.Show(rows))
			}
			for k := range rows[0].Seq {
				if rows[0].Seq[k] == '-' && rows[1].Seq[k] == '-' {
					return o, fmt.Errorf("goalign %v: all-gap column in %s", args, gen.Show(rows))
				}
			}
			if !strings.Contains(c.Seqs[0].Seq, ungap(rows[0].Seq)) || !strings.Contains(c.Seqs[1].Seq, ungap(rows[1].Seq)) {
				return o, fmt.Errorf("goalign %v: the rows %s are not substrings of the inputs", args, gen.Show(rows))
			}
			tb := dnaTable
			if c.Kind == "aa" {
				tb = protTable
			}
			ok := false
			var opt, got float64
			for _, rd := range readingsOf(c.Sch, tb, hasLower(c.Seqs[0].Seq+c.Seqs[1].Seq)) {
				opt = gotoh(c.Seqs[0].Seq, c.Seqs[1].Seq, rd.sub, c.Sch.Open, c.Sch.Extend)
				got = scoreRows(rows[0].Seq, rows[1].Seq, rd.sub, c.Sch.Open, c.Sch.Extend)
				ok = ok || opt <= 0 || got == opt
			}
			if !ok {
				return o, fmt.Errorf("goalign %v: the rows written %s score %g, the optimum is %g", args, gen.Show(rows), got, opt)
			}
			o.NonTrivial = opt > 0
			o.Class("no-log")
			o.Class("out-file-state=%d,tofile=%v", c.OutState, c.ToFile)
			return o, nil
		}
		lb, _ := os.ReadFile(logf)
		ob, lerr := parseLog(string(lb))
		if lerr != nil {
			return o, fmt.Errorf("goalign %v: %v", args, lerr)
		}
		if rows[0].Name != "query" || rows[1].Name != "subject" || rows[0].Seq != ob.Row1 || rows[1].Seq != ob.Row2 {
			return o, fmt.Errorf("goalign %v: the alignment written (%s) differs from the one in the log (%q / %q)", args, gen.Show(rows), ob.Row1, ob.Row2)
		}
		tb := dnaTable
		if c.Kind == "aa" {
			tb = protTable
		}
		s1, s2 := c.Seqs[0].Seq, c.Seqs[1].Seq
		var info info
		var jerr error
		lower := hasLower(s1 + s2)
		for ri, rd := range readingsOf(c.Sch, tb, lower) {
			var e error
			info, e = judge(s1, s2, rd, c.Sch.Open, c.Sch.Extend, ob, len(s1) <= 3 && len(s2) <= 3)
			if e == nil {
				jerr = nil
				if ri > 0 {
					o.Ambiguous++
				}
				if lower {
					o.Class("lower-case-present:%s", rd.name)
				}
				break
			}
			if jerr == nil {
				jerr = e
			}
		}
		if jerr != nil {
			return o, fmt.Errorf("goalign %v: %v", args, jerr)
		}
		classify(&o, s1, s2, c.Sch, info)
		o.Class("flags:match=%v,mismatch=%v", c.GiveMatch, c.GiveMismatch)
		o.Class("flags:open=%v,extend=%v", c.GiveOpen, c.GiveExtend)
		o.Class("alphabet=%s", c.Kind)
		if !c.Layout.Plain() {
			o.Class("input-layout:not-plain")
			if c.Layout.Blocks > 0 {
				o.Class("input-layout:blocks")
			}
		}
		if c.ToFile {
			o.Class("out-file-state=%d", c.OutState)
		}
		o.Class("log-file-state=%d", c.LogState)
		return o, nil
	})
}
