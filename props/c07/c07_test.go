// C07 - Nucleotide distances equal the published estimators and form sane matrices
package c07

import (
	"fmt"
	"io"
	"log"
	"math"
	"os"
	"strconv"
	"strings"
	"testing"

	"pgregory.net/rapid"
	"verif/internal/cli"
	"verif/internal/distrun"
	"verif/internal/gen"
	"verif/internal/pbt"
	"verif/internal/refdist"
)

func TestMain(m *testing.M) {
	log.SetOutput(io.Discard)
	pbt.Main(m, "C07")
}

// Findings on the unchanged tree that wait for a decision (props/c07/FINDINGS.md): the generators
// and oracles steer around their signature and count it, exactly as for a listed known finding.
var pending = map[string]bool{keyInternalRmGaps: true, keyPiGapCells: true}

func steerAround(key string) bool { return pbt.Known(key) || pending[key] }

const keyInternalRmGaps = "internal-gap-mode-ignores-rm-gaps"
const keyPiGapCells = "pi-over-gap-cells"

func judgeOpt(tol refdist.Tol) refdist.JudgeOpt {
	return refdist.JudgeOpt{Tol: tol, ExemptBelowP: steerAround(keyPiGapCells)}
}

// keepAllReadings: which readings of "--rm-gaps with --gap-mut 1" are accepted
func keepAllReadings(o *pbt.Outcome, rows []string, opt refdist.Options) []bool {
	if !steerAround(keyInternalRmGaps) {
		return []bool{false}
	}
	hasGap, hasAmb := refdist.Describe(rows)
	if opt.RmGaps && (opt.Model == refdist.Raw || opt.Model == refdist.PDist) && opt.GapMut == refdist.GapInternal && (hasGap || hasAmb) {
		o.Exclude(keyInternalRmGaps)
	}
	return []bool{false, true}
}

// ---- library tier: DistMatrix against the closed forms -------------------------------------------

type estCase struct {
	Rows    []string        `json:"rows"`
	Opt     refdist.Options `json:"opt"`
	Tier    int             `json:"tier"`
	ViaName bool            `json:"via_name"` // dna.Model(name, rmgaps) instead of the constructor
	Threads int             `json:"threads"`
}

func genEst(t *rapid.T) estCase {
	var c estCase
	c.Rows, c.Tier = refdist.GenRows(t, 2, 8, pbt.Scale(60, 300), -1)
	c.Opt = refdist.GenOptions(t, len(c.Rows), len(c.Rows[0]), true, true)
	c.ViaName = rapid.Bool().Draw(t, "via-name")
	c.Threads = rapid.IntRange(1, 3).Draw(t, "threads")
	return c
}

// classify adds the classes of a judged matrix
func classify(o *pbt.Outcome, opt refdist.Options, tier int, ref *refdist.Ref) {
	g := ""
	if opt.Gamma && refdist.Corrected(opt.Model) {
		g = "+gamma"
	}
	o.Class("model=%s%s tier=%d", opt.Model, g, tier)
	seen := map[string]bool{}
	for i := 0; i < ref.N; i++ {
		for j := i + 1; j < ref.N; j++ {
			e := ref.E[i][j]
			var k string
			switch {
			case e.Kind == refdist.Outside:
				k = "pair:outside-ranges"
			case !(e.Total > 0):
				k = "pair:no-comparable-site"
			case e.Kind == refdist.Undefined:
				k = "pair:saturated(undefined)"
			case e.Kind == refdist.Ill:
				k = "pair:ill-conditioned"
			case e.Kind == refdist.Huge:
				k = "pair:huge"
			case e.Diff == 0:
				k = "pair:identical"
			case refdist.Corrected(opt.Model) && e.MinArg < 0.2:
				k = "pair:near-saturated"
			default:
				k = "pair:typical"
			}
			if !seen[k] {
				seen[k] = true
				o.Class(k)
			}
		}
	}
	if opt.Weights != nil {
		o.Class("weights")
	}
	if opt.Ranges != nil {
		o.Class("ranges")
	}
	if opt.RmGaps {
		o.Class("rm-gaps")
	}
	if opt.Model == refdist.Raw || opt.Model == refdist.PDist {
		o.Class("gap-mut=%d", opt.GapMut)
		if opt.Model == refdist.PDist && opt.RmAmbiguous {
			o.Class("rm-ambiguous")
		}
	}
}

func checkEst(c estCase) (o pbt.Outcome, err error) {
	ali := distrun.Ali(c.Rows)
	al := gen.MustBuild(ali)
	model, e := distrun.Model(c.Opt, c.ViaName)
	if e != nil {
		return o, fmt.Errorf("building the model fails for valid options: %v", e)
	}
	got, e := distrun.MatrixWith(al, c.Opt, model, c.Threads)
	if e != nil {
		return o, fmt.Errorf("DistMatrix fails on a nucleotide alignment with valid options: %v", e)
	}
	if !gen.SameRows(gen.Snapshot(al), ali.Rows) {
		return o, fmt.Errorf("DistMatrix modified the alignment: %s", gen.Show(gen.Snapshot(al)))
	}
	readings := refdist.Readings(c.Rows, c.Opt, keepAllReadings(&o, c.Rows, c.Opt))
	v, ref, err := refdist.JudgeAny(got, c.Rows, c.Opt, readings, judgeOpt(refdist.LibTol))
	if err != nil {
		return o, err
	}
	// second observation point: Distance on the encoded rows (no substitution there): a defined
	// entry has the value of the matrix, an undefined one is something DistMatrix documents as not
	// computable (NaN, infinite, negative, above the limit)
	for i := 0; i < ref.N; i++ {
		si, e1 := model.Sequence(i)
		if e1 != nil {
			return o, fmt.Errorf("Sequence(%d) fails: %v", i, e1)
		}
		for j := i + 1; j < ref.N; j++ {
			sj, e2 := model.Sequence(j)
			if e2 != nil {
				return o, fmt.Errorf("Sequence(%d) fails: %v", j, e2)
			}
			d, e3 := model.Distance(si, sj, c.Opt.Weights)
			if e3 != nil {
				return o, fmt.Errorf("Distance(%d,%d) fails: %v", i, j, e3)
			}
			d2, _ := model.Distance(sj, si, c.Opt.Weights)
			if !(d == d2 || math.IsNaN(d) && math.IsNaN(d2)) {
				return o, fmt.Errorf("Distance(%d,%d) = %v but Distance(%d,%d) = %v", i, j, d, j, i, d2)
			}
			switch en := ref.E[i][j]; en.Kind {
			case refdist.Defined:
				if math.IsNaN(d) || !refdist.LibTol.Close(d, en.Value) {
					return o, fmt.Errorf("Distance(%d,%d) = %.15g, the estimator gives %.15g", i, j, d, en.Value)
				}
			case refdist.Undefined:
				if !(math.IsNaN(d) || math.IsInf(d, 0) || d < 0 || d > refdist.HugeLimit) && !(en.Diff == 0 && !(en.Total > 0) && d == 0) {
					return o, fmt.Errorf("Distance(%d,%d) = %.15g although the estimator is undefined (%g differences over %g sites, smallest log argument %g)", i, j, d, en.Diff, en.Total, en.MinArg)
				}
			}
		}
	}
	o.Ill += v.Ill
	for k := 0; k < v.BelowP; k++ {
		o.Exclude(keyPiGapCells)
	}
	o.Ambiguous += v.Ambiguous
	o.NonTrivial = v.NonTrivial > 0
	classify(&o, c.Opt, c.Tier, ref)
	if v.Substitute > 0 {
		o.Class("undefined-reported-as-2max")
	}
	if v.NaNs > 0 {
		o.Class("undefined-reported-as-NaN")
	}
	return o, nil
}

func TestEstimators(t *testing.T) { pbt.Run(t, genEst, checkEst) }

// ---- bounded exhaustive: every alignment of two rows and two columns x every option combination ----

type enumCase struct {
	Rows []string        `json:"rows"`
	Opt  refdist.Options `json:"opt"`
}

func enumOptions() []refdist.Options {
	var out []refdist.Options
	for _, m := range refdist.Models {
		for _, rm := range []bool{false, true} {
			switch m {
			case refdist.Raw:
				for g := 0; g <= 2; g++ {
					out = append(out, refdist.Options{Model: m, RmGaps: rm, GapMut: g})
				}
			case refdist.PDist:
				for g := 0; g <= 2; g++ {
					for _, ra := range []bool{false, true} {
						out = append(out, refdist.Options{Model: m, RmGaps: rm, GapMut: g, RmAmbiguous: ra})
					}
				}
			default:
				out = append(out, refdist.Options{Model: m, RmGaps: rm})
				out = append(out, refdist.Options{Model: m, RmGaps: rm, Gamma: true, Alpha: 0.5})
			}
		}
	}
	return out
}

func enumWords(symbols string, l int) []string {
	words := []string{""}
	for k := 0; k < l; k++ {
		var next []string
		for _, w := range words {
			for i := 0; i < len(symbols); i++ {
				next = append(next, w+string(symbols[i]))
			}
		}
		words = next
	}
	return words
}

func checkEnum(c enumCase) (o pbt.Outcome, err error) {
	al := gen.MustBuild(distrun.Ali(c.Rows))
	got, e := distrun.Matrix(al, c.Opt, false, 1)
	if e != nil {
		return o, fmt.Errorf("DistMatrix fails: %v", e)
	}
	readings := refdist.Readings(c.Rows, c.Opt, keepAllReadings(&o, c.Rows, c.Opt))
	v, ref, err := refdist.JudgeAny(got, c.Rows, c.Opt, readings, judgeOpt(refdist.LibTol))
	if err != nil {
		return o, err
	}
	o.Ill += v.Ill
	o.Ambiguous += v.Ambiguous
	for k := 0; k < v.BelowP; k++ {
		o.Exclude(keyPiGapCells)
	}
	if v.NonTrivial > 0 {
		o.NonTrivial = true
		o.Key = fmt.Sprintf("%v %+v", c.Rows, c.Opt)
	}
	g := ""
	if c.Opt.Gamma {
		g = "+gamma"
	}
	o.Class("model=%s%s %s", c.Opt.Model, g, ref.E[0][1].Kind)
	return o, nil
}

func TestEnumerateSmall(t *testing.T) {
	type space struct {
		symbols string
		l       int
	}
	spaces := []space{{"ACGT-RYN", 2}}
	name := "2 rows x 2 columns over ACGT-RYN x 38 option combinations (7 models, rm-gaps, gap-mut 0/1/2, rm-ambiguous, gamma alpha=0.5)"
	if pbt.Thorough() {
		spaces = []space{{"ACGTRYSWKMBDHVN-", 2}, {"ACGT-", 3}}
		name = "2 rows x 2 columns over the 15 IUPAC codes and the gap, and 2 rows x 3 columns over ACGT-, x 38 option combinations (7 models, rm-gaps, gap-mut 0/1/2, rm-ambiguous, gamma alpha=0.5)"
	}
	opts := enumOptions()
	pbt.Enumerate(t, name, func(yield func(enumCase) bool) {
		for _, sp := range spaces {
			words := enumWords(sp.symbols, sp.l)
			for _, a := range words {
				for _, b := range words {
					for _, op := range opts {
						if !yield(enumCase{[]string{a, b}, op}) {
							return
						}
					}
				}
			}
		}
	}, checkEnum)
}

// ---- command line tier ------------------------------------------------------------------------------

type cliCase struct {
	Rows    []string        `json:"rows"`
	Opt     refdist.Options `json:"opt"`
	Tier    int             `json:"tier"`
	Threads int             `json:"threads"`
	Phylip  bool            `json:"phylip"`
	ToFile  bool            `json:"to_file"`
	Average bool            `json:"average"`
	// Bad: "" or the kind of invalid invocation (the command must fail)
	Bad string `json:"bad"`
}

func genCLI(t *rapid.T) cliCase {
	var c cliCase
	c.Rows, c.Tier = refdist.GenRows(t, 2, 6, 30, -1)
	c.Opt = refdist.GenOptions(t, len(c.Rows), len(c.Rows[0]), true, false)
	if !c.Opt.Gamma {
		c.Opt.Alpha = 0
	}
	c.Threads = rapid.SampledFrom([]int{0, 1, 2, 4}).Draw(t, "threads")
	c.Phylip = rapid.IntRange(0, 3).Draw(t, "phylip") == 0
	c.ToFile = rapid.IntRange(0, 3).Draw(t, "tofile") == 0
	c.Average = rapid.IntRange(0, 5).Draw(t, "average") == 0
	if rapid.IntRange(0, 7).Draw(t, "bad") == 0 {
		c.Bad = rapid.SampledFrom([]string{"gap-mut-3", "gap-mut-negative", "unknown-model", "range-min>max", "range-malformed", "single-range", "protein-alignment", "missing-file"}).Draw(t, "badkind")
		if (c.Bad == "gap-mut-3" || c.Bad == "gap-mut-negative") && refdist.Corrected(c.Opt.Model) {
			c.Opt.Model = refdist.PDist
		}
	}
	return c
}

func phylip(rows []gen.Row) string {
	s := fmt.Sprintf("%d %d\n", len(rows), len(rows[0].Seq))
	for _, r := range rows {
		s += r.Name + "  " + r.Seq + "\n"
	}
	return s
}

func TestCLI(t *testing.T) {
	if cli.Binary() == "" {
		t.Skip("no goalign binary")
	}
	dir := cli.TempDir("c07cli")
	pbt.Run(t, genCLI, func(c cliCase) (o pbt.Outcome, err error) {
		ali := distrun.Ali(c.Rows)
		rows := ali.Rows
		if c.Bad == "protein-alignment" {
			rows = append([]gen.Row{}, rows...)
			rows[0].Seq = "E" + rows[0].Seq[1:] // E is no nucleotide code: the alignment is detected as protein
		}
		var in string
		if c.Phylip {
			in = cli.TempFile(dir, ".phy", phylip(rows))
		} else {
			in = cli.TempFile(dir, ".fa", cli.Fasta(rows))
		}
		defer os.Remove(in)
		opt := c.Opt
		args := distrun.Args(opt, in, c.Threads)
		switch c.Bad {
		case "gap-mut-3":
			args = append(args, "--gap-mut", "3")
		case "gap-mut-negative":
			args = append(args, "--gap-mut", "-1")
		case "unknown-model":
			args = append(args, "-m", "hky85")
		case "range-min>max":
			args = append(args, "--range1", "1:0", "--range2", "0:1")
		case "range-malformed":
			args = append(args, "--range1", "0-1", "--range2", "0:1")
		case "single-range":
			opt.Ranges = nil
			args = append(distrun.Args(opt, in, c.Threads), "--range1", "0:1")
		case "missing-file":
			args = append(args, "-i", in+".absent")
		}
		if c.Phylip {
			args = append(args, "-p")
		}
		if c.Average {
			args = append(args, "-a")
		}
		outFile := ""
		if c.ToFile {
			outFile = in + ".out"
			args = append(args, "-o", outFile)
			defer os.Remove(outFile)
		}
		r := cli.Run("", args...)
		if r.TimedOut {
			return o, fmt.Errorf("goalign %v did not finish", args)
		}
		if c.Bad != "" {
			if r.Exit == 0 {
				return o, fmt.Errorf("goalign %v: invalid invocation (%s) but exit status 0, stdout %q", args, c.Bad, r.Stdout)
			}
			o.Class("bad:%s", c.Bad)
			return o, nil
		}
		if r.Exit != 0 {
			return o, fmt.Errorf("goalign %v: exit %d on a valid invocation, stderr %q", args, r.Exit, trunc(r.Stderr, 300))
		}
		text := r.Stdout
		if c.ToFile {
			b, e := os.ReadFile(outFile)
			if e != nil {
				return o, fmt.Errorf("goalign %v: output file not written: %v", args, e)
			}
			if r.Stdout != "" {
				return o, fmt.Errorf("goalign %v: -o given but standard output is %q", args, r.Stdout)
			}
			text = string(b)
		}
		readings := refdist.Readings(c.Rows, c.Opt, keepAllReadings(&o, c.Rows, c.Opt))
		if c.Average {
			return checkAverage(c, text, readings, o)
		}
		names, got, perr := distrun.ParseMatrix(text)
		if perr != nil {
			return o, fmt.Errorf("goalign %v: unreadable matrix: %v\n%s", args, perr, trunc(text, 600))
		}
		for i, n := range names {
			if n != ali.Rows[i].Name {
				return o, fmt.Errorf("goalign %v: row %d is named %q, want %q", args, i, n, ali.Rows[i].Name)
			}
		}
		v, ref, err := refdist.JudgeAny(got, c.Rows, c.Opt, readings, judgeOpt(refdist.CLITol))
		if err != nil {
			return o, fmt.Errorf("goalign %v\n%v", args, err)
		}
		o.Ill += v.Ill
		o.Ambiguous += v.Ambiguous
		for k := 0; k < v.BelowP; k++ {
			o.Exclude(keyPiGapCells)
		}
		o.NonTrivial = v.NonTrivial > 0
		classify(&o, c.Opt, c.Tier, ref)
		o.Class("threads=%d", c.Threads)
		if c.Phylip {
			o.Class("phylip-input")
		}
		if c.ToFile {
			o.Class("output-file")
		}
		return o, nil
	})
}

// checkAverage: -a prints the mean of the entries above the diagonal that are numbers
func checkAverage(c cliCase, text string, readings []refdist.Reading, o pbt.Outcome) (pbt.Outcome, error) {
	o.Class("average")
	line := strings.TrimSpace(text)
	if strings.ContainsAny(line, "\n\t ") {
		return o, fmt.Errorf("-a prints more than one value: %q", text)
	}
	var got float64
	if line == "NaN" {
		got = math.NaN()
	} else {
		dot := strings.IndexByte(line, '.')
		g, e := strconv.ParseFloat(line, 64)
		if e != nil || dot < 0 || len(line)-dot-1 != 12 {
			return o, fmt.Errorf("-a does not print one value with 12 decimals: %q", text)
		}
		got = g
	}
	var msgs []string
	for _, rd := range readings {
		ref := refdist.Reference(c.Rows, c.Opt, rd)
		if ref.NIll+ref.NHuge+ref.NUndefined > 0 {
			// the mean hides the entries that are not numbers and contains substitutes: not judged
			o.Class("average-with-undefined-pairs")
			o.Ill++
			return o, nil
		}
		sum, n := 0.0, 0
		for i := 0; i < ref.N; i++ {
			for j := i + 1; j < ref.N; j++ {
				sum += ref.E[i][j].Value // 0 outside the ranges
				n++
			}
		}
		want := sum / float64(n)
		if !math.IsNaN(got) && refdist.CLITol.Close(got, want) {
			o.NonTrivial = ref.NDefined > 0 && want > 0
			return o, nil
		}
		msgs = append(msgs, fmt.Sprintf("under reading %v the mean is %.15g", rd, want))
	}
	return o, fmt.Errorf("-a printed %v: %s", got, strings.Join(msgs, "; "))
}

func trunc(s string, n int) string {
	if len(s) > n {
		return s[:n] + "..."
	}
	return s
}
