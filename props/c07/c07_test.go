// C07 - Nucleotide distances equal the published estimators and form sane matrices
package c07

import (
	"fmt"
	"io"
	"log"
	"math"
	"os"
	"strconv"
	"strings"
	"testing"

	"github.com/evolbioinfo/goalign/align"
	"pgregory.net/rapid"
	"verif/internal/cli"
	"verif/internal/distrun"
	"verif/internal/gen"
	"verif/internal/pbt"
	"verif/internal/refdist"
)

func TestMain(m *testing.M) {
	log.SetOutput(io.Discard)
	pbt.Main(m, "C07")
}

// Two findings of this check on the tree at 89dae8c have been repaired in /repo (3a3c37f: base
// frequencies normalised over the nucleotide cells; afd6281: the internal-gap counting mode honours
// --rm-gaps), see props/c07/NOTES-findings.md. Nothing is steered around any more: frequencies sum to 1,
// "finite corrected distance >= observed proportion" is asserted everywhere, and --gap-mut 1 with
// --rm-gaps is judged like the two other modes. regress/c07/c07-finding-*.json keep both inputs.

func judgeOpt(tol refdist.Tol) refdist.JudgeOpt { return refdist.JudgeOpt{Tol: tol} }

// ---- library tier: DistMatrix against the closed forms -------------------------------------------

type estCase struct {
	Rows    []string        `json:"rows"`
	Opt     refdist.Options `json:"opt"`
	Tier    int             `json:"tier"`
	ViaName bool            `json:"via_name"` // dna.Model(name, rmgaps) instead of the constructor
	Threads int             `json:"threads"`
	// Prev: the same model object first computes the matrix of this other alignment (what the
	// multi-alignment input of compute distance and cmd/distboot.go do), with PrevOpt's gamma, alpha
	// and weights; nil = fresh model
	Prev    []string         `json:"prev"`
	PrevOpt *refdist.Options `json:"prev_opt"`
	// History: the judged matrix is not the first thing computed on the alignment OBJECT (callers keep
	// one object and edit it: mutate, mask, replace, shuffle, reverse complement, then compute again)
	History *history `json:"history"`
	// Plan: the alignment object is not freshly constructed but produced by a drawn chain of public
	// operations ending on exactly Rows (internal/gen/provenance.go); nil = fresh
	Plan *gen.Plan `json:"plan"`
}

// history of the alignment object before the judged call
type history struct {
	// Kind: "set-char", "replace-char": the object first holds Other (same dimensions), its matrix is
	// computed, then every differing cell is edited in place (SetSequenceChar / ReplaceChar) to reach
	// Rows; "reverse-complement": the object first holds the reverse complement of Rows, its matrix is
	// computed, then ReverseComplement() in place; "a-b-a": the matrix of the object (Rows) is computed,
	// then the one of another object holding Other (same dimensions), then the object's again
	Kind      string   `json:"kind"`
	Other     []string `json:"other"`
	SameModel bool     `json:"same_model"` // one model object for all the calls, or a fresh one per call
}

func genEst(t *rapid.T) estCase {
	var c estCase
	if rapid.IntRange(0, 99).Draw(t, "many-sequences") == 57 {
		c.Rows, c.Tier = refdist.GenRows(t, 46, 80, 12, -1) // more than 1024 pairs, short alignments
	} else {
		c.Rows, c.Tier = refdist.GenRows(t, 2, 8, pbt.Scale(60, 300), -1)
	}
	c.Opt = refdist.GenOptions(t, len(c.Rows), len(c.Rows[0]), true, true)
	c.ViaName = rapid.Bool().Draw(t, "via-name")
	c.Threads = rapid.IntRange(1, 3).Draw(t, "threads")
	if rapid.IntRange(0, 3).Draw(t, "reuse-model") == 0 {
		c.Prev, _ = refdist.GenRows(t, 2, 6, 30, c.Tier)
		po := c.Opt
		po.Ranges = nil
		po.Gamma = rapid.Bool().Draw(t, "prev-gamma")
		po.Alpha = refdist.GenAlpha(t)
		po.Weights = refdist.GenWeights(t, len(c.Prev[0]))
		c.PrevOpt = &po
	}
	if rapid.IntRange(0, 3).Draw(t, "provenance") == 2 {
		pl := gen.DrawPlan(t, distrun.Ali(c.Rows), "ACGT-", 3)
		c.Plan = &pl
	}
	if rapid.IntRange(0, 4).Draw(t, "history") == 3 {
		h := history{Kind: rapid.SampledFrom([]string{"set-char", "replace-char", "reverse-complement", "a-b-a"}).Draw(t, "history-kind")}
		if h.Kind != "reverse-complement" {
			h.Other = refdist.Perturb(t, c.Rows, c.Tier)
		}
		h.SameModel = rapid.Bool().Draw(t, "history-same-model")
		c.History = &h
	}
	return c
}

// classify adds the classes of a judged matrix
func classify(o *pbt.Outcome, opt refdist.Options, tier int, ref *refdist.Ref) {
	g := ""
	if opt.Gamma && refdist.Corrected(opt.Model) {
		g = "+gamma"
	}
	o.Class("model=%s%s tier=%d", opt.Model, g, tier)
	seen := map[string]bool{}
	for i := 0; i < ref.N; i++ {
		for j := i + 1; j < ref.N; j++ {
			e := ref.E[i][j]
			var k string
			switch {
			case e.Kind == refdist.Outside:
				k = "pair:outside-ranges"
			case !(e.Total > 0):
				k = "pair:no-comparable-site"
			case e.Kind == refdist.Undefined:
				k = "pair:saturated(undefined)"
			case e.Kind == refdist.Ill:
				k = "pair:ill-conditioned"
			case e.Kind == refdist.Huge:
				k = "pair:huge"
			case e.Diff == 0:
				k = "pair:identical"
			case refdist.Corrected(opt.Model) && e.MinArg < 0.2:
				k = "pair:near-saturated"
			default:
				k = "pair:typical"
			}
			if !seen[k] {
				seen[k] = true
				o.Class(k)
			}
		}
	}
	if opt.Weights != nil {
		o.Class("weights")
	}
	if opt.Ranges != nil {
		o.Class("ranges")
	}
	if opt.RmGaps {
		o.Class("rm-gaps")
	}
	if opt.Model == refdist.Raw || opt.Model == refdist.PDist {
		o.Class("gap-mut=%d", opt.GapMut)
		if opt.Model == refdist.PDist && opt.RmAmbiguous {
			o.Class("rm-ambiguous")
		}
	}
}

func checkEst(c estCase) (o pbt.Outcome, err error) {
	ali := distrun.Ali(c.Rows)
	al := gen.MustBuild(ali)
	if c.Plan != nil {
		if via, usable := gen.BuildVia(ali, *c.Plan); usable {
			al = via
			for _, k := range c.Plan.Kinds() {
				o.Class("provenance:%s", k)
			}
		} else {
			o.Class("provenance-unusable")
		}
	}
	model, e := distrun.Model(c.Opt, c.ViaName)
	if e != nil {
		return o, fmt.Errorf("building the model fails for valid options: %v", e)
	}
	if c.Prev != nil {
		// the model object has a history: its result must not depend on it
		prev, e := distrun.MatrixWith(gen.MustBuild(distrun.Ali(c.Prev)), *c.PrevOpt, model, c.Threads)
		if e != nil {
			return o, fmt.Errorf("DistMatrix fails on the previous alignment: %v", e)
		}
		if _, _, e := refdist.JudgeAny(prev, c.Prev, *c.PrevOpt, refdist.Readings(c.Prev, *c.PrevOpt), judgeOpt(refdist.LibTol)); e != nil {
			return o, fmt.Errorf("previous alignment: %v", e)
		}
		o.Class("model-object-reused")
	}
	if h := c.History; h != nil {
		// the matrix of whatever content is judged against the reference for THAT content
		step := func(what string, obj align.Alignment, rows []string) error {
			m := model
			if !h.SameModel {
				if m, e = distrun.Model(c.Opt, c.ViaName); e != nil {
					return e
				}
			}
			mat, e := distrun.MatrixWith(obj, c.Opt, m, c.Threads)
			if e != nil {
				return fmt.Errorf("history (%s), %s: DistMatrix fails: %v", h.Kind, what, e)
			}
			if _, _, e := refdist.JudgeAny(mat, rows, c.Opt, refdist.Readings(rows, c.Opt), judgeOpt(refdist.LibTol)); e != nil {
				return fmt.Errorf("history (%s), %s: %v", h.Kind, what, e)
			}
			return nil
		}
		switch h.Kind {
		case "a-b-a":
			if e := step("first computation on the object", al, c.Rows); e != nil {
				return o, e
			}
			if e := step("another object of the same dimensions", gen.MustBuild(distrun.Ali(h.Other)), h.Other); e != nil {
				return o, e
			}
		default:
			start := h.Other
			if h.Kind == "reverse-complement" {
				start = refdist.RevComp(c.Rows)
			}
			al = gen.MustBuild(distrun.Ali(start))
			if e := step("content before the edit", al, start); e != nil {
				return o, e
			}
			switch h.Kind {
			case "reverse-complement":
				if e := al.ReverseComplement(); e != nil {
					return o, fmt.Errorf("ReverseComplement: %v", e)
				}
			default:
				for i := range c.Rows {
					for j := 0; j < len(c.Rows[i]); j++ {
						if start[i][j] == c.Rows[i][j] {
							continue
						}
						var e error
						if h.Kind == "set-char" {
							e = al.SetSequenceChar(i, j, c.Rows[i][j])
						} else {
							e = al.ReplaceChar(ali.Rows[i].Name, j, c.Rows[i][j])
						}
						if e != nil {
							return o, fmt.Errorf("harness: in-place edit (%s) of cell %d,%d fails: %v", h.Kind, i, j, e)
						}
					}
				}
			}
			if !gen.SameRows(gen.Snapshot(al), ali.Rows) {
				// a defect of the editing call is not the business of this property
				return o, fmt.Errorf("harness: after the in-place edit (%s) the object holds %s", h.Kind, gen.Show(gen.Snapshot(al)))
			}
		}
		o.Class("history:%s", h.Kind)
	}
	got, e := distrun.MatrixWith(al, c.Opt, model, c.Threads)
	if e != nil {
		return o, fmt.Errorf("DistMatrix fails on a nucleotide alignment with valid options: %v", e)
	}
	if !gen.SameRows(gen.Snapshot(al), ali.Rows) {
		return o, fmt.Errorf("DistMatrix modified the alignment: %s", gen.Show(gen.Snapshot(al)))
	}
	readings := refdist.Readings(c.Rows, c.Opt)
	v, ref, err := refdist.JudgeAny(got, c.Rows, c.Opt, readings, judgeOpt(refdist.LibTol))
	if err != nil {
		return o, err
	}
	// second observation point: Distance on the encoded rows (no substitution there): a defined
	// entry has the value of the matrix, an undefined one is something DistMatrix documents as not
	// computable (NaN, infinite, negative, above the limit)
	for i := 0; i < ref.N; i++ {
		si, e1 := model.Sequence(i)
		if e1 != nil {
			return o, fmt.Errorf("Sequence(%d) fails: %v", i, e1)
		}
		for j := i + 1; j < ref.N; j++ {
			sj, e2 := model.Sequence(j)
			if e2 != nil {
				return o, fmt.Errorf("Sequence(%d) fails: %v", j, e2)
			}
			d, e3 := model.Distance(si, sj, c.Opt.Weights)
			if e3 != nil {
				return o, fmt.Errorf("Distance(%d,%d) fails: %v", i, j, e3)
			}
			d2, _ := model.Distance(sj, si, c.Opt.Weights)
			if !(d == d2 || math.IsNaN(d) && math.IsNaN(d2)) {
				return o, fmt.Errorf("Distance(%d,%d) = %v but Distance(%d,%d) = %v", i, j, d, j, i, d2)
			}
			switch en := ref.E[i][j]; en.Kind {
			case refdist.Defined:
				if math.IsNaN(d) || !refdist.LibTol.Wider(en.RelExtra).Close(d, en.Value) {
					return o, fmt.Errorf("Distance(%d,%d) = %.15g, the estimator gives %.15g", i, j, d, en.Value)
				}
			case refdist.Undefined:
				if !(math.IsNaN(d) || math.IsInf(d, 0) || d < 0 || d > refdist.HugeLimit) {
					return o, fmt.Errorf("Distance(%d,%d) = %.15g although the estimator is undefined (%g differences over %g sites, smallest log argument %g)", i, j, d, en.Diff, en.Total, en.MinArg)
				}
			}
		}
	}
	o.Ill += v.Ill
	o.Ambiguous += v.Ambiguous
	o.NonTrivial = v.NonTrivial > 0
	classify(&o, c.Opt, c.Tier, ref)
	if refdist.HasLower(c.Rows) {
		o.Class("lower-case residues")
	}
	if len(c.Rows) >= 46 {
		o.Class("46-80 sequences (> 1024 pairs)")
	}
	if v.Substitute > 0 {
		o.Class("undefined-reported-as-2max")
	}
	if v.NaNs > 0 {
		o.Class("undefined-reported-as-NaN")
	}
	return o, nil
}

func TestEstimators(t *testing.T) { pbt.Run(t, genEst, checkEst) }

// ---- bounded exhaustive: every alignment of two rows and two columns x every option combination ----

type enumCase struct {
	Rows []string        `json:"rows"`
	Opt  refdist.Options `json:"opt"`
}

func enumOptions() []refdist.Options {
	var out []refdist.Options
	for _, m := range refdist.Models {
		for _, rm := range []bool{false, true} {
			switch m {
			case refdist.Raw:
				for g := 0; g <= 2; g++ {
					out = append(out, refdist.Options{Model: m, RmGaps: rm, GapMut: g})
				}
			case refdist.PDist:
				for g := 0; g <= 2; g++ {
					for _, ra := range []bool{false, true} {
						out = append(out, refdist.Options{Model: m, RmGaps: rm, GapMut: g, RmAmbiguous: ra})
					}
				}
			default:
				out = append(out, refdist.Options{Model: m, RmGaps: rm})
				out = append(out, refdist.Options{Model: m, RmGaps: rm, Gamma: true, Alpha: 0.5})
			}
		}
	}
	return out
}

func enumWords(symbols string, l int) []string {
	words := []string{""}
	for k := 0; k < l; k++ {
		var next []string
		for _, w := range words {
			for i := 0; i < len(symbols); i++ {
				next = append(next, w+string(symbols[i]))
			}
		}
		words = next
	}
	return words
}

func checkEnum(c enumCase) (o pbt.Outcome, err error) {
	al := gen.MustBuild(distrun.Ali(c.Rows))
	got, e := distrun.Matrix(al, c.Opt, false, 1)
	if e != nil {
		return o, fmt.Errorf("DistMatrix fails: %v", e)
	}
	readings := refdist.Readings(c.Rows, c.Opt)
	v, ref, err := refdist.JudgeAny(got, c.Rows, c.Opt, readings, judgeOpt(refdist.LibTol))
	if err != nil {
		return o, err
	}
	o.Ill += v.Ill
	o.Ambiguous += v.Ambiguous
	if v.NonTrivial > 0 {
		o.NonTrivial = true
		o.Key = fmt.Sprintf("%v %+v", c.Rows, c.Opt)
	}
	g := ""
	if c.Opt.Gamma {
		g = "+gamma"
	}
	o.Class("model=%s%s %s", c.Opt.Model, g, ref.E[0][1].Kind)
	return o, nil
}

func TestEnumerateSmall(t *testing.T) {
	type space struct {
		symbols string
		l       int
	}
	spaces := []space{{"ACGT-RYN", 2}}
	name := "2 rows x 2 columns over ACGT-RYN x 38 option combinations (7 models, rm-gaps, gap-mut 0/1/2, rm-ambiguous, gamma alpha=0.5)"
	if pbt.Thorough() {
		spaces = []space{{"ACGTRYSWKMBDHVN-", 2}, {"ACGT-", 3}}
		name = "2 rows x 2 columns over the 15 IUPAC codes and the gap, and 2 rows x 3 columns over ACGT-, x 38 option combinations (7 models, rm-gaps, gap-mut 0/1/2, rm-ambiguous, gamma alpha=0.5)"
	}
	opts := enumOptions()
	pbt.Enumerate(t, name, func(yield func(enumCase) bool) {
		for _, sp := range spaces {
			words := enumWords(sp.symbols, sp.l)
			for _, a := range words {
				for _, b := range words {
					for _, op := range opts {
						if !yield(enumCase{[]string{a, b}, op}) {
							return
						}
					}
				}
			}
		}
	}, checkEnum)
}

// ---- command line tier ------------------------------------------------------------------------------

type cliCase struct {
	Rows    []string        `json:"rows"`
	Opt     refdist.Options `json:"opt"`
	Tier    int             `json:"tier"`
	Threads int             `json:"threads"`
	Phylip  bool            `json:"phylip"`
	ToFile  bool            `json:"to_file"`
	Average bool            `json:"average"`
	// Bad: "" or the kind of invalid invocation (the command must fail)
	Bad string `json:"bad"`
	// Before: with phylip input, another alignment (its own number of rows and columns) placed before Rows
	// in the same file: the command computes one matrix per alignment with the same model object and the
	// same --range1/--range2, whose maxima may lie beyond the smaller alignment (clipped per alignment)
	Before []string `json:"before"`
	// Layout of the FASTA input (wrapped lines, blanks, CRLF ...); Stale: the -o file exists already
	// with a longer content of an earlier run
	Layout cli.Layout `json:"layout"`
	Stale  bool       `json:"stale"`
}

func genCLI(t *rapid.T) cliCase {
	var c cliCase
	c.Rows, c.Tier = refdist.GenRows(t, 2, 6, 30, -1)
	c.Opt = refdist.GenOptions(t, len(c.Rows), len(c.Rows[0]), true, false)
	if !c.Opt.Gamma {
		c.Opt.Alpha = 0
	}
	c.Threads = rapid.SampledFrom([]int{0, 1, 2, 4}).Draw(t, "threads")
	c.Phylip = rapid.IntRange(0, 3).Draw(t, "phylip") == 0
	c.ToFile = rapid.IntRange(0, 3).Draw(t, "tofile") == 0
	c.Stale = c.ToFile && rapid.Bool().Draw(t, "stale-output-file")
	if !c.Phylip {
		c.Layout = cli.DrawLayout(t)
	}
	c.Average = rapid.IntRange(0, 5).Draw(t, "average") == 0
	if c.Phylip && rapid.Bool().Draw(t, "two-alignments") {
		c.Before, _ = refdist.GenRows(t, 2, 6, 30, c.Tier)
		if c.Opt.Ranges != nil || rapid.Bool().Draw(t, "ranges-over-both") {
			small, large := len(c.Before), len(c.Rows)
			if small > large {
				small, large = large, small
			}
			a := rapid.IntRange(0, small-1).Draw(t, "r1min")
			b := rapid.IntRange(a, large+1).Draw(t, "r1max")
			cc := rapid.IntRange(0, small-1).Draw(t, "r2min")
			d := rapid.IntRange(cc, large+1).Draw(t, "r2max")
			c.Opt.Ranges = []int{a, b, cc, d}
		}
	}
	if rapid.IntRange(0, 7).Draw(t, "bad") == 0 {
		c.Bad = rapid.SampledFrom([]string{"gap-mut-3", "gap-mut-negative", "unknown-model", "range-min>max", "range-malformed", "single-range", "protein-alignment", "missing-file", "phylip-fewer-sequences-than-the-header-says"}).Draw(t, "badkind")
		if c.Bad == "phylip-fewer-sequences-than-the-header-says" {
			c.Phylip, c.Layout = true, cli.Layout{} // a reading error that the parser reports while the command runs
		}
		if (c.Bad == "gap-mut-3" || c.Bad == "gap-mut-negative") && refdist.Corrected(c.Opt.Model) {
			c.Opt.Model = refdist.PDist
		}
	}
	return c
}

func phylip(rows []gen.Row) string {
	s := fmt.Sprintf("%d %d\n", len(rows), len(rows[0].Seq))
	for _, r := range rows {
		s += r.Name + "  " + r.Seq + "\n"
	}
	return s
}

func TestCLI(t *testing.T) {
	if cli.Binary() == "" {
		t.Skip("no goalign binary")
	}
	dir := cli.TempDir("c07cli")
	pbt.Run(t, genCLI, func(c cliCase) (o pbt.Outcome, err error) {
		ali := distrun.Ali(c.Rows)
		rows := ali.Rows
		if c.Bad == "protein-alignment" {
			rows = append([]gen.Row{}, rows...)
			rows[0].Seq = "E" + rows[0].Seq[1:] // E is no nucleotide code: the alignment is detected as protein
		}
		var in string
		if c.Phylip {
			text := phylip(rows)
			if c.Bad == "phylip-fewer-sequences-than-the-header-says" {
				text = fmt.Sprintf("%d %d\n", len(rows)+1, len(rows[0].Seq)) + text[strings.Index(text, "\n")+1:]
			}
			if c.Before != nil {
				text = phylip(distrun.Ali(c.Before).Rows) + text
			}
			in = cli.TempFile(dir, ".phy", text)
		} else {
			in = cli.TempFile(dir, ".fa", cli.FastaLayout(rows, c.Layout))
		}
		defer os.Remove(in)
		opt := c.Opt
		args := distrun.Args(opt, in, c.Threads)
		switch c.Bad {
		case "gap-mut-3":
			args = append(args, "--gap-mut", "3")
		case "gap-mut-negative":
			args = append(args, "--gap-mut", "-1")
		case "unknown-model":
			args = append(args, "-m", "hky85")
		case "range-min>max":
			args = append(args, "--range1", "1:0", "--range2", "0:1")
		case "range-malformed":
			args = append(args, "--range1", "0-1", "--range2", "0:1")
		case "single-range":
			opt.Ranges = nil
			args = append(distrun.Args(opt, in, c.Threads), "--range1", "0:1")
		case "missing-file":
			args = append(args, "-i", in+".absent")
		}
		if c.Phylip {
			args = append(args, "-p")
		}
		if c.Average {
			args = append(args, "-a")
		}
		outFile := ""
		if c.ToFile {
			outFile = in + ".out"
			args = append(args, "-o", outFile)
			defer os.Remove(outFile)
			if c.Stale {
				cli.StaleFile(outFile, 400) // must be replaced, not overwritten in part
			}
		}
		r := cli.Run("", args...)
		if r.TimedOut {
			return o, fmt.Errorf("goalign %v did not finish", args)
		}
		// a range whose minimum lies beyond an alignment (after clipping the maximum) is an error
		if c.Bad == "" && c.Opt.Ranges != nil {
			for _, n := range []int{len(c.Before), len(c.Rows)} {
				if rg := c.Opt.Ranges; n > 0 && (rg[0] > n-1 || rg[2] > n-1) {
					c.Bad = "range-minimum-beyond-an-alignment"
				}
			}
		}
		if c.Bad != "" {
			if r.Exit == 0 {
				return o, fmt.Errorf("goalign %v: invalid invocation (%s) but exit status 0, stdout %q", args, c.Bad, r.Stdout)
			}
			o.Class("bad:%s", c.Bad)
			return o, nil
		}
		if r.Exit != 0 {
			return o, fmt.Errorf("goalign %v: exit %d on a valid invocation, stderr %q", args, r.Exit, trunc(r.Stderr, 300))
		}
		text := r.Stdout
		if c.ToFile {
			b, e := os.ReadFile(outFile)
			if e != nil {
				return o, fmt.Errorf("goalign %v: output file not written: %v", args, e)
			}
			if r.Stdout != "" {
				return o, fmt.Errorf("goalign %v: -o given but standard output is %q", args, r.Stdout)
			}
			text = string(b)
		}
		// one block of output per alignment of the input, in order
		inputs := [][]string{c.Rows}
		if c.Before != nil {
			inputs = [][]string{c.Before, c.Rows}
			o.Class("two-alignments-in-one-file")
			if c.Opt.Ranges != nil {
				switch {
				case len(c.Before) < len(c.Rows):
					o.Class("two-alignments+ranges: smaller first")
				case len(c.Before) > len(c.Rows):
					o.Class("two-alignments+ranges: larger first")
				}
				if m := len(c.Before); c.Opt.Ranges[1] >= m || c.Opt.Ranges[3] >= m || c.Opt.Ranges[1] >= len(c.Rows) || c.Opt.Ranges[3] >= len(c.Rows) {
					o.Class("range maximum beyond an alignment (clipped)")
				}
			}
		}
		if c.Average {
			lines := strings.Split(strings.TrimRight(text, "\n"), "\n")
			if len(lines) != len(inputs) {
				return o, fmt.Errorf("goalign %v: -a prints %d lines for %d alignments: %q", args, len(lines), len(inputs), text)
			}
			for k, rows := range inputs {
				if o, err = checkAverage(rows, c.Opt, lines[k], o); err != nil {
					return o, fmt.Errorf("goalign %v, alignment %d: %v", args, k+1, err)
				}
			}
			return o, nil
		}
		names, mats, perr := distrun.ParseMatrices(text)
		if perr != nil {
			return o, fmt.Errorf("goalign %v: unreadable output: %v\n%s", args, perr, trunc(text, 600))
		}
		if len(mats) != len(inputs) {
			return o, fmt.Errorf("goalign %v: %d matrices printed for %d alignments", args, len(mats), len(inputs))
		}
		for k, rows := range inputs {
			for i, n := range names[k] {
				if n != fmt.Sprintf("s%d", i) {
					return o, fmt.Errorf("goalign %v: alignment %d, row %d is named %q, want s%d", args, k+1, i, n, i)
				}
			}
			v, ref, err := refdist.JudgeAny(mats[k], rows, c.Opt, refdist.Readings(rows, c.Opt), judgeOpt(refdist.CLITol))
			if err != nil {
				return o, fmt.Errorf("goalign %v, alignment %d of %d\n%v", args, k+1, len(inputs), err)
			}
			o.Ill += v.Ill
			o.Ambiguous += v.Ambiguous
			o.NonTrivial = o.NonTrivial || v.NonTrivial > 0
			if k == len(inputs)-1 {
				classify(&o, c.Opt, c.Tier, ref)
				if refdist.HasLower(rows) {
					o.Class("lower-case residues")
				}
			}
		}
		o.Class("threads=%d", c.Threads)
		if c.Phylip {
			o.Class("phylip-input")
		}
		if c.ToFile {
			o.Class("output-file")
			if c.Stale {
				o.Class("output-file existed with stale content")
			}
		}
		if !c.Phylip && !c.Layout.Plain() {
			o.Class("fasta input in another layout")
		}
		return o, nil
	})
}

// checkAverage: -a prints the mean of the entries above the diagonal that are numbers
func checkAverage(rows []string, opt refdist.Options, text string, o pbt.Outcome) (pbt.Outcome, error) {
	o.Class("average")
	line := strings.TrimSpace(text)
	if strings.ContainsAny(line, "\n\t ") {
		return o, fmt.Errorf("-a prints more than one value: %q", text)
	}
	var got float64
	if line == "NaN" {
		got = math.NaN()
	} else {
		dot := strings.IndexByte(line, '.')
		g, e := strconv.ParseFloat(line, 64)
		if e != nil || dot < 0 || len(line)-dot-1 != 12 {
			return o, fmt.Errorf("-a does not print one value with 12 decimals: %q", text)
		}
		got = g
	}
	var msgs []string
	for _, rd := range refdist.Readings(rows, opt) {
		ref := refdist.Reference(rows, opt, rd)
		if ref.NIll+ref.NHuge+ref.NUndefined > 0 {
			// the mean hides the entries that are not numbers and contains substitutes: not judged
			o.Class("average-with-undefined-pairs")
			o.Ill++
			return o, nil
		}
		sum, n := 0.0, 0
		for i := 0; i < ref.N; i++ {
			for j := i + 1; j < ref.N; j++ {
				sum += ref.E[i][j].Value // 0 outside the ranges
				n++
			}
		}
		want := sum / float64(n)
		if !math.IsNaN(got) && refdist.CLITol.Close(got, want) {
			o.NonTrivial = o.NonTrivial || ref.NDefined > 0 && want > 0
			return o, nil
		}
		msgs = append(msgs, fmt.Sprintf("under reading %v the mean is %.15g", rd, want))
	}
	return o, fmt.Errorf("-a printed %v: %s", got, strings.Join(msgs, "; "))
}

func trunc(s string, n int) string {
	if len(s) > n {
		return s[:n] + "..."
	}
	return s
}
