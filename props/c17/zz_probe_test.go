package c17

import (
	"fmt"
	"testing"

	"verif/internal/gen"
)

func TestZZProbe(t *testing.T) {
	st := &stream{777}
	best := 1000
	tried, hits := 0, 0
	for it := 0; it < 150000 && best > 4; it++ {
		l := 3 + st.intn(14)
		ndiff := 1 + st.intn(l/2+1)
		x := make([]byte, l)
		y := make([]byte, l)
		for j := 0; j < l; j++ {
			x[j] = aa20[st.intn(20)]
			y[j] = x[j]
			if j < ndiff {
				y[j] = aa20[st.intn(20)]
			}
		}
		model := modelNames[st.intn(7)]
		cfg := config{Model: model, ModelFreqs: true}
		ali := gen.Ali{Alphabet: "aa", Rows: []gen.Row{{Name: "s0", Seq: string(x)}, {Name: "s1", Seq: string(y)}}}
		tried++
		d, err := mlDist(ali, cfg, nil)
		if err != nil || d[0][1] >= 20 || d[0][1] <= 0 {
			continue
		}
		w := make([]float64, l)
		for i := range w {
			w[i] = 1
		}
		rd, _ := newReading(ali, cfg, w, true)
		en, _ := pairFreq(string(x), string(y), w, rd.sel)
		e, _, sig := rd.maximal(en, d[0][1])
		if e != nil && len(sig) == 1 && sig[0] == keyEarlyStop {
			hits++
			if l <= best {
				best = l
				fmt.Println(model, string(x), string(y), d[0][1], e)
			}
		}
	}
	fmt.Println(tried, hits)
}
