// C17 - Protein distances are likelihood maximisers forming a sane matrix
package c17

import (
	"fmt"
	"io"
	"log"
	"math"
	"os"
	"path/filepath"
	"strconv"
	"strings"
	"testing"

	"github.com/evolbioinfo/goalign/align"
	"github.com/evolbioinfo/goalign/distance/protein"
	pm "github.com/evolbioinfo/goalign/models/protein"
	"gonum.org/v1/gonum/mat"
	"pgregory.net/rapid"
	"verif/internal/cli"
	"verif/internal/gen"
	"verif/internal/pbt"
	"verif/internal/refmodels"
)

func TestMain(m *testing.M) {
	log.SetOutput(io.Discard)
	// goalign prints "Give up this dataset because at least one distance exceeds 20.00" on
	// os.Stderr for every alignment with a saturated pair
	if f, err := os.OpenFile(os.DevNull, os.O_WRONLY, 0); err == nil {
		os.Stderr = f
	}
	pbt.Main(m, "C17")
}

const (
	blMin, blMax = 1e-8, 100.0 // allowed range of distances (BL_MIN, BL_MAX)
	distMax      = 20.0        // saturation cap (PROT_DIST_MAX)
	lkTol        = 1e-7        // no grid or nearby distance has a likelihood higher by more than this
	relTol       = 1e-4        // permutation relations (the optimiser stops on a step < 1e-6)
	dblMin       = 2.2250738585072014e-308
	aa20         = "ARNDCQEGHILKMFPSTWYV" // state order of the model matrices
)

var modelNames = []string{"dayoff", "jtt", "mtrev", "lg", "wag", "hivb", "ab"} // as spelled by -m

func modelCode(name string) int {
	switch name {
	case "dayoff":
		return pm.MODEL_DAYHOFF
	case "jtt":
		return pm.MODEL_JTT
	case "mtrev":
		return pm.MODEL_MTREV
	case "lg":
		return pm.MODEL_LG
	case "wag":
		return pm.MODEL_WAG
	case "hivb":
		return pm.MODEL_HIVB
	case "ab":
		return pm.MODEL_AB
	}
	return -1
}

// ---- cases -------------------------------------------------------------------------------------------

type config struct {
	Model      string  `json:"model"`
	ModelFreqs bool    `json:"modelfreqs"`
	Gamma      bool    `json:"gamma"`
	Alpha      float64 `json:"alpha"`
	RmGaps     bool    `json:"rmgaps"`
}

type dCase struct {
	Ali     gen.Ali   `json:"ali"`
	Cfg     config    `json:"cfg"`
	Weights []float64 `json:"weights"` // nil or one non-negative weight per column
	Scale   float64   `json:"scale"`   // > 0: the matrix is also computed with every weight multiplied by it
	Plan    gen.Plan  `json:"plan"`    // chain of public operations that produces the alignment object (empty: built afresh)
	RowPerm []int     `json:"rowperm"`
	ColPerm []int     `json:"colperm"`
}

func aaIndex(c byte) int { return strings.IndexByte(aa20, c) }

// stream: a deterministic bit mixer (splitmix64) expanded from one drawn value. rapid's own float and
// integer generators are strongly biased towards small values (60 % of Float64Range(0,1) draws fall
// below 0.1), which would make "mutate a site with probability p" meaningless; the structure of the
// alignment (rows, columns, divergences, rates) is drawn through rapid, the per-site coin flips come
// from this stream seeded by a drawn value. A case is replayed from its stored alignment, not from
// the stream.
type stream struct{ x uint64 }

func (s *stream) next() uint64 {
	s.x += 0x9e3779b97f4a7c15
	z := s.x
	z = (z ^ (z >> 30)) * 0xbf58476d1ce4e5b9
	z = (z ^ (z >> 27)) * 0x94d049bb133111eb
	return z ^ (z >> 31)
}
func (s *stream) unit() float64  { return float64(s.next()>>11) / (1 << 53) }
func (s *stream) intn(n int) int { return int(s.next() % uint64(n)) }

// genAli: rows derived from a drawn ancestor with a per-row divergence from 0 to saturated, then
// gaps, X and '*' sprinkled (per site, and per column so that columns rich in gaps occur)
func genAli(t *rapid.T, minRows, maxRows int) gen.Ali {
	n := rapid.IntRange(minRows, maxRows).Draw(t, "rows")
	var l int
	switch rapid.IntRange(0, 9).Draw(t, "Lkind") {
	case 9:
		l = rapid.IntRange(1, 5).Draw(t, "L")
	case 0, 1, 2, 3, 4:
		l = rapid.IntRange(6, 30).Draw(t, "L")
	default:
		l = rapid.IntRange(31, 80).Draw(t, "L")
	}
	return genAliDims(t, n, l)
}

// genAliDims: the same for given dimensions
func genAliDims(t *rapid.T, n, l int) gen.Ali {
	// residue pool: the whole alphabet or a few letters (skewed composition)
	pool := aa20
	if rapid.IntRange(0, 4).Draw(t, "pool") == 4 {
		pool = gen.SeqN(t, aa20, rapid.IntRange(2, 6).Draw(t, "npool"))
	}
	anc := make([]byte, l)
	specRate := rapid.SampledFrom([]float64{0.04, 0, 0.12, 0.3}).Draw(t, "special")
	gapColRate := rapid.SampledFrom([]float64{0, 0.1, 0.4}).Draw(t, "gapcols")
	st := &stream{rapid.Uint64().Draw(t, "seed")}
	gapCols := make([]bool, l)
	for j := range anc {
		anc[j] = pool[st.intn(len(pool))]
		gapCols[j] = specRate > 0 && st.unit() < gapColRate
	}
	divs := []float64{0.03, 0.1, 0.01, 0.2, 0.35, 0, 0.55, 0.8, 0.97}
	a := gen.Ali{Alphabet: "aa"}
	for i := 0; i < n; i++ {
		div := rapid.SampledFrom(divs).Draw(t, "div")
		row := make([]byte, l)
		for j := 0; j < l; j++ {
			// the stream is consumed at a fixed rate per site: shrinking the structure keeps the rest
			u, k, s, sp := st.unit(), st.intn(20), st.unit(), st.intn(5)
			row[j] = anc[j]
			if u < div {
				row[j] = aa20[k]
			}
			rate := specRate
			if gapCols[j] {
				rate = 0.5
			}
			if s < rate {
				row[j] = "---X*"[sp]
			}
		}
		a.Rows = append(a.Rows, gen.Row{Name: fmt.Sprintf("s%d", i), Seq: string(row)})
	}
	return a
}

func genConfig(t *rapid.T, cliOnly bool) config {
	var c config
	c.Model = rapid.SampledFrom(modelNames).Draw(t, "model")
	c.ModelFreqs = cliOnly || rapid.Bool().Draw(t, "modelfreqs")
	c.Gamma = rapid.Bool().Draw(t, "gamma")
	// the gamma switch and the shape are two independent arguments of NewProtDistModel: with gamma off
	// a shape is passed too, two times out of three, and must be ignored
	if c.Gamma || rapid.IntRange(0, 2).Draw(t, "alphaoff") > 0 {
		switch rapid.IntRange(0, 5).Draw(t, "akind") {
		case 0:
			c.Alpha = 0.2
		case 1:
			c.Alpha = 5
		case 2:
			c.Alpha = 1
		default:
			c.Alpha = math.Round(rapid.Float64Range(0.2, 5).Draw(t, "alpha")*1000) / 1000
		}
	}
	c.RmGaps = rapid.Bool().Draw(t, "rmgaps")
	return c
}

// genWeights: nil (half of the time), positive real weights, bootstrap-like integer multiplicities
// 0..3 (zeros included: a column drawn no time), or real weights with exact zeros; never all zero
func genWeights(t *rapid.T, l int) []float64 {
	kind := rapid.IntRange(0, 11).Draw(t, "weights")
	if kind >= 6 {
		return nil
	}
	var pool []float64
	switch kind {
	case 0, 1:
		pool = []float64{1, 1, 2, 3, 0.5, 0.25, 1.5, 0.01, 7}
	case 2, 3, 4:
		pool = []float64{0, 1, 0, 2, 1, 3}
	default:
		pool = []float64{0, 0.5, 1.5, 0, 1, 0.25, 2}
	}
	st := &stream{rapid.Uint64().Draw(t, "wseed")}
	w := make([]float64, l)
	sum := 0.0
	for j := range w {
		w[j] = pool[st.intn(len(pool))]
		sum += w[j]
	}
	if sum == 0 {
		w[st.intn(l)] = 1
	}
	return w
}

func genDist(t *rapid.T) dCase {
	var c dCase
	c.Ali = genAli(t, 2, 6)
	c.Cfg = genConfig(t, false)
	l := c.Ali.Length()
	c.Weights = genWeights(t, l)
	if rapid.IntRange(0, 2).Draw(t, "provenance") == 0 {
		c.Plan = gen.DrawPlan(t, c.Ali, aa20+"-X*", 3)
	}
	switch rapid.IntRange(0, 5).Draw(t, "scalekind") {
	case 0, 1: // exact power of two: the scaled weights are exact
		c.Scale = math.Pow(2, float64(rapid.IntRange(-30, 30).Draw(t, "scale2")))
	case 2, 3, 4:
		c.Scale = math.Exp(rapid.Float64Range(math.Log(1e-9), math.Log(1e9)).Draw(t, "scale"))
	}
	c.RowPerm = gen.Perm(t, len(c.Ali.Rows), "rowperm")
	c.ColPerm = gen.Perm(t, l, "colperm")
	return c
}

func domainOK(a gen.Ali, cfg config, weights []float64) bool {
	if len(a.Rows) < 2 || a.Length() < 1 || a.Alphabet != "aa" || modelCode(cfg.Model) < 0 {
		return false
	}
	for _, r := range a.Rows {
		if len(r.Seq) != a.Length() {
			return false
		}
		for i := 0; i < len(r.Seq); i++ {
			if aaIndex(r.Seq[i]) < 0 && !strings.ContainsRune("-X*", rune(r.Seq[i])) {
				return false
			}
		}
	}
	if cfg.Gamma && !(cfg.Alpha >= 0.2 && cfg.Alpha <= 5) {
		return false
	}
	if !cfg.Gamma && cfg.Alpha != 0 && !(cfg.Alpha >= 0.2 && cfg.Alpha <= 5) {
		return false
	}
	if weights != nil {
		if len(weights) != a.Length() {
			return false
		}
		sum := 0.0
		for _, w := range weights {
			if !(w >= 0) || math.IsInf(w, 0) {
				return false
			}
			sum += w
		}
		if !(sum > 0) {
			return false
		}
	}
	return true
}

func isPerm(p []int, n int) bool {
	if len(p) != n {
		return false
	}
	seen := make([]bool, n)
	for _, v := range p {
		if v < 0 || v >= n || seen[v] {
			return false
		}
		seen[v] = true
	}
	return true
}

// ---- the code under test --------------------------------------------------------------------------------

func mlDist(a gen.Ali, cfg config, weights []float64) ([][]float64, error) {
	return mlDistOn(gen.MustBuild(a), a, cfg, weights)
}

// mlDistOn: the same on an alignment object obtained in another way but holding the content a
func mlDistOn(al align.Alignment, a gen.Ali, cfg config, weights []float64) ([][]float64, error) {
	m, err := protein.NewProtDistModel(modelCode(cfg.Model), cfg.ModelFreqs, cfg.Gamma, cfg.Alpha, cfg.RmGaps)
	if err != nil {
		return nil, err
	}
	var w []float64
	if weights != nil {
		w = append([]float64{}, weights...)
	}
	if err = m.InitModel(al, w); err != nil {
		return nil, err
	}
	_, _, d, err := m.MLDist(al, w)
	if err != nil {
		return nil, err
	}
	if d == nil {
		return nil, fmt.Errorf("nil matrix")
	}
	return denseToRows(d, len(a.Rows))
}

// ---- oracle ----------------------------------------------------------------------------------------------

// selection of sites. Without gap-site removal every site is selected. With it, the flag help says
// "Do not take into account positions containing >=1 gaps" while selectedSites' comment says "sites
// that contain only [residues] and no gaps": a column holding X or '*' but no '-' is selected under the
// first reading and not under the second. strict = second reading.
func selectedSites(a gen.Ali, rmgaps, strict bool) []bool {
	l := a.Length()
	sel := make([]bool, l)
	for j := 0; j < l; j++ {
		sel[j] = true
		if !rmgaps {
			continue
		}
		for _, r := range a.Rows {
			c := r.Seq[j]
			if c == '-' || (strict && aaIndex(c) < 0) {
				sel[j] = false
			}
		}
	}
	return sel
}

// empirical frequencies, FastME convention as documented in the comments of aaFrequency: weighted
// counts over the selected sites, a character that is not an amino acid counts 1/20 for each, and
// if any count is below 1/20 one pseudo-count is added to every amino acid
func empiricalPi(a gen.Ali, w []float64, sel []bool) []float64 {
	num := make([]float64, 20)
	for _, r := range a.Rows {
		for j := 0; j < len(r.Seq); j++ {
			if !sel[j] {
				continue
			}
			if k := aaIndex(r.Seq[j]); k >= 0 {
				num[k] += w[j]
			} else {
				for k := range num {
					num[k] += w[j] * (1. / 20.)
				}
			}
		}
	}
	pseudo := false
	for _, v := range num {
		if v < 1./20. {
			pseudo = true
		}
	}
	sum := 0.0
	for k := range num {
		if pseudo {
			num[k]++
		}
		sum += num[k]
	}
	for k := range num {
		num[k] /= sum
	}
	return num
}

// reading: one admissible interpretation of the configuration: which sites are selected, hence the
// frequencies, hence the eigen system
type reading struct {
	sel   []bool
	pi    []float64
	val   []float64
	r, l  [][]float64
	gamma bool
	alpha float64
	ill   bool // the reference decomposition itself is not accurate: likelihood clause not judged
}

func newReading(a gen.Ali, cfg config, w []float64, strict bool) (*reading, error) {
	rd := &reading{sel: selectedSites(a, cfg.RmGaps, strict), gamma: cfg.Gamma, alpha: cfg.Alpha}
	// the rate matrix is rebuilt here from the published exchangeabilities and the frequencies in use,
	// scaled to one expected substitution per unit time, and decomposed by the harness (Jacobi rotations
	// on the symmetrised matrix): nothing of models/protein.ProtModel is used
	s, freqs, err := refmodels.ProtData(cfg.Model)
	if err != nil {
		return nil, err
	}
	if !cfg.ModelFreqs {
		freqs = empiricalPi(a, w, rd.sel)
	}
	sum := 0.0
	for _, f := range freqs {
		sum += f
	}
	rd.pi = make([]float64, 20)
	for i := range rd.pi {
		rd.pi[i] = freqs[i] / sum
	}
	// published vectors sum to 1 within 1e-6 only; the mean rate is taken over the vector as given
	// (PAML convention); the other reading moves every distance by a factor 1 +- 1e-6, far below what
	// the likelihood test resolves
	q := refmodels.ProtQ(s, freqs, freqs)
	val, left, right := refmodels.ReversibleEigen(q, rd.pi)
	// self-check of the decomposition: right diag(val) left = q, right left = I
	for i := 0; i < 20; i++ {
		for j := 0; j < 20; j++ {
			id, qq := 0.0, 0.0
			for k := 0; k < 20; k++ {
				id += right[i][k] * left[k][j]
				qq += right[i][k] * val[k] * left[k][j]
			}
			want := 0.0
			if i == j {
				want = 1
			}
			if math.Abs(id-want) > 1e-10 || math.Abs(qq-q[i][j]) > 1e-9*(1+math.Abs(q[i][j])) {
				// rates of 1e8 and more: frequencies near 1e-10 next to amino acids that hardly exchange
				// (weights scaled up until the pseudo-count vanishes): no likelihood to 1e-7 here
				rd.ill = true
			}
		}
	}
	rd.val, rd.r, rd.l = val, right, left
	return rd, nil
}

// pairFreq: observed residue-pair frequencies of rows x and y: weight of every selected site where
// both hold an amino acid, normalised; total = comparable selected weight
type pairEntry struct {
	a, b int
	f    float64
}

func pairFreq(x, y string, w []float64, sel []bool) (entries []pairEntry, total float64) {
	var f [20][20]float64
	for j := 0; j < len(x); j++ {
		if !sel[j] {
			continue
		}
		a, b := aaIndex(x[j]), aaIndex(y[j])
		if a < 0 || b < 0 {
			continue
		}
		f[a][b] += w[j]
		total += w[j]
	}
	if total > 0 {
		for a := 0; a < 20; a++ {
			for b := 0; b < 20; b++ {
				if f[a][b] > 0 {
					entries = append(entries, pairEntry{a, b, f[a][b] / total})
				}
			}
		}
	}
	return
}

// logLk: sum F_ab ln(pi_a P_ab(t)), P(t) = R diag(f(lambda t)) L, f = exp or (alpha/(alpha-lambda t))^alpha
func (rd *reading) logLk(entries []pairEntry, t float64) float64 {
	if t < blMin {
		t = blMin
	}
	if t > blMax {
		t = blMax
	}
	var e [20]float64
	for k := 0; k < 20; k++ {
		if rd.gamma {
			e[k] = math.Pow(rd.alpha/(rd.alpha-rd.val[k]*t), rd.alpha)
		} else {
			e[k] = math.Exp(rd.val[k] * t)
		}
	}
	lnl := 0.0
	for _, en := range entries {
		p := 0.0
		for k := 0; k < 20; k++ {
			p += rd.r[en.a][k] * e[k] * rd.l[k][en.b]
		}
		if p < dblMin {
			p = dblMin
		}
		lnl += en.f * math.Log(rd.pi[en.a]*p)
	}
	return lnl
}

// noise: bound of the rounding error of logLk(entries, t): sum F_ab 1e-13 / P_ab(t)
func (rd *reading) noise(entries []pairEntry, t float64) float64 {
	if t < blMin {
		t = blMin
	}
	if t > blMax {
		t = blMax
	}
	var e [20]float64
	for k := 0; k < 20; k++ {
		if rd.gamma {
			e[k] = math.Pow(rd.alpha/(rd.alpha-rd.val[k]*t), rd.alpha)
		} else {
			e[k] = math.Exp(rd.val[k] * t)
		}
	}
	n := 0.0
	for _, en := range entries {
		p := 0.0
		for k := 0; k < 20; k++ {
			p += rd.r[en.a][k] * e[k] * rd.l[k][en.b]
		}
		n += en.f * 1e-13 / math.Max(p, 1e-300)
	}
	return n
}

var grid = func() []float64 {
	g := make([]float64, 60)
	for i := range g {
		g[i] = blMin * math.Pow(blMax/blMin, float64(i)/59)
	}
	return g
}()

// maximal: err is nil if no grid or nearby distance has a likelihood higher than the one of d by more
// than lkTol. curved tells whether the likelihood drops enough around d for the position of the
// maximum to be determined well below the 1e-4 of the relations.
//
// The error message says what kind of failure it is (both kinds were genuine defects of the optimiser,
// repaired by f7984a1 and 20826a6, see FINDINGS.md):
//   - early stop: a nearby distance is better and d lies within 5 % of a local maximum of the
//     likelihood (the best point of a 401-point scan of [0.95 d, 1.05 d] is interior);
//   - lower local maximum: d passes the nearby test, a grid distance has a higher likelihood and
//     between the two the likelihood falls below the one of d (a valley).
func (rd *reading) maximal(entries []pairEntry, d float64) (err error, curved bool) {
	// conditioning: a transition probability assembled from an eigen system in double precision carries
	// an absolute error of about 1e-14 (1e-13 is assumed), i.e. lnL(t) is known to noise(t) = sum F_ab
	// 1e-13 / P_ab(t) only. A candidate distance counts as better only beyond lkTol plus the noise of both
	// likelihoods; when the noise at d itself exceeds lkTol (an observed residue pair with a P_ab(d) of
	// 1e-6 and less: zero exchangeability and intermediates of negligible frequency, or a reported
	// distance of 1e-8 for a pair with substitutions) the pair cannot be certified and is counted
	// ill_conditioned, but a candidate that is better beyond the noise is still a violation.
	if rd.ill {
		return nil, false
	}
	ld := rd.logLk(entries, d)
	if math.IsNaN(ld) {
		return fmt.Errorf("likelihood undefined at the reported distance"), false
	}
	nd := rd.noise(entries, d)
	better := func(lt, t float64) bool { return lt > ld+lkTol+nd+rd.noise(entries, t) }
	curved = true
	for _, f := range []float64{1 - 1e-3, 1 + 1e-3, 1 - 1e-2, 1 + 1e-2} {
		lt := rd.logLk(entries, d*f)
		if better(lt, d*f) && err == nil {
			err = fmt.Errorf("lnL(%.10g) = %.10f but the nearby distance %.10g has lnL = %.10f", d, ld, d*f, lt)
		}
		// the position of the maximum is known to about sqrt(2 noise / |lnL''|), noise about 1e-14:
		// for 3e-5 the drop over 1 % of d must exceed 1e-9 d^2; ten times that is required
		if (f == 1-1e-2 || f == 1+1e-2) && !(ld-lt > 1e-8*math.Max(1, d*d)) {
			curved = false
		}
	}
	if nd > lkTol {
		curved = false
	}
	if err != nil {
		const n = 400
		best, ref, lref := -1, d, ld
		for k := 0; k <= n; k++ {
			t := d * (0.95 + 0.1*float64(k)/n)
			if lt := rd.logLk(entries, t); lt > lref {
				ref, lref, best = t, lt, k
			}
		}
		if best > 0 && best < n {
			err = fmt.Errorf("%v (the search stopped %.2f %% away from the local maximum %.10g, lnL = %.10f)", err, 100*math.Abs(d/ref-1), ref, lref)
		}
		return err, false
	}
	lg := make([]float64, len(grid))
	best := -1
	for k, t := range grid {
		lg[k] = rd.logLk(entries, t)
		if better(lg[k], t) && (best < 0 || lg[k] > lg[best]) {
			best = k
		}
	}
	if best < 0 {
		return nil, curved
	}
	valley := false
	lo, hi := math.Min(d, grid[best]), math.Max(d, grid[best])
	for k := 1; k < 300 && !valley; k++ {
		t := lo * math.Pow(hi/lo, float64(k)/300)
		valley = rd.logLk(entries, t) < ld-1e-9
	}
	return fmt.Errorf("lnL(%.10g) = %.10f but the grid distance %.6g has lnL = %.10f (a valley of the likelihood lies between them: %v)", d, ld, grid[best], lg[best], valley), false
}

func hasDifference(x, y string) bool {
	for j := 0; j < len(x); j++ {
		if x[j] != y[j] && aaIndex(x[j]) >= 0 && aaIndex(y[j]) >= 0 {
			return true
		}
	}
	return false
}

func band(d float64) string {
	switch {
	case d < 1e-6:
		return "d<1e-6"
	case d < 0.1:
		return "d<0.1"
	case d < 1:
		return "d<1"
	case d < 5:
		return "d<5"
	case d < distMax:
		return "d<20"
	}
	return "capped"
}

type verdict struct {
	nonTrivial bool
	flat       [][]int // 0: relations judged; 1: likelihood flat around d (ill-conditioned); 2: at the cap
}

// judge applies every clause of the statement but the permutation relations to the matrix d reported
// for (a, cfg, w)
func judge(a gen.Ali, cfg config, weights []float64, d [][]float64, o *pbt.Outcome) (v verdict, err error) {
	n := len(a.Rows)
	w := weights
	if w == nil {
		w = make([]float64, a.Length())
		for j := range w {
			w[j] = 1
		}
	}
	strict, e := newReading(a, cfg, w, true)
	if e != nil {
		return v, fmt.Errorf("reference model: %v", e)
	}
	// gap-site removal is judged under the reading of the function's own doc comment ("sites that contain
	// only [residues] and no gaps": a column holding '-', X or '*' in any row is removed), which is what
	// the unchanged code does; the looser wording of the flag help ("positions containing >=1 gaps") was
	// accepted as a second reading until round 7 and let a re-implementation keeping the X/'*' columns
	// through.
	readings := []*reading{strict}
	v.flat = make([][]int, n)
	for i := range v.flat {
		v.flat[i] = make([]int, n)
	}
	for i := 0; i < n; i++ {
		if d[i][i] != 0 {
			return v, fmt.Errorf("diagonal entry (%d,%d) = %g", i, i, d[i][i])
		}
		for j := i + 1; j < n; j++ {
			x, y := a.Rows[i].Seq, a.Rows[j].Seq
			dij := d[i][j]
			if dij != d[j][i] && !(math.IsNaN(dij) && math.IsNaN(d[j][i])) {
				return v, fmt.Errorf("matrix not symmetric: d[%d][%d] = %.12g, d[%d][%d] = %.12g", i, j, dij, j, i, d[j][i])
			}
			if !hasDifference(x, y) {
				if dij != 0 {
					return v, fmt.Errorf("rows %d and %d have no unambiguous difference but are at distance %.12g", i, j, dij)
				}
				o.Class("pair: no difference")
				continue
			}
			entries, total := pairFreq(x, y, w, strict.sel)
			if total == 0 {
				// a difference exists but no selected site is comparable (was reported at -1 before
				// the repair a2d9778): only the range clause constrains the entry
				o.Class("pair: no comparable selected site")
			}
			if math.IsNaN(dij) || dij < 0 || dij > distMax {
				return v, fmt.Errorf("d[%d][%d] = %.12g is outside [0,%g] (comparable selected weight of the pair: %g)", i, j, dij, distMax, total)
			}
			o.Class("pair: %s", band(dij))
			if dij >= distMax {
				v.flat[i][j], v.flat[j][i] = 2, 2
				// at the saturation cap: the reported value is the maximiser cut down to 20, so for a pair
				// with comparable sites the likelihood must not peak below the cap: no grid distance
				// below 20 may beat the likelihood at 20 and beyond (tolerance and rounding noise as for
				// the other pairs). A pair without comparable selected site has no likelihood to speak
				// of and is at 20 since a2d9778.
				if total > 0 && !strict.ill {
					lowT, low, high := 0.0, math.Inf(-1), strict.logLk(entries, distMax)
					nhigh := strict.noise(entries, distMax)
					for _, t := range grid {
						if lt := strict.logLk(entries, t); t < distMax {
							if lt > low {
								low, lowT = lt, t
							}
						} else {
							high = math.Max(high, lt)
						}
					}
					if low > high+lkTol+nhigh+strict.noise(entries, lowT) {
						// under the other reading of gap-site removal too?
						alsoLoose := true
						for _, rd := range readings[1:] {
							en, tot := pairFreq(x, y, w, rd.sel)
							if tot == 0 || rd.ill {
								alsoLoose = false
								continue
							}
							l2, h2 := math.Inf(-1), rd.logLk(en, distMax)
							for _, t := range grid {
								if lt := rd.logLk(en, t); t < distMax {
									l2 = math.Max(l2, lt)
								} else {
									h2 = math.Max(h2, lt)
								}
							}
							if !(l2 > h2+lkTol+rd.noise(en, distMax)+rd.noise(en, lowT)) {
								alsoLoose = false
							}
						}
						if alsoLoose {
							return v, fmt.Errorf("d[%d][%d] is at the saturation cap %g although the likelihood of the pair (%s %s, comparable selected weight %g) peaks below it: lnL(%.6g) = %.10f, lnL at 20 and beyond <= %.10f", i, j, distMax, x, y, total, lowT, low, high)
						}
					}
				}
				continue
			}
			var first error
			ok, curved := false, false
			for k, rd := range readings {
				en := entries
				if k > 0 {
					en, _ = pairFreq(x, y, w, rd.sel)
				}
				e, c := rd.maximal(en, dij)
				if e == nil {
					ok, curved = true, c
					break
				}
				if first == nil {
					first = e
				}
			}
			if !ok {
				return v, fmt.Errorf("d[%d][%d] = %.12g does not maximise the likelihood of the pair (%s %s): %v", i, j, dij, x, y, first)
			}
			if !curved {
				v.flat[i][j], v.flat[j][i] = 1, 1
				o.Ill++
			}
			if dij > 1e-6 {
				v.nonTrivial = true
			}
		}
	}
	return v, nil
}

func permuteRows(a gen.Ali, p []int) gen.Ali {
	out := gen.Ali{Alphabet: a.Alphabet}
	for _, k := range p {
		out.Rows = append(out.Rows, a.Rows[k])
	}
	return out
}

func permuteCols(a gen.Ali, w []float64, p []int) (gen.Ali, []float64) {
	out := gen.Ali{Alphabet: a.Alphabet}
	for _, r := range a.Rows {
		b := make([]byte, len(p))
		for j, k := range p {
			b[j] = r.Seq[k]
		}
		out.Rows = append(out.Rows, gen.Row{Name: r.Name, Seq: string(b)})
	}
	var pw []float64
	if w != nil {
		pw = make([]float64, len(p))
		for j, k := range p {
			pw[j] = w[k]
		}
	}
	return out, pw
}

func checkDist(c dCase) (o pbt.Outcome, err error) {
	n := len(c.Ali.Rows)
	if !domainOK(c.Ali, c.Cfg, c.Weights) || !isPerm(c.RowPerm, n) || !isPerm(c.ColPerm, c.Ali.Length()) {
		o.Skip = true
		return o, nil
	}
	// the alignment object: built afresh, or produced by a chain of public operations ending on the same
	// content (clone, rename cycle, cut window, select sites, clean, concat, append, re-parse ...)
	al := gen.MustBuild(c.Ali)
	if len(c.Plan.Steps) > 0 {
		if via, usable := gen.BuildVia(c.Ali, c.Plan); usable {
			al = via
			o.Class("provenance: %s", c.Plan.String())
		} else {
			o.Class("provenance-unusable")
		}
	}
	d, e := mlDistOn(al, c.Ali, c.Cfg, c.Weights)
	if e != nil {
		return o, fmt.Errorf("no distance matrix for a valid protein alignment (object: %s): %v", c.Plan.String(), e)
	}
	v, err := judge(c.Ali, c.Cfg, c.Weights, d, &o)
	if err != nil {
		return o, err
	}
	// reordering the sequences permutes the matrix
	dr, e := mlDist(permuteRows(c.Ali, c.RowPerm), c.Cfg, c.Weights)
	if e != nil {
		return o, fmt.Errorf("no distance matrix after reordering the sequences: %v", e)
	}
	// reordering the columns (and their weights) leaves it unchanged
	ca, cw := permuteCols(c.Ali, c.Weights, c.ColPerm)
	dc, e := mlDist(ca, c.Cfg, cw)
	if e != nil {
		return o, fmt.Errorf("no distance matrix after reordering the columns: %v", e)
	}
	for i := 0; i < n; i++ {
		for j := 0; j < n; j++ {
			pi, pj := c.RowPerm[i], c.RowPerm[j]
			if v.flat[pi][pj] != 0 {
				// at the cap, or the likelihood is flat around d (the position of its maximum is
				// then not determined to 1e-4): not compared
				continue
			}
			if math.Abs(dr[i][j]-d[pi][pj]) > relTol {
				return o, fmt.Errorf("after reordering the sequences (%v) d[%d][%d] = %.10g, the pair was at %.10g", c.RowPerm, i, j, dr[i][j], d[pi][pj])
			}
		}
	}
	for i := 0; i < n; i++ {
		for j := 0; j < n; j++ {
			if v.flat[i][j] != 0 {
				continue
			}
			if math.Abs(dc[i][j]-d[i][j]) > relTol {
				return o, fmt.Errorf("after reordering the columns (%v) d[%d][%d] = %.10g instead of %.10g", c.ColPerm, i, j, dc[i][j], d[i][j])
			}
		}
	}
	// integer weights k are the same as each column written k times (0: the column removed)
	if ea, ok := expand(c.Ali, c.Weights); ok {
		de, e := mlDist(ea, c.Cfg, nil)
		if e != nil {
			return o, fmt.Errorf("no distance matrix for the alignment with every column repeated as many times as its weight (%s): %v", gen.Show(ea.Rows), e)
		}
		for i := 0; i < n; i++ {
			for j := 0; j < n; j++ {
				if v.flat[i][j] != 0 {
					continue
				}
				if math.Abs(de[i][j]-d[i][j]) > relTol {
					return o, fmt.Errorf("with the integer weights %v d[%d][%d] = %.10g, with every column repeated as many times as its weight instead (%s) it is %.10g", c.Weights, i, j, d[i][j], gen.Show(ea.Rows), de[i][j])
				}
			}
		}
		o.Class("weights: integer multiplicities, compared with repeated columns")
	}
	// multiplying every weight by a positive constant leaves the matrix unchanged
	if c.Scale > 0 && c.Scale >= 1e-9 && c.Scale <= 1e9 {
		ws := make([]float64, c.Ali.Length())
		for j := range ws {
			ws[j] = c.Scale
			if c.Weights != nil {
				ws[j] = c.Weights[j] * c.Scale
			}
		}
		ds, e := mlDist(c.Ali, c.Cfg, ws)
		if e != nil {
			return o, fmt.Errorf("no distance matrix with every weight multiplied by %g: %v", c.Scale, e)
		}
		if c.Cfg.ModelFreqs {
			for i := 0; i < n; i++ {
				for j := 0; j < n; j++ {
					if v.flat[i][j] != 0 {
						continue
					}
					if math.Abs(ds[i][j]-d[i][j]) > relTol {
						return o, fmt.Errorf("with every weight multiplied by %g d[%d][%d] = %.10g instead of %.10g", c.Scale, i, j, ds[i][j], d[i][j])
					}
				}
			}
			o.Class("weights: scaled, same matrix required")
		} else {
			// empirical frequencies: the FastME convention adds one pseudo-count per amino acid when a
			// weighted count is below 1/20, which depends on the scale of the weights: the matrix may
			// change; it is judged by the oracle with the scaled weights instead
			if _, err = judge(c.Ali, c.Cfg, ws, ds, &o); err != nil {
				return o, fmt.Errorf("with every weight multiplied by %g: %v", c.Scale, err)
			}
			o.Ambiguous++
			o.Class("weights: scaled, empirical frequencies (oracle only)")
		}
	}
	zeros := false
	for _, w := range c.Weights {
		zeros = zeros || w == 0
	}
	if zeros {
		o.Class("weights: with exact zeros")
	}
	o.NonTrivial = v.nonTrivial
	classes(&o, c.Cfg, c.Weights != nil)
	return o, nil
}

// expand: the alignment with column j written w[j] times, when every weight is a small integer
func expand(a gen.Ali, w []float64) (gen.Ali, bool) {
	if w == nil {
		return a, false
	}
	total := 0
	for _, x := range w {
		if x != math.Trunc(x) || x < 0 || x > 10 {
			return a, false
		}
		total += int(x)
	}
	if total == 0 {
		return a, false
	}
	out := gen.Ali{Alphabet: a.Alphabet}
	for _, r := range a.Rows {
		b := make([]byte, 0, total)
		for j, x := range w {
			for k := 0; k < int(x); k++ {
				b = append(b, r.Seq[j])
			}
		}
		out.Rows = append(out.Rows, gen.Row{Name: r.Name, Seq: string(b)})
	}
	return out, true
}

func classes(o *pbt.Outcome, cfg config, weighted bool) {
	freq := "empirical"
	if cfg.ModelFreqs {
		freq = "model"
	}
	o.Class("model=%s", cfg.Model)
	o.Class("freq=%s gamma=%v", freq, cfg.Gamma)
	if !cfg.Gamma && cfg.Alpha != 0 {
		o.Class("gamma off with a shape passed")
	}
	o.Class("rmgaps=%v weights=%v", cfg.RmGaps, weighted)
}

func TestDistances(t *testing.T) { pbt.Run(t, genDist, checkDist) }

// ---- one model object applied to several alignments -----------------------------------------------------
//
// cmd/computedist.go and cmd/distboot.go build one ProtDistModel (model frequencies), call
// InitModel(nil, nil) once and then MLDist(alignment, weights) for every alignment of the input file /
// every bootstrap replicate. The statement quantifies over alignments: the matrix of an alignment
// must not depend on the alignments the model object has seen before.

type reuseCase struct {
	Alis    []gen.Ali   `json:"alis"`
	Weights [][]float64 `json:"weights"` // per alignment: nil or positive weights (distboot -c)
	Cfg     config      `json:"cfg"`
	// JC, per alignment (absent = none): 1 = the exported JC69Dist is also called on the same model object
	// BEFORE MLDist of this alignment, 2 = AFTER it. Its three returned matrices join the retained ones.
	JC []int `json:"jc,omitempty"`
}

// retained: a matrix handed to the caller by one call on the model object, with the deep copy taken at
// return time. A caller (bootstrap loop, all the alignments of a file) keeps the matrices of successive
// calls: the matrix of an alignment must still be the matrix of THAT alignment after every later call
// on the same model object, whatever the number of sequences of the later alignments.
type retained struct {
	what string
	call int
	m    *mat.Dense
	copy []uint64
	n    int
}

func retain(what string, call int, m *mat.Dense) retained {
	r := retained{what: what, call: call, m: m}
	if m == nil {
		return r
	}
	rows, cols := m.Dims()
	r.n = rows
	for i := 0; i < rows; i++ {
		for j := 0; j < cols; j++ {
			r.copy = append(r.copy, math.Float64bits(m.At(i, j)))
		}
	}
	return r
}

func (r retained) unchanged(ncalls int) error {
	if r.m == nil {
		return nil
	}
	rows, cols := r.m.Dims()
	if rows*cols != len(r.copy) {
		return fmt.Errorf("%s returned by call %d of %d on one model object: %dx%d after the later calls, %d cells when it was returned", r.what, r.call, ncalls, rows, cols, len(r.copy))
	}
	for i := 0; i < rows; i++ {
		for j := 0; j < cols; j++ {
			if b := math.Float64bits(r.m.At(i, j)); b != r.copy[i*cols+j] {
				return fmt.Errorf("%s returned by call %d of %d on one model object (%d sequences): cell [%d][%d] was %.17g when the call returned and is %.17g after the later calls on the same object (the caller's matrix is overwritten)", r.what, r.call, ncalls, r.n, i, j, math.Float64frombits(r.copy[i*cols+j]), r.m.At(i, j))
			}
		}
	}
	return nil
}

// jc69On: the exported JC69Dist on model object m, with the arguments MLDist gives it (explicit weights,
// the selected sites under the complete-deletion reading)
func jc69On(m *protein.ProtDistModel, a gen.Ali, cfg config, weights []float64) (p, q, d *mat.Dense) {
	w := make([]float64, a.Length())
	for i := range w {
		w[i] = 1
		if weights != nil {
			w[i] = weights[i]
		}
	}
	return m.JC69Dist(gen.MustBuild(a), w, selectedSites(a, cfg.RmGaps, true))
}

// resample: bootstrap-like replicate of a (columns drawn with replacement): same dimensions and
// composition, the gaps sit in other columns
func resample(t *rapid.T, a gen.Ali) gen.Ali {
	st := &stream{rapid.Uint64().Draw(t, "bootseed")}
	l := a.Length()
	cols := make([]int, l)
	for j := range cols {
		cols[j] = st.intn(l)
	}
	out := gen.Ali{Alphabet: a.Alphabet}
	for _, r := range a.Rows {
		b := make([]byte, l)
		for j, k := range cols {
			b[j] = r.Seq[k]
		}
		out.Rows = append(out.Rows, gen.Row{Name: r.Name, Seq: string(b)})
	}
	return out
}

func genAlis(t *rapid.T, maxRows int) []gen.Ali {
	first := genAli(t, 2, maxRows)
	alis := []gen.Ali{first}
	k := rapid.IntRange(2, 4).Draw(t, "nali")
	for len(alis) < k {
		prev := alis[len(alis)-1]
		switch rapid.IntRange(0, 5).Draw(t, "next") {
		case 0, 1: // same dimensions, other content
			alis = append(alis, genAliDims(t, len(prev.Rows), prev.Length()))
		case 2, 3: // replicate of the previous one
			alis = append(alis, resample(t, prev))
		case 4: // same length, other number of rows
			alis = append(alis, genAliDims(t, rapid.IntRange(2, maxRows).Draw(t, "rows2"), prev.Length()))
		default:
			alis = append(alis, genAli(t, 2, maxRows))
		}
	}
	return alis
}

func genReuse(t *rapid.T) reuseCase {
	var c reuseCase
	c.Alis = genAlis(t, 5)
	c.Cfg = genConfig(t, true)
	// a third of the histories with empirical frequencies: the model object is then initialised again
	// (InitModel(alignment, weights)) before each alignment, which has its own composition
	if rapid.IntRange(0, 2).Draw(t, "empirical") == 0 {
		c.Cfg.ModelFreqs = false
	}
	// gap-site removal is what makes the history matter most
	if rapid.IntRange(0, 3).Draw(t, "forcerm") > 0 {
		c.Cfg.RmGaps = true
	}
	c.Weights = make([][]float64, len(c.Alis))
	if rapid.IntRange(0, 2).Draw(t, "weighted") == 0 {
		// as distboot -c: the same alignment again with other weights is the typical history
		for i, a := range c.Alis {
			c.Weights[i] = genWeights(t, a.Length())
		}
	}
	// the sibling JC69Dist (exported, same work matrices) now and then between the MLDist calls
	if rapid.IntRange(0, 2).Draw(t, "withjc") == 0 {
		c.JC = make([]int, len(c.Alis))
		for i := range c.JC {
			c.JC[i] = rapid.IntRange(0, 2).Draw(t, "jc")
		}
	}
	return c
}

func denseToRows(d interface {
	Dims() (int, int)
	At(i, j int) float64
}, n int) ([][]float64, error) {
	if d == nil {
		return nil, fmt.Errorf("nil matrix")
	}
	r, c := d.Dims()
	if r != n || c != n {
		return nil, fmt.Errorf("matrix is %dx%d for %d sequences", r, c, n)
	}
	out := make([][]float64, r)
	for i := range out {
		out[i] = make([]float64, c)
		for j := range out[i] {
			out[i][j] = d.At(i, j)
		}
	}
	return out, nil
}

func checkReuse(c reuseCase) (o pbt.Outcome, err error) {
	if len(c.Alis) < 2 || len(c.Weights) != len(c.Alis) || (c.JC != nil && len(c.JC) != len(c.Alis)) {
		o.Skip = true
		return o, nil
	}
	var kept []retained
	ncalls := 0
	earlierJudged := false
	// jcCall: JC69Dist on the re-used object; bit-for-bit the matrices of an object that has seen nothing else
	jcCall := func(m *protein.ProtDistModel, i int, a gen.Ali, w []float64) error {
		ncalls++
		p, q, d := jc69On(m, a, c.Cfg, w)
		fm, e := protein.NewProtDistModel(modelCode(c.Cfg.Model), c.Cfg.ModelFreqs, c.Cfg.Gamma, c.Cfg.Alpha, c.Cfg.RmGaps)
		if e != nil {
			return fmt.Errorf("NewProtDistModel: %v", e)
		}
		fp, fq, fd := jc69On(fm, a, c.Cfg, w)
		for k, pr := range [][2]*mat.Dense{{p, fp}, {q, fq}, {d, fd}} {
			name := []string{"p", "q", "dist"}[k]
			if pr[0] == nil || pr[1] == nil {
				return fmt.Errorf("JC69Dist, alignment %d: nil %s matrix", i+1, name)
			}
			got, want := retain(name, ncalls, pr[0]), retain(name, ncalls, pr[1])
			if got.n != len(a.Rows) || len(got.copy) != len(want.copy) {
				return fmt.Errorf("JC69Dist, alignment %d of %d (%d sequences) on a model object already used: %s has %d rows, %d cells, a fresh object gives %d cells", i+1, len(c.Alis), len(a.Rows), name, got.n, len(got.copy), len(want.copy))
			}
			for x := range got.copy {
				if got.copy[x] != want.copy[x] {
					return fmt.Errorf("JC69Dist, alignment %d of %d on a model object already used: %s cell %d = %.17g, %.17g through a fresh object", i+1, len(c.Alis), name, x, math.Float64frombits(got.copy[x]), math.Float64frombits(want.copy[x]))
				}
			}
			got.what = "JC69Dist " + name + " matrix of alignment " + fmt.Sprint(i+1)
			kept = append(kept, got)
		}
		o.Class("JC69Dist between the MLDist calls")
		return nil
	}
	for i, a := range c.Alis {
		if !domainOK(a, c.Cfg, c.Weights[i]) {
			o.Skip = true
			return o, nil
		}
	}
	// model frequencies: exactly the call pattern of the commands (InitModel(nil,nil) once). Empirical
	// frequencies (library option): the same object is initialised for each alignment in turn,
	// InitModel(alignment, weights) then MLDist(alignment, weights)
	m, e := protein.NewProtDistModel(modelCode(c.Cfg.Model), c.Cfg.ModelFreqs, c.Cfg.Gamma, c.Cfg.Alpha, c.Cfg.RmGaps)
	if e != nil {
		return o, fmt.Errorf("NewProtDistModel: %v", e)
	}
	if c.Cfg.ModelFreqs {
		if e = m.InitModel(nil, nil); e != nil {
			return o, fmt.Errorf("InitModel(nil, nil): %v", e)
		}
	}
	history := false
	for i, a := range c.Alis {
		var w []float64
		if c.Weights[i] != nil {
			w = append([]float64{}, c.Weights[i]...)
		}
		if !c.Cfg.ModelFreqs {
			if e = m.InitModel(gen.MustBuild(a), w); e != nil {
				return o, fmt.Errorf("InitModel for alignment %d of %d on a model object already initialised for the previous ones: %v", i+1, len(c.Alis), e)
			}
			if i > 0 {
				history = true
			}
		}
		if c.JC != nil && c.JC[i] == 1 {
			if e = jcCall(m, i, a, w); e != nil {
				return o, e
			}
		}
		ncalls++
		pm, qm, dm, e := m.MLDist(gen.MustBuild(a), w)
		if e != nil {
			return o, fmt.Errorf("alignment %d of %d through one model object: %v", i+1, len(c.Alis), e)
		}
		kept = append(kept, retain(fmt.Sprintf("MLDist p matrix of alignment %d", i+1), ncalls, pm),
			retain(fmt.Sprintf("MLDist q matrix of alignment %d", i+1), ncalls, qm),
			retain(fmt.Sprintf("MLDist distance matrix of alignment %d", i+1), ncalls, dm))
		if c.JC != nil && c.JC[i] == 2 {
			if e = jcCall(m, i, a, w); e != nil {
				return o, e
			}
		}
		d, e := denseToRows(dm, len(a.Rows))
		if e != nil {
			return o, fmt.Errorf("alignment %d of %d through one model object: %v", i+1, len(c.Alis), e)
		}
		// the oracle, on the matrix of the re-used model
		v, e := judge(a, c.Cfg, c.Weights[i], d, &o)
		if e != nil {
			return o, fmt.Errorf("alignment %d of %d (%s) through a model object already applied to the previous ones: %v", i+1, len(c.Alis), gen.Show(a.Rows), e)
		}
		// and the same matrix as a model that has seen nothing else
		fresh, e := mlDist(a, c.Cfg, c.Weights[i])
		if e != nil {
			return o, fmt.Errorf("alignment %d alone: %v", i+1, e)
		}
		for x := range d {
			for y := range d[x] {
				if math.Abs(d[x][y]-fresh[x][y]) > 1e-9 {
					return o, fmt.Errorf("alignment %d of %d: d[%d][%d] = %.12g through a model object already applied to the previous alignments, %.12g through a fresh one", i+1, len(c.Alis), x, y, d[x][y], fresh[x][y])
				}
			}
		}
		if i > 0 && earlierJudged {
			history = true // a matrix judged non-trivially is retained across this later call
		}
		earlierJudged = earlierJudged || v.nonTrivial
		for k := 0; k < i; k++ {
			if len(c.Alis[k].Rows) == len(a.Rows) {
				o.Class("same number of sequences as an earlier call")
				break
			}
		}
		if i > 0 {
			prev := c.Alis[i-1]
			if prev.Length() == a.Length() {
				o.Class("follows an alignment of the same length")
				if c.Cfg.RmGaps {
					ps, as := selectedSites(prev, true, true), selectedSites(a, true, true)
					for j := range ps {
						if ps[j] != as[j] {
							history = history || v.nonTrivial
							o.Class("same length, other gap-free columns")
							break
						}
					}
				}
			} else {
				o.Class("follows an alignment of another length")
			}
		}
	}
	// every matrix handed out, after all the later calls, against the copy taken when it was returned
	for _, r := range kept {
		if e := r.unchanged(ncalls); e != nil {
			return o, e
		}
	}
	o.Class("calls on one model object: %d", ncalls)
	o.NonTrivial = history
	classes(&o, c.Cfg, c.Weights[0] != nil)
	return o, nil
}

func TestModelReuse(t *testing.T) { pbt.Run(t, genReuse, checkReuse) }

// ---- the repaired findings, as regression tests -----------------------------------------------------------

type knownCase struct {
	Ali gen.Ali `json:"ali"`
	Cfg config  `json:"cfg"`
}

// runRepro runs the minimal reproduction of a finding of props/c17/FINDINGS.md (all repaired in /repo);
// it must pass and prints nothing then
func runRepro(t *testing.T, c knownCase) {
	var o pbt.Outcome
	_, err := pbt.Eval(c, func(c knownCase) (pbt.Outcome, error) {
		d, e := mlDist(c.Ali, c.Cfg, nil)
		if e != nil {
			return o, fmt.Errorf("no distance matrix: %v", e)
		}
		v, e := judge(c.Ali, c.Cfg, nil, d, &o)
		o.NonTrivial = v.nonTrivial
		return o, e
	})
	if err != nil {
		pbt.Fail(t, c, "%v", err)
		return
	}
	pbt.Note(t, c, o)
	pbt.Complete(t)
}

// a2d9778. Three sequences of one column: A and C differ, the third row holds a gap, gap-site removal is
// on: no site is selected, the pair A/C has a difference but nothing to estimate a distance from; it was
// reported at -1 and must lie in [0,20]
func TestKnownNoComparableSite(t *testing.T) {
	runRepro(t, knownCase{
		Ali: gen.Ali{Alphabet: "aa", Rows: []gen.Row{{Name: "s0", Seq: "A"}, {Name: "s1", Seq: "C"}, {Name: "s2", Seq: "-"}}},
		Cfg: config{Model: "lg", ModelFreqs: true, RmGaps: true},
	})
}

// 20826a6. Two sequences of two columns, SH and AH, AB model with its own frequencies: the likelihood of
// the pair has two local maxima (t = 0.1256, lnL = -6.2455 and t = 3.27, lnL = -6.9740); the second one
// was reported
func TestKnownLocalMaximum(t *testing.T) {
	runRepro(t, knownCase{
		Ali: gen.Ali{Alphabet: "aa", Rows: []gen.Row{{Name: "s0", Seq: "SH"}, {Name: "s1", Seq: "AH"}}},
		Cfg: config{Model: "ab", ModelFreqs: true},
	})
}

// f7984a1. Two sequences of three columns, WAP and GAP, WAG with its own frequencies: the search stopped
// at 0.56517 (lnL = -4.980795), 2.9 % away from the local maximum 0.54906 (lnL = -4.980668), because two
// consecutive trial distances happened to be closer than 1e-6
func TestKnownEarlyStop(t *testing.T) {
	runRepro(t, knownCase{
		Ali: gen.Ali{Alphabet: "aa", Rows: []gen.Row{{Name: "s0", Seq: "WAP"}, {Name: "s1", Seq: "GAP"}}},
		Cfg: config{Model: "wag", ModelFreqs: true},
	})
}

// ---- command line tier -------------------------------------------------------------------------------------

type cliCase struct {
	Alis    []gen.Ali `json:"alis"` // one alignment: FASTA or Phylip; several: one Phylip file
	Phylip  bool      `json:"phylip"`
	Cfg     config    `json:"cfg"`
	Average bool      `json:"average"`
}

// parseMatrices: independent reader of the output of compute distance: for every alignment of the
// input a line n, then n lines "name<TAB>v1<TAB>...<TAB>vn"
func parseMatrices(out string) (names [][]string, ds [][][]float64, err error) {
	lines := strings.Split(strings.TrimRight(out, "\n"), "\n")
	for pos := 0; pos < len(lines); {
		n, e := strconv.Atoi(strings.TrimSpace(lines[pos]))
		if e != nil || n < 0 {
			return nil, nil, fmt.Errorf("line %d is not a count: %q", pos+1, lines[pos])
		}
		if pos+1+n > len(lines) {
			return nil, nil, fmt.Errorf("%d lines after the count %d", len(lines)-pos-1, n)
		}
		var nm []string
		var d [][]float64
		for _, ln := range lines[pos+1 : pos+1+n] {
			f := strings.Split(ln, "\t")
			if len(f) != n+1 {
				return nil, nil, fmt.Errorf("line %q has %d fields, want %d", ln, len(f), n+1)
			}
			nm = append(nm, f[0])
			row := make([]float64, n)
			for j := range row {
				if row[j], e = strconv.ParseFloat(f[j+1], 64); e != nil {
					return nil, nil, fmt.Errorf("not a number: %q", f[j+1])
				}
			}
			d = append(d, row)
		}
		names, ds = append(names, nm), append(ds, d)
		pos += n + 1
	}
	return
}

// phylip writes the alignments one after the other in sequential Phylip
func phylip(alis []gen.Ali) string {
	var sb strings.Builder
	for _, a := range alis {
		fmt.Fprintf(&sb, " %d %d\n", len(a.Rows), a.Length())
		for _, r := range a.Rows {
			fmt.Fprintf(&sb, "%s  %s\n", r.Name, r.Seq)
		}
	}
	return sb.String()
}

func TestCLI(t *testing.T) {
	if cli.Binary() == "" {
		t.Skip("no goalign binary")
	}
	dir := cli.TempDir("c17cli")
	pbt.Run(t, func(t *rapid.T) cliCase {
		var c cliCase
		if rapid.IntRange(0, 2).Draw(t, "multi") == 0 {
			c.Alis = []gen.Ali{genAli(t, 2, 5)}
			c.Phylip = rapid.Bool().Draw(t, "phylip")
		} else {
			// several alignments in one file: the command applies one model object to all of them
			c.Alis = genAlis(t, 4)
			c.Phylip = true
		}
		// a constant column of L: every alignment is then recognised as amino acids whatever was drawn
		for k := range c.Alis {
			for i := range c.Alis[k].Rows {
				c.Alis[k].Rows[i].Seq += "L"
			}
		}
		c.Cfg = genConfig(t, true)
		if !c.Cfg.Gamma {
			c.Cfg.Alpha = 0 // on the command line --alpha is what switches gamma on
		}
		if len(c.Alis) > 1 && rapid.IntRange(0, 3).Draw(t, "forcerm") > 0 {
			c.Cfg.RmGaps = true
		}
		c.Average = rapid.IntRange(0, 4).Draw(t, "average") == 0
		return c
	}, func(c cliCase) (o pbt.Outcome, err error) {
		if len(c.Alis) == 0 || !c.Cfg.ModelFreqs || (len(c.Alis) > 1 && !c.Phylip) {
			o.Skip = true
			return o, nil
		}
		for _, a := range c.Alis {
			if !domainOK(a, c.Cfg, nil) {
				o.Skip = true
				return o, nil
			}
		}
		var in string
		args := []string{"compute", "distance", "-m", c.Cfg.Model}
		if c.Phylip {
			in = cli.TempFile(dir, ".phy", phylip(c.Alis))
			args = append(args, "-p")
		} else {
			in = cli.TempFile(dir, ".fa", cli.Fasta(c.Alis[0].Rows))
		}
		args = append(args, "-i", in)
		if c.Cfg.RmGaps {
			args = append(args, "-r")
		}
		if c.Cfg.Gamma {
			args = append(args, "--alpha", strconv.FormatFloat(c.Cfg.Alpha, 'g', -1, 64))
		}
		r := cli.Run("", args...)
		if r.Exit != 0 {
			return o, fmt.Errorf("goalign %v: exit %d on valid protein alignments, stderr %q", args, r.Exit, r.Stderr)
		}
		names, ds, perr := parseMatrices(r.Stdout)
		if perr != nil {
			return o, fmt.Errorf("goalign %v: unreadable output: %v\n%s", args, perr, r.Stdout)
		}
		if len(ds) != len(c.Alis) {
			return o, fmt.Errorf("goalign %v: %d matrices for %d alignments", args, len(ds), len(c.Alis))
		}
		var means []float64
		for k, a := range c.Alis {
			d := ds[k]
			if len(names[k]) != len(a.Rows) {
				return o, fmt.Errorf("goalign %v: matrix %d has %d rows for %d sequences", args, k+1, len(names[k]), len(a.Rows))
			}
			for i, nm := range names[k] {
				if nm != a.Rows[i].Name {
					return o, fmt.Errorf("goalign %v: matrix %d, row %d is named %q, want %q", args, k+1, i, nm, a.Rows[i].Name)
				}
			}
			// the printed matrix (12 decimals) under the configuration the flags announce
			v, err := judge(a, c.Cfg, nil, d, &o)
			if err != nil {
				return o, fmt.Errorf("goalign %v: matrix %d of %d (%s): %v", args, k+1, len(c.Alis), gen.Show(a.Rows), err)
			}
			o.NonTrivial = o.NonTrivial || v.nonTrivial
			sum, cnt := 0.0, 0
			for i := range d {
				for j := i + 1; j < len(d); j++ {
					sum += d[i][j]
					cnt++
				}
			}
			means = append(means, sum/float64(cnt))
		}
		if c.Average {
			ra := cli.Run("", append(args, "-a")...)
			if ra.Exit != 0 {
				return o, fmt.Errorf("goalign %v -a: exit %d, stderr %q", args, ra.Exit, ra.Stderr)
			}
			f := strings.Fields(ra.Stdout)
			if len(f) != len(means) {
				return o, fmt.Errorf("goalign %v -a: %d numbers for %d alignments: %q", args, len(f), len(means), ra.Stdout)
			}
			for k, x := range f {
				got, e := strconv.ParseFloat(x, 64)
				if e != nil {
					return o, fmt.Errorf("goalign %v -a: output %q is not a number", args, x)
				}
				if math.Abs(got-means[k]) > 1e-9 {
					return o, fmt.Errorf("goalign %v -a prints %.12f for alignment %d, the mean of the pairs of the printed matrix is %.12f", args, got, k+1, means[k])
				}
			}
			o.Class("average")
		}
		o.Class("alignments in the file: %d phylip=%v", len(c.Alis), c.Phylip)
		classes(&o, c.Cfg, false)
		return o, nil
	})
}

// ---- build distboot with a protein model -------------------------------------------------------------------
//
// `goalign build distboot -m <protein model>` computes the same maximum-likelihood matrices on bootstrap
// replicates of the input. The replicates themselves are obtained from `goalign build seqboot` with the same
// seed, -n and -f (the equivalence C11 checks); every matrix distboot prints is read by the independent
// reader and judged by the oracle on the corresponding replicate, and there must be one matrix per replicate.

type distbootCase struct {
	Ali     gen.Ali `json:"ali"`
	Cfg     config  `json:"cfg"`
	N       int     `json:"n"`
	Seed    int64   `json:"seed"`
	Frac    string  `json:"frac"` // "" = full bootstrap
	Threads int     `json:"threads"`
}

func TestDistboot(t *testing.T) {
	if cli.Binary() == "" {
		t.Skip("no goalign binary")
	}
	pbt.Run(t, func(t *rapid.T) distbootCase {
		var c distbootCase
		c.Ali = genAli(t, 2, 5)
		c.Cfg = genConfig(t, true)
		if !c.Cfg.Gamma {
			c.Cfg.Alpha = 0
		}
		c.N = rapid.IntRange(1, 4).Draw(t, "n")
		c.Seed = rapid.Int64Range(0, 1<<40).Draw(t, "seed")
		c.Frac = rapid.SampledFrom([]string{"", "", "0.5", "0.9"}).Draw(t, "frac")
		c.Threads = rapid.SampledFrom([]int{1, 2, 4}).Draw(t, "threads")
		return c
	}, func(c distbootCase) (o pbt.Outcome, err error) {
		if !domainOK(c.Ali, c.Cfg, nil) || !c.Cfg.ModelFreqs || c.N < 1 || c.N > 20 || c.Seed < 0 {
			o.Skip = true
			return o, nil
		}
		dir := cli.TempDir("c17distboot")
		defer os.RemoveAll(dir)
		in := cli.TempFile(dir, ".fa", cli.Fasta(c.Ali.Rows))
		common := []string{"-i", in, "-n", strconv.Itoa(c.N), "--seed", strconv.FormatInt(c.Seed, 10), "--alphabet", "aa"}
		if c.Frac != "" {
			common = append(common, "-f", c.Frac)
		}
		sb := cli.RunIn(dir, "", append([]string{"build", "seqboot", "-o", "boot"}, common...)...)
		if sb.Exit != 0 {
			return o, fmt.Errorf("goalign build seqboot %v: exit %d, stderr %q", common, sb.Exit, sb.Stderr)
		}
		args := append([]string{"build", "distboot", "-m", c.Cfg.Model, "-t", strconv.Itoa(c.Threads)}, common...)
		if c.Cfg.RmGaps {
			args = append(args, "-r")
		}
		if c.Cfg.Gamma {
			args = append(args, "--alpha", strconv.FormatFloat(c.Cfg.Alpha, 'g', -1, 64))
		}
		r := cli.Run("", args...)
		if r.Exit != 0 {
			return o, fmt.Errorf("goalign %v: exit %d on a valid protein alignment, stderr %q", args, r.Exit, r.Stderr)
		}
		names, ds, perr := parseMatrices(r.Stdout)
		if perr != nil {
			return o, fmt.Errorf("goalign %v: unreadable output: %v\n%s", args, perr, r.Stdout)
		}
		if len(ds) != c.N {
			return o, fmt.Errorf("goalign %v: %d matrices for %d replicates", args, len(ds), c.N)
		}
		for k := 0; k < c.N; k++ {
			b, e := os.ReadFile(filepath.Join(dir, fmt.Sprintf("boot%d.fa", k)))
			if e != nil {
				return o, fmt.Errorf("goalign build seqboot %v: replicate %d not written: %v", common, k, e)
			}
			rows, e := cli.ParseFasta(string(b))
			if e != nil || len(rows) != len(c.Ali.Rows) {
				return o, fmt.Errorf("goalign build seqboot %v: replicate %d unreadable (%v, %d rows)", common, k, e, len(rows))
			}
			rep := gen.Ali{Alphabet: "aa", Rows: rows}
			if rep.Length() == 0 {
				// a partial bootstrap (-f) of a very short alignment has no column: outside the quantifier
				o.Skip = true
				return o, nil
			}
			if !domainOK(rep, c.Cfg, nil) {
				return o, fmt.Errorf("goalign build seqboot %v: replicate %d is not a resampling of the input: %s", common, k, gen.Show(rows))
			}
			if len(names[k]) != len(rows) {
				return o, fmt.Errorf("goalign %v: matrix %d has %d rows for %d sequences", args, k+1, len(names[k]), len(rows))
			}
			for i, nm := range names[k] {
				if nm != rows[i].Name {
					return o, fmt.Errorf("goalign %v: matrix %d, row %d is named %q, want %q", args, k+1, i, nm, rows[i].Name)
				}
			}
			v, e := judge(rep, c.Cfg, nil, ds[k], &o)
			if e != nil {
				return o, fmt.Errorf("goalign %v: matrix %d of %d, for the replicate %s (goalign build seqboot, same seed): %v", args, k+1, c.N, gen.Show(rows), e)
			}
			o.NonTrivial = o.NonTrivial || v.nonTrivial
		}
		o.Class("replicates=%d frac=%q", c.N, c.Frac)
		classes(&o, c.Cfg, false)
		return o, nil
	})
}
