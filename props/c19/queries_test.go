package c19

import (
	"bufio"
	"encoding/json"
	"fmt"
	"io"
	"math/rand"
	"os"
	"os/exec"
	"strings"
	"testing"
	"time"

	"github.com/evolbioinfo/goalign/align"
	"github.com/evolbioinfo/goalign/distance/dna"
	"github.com/evolbioinfo/goalign/distance/protein"
	"github.com/evolbioinfo/goalign/io/clustal"
	"github.com/evolbioinfo/goalign/io/fasta"
	"github.com/evolbioinfo/goalign/io/nexus"
	"github.com/evolbioinfo/goalign/io/paml"
	"github.com/evolbioinfo/goalign/io/phylip"
	"github.com/evolbioinfo/goalign/io/stockholm"
	"pgregory.net/rapid"
	"verif/internal/gen"
	"verif/internal/pbt"
)

// ---- the operations ------------------------------------------------------------------------------

type qop struct {
	Op   string  `json:"op"`
	I    int     `json:"i"`
	J    int     `json:"j"`
	K    int     `json:"k"`
	F    float64 `json:"f"`
	B1   bool    `json:"b1"`
	B2   bool    `json:"b2"`
	B3   bool    `json:"b3"`
	Ints []int   `json:"ints,omitempty"`
	S    string  `json:"s,omitempty"`
	Seed int64   `json:"seed"`
}

type qCase struct {
	Ali cAli  `json:"ali"`
	Ops []qop `json:"ops"`
}

// operations available on every container (alignment or sequence set)
var bagOps = []string{
	"write-fasta", "write-sequences", "string", "charstats", "uniquechars", "charstatsseq", "identical",
	"detectalphabet", "maxnamelength", "alphabetchars", "pwalign", "longestorf", "clonebag", "unalign",
	"iterate", "sequences", "seqchan", "getters", "seq-queries", "seq-clone", "seq-mutations",
	"samplebag", "rarefybag",
}

// operations of alignments only
var alignOps = []string{
	"write-phylip", "write-nexus", "write-clustal", "write-stockholm", "write-paml",
	"charstatssite", "maxcharstats", "entropy", "avgalleles", "nbvariable", "informative", "pssm",
	"conservation", "countdiffs", "numgapsunique", "nummutunique", "frameshifts", "refcoords", "refsites",
	"invcoords", "invpositions", "countprofile", "consensus", "subalign", "selectsites", "transpose",
	"bootstrap", "clone", "split", "randsubalign", "sample", "rarefy",
}

var ntOps = []string{"phase", "seq-translate"}    // nucleotide containers
var ntAlignOps = []string{"stops", "distmatrix"}  // nucleotide alignments
var aaAlignOps = []string{"mldist", "codonalign"} // protein alignments

var dnaModels = []string{"jc", "k2p", "pdist", "rawdist", "f81", "tn93", "f84"}

func opsFor(a cAli) []string {
	ops := append([]string{}, bagOps...)
	if !a.Bag {
		ops = append(ops, alignOps...)
	}
	d := a.declared()
	if d == "nt" || d == "unknown" {
		ops = append(ops, ntOps...)
		if !a.Bag {
			ops = append(ops, ntAlignOps...)
		}
	}
	if (d == "aa" || d == "unknown") && !a.Bag {
		ops = append(ops, aaAlignOps...)
	}
	return ops
}

// every operation, also those of the other alphabet (they must refuse and leave the input alone)
func allOpsFor(a cAli) []string {
	ops := append([]string{}, bagOps...)
	ops = append(ops, ntOps...)
	if !a.Bag {
		ops = append(ops, alignOps...)
		ops = append(ops, ntAlignOps...)
		ops = append(ops, aaAlignOps...)
	}
	return ops
}

func genOp(t *rapid.T, a cAli) qop {
	ops := opsFor(a)
	if rapid.IntRange(0, 9).Draw(t, "anyop") == 0 {
		ops = allOpsFor(a)
	}
	var o qop
	// hashed: rapid alone prefers the first entries of a list
	o.Op = ops[splitmix(rapid.Uint64().Draw(t, "op"))%uint64(len(ops))]
	l := len(a.Rows[0].Seq)
	pos := func(label string) int {
		// mostly a valid position, sometimes a border or an invalid one
		switch rapid.IntRange(0, 9).Draw(t, label+"_k") {
		case 0:
			return -1
		case 1:
			return l
		case 2:
			return l - 1
		case 3:
			return 0
		}
		return rapid.IntRange(0, l+1).Draw(t, label)
	}
	o.I, o.J, o.K = pos("i"), pos("j"), pos("k")
	o.F = rapid.SampledFrom([]float64{0, 0.3, 0.5, 1, 0.999, 1.5, 0.1}).Draw(t, "f")
	o.B1, o.B2, o.B3 = rapid.Bool().Draw(t, "b1"), rapid.Bool().Draw(t, "b2"), rapid.Bool().Draw(t, "b3")
	nints := rapid.IntRange(0, 5).Draw(t, "nints")
	for i := 0; i < nints; i++ {
		if l > 0 && rapid.IntRange(0, 11).Draw(t, "validsite") > 0 {
			o.Ints = append(o.Ints, rapid.IntRange(0, l-1).Draw(t, "site"))
		} else {
			o.Ints = append(o.Ints, pos("badsite"))
		}
	}
	o.S = rapid.SampledFrom(dnaModels).Draw(t, "model")
	o.Seed = rapid.Int64().Draw(t, "seed")
	return o
}

func genQCase(t *rapid.T) qCase {
	var c qCase
	alphabet := rapid.SampledFrom([]string{"nt", "aa"}).Draw(t, "alphabet")
	bag := rapid.IntRange(0, 3).Draw(t, "bag") == 0
	c.Ali = genContainer(t, alphabet, bag, 6, 24)
	n := rapid.IntRange(1, 3).Draw(t, "nops")
	for i := 0; i < n; i++ {
		c.Ops = append(c.Ops, genOp(t, c.Ali))
	}
	return c
}

func splitmix(x uint64) uint64 {
	x += 0x9e3779b97f4a7c15
	x = (x ^ (x >> 30)) * 0xbf58476d1ce4e5b9
	x = (x ^ (x >> 27)) * 0x94d049bb133111eb
	return x ^ (x >> 31)
}

func mod(x, n int) int {
	if n <= 0 {
		return 0
	}
	x %= n
	if x < 0 {
		x += n
	}
	return x
}

// ntFor gives a nucleotide sequence set matching a protein alignment (3 nucleotides per residue)
func ntFor(a cAli, seed int64, declaredNT bool) align.SeqBag {
	nt := align.NewSeqBag(align.NUCLEOTIDS)
	if !declaredNT && uint64(seed)>>5%4 == 0 {
		// declared UNKNOWN and never auto-detected (CodonAlign refuses it)
		nt = align.NewSeqBag(align.UNKNOWN)
	}
	x := uint64(seed)
	for _, r := range a.Rows {
		var b []byte
		for i := 0; i < len(r.Seq); i++ {
			if r.Seq[i] == '-' {
				continue
			}
			for k := 0; k < 3; k++ {
				x = x*6364136223846793005 + 1442695040888963407
				b = append(b, "ACGT"[(x>>33)%4])
			}
		}
		nt.AddSequence(r.Name, string(b), "nt comment")
	}
	return nt
}

type queryResult struct {
	ok        bool   // the operation returned without error
	panicked  string // a panic of the operation (not a matter of this property; the snapshot is still compared)
	other     string // a modification of another operand
	excluded  string // the operation was not executed: known crash signature
	childDiff string // modification of the receiver observed in the child process (Phase)
}

const keyPhaseNil = "phase-no-positive-alignment"

// phaseSafe predicts, on fresh copies and with the aligner the phaser uses, whether every
// sequence has at least one alignment of positive score with a reference (or meets an error
// first): otherwise Phase panics inside a goroutine, which cannot be recovered
// phaseRefs builds the reference set given to Phase (nil: the longest ORF is searched): declared
// nucleotide, declared UNKNOWN and never auto-detected, or a protein reference declared as such
// whose letters are all nucleotide codes too
func phaseRefs(c qCase, o qop) align.SeqBag {
	if o.I%2 != 0 {
		return nil
	}
	n := len(c.Ali.Rows)
	ref := strings.ReplaceAll(c.Ali.Rows[mod(o.J, n)].Seq, "-", "")
	var x align.SeqBag
	switch uint64(o.Seed) >> 8 % 4 {
	case 1:
		x = align.NewSeqBag(align.UNKNOWN)
	case 2:
		x = align.NewSeqBag(align.AMINOACIDS)
		b := []byte(ref)
		for i := range b {
			b[i] = "ACDGHKMNRSTVWY"[int(b[i])%14]
		}
		ref = string(b)
	default:
		x = align.NewSeqBag(align.NUCLEOTIDS)
	}
	x.AddSequence("ref", ref, "ref comment")
	return x
}

func phaseSafe(a cAli, given func() align.SeqBag, translate, reverse bool) (safe bool) {
	defer func() {
		if recover() != nil {
			safe = false
		}
	}()
	seqs := buildContainer(a)
	refs := given()
	if refs == nil {
		orf, err := seqs.LongestORF(reverse)
		if err != nil {
			return true // Phase returns this error before starting any goroutine
		}
		refs = align.NewSeqBag(align.UNKNOWN)
		refs.AddSequenceChar(orf.Name(), append([]uint8{}, orf.SequenceChar()...), "")
		refs.AutoAlphabet()
	}
	if translate && refs.Alphabet() == align.NUCLEOTIDS {
		if err := refs.Translate(0, align.GENETIC_CODE_STANDARD); err != nil {
			return true
		}
	}
	for _, s := range seqs.Sequences() {
		cands := []align.Sequence{s}
		if reverse {
			rc := s.Clone()
			rc.Reverse()
			rc.Complement()
			cands = append(cands, rc)
		}
		positive, failed := false, false
	search:
		for _, r := range refs.Sequences() {
			for _, cand := range cands {
				phases := 1
				if translate {
					phases = 3
				}
				for ph := 0; ph < phases; ph++ {
					x := cand
					if translate {
						var err error
						if x, err = cand.Translate(ph, align.GENETIC_CODE_STANDARD); err != nil {
							failed = true
							break search
						}
					}
					al := align.NewPwAligner(r, x, align.ALIGN_ALGO_ATG)
					al.SetGapOpenScore(-10)
					al.SetGapExtendScore(-0.5)
					if _, err := al.Alignment(); err != nil {
						failed = true
						break search
					}
					if al.MaxScore() > 0 {
						positive = true
					}
				}
			}
		}
		if !failed && !positive {
			return false
		}
	}
	return true
}

// runQuery executes one operation on sb. Everything it returns is discarded: only the
// snapshots matter.
func runQuery(test string, c qCase, o qop, sb align.SeqBag) (res queryResult) {
	defer func() {
		if r := recover(); r != nil {
			res.panicked = fmt.Sprint(r)
			res.ok = false
		}
	}()
	al, isAl := sb.(align.Alignment)
	n := sb.NbSequences()
	l := 0
	if isAl {
		l = al.Length()
	}
	errOK := func(e error) { res.ok = e == nil }
	res.ok = true
	var otherBefore snap
	var other align.SeqBag
	watch := func(x align.SeqBag) {
		other = x
		otherBefore = snapshot(x)
	}
	// caller-owned arguments that are not containers (slices of sites, weights, count maps,
	// partition sets): their printed form before the call must equal the one after it
	type argWatch struct {
		name   string
		repr   func() string
		before string
	}
	var argsWatched []argWatch
	watchArg := func(name string, repr func() string) {
		argsWatched = append(argsWatched, argWatch{name, repr, repr()})
	}
	ints := append([]int(nil), o.Ints...)
	defer func() {
		if other != nil {
			if d := otherBefore.diff(snapshot(other)); d != "" {
				res.other = d
			}
		}
		for _, a := range argsWatched {
			if after := a.repr(); after != a.before && res.other == "" {
				res.other = fmt.Sprintf("argument %s: %s -> %s", a.name, a.before, after)
			}
		}
	}()
	guard := func(f func()) { pbt.Guarded(test, c, pbt.WatchdogLimit(120*time.Second), f) }
	rand.Seed(o.Seed)
	switch o.Op {
	// ---- writers
	case "write-fasta":
		_ = fasta.WriteAlignment(sb)
	case "write-sequences":
		_ = fasta.WriteSequences(sb)
	case "write-phylip":
		_ = phylip.WriteAlignment(al, o.B1, o.B2, o.B3)
	case "write-nexus":
		_ = nexus.WriteAlignment(al)
	case "write-clustal":
		_ = clustal.WriteAlignment(al)
	case "write-stockholm":
		_ = stockholm.WriteAlignment(al)
	case "write-paml":
		_ = paml.WriteAlignment(al)
	case "string":
		_ = sb.String()
	// ---- statistics
	case "charstats":
		_ = sb.CharStats()
	case "uniquechars":
		_ = sb.UniqueCharacters()
	case "charstatsseq":
		_, e := sb.CharStatsSeq(o.I % (n + 1))
		errOK(e)
	case "charstatssite":
		_, e := al.CharStatsSite(o.I)
		errOK(e)
	case "maxcharstats":
		_, _, _ = al.MaxCharStats(o.B1, o.B2)
	case "entropy":
		_, e := al.Entropy(o.I, o.B1)
		errOK(e)
	case "avgalleles":
		_ = al.AvgAllelesPerSite()
	case "nbvariable":
		_ = al.NbVariableSites()
	case "informative":
		_ = al.InformativeSites()
	case "pssm":
		_, e := al.Pssm(o.B1, o.F, mod(o.K, 5))
		errOK(e)
	case "conservation":
		_, e := al.SiteConservation(o.I)
		errOK(e)
	case "countdiffs":
		_, _ = al.CountDifferences()
	case "numgapsunique":
		var p *align.CountProfile
		if o.B1 {
			p = align.NewCountProfileFromAlignment(al)
		}
		_, _, _, e := al.NumGapsUniquePerSequence(p)
		errOK(e)
	case "nummutunique":
		var p *align.CountProfile
		if o.B1 {
			p = align.NewCountProfileFromAlignment(al)
		}
		_, _, _, e := al.NumMutationsUniquePerSequence(p)
		errOK(e)
	case "frameshifts":
		_ = al.Frameshifts(o.B1)
	case "stops":
		_, e := al.Stops(o.B1, mod(o.K, 3))
		errOK(e)
	case "identical":
		x := buildContainer(c.Ali)
		if o.B1 && x.NbSequences() > 0 {
			x.SetSequenceChar(0, 0, 'A')
		}
		watch(x)
		_ = sb.Identical(x)
	case "detectalphabet":
		_ = sb.DetectAlphabet()
	case "maxnamelength":
		_ = sb.MaxNameLength()
	case "alphabetchars":
		cs := sb.AlphabetCharacters()
		_ = sb.AlphabetStr()
		if len(cs) > 0 {
			_ = sb.AlphabetCharToIndex(cs[0])
		}
	case "refcoords":
		_, _, e := al.RefCoordinates(c.Ali.Rows[mod(o.K, n)].Name, o.I, mod(o.J, l+1))
		errOK(e)
	case "refsites":
		watchArg("sites", func() string { return fmt.Sprint(ints) })
		_, e := al.RefSites(c.Ali.Rows[mod(o.K, n)].Name, ints)
		errOK(e)
	case "invcoords":
		_, _, e := al.InverseCoordinates(o.I, mod(o.J, l+1))
		errOK(e)
	case "invpositions":
		watchArg("sites", func() string { return fmt.Sprint(ints) })
		_, e := al.InversePositions(ints)
		errOK(e)
	case "countprofile":
		p := align.NewCountProfileFromAlignment(al)
		_, _ = p.CountsAt(0)
	case "consensus":
		_ = al.Consensus(o.B1, o.B2)
	// ---- distances
	case "distmatrix":
		m, e := dna.Model(o.S, o.B1)
		if e != nil {
			res.ok = false
			return
		}
		var w []float64
		if o.B2 {
			w = make([]float64, l)
			for i := range w {
				w[i] = 1 + float64(i%3)
			}
		}
		watchArg("weights", func() string { return fmt.Sprint(w) })
		guard(func() {
			_, e = dna.DistMatrix(al, w, m, -1, -1, -1, -1, o.B3, 0.5+o.F, 1+mod(o.K, 3))
		})
		errOK(e)
	case "mldist":
		m, e := protein.NewProtDistModel(mod(o.K, 6), o.B1, o.B2, 0.5+o.F, o.B3)
		if e != nil {
			res.ok = false
			return
		}
		guard(func() {
			// MLDist prints a warning on the standard error stream for saturated data sets
			if devnull, oe := os.OpenFile(os.DevNull, os.O_WRONLY, 0); oe == nil {
				keep := os.Stderr
				os.Stderr = devnull
				defer func() { os.Stderr = keep; devnull.Close() }()
			}
			if e = m.InitModel(al, nil); e == nil {
				_, _, _, e = m.MLDist(al, nil)
			}
		})
		errOK(e)
	// ---- pairwise alignment, ORF, phasing
	case "pwalign":
		s1, _ := sb.Sequence(mod(o.I, n))
		s2, _ := sb.Sequence(mod(o.J, n))
		algo := align.ALIGN_ALGO_SW
		if o.B1 {
			algo = align.ALIGN_ALGO_ATG
		}
		a := align.NewPwAligner(s1, s2, algo)
		if o.B2 {
			a.SetScore(2, -1)
			a.SetGapOpenScore(-3)
			a.SetGapExtendScore(-1)
		}
		_, e := a.Alignment()
		errOK(e)
		if e == nil {
			_ = a.AlignmentStr()
			_, _ = a.AlignStarts()
			_, _ = a.AlignEnds()
		}
	case "longestorf":
		_, e := sb.LongestORF(o.B1)
		errOK(e)
	case "phase":
		p := align.NewPhaser()
		p.SetCpus(1 + mod(o.K, 3))
		p.SetReverse(o.B2)
		p.SetCutEnd(o.B3)
		p.SetLenCutoff(0.1)
		p.SetMatchCutoff(0.1)
		if e := p.SetTranslate(o.B1, 0); e != nil {
			res.ok = false
			return
		}
		orfs := phaseRefs(c, o)
		if orfs != nil {
			watch(orfs)
		}
		// a sequence without any positively scoring alignment makes a worker goroutine of Phase
		// dereference nil (the process dies): screened out, see FINDINGS.md
		if os.Getenv("C19_NO_PRECHECK") == "" && !phaseSafe(c.Ali, func() align.SeqBag { return phaseRefs(c, o) }, o.B1, o.B2) { // the variable is a development aid: lets the child die
			res.ok = false
			res.excluded = keyPhaseNil
			return
		}
		if os.Getenv("C19_PHASE_CHILD") == "" {
			// executed in a child process: a panic inside a worker goroutine of the phaser cannot be
			// recovered and would end the whole run; the child reports the snapshot comparison
			res = phaseInChild(c, o)
			other = nil
			return
		}
		guard(func() {
			ch, e := p.Phase(orfs, sb)
			if e == nil {
				for ph := range ch {
					if ph.Err != nil {
						e = ph.Err
					}
				}
			}
			errOK(e)
		})
	// ---- copy-producing operations
	case "subalign":
		_, e := al.SubAlign(o.I, mod(o.J, l+2))
		errOK(e)
	case "selectsites":
		watchArg("sites", func() string { return fmt.Sprint(ints) })
		_, e := al.SelectSites(ints)
		errOK(e)
	case "transpose":
		_, e := al.Transpose()
		errOK(e)
	case "bootstrap":
		_ = al.BuildBootstrap(o.F)
	case "clone":
		_, e := al.Clone()
		errOK(e)
	case "clonebag":
		_, e := sb.CloneSeqBag()
		errOK(e)
	case "unalign":
		_ = sb.Unalign()
	case "split":
		ps := align.NewPartitionSet(l)
		if o.B1 && l >= 2 {
			ps.AddRange("p1", "m", 0, l-1, 2)
			ps.AddRange("p2", "m", 1, l-1, 2)
		} else if l >= 2 {
			k := 1 + mod(o.K, l-1)
			ps.AddRange("p1", "m", 0, k-1, 1)
			ps.AddRange("p2", "m", k, l-1, 1)
		}
		watchArg("partition set", func() string { return ps.String() })
		_, e := al.Split(ps)
		errOK(e)
	case "randsubalign":
		_, e := al.RandSubAlign(o.I, o.B1)
		errOK(e)
	// the samplers share row slices with their source (ownership is not claimed for them) but
	// must leave it unchanged, row order included, like every operation producing a new object
	case "sample":
		_, e := al.Sample(1 + mod(o.I, n+1))
		errOK(e)
	case "samplebag":
		_, e := sb.SampleSeqBag(1 + mod(o.I, n+1))
		errOK(e)
	case "rarefy", "rarefybag":
		counts := map[string]int{}
		total := 0
		for i, r := range c.Ali.Rows {
			if v := (i + mod(o.K, 4)) % 4; v > 0 {
				counts[r.Name] = v
				total += v
			}
		}
		if o.B1 {
			counts["nosuch"] = 1
		}
		watchArg("count map", func() string { return fmt.Sprint(counts) })
		var e error
		if o.Op == "rarefy" {
			_, e = al.Rarefy(mod(o.J, total+2), counts)
		} else {
			_, e = sb.RarefySeqBag(mod(o.J, total+2), counts)
		}
		errOK(e)
	case "codonalign":
		nt := ntFor(c.Ali, o.Seed, false)
		watch(nt)
		_, e := al.CodonAlign(nt)
		errOK(e)
	// ---- iteration and accessors (reading only)
	case "iterate":
		sb.Iterate(func(name string, sequence string) bool { return false })
		sb.IterateChar(func(name string, sequence []uint8) bool { return false })
		sb.IterateAll(func(name string, sequence []uint8, comment string) bool { return false })
	case "sequences":
		for _, s := range sb.Sequences() {
			_ = s.Sequence()
			_ = s.Length()
		}
	case "seqchan":
		guard(func() {
			for s := range sb.SequencesChan() {
				_ = s.Name()
			}
		})
	case "getters":
		name := c.Ali.Rows[mod(o.K, n)].Name
		_, _ = sb.GetSequence(name)
		_, _ = sb.GetSequenceById(o.I % (n + 1))
		_, _ = sb.GetSequenceChar(name)
		_, _ = sb.GetSequenceCharById(o.I % (n + 1))
		_, _ = sb.GetSequenceNameById(o.I % (n + 1))
		_, _ = sb.GetSequenceByName(name)
		_ = sb.GetSequenceIdByName(name)
		_, _ = sb.SequenceByName("nosuch")
	case "seq-queries":
		s, _ := sb.Sequence(mod(o.I, n))
		r, _ := sb.Sequence(mod(o.J, n))
		_, _ = s.LongestORF()
		_ = s.DetectAlphabet()
		_ = s.NumGaps()
		_ = s.NumGapsOpenning()
		_ = s.NumGapsFromStart()
		_ = s.NumGapsFromEnd()
		_ = s.SameSequence([]uint8(r.Sequence()))
		if s.Length() > 0 {
			_ = s.CharAt(mod(o.K, s.Length()))
		}
		_, e1 := s.NumMutationsComparedToReferenceSequence(sb.Alphabet(), r)
		_, e2 := s.ListMutationsComparedToReferenceSequence(sb.Alphabet(), r, false)
		res.ok = e1 == nil && e2 == nil
		if sb.Alphabet() == align.NUCLEOTIDS && o.B1 {
			_, e3 := s.ListMutationsComparedToReferenceSequence(sb.Alphabet(), r, true)
			res.ok = res.ok && e3 == nil
		}
	case "seq-translate":
		s, _ := sb.Sequence(mod(o.I, n))
		_, e := s.Translate(mod(o.J, 3), mod(o.K, 3))
		errOK(e)
	case "seq-clone":
		s, _ := sb.Sequence(mod(o.I, n))
		_ = s.Clone()
	case "seq-mutations":
		// listing the mutations of every row against the first one (stats mutations)
		ref, _ := sb.Sequence(0)
		for i := 1; i < n; i++ {
			s, _ := sb.Sequence(i)
			_, _ = s.ListMutationsComparedToReferenceSequence(sb.Alphabet(), ref, false)
		}
	default:
		panic("harness: unknown operation " + o.Op)
	}
	return
}

// ---- Phase runs in a child process ---------------------------------------------------------------
//
// A panic inside a worker goroutine of the phaser cannot be recovered and would end the whole run.
// The test binary is therefore started once more as a server (TestPhaseChild): it reads one case
// per line, executes the Phase operation, compares the snapshots and answers with one line. When
// the server dies the operation is recorded as "panicked (not judged here)" and a new server is
// started for the next one.

type phaseServer struct {
	cmd *exec.Cmd
	in  io.WriteCloser
	out *bufio.Reader
}

var server *phaseServer

func startServer() *phaseServer {
	cmd := exec.Command(os.Args[0], "-test.run", "^TestPhaseChild$", "-test.timeout", "0")
	env := []string{"C19_PHASE_CHILD=server"}
	for _, kv := range os.Environ() {
		if !strings.HasPrefix(kv, "VERIF_FRAG=") && !strings.HasPrefix(kv, "VERIF_SIDE") && !strings.HasPrefix(kv, "VERIF_REPLAY=") {
			env = append(env, kv)
		}
	}
	cmd.Env = env
	in, err := cmd.StdinPipe()
	if err != nil {
		panic("harness: " + err.Error())
	}
	out, err := cmd.StdoutPipe()
	if err != nil {
		panic("harness: " + err.Error())
	}
	cmd.Stderr = nil
	if err := cmd.Start(); err != nil {
		panic("harness: cannot start the Phase server: " + err.Error())
	}
	return &phaseServer{cmd: cmd, in: in, out: bufio.NewReaderSize(out, 1<<20)}
}

func (s *phaseServer) stop() {
	s.in.Close()
	s.cmd.Process.Kill()
	s.cmd.Wait()
}

type childAnswer struct {
	OK    bool
	Diff  string
	Other string
}

func phaseInChild(c qCase, o qop) (res queryResult) {
	one := qCase{Ali: c.Ali, Ops: []qop{o}}
	b, _ := json.Marshal(one)
	if server == nil {
		server = startServer()
	}
	if _, err := server.in.Write(append(b, '\n')); err != nil {
		server.stop()
		server = nil
		res.panicked = "the child process running Phase died (write)"
		return
	}
	for {
		line, err := server.out.ReadString('\n')
		if strings.HasPrefix(line, "C19CHILD ") {
			var r childAnswer
			if json.Unmarshal([]byte(strings.TrimSpace(strings.TrimPrefix(line, "C19CHILD "))), &r) == nil {
				res.ok = r.OK
				res.childDiff = r.Diff
				res.other = r.Other
				return
			}
		}
		if err != nil {
			server.stop()
			server = nil
			res.panicked = "the child process running Phase died"
			return
		}
	}
}

// TestPhaseChild is the body of the server process
func TestPhaseChild(t *testing.T) {
	if os.Getenv("C19_PHASE_CHILD") == "" {
		t.Skip("only run as a child of TestQueries")
	}
	rd := bufio.NewReaderSize(os.Stdin, 1<<20)
	for {
		line, err := rd.ReadString('\n')
		if len(strings.TrimSpace(line)) > 0 {
			var c qCase
			if json.Unmarshal([]byte(line), &c) != nil || len(c.Ops) != 1 {
				fmt.Printf("\nC19BAD\n")
			} else {
				sb := buildContainer(c.Ali)
				before := snapshot(sb)
				res := runQuery("TestQueries", c, c.Ops[0], sb)
				out, _ := json.Marshal(childAnswer{res.ok && res.excluded == "", before.diff(snapshot(sb)), res.other})
				fmt.Printf("\nC19CHILD %s\n", out)
			}
		}
		if err != nil {
			return
		}
	}
}

// sharedProbe observes, through the public API and on fixed inputs of its own, everything a query
// could reach besides its operands: the alphabet tables, the letters drawn by a seeded Mutate, the
// genetic codes, the complement table, alphabet detection. A history of queries on some alignment
// must leave it as it was (no state shared through the package)
func sharedProbe() string {
	var sb strings.Builder
	nt := align.NewAlign(align.NUCLEOTIDS)
	nt.AddSequence("p", "ACGTRYKMSWNACGTTTGACC-", "")
	nt.AddSequence("q", "ACGAGGKMSWNACTTCTGAAC-", "")
	aa := align.NewAlign(align.AMINOACIDS)
	aa.AddSequence("p", "ARNDCQEGHILKMFPSTWYVX*-", "")
	fmt.Fprintf(&sb, "%s|%s|%s|%s|", nt.AlphabetCharacters(), aa.AlphabetCharacters(), nt.AlphabetStr(), aa.AlphabetStr())
	for _, ch := range []uint8("ACGTUacgtuNX-") {
		fmt.Fprintf(&sb, "%d,%d;", nt.AlphabetCharToIndex(ch), aa.AlphabetCharToIndex(ch))
	}
	rand.Seed(20240607)
	m, _ := nt.Clone()
	m.Mutate(1)
	m.IterateChar(func(n string, b []uint8) bool { sb.Write(b); sb.WriteByte('|'); return false })
	ma, _ := aa.Clone()
	ma.Mutate(1)
	ma.IterateChar(func(n string, b []uint8) bool { sb.Write(b); sb.WriteByte('|'); return false })
	for code := 0; code < 3; code++ {
		s := align.NewSequence("t", []uint8("ATGAAATGAAGATAGATACTGTTTCCCGGGTAA"), "")
		if tr, err := s.Translate(0, code); err == nil {
			sb.WriteString(tr.Sequence() + "|")
		}
	}
	c := []uint8("ACGTRYSWKMBDHVNacgtryswkmbdhvn")
	align.Complement(c)
	sb.Write(c)
	fmt.Fprintf(&sb, "|%d,%d,%d", nt.DetectAlphabet(), aa.DetectAlphabet(), align.DetectAlphabet("ACGUN"))
	cs := nt.CharStats()
	fmt.Fprintf(&sb, "|%d,%d", cs['A'], cs['T'])
	// pairwise alignment: substitution matrices and their character index
	for _, pair := range [][2]string{{"ACGTTGCAAC", "ACGTAGCAAC"}, {"ACGUUGCAAC", "ACGTAGCAAC"}, {"MKVLAWQE", "MRVLSWQD"}, {"acgtn", "ACGTN"}, {"MKV*", "MKVX"}} {
		a := align.NewPwAligner(align.NewSequence("x", []uint8(pair[0]), ""), align.NewSequence("y", []uint8(pair[1]), ""), align.ALIGN_ALGO_SW)
		if _, err := a.Alignment(); err != nil {
			sb.WriteString("|" + err.Error())
		} else {
			fmt.Fprintf(&sb, "|%v:%s", a.MaxScore(), a.AlignmentStr())
		}
	}
	if p, err := nt.Pssm(false, 0, align.PSSM_NORM_NONE); err == nil {
		fmt.Fprintf(&sb, "|%v|%v", p['A'], p['T'])
	}
	return sb.String()
}

var lastProbe string
var codesCount int

// codesProbe: translating a codon with one genetic code must not change what another code gives.
// For the ambiguous codons whose expansions are translated differently by the three codes (parents of
// AGA/AGG, TGA, ATA), taken in several orders of the codes, the translation must be the common amino
// acid of the plain expansions under the SAME code (plain codons, translated through the same call),
// X when they differ - whatever was translated before in this process
func codesProbe() string {
	iupac := map[byte]string{'A': "A", 'C': "C", 'G': "G", 'T': "T", 'R': "AG", 'Y': "CT", 'H': "ACT", 'N': "ACGT", 'M': "AC", 'W': "AT", 'D': "AGT"}
	tr := func(codon string, code int) string {
		t, err := align.NewSequence("c", []uint8(codon), "").Translate(0, code)
		if err != nil {
			return "error " + err.Error()
		}
		return t.Sequence()
	}
	// the plain codons that the three codes (standard, vertebrate mitochondrial, invertebrate
	// mitochondrial: NCBI tables 1, 2, 5) translate differently
	facts := map[string][3]string{"AGA": {"R", "*", "S"}, "AGG": {"R", "*", "S"}, "TGA": {"*", "W", "W"}, "ATA": {"I", "M", "M"}, "ATG": {"M", "M", "M"}, "TAA": {"*", "*", "*"}}
	for _, order := range [][]int{{0, 1, 2}, {2, 1, 0}, {1, 2, 0}, {0, 2, 1}} {
		for _, code := range order {
			for codon, want := range facts {
				for _, form := range []string{codon, strings.ToLower(codon), strings.ReplaceAll(codon, "T", "U")} {
					if got := tr(form, code); got != want[code] {
						return fmt.Sprintf("codon %s with genetic code %d is translated %q, the code's table says %q (codes used in the order %v)", form, code, got, want[code], order)
					}
				}
			}
			for _, codon := range []string{"AGR", "TGR", "ATH", "ATR", "ATM", "ATW", "ATD", "AGN", "MGA", "TGN", "ATN"} {
				want := ""
				for _, a := range iupac[codon[0]] {
					for _, b := range iupac[codon[1]] {
						for _, c := range iupac[codon[2]] {
							x := tr(string([]rune{a, b, c}), code)
							if want == "" {
								want = x
							} else if want != x {
								want = "X"
							}
						}
					}
				}
				for _, form := range []string{codon, strings.ToLower(codon), strings.ReplaceAll(codon, "T", "U")} {
					if got := tr(form, code); got != want {
						return fmt.Sprintf("codon %s with genetic code %d is translated %q, its plain expansions give %q with the same code (codes used in the order %v)", form, code, got, want, order)
					}
				}
			}
		}
	}
	return ""
}

func checkQueries(test string) func(c qCase) (pbt.Outcome, error) {
	return func(c qCase) (o pbt.Outcome, err error) {
		// nothing runs between two cases of this process: the probe after the previous case is the
		// probe before this one
		if lastProbe == "" {
			lastProbe = sharedProbe()
		}
		probe := lastProbe
		defer func() {
			after := sharedProbe()
			lastProbe = after
			// a change of this kind stays for the rest of the process: looked at every 16th history
			codesCount++
			if err == nil && codesCount%16 == 1 {
				if d := codesProbe(); d != "" {
					err = fmt.Errorf("translations with one genetic code changed what another code gives (state shared through the package): %s", d)
				}
			}
			if err == nil {
				if after != probe {
					err = fmt.Errorf("the history of queries changed state shared by all alignments (observed on fixed inputs of the harness)\n before: %s\n after : %s", probe, after)
				}
			}
		}()
		sb := buildContainer(c.Ali)
		before := snapshot(sb)
		// the container holds what was generated
		for i, r := range c.Ali.Rows {
			if before.Rows[i].Name != r.Name || before.Rows[i].Seq != r.Seq || before.Rows[i].Comment != c.Ali.Comments[i] {
				return o, fmt.Errorf("harness: the container does not hold the generated rows")
			}
		}
		okAll := true
		for k, op := range c.Ops {
			res := runQuery(test, c, op, sb)
			after := snapshot(sb)
			d := before.diff(after)
			if d == "" {
				d = res.childDiff
			}
			if d != "" {
				return o, fmt.Errorf("operation %d (%s) modified the %s it was called on: %s", k, op.Op, kindOf(c.Ali), d)
			}
			if res.other != "" {
				return o, fmt.Errorf("operation %d (%s) modified its other operand: %s", k, op.Op, res.other)
			}
			switch {
			case res.excluded != "":
				o.Exclude(res.excluded)
				o.Class("%s: not executed (known crash signature)", op.Op)
				okAll = false
			case res.panicked != "":
				o.Class("%s: panicked (not judged here)", op.Op)
				if os.Getenv("C19_SHOW_PANICS") != "" {
					fmt.Println("PANIC", op.Op, res.panicked)
				}
				okAll = false
			case res.ok:
				o.Class("%s: ok", op.Op)
			default:
				o.Class("%s: error returned", op.Op)
				okAll = false
			}
		}
		o.Class("%s %s", kindOf(c.Ali), c.Ali.Alphabet)
		o.NonTrivial = okAll && len(c.Ali.Rows) >= 2
		return o, nil
	}
}

func kindOf(a cAli) string {
	if a.Bag {
		return "sequence set"
	}
	return "alignment"
}

func TestQueries(t *testing.T) {
	defer func() {
		if server != nil {
			server.stop()
			server = nil
		}
	}()
	pbt.Run(t, genQCase, checkQueries("TestQueries"))
}

var _ = gen.Show
