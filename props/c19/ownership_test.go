package c19

import (
	"fmt"
	"math/rand"
	"testing"

	"github.com/evolbioinfo/goalign/align"
	"pgregory.net/rapid"
	"verif/internal/pbt"
)

// ---- ownership: clones, sub-alignments, site selections ---------------------------------------------

type mut struct {
	Kind string `json:"kind"`
	Row  int    `json:"row"`
	Site int    `json:"site"`
	Ch   int    `json:"ch"`
	Len  int    `json:"len"`
	S    string `json:"s,omitempty"`
	B    bool   `json:"b"`
}

type ownCase struct {
	Ali      cAli   `json:"ali"`
	Producer string `json:"producer"`
	I        int    `json:"i"`
	J        int    `json:"j"`
	Ints     []int  `json:"ints,omitempty"`
	Seed     int64  `json:"seed"`
	Muts     []mut  `json:"muts"`
}

// clones, sub-alignments, site selections, and the other new objects the statement lists
var alignProducers = []string{"clone", "clonebag", "subalign", "randsubalign-consecutive", "randsubalign-free", "selectsites", "seq-clone",
	"bootstrap", "transpose", "unalign", "split", "consensus", "pwalign-sw", "pwalign-atg"}
var bagProducers = []string{"clonebag", "seq-clone", "unalign", "pwalign-sw", "pwalign-atg"}

// in-place mutations of a container
var bagMuts = []string{"seqbyname-write", "rename-write", "setchar", "seqchar-write", "getchar-write", "getcharbyname-write", "iteratechar-write", "revcomp", "revcomp-row", "tolower", "toupper", "replace", "sort", "appendid", "seq-reverse", "seq-complement"}
var alignMuts = []string{"concat", "append", "replacechar", "mask", "diffwithfirst", "trim", "shufflesites", "mutate", "addgaps", "swap", "replacematch"}

func genMut(t *rapid.T, kinds []string) mut {
	var m mut
	m.Kind = kinds[splitmix(rapid.Uint64().Draw(t, "kind"))%uint64(len(kinds))]
	m.Row = rapid.IntRange(0, 40).Draw(t, "row")
	m.Site = rapid.IntRange(0, 60).Draw(t, "site")
	m.Ch = int(rapid.SampledFrom([]byte("ACGTNacgtn-XKW*?")).Draw(t, "ch"))
	m.Len = rapid.IntRange(0, 30).Draw(t, "len")
	m.S = rapid.SampledFrom([]string{"", "GAP", "MAJ", "AMBIG", "x"}).Draw(t, "s")
	m.B = rapid.Bool().Draw(t, "b")
	return m
}

func genOwn(t *rapid.T) ownCase {
	var c ownCase
	alphabet := rapid.SampledFrom([]string{"nt", "aa"}).Draw(t, "alphabet")
	bag := rapid.IntRange(0, 4).Draw(t, "bag") == 0
	c.Ali = genContainer(t, alphabet, bag, 5, 16)
	prods := append([]string{}, alignProducers...)
	if c.Ali.declared() == "aa" {
		prods = append(prods, "codonalign")
	}
	kinds := append(append([]string{}, bagMuts...), alignMuts...)
	if bag {
		prods = bagProducers
		kinds = bagMuts
	}
	c.Producer = prods[splitmix(rapid.Uint64().Draw(t, "producer"))%uint64(len(prods))]
	l := len(c.Ali.Rows[0].Seq)
	// valid arguments: the result must exist
	c.I = rapid.IntRange(0, l).Draw(t, "i")
	c.J = rapid.IntRange(0, l).Draw(t, "j")
	n := rapid.IntRange(1, 6).Draw(t, "nsites")
	for i := 0; i < n && l > 0; i++ {
		c.Ints = append(c.Ints, rapid.IntRange(0, l-1).Draw(t, "site"))
	}
	c.Seed = rapid.Int64().Draw(t, "seed")
	nm := rapid.IntRange(1, 5).Draw(t, "nmuts")
	for i := 0; i < nm; i++ {
		c.Muts = append(c.Muts, genMut(t, kinds))
	}
	return c
}

// applyMut applies one in-place mutation to a container; indices are reduced to its dimensions
func applyMut(sb align.SeqBag, m mut, seed int64) {
	n := sb.NbSequences()
	if n == 0 {
		return
	}
	row := mod(m.Row, n)
	name, _ := sb.GetSequenceNameById(row)
	s, _ := sb.Sequence(row)
	rl := s.Length()
	ch := uint8(m.Ch)
	al, isAl := sb.(align.Alignment)
	switch m.Kind {
	case "setchar":
		if rl > 0 {
			sb.SetSequenceChar(row, mod(m.Site, rl), ch)
		}
	case "seqchar-write":
		if rl > 0 {
			s.SequenceChar()[mod(m.Site, rl)] = ch
		}
	case "getchar-write":
		if b, ok := sb.GetSequenceCharById(row); ok && len(b) > 0 {
			b[mod(m.Site, len(b))] = ch
		}
	case "getcharbyname-write":
		if b, ok := sb.GetSequenceChar(name); ok && len(b) > 0 {
			b[mod(m.Site, len(b))] = ch
		}
	case "iteratechar-write":
		sb.IterateChar(func(nm string, b []uint8) bool {
			if len(b) > 0 {
				b[mod(m.Site, len(b))] = ch
			}
			return false
		})
	case "seqbyname-write":
		if x, ok := sb.GetSequenceByName(name); ok && x.Length() > 0 {
			x.SequenceChar()[mod(m.Site, x.Length())] = ch
		}
	case "rename-write":
		nn := name + "_r"
		sb.Rename(map[string]string{name: nn})
		if b, ok := sb.GetSequenceChar(nn); ok && len(b) > 0 {
			b[mod(m.Site, len(b))] = ch
		}
	case "revcomp":
		sb.ReverseComplement()
	case "revcomp-row":
		sb.ReverseComplementSequences(name)
	case "tolower":
		sb.ToLower()
	case "toupper":
		sb.ToUpper()
	case "replace":
		sb.Replace("A", "G", false)
	case "sort":
		sb.Sort()
	case "appendid":
		sb.AppendSeqIdentifier("x", m.B)
	case "seq-reverse":
		s.Reverse()
	case "seq-complement":
		s.Complement()
	}
	if !isAl {
		return
	}
	l := al.Length()
	switch m.Kind {
	case "concat":
		// the same names, what `build seqboot --partition` does with the replicates of the parts
		o := align.NewAlign(al.Alphabet())
		al.IterateAll(func(nm string, b []uint8, cm string) bool {
			x := append([]uint8{}, b...)
			if len(x) > 0 {
				x[0] = ch
			}
			o.AddSequenceChar(nm, x, cm)
			return false
		})
		al.Concat(o)
	case "append":
		o := align.NewAlign(al.Alphabet())
		b := make([]uint8, l)
		for i := range b {
			b[i] = ch
		}
		o.AddSequenceChar(fmt.Sprintf("new%d", m.Len), b, "appended")
		al.Append(o)
	case "replacechar":
		if l > 0 {
			al.ReplaceChar(name, mod(m.Site, l), ch)
		}
	case "mask":
		if l > 0 {
			start := mod(m.Site, l)
			al.Mask("", start, 1+mod(m.Len, l-start), m.S, m.B, false)
		}
	case "diffwithfirst":
		al.DiffWithFirst()
	case "replacematch":
		al.ReplaceMatchChars()
	case "trim":
		if l > 1 {
			al.TrimSequences(1+mod(m.Len, l-1), m.B)
		}
	case "shufflesites":
		rand.Seed(seed)
		al.ShuffleSites(1, 0, false)
	case "mutate":
		rand.Seed(seed)
		al.Mutate(1)
	case "addgaps":
		rand.Seed(seed)
		al.AddGaps(0.5, 1)
	case "swap":
		rand.Seed(seed)
		al.Swap(1, 0)
	}
}

type seqSnap struct{ Name, Seq, Comment string }

func snapSeq(s align.Sequence) seqSnap { return seqSnap{s.Name(), s.Sequence(), s.Comment()} }

func checkOwn(c ownCase) (o pbt.Outcome, err error) {
	src := buildContainer(c.Ali)
	al, isAl := src.(align.Alignment)
	l := len(c.Ali.Rows[0].Seq)
	n := len(c.Ali.Rows)
	o.Class("producer=%s", c.Producer)
	o.Class("%s %s", kindOf(c.Ali), c.Ali.Alphabet)
	rand.Seed(c.Seed)

	// ---- a cloned sequence
	if c.Producer == "seq-clone" {
		row := mod(c.I, n)
		s, _ := src.Sequence(row)
		cl := s.Clone()
		s0 := snapshot(src)
		c0 := snapSeq(cl)
		if c0.Name != s0.Rows[row].Name || c0.Seq != s0.Rows[row].Seq || c0.Comment != s0.Rows[row].Comment {
			return o, fmt.Errorf("Sequence.Clone differs from its source: %v / %v", c0, s0.Rows[row])
		}
		changed := false
		for _, m := range c.Muts {
			b := cl.SequenceChar()
			switch {
			case m.Kind == "seq-reverse" || m.Kind == "revcomp":
				cl.Reverse()
			case m.Kind == "seq-complement":
				cl.Complement()
			case len(b) > 0:
				b[mod(m.Site, len(b))] = uint8(m.Ch)
			}
		}
		if snapSeq(cl) != c0 {
			changed = true
		}
		if d := s0.diff(snapshot(src)); d != "" {
			return o, fmt.Errorf("mutating a cloned sequence changed the container of its source: %s", d)
		}
		c1 := snapSeq(cl)
		for _, m := range c.Muts {
			applyMut(src, m, c.Seed)
		}
		if s0.diff(snapshot(src)) != "" {
			changed = true
		}
		if c2 := snapSeq(cl); c2 != c1 {
			return o, fmt.Errorf("mutating the source changed its cloned sequence: %v -> %v", c1, c2)
		}
		o.NonTrivial = changed
		return o, nil
	}

	// ---- a copied container
	var extra []align.SeqBag
	// a pairwise aligner lives as long as the case: every production asks the SAME aligner again
	var pw align.PairwiseAligner
	var nt align.SeqBag
	if c.Producer == "codonalign" {
		nt = ntFor(c.Ali, c.Seed, true)
		extra = append(extra, nt)
	}
	if c.Producer == "pwalign-sw" || c.Producer == "pwalign-atg" {
		// two non-empty rows (the aligner indexes the trace of an empty sequence and panics: outside
		// this property, and a case with nothing to align)
		var full []int
		for i, r := range c.Ali.Rows {
			if len(r.Seq) > 0 {
				full = append(full, i)
			}
		}
		if len(full) == 0 {
			o.Class("pairwise alignment: only empty sequences")
			return o, nil
		}
		s1, _ := src.Sequence(full[mod(c.I, len(full))])
		s2, _ := src.Sequence(full[mod(c.J, len(full))])
		algo := align.ALIGN_ALGO_SW
		if c.Producer == "pwalign-atg" {
			algo = align.ALIGN_ALGO_ATG
		}
		pw = align.NewPwAligner(s1, s2, algo)
	}
	// produce runs the producer once more on the same source (call number k = 0, 1)
	produce := func(k int) (res align.SeqBag, other align.SeqBag, perr error) {
		switch c.Producer {
		case "clone":
			var x align.Alignment
			x, perr = al.Clone()
			res = x
		case "clonebag":
			res, perr = src.CloneSeqBag()
		case "subalign":
			start := c.I
			length := mod(c.J, l-start+1)
			var x align.Alignment
			x, perr = al.SubAlign(start, length)
			res = x
		case "randsubalign-consecutive", "randsubalign-free":
			var x align.Alignment
			x, perr = al.RandSubAlign(1+mod(c.J, l), c.Producer == "randsubalign-consecutive")
			res = x
		case "selectsites":
			var x align.Alignment
			x, perr = al.SelectSites(c.Ints)
			res = x
		case "bootstrap":
			res = al.BuildBootstrap([]float64{1, 0.5, 1}[mod(c.J, 3)])
		case "transpose":
			var x align.Alignment
			x, perr = al.Transpose()
			res = x
		case "unalign":
			res = src.Unalign()
		case "consensus":
			res = al.Consensus(c.I%2 == 0, c.J%2 == 0)
		case "split":
			ps := align.NewPartitionSet(l)
			if c.J%2 == 0 {
				ps.AddRange("p1", "m", 0, l-1, 2)
				ps.AddRange("p2", "m", 1, l-1, 2)
			} else {
				k := 1 + mod(c.I, l-1)
				ps.AddRange("p1", "m", 0, k-1, 1)
				ps.AddRange("p2", "m", k, l-1, 1)
			}
			var parts []align.Alignment
			parts, perr = al.Split(ps)
			if perr == nil && len(parts) == 2 {
				res = parts[mod(c.I, 2)]
				other = parts[1-mod(c.I, 2)]
			}
		case "codonalign":
			res, perr = al.CodonAlign(nt)
		case "pwalign-sw", "pwalign-atg":
			// scores of this call: the default ones or drawn ones (what a caller that re-aligns
			// with other penalties does)
			h := splitmix(uint64(c.Seed) + uint64(k))
			if h%3 != 0 {
				pw.SetGapOpenScore([]float64{-10, -3, -1, -100}[(h>>8)%4])
				pw.SetGapExtendScore([]float64{-0.5, -1, -100}[(h>>16)%3])
			}
			if (h>>24)%3 == 0 {
				pw.SetScore(2, -1)
			}
			var x align.Alignment
			x, perr = pw.Alignment()
			res = x
		default:
			panic("harness: unknown producer " + c.Producer)
		}
		return
	}
	if c.Producer == "split" && l < 2 {
		o.Skip = true
		return o, nil
	}
	res, other, perr := produce(0)
	if pw != nil && perr != nil {
		// letters that the substitution matrix does not know: the aligner refuses, nothing is produced
		o.Class("pairwise alignment refused")
		return o, nil
	}
	if perr != nil || res == nil {
		return o, fmt.Errorf("harness: %s with valid arguments failed: %v", c.Producer, perr)
	}
	if other != nil {
		extra = append(extra, other)
	}
	// ---- prior use: the producer is asked again on the same source / aligner. The first result is
	// an object of its own: the second production, and writing into the second result, leave it as
	// it was (and the second result does not move when the first one is written into: step 1 below)
	first := snapshot(res)
	res2, other2, perr2 := produce(1)
	if d := first.diff(snapshot(res)); d != "" {
		return o, fmt.Errorf("%s: producing a SECOND result from the same source changed the FIRST result: %s", c.Producer, d)
	}
	var second []align.SeqBag
	if perr2 == nil && res2 != nil {
		for k, m := range c.Muts {
			applyMut(res2, m, c.Seed)
			if d := first.diff(snapshot(res)); d != "" {
				return o, fmt.Errorf("%s: mutation %d (%s) of the SECOND result changed the FIRST result: %s", c.Producer, k, m.Kind, d)
			}
		}
		second = append(second, res2)
		if other2 != nil {
			second = append(second, other2)
		}
		if d := first.diff(snapshot(res)); d != "" {
			return o, fmt.Errorf("%s: the FIRST result moved: %s", c.Producer, d)
		}
	} else if pw == nil {
		return o, fmt.Errorf("harness: second %s with valid arguments failed: %v", c.Producer, perr2)
	}
	secondBefore := make([]snap, len(second))
	for i, x := range second {
		secondBefore[i] = snapshot(x)
	}
	_ = isAl
	// the source(s): the receiver and every other object that must stay as it is (the nucleotide
	// set of CodonAlign, the other part of Split)
	others := append([]align.SeqBag{src}, extra...)
	before := make([]snap, len(others))
	for i, x := range others {
		before[i] = snapshot(x)
	}
	untouched := func() string {
		for i, x := range others {
			sn := snapshot(x)
			if d := before[i].diff(sn); d != "" {
				return fmt.Sprintf("object %d: %s", i, d)
			}
			if d := sn.inconsistent(); d != "" {
				return fmt.Sprintf("object %d: %s", i, d)
			}
		}
		for i, x := range second {
			if d := secondBefore[i].diff(snapshot(x)); d != "" {
				return fmt.Sprintf("second result %d of the same producer: %s", i, d)
			}
		}
		return ""
	}
	r0 := snapshot(res)
	if d := r0.inconsistent(); d != "" {
		return o, fmt.Errorf("%s: the result is inconsistent: %s", c.Producer, d)
	}
	// 1. mutate the result, look at the source
	for k, m := range c.Muts {
		applyMut(res, m, c.Seed)
		if d := untouched(); d != "" {
			return o, fmt.Errorf("%s: mutation %d (%s) of the RESULT changed the SOURCE: %s", c.Producer, k, m.Kind, d)
		}
		if d := snapshot(res).inconsistent(); d != "" {
			return o, fmt.Errorf("%s: after mutation %d (%s) the RESULT is inconsistent (an access by name does not reach the row seen by index): %s", c.Producer, k, m.Kind, d)
		}
	}
	r1 := snapshot(res)
	changed := r0.diff(r1) != ""
	// 2. mutate the source(s), look at the result
	for i, x := range others {
		if i > 0 && c.Producer == "split" {
			continue
		}
		for k, m := range c.Muts {
			applyMut(x, m, c.Seed)
			if d := r1.diff(snapshot(res)); d != "" {
				return o, fmt.Errorf("%s: mutation %d (%s) of the SOURCE (object %d) changed the RESULT: %s", c.Producer, k, m.Kind, i, d)
			}
		}
	}
	if before[0].diff(snapshot(src)) != "" {
		changed = true
	}
	for _, m := range c.Muts {
		o.Class("mutation=%s", m.Kind)
	}
	if changed {
		o.Class("a mutation changed a byte")
	}
	o.NonTrivial = changed
	return o, nil
}

func TestOwnership(t *testing.T) { pbt.Run(t, genOwn, checkOwn) }
