// C19 - Queries never modify their input; copies share nothing with the original
//
//   - TestQueries: a generated alignment / sequence set (with comments) and a short history of
//     read-only or copy-producing operations with generated arguments; a deep snapshot (names,
//     residues, comments, name index, length, alphabet) taken before must equal the snapshot
//     taken after every operation. Operands other than the receiver (the nucleotide set of
//     CodonAlign, the reference of Phase, the second operand of Identical) are inputs too.
//   - TestOwnership: clones (Clone, CloneSeqBag, Sequence.Clone), sub-alignments (SubAlign,
//     RandSubAlign consecutive or not) and site selections (SelectSites): a generated list of
//     in-place mutations is applied to the RESULT and the source snapshot must not move, then
//     to the SOURCE and the result snapshot must not move.
//
// The oracle is the snapshot comparison only; it never looks at what the operations return.
package c19

import (
	"fmt"
	"io"
	"log"
	"testing"

	"github.com/evolbioinfo/goalign/align"
	"pgregory.net/rapid"
	"verif/internal/gen"
	"verif/internal/pbt"
)

func TestMain(m *testing.M) {
	log.SetOutput(io.Discard)
	pbt.Main(m, "C19")
}

// ---- the container of a case ---------------------------------------------------------------------

type cAli struct {
	Rows     []gen.Row `json:"rows"`
	Comments []string  `json:"comments"`
	Alphabet string    `json:"alphabet"` // nt | aa: the letters the rows are drawn from
	Declared string    `json:"declared"` // "" (same as Alphabet) | "unknown" (align.UNKNOWN, never auto-detected) | "aa" (protein declared over nucleotide looking letters)
	Bag      bool      `json:"bag"`      // a sequence set (rows of different lengths)
}

func alphabetCode(s string) int {
	switch s {
	case "aa":
		return align.AMINOACIDS
	case "unknown":
		return align.UNKNOWN
	}
	return align.NUCLEOTIDS
}

// declared gives the alphabet the container is created with
func (a cAli) declared() string {
	if a.Declared != "" {
		return a.Declared
	}
	return a.Alphabet
}

func buildContainer(a cAli) align.SeqBag {
	var sb align.SeqBag
	if a.Bag {
		sb = align.NewSeqBag(alphabetCode(a.declared()))
	} else {
		sb = align.NewAlign(alphabetCode(a.declared()))
	}
	for i, r := range a.Rows {
		if err := sb.AddSequence(r.Name, r.Seq, a.Comments[i]); err != nil {
			panic("harness: cannot build the container: " + err.Error())
		}
	}
	return sb
}

// ---- deep snapshot -----------------------------------------------------------------------------

type snapRow struct {
	Name, Seq, Comment string
	ByName             string // what the name index returns for this name
	ByNameOK           bool
}

type snap struct {
	Rows     []snapRow
	N        int
	Length   int // -7 for a sequence set
	Alphabet int
}

func snapshot(sb align.SeqBag) snap {
	s := snap{N: sb.NbSequences(), Length: -7, Alphabet: sb.Alphabet()}
	sb.IterateAll(func(name string, sequence []uint8, comment string) bool {
		s.Rows = append(s.Rows, snapRow{Name: name, Seq: string(sequence), Comment: comment})
		return false
	})
	for i := range s.Rows {
		s.Rows[i].ByName, s.Rows[i].ByNameOK = sb.GetSequence(s.Rows[i].Name)
	}
	if al, ok := sb.(align.Alignment); ok {
		s.Length = al.Length()
	}
	return s
}

func (a snap) diff(b snap) string {
	if a.N != b.N || len(a.Rows) != len(b.Rows) {
		return fmt.Sprintf("number of sequences %d -> %d", a.N, b.N)
	}
	if a.Length != b.Length {
		return fmt.Sprintf("Length() %d -> %d", a.Length, b.Length)
	}
	if a.Alphabet != b.Alphabet {
		return fmt.Sprintf("alphabet %d -> %d", a.Alphabet, b.Alphabet)
	}
	for i := range a.Rows {
		x, y := a.Rows[i], b.Rows[i]
		switch {
		case x.Name != y.Name:
			return fmt.Sprintf("row %d: name %q -> %q", i, x.Name, y.Name)
		case x.Seq != y.Seq:
			return fmt.Sprintf("row %d (%s): residues %q -> %q", i, x.Name, x.Seq, y.Seq)
		case x.Comment != y.Comment:
			return fmt.Sprintf("row %d (%s): comment %q -> %q", i, x.Name, x.Comment, y.Comment)
		case x.ByName != y.ByName || x.ByNameOK != y.ByNameOK:
			return fmt.Sprintf("row %d: GetSequence(%q) %q,%v -> %q,%v", i, x.Name, x.ByName, x.ByNameOK, y.ByName, y.ByNameOK)
		}
	}
	return ""
}

// inconsistent: every row seen by index must be the row its name leads to
func (a snap) inconsistent() string {
	for i, r := range a.Rows {
		if !r.ByNameOK || r.ByName != r.Seq {
			return fmt.Sprintf("row %d (%s) holds %q, GetSequence(%q) gives %q,%v", i, r.Name, r.Seq, r.Name, r.ByName, r.ByNameOK)
		}
	}
	return ""
}

// ---- generators ----------------------------------------------------------------------------------

const ntChars = "ACGTACGTNRYacgtn-"
const aaChars = "ARNDCQEGHILKMFPSTWYVXarndk-*"

func size(t *rapid.T, label string, min, max int) int {
	if rapid.IntRange(0, 3).Draw(t, label+"_small") == 0 {
		return rapid.IntRange(min, max).Draw(t, label)
	}
	return min + rapid.IntRange(0, 1<<16).Draw(t, label+"_u")%(max-min+1)
}

var codons = []string{"GCT", "AAA", "TTT", "GGC", "CTG", "GAT", "CCC", "AGT", "TGG", "CAC", "ATG", "TAA", "TAG"}

// genContainer draws an alignment or a sequence set with comments. kind "orf": nucleotide rows
// made of codons with a start and a stop (for ORF search, phasing, translation)
func genContainer(t *rapid.T, alphabet string, bag bool, maxRows, maxLen int) cAli {
	a := cAli{Alphabet: alphabet, Bag: bag}
	n := size(t, "rows", 1, maxRows)
	l := size(t, "L", 1, maxLen)
	chars := ntChars
	if alphabet == "aa" {
		chars = aaChars
	}
	kind := rapid.SampledFrom([]string{"orf", "plain", "nogap"}).Draw(t, "kind")
	if alphabet == "aa" && kind == "orf" {
		kind = "plain"
	}
	if kind == "nogap" {
		if alphabet == "aa" {
			chars = gen.AA20
		} else {
			chars = "ACGT"
		}
	}
	// RNA letters, and characters that belong to no alphabet: many queries refuse them - the
	// input must be unchanged whether the call succeeds or fails
	switch rapid.IntRange(0, 9).Draw(t, "oddchars") {
	case 0:
		if alphabet == "nt" {
			chars += "Uu"
		} else {
			chars += "UOJ"
		}
	case 1:
		chars += "?!.*"
		if alphabet == "nt" {
			chars += "UuEQ"
		} else {
			chars += "Jo#"
		}
	}
	// the declared alphabet: mostly the one of the letters; sometimes UNKNOWN (never auto-detected)
	// or protein declared over letters that are nucleotide codes too
	switch rapid.IntRange(0, 9).Draw(t, "declared") {
	case 0:
		a.Declared = "unknown"
	case 1:
		if alphabet == "nt" {
			a.Declared = "aa"
		}
	}
	// names in a drawn order (an operation that sorts would move rows), of different lengths
	names := make([]string, n)
	for i, p := range gen.Perm(t, n, "nameorder") {
		names[i] = []string{"s0", "b1", "Seq2", "a_long_name_3", "s4", "Z5"}[p]
	}
	if kind == "orf" && l < 12 {
		l += 12
	}
	for i := 0; i < n; i++ {
		li := l
		if bag {
			li = rapid.IntRange(0, maxLen).Draw(t, "Li")
		}
		var s string
		if kind == "orf" {
			// [0-2 nucleotides] ATG codons... stop filler...
			b := []byte("CA"[:rapid.IntRange(0, 2).Draw(t, "lead")])
			b = append(b, "ATG"...)
			k := rapid.IntRange(0, 5).Draw(t, "ncodons")
			for j := 0; j < k; j++ {
				b = append(b, codons[rapid.IntRange(0, len(codons)-3).Draw(t, "codon")]...)
			}
			b = append(b, codons[rapid.IntRange(len(codons)-2, len(codons)-1).Draw(t, "stop")]...)
			for len(b) < li {
				b = append(b, codons[rapid.IntRange(0, len(codons)-1).Draw(t, "filler")]...)
			}
			s = string(b[:li])
		} else {
			s = gen.SeqN(t, chars, li)
		}
		a.Rows = append(a.Rows, gen.Row{Name: names[i], Seq: s})
		a.Comments = append(a.Comments, rapid.SampledFrom([]string{"", "c", "a comment", "x=1 y=2"}).Draw(t, "comment"))
	}
	return a
}
